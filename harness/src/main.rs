//! celharness — correspondence check between cel-rust (this working tree) and the Lean model.
//!
//!   celharness check <Cxx> --tier quick|thorough --seed N --model <celmodel> --corpus <file>
//!                    --known <known_findings.jsonl> --out <evidence-part.json> --replay-dir <dir>
//!   celharness replay <file> --model <celmodel>

use celharness::props::{PropDef, Tier};
use celharness::run::Case;
use celharness::{ctx, model, prng, props, run, sx};
use serde_json::{json, Value as J};
use std::collections::{BTreeMap, HashSet};
use std::time::Instant;

struct Args {
    cmd: String,
    target: String,
    tier: Tier,
    seed: u64,
    model: String,
    corpus: Option<String>,
    known: Option<String>,
    out: Option<String>,
    replay_dir: String,
    jobs: usize,
}

fn parse_args() -> Args {
    let a: Vec<String> = std::env::args().collect();
    let mut args = Args {
        cmd: a.get(1).cloned().unwrap_or_default(),
        target: a.get(2).cloned().unwrap_or_default(),
        tier: Tier::Quick,
        seed: 1,
        model: "/verif/lean/.lake/build/bin/celmodel".into(),
        corpus: None,
        known: None,
        out: None,
        replay_dir: "/verif/replays".into(),
        jobs: std::thread::available_parallelism().map(|n| n.get()).unwrap_or(4),
    };
    let mut i = 3;
    while i < a.len() {
        let v = a.get(i + 1).cloned().unwrap_or_default();
        match a[i].as_str() {
            "--tier" => args.tier = if v == "thorough" { Tier::Thorough } else { Tier::Quick },
            "--seed" => args.seed = v.parse().unwrap_or(1),
            "--model" => args.model = v,
            "--corpus" => args.corpus = Some(v),
            "--known" => args.known = Some(v),
            "--out" => args.out = Some(v),
            "--replay-dir" => args.replay_dir = v,
            "--jobs" => args.jobs = v.parse().unwrap_or(4),
            _ => {}
        }
        i += 2;
    }
    args
}

/// corpus file: one case per line, `kind<TAB>payload[<TAB>src-hex]`; `#` comments
fn load_corpus(path: &str) -> Vec<Case> {
    let mut out = vec![];
    if let Ok(text) = std::fs::read_to_string(path) {
        for line in text.lines() {
            if line.trim().is_empty() || line.starts_with('#') {
                continue;
            }
            let parts: Vec<&str> = line.split('\t').collect();
            if parts.len() == 2 && parts[0] == "src" {
                // `src<TAB>source text` under the default context
                if let Some(mut c) = run::eval_case_from_src(&ctx::CtxSpec::default_ctx(), parts[1]) {
                    c.tags = vec!["corpus"];
                    out.push(c);
                } else {
                    let mut c = Case::new("eval", format!("{} unspec", ctx::CtxSpec::default_ctx().to_sx().to_text()));
                    c.src = Some(parts[1].to_string());
                    c.tags = vec!["corpus", "uncompilable"];
                    out.push(c);
                }
                continue;
            }
            if parts.len() >= 2 {
                let mut c = Case::new(parts[0], parts[1].to_string());
                if let Some(h) = parts.get(2) {
                    c.src = Some(String::from_utf8_lossy(&sx::unhex(h)).into_owned());
                }
                c.tags = vec!["corpus"];
                out.push(c);
            }
        }
    }
    out
}

struct Known {
    id: String,
    property: String,
    status: String,
    case_contains: Vec<String>,
    impl_contains: Vec<String>,
    src_regex: Option<regex::Regex>,
    impl_regex: Option<regex::Regex>,
    what: String,
}

fn load_known(path: &str) -> Vec<Known> {
    let mut out = vec![];
    if let Ok(text) = std::fs::read_to_string(path) {
        for line in text.lines() {
            if let Ok(j) = serde_json::from_str::<J>(line) {
                let strs = |k: &str| -> Vec<String> {
                    j["match"][k].as_array().map(|a| a.iter().filter_map(|x| x.as_str().map(String::from)).collect()).unwrap_or_default()
                };
                out.push(Known {
                    id: j["id"].as_str().unwrap_or("").into(),
                    property: j["property"].as_str().unwrap_or("").into(),
                    status: j["status"].as_str().unwrap_or("").into(),
                    case_contains: strs("case_contains"),
                    impl_contains: strs("impl_contains"),
                    src_regex: j["match"]["src_regex"].as_str().and_then(|r| regex::Regex::new(r).ok()),
                    impl_regex: j["match"]["impl_regex"].as_str().and_then(|r| regex::Regex::new(r).ok()),
                    what: j["what"].as_str().unwrap_or("").into(),
                });
            }
        }
    }
    out
}

fn known_match<'a>(known: &'a [Known], prop: &str, case: &Case, impl_ans: &str) -> Option<&'a Known> {
    let hay = format!("{}\u{1}{}\u{1}{}", case.kind, case.payload, case.src.clone().unwrap_or_default());
    known.iter().find(|k| {
        k.status == "open"
            && k.property == prop
            && !(k.case_contains.is_empty() && k.impl_contains.is_empty() && k.src_regex.is_none() && k.impl_regex.is_none())
            && k.case_contains.iter().all(|s| hay.contains(s.as_str()))
            && k.impl_contains.iter().all(|s| impl_ans.contains(s.as_str()))
            && k.src_regex.as_ref().map_or(true, |r| r.is_match(case.src.as_deref().unwrap_or("")))
            && k.impl_regex.as_ref().map_or(true, |r| r.is_match(impl_ans))
    })
}

fn impl_answers(cases: &[Case], jobs: usize) -> Vec<String> {
    let jobs = jobs.max(1);
    let chunk = (cases.len() + jobs - 1) / jobs.max(1);
    if cases.is_empty() {
        return vec![];
    }
    std::thread::scope(|s| {
        let hs: Vec<_> = cases
            .chunks(chunk.max(1))
            .map(|c| {
                std::thread::Builder::new()
                    .stack_size(256 << 20)
                    .spawn_scoped(s, move || c.iter().map(run::impl_answer).collect::<Vec<_>>())
                    .unwrap()
            })
            .collect();
        hs.into_iter().flat_map(|h| h.join().unwrap()).collect()
    })
}

/// answers of the model, resolving `(need-regex p s)` requests by re-sending the case with the
/// answer computed by the `regex` crate (an external primitive, see DESIGN.md §7)
fn model_answers(model: &str, cases: &mut [Case], jobs: usize) -> Result<Vec<String>, String> {
    let strip = |l: &String| -> String { l.splitn(2, ' ').nth(1).unwrap_or("").to_string() };
    let lines: Vec<String> = cases.iter().enumerate().map(|(i, c)| c.model_line(i)).collect();
    let mut answers: Vec<String> = model::query_parallel(model, &lines, jobs)?.iter().map(strip).collect();
    for _round in 0..64 {
        let need: Vec<usize> = (0..cases.len()).filter(|&i| answers[i].contains("(need-regex")).collect();
        if need.is_empty() {
            break;
        }
        for &i in &need {
            let a = &answers[i];
            let start = a.find("(need-regex").unwrap();
            let inner = &a[start..];
            let toks: Vec<&str> = inner.trim_start_matches('(').split(|c| c == ' ' || c == ')').filter(|t| !t.is_empty()).collect();
            let pat = String::from_utf8_lossy(&sx::unhex(toks.get(1).copied().unwrap_or("x"))).into_owned();
            let s = String::from_utf8_lossy(&sx::unhex(toks.get(2).copied().unwrap_or("x"))).into_owned();
            let r = regex::Regex::new(&pat).ok().map(|re| re.is_match(&s));
            let p = sx::parse_all(&cases[i].payload);
            if let Some(mut spec) = ctx::CtxSpec::from_sx(&p[0]) {
                spec.regex.push((pat, s, r));
                let rest: Vec<String> = p[1..].iter().map(|x| x.to_text()).collect();
                cases[i].payload = format!("{} {}", spec.to_sx().to_text(), rest.join(" "));
            }
        }
        let relines: Vec<String> = need.iter().map(|&i| cases[i].model_line(i)).collect();
        let re = model::query_parallel(model, &relines, jobs)?;
        for (k, &i) in need.iter().enumerate() {
            answers[i] = strip(&re[k]);
        }
    }
    Ok(answers)
}

fn outcome_class(ans: &str) -> String {
    if ans.contains("(panic)") {
        "panic".into()
    } else if let Some(p) = ans.find("(err ") {
        ans[p + 5..].split(|c| c == ' ' || c == ')').next().unwrap_or("err").to_string()
    } else if ans.contains("(compile-error)") {
        "compile-error".into()
    } else {
        "ok".into()
    }
}

fn check(prop: &PropDef, args: &Args) -> i32 {
    let t0 = Instant::now();
    run::install_quiet_panic_hook();
    // hang watchdog: the property is violated by a call that does not come back
    {
        let limit = std::time::Duration::from_secs(std::env::var("CEL_HANG_LIMIT_S").ok().and_then(|v| v.parse().ok()).unwrap_or(if args.tier == Tier::Quick { 60 } else { 180 }));
        let (pid, dir, seed, tier) = (prop.id.to_string(), args.replay_dir.clone(), args.seed, if args.tier == Tier::Quick { "quick" } else { "thorough" });
        std::thread::spawn(move || loop {
            std::thread::sleep(std::time::Duration::from_millis(500));
            let late = run::overdue(limit);
            if !late.is_empty() {
                let _ = std::fs::create_dir_all(&dir);
                let path = format!("{dir}/{pid}-{seed}-{tier}.json");
                let cases: Vec<J> = late.iter().map(|l| json!({"case": l, "predicate_failure": format!("the implementation did not return within {} s (hang or runaway computation)", limit.as_secs()), "failing_input_found": true})).collect();
                let doc = json!({"property": pid, "seed": seed, "what": "a call into the implementation did not terminate within the time limit", "correspondence": format!("celharness check {pid}"), "cases": cases});
                let _ = std::fs::write(&path, serde_json::to_string_pretty(&doc).unwrap());
                println!("VIOLATION property={pid} replay={path}");
                use std::io::Write;
                let _ = std::io::stdout().flush();
                std::process::exit(1);
            }
        });
    }
    let mut rng = prng::Rng::new(args.seed);
    let mut cases: Vec<Case> = vec![];
    if let Some(c) = &args.corpus {
        cases.extend(load_corpus(c));
    }
    let n_corpus = cases.len();
    cases.extend((prop.generate)(args.tier, &mut rng));
    let known = args.known.as_deref().map(load_known).unwrap_or_default();
    if prop.id == "C05" {
        // the same histories, for the concurrency driver (celconc): `<ctx>\t<src>\u{1}<src>…`
        let n = if args.tier == Tier::Quick { 150 } else { 3000 };
        let mut text = String::new();
        for c in cases.iter().filter(|c| c.kind == "history").take(n) {
            let ctx_sx = sx::parse_all(&c.payload).first().map(|x| x.to_text()).unwrap_or_default();
            text.push_str(&format!("{}\t{}\n", ctx_sx, c.src.clone().unwrap_or_default()));
        }
        let _ = std::fs::create_dir_all(&args.replay_dir);
        let _ = std::fs::write(format!("{}/.c05-threads-{}.txt", args.replay_dir, args.seed), text);
    }

    let impl_ans = impl_answers(&cases, args.jobs);
    let model_ans = match model_answers(&args.model, &mut cases, args.jobs) {
        Ok(a) => a,
        Err(e) => {
            eprintln!("celharness: {e}");
            return 2;
        }
    };

    let mut distinct: HashSet<String> = HashSet::new();
    let mut tags: BTreeMap<String, u64> = BTreeMap::new();
    let mut classes: BTreeMap<String, u64> = BTreeMap::new();
    let mut disagreements = 0u64;
    let mut violations: Vec<J> = vec![];
    let mut corr_only: Vec<J> = vec![];
    let mut known_seen: BTreeMap<String, String> = BTreeMap::new();
    let mut samples: Vec<J> = vec![];
    let mut unexplained = 0u64;
    let mut map_order_retries = 0u64;
    let mut rerun_budget = 300_000u64;
    for (i, c) in cases.iter().enumerate() {
        for t in &c.tags {
            *tags.entry(t.to_string()).or_default() += 1;
        }
        *classes.entry(outcome_class(&impl_ans[i])).or_default() += 1;
        if (prop.nontrivial)(c, &impl_ans[i]) {
            distinct.insert(c.key());
        }
        if samples.len() < 6 && (i % (cases.len() / 6 + 1) == 0) {
            samples.push(json!({"case": c.model_line(i), "src": c.src, "impl": impl_ans[i], "model": model_ans[i]}));
        }
        let pred = (prop.predicate)(c, &impl_ans[i]);
        let mut differs = if c.tags.contains(&"no-model") {
            // behaviour outside the model (stated in the property's rule): only the property's own
            // predicate is evaluated on the implementation's answer
            false
        } else if c.tags.contains(&"unordered") {
            run::normalize_unordered(&impl_ans[i]) != run::normalize_unordered(&model_ans[i])
        } else {
            impl_ans[i] != model_ans[i]
        };
        if differs && c.payload.contains("(comp ") && c.payload.contains("(map (") {
            // A macro may be ranging over a map: Rust's HashMap iterates in a per-instance random
            // order, the model in insertion order. The property leaves the order unspecified, so
            // the model's answer is admissible iff some iteration order of the implementation
            // produces it: re-run (each run draws fresh hash seeds).
            for _ in 0..2000 {
                // (bounded overall, so that a genuinely broken macro cannot make the run crawl)
                if rerun_budget == 0 {
                    break;
                }
                rerun_budget -= 1;
                if run::impl_answer(c) == model_ans[i] {
                    differs = false;
                    map_order_retries += 1;
                    break;
                }
            }
        }
        if differs {
            disagreements += 1;
        }
        if pred.is_none() && !differs {
            continue;
        }
        if let Some(k) = known_match(&known, prop.id, c, &impl_ans[i]) {
            known_seen.entry(k.id.clone()).or_insert_with(|| k.what.clone());
            continue;
        }
        let failing_input = pred.is_some() || prop.functional;
        if !failing_input {
            unexplained += 1;
        }
        // failing inputs are kept in preference to mere disagreements
        let bucket = if failing_input { &mut violations } else { &mut corr_only };
        if bucket.len() < 25 {
            bucket.push(json!({
                "case": c.model_line(i),
                "kind": c.kind, "payload": c.payload, "src": c.src,
                "impl": impl_ans[i], "model": model_ans[i],
                "predicate_failure": pred,
                "failing_input_found": failing_input,
                "from_corpus": i < n_corpus,
                "variables_supplied": run::variables_supplied(c),
                "compiled_immediately_before_on_the_same_thread": c.prelude,
            }));
        }
    }
    violations.extend(corr_only.into_iter().take(15));

    for (i, why) in (prop.post)(&cases, &impl_ans) {
        if let Some(k) = known_match(&known, prop.id, &cases[i], &impl_ans[i]) {
            known_seen.entry(k.id.clone()).or_insert_with(|| k.what.clone());
            continue;
        }
        if violations.len() < 60 {
            violations.insert(0, json!({
                "case": cases[i].model_line(i), "kind": cases[i].kind, "payload": cases[i].payload, "src": cases[i].src,
                "impl": impl_ans[i], "model": model_ans[i], "predicate_failure": why, "failing_input_found": true,
                "from_corpus": i < n_corpus,
            }));
        }
    }
    for (id, what) in &known_seen {
        println!("KNOWN-FINDING: property={} {} {}", prop.id, id, what);
    }
    let mut exit = 0;
    if !violations.is_empty() {
        let _ = std::fs::create_dir_all(&args.replay_dir);
        let any_input = violations.iter().any(|v| v["failing_input_found"].as_bool().unwrap_or(false));
        let path = format!("{}/{}-{}-{}.json", args.replay_dir, prop.id, args.seed, if args.tier == Tier::Quick { "quick" } else { "thorough" });
        let doc = json!({
            "property": prop.id, "seed": args.seed,
            "what": if any_input { "failing input(s): the implementation's answer contradicts the property (predicate failure) or the model whose answer the theorems pin" }
                    else { "correspondence broken: implementation and model disagree but no property predicate failed; the theorems of this property are no longer known to transfer to the code" },
            "correspondence": format!("celharness check {} (model vs implementation on the cases below)", prop.id),
            "cases": violations,
        });
        let _ = std::fs::write(&path, serde_json::to_string_pretty(&doc).unwrap());
        if any_input {
            println!("VIOLATION property={} replay={}", prop.id, path);
        } else {
            println!("VIOLATION property={} replay={} no-failing-input-found", prop.id, path);
        }
        exit = 1;
    }
    let _ = unexplained;

    let part = json!({
        "evaluations": cases.len(),
        "distinct_nontrivial": distinct.len(),
        "rule": prop.rule,
        "samples": samples,
        "traces_validated_against_impl": cases.len(),
        "disagreements_checked": disagreements,
        "map_iteration_order_reruns": map_order_retries,
        "corpus_cases": n_corpus,
        "input_distribution": {"generator_tags": tags, "implementation_outcome_classes": classes},
        "exhaustive": false,
        "exhaustive_note": prop.exhaustive_note,
        "known_findings_seen": known_seen.keys().collect::<Vec<_>>(),
        "violations": if exit == 0 { 0 } else { violations.len() },
        "harness_wall_s": t0.elapsed().as_secs_f64(),
    });
    if let Some(out) = &args.out {
        let _ = std::fs::write(out, serde_json::to_string_pretty(&part).unwrap());
    }
    exit
}

fn replay(args: &Args) -> i32 {
    run::install_quiet_panic_hook();
    let text = match std::fs::read_to_string(&args.target) {
        Ok(t) => t,
        Err(e) => {
            eprintln!("cannot read {}: {e}", args.target);
            return 2;
        }
    };
    let doc: J = serde_json::from_str(&text).unwrap_or(J::Null);
    let prop = props::find(doc["property"].as_str().unwrap_or(""));
    let mut cases: Vec<Case> = vec![];
    for c in doc["cases"].as_array().cloned().unwrap_or_default() {
        let mut case = Case::new(c["kind"].as_str().unwrap_or(""), c["payload"].as_str().unwrap_or("").to_string());
        case.src = c["src"].as_str().map(String::from);
        cases.push(case);
    }
    let impl_ans = impl_answers(&cases, 1);
    let model_ans = model_answers(&args.model, &mut cases, 1).unwrap_or_default();
    let mut bad = 0;
    for (i, c) in cases.iter().enumerate() {
        let pred = prop.as_ref().and_then(|p| (p.predicate)(c, &impl_ans[i]));
        let m = model_ans.get(i).cloned().unwrap_or_default();
        let differs = impl_ans[i] != m;
        println!("case {}: src={:?}\n  impl : {}\n  model: {}\n  predicate: {:?}", c.model_line(i), c.src, impl_ans[i], m, pred);
        if differs || pred.is_some() {
            bad += 1;
        }
    }
    if bad > 0 {
        println!("VIOLATION property={} replay={}", doc["property"].as_str().unwrap_or("?"), args.target);
        1
    } else {
        0
    }
}

fn main() {
    let args = parse_args();
    let code = match args.cmd.as_str() {
        "check" => match props::find(&args.target) {
            Some(p) => check(&p, &args),
            None => {
                eprintln!("unknown property {}", args.target);
                2
            }
        },
        "replay" => replay(&args),
        // run the implementation alone on the cases of a corpus file (one per line) and print its
        // answers; `check` uses this to find out which in-flight input kills the process
        "one" => {
            run::install_quiet_panic_hook();
            for c in load_corpus(&args.target) {
                println!("{}", run::impl_answer(&c));
            }
            0
        }
        "catalogue" => {
            for s in ctx::host_catalogue() {
                println!("{}", s.join(" "));
            }
            0
        }
        _ => {
            eprintln!("usage: celharness check <Cxx> [--tier quick|thorough] [--seed N] ... | replay <file>");
            2
        }
    };
    std::process::exit(code);
}
