//! C09 — equality and ordering are coherent and numerically exact across types.
use super::{PropDef, Tier};
use crate::ctx::CtxSpec;
use crate::gen::*;
use crate::prng::Rng;
use crate::run::{eval_case_from_src, Case};
use crate::sx::parse_all;
use crate::wire::{sx_to_value, value_to_sx};
use cel_interpreter::objects::Key;
use cel_interpreter::Value;
use std::cmp::Ordering;
use std::sync::Arc;

pub fn def() -> PropDef {
    PropDef {
        id: "C09",
        generate,
        predicate,
        nontrivial,
        functional: true,
        rule: "all ordered pairs of a ~95-value boundary set (i64/u64 extremes, +-2^53 and neighbours, +-2^63, 2^64 as doubles, NaN, +-inf, +-0.0, subnormals, strings incl. non-ASCII and prefixes, bools, null, bytes, small lists and maps, durations, timestamps with different offsets, functions) through Value::eq and Value::partial_cmp directly (`cmp2` cases answer eq, cmp and the reversed cmp at once) and, for a sub-sample, through the six relational operators, `in`, min and max in programs; random numeric pairs around 2^53 and 2^63; the predicate evaluates the coherence laws on the implementation's own answers (!= is not ==, trichotomy, <= is < or ==, a<b iff b>a) and exactness against an i128 / exact-rational comparison computed in the harness; transitivity over all triples of the numeric and string subsets is checked from the cached pair table; non-trivial = the pair is comparable or equal-typed; distinct = distinct case text",
        post,
        exhaustive_note: "all ordered pairs (and all numeric/string triples) of the boundary set are enumerated completely",
    }
}

pub fn boundary() -> Vec<Value> {
    let mut v: Vec<Value> = vec![];
    let p53 = 1i64 << 53;
    for i in [0i64, 1, -1, 2, p53 - 1, p53, p53 + 1, p53 + 2, -p53, -p53 - 1, i64::MAX, i64::MAX - 1, i64::MAX - 512, i64::MIN, i64::MIN + 1, 1 << 62] {
        v.push(Value::Int(i));
    }
    for u in [0u64, 1, 2, p53 as u64, p53 as u64 + 1, i64::MAX as u64, i64::MAX as u64 + 1, u64::MAX, u64::MAX - 1, u64::MAX - 1024, 1 << 63] {
        v.push(Value::UInt(u));
    }
    for b in [
        0x0u64, 0x8000000000000000, 0x3ff0000000000000, 0xbff0000000000000, 0x3fe0000000000000, 0x3ff8000000000000, 0x4000000000000000,
        0x4340000000000000, 0x4340000000000001, 0x433fffffffffffff, 0xc340000000000000, 0xc340000000000001,
        0x43e0000000000000, 0x43dfffffffffffff, 0x43e0000000000001, 0xc3e0000000000000, 0xc3e0000000000001,
        0x43f0000000000000, 0x43efffffffffffff, 0x43f0000000000001, 0x7ff0000000000000, 0xfff0000000000000, 0x7ff8000000000000,
        0x0000000000000001, 0x8000000000000001, 0x7fefffffffffffff, 0x3fefffffffffffff, 0x3ff0000000000001,
    ] {
        v.push(Value::Float(f64::from_bits(b)));
    }
    for s in ["", "a", "ab", "b", "A", "é", "z", "✌", "🐱", "\u{ffff}", "\u{10000}", "aé"] {
        v.push(Value::String(Arc::new(s.to_string())));
    }
    v.push(Value::Bool(false));
    v.push(Value::Bool(true));
    v.push(Value::Null);
    for b in [vec![], vec![0u8], vec![0, 1], vec![255]] {
        v.push(Value::Bytes(Arc::new(b)));
    }
    let l = |xs: Vec<Value>| Value::List(Arc::new(xs));
    v.push(l(vec![]));
    v.push(l(vec![Value::Int(1)]));
    v.push(l(vec![Value::UInt(1)]));
    v.push(l(vec![Value::Float(1.0)]));
    v.push(l(vec![Value::Int(1), Value::Int(2)]));
    v.push(l(vec![Value::Float(f64::NAN)]));
    v.push(l(vec![l(vec![])]));
    let m = |es: Vec<(cel_interpreter::objects::Key, Value)>| Value::Map(cel_interpreter::objects::Map { map: Arc::new(es.into_iter().collect()) });
    use cel_interpreter::objects::Key;
    v.push(m(vec![]));
    v.push(m(vec![(Key::Int(1), Value::Int(1))]));
    v.push(m(vec![(Key::Uint(1), Value::Int(1))]));
    v.push(m(vec![(Key::Int(1), Value::UInt(1))]));
    v.push(m(vec![(Key::Int(1), Value::Int(1)), (Key::String(Arc::new("a".into())), Value::Null)]));
    v.push(m(vec![(Key::String(Arc::new("a".into())), Value::Null), (Key::Int(1), Value::Float(1.0))]));
    // same size, different key sets, null / falsy values (an absent key is not a null value)
    v.push(m(vec![(Key::String(Arc::new("a".into())), Value::Null)]));
    v.push(m(vec![(Key::String(Arc::new("b".into())), Value::Null)]));
    v.push(m(vec![(Key::String(Arc::new("a".into())), Value::Int(1)), (Key::String(Arc::new("b".into())), Value::Null)]));
    v.push(m(vec![(Key::String(Arc::new("a".into())), Value::Int(1)), (Key::String(Arc::new("c".into())), Value::Int(2))]));
    v.push(m(vec![(Key::Bool(false), Value::Bool(false))]));
    v.push(m(vec![(Key::Int(0), Value::Bool(false))]));
    for ns in [0i128, 1, -1, 1_000_000_000, i64::MAX as i128, (i64::MAX as i128) * 1_000_000] {
        v.push(Value::Duration(crate::wire::dur_from_ns(ns).unwrap()));
    }
    for (ns, off) in [(0i128, 0i64), (0, 3600), (1, 0), (-1, -3600), (951782400_000000000, 0), (8210266876799_999999999, 0)] {
        v.push(Value::Timestamp(crate::wire::ts_from_parts(ns, off).unwrap()));
    }
    v.push(Value::Function(Arc::new("f".into()), None));
    v.push(Value::Function(Arc::new("f".into()), Some(Box::new(Value::Int(1)))));
    v.push(Value::Function(Arc::new("g".into()), None));
    v
}

/// exact rational of a numeric value as (numerator, log2 of denominator) is overkill: compare
/// via i128 for integers and exact decomposition for doubles
fn exact_cmp(a: &Value, b: &Value) -> Option<Option<Ordering>> {
    // returns None when not both numeric
    fn parts(v: &Value) -> Option<Result<(bool, u128, i32), Option<bool>>> {
        // Ok((neg, mantissa, exp2)) value = ±m·2^e ; Err(Some(neg)) = ±inf ; Err(None) = NaN
        Some(match v {
            Value::Int(i) => Ok((*i < 0, i.unsigned_abs() as u128, 0)),
            Value::UInt(u) => Ok((false, *u as u128, 0)),
            Value::Float(f) => {
                if f.is_nan() {
                    Err(None)
                } else if f.is_infinite() {
                    Err(Some(*f < 0.0))
                } else {
                    let bits = f.to_bits();
                    let ex = ((bits >> 52) & 0x7ff) as i32;
                    let fr = bits & ((1u64 << 52) - 1);
                    let (m, e) = if ex == 0 { (fr, -1074) } else { (fr | (1 << 52), ex - 1075) };
                    Ok((bits >> 63 == 1, m as u128, e))
                }
            }
            _ => return None,
        })
    }
    let (pa, pb) = (parts(a)?, parts(b)?);
    Some(match (pa, pb) {
        (Err(None), _) | (_, Err(None)) => None,
        (Err(Some(na)), Err(Some(nb))) => Some(nb.cmp(&na)),
        (Err(Some(na)), _) => Some(if na { Ordering::Less } else { Ordering::Greater }),
        (_, Err(Some(nb))) => Some(if nb { Ordering::Greater } else { Ordering::Less }),
        (Ok((na, ma, ea)), Ok((nb, mb, eb))) => {
            // compare signed magnitudes m·2^e exactly: align exponents using a wide shift on
            // (high, low) pairs — magnitudes are < 2^64 and exponent gaps are bounded by 2098,
            // so compare by bit length first.
            let mag = |m: u128, e: i32| -> Option<(i32, u128)> {
                if m == 0 {
                    None
                } else {
                    let bl = 128 - m.leading_zeros() as i32; // bit length
                    Some((bl + e, m << (128 - bl))) // (position of the top bit, normalised mantissa)
                }
            };
            let (xa, xb) = (mag(ma, ea), mag(mb, eb));
            let abs_cmp = match (xa, xb) {
                (None, None) => Ordering::Equal,
                (None, Some(_)) => Ordering::Less,
                (Some(_), None) => Ordering::Greater,
                (Some(a), Some(b)) => a.cmp(&b),
            };
            let za = xa.is_none();
            let zb = xb.is_none();
            Some(match (na && !za, nb && !zb) {
                (false, false) => abs_cmp,
                (true, true) => abs_cmp.reverse(),
                (true, false) => Ordering::Less,
                (false, true) => Ordering::Greater,
            })
        }
    })
}

fn ord_txt(o: Option<Ordering>) -> &'static str {
    match o {
        None => "none",
        Some(Ordering::Less) => "lt",
        Some(Ordering::Equal) => "eq",
        Some(Ordering::Greater) => "gt",
    }
}

pub fn generate(tier: Tier, rng: &mut Rng) -> Vec<Case> {
    let mut out = vec![];
    let vals = boundary();
    for a in &vals {
        for b in &vals {
            let mut c = Case::new("cmp2", format!("{} {}", value_to_sx(a).to_text(), value_to_sx(b).to_text()));
            let numeric = exact_cmp(a, b).is_some();
            c.tags = vec!["pair", if numeric { "numeric" } else if std::mem::discriminant(a) == std::mem::discriminant(b) { "same-kind" } else { "cross-kind" }];
            out.push(c);
        }
    }
    // deeply nested lists and maps (10 to 120 levels): equal to an identical copy and to a clone of
    // themselves, unequal to a copy that differs at the innermost level, never ordered
    for depth in [10usize, 40, 64, 65, 66, 70, 100, 120] {
        let nest = |leaf: Value, d: usize, map: bool| -> Value {
            let mut v = leaf;
            for i in 0..d {
                v = if map && i % 2 == 1 {
                    Value::Map(cel_interpreter::objects::Map { map: Arc::new(std::collections::HashMap::from([(cel_interpreter::objects::Key::Int(0), v)])) })
                } else {
                    Value::List(Arc::new(vec![v]))
                };
            }
            v
        };
        for map in [false, true] {
            let a = nest(Value::Int(1), depth, map);
            let b = nest(Value::Int(1), depth, map);
            let c = nest(Value::Int(2), depth, map);
            let d = nest(Value::Float(1.0), depth, map);
            let shorter = nest(Value::Int(1), depth - 1, map);
            for (x, y) in [(&a, &a), (&a, &b), (&a, &c), (&a, &d), (&a, &shorter), (&c, &a)] {
                let mut case = Case::new("cmp2", format!("{} {}", value_to_sx(x).to_text(), value_to_sx(y).to_text()));
                case.tags = vec!["deep", "same-kind"];
                out.push(case);
            }
        }
    }
    // random numeric pairs near the precision cliffs
    let n = match tier {
        Tier::Quick => 4000,
        Tier::Thorough => 400_000,
    };
    let near = |rng: &mut Rng| -> Value {
        let base: i128 = *rng.pick(&[1i128 << 53, 1 << 63, 1 << 64, 1 << 62, 0, 1 << 52, (1 << 63) - 1024]);
        let delta = rng.range(-2050, 2050) as i128;
        let x = if rng.chance(1, 2) { base + delta } else { -(base + delta) };
        match rng.below(3) {
            0 => Value::Int(x.clamp(i64::MIN as i128, i64::MAX as i128) as i64),
            1 => Value::UInt(x.clamp(0, u64::MAX as i128) as u64),
            _ => {
                let f = x as f64;
                let bits = (f.to_bits() as i64 + rng.range(-2, 2)) as u64;
                Value::Float(f64::from_bits(bits))
            }
        }
    };
    for _ in 0..n {
        let (a, b) = (near(rng), near(rng));
        let mut c = Case::new("cmp2", format!("{} {}", value_to_sx(&a).to_text(), value_to_sx(&b).to_text()));
        c.tags = vec!["random", "numeric"];
        out.push(c);
    }
    // through the evaluator: the six relations, `in`, min, max on variables
    let n_prog = match tier {
        Tier::Quick => 2500,
        Tier::Thorough => 100_000,
    };
    for _ in 0..n_prog {
        let a = rng.pick(&vals).clone();
        let b = if rng.chance(1, 2) { rng.pick(&vals).clone() } else { near(rng) };
        let mut spec = CtxSpec::default_ctx();
        spec.vars.push(("a".into(), a));
        spec.vars.push(("b".into(), b));
        let src = match rng.below(4) {
            0 => "[a == b, a != b]".to_string(),
            1 => format!("a {} b", rng.pick(&["<", "<=", ">", ">=", "==", "!="])),
            2 => "[a in [b], [a].contains(b)]".to_string(),
            _ => format!("{}(a, b)", rng.pick(&["max", "min"])),
        };
        if let Some(mut c) = eval_case_from_src(&spec, &src) {
            c.tags = vec!["program"];
            out.push(c);
        }
    }
    // aliasing: one value compared with itself through every route (variables share their Arc)
    let mut alias_vals = vals.clone();
    let nan = Value::Float(f64::NAN);
    alias_vals.push(Value::List(Arc::new(vec![Value::Int(1), Value::List(Arc::new(vec![nan.clone()]))])));
    alias_vals.push(Value::Map(cel_interpreter::objects::Map { map: Arc::new([(Key::Int(1), nan.clone())].into_iter().collect()) }));
    alias_vals.push(Value::Map(cel_interpreter::objects::Map { map: Arc::new([(Key::String(Arc::new("k".into())), Value::List(Arc::new(vec![nan.clone()])))].into_iter().collect()) }));
    for a in &alias_vals {
        let mut spec = CtxSpec::default_ctx();
        spec.vars.push(("a".into(), a.clone()));
        for src in ["[a == a, a != a]", "[a in [a], [a].contains(a)]", "[[a] == [a], {'k': a} == {'k': a}, {'k': a} != {'k': a}]", "[[a].exists(x, x == x), [a].all(x, x == a), [a, a].map(x, x == a)]", "[a, a].exists_one(x, x == a)"] {
            if let Some(mut c) = eval_case_from_src(&spec, src) {
                c.tags = vec!["program", "alias"];
                out.push(c);
            }
        }
    }
    // min/max over random small lists of mutually comparable values
    for _ in 0..n_prog / 5 {
        let k = 1 + rng.below(5);
        let xs: Vec<Value> = (0..k).map(|_| near(rng)).filter(|v| !matches!(v, Value::Float(f) if f.is_nan())).collect();
        let mut spec = CtxSpec::default_ctx();
        spec.vars.push(("l".into(), Value::List(Arc::new(xs))));
        if let Some(mut c) = eval_case_from_src(&spec, "[max(l), min(l)]") {
            c.tags = vec!["program", "extremum"];
            out.push(c);
        }
    }
    let _ = gen_i64;
    out
}

pub fn predicate(case: &Case, impl_ans: &str) -> Option<String> {
    if impl_ans.contains("(panic)") {
        return Some("panicked".into());
    }
    if case.kind != "cmp2" {
        return None;
    }
    // impl answer: (cmp2 eq_ab eq_ba cmp_ab cmp_ba)
    let p = parse_all(impl_ans);
    let l = p.first()?.as_list()?;
    let (eq_ab, eq_ba, c_ab, c_ba) = (l.get(1)?.as_atom()?, l.get(2)?.as_atom()?, l.get(3)?.as_atom()?, l.get(4)?.as_atom()?);
    let payload = parse_all(&case.payload);
    let (a, b) = (sx_to_value(&payload[0])?, sx_to_value(&payload[1])?);
    // coherence on the implementation's own answers
    if eq_ab != eq_ba {
        return Some(format!("== is not symmetric: a==b is {eq_ab}, b==a is {eq_ba}"));
    }
    let rev = |s: &str| match s {
        "lt" => "gt",
        "gt" => "lt",
        o => o,
    }
    .to_string();
    if rev(c_ab) != c_ba {
        return Some(format!("a<b iff b>a fails: cmp(a,b)={c_ab}, cmp(b,a)={c_ba}"));
    }
    if c_ab != "none" && ((c_ab == "eq") != (eq_ab == "1")) {
        return Some(format!("trichotomy fails: cmp(a,b)={c_ab} but a==b is {eq_ab}"));
    }
    // exactness for numbers
    if let Some(want) = exact_cmp(&a, &b) {
        if ord_txt(want) != c_ab {
            return Some(format!("numbers compare as the numbers denoted: exact comparison is {}, implementation says {c_ab}", ord_txt(want)));
        }
        if (want == Some(Ordering::Equal)) != (eq_ab == "1") {
            return Some(format!("exact equality is {}, implementation says {eq_ab}", want == Some(Ordering::Equal)));
        }
    } else if std::mem::discriminant(&a) != std::mem::discriminant(&b) {
        let numeric = |v: &Value| matches!(v, Value::Int(_) | Value::UInt(_) | Value::Float(_));
        if !(numeric(&a) && numeric(&b)) && (eq_ab == "1" || c_ab != "none") {
            return Some("values of unrelated types must be unequal and unordered".into());
        }
    }
    None
}

pub fn nontrivial(case: &Case, _impl_ans: &str) -> bool {
    !case.tags.contains(&"cross-kind")
}

/// transitivity of the order and of equality over all triples of the pair table
pub fn post(cases: &[Case], impl_ans: &[String]) -> Vec<(usize, String)> {
    use std::collections::HashMap;
    let mut idx: HashMap<String, usize> = HashMap::new();
    let mut vals: Vec<String> = vec![];
    let mut table: HashMap<(usize, usize), (String, bool, usize)> = HashMap::new();
    for (i, c) in cases.iter().enumerate() {
        if c.kind != "cmp2" || !c.tags.contains(&"pair") {
            continue;
        }
        let p = parse_all(&c.payload);
        if p.len() != 2 {
            continue;
        }
        let mut id = |s: String| -> usize {
            if let Some(k) = idx.get(&s) {
                *k
            } else {
                vals.push(s.clone());
                idx.insert(s, vals.len() - 1);
                vals.len() - 1
            }
        };
        let (a, b) = (id(p[0].to_text()), id(p[1].to_text()));
        let ans = parse_all(&impl_ans[i]);
        if let Some(l) = ans.first().and_then(|x| x.as_list()) {
            if l.len() == 5 {
                table.insert((a, b), (l[3].as_atom().unwrap_or("none").to_string(), l[1].as_atom() == Some("1"), i));
            }
        }
    }
    let n = vals.len();
    let mut out = vec![];
    for a in 0..n {
        for b in 0..n {
            let Some((ab, eab, _)) = table.get(&(a, b)) else { continue };
            if ab == "none" && !eab {
                continue;
            }
            for c in 0..n {
                let (Some((bc, ebc, _)), Some((ac, eac, i))) = (table.get(&(b, c)), table.get(&(a, c))) else { continue };
                if ab != "none" && ab == bc && ac != ab {
                    out.push((*i, format!("order not transitive: {} {ab} {} {bc} {} but cmp(a,c)={ac}", vals[a], vals[b], vals[c])));
                }
                if *eab && *ebc && !*eac {
                    out.push((*i, format!("== not transitive: {} == {} == {} but a != c", vals[a], vals[b], vals[c])));
                }
                if out.len() > 20 {
                    return out;
                }
            }
        }
    }
    out
}
