//! C14 — list, map and string operations agree with one another.
use super::{PropDef, Tier};
use crate::ctx::CtxSpec;
use crate::gen::{gen_string, str_literal};
use crate::prng::Rng;
use crate::run::{eval_case_from_src, Case};
use cel_interpreter::objects::{Key, Map};
use cel_interpreter::Value;
use std::collections::HashMap;
use std::sync::Arc;

pub fn def() -> PropDef {
    PropDef {
        id: "C14",
        generate,
        predicate,
        nontrivial,
        functional: true,
        rule: "all maps with <= 3 (quick) / <= 4 (thorough) distinct keys over the key alphabet {1, 2, 1u, 2u, 3u, true, 'a', 'b'} with non-null values, written as literals and supplied as context variables, each queried with every key of the alphabet, the int/uint twin of every numeric key and absent keys through `k in m`, `m.contains(k)`, `m[k] != null`, and for the string keys `has(m.k)` / `m.k`; entries whose value is the zero / empty value of its kind queried every way; all int lists up to length 4 indexed with -2..len+1 and the i64 extremes; random strings and lists for size(a+b) = size(a)+size(b), order preservation, operands intact and `x in l` iff exists; the predicate recomputes presence / elements from the written map or list; non-trivial = the container is non-empty; distinct = distinct (context, source)",
        post: super::no_post,
        exhaustive_note: "maps up to 3 keys x all queries and lists up to length 4 x all indices are enumerated completely in the quick tier",
    }
}

#[derive(Clone, Debug, PartialEq)]
enum K {
    I(i64),
    U(u64),
    B(bool),
    S(&'static str),
}
impl K {
    fn src(&self) -> String {
        match self {
            K::I(i) => i.to_string(),
            K::U(u) => format!("{u}u"),
            K::B(b) => b.to_string(),
            K::S(s) => format!("'{s}'"),
        }
    }
    fn key(&self) -> Key {
        match self {
            K::I(i) => Key::Int(*i),
            K::U(u) => Key::Uint(*u),
            K::B(b) => Key::Bool(*b),
            K::S(s) => Key::String(Arc::new(s.to_string())),
        }
    }
    /// same key up to int/uint numeric equality
    fn same(&self, other: &K) -> bool {
        match (self, other) {
            (K::I(a), K::U(b)) | (K::U(b), K::I(a)) => *a >= 0 && *a as u64 == *b,
            (a, b) => a == b,
        }
    }
}
const ALPHABET: [K; 8] = [K::I(1), K::I(2), K::U(1), K::U(2), K::U(3), K::B(true), K::S("a"), K::S("b")];
const QUERIES: [K; 12] = [K::I(1), K::I(2), K::I(3), K::I(-1), K::U(1), K::U(2), K::U(3), K::B(true), K::B(false), K::S("a"), K::S("b"), K::S("zz")];

thread_local! {
    static EXPECT: std::cell::RefCell<HashMap<String, String>> = std::cell::RefCell::new(HashMap::new());
}

fn push(out: &mut Vec<Case>, spec: &CtxSpec, src: String, want: Option<String>, tags: Vec<&'static str>) {
    if let Some(mut c) = eval_case_from_src(spec, &src) {
        c.tags = tags;
        if let Some(w) = want {
            EXPECT.with(|e| e.borrow_mut().insert(c.key(), format!("(res {w} (log))")));
        }
        out.push(c);
    }
}

fn subsets_of(n: usize, max: usize) -> Vec<Vec<usize>> {
    let mut out = vec![];
    for mask in 0u32..(1 << n) {
        if (mask.count_ones() as usize) <= max {
            out.push((0..n).filter(|i| mask & (1 << i) != 0).collect());
        }
    }
    out
}

const EXTREME: [K; 9] = [K::I(-1), K::I(i64::MIN), K::I(i64::MAX), K::I(0), K::U(0), K::U(9223372036854775808), K::U(u64::MAX), K::S(""), K::S("é")];
const EXTREME_QUERIES: [K; 12] = [K::I(-1), K::I(-2), K::I(i64::MIN), K::I(i64::MAX), K::I(0), K::U(0), K::U(9223372036854775807), K::U(9223372036854775808), K::U(u64::MAX), K::S(""), K::S("é"), K::B(false)];

fn map_cases(out: &mut Vec<Case>, tier: Tier, alphabet: &[K], queries: &[K], max_keys: usize) {
    let default = CtxSpec::default_ctx();
    for (si, subset) in subsets_of(alphabet.len(), max_keys).iter().enumerate() {
        let keys: Vec<&K> = subset.iter().map(|i| &alphabet[*i]).collect();
        let lit = format!("{{{}}}", keys.iter().enumerate().map(|(j, k)| format!("{}: {}", k.src(), 10 + j)).collect::<Vec<_>>().join(", "));
        let mut hm = HashMap::new();
        for (j, k) in keys.iter().enumerate() {
            hm.insert(k.key(), Value::Int(10 + j as i64));
        }
        let mut spec = CtxSpec::default_ctx();
        spec.vars.push(("m".into(), Value::Map(Map { map: Arc::new(hm) })));
        // quick tier: literal form for every subset, variable form for every third
        let forms: Vec<(&CtxSpec, String, &'static str)> = if tier == Tier::Thorough || si % 3 == 0 { vec![(&default, lit.clone(), "literal"), (&spec, "m".to_string(), "variable")] } else { vec![(&default, lit.clone(), "literal")] };
        for (sp, m, form) in forms {
            for q in queries {
                // presence: the typed key, or its numeric twin
                let present = keys.iter().any(|k| k.same(q));
                let tag = if keys.is_empty() { "empty" } else { "map" };
                let src = format!("[{} in {m}, {m}.contains({}), {m}[{}] != null]", q.src(), q.src(), q.src());
                push(out, sp, src, Some(format!("(ok (list {} {} {}))", b(present), b(present), b(present))), vec![tag, form]);
                if let K::S(name) = q.clone() { if name.is_empty() || !name.is_ascii() { continue; }
                    let src = format!("has({m}.{name})");
                    push(out, sp, src, Some(format!("(ok {})", b(present))), vec![tag, form, "has"]);
                    if present {
                        let src = format!("{m}.{name} == {m}['{name}']");
                        push(out, sp, src, Some(format!("(ok {})", b(true))), vec![tag, form, "select"]);
                    }
                }
            }
            // reading returns the value written under that very key (an int key and the uint key
            // denoting the same number are two entries with values of their own)
            for (j, k) in keys.iter().enumerate() {
                push(out, sp, format!("{m}[{}]", k.src()), Some(format!("(ok (int {}))", 10 + j)), vec!["map", form, "read-own-value"]);
            }
            // the map contains exactly the entries written
            let src = format!("size({m})");
            push(out, sp, src, Some(format!("(ok (int {}))", keys.len())), vec![if keys.is_empty() { "empty" } else { "map" }, form, "size"]);
        }
    }
}

fn b(x: bool) -> String {
    format!("(bool {})", x as u8)
}

pub fn generate(tier: Tier, rng: &mut Rng) -> Vec<Case> {
    let mut out = vec![];
    let default = CtxSpec::default_ctx();
    let max_keys = match tier {
        Tier::Quick => 3,
        Tier::Thorough => 4,
    };
    map_cases(&mut out, tier, &ALPHABET, &QUERIES, max_keys);
    // keys at the edges of their ranges: negative ints, uints beyond i64, the i64 extremes, empty and
    // non-ASCII strings (the int/uint twin lookup must not disturb keys that have no twin)
    map_cases(&mut out, tier, &EXTREME, &EXTREME_QUERIES, 2);
    // membership across numeric kinds: `x in l`, `l.contains(x)` and `l.exists(e, e == x)` agree, and
    // equal numbers of different kinds are the same element
    for (l, present) in [("[1u]", true), ("[1.0]", true), ("[2u, 3.0]", false), ("[1, 2]", true), ("[0u, 1u]", true), ("[-1.0, 1.5]", false), ("[[1u]]", false), ("[]", false)] {
        for x in ["1", "1u", "1.0"] {
            push(&mut out, &default, format!("[{x} in {l}, {l}.contains({x}), {l}.exists(e, e == {x})]"), Some(format!("(ok (list {0} {0} {0}))", b(present))), vec!["list", "cross-numeric-membership"]);
        }
    }
    for (m, present) in [("{1u: 0}", true), ("{1: 0}", true), ("{2: 0}", false), ("{true: 1}", false)] {
        for x in ["1", "1u"] {
            push(&mut out, &default, format!("[{x} in {m}, {m}.contains({x}), {m}[{x}] != null]"), Some(format!("(ok (list {0} {0} {0}))", b(present))), vec!["map", "cross-numeric-membership"]);
        }
    }
    // length sweep: every operation on lists, strings, bytes and maps at sizes around the usual
    // thresholds of small-size fast paths and growth policies (8, 16, 32, 64, 256, 1000)
    for n in [0usize, 1, 2, 7, 8, 9, 15, 16, 17, 31, 32, 33, 63, 64, 65, 127, 128, 129, 255, 256, 257, 1000] {
        let items: Vec<i64> = (0..n as i64).collect();
        let mut spec = CtxSpec::default_ctx();
        spec.vars.push(("l".into(), Value::List(Arc::new(items.iter().map(|v| Value::Int(*v)).collect()))));
        spec.vars.push(("s".into(), Value::String(Arc::new("é".repeat(n)))));
        spec.vars.push(("bs".into(), Value::Bytes(Arc::new(vec![7u8; n]))));
        let mut hm = HashMap::new();
        for v in &items {
            hm.insert(Key::Int(*v), Value::Int(*v * 2));
        }
        spec.vars.push(("m".into(), Value::Map(Map { map: Arc::new(hm) })));
        let last = n as i64 - 1;
        for src in [
            "[size(l), size(s), size(bs), size(m)]".to_string(),
            format!("[l[0], l[{last}], l[{n}], m[0], m[{last}], m[{n}], s[0]]").replace("[-1]", "[0 - 1]"),
            format!("[{last} in l, {n} in l, {last} in m, {n} in m, l.contains({last}), m.contains({n})]").replace("-1 in", "(0 - 1) in").replace("(-1)", "(0 - 1)"),
            "[size(l + l), size(l + [1]), size([1] + l), (l + l)[size(l)], size(s + s), size(bs + bs)]".to_string(),
            "[l.map(x, x + 1).size(), l.filter(x, x % 2 == 0).size(), l.all(x, x >= 0), l.exists(x, x == size(l) - 1), l.exists_one(x, x == 0)]".to_string(),
            "[m.map(k, k).size(), m.all(k, m[k] == k * 2), m.exists(k, k == size(m) - 1)]".to_string(),
            "[l == l + [], l + [1] == l, l.map(x, x) == l, max(l + [0 - 1]), min(l + [5])]".to_string(),
            "[s.contains('éé'), s.startsWith('é'), s.endsWith('éé'), s == s + '', bs.contains(b'\x07\x07')]".to_string(),
        ] {
            push(&mut out, &spec, src, None, vec!["list", "length-sweep"]);
        }
    }
    // needles that have equality but no ordering (lists, maps, bytes, null): membership is by ==
    for (needle, hay, present) in [("[1]", "[2, [1]]", true), ("{}", "['a', [], {}]", true), ("{'k': 1}", "[1, {'k': 1}, 2]", true), ("b'a'", "[b'a', null, 1.0]", true), ("null", "[1, null]", true), ("[]", "[[1], 'x']", false), ("[1, 2]", "[[2, 1]]", false), ("{'k': 1}", "[{'k': 2}]", false)] {
        push(&mut out, &default, format!("[{needle} in {hay}, {hay}.contains({needle}), {hay}.exists(e, e == {needle})]"), Some(format!("(ok (list {0} {0} {0}))", b(present))), vec!["list", "unordered-needle"]);
    }
    // int / uint twins written together in one literal are two entries
    push(&mut out, &default, "[size({1: 'a', 1u: 'b'}), {1: 'a', 1u: 'b'}[1], {1: 'a', 1u: 'b'}[1u], size({0u: 'z', 'k': 1, true: 2, 0: 'i'}), {0u: 'z', 0: 'i'}[0u]]".into(), Some("(ok (list (int 2) (str x61) (str x62) (int 4) (str x7a)))".into()), vec!["map", "twin-literal"]);
    // bool keys through every route
    for (m, k, present) in [("{true: 1}", "true", true), ("{true: 1}", "false", false), ("{false: 1, true: 2}", "false", true), ("{}", "true", false)] {
        push(&mut out, &default, format!("[{k} in {m}, {m}.contains({k}), {m}[{k}] != null]"), Some(format!("(ok (list {0} {0} {0}))", b(present))), vec!["map", "bool-key"]);
    }
    // field names that are also names of registered functions: `has`, `in`, `contains` and
    // indexing must agree there too (selection falls back to a function value, `has` must not)
    for fname in ["size", "min", "max", "contains", "string", "int", "matches", "startsWith", "duration", "getHours"] {
        for present in [false, true] {
            let lit = if present { format!("{{'{fname}': 1, 'other': 2}}") } else { "{'other': 2}".to_string() };
            let mut hm = HashMap::new();
            hm.insert(Key::String(Arc::new("other".into())), Value::Int(2));
            if present {
                hm.insert(Key::String(Arc::new(fname.to_string())), Value::Int(1));
            }
            let mut spec = CtxSpec::default_ctx();
            spec.vars.push(("m".into(), Value::Map(Map { map: Arc::new(hm) })));
            for (sp, m) in [(&default, lit.clone()), (&spec, "m".to_string())] {
                push(&mut out, sp, format!("[has({m}.{fname}), '{fname}' in {m}, {m}.contains('{fname}'), {m}['{fname}'] != null]"), Some(format!("(ok (list {0} {0} {0} {0}))", b(present))), vec!["map", "function-named-field"]);
                if present {
                    // … and selection reads the entry, as indexing does (the function of that name
                    // is what selection falls back to only when there is no such entry)
                    push(&mut out, sp, format!("[{m}.{fname} == {m}['{fname}'], {m}.{fname}, {m}.other == {m}['other']]"), Some("(ok (list (bool 1) (int 1) (bool 1)))".to_string()), vec!["map", "function-named-field", "select"]);
                }
            }
        }
    }
    // string keys that spell numbers are string keys: a numeric query never reaches them, by any
    // route, and the reverse
    for (m, qs) in [("{'1': 'x', '-3': 'y', '2u': 'z'}", ["1", "1u", "-3", "2u", "1.0", "'1'", "'-3'", "'2u'", "'2'"]), ("{1: 'x', 2u: 'y'}", ["'1'", "'2'", "'2u'", "1", "2u", "2", "1u", "'1.0'", "true"])] {
        for q in qs {
            push(&mut out, &default, format!("[{q} in {m}, {m}.contains({q}), {m}[{q}] != null]"), None, vec!["map", "numeric-looking-string-keys"]);
        }
    }
    // presence is about the key, not about the value: entries whose values are the zero / empty
    // value of their kind are as present as any other, for every way of asking
    for (vsrc, v) in [
        ("0", Value::Int(0)), ("0u", Value::UInt(0)), ("0.0", Value::Float(0.0)), ("''", Value::String(Arc::new(String::new()))), ("false", Value::Bool(false)), ("[]", Value::List(Arc::new(vec![]))),
        ("{}", Value::Map(Map { map: Arc::new(HashMap::new()) })), ("b''", Value::Bytes(Arc::new(vec![]))), ("1", Value::Int(1)), ("'x'", Value::String(Arc::new("x".into()))),
    ] {
        let lit = format!("{{'k': {vsrc}, 'other': 2}}");
        let mut hm = HashMap::new();
        hm.insert(Key::String(Arc::new("other".into())), Value::Int(2));
        hm.insert(Key::String(Arc::new("k".into())), v.clone());
        let mut spec = CtxSpec::default_ctx();
        spec.vars.push(("m".into(), Value::Map(Map { map: Arc::new(hm) })));
        for (sp, m) in [(&default, lit.clone()), (&spec, "m".to_string())] {
            push(&mut out, sp, format!("[has({m}.k), 'k' in {m}, {m}.contains('k'), {m}['k'] != null, {m}.k == {vsrc}, has({m}.absent), 'absent' in {m}]"), Some("(ok (list (bool 1) (bool 1) (bool 1) (bool 1) (bool 1) (bool 0) (bool 0)))".to_string()), vec!["map", "zero-valued-entry"]);
            push(&mut out, sp, format!("[{m}].all(e, has(e.k)) && [{m}].exists(e, 'k' in e) && size({m}) == 2"), Some("(ok (bool 1))".to_string()), vec!["map", "zero-valued-entry"]);
        }
    }
    // the map that is asked may itself be reached by selection: has() over a path of two or three
    // steps agrees with the other routes applied to the map the path leads to
    {
        let inner = |present: bool| { let mut hm = HashMap::new(); hm.insert(Key::String(Arc::new("b".into())), Value::String(Arc::new("x".into()))); if present { hm.insert(Key::String(Arc::new("a".into())), Value::Int(1)); } Value::Map(Map { map: Arc::new(hm) }) };
        for present in [false, true] {
            let ilit = if present { "{'a': 1, 'b': 'x'}" } else { "{'b': 'x'}" };
            let mut o = HashMap::new();
            o.insert(Key::String(Arc::new("inner".into())), inner(present));
            o.insert(Key::String(Arc::new("n".into())), Value::Int(7));
            let mut deep = HashMap::new();
            deep.insert(Key::String(Arc::new("mid".into())), Value::Map(Map { map: Arc::new(o.clone()) }));
            let mut spec = CtxSpec::default_ctx();
            spec.vars.push(("o".into(), Value::Map(Map { map: Arc::new(o) })));
            spec.vars.push(("d".into(), Value::Map(Map { map: Arc::new(deep) })));
            let olit = format!("{{'inner': {ilit}, 'n': 7}}");
            let dlit = format!("{{'mid': {olit}}}");
            for (sp, path) in [(&spec, "o.inner".to_string()), (&default, format!("{olit}.inner")), (&spec, "d.mid.inner".to_string()), (&default, format!("{dlit}.mid.inner")), (&spec, "o['inner']".to_string()), (&spec, "d.mid['inner']".to_string())] {
                push(&mut out, sp, format!("[has({path}.a), 'a' in {path}, {path}.contains('a'), {path}['a'] != null, has({path}.b), {path}.b == {path}['b']]"), Some(format!("(ok (list {0} {0} {0} {0} (bool 1) (bool 1)))", b(present))), vec!["map", "has-over-path"]);
            }
            push(&mut out, &spec, "[has(o.inner), has(o.n), has(o.absent), has(d.mid.inner), has(d.mid.absent), has(d.mid)]".into(), Some("(ok (list (bool 1) (bool 1) (bool 0) (bool 1) (bool 0) (bool 1)))".into()), vec!["map", "has-over-path"]);
        }
    }
    // lists: every index in -2..len+1 and the i64 extremes
    let vals = [7i64, -8, 9, 0];
    for len in 0..=4usize {
        let l: Vec<i64> = (0..len).map(|i| vals[i]).collect();
        let lit = format!("[{}]", l.iter().map(|v| if *v < 0 { format!("({v})") } else { v.to_string() }).collect::<Vec<_>>().join(", "));
        let mut idxs: Vec<i64> = (-2..=(len as i64 + 1)).collect();
        idxs.extend([i64::MAX, i64::MIN, i64::MAX - 1, 4294967296, -4294967296]);
        for i in idxs {
            let want = if i >= 0 && (i as usize) < len { format!("(ok (int {}))", l[i as usize]) } else { "(ok null)".to_string() };
            let isrc = if i < 0 { format!("({i})") } else { i.to_string() };
            push(&mut out, &default, format!("{lit}[{isrc}]"), Some(want.clone()), vec![if len == 0 { "empty" } else { "list" }, "index"]);
            let mut spec = CtxSpec::default_ctx();
            spec.vars.push(("l".into(), Value::List(Arc::new(l.iter().map(|v| Value::Int(*v)).collect()))));
            spec.vars.push(("i".into(), Value::Int(i)));
            push(&mut out, &spec, "l[i]".to_string(), Some(want), vec![if len == 0 { "empty" } else { "list" }, "index", "variable"]);
        }
    }
    // additive laws on random strings and lists
    let n = match tier {
        Tier::Quick => 1500,
        Tier::Thorough => 150_000,
    };
    for _ in 0..n {
        let (a, bb) = (gen_string(rng), gen_string(rng));
        let mut spec = CtxSpec::default_ctx();
        spec.vars.push(("x".into(), Value::String(Arc::new(a.clone()))));
        spec.vars.push(("y".into(), Value::String(Arc::new(bb.clone()))));
        let tag = if a.is_empty() && bb.is_empty() { "empty" } else { "string" };
        push(&mut out, &spec, "[size(x + y) == size(x) + size(y), x + y, x, y]".into(), Some(format!("(ok (list (bool 1) (str {}) (str {}) (str {})))", crate::sx::hex((a.clone() + &bb).as_bytes()), crate::sx::hex(a.as_bytes()), crate::sx::hex(bb.as_bytes()))), vec![tag, "additive"]);
        push(&mut out, &default, format!("size({} + {}) == size({}) + size({})", str_literal(&a), str_literal(&bb), str_literal(&a), str_literal(&bb)), Some("(ok (bool 1))".into()), vec![tag, "additive", "literal"]);
        let la: Vec<i64> = (0..rng.below(5)).map(|_| rng.range(-3, 3)).collect();
        let lb: Vec<i64> = (0..rng.below(5)).map(|_| rng.range(-3, 3)).collect();
        let ints = |v: &[i64]| v.iter().map(|i| format!(" (int {i})")).collect::<String>();
        let mut spec = CtxSpec::default_ctx();
        spec.vars.push(("x".into(), Value::List(Arc::new(la.iter().map(|v| Value::Int(*v)).collect()))));
        spec.vars.push(("y".into(), Value::List(Arc::new(lb.iter().map(|v| Value::Int(*v)).collect()))));
        let mut cat = la.clone();
        cat.extend(&lb);
        let tag = if cat.is_empty() { "empty" } else { "list" };
        push(&mut out, &spec, "[size(x + y) == size(x) + size(y), x + y, x, y, (x + y) + x]".into(), Some(format!("(ok (list (bool 1) (list{}) (list{}) (list{}) (list{}{})))", ints(&cat), ints(&la), ints(&lb), ints(&cat), ints(&la))), vec![tag, "additive"]);
        // the same with every mix of operand provenance: literal / variable / computed temporary
        // (a uniquely owned operand invites in-place reuse of its buffer), lengths up to 6
        let lc: Vec<i64> = (0..rng.below(7)).map(|_| rng.range(10, 40)).collect();
        let lsrc = |v: &[i64]| format!("[{}]", v.iter().map(|i| if *i < 0 { format!("({i})") } else { i.to_string() }).collect::<Vec<_>>().join(", "));
        let forms = |name: &str, v: &[i64]| -> Vec<String> { vec![name.to_string(), lsrc(v), format!("{}.map(e, e)", lsrc(v)), format!("({} + [])", name)] };
        for a in forms("x", &la) {
            for b2 in forms("y", &lb).into_iter().chain([lsrc(&lc)]) {
                let bv: &Vec<i64> = if b2 == lsrc(&lc) { &lc } else { &lb };
                let mut cat2 = la.clone();
                cat2.extend(bv);
                push(&mut out, &spec, format!("[{a} + {b2}, x, y]"), Some(format!("(ok (list (list{}) (list{}) (list{})))", ints(&cat2), ints(&la), ints(&lb))), vec![if cat2.is_empty() { "empty" } else { "list" }, "concat-forms"]);
            }
        }
        // the string tests against concatenation (C14b: startsWith / endsWith / contains / `in` are
        // characterised by `+`): each operand of x + n + y is found where it was put, and for short
        // strings over a three-letter alphabet (so that hits and misses are both frequent) the four
        // tests answer as a character-wise recomputation does
        {
            let nn = gen_string(rng);
            let mut spec = CtxSpec::default_ctx();
            spec.vars.push(("x".into(), Value::String(Arc::new(a.clone()))));
            spec.vars.push(("n".into(), Value::String(Arc::new(nn.clone()))));
            spec.vars.push(("y".into(), Value::String(Arc::new(bb.clone()))));
            push(&mut out, &spec, "[(x + n + y).contains(n), n in (x + n + y), (x + n + y).startsWith(x), (x + n + y).endsWith(y), (x + n).endsWith(n), (n + y).startsWith(n), (x + n + y).contains(x + n), (x + n + y).contains(n + y), x.contains(''), x.startsWith(''), x.endsWith(''), x.contains(x), x + n + y == x + (n + y)]".into(), Some(format!("(ok (list{}))", " (bool 1)".repeat(13))), vec!["string", "string-tests", "concat"]);
            let small = |rng: &mut Rng, max: u64| -> String { (0..rng.below(max + 1)).map(|_| *rng.pick(&['a', 'b', 'é'])).collect() };
            let (t, q) = (small(rng, 6), small(rng, 3));
            let (tc, qc): (Vec<char>, Vec<char>) = (t.chars().collect(), q.chars().collect());
            let starts = tc.len() >= qc.len() && tc[..qc.len()] == qc[..];
            let ends = tc.len() >= qc.len() && tc[tc.len() - qc.len()..] == qc[..];
            let inside = (0..=tc.len().saturating_sub(qc.len())).any(|i| tc.len() >= qc.len() && tc[i..i + qc.len()] == qc[..]);
            let mut spec = CtxSpec::default_ctx();
            spec.vars.push(("t".into(), Value::String(Arc::new(t.clone()))));
            spec.vars.push(("q".into(), Value::String(Arc::new(q.clone()))));
            let want = format!("(ok (list {} {} {} {}))", b(inside), b(inside), b(starts), b(ends));
            let tag = if inside { "hit" } else { "miss" };
            push(&mut out, &spec, "[t.contains(q), q in t, t.startsWith(q), t.endsWith(q)]".into(), Some(want.clone()), vec!["string", "string-tests", tag]);
            push(&mut out, &default, format!("[{0}.contains({1}), {1} in {0}, {0}.startsWith({1}), {0}.endsWith({1})]", str_literal(&t), str_literal(&q)), Some(want), vec!["string", "string-tests", "literal", tag]);
        }
        let probe = rng.range(-3, 3);
        let psrc = if probe < 0 { format!("({probe})") } else { probe.to_string() };
        push(&mut out, &spec, format!("[{psrc} in x, x.exists(e, e == {psrc}), x.contains({psrc})]"), Some(format!("(ok (list {0} {0} {0}))", b(la.contains(&probe)))), vec![tag, "membership"]);
    }
    out
}

pub fn predicate(case: &Case, impl_ans: &str) -> Option<String> {
    if impl_ans.contains("(panic)") {
        return Some("panicked".into());
    }
    let want = EXPECT.with(|e| e.borrow().get(&case.key()).cloned())?;
    if want != impl_ans {
        Some(format!("the agreement laws prescribe {want}, implementation answered {impl_ans}"))
    } else {
        None
    }
}

pub fn nontrivial(case: &Case, _impl_ans: &str) -> bool {
    !case.tags.contains(&"empty")
}
