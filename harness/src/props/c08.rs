//! C08 — 64-bit integer arithmetic is exact or reports overflow.
use super::{PropDef, Tier};
use crate::ctx::CtxSpec;
use crate::prng::Rng;
use crate::run::{eval_case_from_src, Case};
use crate::sx::parse_all;
use cel_interpreter::Value;

pub fn def() -> PropDef {
    PropDef {
        id: "C08",
        generate,
        predicate,
        nontrivial,
        functional: true,
        rule: "all ordered pairs of a 60-element i64 boundary set and a 60-element u64 boundary set under + - * / % (direct Value operators, literals in source text, context variables), unary minus over the set (also nested), chains of 3-5 operands whose partial results overflow while the total fits (and the reverse), flat and right-nested, mixed int/uint/double pairs, plus uniform and log-uniform random pairs; a case is non-trivial when both operands are integers of the same kind (it reaches a checked_* arm); distinct = distinct (form, op, a, b)",
        post: super::no_post,
        exhaustive_note: "boundary-pair enumeration is complete; random pairs are a sample",
    }
}

pub fn i64_boundary() -> Vec<i64> {
    let mut v: Vec<i64> = vec![];
    for k in [0i64, 1, 2, 3, 7, 10, 255, 256, 65535, 65536] {
        v.push(k);
        v.push(-k);
    }
    for sh in [15u32, 16, 31, 32, 33, 47, 52, 53, 62] {
        let p = 1i64 << sh;
        v.extend([p - 1, p, p + 1, -(p - 1), -p, -(p + 1)]);
    }
    v.extend([3037000499, 3037000500, -3037000499, -3037000500]); // floor(sqrt(2^63))
    v.extend([i64::MAX, i64::MAX - 1, i64::MIN, i64::MIN + 1, i64::MAX / 2, i64::MAX / 2 + 1, i64::MIN / 2, i64::MIN / 2 - 1]);
    v.sort();
    v.dedup();
    v.truncate(usize::MAX);
    v
}

pub fn u64_boundary() -> Vec<u64> {
    let mut v: Vec<u64> = vec![0, 1, 2, 3, 7, 10, 255, 256, 65535, 65536];
    for sh in [15u32, 16, 31, 32, 33, 47, 52, 53, 62, 63] {
        let p = 1u64 << sh;
        v.extend([p - 1, p, p + 1]);
    }
    v.extend([4294967295, 4294967296, 4294967297, 6074000999, 6074001000]);
    v.extend([u64::MAX, u64::MAX - 1, u64::MAX / 2, u64::MAX / 2 + 1, u64::MAX / 3, i64::MAX as u64, i64::MAX as u64 + 1]);
    v.sort();
    v.dedup();
    v
}

const OPS: [(&str, &str); 5] = [("add", "+"), ("sub", "-"), ("mul", "*"), ("div", "/"), ("rem", "%")];

fn lit_i(i: i64) -> String {
    format!("(int {i})")
}
fn lit_u(u: u64) -> String {
    format!("(uint {u})")
}

fn direct(op: &str, a: String, b: String, tag: &'static str) -> Case {
    let mut c = Case::new("binop", format!("{op} {a} {b}"));
    c.tags = vec!["direct", tag];
    c
}

fn src_case(spec: &CtxSpec, src: String, tags: Vec<&'static str>) -> Option<Case> {
    let mut c = eval_case_from_src(spec, &src)?;
    c.tags = tags;
    Some(c)
}

fn log_uniform_i64(rng: &mut Rng) -> i64 {
    let bits = rng.below(64) as u32;
    let mag = if bits == 0 { 0 } else { rng.next() >> (64 - bits) };
    let v = mag as i64;
    if rng.chance(1, 2) {
        v.wrapping_neg()
    } else {
        v
    }
}
fn log_uniform_u64(rng: &mut Rng) -> u64 {
    let bits = rng.below(65) as u32;
    if bits == 0 {
        0
    } else {
        rng.next() >> (64 - bits)
    }
}

pub fn generate(tier: Tier, rng: &mut Rng) -> Vec<Case> {
    let mut out = vec![];
    let ib = i64_boundary();
    let ub = u64_boundary();
    let default = CtxSpec::default_ctx();
    // exhaustive boundary pairs, direct operators
    for (op, _) in OPS {
        for &a in &ib {
            for &b in &ib {
                out.push(direct(op, lit_i(a), lit_i(b), "int"));
            }
        }
        for &a in &ub {
            for &b in &ub {
                out.push(direct(op, lit_u(a), lit_u(b), "uint"));
            }
        }
    }
    // through the evaluator: literals and context variables
    let (isub, usub): (Vec<i64>, Vec<u64>) = match tier {
        Tier::Thorough => (ib.clone(), ub.clone()),
        Tier::Quick => (
            ib.iter().copied().filter(|x| x.unsigned_abs() <= 3 || x.unsigned_abs() >= (1 << 62) || x.unsigned_abs() == 3037000500 || x.unsigned_abs() == 4294967296).collect(),
            ub.iter().copied().filter(|x| *x <= 3 || *x >= (1 << 62) || *x == 4294967296 || *x == 6074001000).collect(),
        ),
    };
    for (_, sym) in OPS {
        for &a in &isub {
            for &b in &isub {
                out.extend(src_case(&default, format!("{a} {sym} {b}"), vec!["literal", "int"]));
                let mut spec = CtxSpec::default_ctx();
                spec.vars = vec![("x".into(), Value::Int(a)), ("y".into(), Value::Int(b))];
                out.extend(src_case(&spec, format!("x {sym} y"), vec!["variable", "int"]));
            }
        }
        for &a in &usub {
            for &b in &usub {
                out.extend(src_case(&default, format!("{a}u {sym} {b}u"), vec!["literal", "uint"]));
                let mut spec = CtxSpec::default_ctx();
                spec.vars = vec![("x".into(), Value::UInt(a)), ("y".into(), Value::UInt(b))];
                out.extend(src_case(&spec, format!("x {sym} y"), vec!["variable", "uint"]));
            }
        }
    }
    // unary minus over the whole set, as literal operand and as variable
    for &a in &ib {
        out.extend(src_case(&default, format!("-({a})"), vec!["neg", "literal"]));
        let mut spec = CtxSpec::default_ctx();
        spec.vars = vec![("x".into(), Value::Int(a))];
        out.extend(src_case(&spec, "-x".to_string(), vec!["neg", "variable"]));
        // nested and parenthesised negations: each one is a checked operation of its own
        for src in ["-(-x)", "-(-(x))", "-((-x))", "-(-x) + 1", "-(-(x - 1))", "--x", "-(--x)", "0 - (-x)", "-(x * -1)", "-(-(-x))"] {
            out.extend(src_case(&spec, src.to_string(), vec!["neg", "nested"]));
        }
    }
    for &a in ub.iter().take(6) {
        let mut spec = CtxSpec::default_ctx();
        spec.vars = vec![("x".into(), Value::UInt(a))];
        out.extend(src_case(&spec, "-x".to_string(), vec!["neg", "uint"]));
        out.extend(src_case(&spec, "-(-x)".to_string(), vec!["neg", "uint", "nested"]));
        out.extend(src_case(&spec, "--x".to_string(), vec!["neg", "uint", "nested"]));
    }
    // chains of three to five operands: the operations are performed one by one in the order the
    // grammar gives (left to right for equal precedence, parentheses first), each checked on its
    // own - a partial result that overflows is an error even when the whole sum would fit, and a
    // regrouping that avoids (or creates) an overflow changes the outcome
    {
        let mut spec = CtxSpec::default_ctx();
        spec.vars = vec![("a".into(), Value::Int(i64::MAX)), ("b".into(), Value::Int(1)), ("c".into(), Value::Int(-1)), ("d".into(), Value::Int(i64::MIN)), ("z".into(), Value::Int(0)),
            ("ua".into(), Value::UInt(u64::MAX)), ("ub".into(), Value::UInt(1)), ("uz".into(), Value::UInt(0))];
        let ops = ["+", "-", "*"];
        let atoms = ["a", "b", "c", "d", "z", "9223372036854775807", "1", "-1", "0", "2", "-9223372036854775808"];
        for n in 3..=5usize {
            let reps = if tier == Tier::Quick { 260 } else { 6000 };
            for _ in 0..reps {
                let xs: Vec<&str> = (0..n).map(|_| *rng.pick(&atoms)).collect();
                let os: Vec<&str> = (0..n - 1).map(|_| if rng.chance(2, 3) { "+" } else { *rng.pick(&ops) }).collect();
                let mut flat = xs[0].to_string();
                for i in 1..n {
                    flat.push_str(&format!(" {} {}", os[i - 1], xs[i]));
                }
                out.extend(src_case(&spec, flat, vec!["chain", "flat"]));
                // the same operands grouped from the right
                let mut right = xs[n - 1].to_string();
                for i in (0..n - 1).rev() {
                    right = format!("{} {} ({right})", xs[i], os[i]);
                }
                out.extend(src_case(&spec, right, vec!["chain", "right-nested"]));
            }
        }
        // the extremes written as hexadecimal literals, on either side of every operator
        for op in ["+", "-", "*", "/", "%"] {
            for (l, r) in [("-0x8000000000000000", "1"), ("1", "-0x8000000000000000"), ("-0x8000000000000000", "-1"), ("0x7FFFFFFFFFFFFFFF", "1"), ("-0x7FFFFFFFFFFFFFFF", "0x1"), ("0xFFFFFFFFFFFFFFFFu", "0x1u"), ("0x0", "-0x8000000000000000"), ("-0x8000000000000000", "-0x8000000000000000")] {
                out.extend(src_case(&spec, format!("{l} {op} {r}"), vec!["chain", "hex-literals"]));
            }
        }
        for src in ["a + z + b + c", "a + b + c", "a + (b + c)", "a + c + b", "d - b + b", "d + b - b", "d - (b - b)", "a + z + z + z + b", "b + c + a + b", "(a + c) + (b + z)", "a - c - b - b", "d + a + d + a",
            "ua + uz + ub - ub", "ua - ub + ub", "ua + (ub - ub)", "uz - ub + ub", "ub + ua - ub", "a * b * c * c", "d * c * c", "d / c * z", "a + b * z", "(a + b) * z", "z * (a + b)", "a % b + a + b"] {
            out.extend(src_case(&spec, src.to_string(), vec!["chain", "fixed"]));
        }
    }
    // mixed numeric kinds are errors, never coercions
    let mixed = ["(int 1)", "(uint 1)", "(dbl 3ff0000000000000)", "(int 0)", "(uint 0)", "(dbl 0000000000000000)", "(int -1)", "(uint 18446744073709551615)", "(dbl 7ff8000000000000)"];
    for (op, _) in OPS {
        for a in mixed {
            for b in mixed {
                if a.split(' ').next() != b.split(' ').next() {
                    out.push(direct(op, a.to_string(), b.to_string(), "mixed"));
                }
            }
        }
    }
    for (src, _) in [("1 + 1u", 0), ("1u + 1", 0), ("1 + 1.0", 0), ("1.0 * 2", 0), ("2u / 1.0", 0), ("5 % 2u", 0), ("5u % 2", 0), ("5.0 % 2.0", 0), ("1 - 1u", 0)] {
        out.extend(src_case(&default, src.to_string(), vec!["mixed", "literal"]));
    }
    // random pairs
    let n = match tier {
        Tier::Quick => 4000,
        Tier::Thorough => 400_000,
    };
    for i in 0..n {
        let (op, _) = OPS[(i % 5) as usize];
        if rng.chance(1, 2) {
            let (a, b) = if rng.chance(1, 2) { (rng.next() as i64, rng.next() as i64) } else { (log_uniform_i64(rng), log_uniform_i64(rng)) };
            out.push(direct(op, lit_i(a), lit_i(b), "random-int"));
        } else {
            let (a, b) = if rng.chance(1, 2) { (rng.next(), rng.next()) } else { (log_uniform_u64(rng), log_uniform_u64(rng)) };
            out.push(direct(op, lit_u(a), lit_u(b), "random-uint"));
        }
    }
    out
}

/// Independent oracle with i128 arithmetic: what the property prescribes for `a op b`.
fn expected(op: &str, a: i128, b: i128, lo: i128, hi: i128, signed: bool) -> String {
    let tag = if signed { "int" } else { "uint" };
    let wrap = |r: i128| if r < lo || r > hi { "(err overflow)".to_string() } else { format!("(ok ({tag} {r}))") };
    match op {
        "add" => wrap(a + b),
        "sub" => wrap(a - b),
        "mul" => match a.checked_mul(b) {
            Some(r) => wrap(r),
            None => "(err overflow)".to_string(),
        },
        "div" => {
            if b == 0 {
                "(err div0)".to_string()
            } else {
                wrap(a / b)
            }
        }
        "rem" => {
            if b == 0 {
                "(err rem0)".to_string()
            } else if signed && a == lo && b == -1 {
                "(err overflow)".to_string()
            } else {
                wrap(a % b)
            }
        }
        _ => "(bad-op)".to_string(),
    }
}

fn operands(case: &Case) -> Option<(String, String, i128, String, i128)> {
    if case.kind != "binop" {
        return None;
    }
    let p = parse_all(&case.payload);
    let op = p.first()?.as_atom()?.to_string();
    let a = p.get(1)?.as_list()?;
    let b = p.get(2)?.as_list()?;
    let ta = a.first()?.as_atom()?.to_string();
    let tb = b.first()?.as_atom()?.to_string();
    if ta == "dbl" || tb == "dbl" {
        return Some((op, ta, 0, tb, 0));
    }
    Some((op, ta, a.get(1)?.as_atom()?.parse().ok()?, tb, b.get(1)?.as_atom()?.parse().ok()?))
}

pub fn predicate(case: &Case, impl_ans: &str) -> Option<String> {
    if impl_ans.contains("(panic)") {
        return Some("integer arithmetic panicked".into());
    }
    let (op, ta, a, tb, b) = operands(case)?;
    if !["add", "sub", "mul", "div", "rem"].contains(&op.as_str()) {
        return None;
    }
    if ta != tb {
        return if impl_ans == "(err unsupported-op)" {
            None
        } else {
            Some(format!("mixed {ta}/{tb} arithmetic answered {impl_ans}, expected an unsupported-operator error"))
        };
    }
    let want = match ta.as_str() {
        "int" => expected(&op, a, b, i64::MIN as i128, i64::MAX as i128, true),
        "uint" => expected(&op, a, b, 0, u64::MAX as i128, false),
        _ => return None,
    };
    if want != impl_ans {
        Some(format!("{a} {op} {b} ({ta}): implementation answered {impl_ans}, exact arithmetic prescribes {want}"))
    } else {
        None
    }
}

pub fn nontrivial(case: &Case, _impl_ans: &str) -> bool {
    !case.tags.contains(&"mixed")
}
