//! C12 — string and bytes literals denote exactly the characters written.
use super::{PropDef, Tier};
use crate::ctx::CtxSpec;
use crate::prng::Rng;
use crate::run::{run_case, Case};
use crate::sx::hex;
use std::collections::HashMap;

pub fn def() -> PropDef {
    PropDef {
        id: "C12",
        generate,
        predicate,
        nontrivial,
        functional: true,
        post: super::no_post,
        rule: "every single escape sequence (all 256 \\x and \\X, all 256 valid \\OOO plus the 256 invalid ones, every single-character escape, all 65536 \\u in the thorough tier / a stratified 4k sample incl. the surrogate range in the quick tier, every \\U plane boundary and a random sample) in each quoting style of string and bytes literals; random strings and byte strings rendered in every applicable style (single, double, triple-single, triple-double and their raw forms) with a random escape/verbatim choice per character; malformed spellings; the program consisting of the literal is compiled and executed on both sides and the predicate compares with the text that was spelled; non-trivial = the literal contains at least one escape or non-ASCII character; distinct = distinct source text",
        exhaustive_note: "single escapes \\x, \\X, \\OOO and the single-character escapes are enumerated completely in every style; \\u completely in the thorough tier",
    }
}

thread_local! {
    static EXPECT: std::cell::RefCell<HashMap<String, String>> = std::cell::RefCell::new(HashMap::new());
}

fn want_str(s: &str) -> String {
    format!("(res (ok (str {})) (log))", hex(s.as_bytes()))
}
fn want_bytes(b: &[u8]) -> String {
    format!("(res (ok (bytes {})) (log))", hex(b))
}
const REJECT: &str = "(res (compile-error) (log))";

fn push(out: &mut Vec<Case>, spec: &CtxSpec, src: String, want: Option<String>, tags: Vec<&'static str>) {
    let mut c = run_case(spec, &src);
    c.tags = tags;
    if let Some(w) = want {
        EXPECT.with(|e| e.borrow_mut().insert(c.key(), w));
    }
    out.push(c);
}

#[derive(Clone, Copy, PartialEq, Debug)]
pub enum Style {
    Single,
    Double,
    TripleSingle,
    TripleDouble,
}
const STYLES: [Style; 4] = [Style::Single, Style::Double, Style::TripleSingle, Style::TripleDouble];
impl Style {
    fn delim(self) -> &'static str {
        match self {
            Style::Single => "'",
            Style::Double => "\"",
            Style::TripleSingle => "'''",
            Style::TripleDouble => "\"\"\"",
        }
    }
    fn quote(self) -> char {
        match self {
            Style::Single | Style::TripleSingle => '\'',
            _ => '"',
        }
    }
    fn triple(self) -> bool {
        matches!(self, Style::TripleSingle | Style::TripleDouble)
    }
}

/// spell one character of a string literal; None = this character cannot be spelled that way
fn spell_char(rng: &mut Rng, c: char, style: Style, bytes_mode: bool) -> String {
    let simple = match c {
        '\u{7}' => Some("\\a"),
        '\u{8}' => Some("\\b"),
        '\u{b}' => Some("\\v"),
        '\u{c}' => Some("\\f"),
        '\n' => Some("\\n"),
        '\r' => Some("\\r"),
        '\t' => Some("\\t"),
        '\\' => Some("\\\\"),
        '?' => Some("\\?"),
        '`' => Some("\\`"),
        _ => None,
    };
    let cp = c as u32;
    let must_escape = c == '\\' || c == style.quote() || ((c == '\n' || c == '\r') && !style.triple());
    let mut options: Vec<String> = vec![];
    if !must_escape {
        options.push(c.to_string());
    }
    if let Some(s) = simple {
        options.push(s.to_string());
    }
    if c == style.quote() {
        // the escaped delimiter is spelled \' or \" (an escaped quote of the *other* kind is the
        // known finding D5 and is exercised separately)
        options.push(format!("\\{c}"));
    }
    if !bytes_mode {
        if cp <= 0xff {
            options.push(format!("\\x{cp:02x}"));
            options.push(format!("\\X{cp:02X}"));
            options.push(format!("\\{cp:03o}"));
        }
        if cp <= 0xffff {
            options.push(format!("\\u{cp:04x}"));
            options.push(format!("\\u{cp:04X}"));
        }
        options.push(format!("\\U{cp:08x}"));
        options.push(format!("\\U{cp:08X}"));
        if cp <= 0xff {
            options.push(format!("\\x{cp:02X}"));
            options.push(format!("\\X{cp:02x}"));
        }
    }
    rng.pick(&options).clone()
}

pub fn spell_string(rng: &mut Rng, s: &str, style: Style) -> String {
    let cs: Vec<char> = s.chars().collect();
    let mut body = String::new();
    for (i, &c) in cs.iter().enumerate() {
        // inside a triple-quoted literal the delimiter's quote character may stand for itself as
        // long as the lexer cannot take it for (part of) the closing delimiter: not last, not
        // next to another one
        let own_quote_verbatim = style.triple()
            && c == style.quote()
            && i + 1 < cs.len()
            && cs[i + 1] != c
            && !body.ends_with(c)
            && rng.chance(2, 3);
        if own_quote_verbatim {
            body.push(c);
        } else {
            body.push_str(&spell_char(rng, c, style, false));
        }
    }
    format!("{d}{body}{d}", d = style.delim())
}

fn spell_bytes(rng: &mut Rng, b: &[u8], style: Style) -> String {
    let mut body = String::new();
    for &x in b {
        let verbatim_ok = x < 0x80 && x != b'\\' && x as char != style.quote() && !((x == b'\n' || x == b'\r') && !style.triple());
        let mut options: Vec<String> = vec![format!("\\x{x:02x}"), format!("\\X{x:02X}"), format!("\\{x:03o}")];
        if verbatim_ok {
            options.push((x as char).to_string());
            options.push((x as char).to_string());
        }
        if x as char == style.quote() {
            options.push(format!("\\{}", x as char));
        }
        match x {
            7 => options.push("\\a".into()),
            8 => options.push("\\b".into()),
            11 => options.push("\\v".into()),
            12 => options.push("\\f".into()),
            10 => options.push("\\n".into()),
            13 => options.push("\\r".into()),
            9 => options.push("\\t".into()),
            b'\\' => options.push("\\\\".into()),
            b'?' => options.push("\\?".into()),
            b'`' => options.push("\\`".into()),
            _ => {}
        }
        body.push_str(rng.pick(&options[..]).as_str());
    }
    format!("{b}{d}{body}{d}", b = if rng.chance(1, 3) { "B" } else { "b" }, d = style.delim())
}

pub fn generate(tier: Tier, rng: &mut Rng) -> Vec<Case> {
    let mut out = vec![];
    let spec = CtxSpec::default_ctx();
    // 1. every single escape in every style
    for style in STYLES {
        let d = style.delim();
        for v in 0..=255u32 {
            let ch = char::from_u32(v).unwrap();
            push(&mut out, &spec, format!("{d}\\x{v:02x}{d}"), Some(want_str(&ch.to_string())), vec!["escape", "x"]);
            push(&mut out, &spec, format!("{d}\\X{v:02X}{d}"), Some(want_str(&ch.to_string())), vec!["escape", "X"]);
            push(&mut out, &spec, format!("{d}\\{v:03o}{d}"), Some(want_str(&ch.to_string())), vec!["escape", "oct"]);
            // bytes: the byte itself
            push(&mut out, &spec, format!("b{d}\\x{v:02x}{d}"), Some(want_bytes(&[v as u8])), vec!["escape", "bytes-x"]);
            push(&mut out, &spec, format!("b{d}\\{v:03o}{d}"), Some(want_bytes(&[v as u8])), vec!["escape", "bytes-oct"]);
        }
        for v in 256..512u32 {
            push(&mut out, &spec, format!("{d}\\{v:03o}{d}"), Some(REJECT.to_string()), vec!["escape", "oct-invalid"]);
        }
        for (e, v) in [("a", 7u8), ("b", 8), ("f", 12), ("n", 10), ("r", 13), ("t", 9), ("v", 11), ("\\", b'\\'), ("?", b'?'), ("`", b'`')] {
            push(&mut out, &spec, format!("{d}\\{e}{d}"), Some(want_str(&(v as char).to_string())), vec!["escape", "single-char"]);
            push(&mut out, &spec, format!("b{d}\\{e}{d}"), Some(want_bytes(&[v])), vec!["escape", "single-char", "bytes"]);
        }
        // the delimiter's own escaped quote
        let q = style.quote();
        push(&mut out, &spec, format!("{d}a\\{q}b{d}"), Some(want_str(&format!("a{q}b"))), vec!["escape", "own-quote"]);
        push(&mut out, &spec, format!("b{d}a\\{q}b{d}"), Some(want_bytes(format!("a{q}b").as_bytes())), vec!["escape", "own-quote", "bytes"]);
        // the other quote escaped: the CEL spec says it denotes that quote (D5: the
        // implementation keeps the backslash)
        let o = if q == '\'' { '"' } else { '\'' };
        push(&mut out, &spec, format!("{d}a\\{o}b{d}"), Some(want_str(&format!("a{o}b"))), vec!["escape", "other-quote"]);
        push(&mut out, &spec, format!("b{d}a\\{o}b{d}"), Some(want_bytes(format!("a{o}b").as_bytes())), vec!["escape", "other-quote", "bytes"]);
        // the other quote verbatim
        push(&mut out, &spec, format!("{d}a{o}b{d}"), Some(want_str(&format!("a{o}b"))), vec!["verbatim-other-quote"]);
        // the delimiter's quote verbatim inside a triple-quoted literal, plain and raw
        if style.triple() {
            for body in [format!("a{q}b"), format!("{q}a"), format!("a{q}{q}b"), format!("{q}{q}a{q}b"), format!("a{q}\nb{q}c"), format!("{o}{q}{o}x")] {
                let denoted = body.replace("\\n", "\n");
                push(&mut out, &spec, format!("{d}{body}{d}"), Some(want_str(&denoted)), vec!["triple-own-quote"]);
                push(&mut out, &spec, format!("r{d}{body}{d}"), Some(want_str(&body)), vec!["triple-own-quote", "raw"]);
            }
        }
        // unicode escapes
        let us: Vec<u32> = match tier {
            Tier::Thorough => (0..=0xffffu32).collect(),
            Tier::Quick => {
                let mut v: Vec<u32> = (0..0x10000u32).step_by(97).collect();
                v.extend([0, 0x7f, 0x80, 0xff, 0x100, 0x7ff, 0x800, 0xd7ff, 0xd800, 0xdbff, 0xdc00, 0xdfff, 0xe000, 0xfffd, 0xfffe, 0xffff]);
                v
            }
        };
        for v in us {
            let want = match char::from_u32(v) {
                Some(c) => want_str(&c.to_string()),
                None => REJECT.to_string(),
            };
            push(&mut out, &spec, format!("{d}\\u{v:04x}{d}"), Some(want), vec!["escape", "u"]);
        }
        let mut big: Vec<u32> = vec![0, 0xffff, 0x10000, 0x1ffff, 0x20000, 0xfffff, 0x100000, 0x10ffff, 0x110000, 0xd800, 0xdfff, 0xffffffff, 0x7fffffff, 0x1f431];
        for p in 1..=16u32 {
            big.extend([p * 0x10000, p * 0x10000 + 0xffff]);
        }
        for _ in 0..(if tier == Tier::Quick { 100 } else { 5000 }) {
            big.push(rng.below(0x120000) as u32);
        }
        for v in big {
            let want = match char::from_u32(v) {
                Some(c) => want_str(&c.to_string()),
                None => REJECT.to_string(),
            };
            push(&mut out, &spec, format!("{d}\\U{v:08x}{d}"), Some(want.clone()), vec!["escape", "U"]);
            // \u and \U are not allowed in bytes literals
            push(&mut out, &spec, format!("b{d}\\U{v:08x}{d}"), Some(REJECT.to_string()), vec!["escape", "U", "bytes"]);
        }
    }
    // 2. random strings in every applicable style with random spellings
    let n = match tier {
        Tier::Quick => 2500,
        Tier::Thorough => 300_000,
    };
    let alphabet: Vec<char> = "abcXYZ019 _-.,:;!?é✌🐱\u{a0}\u{85}\u{1680}\u{2003}\u{2028}\u{3000}\u{feff}'\"\\\n\r\t`\u{0}\u{7}\u{7f}\u{80}\u{ff}\u{100}\u{7ff}\u{800}\u{ffff}\u{10000}\u{10ffff}".chars().collect();
    for _ in 0..n {
        let len = rng.below(9);
        let s: String = (0..len).map(|_| *rng.pick(&alphabet)).collect();
        let style = *rng.pick(&STYLES);
        let nontriv = s.chars().any(|c| !c.is_ascii_alphanumeric());
        let tag = if nontriv { "random" } else { "plain" };
        // (triple-quoted bodies may contain their own quote character verbatim: spell_string)
        push(&mut out, &spec, spell_string(rng, &s, style), Some(want_str(&s)), vec![tag, "string"]);
        // raw forms: spellable iff the body has no delimiter, no line break (one-line forms)
        let q = style.quote();
        let raw_ok = if style.triple() { !s.contains(style.delim()) && !s.ends_with(q) } else { !s.contains(q) && !s.contains('\n') && !s.contains('\r') };
        if raw_ok {
            let r = if rng.chance(1, 2) { "r" } else { "R" };
            push(&mut out, &spec, format!("{r}{d}{s}{d}", d = style.delim()), Some(want_str(&s)), vec![tag, "raw"]);
            push(&mut out, &spec, format!("{b}{r}{d}{s}{d}", b = if rng.chance(1, 3) { "B" } else { "b" }, d = style.delim()), Some(want_bytes(s.as_bytes())), vec![tag, "raw", "bytes"]);
        }
        let b: Vec<u8> = (0..rng.below(9)).map(|_| if rng.chance(1, 2) { rng.below(256) as u8 } else { *rng.pick(&[b'a', b'\'', b'"', b'\\', b'\n', 0, 0x7f, 0x80, 0xff]) }).collect();
        push(&mut out, &spec, spell_bytes(rng, &b, style), Some(want_bytes(&b)), vec!["random", "bytes"]);
        // non-ASCII characters verbatim in a bytes literal denote their UTF-8 encoding
        if s.chars().all(|c| c != '\\' && c != q && c != '\n' && c != '\r') {
            push(&mut out, &spec, format!("b{d}{s}{d}", d = style.delim()), Some(want_bytes(s.as_bytes())), vec![tag, "bytes-utf8"]);
        }
    }
    // pairs of \\u escapes: surrogates never combine (UTF-16 pairs are not a CEL notion)
    for hi in ["d800", "d83d", "dbff", "0041"] {
        for lo in ["dc00", "de00", "dfff", "0042", "d800"] {
            for d in ["'", "\"", "'''", "\"\"\""] {
                let valid = |h: &str| u32::from_str_radix(h, 16).ok().and_then(char::from_u32);
                let want = match (valid(hi), valid(lo)) {
                    (Some(a), Some(b2)) => want_str(&format!("{a}{b2}")),
                    _ => REJECT.to_string(),
                };
                push(&mut out, &spec, format!("{d}\\u{hi}\\u{lo}{d}"), Some(want.clone()), vec!["escape", "u-pair"]);
                push(&mut out, &spec, format!("{d}\\U0000{hi}\\U0000{lo}{d}"), Some(want), vec!["escape", "u-pair"]);
            }
        }
    }
    // verbatim CR LF, LF CR, lone CR inside triple-quoted literals stay what they are
    for d in ["'''", "\"\"\""] {
        for body in ["a\r\nb", "a\n\rb", "a\rb", "\r\n", "a\r\n\r\nb"] {
            push(&mut out, &spec, format!("{d}{body}{d}"), Some(want_str(body)), vec!["verbatim-line-breaks"]);
            push(&mut out, &spec, format!("r{d}{body}{d}"), Some(want_str(body)), vec!["verbatim-line-breaks", "raw"]);
        }
    }
    // raw triple-quoted literals whose body ends in (or contains runs of) backslashes, with and
    // without the other / their own quote character inside: the body is taken verbatim
    for (d, own, other) in [("'''", '\'', '"'), ("\"\"\"", '"', '\'')] {
        for body in ["C:\\dir\\", "\\", "\\\\", "\\\\\\", "a\\", "a\\\\", "x\\n\\", "\\u0041\\", "it{own}s a {other}path{other}: C:\\", "{own}\\", "{own}{own}\\", "a{own}b{own}{own}c\\\\\\", "{other}\\", "\\{other}", "\\{own}x\\"] {
            let body = body.replace("{own}", &own.to_string()).replace("{other}", &other.to_string());
            for prefix in ["r", "R"] {
                push(&mut out, &spec, format!("{prefix}{d}{body}{d}"), Some(want_str(&body)), vec!["raw-triple-trailing-backslash", "raw"]);
                push(&mut out, &spec, format!("b{prefix}{d}{body}{d}").replace("bR", "bR").replace("br", "br"), Some(want_bytes(body.as_bytes())), vec!["raw-triple-trailing-backslash", "raw", "bytes"]);
            }
        }
    }
    // every prefix in every letter case on every quote style, empty and non-empty bodies
    for d in ["'", "\"", "'''", "\"\"\""] {
        for body in ["", "ab", "a\\x41"] {
            let cooked = body.replace("\\x41", "A");
            for (prefix, raw, bytes) in [("", false, false), ("r", true, false), ("R", true, false), ("b", false, true), ("B", false, true), ("br", true, true), ("bR", true, true), ("Br", true, true), ("BR", true, true)] {
                let val = if raw { body.to_string() } else { cooked.clone() };
                let want = if bytes { want_bytes(val.as_bytes()) } else { want_str(&val) };
                push(&mut out, &spec, format!("{prefix}{d}{body}{d}"), Some(want), vec!["prefix-case"]);
            }
            for bad in ["rb", "Rb", "rB", "RB", "bb", "rr", "u", "f"] {
                push(&mut out, &spec, format!("{bad}{d}{body}{d}"), Some(REJECT.to_string()), vec!["prefix-case", "malformed"]);
            }
        }
    }
    // \u / \U escapes at the edges of the surrogate gap and of the code space
    for (cp, valid) in [(0xd7ffu32, true), (0xd800, false), (0xdbff, false), (0xdc00, false), (0xdfff, false), (0xe000, true), (0xe001, true), (0xfffd, true), (0xffff, true), (0x10000, true), (0x10ffff, true), (0x110000, false), (0x7fffffff, false), (0xffffffff, false)] {
        for d in ["'", "\"", "'''", "\"\"\""] {
            let want = match char::from_u32(cp) {
                Some(c) if valid => want_str(&c.to_string()),
                _ => REJECT.to_string(),
            };
            if cp <= 0xffff {
                push(&mut out, &spec, format!("{d}\\u{cp:04x}{d}"), Some(want.clone()), vec!["escape", "u-edge"]);
                push(&mut out, &spec, format!("{d}x\\u{cp:04X}y{d}"), Some(if valid { want_str(&format!("x{}y", char::from_u32(cp).unwrap())) } else { REJECT.to_string() }), vec!["escape", "u-edge"]);
            }
            push(&mut out, &spec, format!("{d}\\U{cp:08x}{d}"), Some(want.clone()), vec!["escape", "U-edge"]);
        }
    }
    // 3. malformed spellings must be compile errors
    for src in ["'\\q'", "'\\x4'", "'\\xg0'", "'\\u123'", "'\\U0000123'", "'\\8'", "'\\400'", "'\\ '", "'abc", "\"abc", "'''abc''", "'a\nb'", "\"a\rb\"", "b'\\u0041'", "b'\\q'", "'\\", "r'a", "'a'b'"] {
        push(&mut out, &spec, src.to_string(), Some(REJECT.to_string()), vec!["malformed"]);
    }
    out
}

pub fn predicate(case: &Case, impl_ans: &str) -> Option<String> {
    if impl_ans.contains("(panic)") {
        return Some("panicked".into());
    }
    let want = EXPECT.with(|e| e.borrow().get(&case.key()).cloned())?;
    if want != impl_ans {
        Some(format!("the literal denotes {want}, the implementation answered {impl_ans}"))
    } else {
        None
    }
}

pub fn nontrivial(case: &Case, _impl_ans: &str) -> bool {
    !case.tags.contains(&"plain")
}
