//! C19 — reported references cover every name a program can look up.
use super::{PropDef, Tier};
use crate::ctx::{Body, CtxSpec, FnSpec};
use crate::prng::Rng;
use crate::run::Case;
use crate::sx::{parse_all, unhex, Sx};
use crate::wire::expr_to_sx;
use cel_interpreter::objects::{Key, Map};
use cel_interpreter::Value;
use std::collections::HashMap;
use std::sync::Arc;

pub fn def() -> PropDef {
    PropDef {
        id: "C19",
        generate,
        predicate,
        nontrivial,
        functional: true,
        rule: "grammar-generated programs of depth <= 7 with names from a 10-name pool (plain and root-qualified: `.a`, `.g(..)`) in every syntactic position (operands, receivers, arguments, indices, map keys and values, list elements, struct fields, select chains, macro ranges and bodies, has() arguments), executed against contexts defining a random subset of the variable and function names; observed: the reported variable and function sets and the execution outcome; predicate on the implementation: an undeclared name is reported, a context defining everything reported never yields undeclared, reported variables occur as identifiers in the source, no '@' name is reported; non-trivial = the program mentions at least two names; distinct = distinct (context, source)",
        post: super::no_post,
        exhaustive_note: "random sample",
    }
}

// "g" and "size" are also function names: a name may be used in both roles in one program
const VARS: [&str; 9] = ["a", "b", "c", "d", "x", "y", "m", "g", "size"];
const FUNS: [&str; 4] = ["g", "h", "k", "size"];

pub fn gen_src(rng: &mut Rng) -> String {
    let d = 1 + rng.below(6) as u32;
    gen(rng, d)
}

fn gen(rng: &mut Rng, depth: u32) -> String {
    if depth == 0 || rng.chance(1, 5) {
        return match rng.below(6) {
            0 => rng.range(0, 3).to_string(),
            1 => "'s'".to_string(),
            2 => "true".to_string(),
            3 => format!(".{}", rng.pick(&VARS)), // root-qualified identifier: the same variable
            _ => rng.pick(&VARS).to_string(),
        };
    }
    let d = depth - 1;
    match rng.below(16) {
        0 => format!("({} + {})", gen(rng, d), gen(rng, d)),
        1 => format!("({} == {})", gen(rng, d), gen(rng, d)),
        2 => format!("({} && {})", gen(rng, d), gen(rng, d)),
        3 => format!("({} || {})", gen(rng, d), gen(rng, d)),
        4 => format!("({} ? {} : {})", gen(rng, d), gen(rng, d), gen(rng, d)),
        5 => format!("{}.{}", gen(rng, d), rng.pick(&["f", "a", "x", "size"])),
        6 => format!("{}[{}]", gen(rng, d), gen(rng, d)),
        7 => {
            let n = rng.below(3);
            // a root-qualified call `.g(..)` looks up the function named ".g"
            let dot = if rng.chance(1, 4) { "." } else { "" };
            format!("{dot}{}({})", rng.pick(&FUNS), (0..n).map(|_| gen(rng, d)).collect::<Vec<_>>().join(", "))
        }
        8 => {
            let n = rng.below(3);
            format!("{}.{}({})", gen(rng, d), rng.pick(&FUNS), (0..n).map(|_| gen(rng, d)).collect::<Vec<_>>().join(", "))
        }
        9 => format!("[{}]", (0..rng.below(3)).map(|_| gen(rng, d)).collect::<Vec<_>>().join(", ")),
        10 => format!("{{{}}}", (0..rng.below(3)).map(|_| format!("{}: {}", gen(rng, d), gen(rng, d))).collect::<Vec<_>>().join(", ")),
        11 => format!("T{{{}}}", (0..rng.below(3)).map(|i| format!("f{i}: {}", gen(rng, d))).collect::<Vec<_>>().join(", ")),
        12 => {
            let m = *rng.pick(&["all", "exists", "exists_one", "map", "filter"]);
            format!("{}.{m}({}, {})", gen(rng, d), rng.pick(&["x", "y", "e"]), gen(rng, d))
        }
        13 => format!("{}.map({}, {}, {})", gen(rng, d), rng.pick(&["x", "e"]), gen(rng, d), gen(rng, d)),
        14 => format!("has({}.{})", gen(rng, d), rng.pick(&["f", "a"])),
        _ => format!("(!{})", gen(rng, d)),
    }
}

fn gen_ctx(rng: &mut Rng, full: bool) -> CtxSpec {
    let mut spec = if rng.chance(1, 2) || full { CtxSpec::default_ctx() } else { CtxSpec::default() };
    for v in VARS.iter().chain(["e"].iter()) {
        if full || rng.chance(1, 2) {
            let val = match rng.below(5) {
                0 => Value::Int(rng.range(0, 3)),
                1 => Value::Bool(rng.chance(1, 2)),
                2 => Value::List(Arc::new(vec![Value::Int(1), Value::Int(2)])),
                3 => {
                    let mut m = HashMap::new();
                    // a single entry: macros may range over it without order ambiguity
                    if rng.chance(1, 2) {
                        m.insert(Key::String(Arc::new("f".into())), Value::Int(1));
                    } else {
                        m.insert(Key::String(Arc::new("a".into())), Value::List(Arc::new(vec![Value::Int(0)])));
                    }
                    Value::Map(Map { map: Arc::new(m) })
                }
                _ => Value::String(Arc::new("s".into())),
            };
            spec.vars.push((v.to_string(), val));
        }
    }
    for f in FUNS {
        if f == "size" {
            continue;
        }
        if full || rng.chance(1, 2) {
            spec.fns.push((f.to_string(), FnSpec::Host(vec!["args".into()], Body::Echo)));
        }
    }
    for f in [".g", ".h", ".k", ".size"] {
        if full || rng.chance(1, 3) {
            spec.fns.push((f.to_string(), FnSpec::Host(vec!["args".into()], Body::Echo)));
        }
    }
    if full && !spec.default_fns {
        spec.fns.push(("size".into(), FnSpec::Builtin("size".into())));
    }
    spec
}

pub fn generate(tier: Tier, rng: &mut Rng) -> Vec<Case> {
    let n = match tier {
        Tier::Quick => 8000,
        Tier::Thorough => 500_000,
    };
    let mut out = vec![];
    // calls and names in the body of a macro nested inside another macro's body (two and three
    // scopes below the root), against a context defining everything and against ones defining a
    // random subset: the literal ranges make sure the innermost body is actually executed
    for src in [
        "[[1, 2], [3]].map(x, x.map(y, g(y)))", "[[1]].map(x, x.filter(y, size(x) > y))", "[1].map(x, [2].map(y, [3].map(e, h(x, y, e))))", "[[1]].all(x, x.exists(y, k(y) != null))",
        "[1].map(x, [2].exists_one(y, y.g() != null))", "[1].map(x, [2].map(y, a))", "[1].map(x, [2].map(y, [3].map(e, b + c)))", "[1].exists(x, [2].all(y, .g(y) != null && d != null))",
        "[[1]].map(x, x.map(y, m))", "[1].map(x, [2].map(y, x.h(y, .a)))", "[1].filter(x, [2].map(y, [3].filter(e, k() != null)).size() > 0)", "[1].map(x, [x].map(y, [y].map(e, size([e, a]))))",
    ] {
        let Ok(ast) = cel_parser::Parser::new().parse(src) else { continue };
        for full in [true, true, false, false, false] {
            let spec = gen_ctx(rng, full);
            let mut c = Case::new("refexec", format!("{} {}", spec.to_sx().to_text(), expr_to_sx(&ast).to_text()));
            c.src = Some(src.to_string());
            c.tags = vec![if full { "all-defined" } else { "partial-ctx" }, "names", "nested-macro-bodies"];
            out.push(c);
        }
    }
    // long names (the undeclared name in the error is the name as written, however long), and
    // calls whose first argument is a receiver-style call of the same function
    {
        let long_v = format!("v{}", "abcdefghij".repeat(8));
        let long_f = format!("f{}", "klmnopqrst".repeat(9));
        let srcs = vec![
            long_v.clone(), format!("{long_v} + 1"), format!("{long_f}(1)"), format!("a.{long_f}(b)"), format!("[1].map(x, {long_v} + x)"), format!("{long_f}({long_v})"), format!("has({long_v}.f)"),
            "g(a.g(b), c)".to_string(), "a.g(b.g(c))".to_string(), "h(x.h(y.h(d)), b)".to_string(), "g(g(a.g(b)))".to_string(), "k(a.k(b), c.k(d))".to_string(), "g(a.h(b), c)".to_string(), "g(c, a.g(b))".to_string(), "a.g(b).g(c).g(d)".to_string(),
            "size(a.size(), b)".to_string(), "g(m.g(), y)".to_string(),
            // names that look internal but are ordinary identifiers
            "__a + 1".to_string(), "[1, 2].map(x, x + __offset)".to_string(), "__result__ == 1".to_string(), "_a + a_ + a__b".to_string(), "__f(1)".to_string(), "a.__g(b)".to_string(), "has(__m.f)".to_string(), "[__x].all(__y, __y == __z)".to_string(),
            // names inside map and struct literals, as keys, values and arguments
            "{'k': a}".to_string(), "{a: 1}".to_string(), "{'k': g()}".to_string(), "{1: a + 1}".to_string(), "{a: {b: c}}".to_string(), "{g(a): h(b)}".to_string(), "T{f: a, g: h(b)}".to_string(), "[{a: b}].map(x, {x: c})".to_string(),
        ];
        for src in srcs {
            let Ok(ast) = cel_parser::Parser::new().parse(&src) else { continue };
            for full in [true, true, false, false, false] {
                let spec = gen_ctx(rng, full);
                let mut c = Case::new("refexec", format!("{} {}", spec.to_sx().to_text(), expr_to_sx(&ast).to_text()));
                c.src = Some(src.clone());
                c.tags = vec![if full { "all-defined" } else { "partial-ctx" }, "names", "long-names-and-call-spines"];
                out.push(c);
            }
        }
    }
    // the names of the macros used in shapes that are NOT macros (wrong arity, no receiver, has()
    // with a receiver): the parser leaves an ordinary call, the name is reported as a function, and
    // a host that registers a function of that name gets it called
    for src in [
        "filter(a)", "a.map(1)", "[1, 2].all(x, x > 0, g(x))", "has(a, 1)", "exists_one()", "[1].map(x, a.exists(x))", "a.has(b.f)", "all(a, b)", "map(a)", "a.filter()", "exists(a, b, c)", "a.existsOne(b)",
        "[1].map(x, filter(x))", "has() || has(a, b, c)", "a.all(b) && c.exists_one(d)", "[a.map(b)].map(x, x)",
    ] {
        let Ok(ast) = cel_parser::Parser::new().parse(src) else { continue };
        for full in [true, true, false, false] {
            let mut spec = gen_ctx(rng, full);
            for f in ["has", "all", "exists", "exists_one", "existsOne", "map", "filter"] {
                if full || rng.chance(1, 2) {
                    spec.fns.push((f.to_string(), FnSpec::Host(vec!["args".into()], Body::Echo)));
                }
            }
            let mut c = Case::new("refexec", format!("{} {}", spec.to_sx().to_text(), expr_to_sx(&ast).to_text()));
            c.src = Some(src.to_string());
            c.tags = vec![if full { "all-defined" } else { "partial-ctx" }, "names", "macro-names-as-functions"];
            out.push(c);
        }
    }
    while out.len() < n {
        let d = 1 + rng.below(6) as u32;
        let src = gen(rng, d);
        if src.len() > 800 {
            continue;
        }
        let ast = match crate::run::quietly(|| std::panic::catch_unwind(|| cel_parser::Parser::new().parse(&src))) {
            Ok(Ok(a)) => a,
            _ => continue,
        };
        let full = rng.chance(1, 3);
        let spec = gen_ctx(rng, full);
        let mut c = Case::new("refexec", format!("{} {}", spec.to_sx().to_text(), expr_to_sx(&ast).to_text()));
        c.src = Some(src.clone());
        let names = src.split(|ch: char| !ch.is_alphanumeric() && ch != '_').filter(|w| !w.is_empty() && w.chars().next().unwrap().is_alphabetic()).count();
        c.tags = vec![if full { "all-defined" } else { "partial-ctx" }, if names >= 2 { "names" } else { "few-names" }];
        out.push(c);
    }
    out
}

fn names_of(x: &Sx) -> Vec<String> {
    x.as_list().map(|l| l[1..].iter().map(|a| String::from_utf8_lossy(&unhex(a.as_atom().unwrap_or("x"))).into_owned()).collect()).unwrap_or_default()
}

const OPERATORS: [&str; 19] = ["_?_:_", "_&&_", "_||_", "!_", "_-_", "_+_", "_*_", "_/_", "_%_", "_==_", "_!=_", "_>=_", "_<=_", "_>_", "_<_", "-_", "_[_]", "@in", "@not_strictly_false"];

pub fn predicate(case: &Case, impl_ans: &str) -> Option<String> {
    if impl_ans.contains("(panic)") {
        return Some("panicked".into());
    }
    let p = parse_all(impl_ans);
    let l = p.first()?.as_list()?;
    if l.first()?.as_atom()? != "refexec" {
        return None;
    }
    let vars = names_of(&l[1]);
    let funcs = names_of(&l[2]);
    let src = case.src.clone().unwrap_or_default();
    // reported variables occur as identifiers in the source; accumulators are never reported
    for v in &vars {
        if v.starts_with('@') {
            return Some(format!("macro-internal name {v} reported as a variable"));
        }
        let occurs = src.split(|ch: char| !ch.is_alphanumeric() && ch != '_').any(|w| w == v);
        if !occurs {
            return Some(format!("reported variable {v} does not occur as an identifier in the source"));
        }
    }
    // an undeclared name is among the reported names
    if let Some(o) = l.get(3).and_then(|o| o.as_list()) {
        if o.first().and_then(|a| a.as_atom()) == Some("err") && o.get(1).and_then(|a| a.as_atom()) == Some("undeclared") {
            let n = String::from_utf8_lossy(&unhex(o.get(2).and_then(|a| a.as_atom()).unwrap_or("x"))).into_owned();
            if !vars.contains(&n) && !funcs.contains(&n) {
                return Some(format!("execution failed with undeclared reference to {n}, which is not among the reported references"));
            }
            // conversely: a context that defines everything reported never yields undeclared
            if let Some(spec) = CtxSpec::from_sx(&parse_all(&case.payload)[0]) {
                let defined_v: Vec<&String> = spec.vars.iter().map(|(n, _)| n).collect();
                let builtin = ["contains", "size", "max", "min", "startsWith", "endsWith", "string", "bytes", "double", "int", "uint", "matches", "duration", "timestamp", "getFullYear", "getMonth", "getDayOfYear", "getDayOfMonth", "getDate", "getDayOfWeek", "getHours", "getMinutes", "getSeconds", "getMilliseconds"];
                let has_f = |f: &String| OPERATORS.contains(&f.as_str()) || spec.fns.iter().any(|(n, _)| n == f) || (spec.default_fns && builtin.contains(&f.as_str()));
                if vars.iter().all(|v| defined_v.contains(&v)) && funcs.iter().all(has_f) {
                    return Some(format!("every reported variable and function is defined, yet execution failed with undeclared reference to {n}"));
                }
            }
        }
    }
    None
}

pub fn nontrivial(case: &Case, _impl_ans: &str) -> bool {
    case.tags.contains(&"names")
}
