//! C15 — durations parse, print, add and compare exactly.
use super::{PropDef, Tier};
use crate::ctx::CtxSpec;
use crate::gen::str_literal;
use crate::prng::Rng;
use crate::run::{eval_case_from_src, Case};
use crate::sx::hex;
use crate::wire::dur_from_ns;
use cel_interpreter::Value;
use std::collections::HashMap;

pub fn def() -> PropDef {
    PropDef {
        id: "C15",
        generate,
        predicate,
        nontrivial,
        functional: true,
        post: super::no_post,
        rule: "durations from a boundary set (0, +-1ns, +-999ns, +-1us, +-1ms, +-1s, +-59.999999999s, +-1m, +-1h, i64::MIN/MAX ns and neighbours, chrono's own limits) and log-uniform random nanosecond counts of both signs, supplied as Value::Duration variables and as strings: string(d) against an independent implementation of Go's Duration.String, duration(string(d)) == d, duration(text) for well-formed texts (multi-term, fractions, every unit incl. the micro sign) against an exact rational reference, malformed texts from a mutation grammar (trailing text, missing unit, doubled / inner sign, exponent, inf / nan, spaces, empty) which must be rejected, and + - < <= == on pairs incl. overflowing ones against i128 arithmetic; non-trivial = non-zero duration or a rejected text; distinct = distinct (context, source)",
        exhaustive_note: "boundary set and malformed-text catalogue are enumerated completely; random values are a sample",
    }
}

thread_local! {
    static EXPECT: std::cell::RefCell<HashMap<String, String>> = std::cell::RefCell::new(HashMap::new());
}
const FERR: &str = "(res (err function-error) (log))";
fn ok(v: &str) -> String {
    format!("(res (ok {v}) (log))")
}

/// Go's time.Duration.String on an exact nanosecond count (independent of the implementation)
pub fn go_format(ns: i128) -> String {
    if ns == 0 {
        return "0s".into();
    }
    let neg = ns < 0;
    let u = ns.unsigned_abs();
    let frac = |v: u128, prec: u32| -> (String, u128) {
        let p = 10u128.pow(prec);
        let (int, f) = (v / p, v % p);
        if f == 0 {
            (String::new(), int)
        } else {
            let s = format!("{:0width$}", f, width = prec as usize);
            (format!(".{}", s.trim_end_matches('0')), int)
        }
    };
    let body = if u < 1_000_000_000 {
        if u < 1_000 {
            format!("{u}ns")
        } else if u < 1_000_000 {
            let (f, i) = frac(u, 3);
            format!("{i}{f}µs")
        } else {
            let (f, i) = frac(u, 6);
            format!("{i}{f}ms")
        }
    } else {
        let (f, secs) = frac(u, 9);
        let (s, mins) = (secs % 60, secs / 60);
        if mins == 0 {
            format!("{s}{f}s")
        } else {
            let (m, h) = (mins % 60, mins / 60);
            if h == 0 {
                format!("{m}m{s}{f}s")
            } else {
                format!("{h}h{m}m{s}{f}s")
            }
        }
    };
    if neg {
        format!("-{body}")
    } else {
        body
    }
}

/// reference parser: Some(ns) iff the whole text is [-] (0 | term+), term = decimal unit
pub fn ref_parse(text: &str) -> Option<i128> {
    let (neg, body) = match text.strip_prefix('-') {
        Some(r) => (true, r),
        None => (false, text),
    };
    if body == "0" {
        return Some(0);
    }
    let chars: Vec<char> = body.chars().collect();
    let mut i = 0;
    let mut total: i128 = 0;
    let mut terms = 0;
    while i < chars.len() {
        let s = i;
        while i < chars.len() && chars[i].is_ascii_digit() {
            i += 1;
        }
        let int: String = chars[s..i].iter().collect();
        let mut frac = String::new();
        if i < chars.len() && chars[i] == '.' {
            i += 1;
            let fs = i;
            while i < chars.len() && chars[i].is_ascii_digit() {
                i += 1;
            }
            frac = chars[fs..i].iter().collect();
        }
        if int.is_empty() && frac.is_empty() {
            return None;
        }
        let rest: String = chars[i..].iter().collect();
        let (unit, len): (i128, usize) = if rest.starts_with("ns") {
            (1, 2)
        } else if rest.starts_with("us") || rest.starts_with("µs") || rest.starts_with("μs") {
            (1_000, 2)
        } else if rest.starts_with("ms") {
            (1_000_000, 2)
        } else if rest.starts_with('s') {
            (1_000_000_000, 1)
        } else if rest.starts_with('m') {
            (60_000_000_000, 1)
        } else if rest.starts_with('h') {
            (3_600_000_000_000, 1)
        } else {
            return None;
        };
        i += len;
        if int.len() > 25 {
            return None; // far out of range
        }
        let iv: i128 = if int.is_empty() { 0 } else { int.parse().ok()? };
        let f18: String = frac.chars().take(18).collect();
        let fv: i128 = if f18.is_empty() { 0 } else { f18.parse().ok()? };
        total = total.checked_add(iv.checked_mul(unit)? + fv * unit / 10i128.pow(f18.len() as u32))?;
        terms += 1;
    }
    if terms == 0 {
        return None;
    }
    let v = if neg { -total } else { total };
    if v < i64::MIN as i128 || v > i64::MAX as i128 {
        None
    } else {
        Some(v)
    }
}

fn push(out: &mut Vec<Case>, spec: &CtxSpec, src: &str, want: Option<String>, tags: Vec<&'static str>) {
    if let Some(mut c) = eval_case_from_src(spec, src) {
        c.tags = tags;
        if let Some(w) = want {
            EXPECT.with(|e| e.borrow_mut().insert(c.key(), w));
        }
        out.push(c);
    }
}

const CHRONO_MAX: i128 = (i64::MAX as i128) * 1_000_000;

pub fn boundary_ns() -> Vec<i128> {
    let mut v: Vec<i128> = vec![0];
    for x in [1i128, 999, 1_000, 1_001, 999_999, 1_000_000, 1_500_000, 999_999_999, 1_000_000_000, 1_000_000_001, 59_999_999_999, 60_000_000_000, 61_000_000_000, 3_599_999_999_999, 3_600_000_000_000, 3_661_000_000_001, 90_061_001_000_000, i64::MAX as i128, i64::MAX as i128 - 1, 1i128 << 62] {
        v.push(x);
        v.push(-x);
    }
    v.push(i64::MIN as i128);
    v.push(i64::MIN as i128 + 1);
    v
}

/// duration texts on either side of every representation limit a parser might use (64-bit
/// nanoseconds, chrono's i64 milliseconds, i64 / u64 seconds, u64 nanoseconds, 2^127), in every unit
pub fn limit_texts() -> Vec<String> {
    let mut v = vec![];
    let limits: [u128; 8] = [
        i64::MAX as u128,
        u64::MAX as u128,
        (i64::MAX as u128) * 1_000,
        (i64::MAX as u128) * 1_000_000,
        (i64::MAX as u128 / 1_000) * 1_000_000_000,
        (i64::MAX as u128) * 1_000_000_000,
        (u64::MAX as u128) * 1_000_000_000,
        1u128 << 127,
    ];
    // fractions with as many digits as any table or accumulator could be sized for, and one more
    for digits in [8usize, 9, 10, 17, 18, 19, 20, 21, 38, 39, 40] {
        for unit in ["ns", "us", "ms", "s", "m", "h"] {
            v.push(format!("0.{}{unit}", "1234567891".repeat(4)[..digits].to_string()));
            v.push(format!("1h0.{}{unit}", format!("25{}", "0".repeat(digits - 2))));
            v.push(format!("-1.{}{unit}", "9".repeat(digits)));
        }
    }
    for l in limits {
        for (unit, scale) in [("ns", 1u128), ("us", 1_000), ("ms", 1_000_000), ("s", 1_000_000_000), ("m", 60_000_000_000), ("h", 3_600_000_000_000)] {
            let n = l / scale;
            for k in [n.saturating_sub(1), n, n + 1] {
                v.push(format!("{k}{unit}"));
                v.push(format!("-{k}{unit}"));
            }
            v.push(format!("{n}{unit}0.9{unit}"));
        }
        for d in [l - 1, l, l + 1, l + 1_000_000] {
            if d < (1u128 << 126) {
                v.push(go_format(d as i128));
                v.push(go_format(-(d as i128)));
            }
        }
    }
    v
}

pub fn generate(tier: Tier, rng: &mut Rng) -> Vec<Case> {
    let mut out = vec![];
    let default = CtxSpec::default_ctx();
    for text in limit_texts() {
        let want = match ref_parse(&text) {
            Some(ns) => ok(&format!("(dur {ns})")),
            None => FERR.to_string(),
        };
        push(&mut out, &default, &format!("duration({})", str_literal(&text)), Some(want), vec!["value", "parse-limit"]);
    }
    let mut values = boundary_ns();
    let n = if tier == Tier::Quick { 600 } else { 100_000 };
    for _ in 0..n {
        let bits = rng.below(63) as u32 + 1;
        let mag = (rng.next() >> (64 - bits)) as i128;
        values.push(if rng.chance(1, 2) { -mag } else { mag });
    }
    for &ns in &values {
        let d = dur_from_ns(ns).unwrap();
        let mut spec = CtxSpec::default_ctx();
        spec.vars.push(("d".into(), Value::Duration(d)));
        let text = go_format(ns);
        let tag = if ns == 0 { "zero" } else { "value" };
        push(&mut out, &spec, "string(d)", Some(ok(&format!("(str {})", hex(text.as_bytes())))), vec![tag, "print"]);
        push(&mut out, &spec, "duration(string(d)) == d", Some(ok("(bool 1)")), vec![tag, "roundtrip"]);
        push(&mut out, &default, &format!("duration({})", str_literal(&text)), Some(ok(&format!("(dur {ns})"))), vec![tag, "parse-canonical"]);
    }
    // durations beyond 64-bit nanoseconds (chrono can hold them): printing stays exact
    for ns in [i64::MAX as i128 + 1, -(i64::MAX as i128) - 2, CHRONO_MAX, -CHRONO_MAX, CHRONO_MAX - 1, 1i128 << 70] {
        let mut spec = CtxSpec::default_ctx();
        spec.vars.push(("d".into(), Value::Duration(dur_from_ns(ns).unwrap())));
        push(&mut out, &spec, "string(d)", Some(ok(&format!("(str {})", hex(go_format(ns).as_bytes())))), vec!["value", "print", "wide"]);
    }
    // well-formed texts in non-canonical form
    let units = ["ns", "us", "µs", "μs", "ms", "s", "m", "h"];
    let n = if tier == Tier::Quick { 1200 } else { 150_000 };
    for _ in 0..n {
        let terms = 1 + rng.below(4);
        let mut text = String::new();
        if rng.chance(1, 4) {
            text.push('-');
        }
        for _ in 0..terms {
            let int = match rng.below(5) {
                0 => String::new(),
                1 => "0".into(),
                2 => rng.below(100).to_string(),
                3 => rng.below(3_000_000).to_string(),
                _ => format!("{:03}", rng.below(1000)),
            };
            let frac = match rng.below(4) {
                0 => String::new(),
                1 => ".".into(),
                2 => format!(".{}", rng.below(1000)),
                _ => format!(".{:0w$}", rng.next() % 10u64.pow(12), w = 1 + rng.below(20) as usize),
            };
            if int.is_empty() && (frac.is_empty() || frac == ".") {
                text.push('1');
            }
            text.push_str(&int);
            text.push_str(&frac);
            text.push_str(*rng.pick(&units[..]));
        }
        let want = match ref_parse(&text) {
            Some(ns) => ok(&format!("(dur {ns})")),
            None => FERR.to_string(),
        };
        push(&mut out, &default, &format!("duration({})", str_literal(&text)), Some(want), vec!["value", "parse-general"]);
    }
    // malformed texts: must be rejected
    for base in ["1s", "1h30m", "1.5ms", "-2s", "90m"] {
        for m in [
            format!("{base} foo"), format!("{base} "), format!(" {base}"), format!("{base}x"), format!("-{base}").replace("--", "--"), format!("--{}", base.trim_start_matches('-')),
            format!("+{base}"), base.trim_end_matches(|c: char| c.is_alphabetic()).to_string(), format!("{base}1"), format!("{base}-1m"), format!("{base}+1m"), format!("1e3{}", &base[base.len() - 1..]),
            format!("{base},1s"), format!("{base}1.s.").to_string(), base.to_uppercase(), format!("{base}\n"), format!("0{base}0"),
        ] {
            let want = match ref_parse(&m) {
                Some(ns) => ok(&format!("(dur {ns})")),
                None => FERR.to_string(),
            };
            push(&mut out, &default, &format!("duration({})", str_literal(&m)), Some(want), vec!["malformed"]);
        }
    }
    for m in ["", "-", "s", ".s", "-.s", "1", "-1", "00", "1.5", "infs", "nans", "-infs", "inf", "NaNs", "1e3s", "1E3s", "0x10s", "1_000s", "１s", "1 s", "1s 2s", "1d", "1w", "1y", "9999999999h", "9223372036854775808ns", "-9223372036854775809ns", "9223372036854775807ns", "-9223372036854775808ns", "2562047h47m16.854775807s", "2562047h47m16.854775808s", "-2562047h47m16.854775808s", "-2562047h47m16.854775809s", "0.000000000000000001h", "1.9999999999999999999999999ns", "99999999999999999999999999999999ns", "0", "-0", "0s", "-0s", "0h0m0s", "1.s", ".5s", "1.1ns", "1h.m", "1h30m.s", ".s.s", ".ns", "1h.", "1.h.", "..s", "1..s", "-1h30m", "-1m1s", "-1h0m0.000000001s", "-0h1s", "1h-30m", "-1h-30m"] {
        let want = match ref_parse(m) {
            Some(ns) => ok(&format!("(dur {ns})")),
            None => FERR.to_string(),
        };
        push(&mut out, &default, &format!("duration({})", str_literal(m)), Some(want), vec!["malformed"]);
    }
    // arithmetic and comparison on pairs, against exact integers
    let mut pairs_src: Vec<i128> = boundary_ns();
    pairs_src.extend([CHRONO_MAX, -CHRONO_MAX, CHRONO_MAX - 1, CHRONO_MAX / 2 + 1]);
    let bset: Vec<i128> = if tier == Tier::Quick { pairs_src.iter().copied().step_by(3).collect() } else { pairs_src.clone() };
    for &a in &pairs_src {
        for &b in &bset {
            let mut spec = CtxSpec::default_ctx();
            spec.vars.push(("a".into(), Value::Duration(dur_from_ns(a).unwrap())));
            spec.vars.push(("b".into(), Value::Duration(dur_from_ns(b).unwrap())));
            let arith = |r: i128| if r.abs() <= CHRONO_MAX { ok(&format!("(dur {r})")) } else { "(res (err overflow) (log))".to_string() };
            push(&mut out, &spec, "a + b", Some(arith(a + b)), vec!["value", "arith"]);
            push(&mut out, &spec, "a - b", Some(arith(a - b)), vec!["value", "arith"]);
            let bit = |x: bool| format!("(bool {})", x as u8);
            push(&mut out, &spec, "[a < b, a <= b, a == b, a != b, a > b, a >= b]", Some(ok(&format!("(list {} {} {} {} {} {})", bit(a < b), bit(a <= b), bit(a == b), bit(a != b), bit(a > b), bit(a >= b)))), vec!["value", "compare"]);
        }
    }
    out
}

pub fn predicate(case: &Case, impl_ans: &str) -> Option<String> {
    if impl_ans.contains("(panic)") {
        return Some("panicked".into());
    }
    let want = EXPECT.with(|e| e.borrow().get(&case.key()).cloned())?;
    if want != impl_ans {
        Some(format!("exact duration semantics prescribe {want}, the implementation answered {impl_ans}"))
    } else {
        None
    }
}

pub fn nontrivial(case: &Case, _impl_ans: &str) -> bool {
    !case.tags.contains(&"zero")
}
