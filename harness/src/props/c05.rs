//! C05 — execution is pure, repeatable and safe to share across threads.
use super::{PropDef, Tier};
use crate::ctx::{Body, CtxSpec, FnSpec};
use crate::gen::*;
use crate::prng::Rng;
use crate::run::{history_case, Case};
use cel_interpreter::Value;
use std::sync::Arc;

pub fn def() -> PropDef {
    PropDef {
        id: "C05",
        generate,
        predicate,
        nontrivial,
        functional: true,
        post: super::no_post,
        rule: "histories of 2-50 executions of generated programs (biased to list / string concatenation and macros over context variables, with values aliased between variables) against one context: after every execution the context's variables and every value returned earlier are re-read and must be unchanged, and the program is executed a second time and must return an equal result; the same histories are then executed by the separate celconc binary with 4 (quick) / 16 (thorough) threads x 20 / 200 rounds sharing &Program and a root &Context through inner scopes, every execution compared with the sequential result; celconc also carries the compile-time Send + Sync assertions for Program, Context, Value, ExecutionError; non-trivial = the history contains a concatenation or a macro; distinct = distinct (context, history)",
        exhaustive_note: "random sample of histories; thread interleavings are whatever the scheduler produces",
    }
}

pub fn gen_history(rng: &mut Rng) -> (CtxSpec, Vec<String>) {
    let mut spec = CtxSpec::default_ctx();
    let l: Vec<Value> = (0..rng.below(5)).map(|_| Value::Int(rng.range(0, 9))).collect();
    let shared = Value::List(Arc::new(l));
    // aliased: two variables hold the same Arc
    spec.vars.push(("xs".into(), shared.clone()));
    spec.vars.push(("ys".into(), shared.clone()));
    spec.vars.push(("zs".into(), Value::List(Arc::new(vec![shared.clone(), Value::Int(1)]))));
    let s = Value::String(Arc::new(gen_string(rng)));
    spec.vars.push(("s".into(), s.clone()));
    spec.vars.push(("t".into(), s));
    spec.vars.push(("n".into(), Value::Int(rng.range(0, 5))));
    spec.vars.push(("m".into(), gen_value(rng, &Ty::Map(Box::new(Ty::Str), Box::new(Ty::List(Box::new(Ty::Int)))), 2)));
    spec.fns.push(("id".into(), FnSpec::Host(vec!["pos-value".into()], Body::First)));
    let span = if rng.chance(1, 10) { 49 } else { 8 };
    let n = 2 + rng.below(span) as usize;
    let templates = [
        "xs + ys", "xs + [n]", "ys + xs + xs", "s + t", "s + 'x' + t", "(xs + [1]) + (xs + [2])", "xs.map(x, x + n)", "xs.filter(x, x > n)", "xs.all(x, x >= 0)", "xs.exists(x, x == n)",
        "zs[0] + xs", "zs + zs", "[xs, ys, xs + ys]", "xs.map(x, xs + [x])", "id(xs) + id(ys)", "id(s) + s", "size(xs + ys) == size(xs) + size(ys)", "xs", "ys", "s", "zs[0]", "{'k': xs}.k + xs",
        "m", "xs.map(x, s + string(x))", "xs + xs.map(x, x * 2)", "(xs + ys).filter(x, x != n) + xs", "n + 1", "xs == ys", "[s + s, s]", "xs.map(x, ys).map(l, l + [n])",
    ];
    let progs = (0..n).map(|_| rng.pick(&templates).to_string()).collect();
    (spec, progs)
}

pub fn generate(tier: Tier, rng: &mut Rng) -> Vec<Case> {
    let n = match tier {
        Tier::Quick => 1200,
        Tier::Thorough => 100_000,
    };
    let mut out = vec![];
    while out.len() < n {
        let (spec, progs) = gen_history(rng);
        if let Some(mut c) = history_case(&spec, &progs) {
            let interesting = progs.iter().any(|p| p.contains('+') || p.contains(".map") || p.contains(".filter"));
            c.tags = vec![if interesting { "history" } else { "plain" }];
            out.push(c);
        }
    }
    out
}

pub fn predicate(_case: &Case, impl_ans: &str) -> Option<String> {
    if impl_ans.contains("(panic)") {
        return Some("execution panicked".into());
    }
    if !impl_ans.ends_with(" pure)") {
        let why = impl_ans.rsplit("(impure").next().unwrap_or("");
        return Some(format!("execution is not pure / repeatable: (impure{why}"));
    }
    None
}

pub fn nontrivial(case: &Case, _impl_ans: &str) -> bool {
    !case.tags.contains(&"plain")
}
