//! C05 — execution is pure, repeatable and safe to share across threads.
use super::{PropDef, Tier};
use crate::ctx::{Body, CtxSpec, FnSpec};
use crate::gen::*;
use crate::prng::Rng;
use crate::run::{history_case, Case};
use cel_interpreter::Value;
use std::sync::Arc;

pub fn def() -> PropDef {
    PropDef {
        id: "C05",
        generate,
        predicate,
        nontrivial,
        functional: true,
        post: super::no_post,
        rule: "histories of 2-50 executions of generated programs (biased to list / string concatenation and macros over context variables, with values aliased between variables; 0-60% of the executions of a history end in an error raised at depth 1-8; regular-expression matches with two distinct patterns per history) against one context: after every execution the context's variables and every value returned earlier are re-read and must be unchanged, and the program is executed a second time and must return an equal result; the same histories are then executed by the separate celconc binary with 4 (quick) / 16 (thorough) threads x 20 / 200 rounds sharing &Program and a root &Context through inner scopes, every execution compared with the sequential result; celconc first runs a fixed host-function phase (a lazily resolving function re-entered from its own argument, and a function that panics on one argument, executed by all threads side by side: every other execution must still yield what it yields alone, and none may hang); celconc also carries the compile-time Send + Sync assertions for Program, Context, Value, ExecutionError; non-trivial = the history contains a concatenation or a macro; distinct = distinct (context, history)",
        exhaustive_note: "random sample of histories; thread interleavings are whatever the scheduler produces",
    }
}

pub fn gen_history(rng: &mut Rng) -> (CtxSpec, Vec<String>) {
    let mut spec = CtxSpec::default_ctx();
    let l: Vec<Value> = (0..rng.below(5)).map(|_| Value::Int(rng.range(0, 9))).collect();
    let shared = Value::List(Arc::new(l));
    // aliased: two variables hold the same Arc
    spec.vars.push(("xs".into(), shared.clone()));
    spec.vars.push(("ys".into(), shared.clone()));
    spec.vars.push(("zs".into(), Value::List(Arc::new(vec![shared.clone(), Value::Int(1)]))));
    let s = Value::String(Arc::new(gen_string(rng)));
    spec.vars.push(("s".into(), s.clone()));
    spec.vars.push(("t".into(), s));
    spec.vars.push(("n".into(), Value::Int(rng.range(0, 5))));
    // a list large enough that nested macros do thousands of iterations (budgets, counters or
    // pools shared between executions show under that load, not on three-element lists)
    spec.vars.push(("big".into(), Value::List(Arc::new((0..64).map(Value::Int).collect()))));
    // nested maps for selection chains (different programs select different paths of one variable)
    {
        let leaf = |k: &str, v: Value| -> Value { let mut m = std::collections::HashMap::new(); m.insert(cel_interpreter::objects::Key::String(Arc::new(k.to_string())), v); Value::Map(cel_interpreter::objects::Map { map: Arc::new(m) }) };
        let mut auth = std::collections::HashMap::new();
        auth.insert(cel_interpreter::objects::Key::String(Arc::new("uid".into())), Value::String(Arc::new("alice".into())));
        auth.insert(cel_interpreter::objects::Key::String(Arc::new("role".into())), Value::String(Arc::new("admin".into())));
        let mut req = std::collections::HashMap::new();
        req.insert(cel_interpreter::objects::Key::String(Arc::new("auth".into())), Value::Map(cel_interpreter::objects::Map { map: Arc::new(auth) }));
        req.insert(cel_interpreter::objects::Key::String(Arc::new("meta".into())), leaf("ip", leaf("v", Value::Int(4))));
        spec.vars.push(("req".into(), Value::Map(cel_interpreter::objects::Map { map: Arc::new(req) })));
    }
    // `k` is re-bound in every inner scope by the concurrency driver
    spec.vars.push(("k".into(), Value::Int(rng.range(0, 9))));
    spec.vars.push(("m".into(), gen_value(rng, &Ty::Map(Box::new(Ty::Str), Box::new(Ty::List(Box::new(Ty::Int)))), 2)));
    spec.fns.push(("id".into(), FnSpec::Host(vec!["pos-value".into()], Body::First)));
    let span = if rng.chance(1, 10) { 49 } else { 8 };
    let n = 2 + rng.below(span) as usize;
    let templates = [
        "xs + ys", "xs + [n]", "ys + xs + xs", "s + t", "s + 'x' + t", "(xs + [1]) + (xs + [2])", "xs.map(x, x + n)", "xs.filter(x, x > n)", "xs.all(x, x >= 0)", "xs.exists(x, x == n)",
        "zs[0] + xs", "zs + zs", "[xs, ys, xs + ys]", "xs.map(x, xs + [x])", "id(xs) + id(ys)", "id(s) + s", "size(xs + ys) == size(xs) + size(ys)", "xs", "ys", "s", "zs[0]", "{'k': xs}.k + xs",
        "m", "xs.map(x, s + string(x))", "xs + xs.map(x, x * 2)", "(xs + ys).filter(x, x != n) + xs", "n + 1", "xs == ys", "[s + s, s]", "xs.map(x, ys).map(l, l + [n])",
        // has() on freshly built, short-lived maps with different keys (a memo keyed by address or
        // by expression id outlives the map it describes)
        "has({'alpha': 1}.alpha)", "has({'beta': 1}.alpha)", "has({'alpha': n, 'beta': n}.beta)", "has({'k': xs}.alpha) || has({'alpha': xs}.alpha)", "[{'a': 1}, {'b': 1}].map(e, has(e.a))",
        // selection chains on one root variable, several per history
        "req.auth.uid", "req.auth.role", "req.meta.ip.v", "req.auth.uid + req.auth.role", "has(req.auth.role) ? req.auth.role : req.auth.uid", "[req.auth.role, req.meta.ip.v]",
        // map literals with numerically equal keys of different kinds, indexed every way (a lookup
        // that scans instead of hashing depends on the iteration order of that instance)
        "{1: 'int', 1u: 'uint'}[1.0]", "{1: 'int', 1u: 'uint'}[1]", "{n: 'a', uint(n): 'b'}[uint(n)]", "{1: 'int', 1u: 'uint', 'k': 2}.map(e, e).size()", "1.0 in {1: 'int', 1u: 'uint'}",
        // the same text converted in different ways, and the same conversion of different texts (a
        // memo shared between executions must be keyed by everything that determines the answer)
        "int('42')", "double('42')", "uint('42')", "double('42') / 4.0", "int('42') / 4", "uint('42') + 1u", "string(42) + s", "bytes('42')", "int('7') + n", "double('7') + 0.5",
        "duration('42s')", "duration('42m')", "string(duration('42s'))", "timestamp('2023-01-01T00:00:00Z')", "string(timestamp('2023-01-01T00:00:00Z'))", "timestamp('2023-01-01T00:00:00Z').getFullYear()", "[int('42'), double('42')]",
        // fields named like built-in functions, selected (not called) on maps that lack them, next to
        // calls of those functions: what a selection yields does not depend on what ran before
        "req.size", "req.auth.contains", "[req.size, size(xs)]", "has(req.size)", "[req.matches, req.auth.startsWith]", "req.meta.string", "size(xs) + size(ys)", "xs.contains(n)",
        // ranges written entirely as literals, of the same shape in several programs (a cache of
        // constant ranges keyed by anything less than the range itself confuses them)
        "[1, 2, 3].map(x, x * 2)", "[5, 6].map(x, x * 2)", "[7].map(x, x * 2)", "[].map(x, x * 2)", "{1: 2}.map(e, e)", "{3: 4}.map(e, e)", "[1, 2, 3].filter(x, x > 1)", "[9, 0].filter(x, x > 1)", "['a'].all(x, x == 'a')", "['b'].all(x, x == 'a')",
        // a name that is a macro variable in one place and the scope's own variable in another
        "k + 1", "[1, 2].map(k, k * 2) + [k]", "xs.map(x, x + k)", "[5].exists(k, k > 2) ? k : 0 - k", "[k, k + 1].filter(k, k > 3) + [k]", "xs.all(k, k >= 0) && k >= 0",
    ];
    // executions that end in an error, at various depths (a failed execution must leave nothing
    // behind either: the next one yields what it would yield alone)
    let failing = [
        "1 / 0", "xs.map(x, [x, 10 / (x - x)])", "xs + [1 / 0]", "zs[0][99] + 1", "undefined_name + 1", "xs.map(x, nope(x))", "m.no_such_key.deeper", "s + 1",
        "id(1 / 0)", "[1, 2, 3].all(x, 1 / (x - x) > 0)", "[[[[[[1 % 0]]]]]]", "{'a': {'b': {'c': [1, 2][5] + 1}}}", "n + 9223372036854775807", "(xs + ys).map(x, xs.map(y, y / (n - n)))", "int('x')",
        "true ? [xs.map(x, s + x)] : []", "duration('x')", "timestamp()", "duration()", "int()", "string()", "[timestamp(), timestamp()]", "xs.map(x, timestamp())", "size()", "double('4x2')", "uint('-42')", "[1, 2].map(x, [3, 4].map(y, [5, 6].map(z, x / (y - y))))",
    ];
    // regular expressions: a few distinct patterns per history (each (pattern, text) pair is
    // answered by the real `regex` crate for the model)
    let regexes = ["s.matches('^a')", "s.matches('b$')", "s.matches('[0-9]+')", "'abc'.matches('a.c')", "'abc'.matches('^b')", "t.matches('x|y')", "'2024-01'.matches('^[0-9]{4}-[0-9]{2}$')"];
    let r0 = rng.below(regexes.len() as u64) as usize;
    let my_regexes = [regexes[r0], regexes[(r0 + 3) % regexes.len()]];
    let fail_pct = *rng.pick(&[0u64, 10, 30, 60]);
    let heavy = ["size(big.map(a, big.filter(b, b > a)))", "big.map(a, big.map(b, a + b)).size()", "big.all(a, big.exists(b, b == a))", "big.filter(a, big.map(b, b * a).size() > n).size()"];
    let heavy_pct = if rng.chance(1, 4) { 25 } else { 0 };
    let progs = (0..n)
        .map(|_| {
            if rng.below(100) < heavy_pct {
                rng.pick(&heavy).to_string()
            } else if rng.below(100) < fail_pct {
                rng.pick(&failing).to_string()
            } else if rng.chance(1, 8) {
                rng.pick(&my_regexes).to_string()
            } else {
                rng.pick(&templates).to_string()
            }
        })
        .collect();
    (spec, progs)
}

pub fn generate(tier: Tier, rng: &mut Rng) -> Vec<Case> {
    let n = match tier {
        Tier::Quick => 1200,
        Tier::Thorough => 100_000,
    };
    let mut out = vec![];
    while out.len() < n {
        let (spec, progs) = gen_history(rng);
        if let Some(mut c) = history_case(&spec, &progs) {
            let interesting = progs.iter().any(|p| p.contains('+') || p.contains(".map") || p.contains(".filter"));
            c.tags = vec![if interesting { "history" } else { "plain" }];
            out.push(c);
        }
    }
    out
}

pub fn predicate(_case: &Case, impl_ans: &str) -> Option<String> {
    if impl_ans.contains("(panic)") {
        return Some("execution panicked".into());
    }
    if !impl_ans.ends_with(" pure)") {
        let why = impl_ans.rsplit("(impure").next().unwrap_or("");
        return Some(format!("execution is not pure / repeatable: (impure{why}"));
    }
    None
}

pub fn nontrivial(case: &Case, _impl_ans: &str) -> bool {
    !case.tags.contains(&"plain")
}
