//! C06 — logical operators and the conditional evaluate only what they need.
use super::{PropDef, Tier};
use crate::ctx::{Body, CtxSpec, FnSpec};
use crate::prng::Rng;
use crate::run::{eval_case_from_src, Case};
use cel_interpreter::objects::Map;
use cel_interpreter::Value;
use std::collections::HashMap;
use std::sync::Arc;

pub fn def() -> PropDef {
    PropDef {
        id: "C06",
        generate,
        predicate,
        nontrivial,
        functional: false,
        rule: "all trees over &&, ||, ?: of depth <= 1 and a quarter of depth 2 (quick) / all of depth <= 2 (thorough) over the operand kinds (true, false, division by zero, overflow, missing key, undeclared variable, call of an unregistered function in global and receiver style, failing host function, call-logging host functions returning true/false), random trees to depth 4, chains of length 2-3 whose terms all compare the same operand with literals, failing and logging expressions, each also wrapped as the body of map/filter/all/exists macros; every enumerated tree of depth <= 1 under one to three negations; three-argument map with guards and transforms of every operand kind (the macro-generated conditional); the predicate re-evaluates the tree with an independent reference interpreter of the short-circuit rules and requires the same outcome and the same ordered call log; non-trivial = at least one operand is skipped by the rules; distinct = distinct source text",
        post: super::no_post,
        exhaustive_note: "depth <= 1 enumeration is complete in the quick tier (depth 2 over every 4th subtree); depth <= 2 is complete in the thorough tier",
    }
}

#[derive(Clone, Debug)]
pub enum L {
    Const(bool),
    Err(&'static str, &'static str), // (source, class)
    Log(bool, u32),
    Fail(u32),
    Not(Box<L>),
    And(Box<L>, Box<L>),
    Or(Box<L>, Box<L>),
    Cond(Box<L>, Box<L>, Box<L>),
}

const ERRS: [(&str, &str); 6] = [
    ("(1 / 0 == 1)", "div0"),
    ("(9223372036854775807 + 1 == 0)", "overflow"),
    ("m.missing", "nosuchkey"),
    ("zz", "undeclared"),
    // calls of functions nobody registered, global and receiver style (a skipped operand may
    // mention them; a reached one fails with the function's name)
    ("nosuch(1)", "undeclared x6e6f73756368"),
    ("m.nosuchm(1)", "undeclared x6e6f737563686d"),
];

impl L {
    pub fn render(&self) -> String {
        match self {
            L::Const(b) => b.to_string(),
            L::Err(s, _) => s.to_string(),
            L::Log(b, t) => format!("{}({t})", if *b { "lt" } else { "lf" }),
            L::Fail(t) => format!("fail({t})"),
            L::Not(a) => format!("(!{})", a.render()),
            L::And(a, b) => format!("({} && {})", a.render(), b.render()),
            L::Or(a, b) => format!("({} || {})", a.render(), b.render()),
            L::Cond(c, x, y) => format!("({} ? {} : {})", c.render(), x.render(), y.render()),
        }
    }
    /// reference interpreter of the documented rules: left to right, first error aborts,
    /// `&&`/`||`/`?:` evaluate only what they need
    pub fn eval(&self, log: &mut Vec<String>, skipped: &mut u32) -> Result<bool, String> {
        match self {
            L::Const(b) => Ok(*b),
            L::Err(_, cls) => Err(if *cls == "undeclared" { "undeclared x7a7a".to_string() } else { cls.to_string() }),
            L::Log(b, t) => {
                log.push(format!("({} (int {t}))", if *b { "x6c74" } else { "x6c66" }));
                Ok(*b)
            }
            L::Fail(t) => {
                log.push(format!("(x6661696c (int {t}))"));
                Err("function-error".into())
            }
            L::Not(a) => Ok(!a.eval(log, skipped)?),
            L::And(a, b) => {
                if !a.eval(log, skipped)? {
                    *skipped += 1;
                    Ok(false)
                } else {
                    b.eval(log, skipped)
                }
            }
            L::Or(a, b) => {
                if a.eval(log, skipped)? {
                    *skipped += 1;
                    Ok(true)
                } else {
                    b.eval(log, skipped)
                }
            }
            L::Cond(c, x, y) => {
                *skipped += 1;
                if c.eval(log, skipped)? {
                    x.eval(log, skipped)
                } else {
                    y.eval(log, skipped)
                }
            }
        }
    }
}

pub fn ctx_spec() -> CtxSpec {
    let mut spec = CtxSpec::default_ctx();
    spec.fns.push(("lt".into(), FnSpec::Host(vec!["pos-int".into()], Body::Const(Value::Bool(true)))));
    spec.fns.push(("lf".into(), FnSpec::Host(vec!["pos-int".into()], Body::Const(Value::Bool(false)))));
    spec.fns.push(("fail".into(), FnSpec::Host(vec!["pos-int".into()], Body::Fail)));
    spec.vars.push(("m".into(), Value::Map(Map { map: Arc::new(HashMap::new()) })));
    spec.vars.push(("x".into(), Value::Int(1)));
    spec.fns.push(("one".into(), FnSpec::Host(vec!["pos-int".into()], Body::Const(Value::Int(1)))));
    spec.fns.push(("two".into(), FnSpec::Host(vec!["pos-int".into()], Body::Const(Value::Int(2)))));
    spec
}

fn leaves(counter: &mut u32, reduced: bool) -> Vec<L> {
    let mut v = vec![L::Const(true), L::Const(false)];
    *counter += 1;
    v.push(L::Log(true, *counter));
    *counter += 1;
    v.push(L::Log(false, *counter));
    *counter += 1;
    v.push(L::Fail(*counter));
    if reduced {
        v.push(L::Err(ERRS[0].0, ERRS[0].1));
    } else {
        for (s, c) in ERRS {
            v.push(L::Err(s, c));
        }
    }
    v
}

fn enumerate(depth: u32, counter: &mut u32, reduced: bool) -> Vec<L> {
    if depth == 0 {
        return leaves(counter, reduced);
    }
    let mut out = leaves(counter, reduced);
    let mut subs = enumerate(depth - 1, counter, reduced);
    if reduced && subs.len() > 80 {
        // quick tier: every 4th tree of the level below (the thorough tier takes them all)
        subs = subs.into_iter().step_by(4).collect();
    }
    // fresh tags per occurrence are not needed for the predicate: the log is compared as a sequence
    for a in &subs {
        for b in &subs {
            out.push(L::And(Box::new(a.clone()), Box::new(b.clone())));
            out.push(L::Or(Box::new(a.clone()), Box::new(b.clone())));
        }
    }
    let small: Vec<&L> = subs.iter().take(if depth >= 2 { 6 } else { subs.len() }).collect();
    for c in &small {
        for x in &small {
            for y in &small {
                out.push(L::Cond(Box::new((*c).clone()), Box::new((*x).clone()), Box::new((*y).clone())));
            }
        }
    }
    out
}

fn random_tree(rng: &mut Rng, depth: u32, counter: &mut u32) -> L {
    if depth == 0 || rng.chance(1, 5) {
        *counter += 1;
        return match rng.below(7) {
            0 => L::Const(true),
            1 => L::Const(false),
            2 => L::Log(true, *counter),
            3 => L::Log(false, *counter),
            4 => L::Fail(*counter),
            _ => {
                let (s, c) = *rng.pick(&ERRS);
                L::Err(s, c)
            }
        };
    }
    let d = depth - 1;
    match rng.below(7) {
        0 | 1 => L::And(Box::new(random_tree(rng, d, counter)), Box::new(random_tree(rng, d, counter))),
        2 | 3 => L::Or(Box::new(random_tree(rng, d, counter)), Box::new(random_tree(rng, d, counter))),
        4 | 5 => L::Cond(Box::new(random_tree(rng, d, counter)), Box::new(random_tree(rng, d, counter)), Box::new(random_tree(rng, d, counter))),
        _ => L::Not(Box::new(random_tree(rng, d, counter))),
    }
}

/// expected answer text `(res <outcome> (log …))`, and the number of skipped operands
fn expected(tree: &L, wrapper: usize) -> (String, u32) {
    let mut log = vec![];
    let mut skipped = 0;
    let r = tree.eval(&mut log, &mut skipped);
    let outcome = match (&r, wrapper) {
        (Err(e), _) => format!("(err {e})"),
        (Ok(b), 0) => format!("(ok (bool {}))", *b as u8),
        (Ok(b), 1) => format!("(ok (list (bool {})))", *b as u8),           // [0].map(x, E)
        (Ok(b), 2) => format!("(ok (list{}))", if *b { " (int 0)" } else { "" }), // [0].filter(x, E)
        (Ok(b), 3) => format!("(ok (bool {}))", *b as u8),                  // [0].all(x, E)
        (Ok(b), _) => format!("(ok (bool {}))", *b as u8),                  // [0].exists(x, E)
    };
    let logtxt = if log.is_empty() { "(log)".to_string() } else { format!("(log {})", log.join(" ")) };
    (format!("(res {outcome} {logtxt})"), skipped)
}

fn wrap(src: &str, wrapper: usize) -> String {
    match wrapper {
        0 => src.to_string(),
        1 => format!("[0].map(x, {src})"),
        2 => format!("[0].filter(x, {src})"),
        3 => format!("[0].all(x, {src})"),
        _ => format!("[0].exists(x, {src})"),
    }
}

pub fn generate(tier: Tier, rng: &mut Rng) -> Vec<Case> {
    let spec = ctx_spec();
    let mut trees: Vec<L> = vec![];
    let mut counter = 0;
    match tier {
        Tier::Quick => trees.extend(enumerate(2, &mut counter, true)),
        Tier::Thorough => {
            trees.extend(enumerate(2, &mut counter, false));
        }
    }
    // every enumerated tree of depth <= 1 under one, two and three negations (a negation pushed
    // into a conjunction, a disjunction or - wrongly - a conditional changes what is evaluated)
    {
        let mut c2 = 5000;
        let shallow = enumerate(1, &mut c2, false);
        for t in &shallow {
            if matches!(t, L::And(..) | L::Or(..) | L::Cond(..)) {
                trees.push(L::Not(Box::new(t.clone())));
                trees.push(L::Not(Box::new(L::Not(Box::new(t.clone())))));
                trees.push(L::And(Box::new(L::Not(Box::new(t.clone()))), Box::new(t.clone())));
                trees.push(L::Cond(Box::new(L::Not(Box::new(t.clone()))), Box::new(L::Not(Box::new(t.clone()))), Box::new(t.clone())));
            }
        }
    }
    let n_random = match tier {
        Tier::Quick => 3000,
        Tier::Thorough => 300_000,
    };
    for _ in 0..n_random {
        let d = 2 + rng.below(3) as u32;
        trees.push(random_tree(rng, d, &mut counter));
    }
    let mut out = vec![];
    for (i, t) in trees.iter().enumerate() {
        let wrapper = if i % 3 == 0 { (i / 3) % 5 } else { 0 };
        let src = wrap(&t.render(), wrapper);
        if let Some(mut c) = eval_case_from_src(&spec, &src) {
            let (want, skipped) = expected(t, wrapper);
            c.tags = vec![if wrapper == 0 { "plain" } else { "macro-body" }, if skipped > 0 { "skips" } else { "no-skip" }];
            // the expectation travels with the case (after a NUL-free separator) for the predicate
            c.src = Some(src);
            c.payload = format!("{}", c.payload);
            EXPECT.with(|e| e.borrow_mut().insert(c.key(), want));
            out.push(c);
        }
    }
    // chains whose terms all compare one operand with something (the shape an "x == a || x == b
    // → x in [a, b]" rewrite looks for): later terms stay unevaluated once the chain is decided;
    // the model, which has no such rewrite, decides
    // flat, unparenthesised chains of three and four operands (the parser's chain handling only
    // sees operands that are written without parentheses); same semantics as the left-nested tree
    {
        let mut counter2 = 1000;
        let ls = leaves(&mut counter2, false);
        let flat = |ts: &[&L], is_or: bool| -> (String, L) {
            let src = ts.iter().map(|t| t.render()).collect::<Vec<_>>().join(if is_or { " || " } else { " && " });
            let mut tree = ts[0].clone();
            for t in &ts[1..] {
                tree = if is_or { L::Or(Box::new(tree), Box::new((*t).clone())) } else { L::And(Box::new(tree), Box::new((*t).clone())) };
            }
            (src, tree)
        };
        for is_or in [false, true] {
            for a in &ls {
                for b in &ls {
                    for c in &ls {
                        let mut combos: Vec<Vec<&L>> = vec![vec![a, b, c]];
                        // a fourth operand repeating the first (a de-duplicating rewrite must keep the first)
                        combos.push(vec![a, b, c, a]);
                        for ts in combos {
                            let (src, tree) = flat(&ts, is_or);
                            for wrapper in [0usize, 3] {
                                let wsrc = wrap(&src, wrapper);
                                if let Some(mut case) = eval_case_from_src(&spec, &wsrc) {
                                    let (want, skipped) = expected(&tree, wrapper);
                                    case.tags = vec!["flat-chain", if skipped > 0 { "skips" } else { "no-skip" }];
                                    case.src = Some(wsrc);
                                    EXPECT.with(|e| e.borrow_mut().insert(case.key(), want));
                                    out.push(case);
                                }
                            }
                        }
                    }
                }
            }
        }
    }
    // (source, outcome, log entry): x is 1
    let terms: [(&str, Result<bool, &str>, &str); 12] = [
        ("x == 1", Ok(true), ""),
        ("x == 2", Ok(false), ""),
        ("x == 1 / 0", Err("div0"), ""),
        ("x == zz", Err("undeclared x7a7a"), ""),
        ("x == m.missing", Err("nosuchkey"), ""),
        ("1 == x", Ok(true), ""),
        ("x == one(1)", Ok(true), "(x6f6e65 (int 1))"),
        ("x == two(2)", Ok(false), "(x74776f (int 2))"),
        ("x == two(9)", Ok(false), "(x74776f (int 9))"),
        ("x == fail(3)", Err("function-error"), "(x6661696c (int 3))"),
        ("x != 1", Ok(false), ""),
        ("x != 1 / 0", Err("div0"), ""),
    ];
    // reference: left to right, the first error aborts, `||` stops at the first true, `&&` at the first false
    let chain = |ts: &[usize], is_or: bool, log: &mut Vec<String>| -> Result<bool, String> {
        for &t in ts {
            let (_, outcome, entry) = terms[t];
            if !entry.is_empty() {
                log.push(entry.to_string());
            }
            match outcome {
                Err(e) => return Err(e.to_string()),
                Ok(v) if v == is_or => return Ok(is_or),
                Ok(_) => {}
            }
        }
        Ok(!is_or)
    };
    let fmt = |r: &Result<bool, String>, log: &[String]| -> String {
        let l = if log.is_empty() { "(log)".to_string() } else { format!("(log {})", log.join(" ")) };
        match r {
            Ok(v) => format!("(res (ok (bool {})) {l})", *v as u8),
            Err(e) => format!("(res (err {e}) {l})"),
        }
    };
    for (op, is_or) in [("||", true), ("&&", false)] {
        for a in 0..terms.len() {
            for b in 0..terms.len() {
                let mut combos: Vec<Vec<usize>> = vec![vec![a, b]];
                for c in [2usize, 8, 0] {
                    combos.push(vec![a, b, c]);
                }
                for ts in combos {
                    let text = ts.iter().map(|t| terms[*t].0).collect::<Vec<_>>().join(&format!(" {op} "));
                    // plain, inside a conditional under &&, and as the body of `all` over [1, 1]
                    let mut log = vec![];
                    let r = chain(&ts, is_or, &mut log);
                    let want_plain = fmt(&r, &log);
                    let mut log2 = vec![];
                    let mut r2: Result<bool, String> = Ok(true);
                    for _ in 0..2 {
                        r2 = chain(&ts, is_or, &mut log2);
                        if r2 != Ok(true) {
                            break;
                        }
                    }
                    let want_all = fmt(&r2, &log2);
                    for (src, want) in [(text.clone(), want_plain.clone()), (format!("true && (false ? false : ({text}))"), want_plain.clone()), (format!("[1, 1].all(x, {text})"), want_all)] {
                        if let Some(mut c) = eval_case_from_src(&spec, &src) {
                            c.tags = vec!["equality-chain", "skips"];
                            c.src = Some(src);
                            EXPECT.with(|e| e.borrow_mut().insert(c.key(), want));
                            out.push(c);
                        }
                    }
                }
            }
        }
    }
    // macro calls as operands of && / || chains and of conditionals, left of failing and logging
    // operands: a macro is an operand like any other and keeps its place (the model decides)
    {
        let macros = ["[1, 2].exists(x, lt(x))", "[1, 2].all(x, lf(x))", "[1, 2].exists(x, x == 2)", "[1, 2].all(x, x > 0)", "[1].map(x, lt(x))[0]", "[1, 2].filter(x, lt(x)).size() == 2", "[1, 2].exists_one(x, lt(x))", "has(m.k)", "![1].all(x, lt(x))"];
        let others = ["fail(20)", "lt(21)", "lf(22)", "1 / 0 > 0", "undeclared", "m.k", "true", "false"];
        for mac in macros {
            for o in others {
                for src in [
                    format!("{mac} || {o}"), format!("{mac} && {o}"), format!("{o} || {mac}"), format!("{o} && {mac}"), format!("{mac} || {o} || lt(23)"), format!("lt(24) && {mac} && {o}"), format!("{mac} ? {o} : lt(25)"),
                    format!("{o} ? {mac} : lf(26)"), format!("[1].all(y, {mac} || {o})"), format!("({mac} && {o}) || ({mac} || {o})"),
                ] {
                    if let Some(mut c) = eval_case_from_src(&spec, &src) {
                        c.tags = vec!["macro-operand", "skips"];
                        c.src = Some(src);
                        out.push(c);
                    }
                }
            }
        }
    }
    // the conditional a macro generates: `map(x, guard, transform)` evaluates the transform only for
    // elements the guard accepts, and after the guard (the model decides)
    for guard in ["false", "true", "x > 0", "lf(1)", "lt(1)", "x != 0 && lt(2)", "lf(3) || x > 0", "fail(4)", "x == 0 ? lf(5) : lt(6)"] {
        for transform in ["10 / x", "fail(7)", "one(8)", "lt(9) && fail(10)", "nope", "m.k", "x", "[one(11), 10 / x]"] {
            for range in ["[0, 5]", "[1, 2]", "[0]", "[]", "[5, 0, 7]"] {
                for src in [format!("{range}.map(x, {guard}, {transform})"), format!("{range}.map(x, {guard}, {transform}).size() >= 0 || lt(12)"), format!("[1].map(y, {range}.map(x, {guard}, {transform}))")] {
                    if let Some(mut c) = eval_case_from_src(&spec, &src) {
                        c.tags = vec!["guarded-map", "skips"];
                        c.src = Some(src);
                        out.push(c);
                    }
                }
            }
        }
    }
    out
}

thread_local! {
    static EXPECT: std::cell::RefCell<HashMap<String, String>> = std::cell::RefCell::new(HashMap::new());
}

pub fn predicate(case: &Case, impl_ans: &str) -> Option<String> {
    if impl_ans.contains("(panic)") {
        return Some("evaluation panicked".into());
    }
    let want = EXPECT.with(|e| e.borrow().get(&case.key()).cloned())?;
    if want != impl_ans {
        Some(format!("short-circuit rules prescribe {want}, implementation answered {impl_ans}"))
    } else {
        None
    }
}

pub fn nontrivial(case: &Case, _impl_ans: &str) -> bool {
    case.tags.contains(&"skips")
}
