//! C10 — comprehension macros compute their defining folds.
use super::{PropDef, Tier};
use crate::ctx::{Body, CtxSpec, FnSpec};
use crate::prng::Rng;
use crate::run::Case;
use crate::wire::expr_to_sx;
use std::collections::HashMap;

pub fn def() -> PropDef {
    PropDef {
        id: "C10",
        generate,
        predicate,
        nontrivial,
        functional: true,
        rule: "all, exists, exists_one/existsOne, map (2 and 3 arguments) and filter over every int list of length 0-4 (quick) / 0-6 (thorough) from the alphabet {-1,0,1,2}, over single- and multi-entry maps (keys), with bodies that are pure predicates, raise an error on chosen elements, or call a logging host function; nested two deep; expected outcome and ordered call log come from an independent reference implementation of the defining folds (first deciding element stops all/exists, errors on reached elements abort); plus the expansion itself (model's Macros.expand vs the parser's) for every macro shape; non-trivial = range non-empty; distinct = distinct source text",
        post: super::no_post,
        exhaustive_note: "lists of length 0-4 over a 4-symbol alphabet x macro x body family are enumerated completely in the quick tier",
    }
}

#[derive(Clone, Copy, Debug, PartialEq)]
enum BodyK {
    LogPos,    // t(x) > 0
    DivPos,    // 1 / t(x) > 0   (error at 0)
    EqOne,     // x == 1
    True,      // true
    AlwaysErr, // t(x) / 0 > 0
    NotNeg,    // t(x) >= 0
}
const BODIES: [BodyK; 6] = [BodyK::LogPos, BodyK::DivPos, BodyK::EqOne, BodyK::True, BodyK::AlwaysErr, BodyK::NotNeg];

impl BodyK {
    fn render(self, v: &str) -> String {
        match self {
            BodyK::LogPos => format!("t({v}) > 0"),
            BodyK::DivPos => format!("1 / t({v}) > 0"),
            BodyK::EqOne => format!("{v} == 1"),
            BodyK::True => "true".to_string(),
            BodyK::AlwaysErr => format!("t({v}) / 0 > 0"),
            BodyK::NotNeg => format!("t({v}) >= 0"),
        }
    }
    /// value of the predicate on x, logging
    fn eval(self, x: i64, log: &mut Vec<String>) -> Result<bool, &'static str> {
        let mut t = |x: i64| log.push(format!("(x74 (int {x}))"));
        match self {
            BodyK::LogPos => {
                t(x);
                Ok(x > 0)
            }
            BodyK::DivPos => {
                t(x);
                if x == 0 {
                    Err("div0")
                } else {
                    Ok(1 / x > 0)
                }
            }
            BodyK::EqOne => Ok(x == 1),
            BodyK::True => Ok(true),
            BodyK::AlwaysErr => {
                t(x);
                Err("div0")
            }
            BodyK::NotNeg => {
                t(x);
                Ok(x >= 0)
            }
        }
    }
}

#[derive(Clone, Copy, Debug, PartialEq)]
enum MacroK {
    All,
    Exists,
    ExistsOne,
    ExistsOneCamel,
    Map,       // map(x, t(x) * 2)   (uses transform, not predicate)
    MapDiv,    // map(x, 6 / t(x))
    MapFilter, // map(x, p, t(x) + 10)
    Filter,
}
const MACROS: [MacroK; 8] = [MacroK::All, MacroK::Exists, MacroK::ExistsOne, MacroK::ExistsOneCamel, MacroK::Map, MacroK::MapDiv, MacroK::MapFilter, MacroK::Filter];

fn render(m: MacroK, range: &str, v: &str, b: BodyK) -> String {
    match m {
        MacroK::All => format!("{range}.all({v}, {})", b.render(v)),
        MacroK::Exists => format!("{range}.exists({v}, {})", b.render(v)),
        MacroK::ExistsOne => format!("{range}.exists_one({v}, {})", b.render(v)),
        MacroK::ExistsOneCamel => format!("{range}.existsOne({v}, {})", b.render(v)),
        MacroK::Map => format!("{range}.map({v}, t({v}) * 2)"),
        MacroK::MapDiv => format!("{range}.map({v}, 6 / t({v}))"),
        MacroK::MapFilter => format!("{range}.map({v}, {}, t({v}) + 10)", b.render(v)),
        MacroK::Filter => format!("{range}.filter({v}, {})", b.render(v)),
    }
}

/// the defining folds (independent reference): returns the outcome text
fn reference(m: MacroK, xs: &[i64], b: BodyK, log: &mut Vec<String>) -> String {
    let t = |x: i64, log: &mut Vec<String>| log.push(format!("(x74 (int {x}))"));
    let ints = |v: &[i64]| format!("(ok (list{}))", v.iter().map(|i| format!(" (int {i})")).collect::<String>());
    match m {
        MacroK::All => {
            for &x in xs {
                match b.eval(x, log) {
                    Err(e) => return format!("(err {e})"),
                    Ok(false) => return "(ok (bool 0))".into(),
                    Ok(true) => {}
                }
            }
            "(ok (bool 1))".into()
        }
        MacroK::Exists => {
            for &x in xs {
                match b.eval(x, log) {
                    Err(e) => return format!("(err {e})"),
                    Ok(true) => return "(ok (bool 1))".into(),
                    Ok(false) => {}
                }
            }
            "(ok (bool 0))".into()
        }
        MacroK::ExistsOne | MacroK::ExistsOneCamel => {
            let mut n = 0;
            for &x in xs {
                match b.eval(x, log) {
                    Err(e) => return format!("(err {e})"),
                    Ok(true) => n += 1,
                    Ok(false) => {}
                }
            }
            format!("(ok (bool {}))", (n == 1) as u8)
        }
        MacroK::Map => {
            let mut out = vec![];
            for &x in xs {
                t(x, log);
                out.push(x * 2);
            }
            ints(&out)
        }
        MacroK::MapDiv => {
            let mut out = vec![];
            for &x in xs {
                t(x, log);
                if x == 0 {
                    return "(err div0)".into();
                }
                out.push(6 / x);
            }
            ints(&out)
        }
        MacroK::MapFilter => {
            let mut out = vec![];
            for &x in xs {
                match b.eval(x, log) {
                    Err(e) => return format!("(err {e})"),
                    Ok(true) => {
                        t(x, log);
                        out.push(x + 10);
                    }
                    Ok(false) => {}
                }
            }
            ints(&out)
        }
        MacroK::Filter => {
            let mut out = vec![];
            for &x in xs {
                match b.eval(x, log) {
                    Err(e) => return format!("(err {e})"),
                    Ok(true) => out.push(x),
                    Ok(false) => {}
                }
            }
            ints(&out)
        }
    }
}

fn list_src(xs: &[i64]) -> String {
    format!("[{}]", xs.iter().map(|x| if *x < 0 { format!("({x})") } else { x.to_string() }).collect::<Vec<_>>().join(", "))
}

pub fn ctx_spec() -> CtxSpec {
    let mut spec = CtxSpec::default_ctx();
    spec.fns.push(("t".into(), FnSpec::Host(vec!["pos-value".into()], Body::First)));
    // host variables named like the iteration variables the programs use: the macro's binding wins
    spec.vars.push(("x".into(), cel_interpreter::Value::Int(100)));
    spec.vars.push(("y".into(), cel_interpreter::Value::Int(200)));
    spec.vars.push(("k".into(), cel_interpreter::Value::String(std::sync::Arc::new("root".into()))));
    spec
}

thread_local! {
    static EXPECT: std::cell::RefCell<HashMap<String, String>> = std::cell::RefCell::new(HashMap::new());
}

/// source-level cases: both sides compile the text themselves (the model with its own parser and
/// its own macro expander), so a change to the expansion is as visible as a change to the fold
fn push_case(out: &mut Vec<Case>, spec: &CtxSpec, src: String, want: Option<String>, tags: Vec<&'static str>) {
    let mut c = crate::run::run_case(spec, &src);
    c.tags = tags;
    if let Some(w) = want {
        EXPECT.with(|e| e.borrow_mut().insert(c.key(), w));
    }
    out.push(c);
}

fn fmt_res(outcome: String, log: &[String]) -> String {
    let logtxt = if log.is_empty() { "(log)".to_string() } else { format!("(log {})", log.join(" ")) };
    format!("(res {outcome} {logtxt})")
}

fn all_lists(max_len: usize, alphabet: &[i64]) -> Vec<Vec<i64>> {
    let mut out = vec![vec![]];
    let mut level: Vec<Vec<i64>> = vec![vec![]];
    for _ in 0..max_len {
        let mut next = vec![];
        for l in &level {
            for a in alphabet {
                let mut n = l.clone();
                n.push(*a);
                next.push(n);
            }
        }
        out.extend(next.iter().cloned());
        level = next;
    }
    out
}

/// the expansion itself: model's `Macros.expand` against the parser's
fn expansion_case(f: &str, target: Option<&str>, args: &[&str]) -> Option<Case> {
    let parse = |s: &str| crate::run::quietly(|| std::panic::catch_unwind(|| cel_parser::Parser::new().parse(s))).ok()?.ok();
    let src = match target {
        Some(t) => format!("{t}.{f}({})", args.join(", ")),
        None => format!("{f}({})", args.join(", ")),
    };
    let mut payload = vec![crate::sx::hex(f.as_bytes())];
    payload.push(match target {
        Some(t) => expr_to_sx(&parse(t)?).to_text(),
        None => "none".to_string(),
    });
    for a in args {
        payload.push(expr_to_sx(&parse(a)?).to_text());
    }
    let mut c = Case::new("macro", payload.join(" "));
    c.src = Some(src);
    c.tags = vec!["expansion"];
    Some(c)
}

pub fn generate(tier: Tier, rng: &mut Rng) -> Vec<Case> {
    let spec = ctx_spec();
    let mut out = vec![];
    let alphabet = [-1i64, 0, 1, 2];
    let max_len = match tier {
        Tier::Quick => 4,
        Tier::Thorough => 6,
    };
    let lists = all_lists(max_len, &alphabet);
    for xs in &lists {
        for m in MACROS {
            let bodies: &[BodyK] = if matches!(m, MacroK::Map | MacroK::MapDiv) { &BODIES[..1] } else { &BODIES };
            for &b in bodies {
                // longer lists: sample the body family to keep the quick tier quick
                if xs.len() >= 4 && tier == Tier::Quick && rng.below(3) != 0 {
                    continue;
                }
                let src = render(m, &list_src(xs), "x", b);
                let mut log = vec![];
                let outcome = reference(m, xs, b, &mut log);
                push_case(&mut out, &spec, src, Some(fmt_res(outcome, &log)), vec![if xs.is_empty() { "empty-range" } else { "list" }]);
            }
        }
    }
    // maps: macros range over the keys. Single-entry maps are order-free; multi-entry maps are
    // compared up to the unspecified iteration order (sorted logs / sorted result lists).
    for keys in [vec![], vec![1i64], vec![0], vec![1, 2], vec![0, 1, 2], vec![-1, 2], vec![2, 1, 0, -1]] {
        let msrc = format!("{{{}}}", keys.iter().map(|k| format!("{}: 'v'", if *k < 0 { format!("({k})") } else { k.to_string() })).collect::<Vec<_>>().join(", "));
        for m in MACROS {
            for &b in &[BodyK::LogPos, BodyK::EqOne, BodyK::True, BodyK::NotNeg] {
                // order-insensitive only when no early exit can hide elements: use bodies that
                // never stop the fold early for multi-entry maps
                let multi = keys.len() > 1;
                if multi && m == MacroK::MapDiv && keys.contains(&0) {
                    continue; // which elements precede the failing one depends on the iteration order
                }
                if multi && matches!(m, MacroK::All | MacroK::Exists) && !(b == BodyK::True && m == MacroK::All) && !(b == BodyK::EqOne) {
                    continue;
                }
                let src = render(m, &msrc, "k", b);
                let mut log = vec![];
                let outcome = reference(m, &keys, b, &mut log);
                let tags = if multi { vec!["map-range", "unordered"] } else { vec!["map-range"] };
                push_case(&mut out, &spec, src, Some(fmt_res(outcome, &log)), tags);
            }
        }
    }
    // nested two deep, expected value from the reference applied inside out
    let n_nested = match tier {
        Tier::Quick => 1500,
        Tier::Thorough => 100_000,
    };
    for _ in 0..n_nested {
        let outer: Vec<Vec<i64>> = (0..rng.below(4)).map(|_| (0..rng.below(4)).map(|_| *rng.pick(&alphabet)).collect()).collect();
        let inner_m = *rng.pick(&[MacroK::All, MacroK::Exists, MacroK::ExistsOne, MacroK::Filter, MacroK::Map]);
        let b = *rng.pick(&BODIES);
        let outer_src = format!("[{}]", outer.iter().map(|l| list_src(l)).collect::<Vec<_>>().join(", "));
        // outer macro: map(l, <inner over l>) — the inner macro reuses the name x, the outer l
        let inner_src = render(inner_m, "l", "x", b);
        let src = format!("{outer_src}.map(l, {inner_src})");
        let mut log = vec![];
        let mut parts = vec![];
        let mut err = None;
        for l in &outer {
            let o = reference(inner_m, l, b, &mut log);
            if o.starts_with("(err") {
                err = Some(o);
                break;
            }
            parts.push(o[4..o.len() - 1].to_string());
        }
        let outcome = match err {
            Some(e) => e,
            None => format!("(ok (list{}))", parts.iter().map(|p| format!(" {p}")).collect::<String>()),
        };
        push_case(&mut out, &spec, src, Some(fmt_res(outcome, &log)), vec!["nested"]);
    }
    // chained macros: the range of one macro is the result of another (same or different
    // variable name), with logging and failing bodies — the first macro runs to completion before
    // the second visits anything; the model decides
    let preds = ["t(x) > 0", "x > 0", "6 / x > 1", "t(x) != 1 && 6 / x > 0", "true", "false"];
    let funs = ["t(x) * 2", "x + 1", "6 / x", "[t(x)]", "t(x) == 1"];
    let n_chain = if tier == Tier::Quick { 1 } else { 6 };
    for _ in 0..n_chain {
        for xs in [vec![], vec![1i64], vec![3, 4, 5, 7], vec![1, 3, 0, 5], vec![0, 1], vec![2, 0, 2], vec![-1, 0, 1, 2]] {
            let l = list_src(&xs);
            for p in preds {
                for f in funs {
                    for (v1, v2) in [("x", "x"), ("x", "y")] {
                        let f2 = f.replace('x', v2);
                        let p2 = p.replace('x', v2);
                        let p1 = p.replace('x', v1);
                        let f1 = f.replace('x', v1);
                        for src in [
                            format!("{l}.filter({v1}, {p1}).map({v2}, {f2})"),
                            format!("{l}.map({v1}, {f1}).filter({v2}, {v2} == {v2})"),
                            format!("{l}.filter({v1}, {p1}).all({v2}, {p2})"),
                            format!("{l}.filter({v1}, {p1}).exists({v2}, {p2})"),
                            format!("{l}.filter({v1}, {p1}).exists_one({v2}, {p2})"),
                            format!("{l}.map({v1}, {p1}, {f1}).map({v2}, [{v2}])"),
                            format!("{l}.filter({v1}, {p1}).filter({v2}, {p2}).map({v1}, {f1})"),
                            format!("{l}.map({v1}, {l}.filter({v2}, {p2})).filter({v2}, size({v2}) > 0)"),
                        ] {
                            if rng.chance(1, 2) || tier == Tier::Thorough {
                                push_case(&mut out, &spec, src, None, vec!["chained"]);
                            }
                        }
                    }
                }
            }
        }
    }
    // nested macros whose inner body, predicate or range mentions the OUTER iteration variable,
    // over short and long (9-12 element) ranges
    let long: Vec<i64> = (1..=11).collect();
    for outer in [vec![1i64, 2, 3], vec![], vec![0, 2], long.clone()] {
        let o = list_src(&outer);
        for inner in ["[10, 20]", "[x, 0, x]", "[]", "[1, 2, 3, 4, 5, 6, 7, 8, 9, 10]"] {
            for src in [
                format!("{o}.map(x, {inner}.map(y, x + y))"),
                format!("{o}.map(x, {inner}.filter(y, y > x))"),
                format!("{o}.filter(x, {inner}.exists(y, y == x * 10))"),
                format!("{o}.all(x, {inner}.all(y, t(y) >= 0 && x >= 0))"),
                format!("{o}.exists(x, {inner}.exists_one(y, y / x == 5))"),
                format!("{o}.map(x, x > 1, {inner}.map(y, [x, y]))"),
                format!("{o}.map(x, {inner}.map(y, {inner}.filter(z, z > y + x).size()))"),
                format!("{o}.exists(x, x > 100 || missing_name == x)"),
                format!("{o}.all(x, x < 0 && missing_name)"),
                format!("{o}.map(x, x > 100, x + missing_name)"),
            ] {
                push_case(&mut out, &spec, src, None, vec!["nested-outer-var"]);
            }
        }
    }
    // consecutive elements that are equal under `==` but of different kinds (1, 1u, 1.0), or
    // repeated outright, with bodies whose outcome depends on the kind: every element is bound
    // afresh, whatever the previous one was
    for l in ["[1, 1u]", "[1u, 1]", "[1, 1.0, 1u]", "[2u, 2, 2.0, 3]", "[0, 0.0]", "[0.0, 0, 0u]", "[[1], [1.0]]", "[[1u], [1], [1]]", "[1, 1, 1u, 1u]", "[-0.0, 0.0, 0]", "[{1: 2}, {1u: 2}]", "[1, 1u, 2, 2u, 2.0]", "['a', 'a', b'a']"] {
        for body in [
            "map(x, x + 1)", "map(x, x + 1u)", "map(x, x * 1.5)", "filter(x, x >= 2)", "map(x, [x])", "all(x, x + 1 > 0)", "exists(x, x + 1u > 5u)", "exists_one(x, x / 2 == 0)", "map(x, string(x))", "map(x, x == 1, x)",
            "map(x, t(x))", "filter(x, t(x) == 1)", "map(l, l.map(x, x * x))", "map(x, 1 / x)", "map(x, x - 1u)", "filter(x, x + 0 == x)",
        ] {
            if body.starts_with("map(l") != l.starts_with("[[") {
                continue;
            }
            push_case(&mut out, &spec, format!("{l}.{body}"), None, vec!["equal-neighbours-of-different-kinds"]);
        }
    }
    // map ranges whose keys include an int and the uint denoting the same number (distinct keys:
    // every one of them is visited), and map ranges whose bodies fail on a reached key
    for m in ["{1: 'a', 1u: 'b'}", "{0: 1, 0u: 2, 'k': 3}", "{2u: 0, 2: 0}", "{1: 0, 1u: 0, 2: 0, 2u: 0}", "{true: 1, 1: 1, 1u: 1, '1': 1}"] {
        for body in ["map(k, k)", "map(k, [k])", "filter(k, k == 1)", "exists_one(k, k == 1)", "exists_one(k, k == 2)", "all(k, t(k) != null)", "map(k, t(k)).size()", "exists(k, k == 3u && t(k) == 1u)", "map(k, k == 1, k)", "all(k, k != 1u)"] {
            push_case(&mut out, &spec, format!("{m}.{body}"), None, vec!["twin-keys-in-range", "unordered"]);
        }
    }
    for (m, bodies) in [("{3: 0}", ["all(k, 10 / {M}[k] > 0)", "exists(k, 10 / {M}[k] > 0)", "exists_one(k, 10 / {M}[k] > 0)", "map(k, 10 / {M}[k])", "filter(k, 10 / {M}[k] > 0)", "map(k, 10 / {M}[k] > 0, k)", "map(k, k > 0, 10 / {M}[k])", "all(k, nope(k))"]),
                        ("{'a': 0}", ["all(k, 10 / {M}[k] > 0)", "exists(k, 10 / {M}[k] > 0)", "exists_one(k, 10 / {M}[k] > 0)", "map(k, 10 / {M}[k])", "filter(k, 10 / {M}[k] > 0)", "map(k, 10 / {M}[k] > 0, k)", "map(k, k != '', 10 / {M}[k])", "all(k, nope(k))"])] {
        for b in bodies {
            let body = b.replace("{M}", m);
            push_case(&mut out, &spec, format!("{m}.{body}"), None, vec!["failing-body-over-map"]);
            push_case(&mut out, &spec, format!("[1, 2].map(x, {m}.{body})"), None, vec!["failing-body-over-map"]);
        }
    }
    // predicates whose result is not a bool: macros decide by truthiness exactly as the conditional
    // operator does (the model decides), and ranges written as literals whose elements mention a
    // name equal to the iteration variable (bound outside: the range is evaluated before the loop)
    for src in [
        "[0, 1, 2, 3].filter(x, x % 2)", "['', 'a', ''].exists_one(s, s)", "[[1, 2], [0], [5]].filter(l, l.filter(y, y > 1))", "[0, 1, 2].all(x, x)", "[0, 0, 3].exists(x, x)", "[0, 1, 2].map(x, x, x * 10)",
        "[0.0, 1.5].filter(d, d)", "[0u, 2u].filter(u, u)", "[null, 1].filter(n, n)", "[[], [0]].filter(l, l)", "[{}, {1: 1}].filter(e, e)", "['', 'x'].map(s, s, s + '!')", "[1, 2, 3].exists_one(x, x - 1)", "[b'', b'a'].filter(b, b)",
        "[x + 1, x + 2].map(x, x)", "[x + 1, x + 2].exists(x, x == 7)", "[10, 20].map(x, [x + 1, x + 2].map(x, x))", "[5, 5].all(k, [k + 1, k + 1].all(k, k == 6))", "[y, y + 1, y + 2].filter(y, y > 5)", "[x, x].map(x, x + 1)",
        "[x, y, k].map(k, k)", "[[x], [x, x]].map(x, size(x))", "{x: 1}.map(x, x)", "[x + 1, t(x) + 2].map(x, t(x))",
    ] {
        push_case(&mut out, &spec, src.to_string(), None, vec!["truthiness-and-ranges"]);
    }
    // a host function that reads the iteration variable from the scope it is called in (not from
    // its arguments): the variable is bound for every element whether or not the body names it
    {
        let mut rspec = spec.clone();
        rspec.fns.push(("cur".into(), FnSpec::Host(vec!["ftx".into(), "readvar".into()], Body::Echo)));
        let cur = crate::sx::hex(b"cur");
        let l = |xs: &[i64]| xs.iter().map(|x| format!("({cur} (int {x}))")).collect::<Vec<_>>().join(" ");
        for (src, want) in [
            ("[1, 2, 3].map(x, cur())", format!("(res (ok (list (int 1) (int 2) (int 3))) (log {}))", l(&[1, 2, 3]))),
            ("[4, 5].filter(x, cur() > 4)", format!("(res (ok (list (int 5))) (log {}))", l(&[4, 5]))),
            ("[1, 2].all(x, cur() > 0)", format!("(res (ok (bool 1)) (log {}))", l(&[1, 2]))),
            ("[1, 2].exists(x, cur() == 2)", format!("(res (ok (bool 1)) (log {}))", l(&[1, 2]))),
            ("[1, 2, 2].exists_one(x, cur() == 2)", format!("(res (ok (bool 0)) (log {}))", l(&[1, 2, 2]))),
            ("[1, 2].map(x, cur() > 1, cur() * 10)", format!("(res (ok (list (int 20))) (log {}))", l(&[1, 2, 2]))),
            ("[7].map(y, cur())", format!("(res (ok (list (int 100))) (log {}))", l(&[100]))),
            ("[[1, 5], [0]].map(x, x.map(x, cur()))", format!("(res (ok (list (list (int 1) (int 5)) (list (int 0)))) (log {}))", l(&[1, 5, 0]))),
            ("[3].map(x, [4].map(y, cur()))", format!("(res (ok (list (list (int 3)))) (log {}))", l(&[3]))),
        ] {
            push_case(&mut out, &rspec, src.to_string(), Some(want), vec!["variable-read-by-host-function", "no-model"]);
        }
    }
    // several macro programs executed one after the other against the same context: each computes
    // its own fold, whatever ran before (ranges of the same shape, literal and not)
    for srcs in [
        vec!["[1, 2, 3].map(x, x * 2)", "[5, 6].map(x, x * 2)", "[7].map(x, x * 2)"],
        vec!["[1, 2, 3].filter(x, x > 1)", "[9, 0].filter(x, x > 1)", "[].filter(x, x > 1)"],
        vec!["{1: 2}.map(e, e)", "{3: 4}.map(e, e)"],
        vec!["[1, 2].all(x, x > 0)", "[0, 2].all(x, x > 0)", "[1, 2].all(x, x > 0)"],
        vec!["[1, 2].exists_one(x, x == 2)", "[2, 2].exists_one(x, x == 2)"],
        vec!["[[1], [2]].map(l, l.map(x, x + 1))", "[[3], [4]].map(l, l.map(x, x + 1))"],
        vec!["[x, y].map(v, v)", "[y, x].map(v, v)"],
    ] {
        let srcs: Vec<String> = srcs.iter().map(|s| s.to_string()).collect();
        if let Some(mut c) = crate::run::history_case(&spec, &srcs) {
            c.tags = vec!["same-context-histories"];
            out.push(c);
        }
    }
    // exists_one over ranges with several matches followed by further elements, some of which fail
    // or are logged: every element is visited, whatever the count so far
    for l in ["[1, 2, 3, 4, 0, 5]", "[2, 2, 2, 0]", "[5, 6, 7, 8, 9]", "[0, 3, 3, 0, 3]", "{1: 0, 2: 0, 3: 0}", "[1, 2, 3, 4, 5, 6, 7, 8]"] {
        for m in ["exists_one", "existsOne"] {
            for body in ["t(x) > 1", "10 / x > 1", "x > 1 && t(x) > 0", "x > 0", "t(x) == 2 || 6 / x > 0"] {
                let mut tags = vec!["exists-one-many-matches"];
                if l.starts_with('{') {
                    tags.push("unordered");
                    if body.contains('/') {
                        continue;
                    }
                }
                push_case(&mut out, &spec, format!("{l}.{m}(x, {body})"), None, tags);
                push_case(&mut out, &spec, format!("[1, 2].map(y, {l}.{m}(x, {body}))"), None, if l.starts_with('{') { vec!["exists-one-many-matches", "unordered"] } else { vec!["exists-one-many-matches"] });
            }
        }
    }
    // the macros need nothing from the context: against `Context::empty()` (no function registered
    // at all) every macro over pure bodies computes the same fold
    {
        let empty = CtxSpec::default();
        for l in ["[]", "[1]", "[1, 2, 3]", "[0, 5]", "{1: 2}", "[[1], []]"] {
            for body in ["all(x, x > 0)", "exists(x, x > 1)", "exists_one(x, x == 1)", "map(x, x + 1)", "map(x, x > 0, x * 2)", "filter(x, x != 1)", "all(x, [x].exists(y, y == x))", "map(x, [x].filter(y, y > 0))"] {
                if l == "[[1], []]" && !body.starts_with("map(x, [x]") && !body.starts_with("all(x, [x]") {
                    continue;
                }
                push_case(&mut out, &empty, format!("{l}.{body}"), None, vec!["empty-context"]);
            }
        }
    }
    // shapes of the expansion
    for (f, tgt, args) in [
        ("all", Some("r"), vec!["x", "x > 0"]),
        ("exists", Some("[1, 2]"), vec!["y", "y == a.b"]),
        ("exists_one", Some("r.s"), vec!["x", "f(x)"]),
        ("existsOne", Some("r"), vec!["x", "x"]),
        ("map", Some("r"), vec!["x", "x * 2"]),
        ("map", Some("r"), vec!["x", "x > 1", "[x]"]),
        ("filter", Some("(r + s)"), vec!["e", "e in q"]),
        ("has", None, vec!["a.b"]),
        ("has", None, vec!["a.b.c"]),
        ("has", None, vec!["a"]),
        ("has", None, vec!["a[0]"]),
        ("all", Some("r"), vec!["1", "true"]),
        ("map", Some("r"), vec!["x.y", "x"]),
        ("filter", Some("r"), vec!["f()", "x"]),
        ("all", None, vec!["x", "true"]),
        ("all", Some("r"), vec!["x"]),
        ("all", Some("r"), vec!["x", "true", "false"]),
        ("map", Some("r"), vec!["x", "a", "b", "c"]),
        ("has", Some("r"), vec!["a.b"]),
        ("has", None, vec!["a.b", "c"]),
        ("size", Some("r"), vec![]),
    ] {
        out.extend(expansion_case(f, tgt, &args));
    }
    out
}

pub fn predicate(case: &Case, impl_ans: &str) -> Option<String> {
    if impl_ans.contains("(panic)") {
        return Some("evaluation panicked".into());
    }
    let want = EXPECT.with(|e| e.borrow().get(&case.key()).cloned())?;
    let (a, b) = if case.tags.contains(&"unordered") { (crate::run::normalize_unordered(&want), crate::run::normalize_unordered(impl_ans)) } else { (want.clone(), impl_ans.to_string()) };
    if a != b {
        Some(format!("the defining fold prescribes {want}, implementation answered {impl_ans}"))
    } else {
        None
    }
}

pub fn nontrivial(case: &Case, _impl_ans: &str) -> bool {
    !case.tags.contains(&"empty-range")
}
