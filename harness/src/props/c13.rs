//! C13 — numeric literals and conversions preserve the number or fail.
use super::{PropDef, Tier};
use crate::ctx::CtxSpec;
use crate::gen::*;
use crate::prng::Rng;
use crate::run::{run_case, Case};
use crate::sx::hex;
use cel_interpreter::Value;
use std::collections::HashMap;

pub fn def() -> PropDef {
    PropDef {
        id: "C13",
        generate,
        predicate,
        nontrivial,
        functional: true,
        post: super::no_post,
        rule: "int, uint and double literals from boundary sets (0, +-1, +-2^31, +-2^53+-1, i64/u64 limits and their out-of-range neighbours; NaN-free double patterns incl. subnormals, -0.0, extremes) written in decimal, hexadecimal, signed and exponent forms, and in padded forms (leading zeros in exponent and mantissa, the decimal point moved up to 700 places with a compensating exponent); int(), uint(), double(), string(), bytes() applied to boundary arguments of every kind (as literals and as context variables, so NaN and infinities are reachable) and the round trips int(string(i)), uint(string(u)), double(string(d)), string(bytes(s)); plus random 64-bit patterns in every literal form, and doubles that sit exactly between two shortest decimal candidates (printing ties); expected values come from i128 / IEEE arithmetic in the harness; non-trivial = the case is not a plain small literal; distinct = distinct (context, source)",
        exhaustive_note: "boundary sets x forms are enumerated completely; random patterns are a sample",
    }
}

thread_local! {
    static EXPECT: std::cell::RefCell<HashMap<String, String>> = std::cell::RefCell::new(HashMap::new());
}

const REJECT: &str = "(res (compile-error) (log))";
const FERR: &str = "(res (err function-error) (log))";

fn ok(v: &str) -> String {
    format!("(res (ok {v}) (log))")
}
fn vi(i: i128) -> String {
    format!("(int {i})")
}
fn vu(u: u128) -> String {
    format!("(uint {u})")
}
fn vd(f: f64) -> String {
    format!("(dbl {:016x})", crate::wire::f64_bits(f))
}

fn push(out: &mut Vec<Case>, spec: &CtxSpec, src: String, want: Option<String>, tags: Vec<&'static str>) {
    let mut c = run_case(spec, &src);
    c.tags = tags;
    if let Some(w) = want {
        EXPECT.with(|e| e.borrow_mut().insert(c.key(), w));
    }
    out.push(c);
}

fn int_set(rng: &mut Rng, tier: Tier) -> Vec<i128> {
    let mut v: Vec<i128> = vec![0, 1, -1, 9, 10, 255, 256];
    for sh in [31u32, 32, 53, 62, 63, 64] {
        let p = 1i128 << sh;
        v.extend([p - 1, p, p + 1, -(p - 1), -p, -(p + 1)]);
    }
    v.extend([i64::MAX as i128, i64::MIN as i128, u64::MAX as i128, u64::MAX as i128 + 1, (1i128 << 53) + 2]);
    let n = if tier == Tier::Quick { 150 } else { 20_000 };
    for _ in 0..n {
        v.push(gen_i64(rng) as i128);
        v.push(gen_u64(rng) as i128);
    }
    v.sort();
    v.dedup();
    v
}

fn int_conv(f: f64) -> String {
    // doubles truncate toward zero; NaN and anything outside the target range is an error
    if f.is_nan() || f.is_infinite() {
        return FERR.into();
    }
    let t = f.trunc();
    if t >= -9223372036854775808.0 && t < 9223372036854775808.0 {
        ok(&vi(t as i128))
    } else {
        FERR.into()
    }
}
fn uint_conv(f: f64) -> String {
    if f.is_nan() || f.is_infinite() || f < 0.0 {
        return FERR.into();
    }
    let t = f.trunc();
    if t < 18446744073709551616.0 {
        ok(&vu(t as u128))
    } else {
        FERR.into()
    }
}

pub fn generate(tier: Tier, rng: &mut Rng) -> Vec<Case> {
    let mut out = vec![];
    let spec = CtxSpec::default_ctx();
    let ints = int_set(rng, tier);
    // 1. integer literals, decimal and hex, signed
    for &i in &ints {
        let in_i = i >= i64::MIN as i128 && i <= i64::MAX as i128;
        let in_u = i >= 0 && i <= u64::MAX as i128;
        let small = i.unsigned_abs() < 10;
        let t = if small { "plain" } else { "literal" };
        push(&mut out, &spec, format!("{i}"), Some(if in_i { ok(&vi(i)) } else { REJECT.into() }), vec![t, "int-dec"]);
        if i >= 0 {
            push(&mut out, &spec, format!("0x{i:x}"), Some(if in_i { ok(&vi(i)) } else { REJECT.into() }), vec![t, "int-hex"]);
            push(&mut out, &spec, format!("0x{i:X}"), Some(if in_i { ok(&vi(i)) } else { REJECT.into() }), vec![t, "int-hex"]);
            push(&mut out, &spec, format!("{i}u"), Some(if in_u { ok(&vu(i as u128)) } else { REJECT.into() }), vec![t, "uint-dec"]);
            push(&mut out, &spec, format!("0x{i:x}U"), Some(if in_u { ok(&vu(i as u128)) } else { REJECT.into() }), vec![t, "uint-hex"]);
            // 000123 : leading zeros are still decimal
            push(&mut out, &spec, format!("00{i}"), Some(if in_i { ok(&vi(i)) } else { REJECT.into() }), vec![t, "int-dec", "leading-zeros"]);
        } else {
            push(&mut out, &spec, format!("-0x{:x}", -i), Some(if in_i { ok(&vi(i)) } else { REJECT.into() }), vec![t, "int-hex", "signed"]);
            push(&mut out, &spec, format!("- {}", -i), Some(if in_i { ok(&vi(i)) } else { REJECT.into() }), vec![t, "int-dec", "signed"]);
        }
        // conversions of in-range integers
        if in_i {
            let lit = if i < 0 { format!("({i})") } else { i.to_string() };
            push(&mut out, &spec, format!("int({lit})"), Some(ok(&vi(i))), vec!["conv", "int-int"]);
            push(&mut out, &spec, format!("uint({lit})"), Some(if i >= 0 { ok(&vu(i as u128)) } else { FERR.into() }), vec!["conv", "uint-int"]);
            push(&mut out, &spec, format!("double({lit})"), Some(ok(&vd(i as i64 as f64))), vec!["conv", "double-int"]);
            push(&mut out, &spec, format!("string({lit})"), Some(ok(&format!("(str {})", hex(i.to_string().as_bytes())))), vec!["conv", "string-int"]);
            push(&mut out, &spec, format!("int(string({lit})) == {lit}"), Some(ok("(bool 1)")), vec!["roundtrip", "int"]);
            push(&mut out, &spec, format!("int('{i}')"), Some(ok(&vi(i))), vec!["conv", "int-string"]);
        } else {
            push(&mut out, &spec, format!("int('{i}')"), Some(FERR.into()), vec!["conv", "int-string", "out-of-range"]);
        }
        if in_u {
            push(&mut out, &spec, format!("uint({i}u)"), Some(ok(&vu(i as u128))), vec!["conv", "uint-uint"]);
            push(&mut out, &spec, format!("int({i}u)"), Some(if in_i { ok(&vi(i)) } else { FERR.into() }), vec!["conv", "int-uint"]);
            push(&mut out, &spec, format!("double({i}u)"), Some(ok(&vd(i as u64 as f64))), vec!["conv", "double-uint"]);
            push(&mut out, &spec, format!("uint(string({i}u)) == {i}u"), Some(ok("(bool 1)")), vec!["roundtrip", "uint"]);
            push(&mut out, &spec, format!("uint('{i}')"), Some(ok(&vu(i as u128))), vec!["conv", "uint-string"]);
        } else {
            push(&mut out, &spec, format!("uint('{i}')"), Some(FERR.into()), vec!["conv", "uint-string", "out-of-range"]);
        }
    }
    // 2. doubles: literals (finite) and conversions (all patterns through variables)
    let mut doubles: Vec<f64> = F64_EDGE_BITS.iter().map(|b| f64::from_bits(*b)).collect();
    for x in [0.1, 0.5, 1.5, 2.5, -2.5, 1e21, 1e22, 1e23, 123456789012345680.0, 5e-324, 2.2250738585072014e-308, 1.7976931348623157e308, 9.007199254740993e15, 0.3, 1.0 / 3.0, 1e-7, 123.456, 9223372036854775807.0, 9223372036854774784.0, -9223372036854775808.0, -9223372036854777856.0, 18446744073709551615.0, 18446744073709549568.0, 4294967296.5, -0.9, 0.9, -1.0, -1.5] {
        doubles.push(x);
    }
    let n = if tier == Tier::Quick { 300 } else { 50_000 };
    for _ in 0..n {
        doubles.push(gen_f64(rng, false));
    }
    // doubles whose exact decimal expansion ends in …5 one place past the shortest representation
    // (k + 1/4 with 2^50 <= k < 2^51, k + 1/8 …, and their small-exponent cousins): two shortest
    // digit strings are equally close, and the printer has to break the tie the way Rust does
    let n_ties = if tier == Tier::Quick { 400 } else { 20_000 };
    for i in 0..n_ties {
        let frac_bits = 1 + (i % 4) as u32; // value = k + odd / 2^(frac_bits+1)
        let top = 52 - frac_bits - 1;
        let k = (1u64 << top) + rng.next() % (1u64 << top);
        let odd = 2 * (rng.next() % (1u64 << frac_bits)) + 1;
        let v = k as f64 + odd as f64 / (1u64 << (frac_bits + 1)) as f64;
        doubles.push(if i % 2 == 0 { v } else { -v });
        // the same significand at a small exponent (many leading zeros after the point)
        doubles.push(v * 2f64.powi(-((i % 40) as i32) - 60));
    }
    for &f in &doubles {
        let mut vspec = CtxSpec::default_ctx();
        vspec.vars.push(("d".into(), Value::Float(f)));
        push(&mut out, &vspec, "int(d)".into(), Some(int_conv(f)), vec!["conv", "int-double"]);
        push(&mut out, &vspec, "uint(d)".into(), Some(uint_conv(f)), vec!["conv", "uint-double"]);
        push(&mut out, &vspec, "double(d)".into(), Some(ok(&vd(f))), vec!["conv", "double-double"]);
        push(&mut out, &vspec, "string(d)".into(), Some(ok(&format!("(str {})", hex(f.to_string().as_bytes())))), vec!["conv", "string-double"]);
        // string() then the inverse conversion returns the original double
        if f.is_nan() {
            push(&mut out, &vspec, "double(string(d))".into(), Some(ok(&vd(f))), vec!["roundtrip", "double"]);
        } else {
            push(&mut out, &vspec, "double(string(d)) == d".into(), Some(ok("(bool 1)")), vec!["roundtrip", "double"]);
            push(&mut out, &vspec, "double(string(d))".into(), Some(ok(&vd(f))), vec!["roundtrip", "double", "bits"]);
        }
        if f.is_finite() {
            // literal forms: Rust's shortest round-trip text (with an explicit fraction), an
            // exponent form, and a long exact expansion
            let dbg = format!("{:?}", f.abs());
            let dbg = if dbg.contains('.') || dbg.contains('e') { dbg } else { format!("{dbg}.0") };
            let sign = if f.is_sign_negative() { "-" } else { "" };
            push(&mut out, &spec, format!("{sign}{dbg}"), Some(ok(&vd(f))), vec!["literal", "double"]);
            push(&mut out, &spec, format!("{sign}{:e}", f.abs()), Some(ok(&vd(f))), vec!["literal", "double-exp"]);
            push(&mut out, &spec, format!("{sign}{:E}", f.abs()).replace("E", "E+").replace("E+-", "E-"), Some(ok(&vd(f))), vec!["literal", "double-exp"]);
            if f.abs() < 1e15 && f.abs() > 1e-5 {
                push(&mut out, &spec, format!("{sign}{:.30}", f.abs()), Some(ok(&vd(f))), vec!["literal", "double-long"]);
            }
        }
    }
    // out-of-range and malformed double literals / strings
    for (src, want) in [
        ("1e400", REJECT.to_string()), ("-1e400", REJECT.to_string()), ("1e309", REJECT.to_string()), ("1.7976931348623159e308", REJECT.to_string()),
        ("1e-400", ok(&vd(0.0))), ("4.9e-324", ok(&vd(5e-324))), ("2.4703282292062327e-324", ok(&vd(0.0))), ("2.4703282292062328e-324", ok(&vd(5e-324))),
        ("double('1e400')", ok(&vd(f64::INFINITY))), ("double('-inf')", ok(&vd(f64::NEG_INFINITY))), ("double('NaN')", ok(&vd(f64::NAN))), ("double('Infinity')", ok(&vd(f64::INFINITY))),
        ("double('1.')", ok(&vd(1.0))), ("double('.5')", ok(&vd(0.5))), ("double('+1.5')", ok(&vd(1.5))), ("double('1e')", FERR.into()), ("double('')", FERR.into()), ("double('.')", FERR.into()), ("double('1.5x')", FERR.into()), ("double(' 1')", FERR.into()), ("double('0x10')", FERR.into()), ("double('1_000')", FERR.into()), ("double('e5')", FERR.into()), ("double('infinit')", FERR.into()),
        ("int('')", FERR.into()), ("int('+5')", ok(&vi(5))), ("int('-')", FERR.into()), ("int(' 5')", FERR.into()), ("int('5.0')", FERR.into()), ("int('0x10')", FERR.into()), ("int('1e3')", FERR.into()), ("uint('+5')", ok(&vu(5))), ("uint('-0')", FERR.into()), ("uint('-5')", FERR.into()),
        ("int(true)", FERR.into()), ("uint(null)", FERR.into()), ("double([1])", FERR.into()), ("string(true)", FERR.into()), ("string(null)", FERR.into()), ("string([1])", FERR.into()), ("string({})", FERR.into()),
        ("string('abc')", ok("(str x616263)")), ("string(b'abc')", ok("(str x616263)")), ("string(b'\\xff\\xfeA')", ok(&format!("(str {})", hex("\u{fffd}\u{fffd}A".as_bytes())))), ("bytes('aé')", ok(&format!("(bytes {})", hex("aé".as_bytes())))),
        ("string(bytes('héllo ✌')) == 'héllo ✌'", ok("(bool 1)")), ("bytes(string(b'abc')) == b'abc'", ok("(bool 1)")),
        ("uint(-0.5)", FERR.into()), ("uint(-5e-324)", FERR.into()), ("uint(-0.9999999999999999)", FERR.into()), ("(-0.25).uint()", FERR.into()), ("uint(-0.0)", ok(&vu(0))), ("uint(0.5)", ok(&vu(0))), ("int(-0.5)", ok(&vi(0))), ("int(-0.9999999999999999)", ok(&vi(0))),
        ("string(b'\\xef\\xbf\\xbd')", ok(&format!("(str {})", hex("\u{fffd}".as_bytes())))), ("string(b'caf\\xc3')", ok(&format!("(str {})", hex("caf\u{fffd}".as_bytes())))), ("string(b'ab\\xe2\\x82')", ok(&format!("(str {})", hex("ab\u{fffd}".as_bytes())))), ("string(b'\\xf0\\x9f\\x98')", ok(&format!("(str {})", hex("\u{fffd}".as_bytes())))), ("string(b'\\xc3')", ok(&format!("(str {})", hex("\u{fffd}".as_bytes())))),
        ("bytes(1)", "(res (err bad-type) (log))".to_string()), ("bytes(b'a')", "(res (err bad-type) (log))".to_string()),
    ] {
        push(&mut out, &spec, src.to_string(), Some(want), vec!["special"]);
    }
    // the same number written with padding: leading zeros in the exponent and in the mantissa,
    // the decimal point moved hundreds of places with a compensating exponent - each text denotes
    // exactly the rational that the shortest form of `f` denotes, so it must read as `f`
    for f in [1.0f64, 10.0, 0.1, 1.5, 123.456, 5e-324, 2.2250738585072014e-308, 1.7976931348623157e308, 9.007199254740993e15, 1e22, 1e-7, 0.3, 4.35e-310, 6.02214076e23] {
        let e = format!("{f:e}"); // d.ddde±X  (or de±X)
        let (mant, ex) = e.split_once('e').unwrap();
        let ex: i64 = ex.parse().unwrap();
        let digits: String = mant.chars().filter(|c| *c != '.').collect();
        let frac_len = mant.len().saturating_sub(2).min(digits.len() - 1) as i64; // digits after the point
        let mut forms: Vec<String> = vec![];
        for pad in [1usize, 7, 8, 19, 40] {
            forms.push(format!("{mant}e{}{}{}", if ex < 0 { "-" } else { "" }, "0".repeat(pad), ex.abs()));
            forms.push(format!("{mant}E+{}{}", "0".repeat(pad), ex.abs()).replace("E+", if ex < 0 { "E-" } else { "E+" }));
            forms.push(format!("{}{mant}e{ex}", "0".repeat(pad)));
        }
        for shift in [1i64, 5, 40, 329, 330, 331, 400, 401, 700] {
            // 0.000…0ddd × 10^(ex + shift + 1)
            forms.push(format!("0.{}{digits}e{}", "0".repeat(shift as usize), ex + shift + 1));
            // ddd000…0.0 × 10^(ex - frac_len - shift)
            forms.push(format!("{digits}{}.0e{}", "0".repeat(shift as usize), ex - frac_len - shift));
        }
        for t in forms {
            push(&mut out, &spec, t.clone(), Some(ok(&vd(f))), vec!["literal", "double-padded"]);
            push(&mut out, &spec, format!("double('{t}')"), Some(ok(&vd(f))), vec!["conv", "double-padded"]);
            push(&mut out, &spec, format!("-{t}"), Some(ok(&vd(-f))), vec!["literal", "double-padded"]);
        }
    }
    // strings: bytes() then string() returns the original text
    let n = if tier == Tier::Quick { 300 } else { 30_000 };
    let edge_strings: Vec<String> = ["\u{fffd}", "a\u{fffd}b", "\u{fffd}\u{fffd}", "\u{fffc}\u{fffd}\u{fffe}", "\u{feff}abc", "\u{feff}", "abc\u{feff}", "\u{feff}42", "\u{0}abc", " abc ", "\nabc\n", "\u{fffe}x", "\u{200b}x", "\r\n", "\u{a0}1", "0042", "+1", "\u{202e}abc"].iter().map(|s| s.to_string()).collect();
    for i in 0..n + edge_strings.len() {
        let s = if i < edge_strings.len() { edge_strings[i].clone() } else { gen_string(rng) };
        let mut vspec = CtxSpec::default_ctx();
        vspec.vars.push(("s".into(), Value::String(std::sync::Arc::new(s.clone()))));
        push(&mut out, &vspec, "string(bytes(s)) == s".into(), Some(ok("(bool 1)")), vec!["roundtrip", "string"]);
        push(&mut out, &vspec, "[string(s), bytes(s)]".into(), Some(ok(&format!("(list (str {0}) (bytes {0}))", hex(s.as_bytes())))), vec!["conv", "string-bytes"]);
        let b = gen_bytes(rng);
        let mut bspec = CtxSpec::default_ctx();
        bspec.vars.push(("b".into(), Value::Bytes(std::sync::Arc::new(b.clone()))));
        push(&mut out, &bspec, "string(b)".into(), Some(ok(&format!("(str {})", hex(String::from_utf8_lossy(&b).as_bytes())))), vec!["conv", "string-of-bytes"]);
    }
    out
}

pub fn predicate(case: &Case, impl_ans: &str) -> Option<String> {
    if impl_ans.contains("(panic)") {
        return Some("panicked".into());
    }
    let want = EXPECT.with(|e| e.borrow().get(&case.key()).cloned())?;
    if want != impl_ans {
        Some(format!("the number denoted / the conversion prescribes {want}, the implementation answered {impl_ans}"))
    } else {
        None
    }
}

pub fn nontrivial(case: &Case, _impl_ans: &str) -> bool {
    !case.tags.contains(&"plain")
}
