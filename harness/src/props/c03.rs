//! C03 — evaluation of the core language agrees with the reference semantics (the Lean model).
use super::{PropDef, Tier};
use crate::gen::*;
use crate::prng::Rng;
use crate::run::{eval_case_from_src, Case};

pub fn def() -> PropDef {
    PropDef {
        id: "C03",
        generate,
        predicate,
        nontrivial,
        functional: true,
        rule: "well-typed programs from the typed grammar of the core fragment (int, uint, double, bool, string, bytes, null, list, map; arithmetic, comparison, logic, conditional, index, membership, select/has, standard functions, comprehension macros), depth <= 6, leaves from boundary-biased literals and typed context variables; plus every multi-operand construct (operators, list / map literals, index, calls, conditional, macro bodies) with each operand position filled from 8 failing sub-expressions of distinct error classes and 5 succeeding ones (the first error in source order must be the one reported), and int / uint against fractional doubles of either sign under every relation, max, min and filter; compiled by the real parser and evaluated by both sides; non-trivial = the program contains at least one operator, call or macro; distinct = distinct (context, source text)",
        post: super::no_post,
        exhaustive_note: "random sample of the typed grammar",
    }
}

pub fn typed_program(rng: &mut Rng, max_depth: u32, exotic: bool) -> Option<Case> {
    let (spec, env) = gen_context(rng, exotic);
    let ty = gen_ty(rng, 2);
    let depth = 1 + rng.below(max_depth as u64) as u32;
    let mut sub = rng.fork();
    let mut g = ExprGen::new(&mut sub, env);
    let src = g.expr(&ty, depth);
    if src.len() > 1500 {
        return None;
    }
    let mut c = eval_case_from_src(&spec, &src)?;
    c.tags = vec!["typed"];
    Some(c)
}

/// sub-expressions that fail, each with an error class of its own, and some that do not
const FAILING: [&str; 8] = ["10 / zero", "7 % zero", "big + big", "m.nope", "nope_var", "[1][one].x", "int('x')", "-imin"];
const FINE: [&str; 5] = ["one", "2", "'k'", "true", "[1]"];

/// "operands are evaluated left to right and the first error aborts": every operand position of
/// every construct that has several, filled with failing sub-expressions of distinct error classes
fn first_error_cases(rng: &mut Rng, tier: Tier, out: &mut Vec<Case>) {
    use cel_interpreter::Value;
    let mut spec = crate::ctx::CtxSpec::default_ctx();
    spec.vars.push(("zero".into(), Value::Int(0)));
    spec.vars.push(("one".into(), Value::Int(1)));
    spec.vars.push(("big".into(), Value::Int(i64::MAX)));
    spec.vars.push(("imin".into(), Value::Int(i64::MIN)));
    spec.vars.push(("m".into(), Value::Map(cel_interpreter::objects::Map { map: std::sync::Arc::new(std::collections::HashMap::new()) })));
    let pool: Vec<&str> = FAILING.iter().chain(FINE.iter()).copied().collect();
    let shapes: [&dyn Fn(&str, &str, &str) -> String; 19] = [
        &|a, b, _| format!("({a}) > 0 || ({b}) == 2"),
        &|a, b, _| format!("({a}) > 0 && ({b}) == 2"),
        &|a, b, c| format!("({a}) == 1 || ({b}) == 1 || ({c}) == 1"),
        &|a, b, _| format!("[1, 2].all(x, ({a}) == x || ({b}) == x)"),
        &|a, b, _| format!("({a}) == ({b})"),
        &|a, b, _| format!("{a} + {b}"),
        &|a, b, _| format!("{a} == {b}"),
        &|a, b, _| format!("{a} < {b}"),
        &|a, b, _| format!("{a} in [{b}]"),
        &|a, b, c| format!("[{a}, {b}, {c}]"),
        &|a, b, c| format!("{{{a}: {b}, 'z': {c}}}"),
        &|a, b, c| format!("{{1: {a}, {b}: {c}}}"),
        &|a, b, c| format!("{{{a}: 1, {b}: 2, {c}: 3}}"),
        &|a, b, _| format!("[{a}][{b}]"),
        &|a, b, c| format!("max({a}, {b}, {c})"),
        &|a, b, _| format!("string({a}).startsWith(string({b}))"),
        &|a, b, c| format!("[{a}].map(x, [{b}, {c}])"),
        &|a, b, c| format!("({a} == 1 ? {b} : {c})"),
        &|a, b, c| format!("[1, 2].map(x, {{x: {a}, {b}: {c}}})"),
    ];
    let reps = if tier == Tier::Quick { 1 } else { 4 };
    for _ in 0..reps {
        for shape in shapes.iter() {
            for a in &pool {
                for b in &pool {
                    // the third position: a couple of choices per pair keeps the quick tier small
                    for _ in 0..2 {
                        let c = *rng.pick(&pool[..]);
                        if let Some(mut case) = eval_case_from_src(&spec, &shape(a, b, c)) {
                            case.tags = vec!["first-error"];
                            out.push(case);
                        }
                    }
                }
            }
        }
    }
    // has() and selection over paths of one to three fields, every field present or absent, the
    // root a map, an empty map, a non-map or an undeclared name: an absent *intermediate* field is
    // the error of the selection that reaches it; only the last field is tested for presence
    {
        let leaf = |k: &str, v: Value| -> Value { Value::Map(cel_interpreter::objects::Map { map: std::sync::Arc::new(std::collections::HashMap::from([(cel_interpreter::objects::Key::String(std::sync::Arc::new(k.to_string())), v)])) }) };
        let mut spec = spec.clone();
        spec.vars.push(("n".into(), leaf("a", leaf("b", leaf("c", Value::Int(0))))));
        spec.vars.push(("e".into(), leaf("a", Value::Null)));
        for root in ["n", "m", "e", "one", "nope_var", "{'a': {'b': {}}}", "[n, m][0]", "[n, m][1]"] {
            for path in ["a", "x", "a.b", "a.x", "x.b", "a.b.c", "a.b.x", "a.x.c", "x.b.c", "a.b.c.d"] {
                for src in [
                    format!("has({root}.{path})"), format!("!has({root}.{path})"), format!("{root}.{path}"), format!("has({root}.a) && has({root}.{path})"), format!("has({root}.{path}) ? 1 : 2"),
                    format!("[{root}].all(v, has(v.{path}))"), format!("has({root}.{path}) || true"), format!("[has({root}.{path}), 1 / zero]"),
                ] {
                    if let Some(mut case) = eval_case_from_src(&spec, &src) {
                        case.tags = vec!["has-paths"];
                        out.push(case);
                    }
                }
            }
        }
    }
    // doubles against doubles around zero and at the extremes: IEEE ordering (-0.0 equals 0.0 and is
    // not below it; NaN is unordered)
    {
        let ds = ["-0.0", "0.0", "5e-324", "-5e-324", "1.0", "-1.0", "1.7976931348623157e308", "-1.7976931348623157e308", "(0.0 / 0.0)", "(1.0 / 0.0)", "(-1.0 / 0.0)"];
        for a in ds {
            for b in ds {
                for op in ["<", "<=", ">", ">=", "==", "!="] {
                    if let Some(mut case) = eval_case_from_src(&spec, &format!("{a} {op} {b}")) {
                        case.tags = vec!["double-ordering"];
                        out.push(case);
                    }
                }
                for src in [format!("max({a}, {b})"), format!("min({a}, {b})"), format!("[{a}, {b}].filter(x, x < 0.0)"), format!("[{a}, {b}].exists(x, x > {b})")] {
                    if let Some(mut case) = eval_case_from_src(&spec, &src) {
                        case.tags = vec!["double-ordering"];
                        out.push(case);
                    }
                }
            }
        }
    }
    // int / uint against doubles with a fraction, of either sign, next to the integer
    // ints against uints across the sign / 2^63 boundary: equal only when they denote the same number
    for i in ["-1", "-2", "imin", "big", "0", "1", "-9223372036854775807"] {
        for u in ["18446744073709551615u", "18446744073709551614u", "9223372036854775808u", "9223372036854775807u", "0u", "1u", "9223372036854775809u"] {
            for src in [format!("{i} == {u}"), format!("{u} != {i}"), format!("{i} in [{u}]"), format!("[{i}] == [{u}]"), format!("{{'k': {i}}} == {{'k': {u}}}"), format!("[{u}].exists(x, x == {i})"), format!("{i} < {u}"), format!("{u} <= {i}")] {
                if let Some(mut case) = eval_case_from_src(&spec, &src) {
                    case.tags = vec!["cross-numeric", "int-uint"];
                    out.push(case);
                }
            }
        }
    }
    let ints = ["-2", "-1", "0", "1", "2", "0u", "1u", "2u", "imin", "big"];
    let dbls = ["-2.5", "-1.5", "-1.0", "-0.5", "-0.0", "0.0", "0.5", "1.0", "1.5", "2.5", "-9223372036854775808.5", "9223372036854775807.5"];
    for i in ints {
        for d in dbls {
            for op in ["<", "<=", ">", ">=", "==", "!="] {
                for src in [format!("{i} {op} {d}"), format!("{d} {op} {i}")] {
                    if let Some(mut case) = eval_case_from_src(&spec, &src) {
                        case.tags = vec!["cross-numeric"];
                        out.push(case);
                    }
                }
            }
            for src in [format!("max({i}, {d})"), format!("min({d}, {i})"), format!("[{i}].filter(x, x > {d})")] {
                if let Some(mut case) = eval_case_from_src(&spec, &src) {
                    case.tags = vec!["cross-numeric"];
                    out.push(case);
                }
            }
        }
    }
}

pub fn generate(tier: Tier, rng: &mut Rng) -> Vec<Case> {
    let n = match tier {
        Tier::Quick => 12_000,
        Tier::Thorough => 600_000,
    };
    let mut out = Vec::with_capacity(n);
    first_error_cases(rng, tier, &mut out);
    let base = out.len();
    while out.len() < base + n {
        if let Some(c) = typed_program(rng, 6, false) {
            out.push(c);
        }
    }
    out
}

pub fn predicate(_case: &Case, impl_ans: &str) -> Option<String> {
    if impl_ans.contains("(panic)") {
        return Some("evaluation panicked".into());
    }
    None
}

pub fn nontrivial(case: &Case, _impl_ans: &str) -> bool {
    case.payload.contains("(call ") || case.payload.contains("(mcall ") || case.payload.contains("(comp ")
}
