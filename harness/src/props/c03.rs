//! C03 — evaluation of the core language agrees with the reference semantics (the Lean model).
use super::{PropDef, Tier};
use crate::gen::*;
use crate::prng::Rng;
use crate::run::{eval_case_from_src, Case};

pub fn def() -> PropDef {
    PropDef {
        id: "C03",
        generate,
        predicate,
        nontrivial,
        functional: true,
        rule: "well-typed programs from the typed grammar of the core fragment (int, uint, double, bool, string, bytes, null, list, map; arithmetic, comparison, logic, conditional, index, membership, select/has, standard functions, comprehension macros), depth <= 6, leaves from boundary-biased literals and typed context variables; compiled by the real parser and evaluated by both sides; non-trivial = the program contains at least one operator, call or macro; distinct = distinct (context, source text)",
        post: super::no_post,
        exhaustive_note: "random sample of the typed grammar",
    }
}

pub fn typed_program(rng: &mut Rng, max_depth: u32, exotic: bool) -> Option<Case> {
    let (spec, env) = gen_context(rng, exotic);
    let ty = gen_ty(rng, 2);
    let depth = 1 + rng.below(max_depth as u64) as u32;
    let mut sub = rng.fork();
    let mut g = ExprGen::new(&mut sub, env);
    let src = g.expr(&ty, depth);
    if src.len() > 1500 {
        return None;
    }
    let mut c = eval_case_from_src(&spec, &src)?;
    c.tags = vec!["typed"];
    Some(c)
}

pub fn generate(tier: Tier, rng: &mut Rng) -> Vec<Case> {
    let n = match tier {
        Tier::Quick => 12_000,
        Tier::Thorough => 600_000,
    };
    let mut out = Vec::with_capacity(n);
    while out.len() < n {
        if let Some(c) = typed_program(rng, 6, false) {
            out.push(c);
        }
    }
    out
}

pub fn predicate(_case: &Case, impl_ans: &str) -> Option<String> {
    if impl_ans.contains("(panic)") {
        return Some("evaluation panicked".into());
    }
    None
}

pub fn nontrivial(case: &Case, _impl_ans: &str) -> bool {
    case.payload.contains("(call ") || case.payload.contains("(mcall ") || case.payload.contains("(comp ")
}
