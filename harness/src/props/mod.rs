//! Per-property case generators and implementation-side predicates.
use crate::prng::Rng;
use crate::run::Case;

pub mod c01;
pub mod c02;
pub mod c03;
pub mod c04;
pub mod c05;
pub mod c06;
pub mod c07;
pub mod c08;
pub mod c09;
pub mod c10;
pub mod c11;
pub mod c12;
pub mod c13;
pub mod c14;
pub mod c15;
pub mod c16;
pub mod c17;
pub mod c18;
pub mod c19;
pub mod c20;

#[derive(Clone, Copy, PartialEq, Debug)]
pub enum Tier {
    Quick,
    Thorough,
}

pub struct PropDef {
    pub id: &'static str,
    /// generated cases for a tier (the corpus is prepended by the driver)
    pub generate: fn(Tier, &mut Rng) -> Vec<Case>,
    /// the property's own predicate evaluated on the implementation's answer: Some(why) = the
    /// case is a failing input
    pub predicate: fn(&Case, &str) -> Option<String>,
    /// does the case reach the anchored code in a non-trivial way?
    pub nontrivial: fn(&Case, &str) -> bool,
    /// the model pins the answer uniquely, so any disagreement is itself a failing input
    pub functional: bool,
    pub rule: &'static str,
    pub exhaustive_note: &'static str,
    /// cross-case predicate over the whole run (cases, implementation answers): violations found
    pub post: fn(&[Case], &[String]) -> Vec<(usize, String)>,
}

pub fn no_post(_: &[Case], _: &[String]) -> Vec<(usize, String)> {
    vec![]
}

pub fn all() -> Vec<PropDef> {
    vec![c01::def(), c02::def(), c03::def(), c04::def(), c05::def(), c06::def(), c07::def(), c08::def(), c09::def(), c10::def(), c11::def(), c12::def(), c13::def(), c14::def(), c15::def(), c16::def(), c17::def(), c18::def(), c19::def(), c20::def()]
}

pub fn find(id: &str) -> Option<PropDef> {
    all().into_iter().find(|p| p.id.eq_ignore_ascii_case(id))
}
