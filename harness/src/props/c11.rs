//! C11 — variables resolve to the innermost binding and scopes never leak.
use super::{PropDef, Tier};
use crate::ctx::{Body, CtxSpec, FnSpec};
use crate::prng::Rng;
use crate::run::{eval_case_from_src, Case};
use crate::sx::hex;
use cel_interpreter::Value;

pub fn def() -> PropDef {
    PropDef {
        id: "C11",
        generate,
        predicate,
        nontrivial,
        functional: true,
        rule: "context operation sequences (define/redefine, a definition whose conversion is refused, open scope, close scope, register function) over 3 names and up to 3 scope levels, every sequence of length <= 4 (quick) / <= 6 (thorough) exhaustively and random longer ones, with a lookup of every name and a probe of every function name after each step; the predicate replays the sequence against an independent stack-of-maps reference; plus programs nesting up to 3 macros whose iteration variables come from a 3-name pool that also names context variables and functions, with lookups after the macro; non-trivial = at least one scope is opened or a name is redefined (histories) / a macro is present (programs); distinct = distinct case text",
        post: super::no_post,
        exhaustive_note: "operation sequences up to the stated length are enumerated completely",
    }
}

#[derive(Clone, Debug, PartialEq)]
enum Op {
    Def(usize, i64),
    /// a definition the conversion refuses (`add_variable` returns an error): no binding changes
    BadDef(usize),
    Push,
    Pop,
    Fn(usize),
}
const NAMES: [&str; 3] = ["a", "b", "f"];

/// the value a definition binds: most are ints, a few are the values an over-eager "is it set?"
/// test could take for "absent" (null, false, the empty string, the empty list)
fn val_sx(v: i64) -> String {
    match v {
        6 => "null".to_string(),
        7 => "(bool 0)".to_string(),
        8 => "(str x)".to_string(),
        9 => "(list)".to_string(),
        _ => format!("(int {v})"),
    }
}

fn render(ops: &[Op]) -> (String, String) {
    // after every operation: lookups of all names, probes of all names.
    // returns (payload, expected observations from the reference stack-of-maps)
    let mut payload = vec![];
    let mut expect = String::from("(obs");
    let mut stack: Vec<Vec<(usize, i64)>> = vec![vec![]];
    let mut fns: Vec<usize> = vec![];
    for op in ops {
        match op {
            Op::Def(n, v) => {
                payload.push(format!("(def {} {})", hex(NAMES[*n].as_bytes()), val_sx(*v)));
                let top = stack.last_mut().unwrap();
                if let Some(e) = top.iter_mut().find(|e| e.0 == *n) {
                    e.1 = *v;
                } else {
                    top.push((*n, *v));
                }
            }
            Op::BadDef(n) => payload.push(format!("(baddef {})", hex(NAMES[*n].as_bytes()))),
            Op::Push => {
                payload.push("(push)".into());
                stack.push(vec![]);
            }
            Op::Pop => {
                payload.push("(pop)".into());
                stack.pop();
            }
            Op::Fn(n) => {
                payload.push(format!("(fn {})", hex(NAMES[*n].as_bytes())));
                if stack.len() == 1 && !fns.contains(n) {
                    fns.push(*n);
                }
            }
        }
        for (i, name) in NAMES.iter().enumerate() {
            payload.push(format!("(get {})", hex(name.as_bytes())));
            match stack.iter().rev().find_map(|s| s.iter().find(|e| e.0 == i).map(|e| e.1)) {
                Some(v) => expect.push_str(&format!(" {}", val_sx(v))),
                None => expect.push_str(" none"),
            }
        }
        for (i, name) in NAMES.iter().enumerate() {
            payload.push(format!("(probe {})", hex(name.as_bytes())));
            expect.push_str(if fns.contains(&i) { " (fn 1)" } else { " (fn 0)" });
        }
    }
    expect.push(')');
    (payload.join(" "), expect)
}

fn enumerate(len: usize, depth: usize, prefix: &mut Vec<Op>, counter: &mut i64, out: &mut Vec<Vec<Op>>) {
    if len == 0 {
        out.push(prefix.clone());
        return;
    }
    let mut cands = vec![];
    for n in 0..2usize {
        *counter += 1;
        cands.push(Op::Def(n, *counter % 7));
    }
    cands.push(Op::Def(2, 9));
    cands.push(Op::BadDef((*counter % 2) as usize));
    if depth < 3 {
        cands.push(Op::Push);
    }
    if depth > 1 {
        cands.push(Op::Pop);
    }
    cands.push(Op::Fn(2));
    cands.push(Op::Fn(0));
    for c in cands {
        let d = match c {
            Op::Push => depth + 1,
            Op::Pop => depth - 1,
            _ => depth,
        };
        prefix.push(c);
        enumerate(len - 1, d, prefix, counter, out);
        prefix.pop();
    }
}

thread_local! {
    static EXPECT: std::cell::RefCell<std::collections::HashMap<String, String>> = std::cell::RefCell::new(std::collections::HashMap::new());
}

fn macro_program(rng: &mut Rng, depth: u32) -> String {
    // variables x, y, z exist in the context (and z is also a function); macros reuse the names
    let names = ["x", "y", "z"];
    let v = *rng.pick(&names);
    if depth == 0 {
        return match rng.below(5) {
            0 => "x".into(),
            1 => "y".into(),
            2 => "z".into(),
            3 => "z(1)".into(),
            _ => format!("{} + 1", rng.pick(&names)),
        };
    }
    let range = match rng.below(9) {
        0 => "[1, 2]".to_string(),
        1 => "l".to_string(),
        2 => format!("[{}, 5]", rng.pick(&names)),
        3 => "[[1], [2, 3]]".to_string(),
        // elements that a sloppy lookup could mistake for "not bound here": null, false, 0, '', []
        4 => "[null, 1]".to_string(),
        5 => "[false, 0, '', []]".to_string(),
        // an element equal to the outer binding of the same name, between different ones
        6 => format!("[1, {v}, 2]"),
        7 => format!("[{v}, {v}]"),
        _ => "[1, null, 100, 300]".to_string(),
    };
    let body = macro_program(rng, depth - 1);
    let m = match rng.below(5) {
        0 => format!("{range}.map({v}, {body})"),
        1 => format!("{range}.filter({v}, {body} != null)"),
        2 => format!("{range}.all({v}, {body} != null)"),
        3 => format!("{range}.exists({v}, {body} == null)"),
        _ => format!("{range}.map({v}, {v} != null, [{v}, {body}])"),
    };
    // look the names up again after the macro
    format!("[{m}, x, y, z]")
}

pub fn generate(tier: Tier, rng: &mut Rng) -> Vec<Case> {
    let mut out = vec![];
    let max_len = match tier {
        Tier::Quick => 4,
        Tier::Thorough => 6,
    };
    let mut seqs = vec![];
    let mut counter = 0;
    for len in 1..=max_len {
        enumerate(len, 1, &mut vec![], &mut counter, &mut seqs);
    }
    let n_random = match tier {
        Tier::Quick => 1500,
        Tier::Thorough => 100_000,
    };
    for _ in 0..n_random {
        let len = 5 + rng.below(20) as usize;
        let mut depth = 1;
        let mut ops = vec![];
        for _ in 0..len {
            let op = match rng.below(9) {
                8 => Op::BadDef(rng.below(3) as usize),
                0..=3 => Op::Def(rng.below(3) as usize, rng.range(0, 9)),
                4 | 5 if depth < 3 => {
                    depth += 1;
                    Op::Push
                }
                6 if depth > 1 => {
                    depth -= 1;
                    Op::Pop
                }
                _ => Op::Fn(rng.below(3) as usize),
            };
            ops.push(op);
        }
        seqs.push(ops);
    }
    for ops in seqs {
        let (payload, expect) = render(&ops);
        let mut c = Case::new("ctxops", payload);
        let interesting = ops.iter().any(|o| *o == Op::Push) || {
            let mut seen = vec![];
            ops.iter().any(|o| if let Op::Def(n, _) = o { if seen.contains(n) { true } else { seen.push(*n); false } } else { false })
        };
        c.tags = vec!["history", if interesting { "scoped" } else { "flat" }];
        EXPECT.with(|e| e.borrow_mut().insert(c.key(), expect));
        out.push(c);
    }
    // programs
    let n_prog = match tier {
        Tier::Quick => 3000,
        Tier::Thorough => 200_000,
    };
    for _ in 0..n_prog {
        let mut spec = CtxSpec::default_ctx();
        if rng.chance(3, 4) {
            spec.vars.push(("x".into(), Value::Int(100)));
        }
        if rng.chance(1, 2) {
            spec.vars.push(("y".into(), Value::String(std::sync::Arc::new("outer".into()))));
        }
        if rng.chance(1, 2) {
            spec.vars.push(("z".into(), Value::Int(300)));
        }
        spec.vars.push(("l".into(), Value::List(std::sync::Arc::new(vec![Value::Int(7), Value::Int(8)]))));
        spec.fns.push(("z".into(), FnSpec::Host(vec!["pos-value".into()], Body::First)));
        // a chain of inner scopes, some shadowing the root's bindings
        for _ in 0..rng.below(3) {
            let mut s = vec![];
            if rng.chance(1, 2) {
                s.push(("x".to_string(), Value::Int(rng.range(200, 205))));
            }
            if rng.chance(1, 3) {
                s.push(("y".to_string(), Value::Int(rng.range(400, 405))));
            }
            spec.scopes.push(s);
        }
        let d = 1 + rng.below(3) as u32;
        let src = macro_program(rng, d);
        if let Some(mut c) = eval_case_from_src(&spec, &src) {
            c.tags = vec!["program"];
            out.push(c);
        }
    }
    // every way of using the iteration variable resolves to the element, also when the root binds
    // the same name to a map: bare, selected (`x.v`), tested (`has(x.v)`), indexed, as receiver and
    // as argument
    {
        let mk = |v: i64| -> Value { Value::Map(cel_interpreter::objects::Map { map: std::sync::Arc::new(std::collections::HashMap::from([(cel_interpreter::objects::Key::String(std::sync::Arc::new("v".to_string())), Value::Int(v))])) }) };
        for root_x in [false, true] {
            let mut spec = CtxSpec::default_ctx();
            if root_x {
                spec.vars.push(("x".into(), mk(100)));
                spec.vars.push(("y".into(), mk(200)));
                spec.scopes.push(vec![("y".to_string(), mk(300))]);
            }
            // host variables whose *names* contain dots are variables of their own: `x.v` selects
            // field v of whatever `x` denotes, it never reads a variable called "x.v"
            if root_x {
                spec.vars.push(("x.v".into(), Value::Int(99)));
                spec.vars.push(("y.v".into(), Value::Int(98)));
                spec.vars.push(("x.v.v".into(), Value::Int(97)));
            }
            for src in [
                "[{'v': 1}, {'v': 2}].map(x, x.v)", "[{'v': 1}, {'w': 2}].map(x, has(x.v))", "[{'v': 1}].map(x, x['v'])", "[{'v': 1}].map(x, x.size())", "[{'v': 1}].map(x, size(x))", "[{'v': 1}, {'v': 2}].filter(x, x.v > 1)",
                "[{'v': 1}].all(x, has(x.v) && x.v == 1)", "[{'v': 1}].map(y, y.v)", "[{'v': 1}].map(y, [{'v': 5}].map(x, x.v + y.v))", "[{'v': 1}].map(x, [x].map(y, y.v))", "[{'v': {'v': 7}}].map(x, x.v.v)",
                "[{'v': 1}].exists(x, x.v == 1) ? [{'v': 3}].map(y, has(y.w)) : []", "[{'w': 1}].map(x, has(x.v) ? x.v : -1)", "[{'v': 1}].map(x, {'k': x.v})", "[{'v': 1}].map(x, [x.v, x.v])",
            ] {
                if let Some(mut c) = eval_case_from_src(&spec, src) {
                    c.tags = vec!["program", "iteration-variable-selected"];
                    out.push(c);
                }
            }
        }
    }
    // the outer iteration variable used ONLY inside a nested macro (body, predicate or range), at
    // two and three levels, with and without a root variable of the same name; maps as ranges
    for root_x in [false, true] {
        let mut spec = CtxSpec::default_ctx();
        if root_x {
            spec.vars.push(("x".into(), Value::Int(100)));
            spec.vars.push(("k".into(), Value::String(std::sync::Arc::new("root".into()))));
        }
        for src in [
            "[1, 2].map(x, [10].map(y, x + y))",
            "[1, 2].map(x, [10, 20].filter(y, y > x * 10))",
            "[1, 2].all(x, [1, 2, 3].exists(y, y == x))",
            "[1, 2].exists(x, [x].all(y, y == 2))",
            "[1, 2].map(x, [3].map(y, [4].map(z, x + y + z)))",
            "[[1], [2, 3]].map(x, x.map(y, size(x) + y))",
            "{'a': 1}.all(k, ['a', 'b'].exists(s, s == k))",
            "{'a': 1}.map(k, [1].map(i, k))",
            "[1, 2].filter(x, [0].all(y, x > 1))",
            "[1, 2].map(x, [5].map(x, x))", "[7].map(x, [1, 2].map(x, x))", "[7].map(x, [1, 2].all(x, x < 3))", "[7].map(x, [x, 2].map(x, x + 1))", "['a'].map(x, [1].map(x, x))", "[7].map(x, [8].map(y, [9].map(x, x + y)))", "[true].map(x, [1, 2].filter(x, x > 1))",
            "[1, 2].map(x, [x].map(x, x * 2))",
            "[1, 2].exists_one(x, [1].exists(y, x == 2 && y == 1))",
            "[1, 2].map(x, x > 1, [7].map(y, x * y))",
        ] {
            if let Some(mut c) = eval_case_from_src(&spec, src) {
                c.tags = vec!["program", "outer-var-only-nested"];
                out.push(c);
            }
        }
    }
    out
}

pub fn predicate(case: &Case, impl_ans: &str) -> Option<String> {
    if impl_ans.contains("(panic)") {
        return Some("panicked".into());
    }
    let want = EXPECT.with(|e| e.borrow().get(&case.key()).cloned())?;
    if want != impl_ans {
        Some(format!("innermost-binding lookup prescribes {want}, implementation answered {impl_ans}"))
    } else {
        None
    }
}

pub fn nontrivial(case: &Case, _impl_ans: &str) -> bool {
    !case.tags.contains(&"flat")
}
