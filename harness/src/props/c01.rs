//! C01 — compiling any source text ends in a program or positioned errors.
use super::{PropDef, Tier};
use crate::prng::Rng;
use crate::run::Case;
use crate::sx::hex;

pub fn def() -> PropDef {
    PropDef {
        id: "C01",
        generate,
        predicate,
        nontrivial,
        functional: true,
        post: super::no_post,
        rule: "source strings up to 4 KiB: random characters (ASCII-biased with multi-byte code points, quotes, backslashes, line breaks), random sequences of CEL tokens, grammar-generated valid expressions (the typed, untyped and reference generators, nesting to 32) and single-token insert / delete / replace / truncate mutations of valid ones, every macro name with 0-5 arguments in receiver and global style, and erroneous lines padded to every length up to 300 characters (and around 1 KiB) with 1- to 4-byte characters; compiled by Program::compile; compared with the model: accept or reject and, on accept, the tree; predicate on the implementation: no panic, no hang (a watchdog reports a case running longer than 20 s), a rejection carries at least one error, every error renders to non-empty text, 1 <= line <= number of lines and 1 <= column <= length of that line in characters + 1, and an accepted text is also one complete expression for the grammar model; non-trivial = the text contains at least two tokens; distinct = distinct text",
        exhaustive_note: "random sample plus a fixed catalogue of malformed texts",
    }
}

const TOKENS: [&str; 60] = [
    "a", "b", "x", "f", "size", "has", "all", "map", "true", "false", "null", "in", "1", "0", "42", "1u", "0x1F", "1.5", ".5", "1e3", "'s'", "\"d\"", "b'x'", "r'raw'", "'''t'''",
    "+", "-", "*", "/", "%", "==", "!=", "<", "<=", ">", ">=", "&&", "||", "!", "?", ":", ".", ",", "(", ")", "[", "]", "{", "}", "`esc`", " ", "\n", "\t", "// c\n", "é", "@", "#", "$", "=", "&",
];

fn random_chars(rng: &mut Rng) -> String {
    let n = rng.below(40) as usize;
    let alphabet: Vec<char> = "ab1 ()[]{}.,:?+-*/%!<>=&|'\"\\`_xu\n\t\r#@$~^é✌🐱\u{0}\u{c}\u{7f}\u{ff}\u{2028}\u{10ffff}".chars().collect();
    (0..n).map(|_| *rng.pick(&alphabet)).collect()
}

fn random_tokens(rng: &mut Rng) -> String {
    let n = rng.below(14) as usize;
    let mut s = String::new();
    for _ in 0..n {
        s.push_str(*rng.pick(&TOKENS[..]));
        if rng.chance(1, 2) {
            s.push(' ');
        }
    }
    s
}

fn valid(rng: &mut Rng) -> String {
    loop {
        match rng.below(4) {
            0 => {
                if let Some(c) = super::c03::typed_program(rng, 6, true) {
                    return c.src.unwrap_or_default();
                }
            }
            1 => return super::c19::gen_src(rng),
            2 => {
                // deep nesting, up to 32
                let d = 1 + rng.below(32) as usize;
                let (open, close) = *rng.pick(&[("(", ")"), ("[", "]"), ("f(", ")"), ("-(", ")"), ("{1: ", "}"), ("a[", "]"), ("(true ? ", " : 0)")]);
                return format!("{}x{}", open.repeat(d), close.repeat(d));
            }
            _ => {
                let n = 1 + rng.below(6);
                return (0..n).map(|_| super::c19::gen_src(rng)).collect::<Vec<_>>().join(*rng.pick(&[" && ", " || ", " + ", " == ", " ? 1 : "]));
            }
        }
    }
}

/// split into rough tokens for mutation (whitespace- and punctuation-delimited)
fn rough_tokens(s: &str) -> Vec<String> {
    let mut out = vec![];
    let mut cur = String::new();
    for c in s.chars() {
        if c.is_alphanumeric() || c == '_' {
            cur.push(c);
        } else {
            if !cur.is_empty() {
                out.push(std::mem::take(&mut cur));
            }
            out.push(c.to_string());
        }
    }
    if !cur.is_empty() {
        out.push(cur);
    }
    out
}

fn mutate(rng: &mut Rng, s: &str) -> String {
    let mut toks = rough_tokens(s);
    if toks.is_empty() {
        return rng.pick(&TOKENS).to_string();
    }
    let i = rng.below(toks.len() as u64) as usize;
    match rng.below(4) {
        0 => toks.insert(i, rng.pick(&TOKENS).to_string()),
        1 => {
            toks.remove(i);
        }
        2 => toks[i] = rng.pick(&TOKENS).to_string(),
        _ => toks.truncate(i),
    }
    toks.concat()
}

pub fn generate(tier: Tier, rng: &mut Rng) -> Vec<Case> {
    let mut out = vec![];
    let mut push = |src: String, tag: &'static str| {
        if src.len() > 4096 {
            return;
        }
        let mut c = Case::new("c01", hex(src.as_bytes()));
        let toks = rough_tokens(&src).iter().filter(|t| !t.trim().is_empty()).count();
        c.src = Some(src);
        c.tags = vec![tag, if toks >= 2 { "multi" } else { "tiny" }];
        out.push(c);
    };
    for src in [
        "", " ", "\t", "\n", "1 +", "+", "1 + + 2", "(", ")", "(((", "1)", "[1", "{1:", "{1}", "a.", "a..b", "a b", "1 2", "ä", "'\\q'", "\"x", "'x", "'''x", "// only a comment", " // c", "!-a", "-!a", "a ? b", "a ? b :", "? :", "a :", "f(", "f(,)", "f(1,)", "[,,]", "{,,}", "in", "a in", "0x", "0xg", "1.", "1e", "1a", "'a' 'b'", "a.?b", "a[?1]", "[?1]", "{?1:2}", "T{?a:1}", "T{a}", "T{1:2}", "a.b{", "`x`", "a.`b", "@", "#", "a = b", "a & b", "a | b", "a ^ b", "~a", "a ; b", "1u2", "1.5u", "9223372036854775808", "1e400", "'\\ud800'", "has(a)", "[1].all(1, true)", "[1].map(a.b, 1)",
        "[\"éééééééééé\"].all(1,\n2)", "\"é\" + has(a)", "x.map(\n  1, 2)", "\"ééé\" +", "é é é", "\"\u{1F431}\" + + 1", "'a\nb'", "1 +\n\n+", "a\r\n+\r\n", "\u{feff}a",
    ] {
        push(src.to_string(), "catalogue");
    }
    // a macro that fails (bad binder, wrong use of has) inside the argument slot another macro
    // validates: the outer expander sees a placeholder, and must still report a positioned error
    {
        let bad = ["has(a)", "has(1)", "[2].all(3, true)", "y.filter(1, z)", "[1].map(x.y, 1)", "has(has(a))", "[1].exists_one(1 + 1, true)",
            // arguments that are, or start with, calls without arguments, and other shapes with no first operand
            "f()", "a.b()", "a.b() + 1", "x.y()", "now()", "[]", "{}", "f()()", "-f()", "f().g", "f()[0]", "T{}", "(f())", "!f()"];
        for b in bad {
            for src in [format!("has({b})"), format!("[1].all({b}, true)"), format!("x.map({b}, 1)"), format!("[].exists({b}, true)"), format!("[1].map(x, {b})"), format!("[1].filter({b}, {b})"), format!("[1].map({b}, {b}, {b})"), format!("{b}.all(x, true)"), format!("'éé' + has({b})")] {
                push(src, "nested-bad-macro");
            }
        }
    }
    // texts a general-purpose number parser would take but CEL does not, and errors at column 1 of
    // a continuation line
    for src in ["+5", "+0", "+42", "+ 5", "+5u", "+1.5", "-+5", "+-5", "0_0", "1_000", "٣", "５", "0b11", "0o7", "1e+", "inf", "NaN", "-inf", "Infinity", "1e", "1.e", "0x", "5.", "٣ + 1",
        "x.all(\n1, y)", "has(\nm)", "[1, 2, 3]\n  .map(\n'v', v + 1)", "x.map(\n\n1, 2)", "x.filter(\r\n1, 2)", "['éé'].all(\n1,\n2)"] {
        push(src.to_string(), "catalogue");
    }
    // numeric literals at and just beyond the limits of their kind, in every spelling (decimal,
    // hex, signed, unsigned suffix, exponent) and in several syntactic positions
    for lit in [
        "9223372036854775807", "9223372036854775808", "-9223372036854775808", "-9223372036854775809", "18446744073709551615u", "18446744073709551616u", "18446744073709551615", "-1u", "-0u",
        "0x7FFFFFFFFFFFFFFF", "0x8000000000000000", "-0x8000000000000000", "-0x8000000000000001", "-0x7FFFFFFFFFFFFFFF", "0xFFFFFFFFFFFFFFFF", "0xFFFFFFFFFFFFFFFFu", "0x10000000000000000", "0x10000000000000000u",
        "-0xFFFFFFFFFFFFFFFF", "0X1f", "0x0", "-0x0", "0x00000000000000000001", "1e308", "1e309", "-1e309", "1e-400", "1.7976931348623157e308", "1.7976931348623159e308", "4.9e-324", "0e999", "00", "007", "-007", "1e0000000000000000001",
        "99999999999999999999999999999999", "0.99999999999999999999999999999999", "123456789012345678901234567890u",
    ] {
        for src in [lit.to_string(), format!("x == {lit} ? 1 : 2"), format!("[{lit}]"), format!("{{{lit}: 1}}"), format!("f({lit})"), format!("-{lit}"), format!("-({lit})"), format!("1 - {lit}"), format!("{lit}.size()")] {
            push(src, "limit-literals");
        }
    }
    // prefix operators and brackets nested 10 to 40 deep on one path: compilation time and stack
    // stay proportional to the depth
    for d in [10usize, 20, 30, 40] {
        for (open, close, leaf) in [("-(", ")", "x"), ("!(", ")", "b"), ("-(-(", "))", "1"), ("(", ")", "x"), ("[", "]", "1"), ("f(", ")", "x"), ("x.f(", ")", "1"), ("{1: ", "}", "2"), ("-", "", "x"), ("!", "", "b"), ("has(a.b) && (", ")", "c"), ("[1].map(v, ", ")", "v")] {
            push(format!("{}{leaf}{}", open.repeat(d), close.repeat(d)), "deep-nesting");
            push(format!("{}{leaf}{}", open.repeat(d), close.repeat(d.saturating_sub(1))), "deep-nesting");
        }
    }
    // errors located after tabs and other wide or zero-width characters: columns count characters
    for src in ["\t1 +", "a\t| b", "[1,\n\t2,\n\t)", "\t\t\t)", "x\t\t+\t", "\t'abc", "1 +\t\n\t* 2", "\tx.all(\t1, y)", "\t\thas(\tm)", "\u{feff}1 +", "a\u{200b}b", "\t[1].map(\n\t\t2, 3)"] {
        push(src.to_string(), "tabs-before-error");
    }
    // white-space-only and comment-only sources of several lines
    for src in ["\n", "\n\n", " \n", "\t\n  \n", "\r\n", " \n \n ", "\n// c", "// c\n", "// c\n\n", "\u{c}\n"] {
        push(src.to_string(), "blank-lines");
    }
    // characters that are white space for Unicode but not for CEL (only TAB, LF, FF, CR, SPACE
    // are), in every position of an otherwise valid text: each must be a token recognition error
    for ws in ["\u{a0}", "\u{b}", "\u{85}", "\u{1680}", "\u{2000}", "\u{2003}", "\u{200a}", "\u{2028}", "\u{2029}", "\u{202f}", "\u{205f}", "\u{3000}", "\u{feff}", "\u{200b}", "\u{1c}", "\u{1f}"] {
        for src in [format!("1{ws}"), format!("{ws}1"), format!("1 {ws}"), format!("{ws} 1"), format!("x + 1 {ws}\n"), format!("1{ws}+{ws}2"), format!("1 +{ws}"), format!("[1,{ws}2]"), format!("f(1){ws}{ws}"), format!("'a'{ws}")] {
            push(src, "unicode-space");
        }
    }
    // invalid escapes (lone surrogates, values beyond U+10FFFF, bad hex) at every depth of a
    // multi-line literal: the error's line / column must stay inside the source
    for bad in ["\\ud800", "\\udfff", "\\U00110000", "\\U0000d800", "\\xZZ", "\\q", "\\400"] {
        for q in ["'''", "\"\"\""] {
            for lines_before in 0..4usize {
                for pad in ["", "abcdefgh ", "éééééééé ", "\u{1F431}\u{1F431} "] {
                    let body = format!("{}{pad}{bad}", "line\n".repeat(lines_before));
                    push(format!("{q}{body}{q}"), "bad-escape-multiline");
                    push(format!("x + {q}{body}{q}"), "bad-escape-multiline");
                    push(format!("[1,\n {q}{body}\ntail{q}]"), "bad-escape-multiline");
                }
            }
        }
    }
    // macros with every number of arguments in both call styles (the expanders see them all;
    // a wrong count must be a positioned error or an ordinary call, never a panic)
    for name in ["has", "all", "exists", "exists_one", "existsOne", "map", "filter"] {
        for n in 0..=5usize {
            let args: Vec<String> = (0..n).map(|i| match i { 0 => "x".to_string(), 1 => "x > 1".to_string(), 2 => "x * 2".to_string(), 3 => "m.f".to_string(), _ => "1".to_string() }).collect();
            let a = args.join(", ");
            push(format!("[1, 2, 3].{name}({a})"), "macro-arity");
            push(format!("{name}({a})"), "macro-arity");
            push(format!("m.{name}({a}) || false"), "macro-arity");
            push(format!("[[1]].map(y, y.{name}({a}))"), "macro-arity");
            // a non-identifier where the iteration variable belongs
            if n >= 1 {
                let b = std::iter::once("x.y".to_string()).chain(args.iter().skip(1).cloned()).collect::<Vec<_>>().join(", ");
                push(format!("[1, 2, 3].{name}({b})"), "macro-arity");
                let c = std::iter::once("'éé' + 1".to_string()).chain(args.iter().skip(1).cloned()).collect::<Vec<_>>().join(", ");
                push(format!("['ääää'].{name}({c})"), "macro-arity");
            }
        }
    }
    // long lines: the erroneous line is padded with 1-, 2-, 3- and 4-byte characters so that every
    // byte offset up to a few hundred (and around 1 KiB) is, in some case, the middle of a character
    for (pad, max) in [("a", 140usize), ("é", 300), ("✌", 140), ("\u{1F431}", 140)] {
        let ns: Vec<usize> = (0..=max).chain(if tier == Tier::Thorough { 300..1100 } else { 1020..1030 }).collect();
        for n in ns {
            for shift in ["", "b"] {
                let body = format!("{shift}{}", pad.repeat(n));
                if body.len() > 3500 {
                    continue;
                }
                push(format!("'{body}' +"), "long-line");
                if n % 3 == 0 {
                    push(format!("['{body}'].all(1, true)"), "long-line");
                    push(format!("1 +\n'{body}' ? :\n2"), "long-line");
                }
            }
        }
    }
    let n = match tier {
        Tier::Quick => 5000,
        Tier::Thorough => 300_000,
    };
    for i in 0..n {
        match i % 5 {
            0 => push(random_chars(rng), "random-chars"),
            1 => push(random_tokens(rng), "random-tokens"),
            2 => push(valid(rng), "valid"),
            _ => {
                let v = valid(rng);
                push(mutate(rng, &v), "mutation");
            }
        }
    }
    // the outcome of a compilation depends on its own text only: texts that differ in white space
    // (also inside literals and after `//`), letter case or a trailing comment, each compiled
    // immediately after its sibling on the same thread
    {
        let bases = [
            "request.size < 10 // limit", "name == 'John Smith'", "a + b", "'a  b'", "\"x\ty\"", "1 +2", "x.all(e, e > 0)", "[1, 2, 3]", "{'k': 1}", "f(a, b)", "a ? b : c", "x in [1, 2]", "1 + // c\n2", "a &&\nb", "r'a b'",
            "'''a\nb'''", "b'a b'", "1 2", "a b", "x ==\n// note\n1", "size( x )", "-  1", "! true", "a . b", "a [ 0 ]", "1.5 + .5", "0x1F + 1", "'A' + 'a'", "true && TRUE", "null == NULL", "x.Map(e, e)",
        ];
        let mut pairs: Vec<(String, String)> = vec![];
        for b in bases {
            let vs = [
                b.replace(' ', "\n"), b.replace(' ', "  "), b.replace('\n', " "), b.trim().to_string(), format!("{b} "), format!(" {b}"), b.to_uppercase(), b.to_lowercase(),
                b.split("//").next().unwrap_or("").to_string(), b.replace(' ', "\t"), b.replace(' ', ""), b.replace("//", "//\n"), format!("{b}\n"), format!("({b})"),
            ];
            for v in vs {
                if v != b {
                    pairs.push((b.to_string(), v));
                }
            }
        }
        for (a, b) in pairs {
            for (first, second) in [(&a, &b), (&b, &a)] {
                let mut c = Case::new("c01", hex(second.as_bytes()));
                c.src = Some(second.clone());
                c.prelude = vec![first.clone()];
                c.tags = vec!["after-sibling", "multi"];
                out.push(c);
            }
        }
    }
    out
}

pub fn predicate(_case: &Case, impl_ans: &str) -> Option<String> {
    if impl_ans.contains("(panic)") {
        return Some("compilation panicked".into());
    }
    if !impl_ans.ends_with(" ok)") {
        return Some(format!("error reporting contract broken: {impl_ans}"));
    }
    None
}

pub fn nontrivial(case: &Case, _impl_ans: &str) -> bool {
    case.tags.contains(&"multi")
}
