//! C07 — each operand is evaluated at most once, left to right, in bounded work.
use super::{PropDef, Tier};
use crate::ctx::{Body, CtxSpec, FnSpec};
use crate::prng::Rng;
use crate::run::{eval_case_from_src, Case};
use cel_interpreter::Value;
use std::collections::HashMap;

pub fn def() -> PropDef {
    PropDef {
        id: "C07",
        generate,
        predicate,
        nontrivial,
        functional: true,
        rule: "programs of depth <= 10 in which every leaf is a tagged logging host call t(n) and every call shape occurs (global and receiver style, 0-4 arguments, host and built-in functions, nested in the strict operators (+ - * == != < <= > >=, in over lists and maps, index), && / || / ?:, list/map literals, conversion chains and map/filter/all/exists macros; receiver-style calls of functions without a receiver parameter; every arity 0-5 against every signature); the ordered host-call log must equal the model's and that of an independent left-to-right reference interpreter; plus nested int(int(...)) / f(f(...)) chains to depth 40 whose call count must stay linear; non-trivial = at least two logged calls; distinct = distinct source text",
        post: super::no_post,
        exhaustive_note: "random sample plus the fixed call-shape catalogue",
    }
}

/// a tiny total language over ints whose evaluation order is unambiguous
#[derive(Clone, Debug)]
pub enum N {
    Tag(i64),                   // t(n) -> n
    Host(usize, Vec<N>),        // hK(args) -> K
    Method(usize, Box<N>, Vec<N>), // recv.mK(args) -> K   (K = number of args)
    Add(Box<N>, Box<N>),
    Cond(Box<N>, Box<N>, Box<N>),
    SizeList(Vec<N>),           // size([..])
    MaxOf(Vec<N>),              // max(a, b, ..) (>= 2 args)
    Index(Vec<N>, Box<N>),      // [..][i]  -> element or 0 … index expression is Tag(k) with k in range
    MapSize(Vec<(N, N)>),       // size({k: v, ..}) with distinct tag keys
    MapMacro(Vec<N>, Box<N>),   // size([..].map(x, t(x) + body))
    AllMacro(Vec<N>, Box<N>),   // ([..].all(x, t(x) + body > -1000000) ? 1 : 0)
    Contains(Vec<N>, Box<N>),   // ([..].contains(e) ? 1 : 0)
    Conv(u8, Box<N>),           // a chain of built-in conversions through other types, value unchanged
    Bin(u8, Box<N>, Box<N>),    // a strict binary operator: - * == != < <= > >= (comparisons as 0 / 1)
    In(Box<N>, Vec<N>),         // (x in [..] ? 1 : 0): the element first, then the container
    InMap(Box<N>, Vec<(N, N)>), // (x in {k: v, ..} ? 1 : 0)
    And(Box<N>, Box<N>),        // ((a != 0) && (b != 0) ? 1 : 0): b only if a is non-zero
    Or(Box<N>, Box<N>),         // ((a != 0) || (b != 0) ? 1 : 0): b only if a is zero
    PosMethod(usize, Box<N>, Vec<N>), // recv.hK(args): hK takes K positional parameters and no receiver
    MapGuard(Vec<N>, i64, Box<N>), // size([..].map(x, t(x) > K, t(x) + body)): guard first, transform only if it holds
}

fn args_src(a: &[N]) -> String {
    a.iter().map(|x| x.render()).collect::<Vec<_>>().join(", ")
}

impl N {
    pub fn render(&self) -> String {
        match self {
            N::Tag(n) => format!("t({n})"),
            N::Host(k, a) => format!("h{k}({})", args_src(a)),
            N::Method(k, r, a) => format!("{}.m{k}({})", r.render(), args_src(a)),
            N::Add(a, b) => format!("({} + {})", a.render(), b.render()),
            N::Cond(c, x, y) => format!("({} != 0 ? {} : {})", c.render(), x.render(), y.render()),
            N::SizeList(a) => format!("size([{}])", args_src(a)),
            N::MaxOf(a) => format!("max({})", args_src(a)),
            N::Index(a, i) => format!("[{}][{}]", args_src(a), i.render()),
            N::MapSize(es) => format!("size({{{}}})", es.iter().map(|(k, v)| format!("{}: {}", k.render(), v.render())).collect::<Vec<_>>().join(", ")),
            N::MapMacro(a, b) => format!("size([{}].map(x, t(x) + {}))", args_src(a), b.render()),
            N::AllMacro(a, b) => format!("([{}].all(x, t(x) + {} > -1000000) ? 1 : 0)", args_src(a), b.render()),
            N::Contains(a, e) => format!("([{}].contains({}) ? 1 : 0)", args_src(a), e.render()),
            N::Bin(op, a, b) => {
                let (x, y) = (a.render(), b.render());
                match op % 8 {
                    0 => format!("({x} - {y})"),
                    1 => format!("(({x} * {y}) % 1000)"),
                    2 => format!("({x} == {y} ? 1 : 0)"),
                    3 => format!("({x} != {y} ? 1 : 0)"),
                    4 => format!("({x} < {y} ? 1 : 0)"),
                    5 => format!("({x} <= {y} ? 1 : 0)"),
                    6 => format!("({x} > {y} ? 1 : 0)"),
                    _ => format!("({x} >= {y} ? 1 : 0)"),
                }
            }
            N::In(x, a) => format!("({} in [{}] ? 1 : 0)", x.render(), args_src(a)),
            N::InMap(x, es) => format!("({} in {{{}}} ? 1 : 0)", x.render(), es.iter().map(|(k, v)| format!("{}: {}", k.render(), v.render())).collect::<Vec<_>>().join(", ")),
            N::And(a, b) => format!("(({} != 0) && ({} != 0) ? 1 : 0)", a.render(), b.render()),
            N::Or(a, b) => format!("(({} != 0) || ({} != 0) ? 1 : 0)", a.render(), b.render()),
            N::PosMethod(k, r, a) => format!("{}.h{k}({})", r.render(), args_src(a)),
            N::MapGuard(a, k, b) => format!("size([{}].map(x, t(x) > {k}, t(x) + {}))", args_src(a), b.render()),
            N::Conv(k, e) => match k % 8 {
                0 => format!("int(double({}))", e.render()),
                1 => format!("int(string({}))", e.render()),
                2 => format!("int({})", e.render()),
                3 => format!("string({}).int()", e.render()),
                4 => format!("double({}).int()", e.render()),
                5 => format!("int(double(string({})))", e.render()),
                6 => format!("(size(string({})) > 0 ? int(string({}).double()) : 0)", e.render(), N::Tag(-7).render()),
                _ => format!("int(string({}).int().double())", e.render()),
            },
        }
    }
    /// reference interpreter: strict left-to-right, receiver before arguments, each operand once
    pub fn eval(&self, log: &mut Vec<String>) -> i64 {
        let int = |v: i64| format!("(int {v})");
        match self {
            N::Tag(n) => {
                log.push(format!("(x74 {})", int(*n)));
                *n
            }
            N::Host(k, a) => {
                let vs: Vec<i64> = a.iter().map(|x| x.eval(log)).collect();
                let name = crate::sx::hex(format!("h{k}").as_bytes());
                log.push(format!("({name}{})", vs.iter().map(|v| format!(" {}", int(*v))).collect::<String>()));
                *k as i64
            }
            N::Method(k, r, a) => {
                let rv = r.eval(log);
                let vs: Vec<i64> = a.iter().map(|x| x.eval(log)).collect();
                let name = crate::sx::hex(format!("m{k}").as_bytes());
                log.push(format!("({name} {}{})", int(rv), vs.iter().map(|v| format!(" {}", int(*v))).collect::<String>()));
                *k as i64
            }
            N::Add(a, b) => {
                let x = a.eval(log);
                let y = b.eval(log);
                x + y
            }
            N::Cond(c, x, y) => {
                if c.eval(log) != 0 {
                    x.eval(log)
                } else {
                    y.eval(log)
                }
            }
            N::SizeList(a) => {
                for x in a {
                    x.eval(log);
                }
                a.len() as i64
            }
            N::MaxOf(a) => a.iter().map(|x| x.eval(log)).max().unwrap_or(0),
            N::Index(a, i) => {
                let vs: Vec<i64> = a.iter().map(|x| x.eval(log)).collect();
                let idx = i.eval(log);
                vs.get(idx as usize).copied().unwrap_or(0)
            }
            N::MapSize(es) => {
                let mut keys = std::collections::HashSet::new();
                for (k, v) in es {
                    keys.insert(k.eval(log));
                    v.eval(log);
                }
                keys.len() as i64
            }
            N::MapMacro(a, b) => {
                let vs: Vec<i64> = a.iter().map(|x| x.eval(log)).collect();
                for v in &vs {
                    log.push(format!("(x74 {})", int(*v)));
                    b.eval(log);
                }
                vs.len() as i64
            }
            N::AllMacro(a, b) => {
                let vs: Vec<i64> = a.iter().map(|x| x.eval(log)).collect();
                for v in &vs {
                    log.push(format!("(x74 {})", int(*v)));
                    b.eval(log);
                }
                1
            }
            N::Contains(a, e) => {
                let vs: Vec<i64> = a.iter().map(|x| x.eval(log)).collect();
                let x = e.eval(log);
                vs.contains(&x) as i64
            }
            N::Bin(op, a, b) => {
                let x = a.eval(log);
                let y = b.eval(log);
                match op % 8 {
                    0 => x - y,
                    1 => (x * y) % 1000,
                    2 => (x == y) as i64,
                    3 => (x != y) as i64,
                    4 => (x < y) as i64,
                    5 => (x <= y) as i64,
                    6 => (x > y) as i64,
                    _ => (x >= y) as i64,
                }
            }
            N::In(x, a) => {
                let v = x.eval(log);
                let vs: Vec<i64> = a.iter().map(|e| e.eval(log)).collect();
                vs.contains(&v) as i64
            }
            N::InMap(x, es) => {
                let v = x.eval(log);
                let mut keys = vec![];
                for (k, e) in es {
                    keys.push(k.eval(log));
                    e.eval(log);
                }
                keys.contains(&v) as i64
            }
            N::And(a, b) => {
                if a.eval(log) == 0 {
                    0
                } else {
                    (b.eval(log) != 0) as i64
                }
            }
            N::Or(a, b) => {
                if a.eval(log) != 0 {
                    1
                } else {
                    (b.eval(log) != 0) as i64
                }
            }
            N::MapGuard(a, k, b) => {
                let vs: Vec<i64> = a.iter().map(|x| x.eval(log)).collect();
                let mut n = 0;
                for v in &vs {
                    log.push(format!("(x74 {})", int(*v)));
                    if *v > *k {
                        log.push(format!("(x74 {})", int(*v)));
                        b.eval(log);
                        n += 1;
                    }
                }
                n
            }
            N::PosMethod(k, r, a) => {
                // the receiver is evaluated (once, first) although hK has no receiver parameter
                let _ = r.eval(log);
                let vs: Vec<i64> = a.iter().map(|x| x.eval(log)).collect();
                let name = crate::sx::hex(format!("h{k}").as_bytes());
                log.push(format!("({name}{})", vs.iter().map(|v| format!(" {}", int(*v))).collect::<String>()));
                *k as i64
            }
            N::Conv(k, e) => {
                let v = e.eval(log);
                if k % 8 == 6 {
                    N::Tag(-7).eval(log)
                } else {
                    v
                }
            }
        }
    }
    fn has_two_calls(&self) -> bool {
        self.render().matches('(').count() >= 2
    }
}

pub fn ctx_spec() -> CtxSpec {
    let mut spec = CtxSpec::default_ctx();
    spec.fns.push(("t".into(), FnSpec::Host(vec!["pos-value".into()], Body::First)));
    for k in 0..=4usize {
        spec.fns.push((format!("h{k}"), FnSpec::Host(vec!["pos-value".to_string(); k], Body::Const(Value::Int(k as i64)))));
    }
    spec.fns.push(("m0".into(), FnSpec::Host(vec!["this-value".into()], Body::Const(Value::Int(0)))));
    spec.fns.push(("m1".into(), FnSpec::Host(vec!["this-value".into(), "pos-value".into()], Body::Const(Value::Int(1)))));
    spec.fns.push(("m2".into(), FnSpec::Host(vec!["this-value".into(), "pos-value".into(), "pos-value".into()], Body::Const(Value::Int(2)))));
    // names that start with an underscore (legal identifiers that look a little like operator names)
    spec.fns.push(("_id".into(), FnSpec::Host(vec!["pos-value".into()], Body::First)));
    spec.fns.push(("_sum".into(), FnSpec::Host(vec!["pos-value".into(), "pos-value".into()], Body::Const(Value::Int(2)))));
    spec.fns.push(("_plus".into(), FnSpec::Host(vec!["this-value".into(), "pos-value".into()], Body::Const(Value::Int(3)))));
    // a receiver parameter that is not the first parameter
    spec.fns.push(("pt".into(), FnSpec::Host(vec!["pos-value".into(), "this-value".into()], Body::Const(Value::Int(5)))));
    spec.fns.push(("ptp".into(), FnSpec::Host(vec!["pos-value".into(), "this-value".into(), "pos-value".into()], Body::Const(Value::Int(6)))));
    {
        let leaf = |k: &str, v: Value| -> Value { Value::Map(cel_interpreter::objects::Map { map: std::sync::Arc::new(std::collections::HashMap::from([(cel_interpreter::objects::Key::String(std::sync::Arc::new(k.to_string())), v)])) }) };
        spec.vars.push(("mm".into(), leaf("a", leaf("b", leaf("c", Value::Int(1))))));
    }
    // a receiver parameter combined with the all-arguments extractor (see known finding D27)
    spec.fns.push(("ta".into(), FnSpec::Host(vec!["this-value".into(), "args".into()], Body::Const(Value::Int(7)))));
    spec
}

fn tree(rng: &mut Rng, depth: u32, tag: &mut i64) -> N {
    let mut leaf = |tag: &mut i64| {
        *tag += 1;
        N::Tag(*tag)
    };
    if depth == 0 || rng.chance(1, 6) {
        return leaf(tag);
    }
    let d = depth - 1;
    let mut kids = |rng: &mut Rng, n: usize, tag: &mut i64| -> Vec<N> { (0..n).map(|_| { let dd = if rng.chance(1, 2) { d } else { d.min(1) }; tree(rng, dd, tag) }).collect() };
    match rng.below(23) {
        22 => {
            let n = rng.below(4) as usize;
            let ks: Vec<N> = (0..n).map(|_| leaf(tag)).collect();
            let k = rng.range(0, *tag + 1);
            N::MapGuard(ks, k, Box::new(tree(rng, d.min(2), tag)))
        }
        16 | 17 => {
            let a = tree(rng, d, tag);
            let b = tree(rng, d, tag);
            N::Bin(rng.below(8) as u8, Box::new(a), Box::new(b))
        }
        18 => {
            let x = tree(rng, d, tag);
            let n = rng.below(4) as usize;
            N::In(Box::new(x), kids(rng, n, tag))
        }
        19 => {
            let x = tree(rng, d, tag);
            let n = rng.below(3) as usize;
            N::InMap(Box::new(x), (0..n).map(|_| (leaf(tag), tree(rng, d.min(1), tag))).collect())
        }
        20 => {
            let a = tree(rng, d, tag);
            let b = tree(rng, d, tag);
            if rng.chance(1, 2) { N::And(Box::new(a), Box::new(b)) } else { N::Or(Box::new(a), Box::new(b)) }
        }
        21 => {
            let k = rng.below(4) as usize;
            let r = tree(rng, d, tag);
            N::PosMethod(k, Box::new(r), kids(rng, k, tag))
        }
        14 | 15 => {
            let e = tree(rng, d, tag);
            N::Conv(rng.below(8) as u8, Box::new(e))
        }
        0 | 1 => {
            let k = rng.below(5) as usize;
            N::Host(k, kids(rng, k, tag))
        }
        2 | 3 => {
            let k = rng.below(3) as usize;
            let r = tree(rng, d, tag);
            N::Method(k, Box::new(r), kids(rng, k, tag))
        }
        4 | 5 => {
            let a = tree(rng, d, tag);
            let b = tree(rng, d, tag);
            N::Add(Box::new(a), Box::new(b))
        }
        6 => {
            let c = tree(rng, d, tag);
            let x = tree(rng, d, tag);
            let y = tree(rng, d, tag);
            N::Cond(Box::new(c), Box::new(x), Box::new(y))
        }
        7 => {
            let n = rng.below(4) as usize;
            N::SizeList(kids(rng, n, tag))
        }
        8 => {
            let n = 2 + rng.below(3) as usize;
            N::MaxOf(kids(rng, n, tag))
        }
        9 => {
            let n = 1 + rng.below(3) as usize;
            let ks = kids(rng, n, tag);
            // the index is a host call returning its own arity, kept in range
            let i = rng.below(n as u64) as usize;
            N::Index(ks, Box::new(N::Host(i, (0..i).map(|_| leaf(tag)).collect())))
        }
        10 => {
            let n = rng.below(3) as usize;
            N::MapSize((0..n).map(|_| (leaf(tag), tree(rng, d.min(1), tag))).collect())
        }
        11 => {
            let n = rng.below(3) as usize;
            let ks: Vec<N> = (0..n).map(|_| leaf(tag)).collect();
            N::MapMacro(ks, Box::new(tree(rng, d.min(2), tag)))
        }
        12 => {
            let n = rng.below(3) as usize;
            let ks: Vec<N> = (0..n).map(|_| leaf(tag)).collect();
            N::AllMacro(ks, Box::new(tree(rng, d.min(2), tag)))
        }
        _ => {
            let n = rng.below(3) as usize;
            let ks = kids(rng, n, tag);
            let e = tree(rng, d.min(1), tag);
            N::Contains(ks, Box::new(e))
        }
    }
}

thread_local! {
    static EXPECT: std::cell::RefCell<HashMap<String, (String, usize)>> = std::cell::RefCell::new(HashMap::new());
}

pub fn generate(tier: Tier, rng: &mut Rng) -> Vec<Case> {
    let spec = ctx_spec();
    let n = match tier {
        Tier::Quick => 6000,
        Tier::Thorough => 400_000,
    };
    let mut out = vec![];
    let mut push = |src: String, want_log: Option<(Vec<String>, i64)>, bound: usize, tags: Vec<&'static str>, out: &mut Vec<Case>| {
        if let Some(mut c) = eval_case_from_src(&spec, &src) {
            c.tags = tags;
            if let Some((log, v)) = want_log {
                let logtxt = if log.is_empty() { "(log)".to_string() } else { format!("(log {})", log.join(" ")) };
                EXPECT.with(|e| e.borrow_mut().insert(c.key(), (format!("(res (ok (int {v})) {logtxt})"), bound)));
            } else {
                EXPECT.with(|e| e.borrow_mut().insert(c.key(), (String::new(), bound)));
            }
            out.push(c);
        }
    };
    for _ in 0..n {
        let mut tag = 0;
        let d = 1 + rng.below(6) as u32;
        let t = tree(rng, d, &mut tag);
        let src = t.render();
        if src.len() > 1200 {
            continue;
        }
        let mut log = vec![];
        let v = t.eval(&mut log);
        let two = t.has_two_calls();
        push(src, Some((log, v)), usize::MAX, vec![if two { "tree" } else { "tiny" }], &mut out);
    }
    // This<T> + Arguments: in receiver style the receiver is `this` and the arguments are the
    // arguments; in global style the first argument is `this` AND part of `Arguments` — the
    // property allows it to be evaluated once only (known finding D27: it is evaluated twice)
    let t = |n: i64| format!("(x74 (int {n}))");
    let ints = |v: &[i64]| v.iter().map(|x| format!("(int {x})")).collect::<Vec<_>>().join(" ");
    let ta = |this: i64, args: &[i64]| format!("(x7461 (int {this}) (list{}{}))", if args.is_empty() { "" } else { " " }, ints(args));
    push("t(1).ta(t(2), t(3))".into(), Some((vec![t(1), t(2), t(3), ta(1, &[2, 3])], 7)), usize::MAX, vec!["this-args", "receiver-style"], &mut out);
    push("t(1).ta()".into(), Some((vec![t(1), ta(1, &[])], 7)), usize::MAX, vec!["this-args", "receiver-style"], &mut out);
    push("ta(t(1))".into(), Some((vec![t(1), ta(1, &[1])], 7)), usize::MAX, vec!["this-args", "global-style"], &mut out);
    push("ta(t(1), t(2))".into(), Some((vec![t(1), t(2), ta(1, &[1, 2])], 7)), usize::MAX, vec!["this-args", "global-style"], &mut out);
    push("ta(t(1), t(2), t(3))".into(), Some((vec![t(1), t(2), t(3), ta(1, &[1, 2, 3])], 7)), usize::MAX, vec!["this-args", "global-style"], &mut out);
    push("h1(ta(t(1), t(2)))".into(), Some((vec![t(1), t(2), ta(1, &[1, 2]), format!("({} (int 7))", crate::sx::hex(b"h1"))], 1)), usize::MAX, vec!["this-args", "global-style"], &mut out);
    // calls with too few / too many arguments in both styles: what was evaluated before the error
    // (or the surplus that is ignored) is evaluated once, in source order — the model decides
    for k in 0..=4usize {
        for n in 0..=5usize {
            let args: Vec<String> = (0..n).map(|i| format!("t({})", i + 2)).collect();
            push(format!("t(1).h{k}({})", args.join(", ")), None, usize::MAX, vec!["arity-mismatch"], &mut out);
            push(format!("h{k}({})", args.join(", ")), None, usize::MAX, vec!["arity-mismatch"], &mut out);
            if k <= 2 {
                push(format!("t(1).m{k}({})", args.join(", ")), None, usize::MAX, vec!["arity-mismatch"], &mut out);
                push(format!("m{k}({})", args.join(", ")), None, usize::MAX, vec!["arity-mismatch"], &mut out);
            }
        }
    }
    for src in ["_sum(t(1), t(2))", "t(1)._plus(t(2))", "_id(_id(_id(_id(t(7)))))", "_id(t(1)) + _sum(t(2), _id(t(3)))", "_plus(t(1), t(2))", "t(1)._id()", "[t(1)].map(x, _id(x))"] {
        push(src.to_string(), None, usize::MAX, vec!["underscore-name"], &mut out);
    }
    // relations and arithmetic over operands that turn out not to be comparable / compatible: each
    // operand is still evaluated once, left then right
    for op in ["<", "<=", ">", ">=", "==", "!=", "+", "-", "in"] {
        for (a, b) in [("t(1)", "t('a')"), ("t('a')", "t(1)"), ("t(1.5)", "t(0.0 / 0.0)"), ("t([1])", "t([2])"), ("t(null)", "t(1)"), ("t(1)", "h1(t('s'))"), ("t(b'a')", "t(b'a')"), ("t(1)", "t(2u)")] {
            push(format!("{a} {op} {b}"), None, usize::MAX, vec!["unordered-operands"], &mut out);
            push(format!("[t(0), t(5)].exists(x, {a} {op} h2(x, {b}))"), None, usize::MAX, vec!["unordered-operands"], &mut out);
        }
    }
    // a logged operand beside containers written as literals of scalars (the shape a parser or
    // evaluator may special-case), field paths below a logged root (every step of the path is
    // evaluated once, also under has()), and macros that must visit every element
    for src in [
        "t(5) in [1, 2, 3]", "t(2) in [1, 2, 3]", "t(1) in [1]", "t(1) in [1, 2, 3, 4]", "t(9) in [1, 2, 3, 4, 5, 6]", "t('a') in ['a', 'b']", "[7, 8].map(x, t(x) in [1, 2, 3])", "t(1) in {1: 2, 3: 4}", "t(2) in [1, 2.0, 2u]",
        "!(t(1) in [1, 2])", "t(1) in []", "t(1) in [t(2)]", "t(true) in [true, false]", "t(1) + 0 in [1, 2]", "(t(1) in [1, 2]) && (t(2) in [3, 4])", "t(1) == 1 || t(1) == 2 || t(1) == 3",
        "has(t(mm).a.b.c)", "has(t(mm).a.b)", "has(t(mm).a)", "has(t(t(mm).a).b.c)", "has(t(mm).a.x.c)", "t(mm).a.b.c", "has(t(mm).a.b.c) && has(t(mm).a.b)", "[mm].map(v, has(t(v).a.b.c))", "has({'k': t(1)}.k)", "has(t(mm).x)",
        "t(mm).a.b.c + t(mm).a.b.c", "t(mm)['a']['b']['c']", "has(t(mm).a.b.c.d)",
        "[1, 2, 3, 4, 0, 5].exists_one(x, t(x) > 1)", "[1, 2, 3].exists_one(x, t(x) > 0)", "[[1, 2, 3], [4]].map(l, l.exists_one(x, t(x) > 0))", "[1, 2, 3, 4].all(x, t(x) < 3)", "[1, 2, 3, 4].exists(x, t(x) > 1)",
        "[1, 2, 3, 4].filter(x, t(x) > 1).map(y, t(y))", "[1, 2, 3, 4, 5].existsOne(x, t(x) % 2 == 1)", "[3, 3, 3, 3].exists_one(x, t(x) == 3) || t(0) == 0",
    ] {
        push(src.to_string(), None, usize::MAX, vec!["literal-containers-and-paths"], &mut out);
    }
    // macro bodies and guards that are binary tests whose right operand is a logged call that does
    // not mention the iteration variable (the shape a loop-invariant hoisting would look for): left
    // then right, once per element
    for range in ["[1, 2]", "[1, 2, 3]", "[5]", "[]", "{1: 0, 2: 0}"] {
        for op in ["<=", "<", "==", "!=", "+", "-", "in"] {
            let rhs = if op == "in" { "[t(10), t(11)]" } else { "t(10)" };
            let to_bool = if op == "+" || op == "-" { " > 0" } else { "" };
            for body in [
                format!("all(x, (t(x) {op} {rhs}){to_bool})"), format!("exists(x, (t(x) {op} {rhs}){to_bool})"), format!("exists_one(x, (t(x) {op} {rhs}){to_bool})"), format!("filter(x, (t(x) {op} {rhs}){to_bool})"),
                format!("map(x, (t(x) {op} {rhs}){to_bool}, x)"), format!("map(x, t(x) {op} {rhs})"), format!("map(x, [t(x), t(20)])"), format!("all(x, (x {op} {rhs}){to_bool})"), format!("all(x, (h1(t(x)) {op} h1({rhs})){to_bool})"),
            ] {
                let mut tags = vec!["loop-invariant-operand"];
                if range.starts_with('{') {
                    tags.push("unordered");
                }
                push(format!("{range}.{body}"), None, usize::MAX, tags, &mut out);
            }
        }
    }
    // every built-in function in both call styles over logged operands: each operand once
    {
        let ts = "t(timestamp('2024-02-29T10:11:12.345Z'))";
        let mut srcs: Vec<String> = vec![];
        for g in ["getFullYear", "getMonth", "getDayOfYear", "getDayOfMonth", "getDate", "getDayOfWeek", "getHours", "getMinutes", "getSeconds", "getMilliseconds"] {
            srcs.push(format!("{g}({ts})"));
            srcs.push(format!("{ts}.{g}()"));
            srcs.push(format!("{g}({ts}, t('+01:00'))"));
            srcs.push(format!("{ts}.{g}(t('UTC'))"));
        }
        for (f, a) in [("size", "t('abc')"), ("size", "t([1, 2])"), ("string", "t(1)"), ("int", "t('7')"), ("uint", "t(7)"), ("double", "t(1)"), ("bytes", "t('a')"), ("duration", "t('1s')"), ("timestamp", "t('2024-01-01T00:00:00Z')")] {
            srcs.push(format!("{f}({a})"));
            srcs.push(format!("{a}.{f}()"));
            srcs.push(format!("{f}({a}, t(0))"));
        }
        for (f, a, b) in [("contains", "t('abc')", "t('b')"), ("startsWith", "t('abc')", "t('a')"), ("endsWith", "t('abc')", "t('c')"), ("matches", "t('abc')", "t('b')"), ("contains", "t([1, 2])", "t(2)"), ("max", "t(1)", "t(2)"), ("min", "t(2)", "t(1)")] {
            srcs.push(format!("{f}({a}, {b})"));
            srcs.push(format!("{a}.{f}({b})"));
            srcs.push(format!("{f}({a})"));
            srcs.push(format!("{f}({a}, {b}, t(9))"));
        }
        for src in srcs {
            push(src, None, usize::MAX, vec!["builtins-both-styles"], &mut out);
        }
    }
    // receiver parameter in second position: both styles, every arity; the model decides
    for f in ["pt", "ptp"] {
        for n in 0..=4usize {
            let args: Vec<String> = (0..n).map(|i| format!("t({})", i + 1)).collect();
            push(format!("{f}({})", args.join(", ")), None, usize::MAX, vec!["this-not-first"], &mut out);
            push(format!("t(9).{f}({})", args.join(", ")), None, usize::MAX, vec!["this-not-first"], &mut out);
            push(format!("h1({f}({})) + {f}({})", args.join(", "), args.join(", ")), None, usize::MAX, vec!["this-not-first"], &mut out);
        }
    }
    // a failing operand between logging ones: what precedes it is evaluated once, what follows not
    // at all, and the call does not happen — for variadic, positional and receiver signatures
    for f in ["max", "min", "h3", "m2", "ta"] {
        for pos in 0..3usize {
            let args: Vec<String> = (0..3).map(|i| if i == pos { "(1 / 0)".to_string() } else { format!("t({})", i + 1) }).collect();
            push(format!("{f}({})", args.join(", ")), None, usize::MAX, vec!["failing-operand"], &mut out);
            push(format!("{}.{f}({})", args[0], args[1..].join(", ")), None, usize::MAX, vec!["failing-operand"], &mut out);
        }
    }
    // nested chains: the number of host calls must be linear in the depth (never exponential)
    for depth in [1usize, 2, 3, 5, 8, 13, 21, 30, 40] {
        let mut s = "t(1)".to_string();
        for _ in 0..depth {
            s = format!("h1({s})");
        }
        push(s, None, depth + 1, vec!["chain-global"], &mut out);
        let mut s = "t(1)".to_string();
        for _ in 0..depth {
            s = format!("{s}.m0()");
        }
        push(s, None, depth + 1, vec!["chain-receiver"], &mut out);
        let mut s = "t(1)".to_string();
        for _ in 0..depth {
            s = format!("int({s})");
        }
        push(s, None, 1, vec!["chain-builtin"], &mut out);
        // each step converts to another type (no conversion is the identity)
        let mut s = "t(1)".to_string();
        for i in 0..depth {
            s = match i % 4 {
                0 => format!("double({s})"),
                1 => format!("string({s})"),
                2 => format!("int({s})"),
                _ => format!("h1(uint({s}))"),
            };
        }
        push(s, None, depth / 4 + 1, vec!["chain-builtin-alternating"], &mut out);
        let mut s = "t(1)".to_string();
        for _ in 0..depth {
            s = format!("m1(h2({s}, t(2)), t(3))");
        }
        push(s, None, 4 * depth + 1, vec!["chain-mixed"], &mut out);
    }
    // a built-in name registered again by the host with a typed signature: the newest registration
    // is the function of that name - an argument it rejects is an error, evaluated once (the model
    // decides)
    {
        let mut spec2 = ctx_spec();
        spec2.fns.push(("string".into(), FnSpec::Host(vec!["this-bool".into()], Body::Const(Value::Int(1)))));
        spec2.fns.push(("size".into(), FnSpec::Host(vec!["pos-str".into()], Body::Const(Value::Int(2)))));
        spec2.fns.push(("int".into(), FnSpec::Host(vec!["this-str".into(), "pos-str".into()], Body::Const(Value::Int(3)))));
        for src in [
            "string(t(5))", "string(t(true))", "t(5).string()", "string(string(string(string(string(string(t(7)))))))", "size(t(1))", "size(t('a'))", "t([1]).size()", "int(t(1))", "int(t('1'), t(2))", "t('1').int(t('x'))",
            "[1, 2].map(x, string(t(x)))", "string(t(1)) + string(t(2))", "int(string(t(true)))",
        ] {
            if let Some(mut c) = eval_case_from_src(&spec2, src) {
                c.tags = vec!["re-registered-builtin"];
                out.push(c);
            }
        }
    }
    out
}

pub fn predicate(case: &Case, impl_ans: &str) -> Option<String> {
    if impl_ans.contains("(panic)") {
        return Some("evaluation panicked".into());
    }
    let (want, bound) = EXPECT.with(|e| e.borrow().get(&case.key()).cloned())?;
    if !want.is_empty() && want != impl_ans {
        return Some(format!("left-to-right single evaluation prescribes {want}, implementation answered {impl_ans}"));
    }
    if bound != usize::MAX {
        let calls = impl_ans.matches("(x").count();
        if calls > bound {
            return Some(format!("{calls} host calls logged, the linear bound is {bound}"));
        }
    }
    None
}

pub fn nontrivial(case: &Case, _impl_ans: &str) -> bool {
    !case.tags.contains(&"tiny")
}
