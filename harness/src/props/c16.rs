//! C16 — timestamps keep the instant and calendar fields they were given.
use super::{PropDef, Tier};
use crate::ctx::CtxSpec;
use crate::gen::str_literal;
use crate::prng::Rng;
use crate::run::{eval_case_from_src, Case};
use crate::sx::hex;
use crate::wire::{dur_from_ns, ts_from_parts};
use cel_interpreter::Value;
use std::collections::HashMap;

pub fn def() -> PropDef {
    PropDef {
        id: "C16",
        generate,
        predicate,
        nontrivial,
        functional: true,
        post: super::no_post,
        rule: "RFC 3339 timestamps from a boundary set (first and last day of every month in leap, non-leap, century and 400-year years; years 1, 1582, 1600, 1900, 1970, 2000, 2038, 9999) x times 00:00:00 and 23:59:59.999999999 x offsets -12:00..+14:00, plus uniformly random instants, nanoseconds and offsets, as text through timestamp() and as host values: the ten accessors against a calendar computed independently by counting days year by year, string(t) against an independently formatted RFC 3339 text, timestamp(string(t)) == t, comparison by instant across offsets, t + d - d == t and (t + d) - t == d for durations up to +-292 years, overflow at chrono's limits as an error, malformed texts rejected; non-trivial = always (every case exercises the calendar); distinct = distinct (context, source)",
        exhaustive_note: "boundary dates x times x offsets are enumerated completely; random instants are a sample",
    }
}

thread_local! {
    static EXPECT: std::cell::RefCell<HashMap<String, String>> = std::cell::RefCell::new(HashMap::new());
}
const FERR: &str = "(res (err function-error) (log))";
fn ok(v: &str) -> String {
    format!("(res (ok {v}) (log))")
}

fn is_leap(y: i64) -> bool {
    (y % 4 == 0 && y % 100 != 0) || y % 400 == 0
}
fn dim(y: i64, m: u32) -> u32 {
    match m {
        2 => {
            if is_leap(y) {
                29
            } else {
                28
            }
        }
        4 | 6 | 9 | 11 => 30,
        _ => 31,
    }
}
/// days since 1970-01-01, by counting whole years and months (independent of the model's and
/// chrono's closed-form algorithms); years 1..=9999
fn days_from_civil_slow(y: i64, m: u32, d: u32) -> i64 {
    let mut days: i64 = 0;
    if y >= 1970 {
        for yy in 1970..y {
            days += if is_leap(yy) { 366 } else { 365 };
        }
    } else {
        for yy in y..1970 {
            days -= if is_leap(yy) { 366 } else { 365 };
        }
    }
    for mm in 1..m {
        days += dim(y, mm) as i64;
    }
    days + d as i64 - 1
}

#[derive(Clone, Copy, Debug)]
struct Civil {
    y: i64,
    mo: u32,
    d: u32,
    h: u32,
    mi: u32,
    s: u32,
    ns: u32,
    off: i64,
}
impl Civil {
    fn utc_ns(&self) -> i128 {
        let days = days_from_civil_slow(self.y, self.mo, self.d) as i128;
        (days * 86400 + (self.h * 3600 + self.mi * 60 + self.s) as i128 - self.off as i128) * 1_000_000_000 + self.ns as i128
    }
    fn text(&self) -> String {
        let frac = if self.ns == 0 {
            String::new()
        } else if self.ns % 1_000_000 == 0 {
            format!(".{:03}", self.ns / 1_000_000)
        } else if self.ns % 1_000 == 0 {
            format!(".{:06}", self.ns / 1_000)
        } else {
            format!(".{:09}", self.ns)
        };
        let sign = if self.off < 0 { '-' } else { '+' };
        let o = self.off.abs();
        format!("{:04}-{:02}-{:02}T{:02}:{:02}:{:02}{frac}{sign}{:02}:{:02}", self.y, self.mo, self.d, self.h, self.mi, self.s, o / 3600, o % 3600 / 60)
    }
    fn day_of_year0(&self) -> i64 {
        (1..self.mo).map(|m| dim(self.y, m) as i64).sum::<i64>() + self.d as i64 - 1
    }
    fn weekday_sun0(&self) -> i64 {
        (days_from_civil_slow(self.y, self.mo, self.d) + 4).rem_euclid(7)
    }
}

fn push(out: &mut Vec<Case>, spec: &CtxSpec, src: &str, want: Option<String>, tags: Vec<&'static str>) {
    if let Some(mut c) = eval_case_from_src(spec, src) {
        c.tags = tags;
        if let Some(w) = want {
            EXPECT.with(|e| e.borrow_mut().insert(c.key(), w));
        }
        out.push(c);
    }
}

fn accessor_expectations(c: &Civil) -> String {
    format!(
        "(list (int {}) (int {}) (int {}) (int {}) (int {}) (int {}) (int {}) (int {}) (int {}) (int {}))",
        c.y, c.mo as i64 - 1, c.day_of_year0(), c.d as i64 - 1, c.d, c.weekday_sun0(), c.h, c.mi, c.s, c.ns / 1_000_000
    )
}
const ACCESSORS: &str = "[t.getFullYear(), t.getMonth(), t.getDayOfYear(), t.getDayOfMonth(), t.getDate(), t.getDayOfWeek(), t.getHours(), t.getMinutes(), t.getSeconds(), t.getMilliseconds()]";

pub fn generate(tier: Tier, rng: &mut Rng) -> Vec<Case> {
    let mut out = vec![];
    let default = CtxSpec::default_ctx();
    let mut civils: Vec<Civil> = vec![];
    let years = [1i64, 4, 100, 400, 1582, 1600, 1900, 1970, 1999, 2000, 2023, 2024, 2038, 2100, 9999];
    let offsets = [0i64, -43200, 50400, 19800, -3600, 3600, 5400 * -1, 45 * 60, -1800, -900, -60, 60, -3660];
    for &y in &years {
        for mo in 1..=12u32 {
            for d in [1, dim(y, mo)] {
                for (h, mi, s, ns) in [(0u32, 0u32, 0u32, 0u32), (23, 59, 59, 999_999_999), (12, 34, 56, 123_000_000)] {
                    let offs: Vec<i64> = if tier == Tier::Quick { vec![offsets[(mo as usize + d as usize) % offsets.len()], 0] } else { offsets.to_vec() };
                    for off in offs {
                        civils.push(Civil { y, mo, d, h, mi, s, ns, off });
                    }
                }
            }
        }
    }
    let n = if tier == Tier::Quick { 800 } else { 100_000 };
    for _ in 0..n {
        let y = if rng.chance(1, 2) { rng.range(1, 9999) } else { rng.range(1900, 2100) };
        let mo = rng.range(1, 12) as u32;
        let d = rng.range(1, dim(y, mo) as i64) as u32;
        let ns = match rng.below(4) {
            0 => 0,
            1 => rng.below(1000) as u32 * 1_000_000,
            2 => rng.below(1_000_000) as u32 * 1000,
            _ => rng.below(1_000_000_000) as u32,
        };
        civils.push(Civil { y, mo, d, h: rng.below(24) as u32, mi: rng.below(60) as u32, s: rng.below(60) as u32, ns, off: rng.range(-14 * 60, 14 * 60) * 60 });
    }
    for c in &civils {
        let text = c.text();
        let utc = c.utc_ns();
        // the local date may leave 0001..9999 only through the offset; keep UTC in chrono's range
        let lit = format!("timestamp({})", str_literal(&text));
        let wire = format!("(ts {utc} {})", c.off);
        push(&mut out, &default, &lit, Some(ok(&wire)), vec!["parse"]);
        push(&mut out, &default, &ACCESSORS.replace("t.", &format!("{lit}.")), Some(ok(&accessor_expectations(c))), vec!["accessors", "text"]);
        if let Some(t) = ts_from_parts(utc, c.off) {
            let mut spec = CtxSpec::default_ctx();
            spec.vars.push(("t".into(), Value::Timestamp(t)));
            push(&mut out, &spec, ACCESSORS, Some(ok(&accessor_expectations(c))), vec!["accessors", "host"]);
            push(&mut out, &spec, "string(t)", Some(ok(&format!("(str {})", hex(text.as_bytes())))), vec!["print"]);
            push(&mut out, &spec, "timestamp(string(t)) == t", Some(ok("(bool 1)")), vec!["roundtrip"]);
            // the same instant at another offset is equal and neither smaller nor greater
            let other = ts_from_parts(utc, if c.off == 0 { 3600 } else { 0 }).unwrap();
            spec.vars.push(("u".into(), Value::Timestamp(other)));
            push(&mut out, &spec, "[t == u, t < u, t > u, t <= u, u - t == duration('0s')]", Some(ok("(list (bool 1) (bool 0) (bool 0) (bool 1) (bool 1))")), vec!["instant-compare"]);
        }
    }
    // instants that differ by less than a millisecond (1 ns ... 999 999 ns), at equal and at
    // different offsets: ordering and equality see every nanosecond
    for k in 0..(if tier == Tier::Quick { 300 } else { 20_000 }) {
        let a = civils[rng.below(civils.len() as u64) as usize];
        let ua = a.utc_ns();
        let delta: i128 = *rng.pick(&[1i128, 2, 999, 1_000, 1_001, 499_999, 999_999, 1_000_000, 1_000_001]) * if k % 2 == 0 { 1 } else { -1 };
        let ub = ua + delta;
        let off_b = if k % 3 == 0 { a.off } else { *rng.pick(&[0i64, 3600, -3600, 19800, 50400, -43200]) };
        let (Some(ta), Some(tb)) = (ts_from_parts(ua, a.off), ts_from_parts(ub, off_b)) else { continue };
        let mut spec = CtxSpec::default_ctx();
        spec.vars.push(("a".into(), Value::Timestamp(ta)));
        spec.vars.push(("b".into(), Value::Timestamp(tb)));
        let bit = |x: bool| format!("(bool {})", x as u8);
        push(&mut out, &spec, "[a < b, a <= b, a == b, a != b, a > b, a >= b]", Some(ok(&format!("(list {} {} {} {} {} {})", bit(ua < ub), bit(ua <= ub), bit(ua == ub), bit(ua != ub), bit(ua > ub), bit(ua >= ub)))), vec!["compare", "sub-millisecond"]);
        push(&mut out, &spec, "[b - a, max(a, b) == (a < b ? b : a), min(a, b) == (a < b ? a : b)]", Some(ok(&format!("(list (dur {}) (bool 1) (bool 1))", ub - ua))), vec!["difference", "sub-millisecond"]);
    }
    // ordering by instant across offsets, arithmetic with durations
    let n = if tier == Tier::Quick { 1500 } else { 150_000 };
    for _ in 0..n {
        let a = civils[rng.below(civils.len() as u64) as usize];
        let b = civils[rng.below(civils.len() as u64) as usize];
        let (ua, ub) = (a.utc_ns(), b.utc_ns());
        let (Some(ta), Some(tb)) = (ts_from_parts(ua, a.off), ts_from_parts(ub, b.off)) else { continue };
        let mut spec = CtxSpec::default_ctx();
        spec.vars.push(("a".into(), Value::Timestamp(ta)));
        spec.vars.push(("b".into(), Value::Timestamp(tb)));
        let bit = |x: bool| format!("(bool {})", x as u8);
        push(&mut out, &spec, "[a < b, a <= b, a == b, a != b, a > b, a >= b]", Some(ok(&format!("(list {} {} {} {} {} {})", bit(ua < ub), bit(ua <= ub), bit(ua == ub), bit(ua != ub), bit(ua > ub), bit(ua >= ub)))), vec!["compare"]);
        push(&mut out, &spec, "a - b", Some(ok(&format!("(dur {})", ua - ub))), vec!["difference"]);
        // durations up to +-292 years
        let dns: i128 = match rng.below(6) {
            0 => 0,
            1 => rng.range(-1_000_000_000, 1_000_000_000) as i128,
            2 => rng.range(-86_400, 86_400) as i128 * 1_000_000_000,
            3 => (rng.next() as i64) as i128,
            _ => *rng.pick(&[i64::MAX as i128, i64::MIN as i128, 1, -1, 31_536_000_000_000_000, 86_400_000_000_000, -86_400_000_000_000, -31_536_000_000_000_000, 7 * 86_400_000_000_000, -7 * 86_400_000_000_000, -366 * 86_400_000_000_000, 43_200_000_000_000, -43_200_000_000_000]),
        };
        spec.vars.push(("d".into(), Value::Duration(dur_from_ns(dns).unwrap())));
        let sum = ua + dns;
        let in_range = |x: i128| x >= -8334601228800_000000000 && x <= 8210266876799_999999999;
        if in_range(sum) {
            push(&mut out, &spec, "[a + d - d == a, (a + d) - a == d, d + a == a + d, a + d]", Some(ok(&format!("(list (bool 1) (bool 1) (bool 1) (ts {sum} {}))", a.off))), vec!["arith"]);
        }
        if in_range(ua - dns) {
            push(&mut out, &spec, "[a - d + d == a, a - d]", Some(ok(&format!("(list (bool 1) (ts {} {}))", ua - dns, a.off))), vec!["arith"]);
        }
    }
    // overflow at the limits of the timestamp type is an error, not a panic
    for (ns, off, dns, op) in [(8210266876799_999999999i128, 0i64, 1i128, "+"), (8210266876799_999999999, 0, -1, "-"), (-8334601228800_000000000, 0, 1, "-"), (-8334601228800_000000000, 0, -1, "+"), (0, 0, (i64::MAX as i128) * 1_000_000, "+"), (0, 0, (i64::MAX as i128) * 1_000_000, "-")] {
        let mut spec = CtxSpec::default_ctx();
        spec.vars.push(("t".into(), Value::Timestamp(ts_from_parts(ns, off).unwrap())));
        spec.vars.push(("d".into(), Value::Duration(dur_from_ns(dns).unwrap())));
        push(&mut out, &spec, &format!("t {op} d"), Some("(res (err overflow) (log))".into()), vec!["overflow"]);
    }
    // malformed / non-RFC-3339 texts are rejected; lenient spellings chrono accepts are listed
    // with the instant they denote
    for (text, want) in [
        ("", None), ("2000-01-01", None), ("2000-01-01T00:00:00", None), ("2000-13-01T00:00:00Z", None), ("2000-02-30T00:00:00Z", None), ("2001-02-29T00:00:00Z", None),
        ("2000-01-01T24:00:00Z", None), ("2000-01-01T00:60:00Z", None), ("2000-01-01T00:00:00+24:00", None), ("2000-01-01T00:00:00+01:60", None), ("2000-1-1T00:00:00Z", None), ("00-01-01T00:00:00Z", None),
        ("2000-01-01T00:00:00Zx", None), (" 2000-01-01T00:00:00Z", None), ("2000-01-01T00:00:00.Z", None), ("2000-01-01T00:00:00+0100", None), ("2000-01-01T00:00:00 +01:00", None), ("10000-01-01T00:00:00Z", None),
        ("2000-01-01t00:00:00z", Some((946684800_000000000i128, 0i64))), ("2000-01-01 00:00:00Z", Some((946684800_000000000, 0))), ("2000-01-01T00:00:00.1234567891Z", Some((946684800_123456789, 0))), ("2000-01-01T00:00:00-00:00", Some((946684800_000000000, 0))),
        ("0000-01-01T00:00:00Z", Some((-62167219200_000000000, 0))),
    ] {
        let w = match want {
            None => FERR.to_string(),
            Some((ns, off)) => ok(&format!("(ts {ns} {off})")),
        };
        push(&mut out, &default, &format!("timestamp({})", str_literal(text)), Some(w), vec!["malformed"]);
    }
    out
}

pub fn predicate(case: &Case, impl_ans: &str) -> Option<String> {
    if impl_ans.contains("(panic)") {
        return Some("panicked".into());
    }
    let want = EXPECT.with(|e| e.borrow().get(&case.key()).cloned())?;
    if want != impl_ans {
        Some(format!("the proleptic Gregorian calendar / instant arithmetic prescribe {want}, the implementation answered {impl_ans}"))
    } else {
        None
    }
}

pub fn nontrivial(_case: &Case, _impl_ans: &str) -> bool {
    true
}
