//! C20 — function calls bind receiver and arguments predictably.
use super::{PropDef, Tier};
use crate::ctx::{host_catalogue, Body, CtxSpec, FnSpec};
use crate::prng::Rng;
use crate::run::{eval_case_from_src, evalpair_case, Case};
use std::collections::HashMap;

pub fn def() -> PropDef {
    PropDef {
        id: "C20",
        generate,
        predicate,
        nontrivial,
        functional: true,
        rule: "every signature and the variadic / receiver built-ins with a failing argument or receiver in every position, both styles; every receiver-style built-in (size, contains, startsWith, endsWith, matches, string, double, int, uint, the ten timestamp accessors) x receivers and arguments of every value kind in both call styles x.f(args) / f(x, args), compared pairwise; every host-function signature of the harness catalogue (arity 0-9, every parameter type, This<T>, This<Option<T>>, Arguments, Identifier, Expression, with and without &FunctionContext) called with 0..arity+2 arguments of matching and mismatching kinds in both styles, with and without overriding a built-in name; the predicate recomputes what the closure must have seen (ordered log) and the outcome from the signature; non-trivial = the call reaches argument extraction (function exists); distinct = distinct case text",
        post: super::no_post,
        exhaustive_note: "the signature catalogue x argument-count range x a 10-kind argument alphabet is sampled (one kind choice per position per case in the quick tier)",
    }
}

const VALS: [(&str, &str, &str); 10] = [
    // (source, kind, wire value)
    ("1", "int", "(int 1)"),
    ("2u", "uint", "(uint 2)"),
    ("1.5", "dbl", "(dbl 3ff8000000000000)"),
    ("'s'", "str", "(str x73)"),
    ("b'x'", "bytes", "(bytes x78)"),
    ("true", "bool", "(bool 1)"),
    ("[1]", "list", "(list (int 1))"),
    ("null", "null", "null"),
    ("duration('1s')", "dur", "(dur 1000000000)"),
    ("timestamp('2000-01-01T00:00:00Z')", "ts", "(ts 946684800000000000 0)"),
];

thread_local! {
    static EXPECT: std::cell::RefCell<HashMap<String, String>> = std::cell::RefCell::new(HashMap::new());
}

/// what the signature prescribes for a call with the given receiver / argument kinds
fn reference(name: &str, sig: &[&str], recv: Option<usize>, args: &[usize], body_fail: bool) -> String {
    let mut seen: Vec<String> = vec![];
    let mut idx = 0usize;
    let mut err: Option<&str> = None;
    let conv = |ty: &str, opt: bool, vi: usize| -> Result<String, &'static str> {
        let (_, kind, wire) = VALS[vi];
        if ty == "value" || ty == kind || (opt && kind == "null") {
            Ok(wire.to_string())
        } else {
            Err("bad-type")
        }
    };
    for tok in sig.iter().filter(|t| **t != "ftx") {
        let r: Result<String, &str> = if let Some(ty) = tok.strip_prefix("this-") {
            match recv {
                Some(r) => conv(ty, false, r),
                None => match args.get(idx) {
                    None => Err("missing-target"),
                    Some(a) => {
                        idx += 1;
                        conv(ty, false, *a)
                    }
                },
            }
        } else if let Some(ty) = tok.strip_prefix("thisopt-") {
            match recv {
                Some(r) => conv(ty, true, r),
                None => match args.get(idx) {
                    None => Err("missing-target"),
                    Some(a) => {
                        idx += 1;
                        conv(ty, true, *a)
                    }
                },
            }
        } else if let Some(ty) = tok.strip_prefix("pos-") {
            match args.get(idx) {
                None => Err("bad-argc"),
                Some(a) => {
                    idx += 1;
                    conv(ty, false, *a)
                }
            }
        } else if *tok == "args" {
            Ok(format!("(list{})", args.iter().map(|a| format!(" {}", VALS[*a].2)).collect::<String>()))
        } else if *tok == "ident" {
            match args.get(idx) {
                None => Err("bad-argc"),
                Some(_) => {
                    idx += 1;
                    Err("bad-type") // the argument literals are never plain identifiers
                }
            }
        } else {
            // expr
            match args.get(idx) {
                None => Err("bad-argc"),
                Some(_) => {
                    idx += 1;
                    Ok("(str x3c657870723e)".to_string())
                }
            }
        };
        match r {
            Ok(v) => seen.push(v),
            Err(e) => {
                err = Some(e);
                break;
            }
        }
    }
    let hexname = crate::sx::hex(name.as_bytes());
    match err {
        Some(e) => format!("(res (err {e}) (log))"),
        None => {
            let log = format!("(log ({hexname}{}))", seen.iter().map(|v| format!(" {v}")).collect::<String>());
            if body_fail {
                format!("(res (err function-error) {log})")
            } else {
                format!("(res (ok (list{})) {log})", seen.iter().map(|v| format!(" {v}")).collect::<String>())
            }
        }
    }
}

pub fn generate(tier: Tier, rng: &mut Rng) -> Vec<Case> {
    let mut out = vec![];
    // 1. built-ins in both styles, receivers and arguments of every kind
    let default = CtxSpec::default_ctx();
    let unary = ["size", "string", "double", "int", "uint", "getFullYear", "getMonth", "getDayOfYear", "getDayOfMonth", "getDate", "getDayOfWeek", "getHours", "getMinutes", "getSeconds", "getMilliseconds"];
    let binary = ["contains", "startsWith", "endsWith", "matches"];
    let mut extra: Vec<&str> = vec!["'hello'", "'42'", "'1.5'", "[1, 2]", "{'a': 1}", "b'ab'", "2.0", "(1 / 0)", "zz"];
    extra.extend(VALS.iter().map(|v| v.0));
    for f in unary {
        for x in &extra {
            if let Some(mut c) = evalpair_case(&default, &format!("{x}.{f}()"), &format!("{f}({x})")) {
                c.tags = vec!["builtin-pair"];
                out.push(c);
            }
        }
    }
    for f in binary {
        for x in &extra {
            for y in ["'l'", "'hel'", "'lo'", "1", "[1]", "'a'", "'^h.*o$'", "'('", "b'a'", "null", "zz", "2u"] {
                if tier == Tier::Quick && rng.below(3) != 0 {
                    continue;
                }
                if let Some(mut c) = evalpair_case(&default, &format!("{x}.{f}({y})"), &format!("{f}({x}, {y})")) {
                    c.tags = vec!["builtin-pair"];
                    out.push(c);
                }
            }
        }
    }
    // surplus arguments: whatever a function does with them, it does the same in both styles
    for f in unary {
        for x in ["'hello'", "[1, 2]", "1", "timestamp('2000-01-01T00:00:00Z')", "zz"] {
            for extra in ["7", "'s', 2", "zz", "(1 / 0)"] {
                if let Some(mut c) = evalpair_case(&default, &format!("{x}.{f}({extra})"), &format!("{f}({x}, {extra})")) {
                    c.tags = vec!["builtin-pair", "surplus-arguments"];
                    out.push(c);
                }
            }
        }
    }
    for f in binary {
        for (x, y) in [("'hello'", "'l'"), ("[1, 2]", "1"), ("'a'", "'^a$'")] {
            for extra in ["7", "zz"] {
                if let Some(mut c) = evalpair_case(&default, &format!("{x}.{f}({y}, {extra})"), &format!("{f}({x}, {y}, {extra})")) {
                    c.tags = vec!["builtin-pair", "surplus-arguments"];
                    out.push(c);
                }
            }
        }
    }
    // non-receiver built-ins called receiver style (bytes, duration, timestamp, max, min)
    for src in ["'a'.bytes()", "bytes('a')", "'1s'.duration()", "duration('1s')", "'x'.timestamp()", "[1, 2].max()", "max([1, 2])", "[3].min(1, 2)", "min(1, 2)", "1.max(2)"] {
        if let Some(mut c) = eval_case_from_src(&default, src) {
            c.tags = vec!["builtin-style"];
            out.push(c);
        }
    }
    // 2. host functions of every catalogue signature
    let reps = match tier {
        Tier::Quick => 3,
        Tier::Thorough => 60,
    };
    for sig in host_catalogue() {
        let arity = sig.iter().filter(|t| **t != "ftx" && **t != "args").count();
        for override_builtin in [false, true] {
            for body_fail in [false, true] {
                if body_fail && override_builtin {
                    continue;
                }
                let name = if override_builtin { "size" } else { "hf" };
                let mut spec = CtxSpec::default_ctx();
                spec.fns.push((name.to_string(), FnSpec::Host(sig.iter().map(|s| s.to_string()).collect(), if body_fail { Body::Fail } else { Body::Echo })));
                for n_args in 0..=(arity + 2) {
                    for _ in 0..reps {
                        // mostly matching kinds, sometimes not
                        let wanted: Vec<&str> = sig.iter().filter(|t| **t != "ftx" && **t != "args" && **t != "ident" && **t != "expr").map(|t| t.split('-').nth(1).unwrap_or("value")).collect();
                        let pick = |rng: &mut Rng, pos: usize| -> usize {
                            let want = wanted.get(pos).copied().unwrap_or("value");
                            if rng.chance(2, 3) {
                                if let Some(i) = VALS.iter().position(|v| v.1 == want) {
                                    return i;
                                }
                            }
                            rng.below(VALS.len() as u64) as usize
                        };
                        let args: Vec<usize> = (0..n_args).map(|p| pick(rng, p)).collect();
                        let arg_src: Vec<&str> = args.iter().map(|a| VALS[*a].0).collect();
                        // global style
                        let src = format!("{name}({})", arg_src.join(", "));
                        if let Some(mut c) = eval_case_from_src(&spec, &src) {
                            c.tags = vec!["host-global"];
                            EXPECT.with(|e| e.borrow_mut().insert(c.key(), reference(name, &sig, None, &args, body_fail)));
                            out.push(c);
                        }
                        // receiver style: the first value becomes the receiver
                        if let Some((r, rest)) = args.split_first() {
                            let src = format!("{}.{name}({})", VALS[*r].0, rest.iter().map(|a| VALS[*a].0).collect::<Vec<_>>().join(", "));
                            if let Some(mut c) = eval_case_from_src(&spec, &src) {
                                c.tags = vec!["host-receiver"];
                                EXPECT.with(|e| e.borrow_mut().insert(c.key(), reference(name, &sig, Some(*r), rest, body_fail)));
                                out.push(c);
                            }
                        }
                    }
                }
            }
        }
    }
    // an argument (or the receiver) whose evaluation fails, in every position, for every
    // signature and both call styles: the call must fail with that error — never run on the
    // remaining arguments (the model decides which error when several are reached)
    for sig in host_catalogue() {
        let arity = sig.iter().filter(|t| **t != "ftx" && **t != "args").count();
        let mut spec = CtxSpec::default_ctx();
        spec.fns.push(("hf".to_string(), FnSpec::Host(sig.iter().map(|s| s.to_string()).collect(), Body::Echo)));
        for n_args in 1..=(arity + 1).max(2) {
            for err_pos in 0..n_args {
                for err in ["(1 / 0)", "zz", "(9223372036854775807 + 1)"] {
                    let args: Vec<String> = (0..n_args).map(|i| if i == err_pos { err.to_string() } else { (i + 1).to_string() }).collect();
                    for src in [format!("hf({})", args.join(", ")), format!("{}.hf({})", args[0], args[1..].join(", "))] {
                        if let Some(mut c) = eval_case_from_src(&spec, &src) {
                            c.tags = vec!["host-failing-argument"];
                            out.push(c);
                        }
                    }
                }
            }
        }
    }
    for f in ["max", "min", "size", "string", "contains", "startsWith"] {
        for args in [vec!["(1 / 0)"], vec!["1", "(1 / 0)"], vec!["(1 / 0)", "1"], vec!["1", "zz", "3"], vec!["[1]", "(2 % 0)"]] {
            for src in [format!("{f}({})", args.join(", ")), format!("{}.{f}({})", args[0], args[1..].join(", "))] {
                if let Some(mut c) = eval_case_from_src(&default, &src) {
                    c.tags = vec!["builtin-failing-argument"];
                    out.push(c);
                }
            }
        }
    }
    // calls inside macro bodies: arguments and receiver are evaluated in the scope of the body (the
    // iteration variable, shadowing a root variable of the same name), both styles; the model decides
    {
        let mut spec = CtxSpec::default_ctx();
        spec.vars.push(("n".into(), cel_interpreter::Value::Int(100)));
        spec.fns.push(("twice".into(), FnSpec::Host(vec!["pos-value".into()], Body::First)));
        spec.fns.push(("pair".into(), FnSpec::Host(vec!["this-value".into(), "pos-value".into()], Body::Echo)));
        spec.fns.push(("all3".into(), FnSpec::Host(vec!["args".into()], Body::Echo)));
        for src in [
            "[1, 2, 3].map(x, string(x))", "[1, 2, 3].map(x, x.string())", "[1, 2, 3].map(n, twice(n))", "[1, 2, 3].map(n, n.pair(n))", "[1, 2, 3].map(n, pair(n, n + 1))",
            "[1, 2].map(x, [10, 20].map(y, pair(x, y)))", "[1, 2].filter(n, size([n]) == 1)", "[[1], [1, 2]].map(l, l.size() + size(l))", "[1, 2].all(x, all3(x, n, x + n) != null)",
            "[1, 2].exists(x, max(x, n) == n)", "[3, 4].map(n, [n].contains(n))", "[1, 2].map(x, twice(twice(x)))", "[1].map(x, x.pair(x.pair(n)))",
        ] {
            if let Some(mut c) = eval_case_from_src(&spec, src) {
                c.tags = vec!["call-in-macro-body"];
                out.push(c);
            }
        }
    }
    // identifier extractor with real identifiers
    let mut spec = CtxSpec::default_ctx();
    spec.fns.push(("hid".into(), FnSpec::Host(vec!["ident".into(), "pos-value".into()], Body::Echo)));
    spec.fns.push(("hmac".into(), FnSpec::Host(vec!["this-value".into(), "ident".into(), "expr".into()], Body::Echo)));
    // the name handed to an Identifier / Expression parameter is passed as written, whether or not
    // a variable of that name is bound (in the root, in an inner scope, or by an enclosing macro)
    spec.vars.push(("n".into(), cel_interpreter::Value::Int(1)));
    spec.vars.push(("s".into(), cel_interpreter::Value::String(std::sync::Arc::new("txt".into()))));
    spec.vars.push(("l".into(), cel_interpreter::Value::List(std::sync::Arc::new(vec![cel_interpreter::Value::Int(1)]))));
    spec.scopes.push(vec![("inner".to_string(), cel_interpreter::Value::Bool(true))]);
    spec.fns.push(("hexpr".into(), FnSpec::Host(vec!["expr".into(), "pos-value".into()], Body::Echo)));
    for src in ["hid(abc, 1)", "hid(abc)", "hid()", "hid(a.b, 1)", "hid(1, 1)", "[1].hmac(x, x + 1)", "hmac([1], x, x + 1)", "[1].hmac(x)", "[1].hmac(1, 2)", "hmac()",
        "hid(n, 1)", "hid(n, n)", "hid(s, 2)", "hid(l, 3)", "hid(inner, 4)", "[1].hmac(n, n + 1)", "hmac(l, n, n)", "[5, 6].map(e, hid(e, e))", "[5].map(n, hid(n, n))", "hexpr(n, n)", "hexpr(s, 1)", "hexpr(n + 1, n + 1)", "[7].map(e, hexpr(e, e))", "l.hmac(s, inner)"] {
        if let Some(mut c) = eval_case_from_src(&spec, src) {
            c.tags = vec!["host-ident"];
            out.push(c);
        }
    }
    out
}

pub fn predicate(case: &Case, impl_ans: &str) -> Option<String> {
    if impl_ans.contains("(panic)") {
        return Some("panicked".into());
    }
    if case.kind == "evalpair" {
        // both call styles must produce the same result
        let p = crate::sx::parse_all(impl_ans);
        let l = p.first()?.as_list()?;
        if l.len() == 3 && l[1] != l[2] {
            return Some(format!("receiver style and global style differ: {} vs {}", l[1].to_text(), l[2].to_text()));
        }
        return None;
    }
    let want = EXPECT.with(|e| e.borrow().get(&case.key()).cloned())?;
    if want != impl_ans {
        Some(format!("the signature prescribes {want}, implementation answered {impl_ans}"))
    } else {
        None
    }
}

pub fn nontrivial(_case: &Case, impl_ans: &str) -> bool {
    !impl_ans.contains("undeclared")
}
