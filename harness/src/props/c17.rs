//! C17 — host data converts to CEL values without loss of structure.
use super::{PropDef, Tier};
use crate::anyser::Any;
use crate::prng::Rng;
use crate::run::Case;
use crate::sx::parse_all;

pub fn def() -> PropDef {
    PropDef {
        id: "C17",
        generate,
        predicate,
        nontrivial,
        functional: true,
        post: super::no_post,
        rule: "std network address types (whose Serialize impl consults is_human_readable) alone, in sequences, maps, options and a struct: to_value(x).json() must equal serde_json::to_value(x) (predicate only); values of a recursive 'any serde type' whose Serialize impl calls exactly the Serializer method each constructor names (every integer width at its extremes incl. i128/u128, f32/f64 incl. NaN/inf, bool, char, strings, bytes, options, unit, unit structs, all four variant kinds, newtype/tuple structs, sequences, tuples, maps with supported and unsupported key kinds, structs, the Duration/Timestamp wrappers), depth <= 5, plus JSON documents; observed: to_value's result, its JSON export, and serde_json::to_value of the same data; predicate on the implementation: no panic, and for JSON-representable data with text-distinct keys the two JSON documents are equal; non-trivial = the data has at least one compound constructor; distinct = distinct data",
        exhaustive_note: "every Serializer method is exercised at least once (fixed catalogue); nesting is sampled",
    }
}

// type names a host may well use itself, including the names of this crate's own types
const NAMES: [&str; 10] = ["S", "T", "Point", "E", "Duration", "Timestamp", "Value", "Map", "Key", "Option"];
const FIELDS: [&str; 5] = ["a", "b", "x", "y", "name"];

fn scalar(rng: &mut Rng) -> Any {
    match rng.below(22) {
        0 => Any::Bool(rng.chance(1, 2)),
        1 => Any::I8(*rng.pick(&[0, 1, -1, i8::MIN, i8::MAX])),
        2 => Any::I16(*rng.pick(&[0, -1, i16::MIN, i16::MAX])),
        3 => Any::I32(*rng.pick(&[0, 7, i32::MIN, i32::MAX])),
        4 => Any::I64(*rng.pick(&[0, 1, -1, i64::MIN, i64::MAX, 1 << 53])),
        5 => Any::U8(*rng.pick(&[0, 1, u8::MAX])),
        6 => Any::U16(*rng.pick(&[0, u16::MAX])),
        7 => Any::U32(*rng.pick(&[0, 5, u32::MAX])),
        8 => Any::U64(*rng.pick(&[0, 1, u64::MAX, i64::MAX as u64, i64::MAX as u64 + 1])),
        9 => Any::F32(*rng.pick(&[0.0f32, -0.0, 1.5, 0.1, f32::MAX, f32::MIN_POSITIVE, f32::NAN, f32::INFINITY])),
        10 => Any::F64(*rng.pick(&[0.0f64, -0.0, 1.5, 0.1, 1e300, 5e-324, f64::NAN, f64::NEG_INFINITY, 9007199254740993.0])),
        11 => Any::Char(*rng.pick(&['a', 'é', '🐱', '\0', '"'])),
        12 | 13 => Any::Str(rng.pick(&["", "a", "b", "héllo", "1", "true", "x y"]).to_string()),
        14 => Any::Bytes(rng.pick(&[vec![], vec![0u8], vec![1, 2, 3], vec![255, 254, 253, 252]]).clone()),
        15 => Any::None,
        16 => Any::Unit,
        17 => Any::UnitStruct(*rng.pick(&NAMES[..])),
        18 => Any::UnitVariant(*rng.pick(&NAMES[..]), *rng.pick(&["A", "B", "Red"][..])),
        19 => {
            if rng.chance(1, 6) {
                Any::I128(*rng.pick(&[0i128, i128::MAX, -1]))
            } else {
                Any::I64(rng.range(-5, 5))
            }
        }
        20 => {
            if rng.chance(1, 6) {
                Any::U128(*rng.pick(&[0u128, u128::MAX]))
            } else {
                Any::U64(rng.below(5))
            }
        }
        _ => {
            if rng.chance(1, 2) {
                let ns: i128 = *rng.pick(&[0i128, 1, -1, 1_500_000_000, -1_500_000_000, i64::MAX as i128, i64::MIN as i128, (i64::MAX as i128) * 1_000_000, -(i64::MAX as i128) * 1_000_000 + 1, (1i128 << 63) + 123_456_789]);
                Any::CelDuration(crate::wire::dur_from_ns(ns).unwrap())
            } else {
                let (ns, off) = *rng.pick(&[(0i128, 0i64), (951782400_123456789, 3600), (-62135596800_000000000, 0), (253402300799_999999999, -18000)]);
                Any::CelTimestamp(crate::wire::ts_from_parts(ns, off).unwrap())
            }
        }
    }
}

fn key(rng: &mut Rng) -> Any {
    match rng.below(12) {
        // (string keys that collide as text with int / bool keys make the exported document depend
        // on the map's iteration order; that corner belongs to C18's generator)
        0 | 1 | 2 => Any::Str(rng.pick(&["a", "b", "k", "kk", "z"]).to_string()),
        3 => Any::I64(rng.range(-2, -1)), // signed and unsigned keys never render to the same text
        4 => Any::U64(rng.below(3)),
        5 => Any::Bool(rng.chance(1, 2)),
        6 => Any::Char('c'),
        7 => Any::UnitVariant("E", "V"),
        8 => Any::Some(Box::new(Any::Str("s".into()))),
        9 => Any::NewtypeStruct("N", Box::new(Any::I32(-3))),
        // unsupported key kinds
        10 => match rng.below(8) {
            0 => Any::F64(1.5),
            1 => Any::Bytes(vec![1]),
            2 => Any::None,
            3 => Any::Unit,
            4 => Any::Seq(vec![]),
            5 => Any::Struct("S", vec![]),
            6 => Any::NewtypeVariant("E", "V", Box::new(Any::I8(1))),
            _ => Any::UnitStruct("U"),
        },
        _ => Any::I8(-7),
    }
}

pub fn any(rng: &mut Rng, depth: u32) -> Any {
    if depth == 0 || rng.chance(2, 5) {
        return scalar(rng);
    }
    let d = depth - 1;
    let n = rng.below(4) as usize;
    match rng.below(11) {
        0 => Any::Some(Box::new(any(rng, d))),
        1 => Any::NewtypeStruct(*rng.pick(&NAMES[..]), Box::new(any(rng, d))),
        2 => Any::NewtypeVariant(*rng.pick(&NAMES[..]), *rng.pick(&["V", "W"][..]), Box::new(any(rng, d))),
        3 => Any::Seq((0..n).map(|_| any(rng, d)).collect()),
        4 => Any::Tuple((0..n).map(|_| any(rng, d)).collect()),
        5 => Any::TupleStruct(*rng.pick(&NAMES[..]), (0..n).map(|_| any(rng, d)).collect()),
        6 => Any::TupleVariant(*rng.pick(&NAMES[..]), *rng.pick(&["V", "W"][..]), (0..n).map(|_| any(rng, d)).collect()),
        7 | 8 => Any::Map((0..n).map(|_| (key(rng), any(rng, d))).collect()),
        9 => Any::Struct(*rng.pick(&NAMES[..]), (0..n).map(|i| (FIELDS[(i + rng.below(2) as usize) % 5], any(rng, d))).collect()),
        _ => Any::StructVariant(*rng.pick(&NAMES[..]), *rng.pick(&["V", "W"][..]), (0..n).map(|i| (FIELDS[i % 5], any(rng, d))).collect()),
    }
}

fn json_doc(rng: &mut Rng, depth: u32) -> Any {
    if depth == 0 || rng.chance(1, 3) {
        return match rng.below(7) {
            0 => Any::Unit,
            1 => Any::Bool(rng.chance(1, 2)),
            2 => Any::I64(*rng.pick(&[-1, -5, i64::MIN])),
            3 => Any::U64(*rng.pick(&[0, 7, u64::MAX])),
            4 => Any::F64(*rng.pick(&[0.5, -2.25, 1e100, 3.0])),
            _ => Any::Str(rng.pick(&["", "a", "é", "key"]).to_string()),
        };
    }
    let n = rng.below(4) as usize;
    if rng.chance(1, 2) {
        Any::Seq((0..n).map(|_| json_doc(rng, depth - 1)).collect())
    } else {
        let mut keys = vec!["a", "b", "c", "d"];
        Any::Map((0..n).map(|_| (Any::Str(keys.remove(rng.below(keys.len() as u64) as usize).to_string()), json_doc(rng, depth - 1))).collect())
    }
}

pub fn generate(tier: Tier, rng: &mut Rng) -> Vec<Case> {
    let mut out = vec![];
    let mut push = |a: &Any, tag: &'static str| {
        let sx = a.to_sx().to_text();
        let mut c = Case::new("serde", sx.clone());
        c.tags = vec![tag, if sx.matches('(').count() > 2 { "compound" } else { "scalar" }];
        out.push(c);
    };
    // a burst of conversions that fail deep inside (a tuple-keyed map three levels down), followed
    // by ordinary ones: a failed conversion must leave nothing behind that makes later ones fail
    // (cases run in contiguous chunks per worker thread, so the burst stays on one thread)
    for i in 0..260u32 {
        let bad_map = Any::Map(vec![(Any::Tuple(vec![Any::I32(i as i32), Any::I32(1)]), Any::U8(1))]);
        push(&Any::Seq(vec![Any::Struct("S", vec![("inner", Any::Seq(vec![bad_map]))])]), "failing-burst");
    }
    for i in 0..40i64 {
        push(&Any::Seq(vec![Any::I64(i), Any::Struct("S", vec![("a", Any::Map(vec![(Any::Str("k".into()), Any::Seq(vec![Any::Bool(true)]))]))])]), "after-burst");
    }
    // every constructor at least once
    let mut r2 = rng.fork();
    for _ in 0..400 {
        push(&scalar(&mut r2), "catalogue");
    }
    let n = match tier {
        Tier::Quick => 6000,
        Tier::Thorough => 500_000,
    };
    for _ in 0..n {
        let d = 1 + rng.below(5) as u32;
        push(&any(rng, d), "any");
    }
    for _ in 0..n / 3 {
        let d = 1 + rng.below(4) as u32;
        push(&json_doc(rng, d), "json-doc");
    }
    // host types whose Serialize impl depends on `is_human_readable()` (predicate only: the data
    // model of the Lean side has no such notion)
    for i in 0..16 {
        let mut c = Case::new("serdehr", i.to_string());
        c.tags = vec!["human-readable", "compound", "no-model"];
        out.push(c);
    }
    out
}

/// is the data JSON-native with text-distinct keys (the domain of the commutation law)?
fn json_native(x: &crate::sx::Sx) -> bool {
    match x {
        crate::sx::Sx::Atom(a) => a != "wide",
        crate::sx::Sx::List(l) => {
            let tag = l.first().and_then(|a| a.as_atom()).unwrap_or("");
            match tag {
                "bytes" | "celdur" | "celts" => false,
                "map" => {
                    let mut seen = std::collections::HashSet::new();
                    for e in &l[1..] {
                        let Some(kv) = e.as_list() else { return false };
                        let k = &kv[0];
                        // key text: only plain string / char / int / uint / bool / unit-variant keys
                        let ktxt = match k.as_list().and_then(|kl| kl.first()).and_then(|a| a.as_atom()) {
                            Some("str") | Some("char") => k.as_list().unwrap().get(1).map(|a| String::from_utf8_lossy(&crate::sx::unhex(a.as_atom().unwrap_or("x"))).into_owned()),
                            Some("int") | Some("uint") => k.as_list().unwrap().get(1).and_then(|a| a.as_atom()).map(String::from),
                            Some("bool") => k.as_list().unwrap().get(1).and_then(|a| a.as_atom()).map(|b| if b == "1" { "true".to_string() } else { "false".to_string() }),
                            Some("unitvariant") => k.as_list().unwrap().get(2).map(|a| String::from_utf8_lossy(&crate::sx::unhex(a.as_atom().unwrap_or("x"))).into_owned()),
                            _ => None,
                        };
                        match ktxt {
                            Some(t) => {
                                if !seen.insert(t) {
                                    return false;
                                }
                            }
                            None => return false,
                        }
                        if !json_native(&kv[1]) {
                            return false;
                        }
                    }
                    true
                }
                "struct" | "svariant" => {
                    let from = if tag == "struct" { 2 } else { 3 };
                    let mut seen = std::collections::HashSet::new();
                    l[from..].iter().all(|e| e.as_list().map_or(false, |p| seen.insert(p[0].to_text()) && json_native(&p[1])))
                }
                _ => l[1..].iter().all(|k| match k {
                    crate::sx::Sx::Atom(_) => true,
                    other => json_native(other),
                }),
            }
        }
    }
}

pub fn predicate(case: &Case, impl_ans: &str) -> Option<String> {
    if impl_ans.contains("(panic)") {
        return Some("conversion panicked".into());
    }
    if case.kind == "serdehr" {
        return if impl_ans == "(serdehr same)" { None } else { Some(format!("for a host type that serialises differently for human-readable formats, to_value(x).json() and serde_json::to_value(x) differ: {impl_ans}")) };
    }
    let p = parse_all(impl_ans);
    let l = p.first()?.as_list()?;
    if l.len() != 4 {
        return None;
    }
    let data = parse_all(&case.payload);
    if json_native(data.first()?) {
        // converting and then exporting to JSON equals serialising directly
        if l[1].tag() == Some("ok") && l[2] != l[3] {
            return Some(format!("to_value(x).json() = {} but serde_json::to_value(x) = {}", l[2].to_text(), l[3].to_text()));
        }
        if l[1].tag() != Some("ok") && l[3].tag() == Some("ok") {
            return Some(format!("JSON-representable data was rejected by to_value: {}", l[1].to_text()));
        }
    }
    None
}

pub fn nontrivial(case: &Case, _impl_ans: &str) -> bool {
    case.tags.contains(&"compound")
}
