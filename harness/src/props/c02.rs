//! C02 — executing any program against any context returns a value or an error, never a panic.
use super::{PropDef, Tier};
use crate::ctx::{Body, CtxSpec, FnSpec};
use crate::gen::*;
use crate::prng::Rng;
use crate::run::{eval_case_from_src, Case};
use crate::wire::value_to_sx;
use cel_interpreter::Value;
use std::sync::Arc;

pub fn def() -> PropDef {
    PropDef {
        id: "C02",
        generate,
        predicate,
        nontrivial,
        functional: false,
        rule: "grammar-generated programs, well-typed and ill-typed (30% of sub-expressions ignore the requested type), depth <= 8, over every operator, macro, built-in and literal form, against contexts with i64/u64 extremes, NaN/inf/-0.0, empty and non-ASCII strings and bytes, nested lists and maps, chrono-limit durations and timestamps, function values and host functions of arity 0-9; conversion texts either side of every representation limit (durations in every unit, timestamps at the year limits incl. leap-second notation - the latter checked for panics only, the model has no leap seconds -, int/uint/double texts); max / min / comparison / membership / arithmetic over NaN, infinities and extremes in every argument position, every list and string length 0-4 indexed at every position around its end by int, uint and ill-typed indices; plus all ordered pairs of a ~70-value boundary set under each operator implementation called directly; non-trivial = contains an operator, call or macro (programs) / always (direct pairs); distinct = distinct case text",
        post: super::no_post,
        exhaustive_note: "boundary pairs under the direct operators are enumerated completely; programs are a random sample",
    }
}

pub fn boundary_values(rng: &mut Rng) -> Vec<Value> {
    let mut v: Vec<Value> = vec![];
    for i in [0i64, 1, -1, 2, i64::MAX, i64::MIN, i64::MIN + 1, 9007199254740993, 3037000500] {
        v.push(Value::Int(i));
    }
    for u in [0u64, 1, 2, u64::MAX, 9223372036854775808, 4294967296] {
        v.push(Value::UInt(u));
    }
    for b in [0x0u64, 0x8000000000000000, 0x3ff0000000000000, 0xbff8000000000000, 0x7ff0000000000000, 0xfff0000000000000, 0x7ff8000000000000, 0x43e0000000000000, 0x43f0000000000000, 0x7fefffffffffffff, 0x1] {
        v.push(Value::Float(f64::from_bits(b)));
    }
    for s in ["", "a", "ab", "é", "🐱"] {
        v.push(Value::String(Arc::new(s.to_string())));
    }
    for b in [vec![], vec![0u8], vec![0xff, 0xfe], b"ab".to_vec()] {
        v.push(Value::Bytes(Arc::new(b)));
    }
    v.push(Value::Bool(true));
    v.push(Value::Bool(false));
    v.push(Value::Null);
    v.push(Value::List(Arc::new(vec![])));
    v.push(Value::List(Arc::new(vec![Value::Int(1), Value::Null])));
    v.push(gen_value(rng, &Ty::Map(Box::new(Ty::Str), Box::new(Ty::Int)), 2));
    v.push(gen_value(rng, &Ty::Map(Box::new(Ty::Int), Box::new(Ty::Str)), 0));
    for ns in [0i128, 1, -1, i64::MAX as i128, i64::MIN as i128, (i64::MAX as i128) * 1_000_000, -(i64::MAX as i128) * 1_000_000, 1_000_000_000] {
        if let Some(d) = crate::wire::dur_from_ns(ns) {
            v.push(Value::Duration(d));
        }
    }
    for (ns, off) in [(0i128, 0i64), (951782400_000000000, 3600), (8210266876799_999999999, 0), (-8334601228800_000000000, 0), (253402300799_999999999, -3600)] {
        if let Some(t) = crate::wire::ts_from_parts(ns, off) {
            v.push(Value::Timestamp(t));
        }
    }
    v.push(Value::Function(Arc::new("size".into()), None));
    v.push(Value::Function(Arc::new("f".into()), Some(Box::new(Value::Int(1)))));
    v
}

fn host_ctx(rng: &mut Rng, spec: &mut CtxSpec) -> Vec<(String, usize)> {
    // host functions of every arity 0..9 plus a failing one and a few typed ones
    let mut fns = vec![];
    for k in 0..=9usize {
        if rng.chance(1, 2) {
            let name = format!("h{k}");
            spec.fns.push((name.clone(), FnSpec::Host(vec!["pos-value".to_string(); k], Body::Echo)));
            fns.push((name, k));
        }
    }
    spec.fns.push(("hfail".into(), FnSpec::Host(vec!["pos-value".into()], Body::Fail)));
    fns.push(("hfail".into(), 1));
    spec.fns.push(("hargs".into(), FnSpec::Host(vec!["args".into()], Body::Echo)));
    spec.fns.push(("hthis".into(), FnSpec::Host(vec!["this-value".into(), "pos-value".into()], Body::Echo)));
    spec.fns.push(("hint".into(), FnSpec::Host(vec!["pos-int".into(), "pos-int".into()], Body::Echo)));
    spec.fns.push(("hid".into(), FnSpec::Host(vec!["ident".into()], Body::Echo)));
    fns
}

pub fn program(rng: &mut Rng, max_depth: u32) -> Option<Case> {
    let (mut spec, mut env) = gen_context(rng, true);
    // function values and a few values of odd kinds under ordinary names
    spec.vars.push(("f0".into(), Value::Function(Arc::new("size".into()), None)));
    spec.vars.push(("f1".into(), Value::Function(Arc::new("nope".into()), Some(Box::new(Value::Int(3))))));
    env.push(("f0".into(), Ty::Null));
    let fns = host_ctx(rng, &mut spec);
    let ty = gen_ty(rng, 2);
    let depth = 1 + rng.below(max_depth as u64) as u32;
    let mut sub = rng.fork();
    let mut g = ExprGen::new(&mut sub, env);
    g.ill_typed_pct = 30;
    let mut src = g.expr(&ty, depth.min(6));
    // wrap in host calls / odd call shapes to reach the extractor paths
    let mut r2 = rng.fork();
    for _ in 0..r2.below(3) {
        let (name, k) = r2.pick(&fns).clone();
        let n_args = if r2.chance(3, 4) { k } else { r2.below(k as u64 + 3) as usize };
        let mut args = vec![src.clone()];
        while args.len() < n_args {
            args.push(r2.pick(&["1", "i0", "s0", "[1, 2]", "dur0", "ts0", "f0", "zz", "1 / 0", "null"]).to_string());
        }
        args.truncate(n_args);
        src = match r2.below(6) {
            0 => format!("{src}.{name}({})", args[..args.len().min(n_args)].iter().skip(1).cloned().collect::<Vec<_>>().join(", ")),
            1 => format!("hargs({})", args.join(", ")),
            2 => format!("{src}.hthis({})", r2.pick(&["1", "s0", "zz"])),
            3 => format!("hint({src}, {})", r2.pick(&["1", "i0", "1u", "s0"])),
            4 => format!("hid({})", r2.pick(&["x", "i0", "1", ""])),
            _ => format!("{name}({})", args.join(", ")),
        };
    }
    if src.len() > 1500 {
        return None;
    }
    let mut c = eval_case_from_src(&spec, &src)?;
    c.tags = vec!["program"];
    Some(c)
}

pub fn generate(tier: Tier, rng: &mut Rng) -> Vec<Case> {
    let mut out = vec![];
    let vals = boundary_values(rng);
    for op in ["add", "sub", "mul", "div", "rem", "eq", "cmp"] {
        for a in &vals {
            for b in &vals {
                let mut c = Case::new("binop", format!("{op} {} {}", value_to_sx(a).to_text(), value_to_sx(b).to_text()));
                c.tags = vec!["direct-pair"];
                out.push(c);
            }
        }
    }
    let n = match tier {
        Tier::Quick => 12_000,
        Tier::Thorough => 600_000,
    };
    let base = out.len();
    while out.len() < base + n {
        if let Some(c) = program(rng, 8) {
            out.push(c);
        }
    }
    // literal forms and node kinds that the typed grammar does not produce
    for src in [
        "T{}", "a.b.T{x: 1}", ".T{}", "'a'.map(x, x)", "1.all(x, true)", "{}.map(k, k)", "null.filter(x, x)",
        "-(-9223372036854775808)", "'abc'[9223372036854775807]", "'abc'[-1]", "b'a'.contains(b'')", "b''.contains(b'')",
        "hid()", "size()", "''.size(1)", "[].size", "f0", "f0.size()", "x.y.z", "has(i0.a)", "has(msi.a.b)",
        "[1, 2, 3][1u]", "{1: 2}[1.0]", "{1.0: 2}", "{[1]: 2}", "{null: 1}", "1 in 1", "'a' in ['a']", "duration('1h') + timestamp('2000-01-01T00:00:00Z')",
        "dur0 + dur1", "ts0 + dur0", "ts0 - dur1", "ts0 - ts1", "dur0 - dur1", "string(dur0)", "string(ts0)", "ts0.getDayOfYear()", "ts1.getFullYear()",
        "max()", "min([])", "max([1, 'a'])", "max(1, 2u, 3.0)", "min(dur0, dur1)", "[1].min()", "max(f0, f0)",
        "1 ? 2 : 3", "'' ? 2 : 3", "f0 ? 1 : 2", "!f0", "-f0", "-1u", "-'a'", "f0 + f0", "@not_strictly_false",
        "int('9223372036854775808')", "uint('-1')", "int(1e19)", "uint(-0.5)", "uint(-0.0)", "int(d0)", "double('1e400')", "string(1.0)", "string(b'\\xff\\xfe')",
        "timestamp(9223372036854775807)", "timestamp(-9223372036854775807 - 1)", "timestamp(i1)", "i1.timestamp()", "[0, i1].map(x, timestamp(x))", "duration(9223372036854775807)", "timestamp(timestamp('2000-01-01T00:00:00Z'))", "timestamp(1.0e300)", "duration(18446744073709551615u)",
        "string(b'caf\\xc3')", "string(b'ab\\xe2\\x82')", "b'\\xf0\\x9f\\x98'.string()", "[b'ab\\xe2\\x82'].map(x, string(x))", "string(b'a\\xffb')", "string(b'\\xc3')",
        "matches('a', '(')", "'a'.matches('[')", "timestamp('x')", "duration('x')", "timestamp('9999-12-31T23:59:59Z') + duration('1s')",
    ] {
        let (mut spec, _) = gen_context(rng, true);
        spec.vars.push(("f0".into(), Value::Function(Arc::new("size".into()), None)));
        host_ctx(rng, &mut spec);
        if let Some(mut c) = eval_case_from_src(&spec, src) {
            c.tags = vec!["special"];
            out.push(c);
        }
    }
    // functions and operators over collections that hold NaN / infinities / extremes next to
    // ordinary numbers (folds and comparisons that assume a total order are one NaN away from
    // an `expect`)
    {
        let mut spec = CtxSpec::default_ctx();
        spec.vars.push(("dnan".into(), Value::Float(f64::NAN)));
        spec.vars.push(("dinf".into(), Value::Float(f64::INFINITY)));
        spec.vars.push(("imin".into(), Value::Int(i64::MIN)));
        spec.vars.push(("umax".into(), Value::UInt(u64::MAX)));
        spec.vars.push(("nums".into(), Value::List(Arc::new(vec![Value::Int(i64::MIN), Value::Float(f64::NAN), Value::UInt(u64::MAX), Value::Float(-0.0)]))));
        spec.vars.push(("mixed".into(), Value::List(Arc::new(vec![Value::Int(1), Value::String(Arc::new("a".into())), Value::Null, Value::Float(f64::NAN)]))));
        host_ctx(rng, &mut spec);
        let atoms = ["dnan", "dinf", "-dinf", "imin", "umax", "1", "1.5", "2u", "0.0", "-0.0", "nums", "mixed", "[dnan]", "[1, dnan]", "[dnan, 1]", "'a'", "null", "[]"];
        for f in ["max", "min"] {
            for a in &atoms {
                for src in [format!("{f}({a})"), format!("{a}.{f}()"), format!("[{a}, 1].map(x, {f}(x, 0))")] {
                    if let Some(mut c) = eval_case_from_src(&spec, &src) {
                        c.tags = vec!["special", "nan-fold"];
                        out.push(c);
                    }
                }
                for b in &atoms {
                    for src in [format!("{f}({a}, {b})"), format!("{f}({a}, {b}, {a})"), format!("{f}([{a}, {b}])")] {
                        if let Some(mut c) = eval_case_from_src(&spec, &src) {
                            c.tags = vec!["special", "nan-fold"];
                            out.push(c);
                        }
                    }
                }
            }
        }
        for a in &atoms {
            for b in &atoms {
                for op in ["<", "<=", ">", ">=", "==", "!=", "in", "+", "-", "*", "/", "%"] {
                    if let Some(mut c) = eval_case_from_src(&spec, &format!("{a} {op} {b}")) {
                        c.tags = vec!["special", "nan-fold"];
                        out.push(c);
                    }
                }
                for src in [format!("{b}.contains({a})"), format!("[{a}].exists(x, x == {b})"), format!("{{{a}: {b}}}"), format!("{b}[{a}]")] {
                    if let Some(mut c) = eval_case_from_src(&spec, &src) {
                        c.tags = vec!["special", "nan-fold"];
                        out.push(c);
                    }
                }
            }
        }
        // macros and functions over maps whose keys are of mutually incomparable kinds (anything
        // that sorts or compares keys is one `expect` away); predicate only: results depend on the
        // unspecified iteration order
        for m in ["{1: 'a', 'b': 2}", "{true: 1, 0: 2}", "{1u: 1, 'x': 2, false: 3}", "{1: 1, 2u: 2, 'k': 3, true: 4}", "{'': 0, 0: ''}", "{1: 1, 1u: 2}"] {
            for body in ["map(k, k)", "filter(k, k != 1)", "all(k, k != 'zz')", "exists(k, k == 0)", "exists_one(k, k == true)", "map(k, k != 1, [k])"] {
                for src in [format!("{m}.{body}"), format!("[{m}].map(x, x.{body})"), format!("size({m}) > 0 && {m}.{body} != null")] {
                    if let Some(mut c) = eval_case_from_src(&spec, &src) {
                        c.tags = vec!["special", "mixed-key-map", "no-model"];
                        out.push(c);
                    }
                }
            }
            for src in [format!("{m} == {m}"), format!("max({m}, {m})"), format!("string({m})"), format!("[{m}, {m}].min()"), format!("{m} in [{m}]"), format!("1 in {m}"), format!("'b' in {m}"), format!("{m}[1]"), format!("{m}.contains(true)")] {
                if let Some(mut c) = eval_case_from_src(&spec, &src) {
                    c.tags = vec!["special", "mixed-key-map", "no-model"];
                    out.push(c);
                }
            }
        }
        // contains / startsWith / endsWith / in over every pair of short strings and byte strings
        // (a search that reads past the end needs a needle that starts near the end)
        let mut words: Vec<String> = vec![String::new()];
        for len in 1..=3usize {
            for n in 0..(3usize.pow(len as u32)) {
                let mut w = String::new();
                let mut k = n;
                for _ in 0..len {
                    w.push(['a', 'b', 'c'][k % 3]);
                    k /= 3;
                }
                words.push(w);
            }
        }
        words.push("abcd".into());
        words.push("é".into());
        words.push("aé".into());
        for a in &words {
            for b in &words {
                if a.len() + b.len() > 5 && rng.below(3) != 0 {
                    continue;
                }
                for src in [format!("b'{a}'.contains(b'{b}')"), format!("'{a}'.contains('{b}')"), format!("'{a}'.startsWith('{b}')"), format!("'{a}'.endsWith('{b}')"), format!("'{b}' in '{a}'"), format!("contains(b'{a}', b'{b}')")] {
                    if let Some(mut c) = eval_case_from_src(&spec, &src) {
                        c.tags = vec!["special", "substring-pairs"];
                        out.push(c);
                    }
                }
            }
        }
        // every list length around every index, int and uint (an off-by-one at the end of the range)
        for len in 0..=4usize {
            let lit = format!("[{}]", (0..len).map(|i| (i + 7).to_string()).collect::<Vec<_>>().join(", "));
            for idx in ["0", "1", "2", "3", "4", "5", "-1", "0u", "1u", "2u", "3u", "4u", "5u", "size(L)", "size(L) - 1", "size(L) + 1", "uint(size(L))", "1.0", "dnan", "'0'", "null", "true"] {
                let i = idx.replace("L", &lit);
                for src in [format!("{lit}[{i}]"), format!("{lit}.map(x, {lit}[{i}])"), format!("[0, 1, 2, 3, 4].filter(i, {lit}[i] > 7)"), format!("'abcd'.size() > 0 ? {lit}[{i}] : 0"), format!("'{}'[{i}]", "é".repeat(len))] {
                    if let Some(mut c) = eval_case_from_src(&spec, &src) {
                        c.tags = vec!["special", "index-edge"];
                        out.push(c);
                    }
                }
            }
        }
    }
    // built-ins given more arguments than they take, of awkward kinds (an argument that is ignored
    // today is the first thing a later feature starts to parse)
    {
        let default = CtxSpec::default_ctx();
        let ts = "timestamp('2024-02-29T23:59:59.999+05:30')";
        let extras = ["'+-30:00'", "'00:-90000'", "'--30:00'", "'25:00'", "'600000:00'", "''", "'é'", "'UTC'", "'+05:30'", "'America/New_York'", "1", "null", "[1]", "9223372036854775807", "0.0 / 0.0"];
        for acc in ["getFullYear", "getMonth", "getDayOfYear", "getDayOfMonth", "getDate", "getDayOfWeek", "getHours", "getMinutes", "getSeconds", "getMilliseconds"] {
            for x in extras {
                for src in [format!("{ts}.{acc}({x})"), format!("{acc}({ts}, {x})"), format!("{ts}.{acc}({x}, {x})")] {
                    if let Some(mut c) = eval_case_from_src(&default, &src) {
                        c.tags = vec!["special", "surplus-argument"];
                        out.push(c);
                    }
                }
            }
        }
        for f in ["size", "string", "int", "uint", "double", "bytes", "duration", "timestamp", "contains", "startsWith", "endsWith", "matches", "max", "min"] {
            for x in ["'a'", "1", "null", "'('", "[]"] {
                for src in [format!("{f}('ab', {x}, {x})"), format!("'ab'.{f}({x}, {x}, {x})"), format!("{f}()"), format!("'ab'.{f}()")] {
                    if let Some(mut c) = eval_case_from_src(&default, &src) {
                        c.tags = vec!["special", "surplus-argument"];
                        out.push(c);
                    }
                }
            }
        }
        // errors whose message carries a long non-ASCII value (anything that shortens or escapes the
        // message works on bytes): every alignment of 1- to 4-byte characters around 250-270 bytes
        for unit in ["é", "漢", "\u{1F431}", "aé"] {
            for pad in 0..4usize {
                let long = format!("{}{}", "x".repeat(pad), unit.repeat(140));
                for src in [
                    format!("int('{long}')"), format!("uint('{long}')"), format!("double('{long}')"), format!("duration('{long}')"), format!("timestamp('{long}')"),
                    format!("'x'.matches('(' + '{long}')"), format!("double(['{long}'])"), format!("uint([['{long}', '{long}']])"), format!("string(['{long}', '{long}'])"),
                    format!("{{'{long}': 1}}.nokey"), format!("hfail('{long}')"), format!("'{long}'.nomethod()"), format!("'{long}' + 1"),
                ] {
                    let (mut spec, _) = gen_context(rng, false);
                    host_ctx(rng, &mut spec);
                    if let Some(mut c) = eval_case_from_src(&spec, &src) {
                        c.tags = vec!["special", "long-error"];
                        out.push(c);
                    }
                }
            }
        }
    }
    // conversions from text on either side of every representation limit
    let default = CtxSpec::default_ctx();
    let mut texts: Vec<String> = vec![];
    for t in super::c15::limit_texts() {
        texts.push(format!("duration({})", str_literal(&t)));
        texts.push(format!("timestamp('2000-01-01T00:00:00Z') + duration({})", str_literal(&t)));
    }
    for y in ["-262144", "-262143", "-9999", "-0001", "0000", "0001", "9999", "10000", "+10000", "262143", "+262143", "262144", "999999"] {
        for rest in ["-01-01T00:00:00Z", "-12-31T23:59:59.999999999Z", "-12-31T23:59:60Z", "-02-29T00:00:00+23:59", "-01-01T00:00:00-23:59", "-01-01T00:00:00+24:00"] {
            texts.push(format!("timestamp('{y}{rest}')"));
            texts.push(format!("timestamp('{y}{rest}') + duration('1h')"));
            texts.push(format!("string(timestamp('{y}{rest}'))"));
        }
    }
    for n in ["9223372036854775807", "9223372036854775808", "-9223372036854775808", "-9223372036854775809", "18446744073709551615", "18446744073709551616", "340282366920938463463374607431768211456", "1e308", "1e309", "-1e309", "4.9e-324", "1e-400", "0x10", "+1", "", " 1", "1 ", "١"] {
        for f in ["int", "uint", "double"] {
            texts.push(format!("{f}('{n}')"));
        }
    }
    for src in &texts {
        if let Some(mut c) = eval_case_from_src(&default, src) {
            // second 60 (leap-second notation) is accepted by chrono and kept in a representation
            // of its own; the model has no leap seconds, so these inputs are panic probes only
            c.tags = if src.contains(":60") { vec!["limit-text", "no-model"] } else { vec!["limit-text"] };
            out.push(c);
        }
    }
    out
}

pub fn predicate(_case: &Case, impl_ans: &str) -> Option<String> {
    if impl_ans.contains("(panic)") {
        return Some("the implementation panicked".into());
    }
    None
}

pub fn nontrivial(case: &Case, _impl_ans: &str) -> bool {
    case.kind == "binop" || case.payload.contains("(call ") || case.payload.contains("(mcall ") || case.payload.contains("(comp ")
}
