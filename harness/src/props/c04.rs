//! C04 — parsing preserves precedence, associativity and grouping.
use super::{PropDef, Tier};
use crate::prng::Rng;
use crate::run::{compile_case, Case};
use crate::sx::{hex, parse_all, Sx};
use std::collections::HashMap;

pub fn def() -> PropDef {
    PropDef {
        id: "C04",
        generate,
        predicate,
        nontrivial,
        functional: true,
        post: super::no_post,
        rule: "expression trees over the complete operator set (?:, ||, &&, the seven relations, + - * / %, prefix ! and -, select, index, global and receiver calls) x 2 leaf kinds: all trees with <= 2 operators (quick) / <= 3 (thorough), every && / || chain length 1..64, unparenthesised chains of length 2..10 of every left-associative operator (one operator throughout and mixed within a level), conditional ladders to 6 rungs, explicit nesting 32 / 40 / 48 levels deep (groups, calls, indexes, conditionals, prefix operators), macro calls on macro results, every prefix run 1..6, random trees to depth 7; each rendered fully parenthesised and minimally parenthesised under the precedence table, compiled by the real parser; the predicate compares the parsed AST with the tree that was rendered, modulo re-association of same-operator logical chains; plus macro calls whose receiver and arguments must occur intact in the expansion, and the source texts of the other generators (model parser vs real parser); non-trivial = at least one operator; distinct = distinct text",
        exhaustive_note: "trees with <= 2 operators, chain lengths <= 64 and prefix runs <= 6 are enumerated completely in the quick tier",
    }
}

#[derive(Clone, Debug, PartialEq)]
pub enum T {
    Id(&'static str),
    Int(i64),
    Bin(&'static str, Box<T>, Box<T>), // source symbol
    Not(Box<T>),
    Neg(Box<T>),
    Cond(Box<T>, Box<T>, Box<T>),
    Sel(Box<T>, &'static str),
    Idx(Box<T>, Box<T>),
    Call(&'static str, Vec<T>),
    MCall(Box<T>, &'static str, Vec<T>),
}

const BINOPS: [&str; 14] = ["||", "&&", "<", "<=", ">", ">=", "==", "!=", "in", "+", "-", "*", "/", "%"];

fn level(t: &T) -> u8 {
    match t {
        T::Cond(..) => 1,
        T::Bin("||", ..) => 2,
        T::Bin("&&", ..) => 3,
        T::Bin(op, ..) if ["<", "<=", ">", ">=", "==", "!=", "in"].contains(op) => 4,
        T::Bin(op, ..) if ["+", "-"].contains(op) => 5,
        T::Bin(..) => 6,
        T::Not(_) | T::Neg(_) => 7,
        T::Int(i) if *i < 0 => 8, // a signed literal is a primary
        _ => 8,
    }
}

fn opname(sym: &str) -> &'static str {
    match sym {
        "||" => "_||_",
        "&&" => "_&&_",
        "<" => "_<_",
        "<=" => "_<=_",
        ">" => "_>_",
        ">=" => "_>=_",
        "==" => "_==_",
        "!=" => "_!=_",
        "in" => "@in",
        "+" => "_+_",
        "-" => "_-_",
        "*" => "_*_",
        "/" => "_/_",
        _ => "_%_",
    }
}

impl T {
    /// the AST this tree denotes, in wire form
    pub fn ast(&self) -> String {
        let call = |f: &str, args: Vec<String>| format!("(call {} {})", hex(f.as_bytes()), args.join(" "));
        match self {
            T::Id(n) => format!("(id {})", hex(n.as_bytes())),
            T::Int(i) => format!("(lit (int {i}))"),
            T::Bin(op, a, b) => call(opname(op), vec![a.ast(), b.ast()]),
            T::Not(a) => call("!_", vec![a.ast()]),
            T::Neg(a) => call("-_", vec![a.ast()]),
            T::Cond(c, a, b) => call("_?_:_", vec![c.ast(), a.ast(), b.ast()]),
            T::Sel(a, f) => format!("(sel {} {} 0)", a.ast(), hex(f.as_bytes())),
            T::Idx(a, i) => call("_[_]", vec![a.ast(), i.ast()]),
            T::Call(f, args) => {
                if args.is_empty() {
                    format!("(call {})", hex(f.as_bytes()))
                } else {
                    call(f, args.iter().map(|a| a.ast()).collect())
                }
            }
            T::MCall(t, f, args) => format!("(mcall {} {}{})", hex(f.as_bytes()), t.ast(), args.iter().map(|a| format!(" {}", a.ast())).collect::<String>()),
        }
    }
    pub fn full(&self) -> String {
        match self {
            T::Id(n) => n.to_string(),
            T::Int(i) => {
                if *i < 0 {
                    format!("({i})")
                } else {
                    i.to_string()
                }
            }
            T::Bin(op, a, b) => format!("({} {op} {})", a.full(), b.full()),
            T::Not(a) => format!("(!{})", paren_member_full(a)),
            T::Neg(a) => format!("(-{})", paren_member_full(a)),
            T::Cond(c, a, b) => format!("({} ? {} : {})", c.full(), a.full(), b.full()),
            T::Sel(a, f) => format!("{}.{f}", paren_member_full(a)),
            T::Idx(a, i) => format!("{}[{}]", paren_member_full(a), i.full()),
            T::Call(f, args) => format!("{f}({})", args.iter().map(|a| a.full()).collect::<Vec<_>>().join(", ")),
            T::MCall(t, f, args) => format!("{}.{f}({})", paren_member_full(t), args.iter().map(|a| a.full()).collect::<Vec<_>>().join(", ")),
        }
    }
    fn sub(&self, min: u8) -> String {
        let s = self.minimal();
        if level(self) < min {
            format!("({s})")
        } else {
            s
        }
    }
    /// operand of a prefix operator / target of a member suffix: a `member`; a literal that the
    /// lexer would glue to a preceding '-' needs parentheses too
    fn member_operand(&self, after_minus: bool) -> String {
        match self {
            T::Int(i) if after_minus && *i >= 0 => format!("({i})"),
            T::Int(i) if *i < 0 => format!("({i})"),
            t => t.sub(8),
        }
    }
    pub fn minimal(&self) -> String {
        match self {
            T::Id(n) => n.to_string(),
            T::Int(i) => i.to_string(),
            T::Bin(op, a, b) => {
                let l = level(self);
                // logical chains are associative up to the balanced re-association the parser does
                let (la, lb) = if *op == "||" || *op == "&&" { (l, l) } else { (l, l + 1) };
                format!("{} {op} {}", a.sub(la), b.sub(lb))
            }
            T::Not(a) => format!("!{}", a.member_operand(false)),
            T::Neg(a) => {
                // a '-' directly before a numeric token is that literal's sign: keep them apart
                let o = a.member_operand(true);
                if o.starts_with(|c: char| c.is_ascii_digit() || c == '.') {
                    format!("-({o})")
                } else {
                    format!("-{o}")
                }
            }
            T::Cond(c, a, b) => format!("{} ? {} : {}", c.sub(2), a.sub(2), b.sub(1)),
            T::Sel(a, f) => format!("{}.{f}", a.member_operand(false)),
            T::Idx(a, i) => format!("{}[{}]", a.member_operand(false), i.minimal()),
            T::Call(f, args) => format!("{f}({})", args.iter().map(|a| a.minimal()).collect::<Vec<_>>().join(", ")),
            T::MCall(t, f, args) => format!("{}.{f}({})", t.member_operand(false), args.iter().map(|a| a.minimal()).collect::<Vec<_>>().join(", ")),
        }
    }
    fn ops(&self) -> usize {
        match self {
            T::Id(_) | T::Int(_) => 0,
            T::Bin(_, a, b) | T::Idx(a, b) => 1 + a.ops() + b.ops(),
            T::Not(a) | T::Neg(a) | T::Sel(a, _) => 1 + a.ops(),
            T::Cond(c, a, b) => 1 + c.ops() + a.ops() + b.ops(),
            T::Call(_, args) => 1 + args.iter().map(|a| a.ops()).sum::<usize>(),
            T::MCall(t, _, args) => 1 + t.ops() + args.iter().map(|a| a.ops()).sum::<usize>(),
        }
    }
}

fn paren_member_full(t: &T) -> String {
    match t {
        T::Id(n) => n.to_string(),
        other => {
            let s = other.full();
            if s.starts_with('(') {
                s
            } else {
                format!("({s})")
            }
        }
    }
}

fn all_trees(ops: usize, memo: &mut HashMap<usize, Vec<T>>) -> Vec<T> {
    if let Some(v) = memo.get(&ops) {
        return v.clone();
    }
    let mut out = vec![];
    if ops == 0 {
        out = vec![T::Id("a"), T::Int(1)];
    } else {
        let rest = ops - 1;
        for t in all_trees(rest, memo) {
            out.push(T::Not(Box::new(t.clone())));
            out.push(T::Neg(Box::new(t.clone())));
            out.push(T::Sel(Box::new(t.clone()), "f"));
            out.push(T::Call("g", vec![t.clone()]));
            out.push(T::MCall(Box::new(t.clone()), "m", vec![]));
        }
        for i in 0..=rest {
            let ls = all_trees(i, memo);
            let rs = all_trees(rest - i, memo);
            for l in &ls {
                for r in &rs {
                    for op in BINOPS {
                        out.push(T::Bin(op, Box::new(l.clone()), Box::new(r.clone())));
                    }
                    out.push(T::Idx(Box::new(l.clone()), Box::new(r.clone())));
                    out.push(T::MCall(Box::new(l.clone()), "m", vec![r.clone()]));
                }
            }
        }
        // conditional: three children sharing `rest` operators
        for i in 0..=rest {
            for j in 0..=(rest - i) {
                let (cs, xs, ys) = (all_trees(i, memo), all_trees(j, memo), all_trees(rest - i - j, memo));
                for c in &cs {
                    for x in &xs {
                        for y in &ys {
                            out.push(T::Cond(Box::new(c.clone()), Box::new(x.clone()), Box::new(y.clone())));
                        }
                    }
                }
            }
        }
    }
    memo.insert(ops, out.clone());
    out
}

fn random_tree(rng: &mut Rng, depth: u32) -> T {
    if depth == 0 || rng.chance(1, 6) {
        return if rng.chance(1, 2) { T::Id(*rng.pick(&["a", "b", "c"])) } else { T::Int(rng.range(-2, 9)) };
    }
    let d = depth - 1;
    match rng.below(12) {
        0..=5 => T::Bin(*rng.pick(&BINOPS), Box::new(random_tree(rng, d)), Box::new(random_tree(rng, d))),
        6 => T::Not(Box::new(random_tree(rng, d))),
        7 => T::Neg(Box::new(random_tree(rng, d))),
        8 => T::Cond(Box::new(random_tree(rng, d)), Box::new(random_tree(rng, d)), Box::new(random_tree(rng, d))),
        9 => T::Sel(Box::new(random_tree(rng, d)), *rng.pick(&["f", "x"])),
        10 => T::Idx(Box::new(random_tree(rng, d)), Box::new(random_tree(rng, d))),
        _ => {
            let n = rng.below(3) as usize;
            let args = (0..n).map(|_| random_tree(rng, d)).collect();
            if rng.chance(1, 2) {
                T::Call(*rng.pick(&["g", "h"]), args)
            } else {
                T::MCall(Box::new(random_tree(rng, d)), *rng.pick(&["m", "n"]), args)
            }
        }
    }
}

thread_local! {
    static EXPECT: std::cell::RefCell<HashMap<String, String>> = std::cell::RefCell::new(HashMap::new());
}

/// flatten nested same-operator logical chains: (call _&&_ (call _&&_ a b) c) -> (call _&&_ a b c)
pub fn norm(x: &Sx) -> Sx {
    match x {
        Sx::List(v) => {
            let kids: Vec<Sx> = v.iter().map(norm).collect();
            if kids.len() >= 2 && kids[0].as_atom() == Some("call") {
                let name = kids[1].as_atom().unwrap_or("").to_string();
                if name == hex(b"_&&_") || name == hex(b"_||_") {
                    let mut out = vec![kids[0].clone(), kids[1].clone()];
                    for k in &kids[2..] {
                        match k {
                            Sx::List(kv) if kv.len() >= 2 && kv[0].as_atom() == Some("call") && kv[1].as_atom() == Some(name.as_str()) => out.extend(kv[2..].iter().cloned()),
                            other => out.push(other.clone()),
                        }
                    }
                    return Sx::List(out);
                }
            }
            Sx::List(kids)
        }
        a => a.clone(),
    }
}

fn push_tree(out: &mut Vec<Case>, t: &T, tag: &'static str) {
    let want = format!("(ast {})", t.ast());
    for (text, mode) in [(t.full(), "full"), (t.minimal(), "minimal")] {
        let mut c = compile_case(&text);
        c.src = Some(text);
        c.tags = vec![tag, mode, if t.ops() == 0 { "leaf" } else { "ops" }];
        EXPECT.with(|e| e.borrow_mut().insert(c.key(), want.clone()));
        out.push(c);
    }
}

pub fn generate(tier: Tier, rng: &mut Rng) -> Vec<Case> {
    let mut out = vec![];
    let mut memo = HashMap::new();
    let max_ops = match tier {
        Tier::Quick => 2,
        Tier::Thorough => 3,
    };
    for n in 0..=max_ops {
        for t in all_trees(n, &mut memo) {
            push_tree(&mut out, &t, "enumerated");
        }
    }
    // chains of every length: operands in source order
    for op in ["&&", "||"] {
        for len in 1..=64usize {
            let names = ["a", "b", "c", "d", "e", "f", "g", "h"];
            let src = (0..len + 1).map(|i| names[i % 8].to_string() + &(i / 8).to_string()).collect::<Vec<_>>().join(&format!(" {op} "));
            let mut c = compile_case(&src);
            c.src = Some(src.clone());
            c.tags = vec!["chain", "ops"];
            let flat = format!("(ast (call {}{}))", hex(opname(op).as_bytes()), (0..len + 1).map(|i| format!(" (id {})", hex((names[i % 8].to_string() + &(i / 8).to_string()).as_bytes()))).collect::<String>());
            EXPECT.with(|e| e.borrow_mut().insert(c.key(), flat));
            out.push(c);
        }
    }
    // explicit nesting 32, 40 and 48 levels deep on one path (parenthesised groups, calls, indexes,
    // conditionals, prefix operators): the tree comes back exactly as written
    for depth in [32usize, 40, 48] {
        let id = |i: usize| T::Id(["a", "b", "c", "d", "e", "f", "g", "h"][i % 8]);
        for op in ["+", "-", "*", "==", "&&", "||"] {
            let mut left = id(0);
            let mut right = id(0);
            for i in 1..=depth {
                left = T::Bin(op, Box::new(left), Box::new(id(i)));
                right = T::Bin(op, Box::new(id(i)), Box::new(right));
            }
            push_tree(&mut out, &left, "deep");
            push_tree(&mut out, &right, "deep");
        }
        let mut calls = id(0);
        let mut mcalls = id(0);
        let mut idx = id(0);
        let mut cond = id(0);
        let mut negs = id(0);
        let mut mixed = id(0);
        for i in 1..=depth {
            calls = T::Call("f", vec![calls]);
            mcalls = T::MCall(Box::new(mcalls), "g", vec![id(i)]);
            idx = T::Idx(Box::new(id(i)), Box::new(idx));
            cond = T::Cond(Box::new(cond), Box::new(id(i)), Box::new(T::Int(i as i64)));
            negs = if i % 2 == 0 { T::Neg(Box::new(T::Bin("+", Box::new(negs), Box::new(T::Int(1))))) } else { T::Not(Box::new(T::Bin("&&", Box::new(negs), Box::new(id(i))))) };
            mixed = match i % 4 { 0 => T::Bin("-", Box::new(id(i)), Box::new(mixed)), 1 => T::Call("f", vec![id(i), mixed]), 2 => T::Idx(Box::new(mixed), Box::new(T::Int(0))), _ => T::Bin("*", Box::new(mixed), Box::new(id(i))) };
        }
        for t in [&calls, &mcalls, &idx, &cond, &negs, &mixed] {
            push_tree(&mut out, t, "deep");
        }
    }
    // unparenthesised chains of the left-associative operators, every length 2..10, one operator
    // throughout and mixed within a precedence level; conditional ladders (right-associative)
    {
        let names: [&'static str; 11] = ["a", "b", "c", "d", "e", "f", "g", "h", "i", "j", "k"];
        let levels: [&[&'static str]; 3] = [&["<", "<=", ">", ">=", "==", "!=", "in"], &["+", "-"], &["*", "/", "%"]];
        for level in levels {
            for len in 2..=10usize {
                // one operator throughout
                for op in level.iter() {
                    let mut t = T::Id(names[0]);
                    for i in 1..=len {
                        t = T::Bin(op, Box::new(t), Box::new(T::Id(names[i])));
                    }
                    push_tree(&mut out, &t, "chain");
                }
                // mixed operators of the level
                for _ in 0..3 {
                    let mut t = T::Id(names[0]);
                    for i in 1..=len {
                        t = T::Bin(*rng.pick(level), Box::new(t), Box::new(T::Id(names[i])));
                    }
                    push_tree(&mut out, &t, "chain");
                }
            }
        }
        // && / || mixed in one unparenthesised text, 3 and 4 operators (a sub-chain as first,
        // middle or last operand of the enclosing chain)
        for n_ops in 3..=4usize {
            for mask in 0..(1u32 << n_ops) {
                let ops: Vec<&'static str> = (0..n_ops).map(|i| if mask & (1 << i) != 0 { "&&" } else { "||" }).collect();
                // precedence: && binds tighter; build the tree the grammar prescribes
                let mut or_terms: Vec<T> = vec![];
                let mut cur = T::Id(names[0]);
                for (i, op) in ops.iter().enumerate() {
                    if *op == "&&" {
                        cur = T::Bin("&&", Box::new(cur), Box::new(T::Id(names[i + 1])));
                    } else {
                        or_terms.push(cur);
                        cur = T::Id(names[i + 1]);
                    }
                }
                or_terms.push(cur);
                let mut it = or_terms.into_iter();
                let mut t = it.next().unwrap();
                for x in it {
                    t = T::Bin("||", Box::new(t), Box::new(x));
                }
                push_tree(&mut out, &t, "chain");
            }
        }
        for len in 1..=6usize {
            // c1 ? v1 : c2 ? v2 : … : d   and the same with the ladder in the `then` position
            let mut else_ladder = T::Id(names[10]);
            let mut then_ladder = T::Id(names[10]);
            for i in (0..len).rev() {
                else_ladder = T::Cond(Box::new(T::Id(names[i])), Box::new(T::Int(i as i64)), Box::new(else_ladder));
                then_ladder = T::Cond(Box::new(T::Id(names[i])), Box::new(then_ladder), Box::new(T::Int(i as i64)));
            }
            push_tree(&mut out, &else_ladder, "chain");
            push_tree(&mut out, &then_ladder, "chain");
        }
    }
    // prefix runs: an even number cancels
    for op in ["!", "-"] {
        for n in 1..=6usize {
            for operand in ["a", "(1)", "a.f", "(a + 1)"] {
                let src = format!("{}{operand}", op.repeat(n));
                let inner = match operand {
                    "a" => T::Id("a"),
                    "(1)" => T::Int(1),
                    "a.f" => T::Sel(Box::new(T::Id("a")), "f"),
                    _ => T::Bin("+", Box::new(T::Id("a")), Box::new(T::Int(1))),
                };
                let want = if n % 2 == 0 { inner } else if op == "!" { T::Not(Box::new(inner)) } else { T::Neg(Box::new(inner)) };
                let mut c = compile_case(&src);
                c.src = Some(src);
                c.tags = vec!["prefix-run", "ops"];
                EXPECT.with(|e| e.borrow_mut().insert(c.key(), format!("(ast {})", want.ast())));
                out.push(c);
            }
        }
    }
    let n_random = match tier {
        Tier::Quick => 4000,
        Tier::Thorough => 300_000,
    };
    for _ in 0..n_random {
        let d = 2 + rng.below(6) as u32;
        let t = random_tree(rng, d);
        if t.full().len() < 600 {
            push_tree(&mut out, &t, "random");
        }
    }
    // the source texts of the other generators: model parser vs real parser
    let n_src = match tier {
        Tier::Quick => 4000,
        Tier::Thorough => 200_000,
    };
    for i in 0..n_src {
        let src = if i % 2 == 0 {
            match super::c03::typed_program(rng, 5, true) {
                Some(c) => c.src.unwrap_or_default(),
                None => continue,
            }
        } else {
            super::c19::gen_src(rng)
        };
        let mut c = compile_case(&src);
        c.src = Some(src);
        c.tags = vec!["program-text", "ops"];
        out.push(c);
    }
    // macro calls whose receiver is itself a macro call, same and different variable names
    for m1 in ["filter(x, x > 1)", "map(x, x * 2)", "map(x, x > 1, x * 2)"] {
        for m2 in ["map(x, x * 2)", "map(y, y * 2)", "filter(x, x > 1)", "all(x, x > 0)", "exists(y, y > 0)", "exists_one(x, x == 2)", "map(x, x > 1, [x])"] {
            for recv in ["l", "[1, 2, 3]", "m.f"] {
                let src = format!("{recv}.{m1}.{m2}");
                let mut c = compile_case(&src);
                c.src = Some(src);
                c.tags = vec!["macro-chain", "ops"];
                out.push(c);
            }
        }
    }
    // grammar corners
    for src in [
        "a.b.c", ".a", ".a.b", ".f(1)", "a.f()", "a.f(1, 2)", "f()", "[]", "[1,]", "[,]", "[1, 2,]", "{}", "{,}", "{1: 2,}", "{a: b, c: d}",
        "T{}", "T{a: 1}", "T{a: 1,}", "a.b.T{x: y}", ".a.T{}", "T{`a.b`: 1}", "a.`b c`", "a.`b-c`.d", "a[b][c]", "a[b].c(d)", "(a)", "((a))", "(a.b)(c)", "a(1)(2)",
        "a ? b : c ? d : e", "a ? b ? c : d : e", "(a ? b : c) ? d : e", "a || b ? c : d", "a ? b : c || d",
        "1 - -1", "1--1", "1 -1", "- 1", "-1", "--1", "---1", "-1u", "- 1.5", "-a", "-(1)", "!-1", "!-a", "-!a", "!!a", "-1.size()", "(-1).size()", "-x.y",
        "1.5", ".5", "1e5", "1E-2", "1e+5", "1.", "1.e5", "1e", "0x1F", "0XFF", "0x", "0xg", "1u", "1U", "0x1u", "1.5u", "1u2", "1a", "-0x10", "-0x8000000000000000", "0x8000000000000000",
        "9223372036854775807", "9223372036854775808", "-9223372036854775808", "-9223372036854775809", "18446744073709551615u", "18446744073709551616u", "1e400", "-1e400", "1e-400",
        "in", "a in b", "a in b in c", "inx", "true1", "nullx", "as", "true", "false", "null", "a.true", "a.in", "a.null", "true.a",
        "has(a.b)", "has(a)", "has(a.b.c)", "has(a[0])", "a.has(b.c)", "has(a.b, c)", "[1].all(x, x > 0)", "[1].all(1, true)", "[1].all(x.y, true)", "all([1], x, true)", "[1].map(x, y, z)", "[1].map(x, y, z, w)", "[1].exists_one(x, x)", "[1].existsOne(x, x)", "a.filter(x, x).map(y, y)",
        "a.?b", "a[?b]", "[?a]", "{?a: b}", "T{?a: b}", "a ? b", "a ? : b", "a :", "1 +", "", " ", "\t", "(", ")", "(((", "a)", "[1", "{1:}", "{1}", "a.", "a..b", "a b", "1 2", "a,b", "f(,)", "f(a,)", "[a,,]", "{a:b,,}",
        "'x'", "\"x\"", "'''x'''", "\"\"\"x\"\"\"", "r'x'", "R\"x\"", "r'''x'''", "b'x'", "B\"x\"", "br'x'", "bR\"x\"", "rb'x'", "b'''x'''", "'a' 'b'", "'\\q'", "'\\x4'", "'\\400'", "'\\u12'", "\"unterminated", "'a\nb'", "'''a\nb'''", "r'a\\'", "'\\\\'",
        // names that are almost, but not exactly, macro names stay ordinary calls
        "x.Map(v, f)", "HAS(a.b)", "Has(a.b)", "x.ALL(v, p)", "x.All(v, p)", "x.exists_One(v, p)", "x.exists_one_(v, p)", "x._filter(v, p)", "x.filter_(v, p)", "x.Exists(1, 2)", "x.existsone(v, p)", "x.ExistsOne(v, p)", "x.EXISTS_ONE(v, p)",
        "x.map_(v, f)", "x.mapp(v, f)", "x.al(v, p)", "has_(a.b)", "_has(a.b)", "x.Filter(v, p).map(w, w)", "x.map(v, v.Map(w, w))", "x.exists__one(v, p)", "x.MAP(v, p, f)",
        "a // comment", "// only", "a // c\n + b", "a\n+\nb", "a\u{c}b", "ä", "a ä", "'ä'", "a && b || c && d", "a || b && c || d", "a < b < c", "a == b != c", "a + b - c + d", "a * b / c % d", "a + b * c - d / e",
    ] {
        let mut c = compile_case(src);
        c.src = Some(src.to_string());
        c.tags = vec!["corner", "ops"];
        out.push(c);
    }
    // macro calls expand around, never into, receiver and arguments
    for (src, parts) in [
        ("(a + b).all(x, f(x) && c)", vec!["a + b", "f(x) && c"]),
        ("[a, b.c].map(x, g(x, d))", vec!["[a, b.c]", "g(x, d)"]),
        ("m.n.filter(e, e.k in q)", vec!["m.n", "e.k in q"]),
        ("r.map(x, p(x) ? 1 : 2, [x, y])", vec!["r", "p(x) ? 1 : 2", "[x, y]"]),
        ("r.exists(x, s.exists(y, y == x))", vec!["r", "s.exists(y, y == x)"]),
    ] {
        let mut c = compile_case(src);
        c.src = Some(src.to_string());
        c.tags = vec!["macro-intact", "ops"];
        let parse = |s: &str| crate::run::quietly(|| std::panic::catch_unwind(|| cel_parser::Parser::new().parse(s))).ok().and_then(|r| r.ok());
        let subs: Vec<String> = parts.iter().filter_map(|p| parse(p)).map(|e| crate::wire::expr_to_sx(&e).to_text()).collect();
        EXPECT.with(|e| e.borrow_mut().insert(c.key(), format!("CONTAINS\u{1}{}", subs.join("\u{1}"))));
        out.push(c);
    }
    out
}

pub fn predicate(case: &Case, impl_ans: &str) -> Option<String> {
    if impl_ans.contains("(panic)") {
        return Some("the parser panicked".into());
    }
    let want = EXPECT.with(|e| e.borrow().get(&case.key()).cloned())?;
    if let Some(rest) = want.strip_prefix("CONTAINS\u{1}") {
        for sub in rest.split('\u{1}') {
            if !impl_ans.contains(sub) {
                return Some(format!("macro expansion does not contain the argument expression {sub} intact"));
            }
        }
        return None;
    }
    let (a, b) = (parse_all(&want), parse_all(impl_ans));
    let (na, nb) = (a.first().map(norm), b.first().map(norm));
    if na != nb {
        Some(format!("rendered tree {want} but the parser produced {impl_ans}"))
    } else {
        None
    }
}

pub fn nontrivial(case: &Case, _impl_ans: &str) -> bool {
    !case.tags.contains(&"leaf")
}
