//! C18 — exporting a CEL value to JSON is total and faithful.
use super::{PropDef, Tier};
use crate::gen::*;
use crate::prng::Rng;
use crate::run::Case;
use crate::sx::parse_all;
use crate::wire::{sx_to_value, value_to_sx};
use cel_interpreter::objects::{Key, Map};
use cel_interpreter::Value;
use std::collections::HashMap;
use std::sync::Arc;

pub fn def() -> PropDef {
    PropDef {
        id: "C18",
        generate,
        predicate,
        nontrivial,
        functional: true,
        post: super::no_post,
        rule: "values of every kind to depth 5: ints, uints, doubles incl. NaN/inf/-0.0, strings, bytes of every length mod 3, bools, null, nested lists and maps incl. empty ones and maps whose int, uint, bool and string keys render to the same text (with equal values, so the document is order-independent), timestamps, durations on both sides of the 2^63 ns limit, function values at the top level and nested inside collections; observed: Value::json() as a canonical document or error kind, and the re-import of the document; predicate on the implementation: export fails exactly for values containing a function or an over-wide duration and never panics, and for JSON-native values with text-distinct keys the re-imported value equals the original under CEL equality; non-trivial = compound value or non-default scalar; distinct = distinct value",
        exhaustive_note: "random sample over a boundary-biased value generator plus a fixed catalogue",
    }
}

fn gen_any_value(rng: &mut Rng, depth: u32) -> Value {
    if depth == 0 || rng.chance(2, 5) {
        return match rng.below(12) {
            0 => Value::Int(gen_i64(rng)),
            1 => Value::UInt(gen_u64(rng)),
            2 => Value::Float(gen_f64(rng, false)),
            3 | 4 => Value::String(Arc::new(gen_string(rng))),
            5 => {
                let n = rng.below(8) as usize;
                Value::Bytes(Arc::new((0..n).map(|_| rng.below(256) as u8).collect()))
            }
            6 => Value::Bool(rng.chance(1, 2)),
            7 => Value::Null,
            8 => Value::Duration(gen_duration(rng)),
            9 => Value::Timestamp(gen_timestamp(rng)),
            10 => {
                if rng.chance(1, 3) {
                    Value::Function(Arc::new("f".into()), if rng.chance(1, 2) { Some(Box::new(Value::Int(1))) } else { None })
                } else {
                    Value::Int(0)
                }
            }
            _ => Value::Float(rng.range(-100, 100) as f64 / 4.0),
        };
    }
    let d = depth - 1;
    let n = rng.below(4);
    if rng.chance(1, 2) {
        Value::List(Arc::new((0..n).map(|_| gen_any_value(rng, d)).collect()))
    } else {
        let mut m = HashMap::new();
        for _ in 0..n {
            let k = match rng.below(5) {
                0 => Key::Int(rng.range(-1, 2)),
                1 => Key::Uint(rng.below(3)),
                2 => Key::Bool(rng.chance(1, 2)),
                3 => Key::String(Arc::new(rng.pick(&["1", "true", "a", "", "é"]).to_string())),
                _ => Key::String(Arc::new(gen_string(rng))),
            };
            m.insert(k, gen_any_value(rng, d));
        }
        // keys that collide as text must carry equal values (the document is then
        // independent of the map's iteration order)
        let mut by_text: HashMap<String, Value> = HashMap::new();
        let keys: Vec<Key> = m.keys().cloned().collect();
        for k in keys {
            let t = k.to_string();
            if let Some(v) = by_text.get(&t) {
                m.insert(k, v.clone());
            } else {
                by_text.insert(t, m[&k].clone());
            }
        }
        Value::Map(Map { map: Arc::new(m) })
    }
}

pub fn generate(tier: Tier, rng: &mut Rng) -> Vec<Case> {
    let mut out = vec![];
    let mut push = |v: &Value, tag: &'static str| {
        let sx = value_to_sx(v).to_text();
        let mut c = Case::new("json", sx.clone());
        c.tags = vec![tag, if sx.matches('(').count() > 1 || sx.len() > 12 { "interesting" } else { "plain" }];
        out.push(c);
    };
    for len in 0..=9usize {
        push(&Value::Bytes(Arc::new((0..len).map(|i| (i * 37 + 250) as u8).collect())), "bytes");
    }
    for ns in [0i128, -1, i64::MAX as i128, i64::MIN as i128, i64::MAX as i128 + 1, i64::MIN as i128 - 1, (i64::MAX as i128) * 1_000_000] {
        push(&Value::Duration(crate::wire::dur_from_ns(ns).unwrap()), "duration");
        push(&Value::List(Arc::new(vec![Value::Duration(crate::wire::dur_from_ns(ns).unwrap())])), "duration");
    }
    push(&Value::Function(Arc::new("f".into()), None), "function");
    push(&Value::List(Arc::new(vec![Value::Int(1), Value::Function(Arc::new("f".into()), None)])), "function");
    // maps whose keys render to the same member name (1, 1u, '1'; true, 'true') where one of the
    // colliding entries holds something that cannot be exported: the export fails whichever entry
    // the map happens to yield first (several instances each: every HashMap has its own order)
    {
        let f = || Value::Function(Arc::new("f".into()), None);
        let big = || Value::Duration(crate::wire::dur_from_ns(i64::MAX as i128 + 1).unwrap());
        let mk = |es: Vec<(Key, Value)>| Value::Map(Map { map: Arc::new(es.into_iter().collect::<HashMap<Key, Value>>()) });
        let s = |t: &str| Key::String(Arc::new(t.to_string()));
        for _ in 0..12 {
            for bad in [f(), big(), Value::List(Arc::new(vec![f()])), mk(vec![(s("x"), f())])] {
                push(&mk(vec![(Key::Int(1), Value::Int(7)), (Key::Uint(1), bad.clone())]), "colliding-keys-unexportable");
                push(&mk(vec![(Key::Int(1), bad.clone()), (Key::Uint(1), Value::Int(7))]), "colliding-keys-unexportable");
                push(&mk(vec![(Key::Int(1), Value::Int(7)), (s("1"), bad.clone()), (Key::Uint(1), Value::Int(7))]), "colliding-keys-unexportable");
                push(&mk(vec![(Key::Bool(true), bad.clone()), (s("true"), Value::Int(7))]), "colliding-keys-unexportable");
                push(&Value::List(Arc::new(vec![mk(vec![(Key::Int(0), Value::Int(7)), (Key::Uint(0), bad.clone())])])), "colliding-keys-unexportable");
                push(&mk(vec![(s("outer"), mk(vec![(Key::Uint(2), Value::Null), (Key::Int(2), bad.clone())]))]), "colliding-keys-unexportable");
            }
        }
    }
    let n = match tier {
        Tier::Quick => 8000,
        Tier::Thorough => 600_000,
    };
    for _ in 0..n {
        let d = rng.below(6) as u32;
        push(&gen_any_value(rng, d), "random");
    }
    out
}

fn has_blocker(v: &Value) -> bool {
    match v {
        Value::Function(..) => true,
        Value::Duration(d) => d.num_nanoseconds().is_none(),
        Value::List(xs) => xs.iter().any(has_blocker),
        Value::Map(m) => m.map.values().any(has_blocker),
        _ => false,
    }
}
fn json_native(v: &Value) -> bool {
    match v {
        Value::Int(_) | Value::UInt(_) | Value::String(_) | Value::Bool(_) | Value::Null => true,
        Value::Float(f) => f.is_finite(),
        Value::List(xs) => xs.iter().all(json_native),
        Value::Map(m) => {
            let mut seen = std::collections::HashSet::new();
            m.map.iter().all(|(k, v)| matches!(k, Key::String(_)) && seen.insert(k.to_string()) && json_native(v))
        }
        _ => false,
    }
}

pub fn predicate(case: &Case, impl_ans: &str) -> Option<String> {
    if impl_ans.contains("(panic)") {
        return Some("JSON export panicked".into());
    }
    let v = sx_to_value(parse_all(&case.payload).first()?)?;
    let ok = impl_ans.starts_with("(json (ok");
    if has_blocker(&v) == ok {
        return Some(format!("export must fail exactly for values containing a function or an over-wide duration; answered {impl_ans}"));
    }
    if ok && json_native(&v) {
        let p = parse_all(impl_ans);
        let back = sx_to_value(p.first()?.as_list()?.get(2)?)?;
        if back != v {
            return Some(format!("re-importing the exported document gives {} which is not equal to the original", value_to_sx(&back).to_text()));
        }
    }
    None
}

pub fn nontrivial(case: &Case, _impl_ans: &str) -> bool {
    case.tags.contains(&"interesting")
}
