//! Minimal s-expressions for the line protocol.
#[derive(Clone, Debug, PartialEq)]
pub enum Sx {
    Atom(String),
    List(Vec<Sx>),
}

impl Sx {
    pub fn atom(s: impl Into<String>) -> Sx {
        Sx::Atom(s.into())
    }
    pub fn list(xs: Vec<Sx>) -> Sx {
        Sx::List(xs)
    }
    pub fn tagged(tag: &str, mut xs: Vec<Sx>) -> Sx {
        let mut v = vec![Sx::atom(tag)];
        v.append(&mut xs);
        Sx::List(v)
    }
    pub fn as_atom(&self) -> Option<&str> {
        match self {
            Sx::Atom(s) => Some(s),
            _ => None,
        }
    }
    pub fn as_list(&self) -> Option<&[Sx]> {
        match self {
            Sx::List(v) => Some(v),
            _ => None,
        }
    }
    pub fn tag(&self) -> Option<&str> {
        self.as_list().and_then(|l| l.first()).and_then(|a| a.as_atom())
    }
    pub fn write(&self, out: &mut String) {
        match self {
            Sx::Atom(s) => out.push_str(s),
            Sx::List(v) => {
                out.push('(');
                for (i, x) in v.iter().enumerate() {
                    if i > 0 {
                        out.push(' ');
                    }
                    x.write(out);
                }
                out.push(')');
            }
        }
    }
    pub fn to_text(&self) -> String {
        let mut s = String::new();
        self.write(&mut s);
        s
    }
}

pub fn parse_all(s: &str) -> Vec<Sx> {
    let mut stack: Vec<Vec<Sx>> = vec![vec![]];
    let mut cur = String::new();
    let flush = |cur: &mut String, stack: &mut Vec<Vec<Sx>>| {
        if !cur.is_empty() {
            stack.last_mut().unwrap().push(Sx::Atom(std::mem::take(cur)));
        }
    };
    for c in s.chars() {
        match c {
            '(' => {
                flush(&mut cur, &mut stack);
                stack.push(vec![]);
            }
            ')' => {
                flush(&mut cur, &mut stack);
                if stack.len() > 1 {
                    let v = stack.pop().unwrap();
                    stack.last_mut().unwrap().push(Sx::List(v));
                }
            }
            ' ' | '\t' | '\n' | '\r' => flush(&mut cur, &mut stack),
            c => cur.push(c),
        }
    }
    flush(&mut cur, &mut stack);
    while stack.len() > 1 {
        let v = stack.pop().unwrap();
        stack.last_mut().unwrap().push(Sx::List(v));
    }
    stack.pop().unwrap()
}

pub fn hex(bytes: &[u8]) -> String {
    let mut s = String::with_capacity(bytes.len() * 2 + 1);
    s.push('x');
    for b in bytes {
        s.push_str(&format!("{:02x}", b));
    }
    s
}

pub fn unhex(s: &str) -> Vec<u8> {
    let s = s.strip_prefix('x').unwrap_or(s);
    let b = s.as_bytes();
    let mut out = Vec::with_capacity(b.len() / 2);
    let hv = |c: u8| -> u8 {
        match c {
            b'0'..=b'9' => c - b'0',
            b'a'..=b'f' => c - b'a' + 10,
            b'A'..=b'F' => c - b'A' + 10,
            _ => 0,
        }
    };
    let mut i = 0;
    while i + 1 < b.len() {
        out.push(hv(b[i]) * 16 + hv(b[i + 1]));
        i += 2;
    }
    out
}
