//! Running one case on the implementation (in-process, under catch_unwind).
use crate::ctx::{log_to_sx, CtxSpec, Log};
use crate::sx::{parse_all, Sx};
use crate::wire::*;
use cel_interpreter::{Program, Value};
use std::panic::{catch_unwind, AssertUnwindSafe};
use std::sync::{Arc, Mutex};

#[derive(Clone, Debug)]
pub struct Case {
    /// case kind (first field of the model line after the id)
    pub kind: String,
    /// payload of the model line (s-expression text after the kind)
    pub payload: String,
    /// source text the implementation compiles instead of taking the AST from the payload
    pub src: Option<String>,
    /// generator tags, for the distribution statistics
    pub tags: Vec<&'static str>,
    /// the case came from a source text: the model is asked to compile that text with its own
    /// lexer, parser and macro expander and to evaluate its own tree (`run`), instead of being
    /// handed the tree the real parser built — so that the comparison is end to end and a change
    /// in the parser or in macro expansion that alters behaviour is seen by every evaluation check
    pub from_source: bool,
    /// source texts the implementation compiles (and discards) on the same thread immediately
    /// before the case itself: the outcome of a compilation depends on its own text only, whatever
    /// was compiled before (the model, being a function of the text, is not told)
    pub prelude: Vec<String>,
}

impl Case {
    pub fn new(kind: &str, payload: String) -> Case {
        Case { kind: kind.to_string(), payload, src: None, tags: vec![], from_source: false, prelude: vec![] }
    }
    pub fn model_line(&self, id: usize) -> String {
        if self.from_source && self.kind == "eval" {
            if let (Some(src), Some(ctx)) = (&self.src, parse_all(&self.payload).first()) {
                return format!("{} run {} {}", id, ctx.to_text(), crate::sx::hex(src.as_bytes()));
            }
        }
        format!("{} {} {}", id, self.kind, self.payload)
    }
    pub fn key(&self) -> String {
        format!("{} {} {:?}", self.kind, self.payload, self.src)
    }
}

thread_local! {
    static QUIET: std::cell::Cell<bool> = const { std::cell::Cell::new(false) };
}

/// Panics of the code under test are expected observations and stay silent; panics of the
/// harness itself are reported.
pub fn install_quiet_panic_hook() {
    std::panic::set_hook(Box::new(|info| {
        if !QUIET.with(|q| q.get()) {
            eprintln!("celharness internal panic: {info}");
        }
    }));
}

/// What each thread is currently asking the implementation (for the hang watchdog): the time the
/// call into the code under test started and the input it was given.
pub struct Watch {
    pub since: Option<std::time::Instant>,
    pub label: String,
}
pub static WATCH: std::sync::OnceLock<Mutex<std::collections::HashMap<std::thread::ThreadId, Watch>>> = std::sync::OnceLock::new();

fn watch_update(f: impl FnOnce(&mut Watch)) {
    let m = WATCH.get_or_init(|| Mutex::new(std::collections::HashMap::new()));
    if let Ok(mut g) = m.lock() {
        f(g.entry(std::thread::current().id()).or_insert(Watch { since: None, label: String::new() }));
    }
}

/// record the input the current thread is about to hand to the implementation
pub fn note_input(label: &str) {
    watch_update(|w| {
        w.label.clear();
        w.label.push_str(label);
    });
    inflight_write("label", label);
}

/// When `CEL_INFLIGHT_DIR` is set, every thread keeps the input it is working on in a file of
/// its own there.  A panic is caught and reported by the harness itself; an *abort* of the
/// process (stack exhaustion, allocation failure, `abort()`) kills the harness too - `check`
/// then finds in these files what was in flight, and re-runs each candidate alone
/// (`celharness one <file>`) to name the input that kills the process.
fn inflight_write(ext: &str, text: &str) {
    use std::os::unix::fs::FileExt;
    thread_local! {
        // (label file, case file), opened once per thread; a record is an 8-byte little-endian
        // length followed by the text, rewritten in place at offset 0 (one `pwrite` per input)
        static SLOT: std::cell::RefCell<Option<(std::fs::File, std::fs::File)>> = const { std::cell::RefCell::new(None) };
    }
    static NEXT: std::sync::atomic::AtomicUsize = std::sync::atomic::AtomicUsize::new(0);
    let Some(dir) = std::env::var_os("CEL_INFLIGHT_DIR") else { return };
    SLOT.with(|s| {
        let mut s = s.borrow_mut();
        if s.is_none() {
            let n = NEXT.fetch_add(1, std::sync::atomic::Ordering::Relaxed);
            let base = format!("{}/t{n}", dir.to_string_lossy());
            if let (Ok(a), Ok(b)) = (std::fs::File::create(format!("{base}.label")), std::fs::File::create(format!("{base}.case"))) {
                *s = Some((a, b));
            }
        }
        if let Some((label, case)) = s.as_ref() {
            let f = if ext == "label" { label } else { case };
            let bytes = text.as_bytes();
            let mut rec = Vec::with_capacity(bytes.len() + 8);
            rec.extend_from_slice(&(bytes.len() as u64).to_le_bytes());
            rec.extend_from_slice(bytes);
            let _ = f.write_all_at(&rec, 0);
        }
    });
}

/// a case as a corpus line (`kind<TAB>payload[<TAB>src-hex]`)
pub fn corpus_line(case: &Case) -> String {
    match &case.src {
        Some(s) => format!("{}\t{}\t{}", case.kind, case.payload, crate::sx::hex(s.as_bytes())),
        None => format!("{}\t{}", case.kind, case.payload),
    }
}

/// inputs on which a call into the implementation has been running for longer than `limit`
pub fn overdue(limit: std::time::Duration) -> Vec<String> {
    let Some(m) = WATCH.get() else { return vec![] };
    let Ok(g) = m.lock() else { return vec![] };
    g.values().filter(|w| w.since.map(|t| t.elapsed() > limit).unwrap_or(false)).map(|w| w.label.clone()).collect()
}

/// every call into the code under test goes through here: its panics stay silent, and the
/// watchdog knows when it started
pub fn quietly<R>(f: impl FnOnce() -> R) -> R {
    QUIET.with(|q| q.set(true));
    watch_update(|w| w.since = Some(std::time::Instant::now()));
    let r = f();
    watch_update(|w| w.since = None);
    QUIET.with(|q| q.set(false));
    r
}

fn ord_atom(o: Option<std::cmp::Ordering>) -> &'static str {
    match o {
        None => "none",
        Some(std::cmp::Ordering::Less) => "lt",
        Some(std::cmp::Ordering::Equal) => "eq",
        Some(std::cmp::Ordering::Greater) => "gt",
    }
}

pub fn eval_on_impl(spec: &CtxSpec, src: Option<&str>, ast: Option<&Sx>) -> String {
    let log: Log = Arc::new(Mutex::new(vec![]));
    let r = quietly(|| catch_unwind(AssertUnwindSafe(|| {
        spec.with_context(&log, |ctx| match src {
            // both public ways of compiling a source text are used (chosen by the text's length,
            // so a case replays the same way): `Program::compile` and `Program::try_from`
            Some(s) => match if s.len() % 3 == 1 { Program::try_from(s) } else { Program::compile(s) } {
                Ok(p) => Some(p.execute(ctx)),
                Err(_) => None,
            },
            None => {
                let e = sx_to_expr(ast.expect("eval case without src or ast")).expect("bad ast");
                Some(ctx.resolve(&e))
            }
        })
    })));
    let outcome = match r {
        Ok(Some(res)) => result_to_sx(&res).to_text(),
        Ok(None) => "(compile-error)".to_string(),
        Err(_) => "(panic)".to_string(),
    };
    let l = log.lock().unwrap_or_else(|e| e.into_inner());
    format!("(res {} {})", outcome, log_to_sx(&l).to_text())
}

/// How each context variable of a case is handed to the implementation (see `ctx::define`).
pub fn variables_supplied(case: &Case) -> Vec<String> {
    let payload = parse_all(&case.payload);
    let Some(spec) = payload.first().and_then(CtxSpec::from_sx) else { return vec![] };
    spec.vars
        .iter()
        .chain(spec.scopes.iter().flatten())
        .take(40)
        .map(|(n, v)| format!("{n}: {}", match crate::ctx::supply_route(n, v) { 1 => "add_variable(plain Rust data)", 2 => "add_variable_from_value(Rust data converted by the crate's From impls)", _ => "add_variable_from_value(Value)" }))
        .collect()
}

/// The implementation's answer to a case, in the same grammar the model driver prints.
pub fn impl_answer(case: &Case) -> String {
    if std::env::var_os("CEL_INFLIGHT_DIR").is_some() {
        inflight_write("case", &corpus_line(case));
    }
    for p in &case.prelude {
        note_input(&format!("compile (prelude) src={p:?}"));
        let _ = quietly(|| catch_unwind(|| if p.len() % 2 == 0 { Program::compile(p).map(|_| ()) } else { Program::try_from(p.as_str()).map(|_| ()) }));
    }
    note_input(&format!("{} {}{}", case.kind, case.src.as_deref().map(|s| format!("src={s:?} ")).unwrap_or_default(), case.payload.chars().take(2000).collect::<String>()));
    let payload = parse_all(&case.payload);
    match case.kind.as_str() {
        "binop" => {
            let op = payload[0].as_atom().unwrap_or("").to_string();
            let a = sx_to_value(&payload[1]).expect("bad value");
            let b = sx_to_value(&payload[2]).expect("bad value");
            let r = quietly(|| catch_unwind(AssertUnwindSafe(|| match op.as_str() {
                "add" => result_to_sx(&(a + b)).to_text(),
                "sub" => result_to_sx(&(a - b)).to_text(),
                "mul" => result_to_sx(&(a * b)).to_text(),
                "div" => result_to_sx(&(a / b)).to_text(),
                "rem" => result_to_sx(&(a % b)).to_text(),
                "eq" => value_to_sx(&Value::Bool(a == b)).to_text(),
                "cmp" => ord_atom(a.partial_cmp(&b)).to_string(),
                _ => "(bad-op)".to_string(),
            })));
            r.unwrap_or_else(|_| "(panic)".to_string())
        }
        "eval" => {
            let spec = CtxSpec::from_sx(&payload[0]).expect("bad ctx");
            eval_on_impl(&spec, case.src.as_deref(), payload.get(1))
        }
        "run" => {
            let spec = CtxSpec::from_sx(&payload[0]).expect("bad ctx");
            let src = String::from_utf8_lossy(&crate::sx::unhex(payload[1].as_atom().unwrap_or("x"))).into_owned();
            eval_on_impl(&spec, Some(&src), None)
        }
        "c01" => {
            let src = String::from_utf8_lossy(&crate::sx::unhex(payload[0].as_atom().unwrap_or("x"))).into_owned();
            let t0 = std::time::Instant::now();
            let r = quietly(|| catch_unwind(|| cel_interpreter::Program::compile(&src).map(|_| ())));
            let slow = t0.elapsed().as_secs_f64() > 5.0;
            match r {
                Err(_) => "(panic)".to_string(),
                Ok(Ok(())) => {
                    // the AST as the parser crate reports it (same parse)
                    let ast = quietly(|| catch_unwind(|| cel_parser::Parser::new().parse(&src)));
                    match ast {
                        Ok(Ok(a)) => format!("(c01 (ast {}) {})", expr_to_sx(&a).to_text(), if slow { "slow" } else { "ok" }),
                        _ => "(c01 (ast inconsistent) ok)".to_string(),
                    }
                }
                Ok(Err(errs)) => {
                    let lines: Vec<&str> = src.split('\n').collect();
                    let mut problem = String::new();
                    if errs.errors.is_empty() {
                        problem = "empty-error-list".into();
                    }
                    for e in &errs.errors {
                        let text = match quietly(|| catch_unwind(AssertUnwindSafe(|| e.to_string()))) {
                            Ok(t) => t,
                            Err(_) => return "(panic)".to_string(),
                        };
                        if text.trim().is_empty() {
                            problem = "empty-error-text".into();
                        }
                        let (line, col) = e.pos;
                        let n_lines = lines.len().max(1) as isize;
                        if (line, col) == (0, 0) {
                            // the implementation's marker for "no position known" (`pos: (0, 0)` for
                            // its UNKNOWN error, `pos_for(..).unwrap_or_default()` for errors on
                            // placeholder nodes): not a position beyond the source
                        } else if line < 1 || line > n_lines {
                            problem = format!("line-{line}-of-{n_lines}");
                        } else {
                            let len = lines.get((line - 1) as usize).map_or(0, |l| l.chars().count()) as isize;
                            if col < 1 || col > len + 1 {
                                problem = format!("column-{col}-beyond-line-{line}-of-length-{len}");
                            }
                        }
                    }
                    match quietly(|| catch_unwind(AssertUnwindSafe(|| errs.to_string()))) {
                        Ok(t) if t.trim().is_empty() => problem = "empty-rendering".into(),
                        Ok(_) => {}
                        Err(_) => return "(panic)".to_string(),
                    }
                    if slow {
                        problem = "slow".into();
                    }
                    format!("(c01 (reject) {})", if problem.is_empty() { "ok".to_string() } else { problem })
                }
            }
        }
        "compile" => {
            let src = String::from_utf8_lossy(&crate::sx::unhex(payload[0].as_atom().unwrap_or("x"))).into_owned();
            match quietly(|| catch_unwind(|| cel_parser::Parser::new().parse(&src))) {
                Err(_) => "(panic)".to_string(),
                Ok(Err(_)) => "(reject)".to_string(),
                Ok(Ok(ast)) => format!("(ast {})", expr_to_sx(&ast).to_text()),
            }
        }
        "serde" => {
            let data = crate::anyser::Any::from_sx(&payload[0]).expect("bad data");
            let r = quietly(|| {
                catch_unwind(AssertUnwindSafe(|| {
                    let v = cel_interpreter::to_value(&data);
                    let vtxt = match &v {
                        Ok(x) => format!("(ok {})", value_to_sx(x).to_text()),
                        Err(cel_interpreter::SerializationError::InvalidKey(_)) => "(err invalid-key)".to_string(),
                        Err(_) => "(err serde-error)".to_string(),
                    };
                    let jtxt = match &v {
                        Ok(x) => match x.json() {
                            Ok(j) => format!("(ok {})", crate::anyser::json_to_sx(&j).to_text()),
                            Err(_) => "(jerr)".to_string(),
                        },
                        Err(_) => "-".to_string(),
                    };
                    let stxt = match serde_json::to_value(&data) {
                        Ok(j) => format!("(ok {})", crate::anyser::json_to_sx(&j).to_text()),
                        Err(_) => "(err)".to_string(),
                    };
                    format!("(serde {vtxt} {jtxt} {stxt})")
                }))
            });
            r.unwrap_or_else(|_| "(panic)".to_string())
        }
        "serdehr" => {
            // host types from outside this framework whose `Serialize` impl consults
            // `Serializer::is_human_readable()` (std's network addresses): conversion must still
            // commute with serde_json, i.e. the serializer must present itself as human readable
            let idx: usize = payload[0].as_atom().and_then(|a| a.parse().ok()).unwrap_or(0);
            let r = quietly(|| {
                catch_unwind(AssertUnwindSafe(|| {
                    fn both<T: serde::Serialize>(x: &T) -> String {
                        let direct = serde_json::to_value(x).ok();
                        let via = cel_interpreter::to_value(x).ok().and_then(|v| v.json().ok());
                        if direct.is_some() && direct == via {
                            "(serdehr same)".to_string()
                        } else {
                            format!("(serdehr differs x{} x{})", crate::sx::hex(format!("{via:?}").as_bytes()), crate::sx::hex(format!("{direct:?}").as_bytes()))
                        }
                    }
                    use std::net::{IpAddr, Ipv4Addr, Ipv6Addr, SocketAddr};
                    // 128-bit integers: signed ones are ints, unsigned ones uints, or the conversion fails
                    fn wide<T: serde::Serialize>(x: &T, want: Option<cel_interpreter::Value>) -> String {
                        match cel_interpreter::to_value(x) {
                            Err(_) => "(serdehr same)".to_string(),
                            Ok(v) if Some(&v) == want.as_ref() && want.as_ref().map(std::mem::discriminant) == Some(std::mem::discriminant(&v)) => "(serdehr same)".to_string(),
                            Ok(v) => format!("(serdehr differs x{} x{})", crate::sx::hex(format!("{v:?}").as_bytes()), crate::sx::hex(format!("{want:?}").as_bytes())),
                        }
                    }
                    match idx {
                        9 => wide(&42i128, Some(cel_interpreter::Value::Int(42))),
                        10 => wide(&-5i128, Some(cel_interpreter::Value::Int(-5))),
                        11 => wide(&(1u128 << 70), None),
                        12 => wide(&7u128, Some(cel_interpreter::Value::UInt(7))),
                        13 => wide(&(i64::MAX as i128 + 1), None),
                        14 => wide(&(1i128 << 63), None),
                        15 => wide(&(u64::MAX as u128), Some(cel_interpreter::Value::UInt(u64::MAX))),
                        0 => both(&Ipv4Addr::new(192, 168, 0, 10)),
                        1 => both(&Ipv6Addr::LOCALHOST),
                        2 => both(&IpAddr::V4(Ipv4Addr::new(10, 0, 0, 1))),
                        3 => both(&IpAddr::V6(Ipv6Addr::new(0x2001, 0xdb8, 0, 0, 0, 0, 0, 1))),
                        4 => both(&SocketAddr::from(([127, 0, 0, 1], 8080))),
                        5 => both(&vec![IpAddr::V4(Ipv4Addr::UNSPECIFIED), IpAddr::V6(Ipv6Addr::UNSPECIFIED)]),
                        6 => both(&std::collections::BTreeMap::from([("a".to_string(), Ipv4Addr::BROADCAST)])),
                        7 => both(&Some(SocketAddr::from((Ipv6Addr::LOCALHOST, 443)))),
                        _ => both(&(IpAddr::V4(Ipv4Addr::new(192, 168, 0, 10)), vec![SocketAddr::from(([10, 1, 2, 3], 1))], "n".to_string())),
                    }
                }))
            });
            r.unwrap_or_else(|_| "(panic)".to_string())
        }
        "json" => {
            let v = sx_to_value(&payload[0]).expect("bad value");
            let r = quietly(|| {
                catch_unwind(AssertUnwindSafe(|| match v.json() {
                    Ok(j) => {
                        let back = cel_interpreter::to_value(&j).map(|x| value_to_sx(&x).to_text()).unwrap_or_else(|_| "(reimport-error)".into());
                        format!("(json (ok {}) {back})", crate::anyser::json_to_sx(&j).to_text())
                    }
                    Err(_) => "(json (jerr) -)".to_string(),
                }))
            });
            r.unwrap_or_else(|_| "(panic)".to_string())
        }
        "cmp2" => {
            let a = sx_to_value(&payload[0]).expect("bad value");
            // identical operands are compared as a host would compare a value with a clone of
            // itself: the clone shares its `Arc`s with the original
            let b = if payload[0].to_text() == payload[1].to_text() { a.clone() } else { sx_to_value(&payload[1]).expect("bad value") };
            let r = quietly(|| {
                catch_unwind(AssertUnwindSafe(|| {
                    format!("(cmp2 {} {} {} {})", (a == b) as u8, (b == a) as u8, ord_atom(a.partial_cmp(&b)), ord_atom(b.partial_cmp(&a)))
                }))
            });
            r.unwrap_or_else(|_| "(panic)".to_string())
        }
        "history" => {
            let spec = CtxSpec::from_sx(&payload[0]).expect("bad ctx");
            let srcs: Vec<String> = case.src.clone().unwrap_or_default().split('\u{1}').map(String::from).collect();
            let log: Log = Arc::new(Mutex::new(vec![]));
            let r = quietly(|| {
                catch_unwind(AssertUnwindSafe(|| {
                    spec.with_context(&log, |ctx| {
                        let names: Vec<String> = spec.vars.iter().chain(spec.scopes.iter().flatten()).map(|(n, _)| n.clone()).collect();
                        let snapshot = |ctx: &cel_interpreter::Context| -> Vec<String> { names.iter().map(|n| ctx.get_variable(n.clone()).map(|v| value_to_sx(&v).to_text()).unwrap_or_else(|_| "none".into())).collect() };
                        let before = snapshot(ctx);
                        let mut out = String::from("(history");
                        let mut verdict = "pure".to_string();
                        let mut kept: Vec<(Value, String)> = vec![];
                        let progs: Vec<Option<Program>> = srcs.iter().map(|s| Program::compile(s).ok()).collect();
                        for (i, p) in progs.iter().enumerate() {
                            let Some(p) = p else {
                                out.push_str(" (res (compile-error) (log))");
                                continue;
                            };
                            log.lock().unwrap().clear();
                            let r1 = p.execute(ctx);
                            let l1 = log_to_sx(&log.lock().unwrap()).to_text();
                            out.push_str(&format!(" (res {} {})", result_to_sx(&r1).to_text(), l1));
                            // executing again against the same context gives an equal result
                            log.lock().unwrap().clear();
                            let r2 = p.execute(ctx);
                            if result_to_sx(&r1).to_text() != result_to_sx(&r2).to_text() {
                                verdict = format!("(impure repeat-differs {i})");
                            }
                            // the context and every value obtained earlier are unchanged
                            if snapshot(ctx) != before {
                                verdict = format!("(impure context-changed-by {i})");
                            }
                            for (v, txt) in &kept {
                                if value_to_sx(v).to_text() != *txt {
                                    verdict = format!("(impure earlier-result-changed-by {i})");
                                }
                            }
                            if let Ok(v) = r1 {
                                let t = value_to_sx(&v).to_text();
                                kept.push((v, t));
                            }
                        }
                        out.push(' ');
                        out.push_str(&verdict);
                        out.push(')');
                        out
                    })
                }))
            });
            r.unwrap_or_else(|_| "(panic)".to_string())
        }
        "evalpair" => {
            let spec = CtxSpec::from_sx(&payload[0]).expect("bad ctx");
            let srcs: Vec<String> = case.src.clone().unwrap_or_default().split('\u{1}').map(String::from).collect();
            format!(
                "(pair {} {})",
                eval_on_impl(&spec, srcs.first().map(|s| s.as_str()), payload.get(1)),
                eval_on_impl(&spec, srcs.get(1).map(|s| s.as_str()), payload.get(2))
            )
        }
        "refs" | "refexec" => {
            let src = case.src.clone().unwrap_or_default();
            let spec = if case.kind == "refexec" { CtxSpec::from_sx(&payload[0]) } else { None };
            let r = quietly(|| {
                catch_unwind(AssertUnwindSafe(|| {
                    let prog = match Program::compile(&src) {
                        Ok(p) => p,
                        Err(_) => return "(compile-error)".to_string(),
                    };
                    let refs = prog.references();
                    let mut vars: Vec<String> = refs.variables().iter().map(|s| s.to_string()).collect();
                    let mut funcs: Vec<String> = refs.functions().iter().map(|s| s.to_string()).collect();
                    vars.sort();
                    vars.dedup();
                    funcs.sort();
                    funcs.dedup();
                    // the membership accessors answer for exactly the names the listings hold; a name
                    // only `has_variable` / `has_function` knows is reported as if it were listed,
                    // one they deny although listed shows up under a marker name
                    {
                        let mut probes: Vec<String> = vec!["@result".into(), "@result1".into(), "@result2".into(), "@x".into(), "@in".into(), "@not_strictly_false".into(), "_+_".into(), "nope_never_mentioned".into()];
                        probes.extend(vars.iter().cloned());
                        probes.extend(funcs.iter().cloned());
                        for pname in probes {
                            match (refs.has_variable(&pname), vars.contains(&pname)) {
                                (true, false) => vars.push(pname.clone()),
                                (false, true) => vars.push(format!("@has_variable-denies-{pname}")),
                                _ => {}
                            }
                            match (refs.has_function(&pname), funcs.contains(&pname)) {
                                (true, false) => funcs.push(pname.clone()),
                                (false, true) => funcs.push(format!("@has_function-denies-{pname}")),
                                _ => {}
                            }
                        }
                        vars.sort();
                        vars.dedup();
                        funcs.sort();
                        funcs.dedup();
                    }
                    let names = |v: &[String]| v.iter().map(|n| format!(" {}", crate::sx::hex(n.as_bytes()))).collect::<String>();
                    match &spec {
                        None => format!("(refs (vars{}) (funcs{}))", names(&vars), names(&funcs)),
                        Some(spec) => {
                            let log: Log = Arc::new(Mutex::new(vec![]));
                            let res = spec.with_context(&log, |ctx| prog.execute(ctx));
                            format!("(refexec (vars{}) (funcs{}) {})", names(&vars), names(&funcs), result_to_sx(&res).to_text())
                        }
                    }
                }))
            });
            r.unwrap_or_else(|_| "(panic)".to_string())
        }
        "ctxops" => {
            let r = quietly(|| {
                catch_unwind(AssertUnwindSafe(|| {
                    let mut out = String::from("(obs");
                    let mut root = cel_interpreter::Context::empty();
                    let mut i = 0usize;
                    run_ctx_ops(&mut root, &payload, &mut i, &mut out);
                    out.push(')');
                    out
                }))
            });
            r.unwrap_or_else(|_| "(panic)".to_string())
        }
        "macro" => {
            let src = case.src.clone().unwrap_or_default();
            match quietly(|| catch_unwind(|| cel_parser::Parser::new().parse(&src))) {
                Err(_) => "(panic)".to_string(),
                Ok(Err(_)) => "(macro-error)".to_string(),
                Ok(Ok(ast)) => match &ast.expr {
                    cel_parser::ast::Expr::Call(_) => "(not-macro)".to_string(),
                    _ => format!("(expanded {})", expr_to_sx(&ast).to_text()),
                },
            }
        }
        _ => "(bad-case)".to_string(),
    }
}

/// For observations that depend on the unspecified iteration order of a map: sort the entries
/// of the call log and of a top-level result list.
pub fn normalize_unordered(ans: &str) -> String {
    fn sort_children(x: &Sx, tag: &str) -> Sx {
        match x {
            Sx::List(v) if v.first().and_then(|a| a.as_atom()) == Some(tag) => {
                let mut rest: Vec<String> = v[1..].iter().map(|c| c.to_text()).collect();
                rest.sort();
                let mut out = vec![v[0].clone()];
                out.extend(rest.into_iter().map(Sx::Atom));
                Sx::List(out)
            }
            other => other.clone(),
        }
    }
    let parsed = parse_all(ans);
    let mut out = vec![];
    for x in parsed {
        if let Sx::List(v) = &x {
            if v.first().and_then(|a| a.as_atom()) == Some("res") && v.len() == 3 {
                let outcome = match &v[1] {
                    Sx::List(o) if o.len() == 2 && o[0].as_atom() == Some("ok") => Sx::List(vec![o[0].clone(), sort_children(&o[1], "list")]),
                    o => o.clone(),
                };
                out.push(Sx::List(vec![v[0].clone(), outcome, sort_children(&v[2], "log")]).to_text());
                continue;
            }
        }
        out.push(x.to_text());
    }
    out.join(" ")
}

/// compile + execute on both sides from the source text (the model uses its own parser)
pub fn run_case(spec: &CtxSpec, src: &str) -> Case {
    let mut c = Case::new("run", format!("{} {}", spec.to_sx().to_text(), crate::sx::hex(src.as_bytes())));
    c.src = Some(src.to_string());
    c
}

pub fn compile_case(src: &str) -> Case {
    Case::new("compile", crate::sx::hex(src.as_bytes()))
}

/// A history of programs executed one after the other against one context.
pub fn history_case(spec: &CtxSpec, srcs: &[String]) -> Option<Case> {
    note_input(&format!("compile srcs={srcs:?}"));
    let p = |s: &str| quietly(|| catch_unwind(|| cel_parser::Parser::new().parse(s))).ok()?.ok();
    let asts: Option<Vec<String>> = srcs.iter().map(|s| p(s).map(|a| expr_to_sx(&a).to_text())).collect();
    let mut c = Case::new("history", format!("{} {}", spec.to_sx().to_text(), asts?.join(" ")));
    c.src = Some(srcs.join("\u{1}"));
    Some(c)
}

/// Two programs against one context (both call styles of a function).
pub fn evalpair_case(spec: &CtxSpec, src1: &str, src2: &str) -> Option<Case> {
    note_input(&format!("compile src={src1:?}"));
    let p = |s: &str| quietly(|| catch_unwind(|| cel_parser::Parser::new().parse(s))).ok()?.ok();
    let (a, b) = (p(src1)?, p(src2)?);
    let mut c = Case::new("evalpair", format!("{} {} {}", spec.to_sx().to_text(), expr_to_sx(&a).to_text(), expr_to_sx(&b).to_text()));
    c.src = Some(format!("{src1}\u{1}{src2}"));
    Some(c)
}

/// Compile `src` with the real parser and build the `eval` case whose payload carries the AST
/// the implementation produced (so the model evaluates exactly the tree the evaluator sees).
pub fn eval_case_from_src(spec: &CtxSpec, src: &str) -> Option<Case> {
    if std::env::var_os("CEL_INFLIGHT_DIR").is_some() {
        inflight_write("case", &format!("compile\t{}", crate::sx::hex(src.as_bytes())));
    }
    note_input(&format!("compile src={src:?}"));
    let ast = match quietly(|| catch_unwind(|| cel_parser::Parser::new().parse(src))) {
        Ok(Ok(a)) => a,
        // the real parser rejects (or panics on) this text: the case is NOT dropped - it becomes a
        // `run` case, in which the model compiles the text itself; for a text that is really
        // malformed both sides answer `compile-error`, for a valid text that a changed parser
        // no longer accepts the two answers differ
        _ => return Some(run_case(spec, src)),
    };
    let mut c = Case::new("eval", format!("{} {}", spec.to_sx().to_text(), expr_to_sx(&ast).to_text()));
    c.src = Some(src.to_string());
    c.from_source = true;
    Some(c)
}

fn run_ctx_ops(ctx: &mut cel_interpreter::Context, ops: &[Sx], i: &mut usize, out: &mut String) {
    let name = |x: &Sx| String::from_utf8_lossy(&crate::sx::unhex(x.as_atom().unwrap_or("x"))).into_owned();
    while *i < ops.len() {
        let op = ops[*i].as_list().unwrap_or(&[]).to_vec();
        *i += 1;
        match op.first().and_then(|a| a.as_atom()) {
            Some("def") => {
                // both host entry points define variables: `add_variable` (any Serialize) and
                // `add_variable_from_value`; alternate between them so that each is exercised in
                // every position of a history
                let v = sx_to_value(&op[2]).expect("bad value");
                match (&v, *i % 2) {
                    (Value::Int(n), 0) => {
                        let _ = ctx.add_variable(name(&op[1]), *n);
                    }
                    (Value::Bool(b), 0) => {
                        let _ = ctx.add_variable(name(&op[1]), *b);
                    }
                    (Value::String(t), 0) => {
                        let _ = ctx.add_variable(name(&op[1]), t.as_str());
                    }
                    _ => ctx.add_variable_from_value(name(&op[1]), v),
                }
            }
            Some("baddef") => {
                // a host value the conversion refuses (a map with a `None` key): the call reports
                // an error and must leave every binding as it was (the model skips the operation)
                let bad = std::collections::BTreeMap::from([(None::<i64>, 1i64)]);
                if ctx.add_variable(name(&op[1]), bad).is_ok() {
                    out.push_str(" accepted-unconvertible-value");
                }
            }
            Some("push") => {
                let mut child = ctx.new_inner_scope();
                run_ctx_ops(&mut child, ops, i, out);
            }
            Some("pop") => return,
            Some("fn") => ctx.add_function(&name(&op[1]), || -> i64 { 1 }),
            Some("get") => match ctx.get_variable(name(&op[1])) {
                Ok(v) => {
                    out.push(' ');
                    out.push_str(&value_to_sx(&v).to_text());
                }
                Err(_) => out.push_str(" none"),
            },
            Some("probe") => {
                let n = name(&op[1]);
                let present = match Program::compile(&format!("{n}()")) {
                    Ok(p) => !matches!(p.execute(ctx), Err(cel_interpreter::ExecutionError::UndeclaredReference(_))),
                    Err(_) => false,
                };
                out.push_str(if present { " (fn 1)" } else { " (fn 0)" });
            }
            _ => {}
        }
    }
}
