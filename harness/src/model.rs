//! The compiled Lean driver as a child process; batch queries.
use std::io::{BufRead, BufReader, Write};
use std::process::{Command, Stdio};

/// Sends every line to a fresh driver process and returns the answer lines (id stripped is the
/// caller's business). Lines are written from a helper thread so that pipes never deadlock.
pub fn query_batch(model: &str, lines: &[String]) -> Result<Vec<String>, String> {
    if lines.is_empty() {
        return Ok(vec![]);
    }
    let mut child = Command::new(model)
        .stdin(Stdio::piped())
        .stdout(Stdio::piped())
        .stderr(Stdio::inherit())
        .spawn()
        .map_err(|e| format!("cannot start model driver {model}: {e}"))?;
    let mut stdin = child.stdin.take().unwrap();
    let stdout = child.stdout.take().unwrap();
    let owned: Vec<String> = lines.to_vec();
    let writer = std::thread::spawn(move || {
        for l in owned {
            if stdin.write_all(l.as_bytes()).is_err() || stdin.write_all(b"\n").is_err() {
                break;
            }
        }
        let _ = stdin.flush();
    });
    let mut out = Vec::with_capacity(lines.len());
    for line in BufReader::new(stdout).lines() {
        out.push(line.map_err(|e| e.to_string())?);
    }
    let _ = writer.join();
    let _ = child.wait();
    if out.len() != lines.len() {
        return Err(format!("model driver answered {} of {} lines", out.len(), lines.len()));
    }
    Ok(out)
}

/// Parallel version: shards the lines over `jobs` driver processes, preserving order.
pub fn query_parallel(model: &str, lines: &[String], jobs: usize) -> Result<Vec<String>, String> {
    let jobs = jobs.max(1).min(lines.len().max(1));
    if jobs == 1 || lines.len() < 2000 {
        return query_batch(model, lines);
    }
    let chunk = (lines.len() + jobs - 1) / jobs;
    let results: Vec<Result<Vec<String>, String>> = std::thread::scope(|s| {
        let hs: Vec<_> = lines.chunks(chunk).map(|c| s.spawn(move || query_batch(model, c))).collect();
        hs.into_iter().map(|h| h.join().unwrap()).collect()
    });
    let mut out = Vec::with_capacity(lines.len());
    for r in results {
        out.extend(r?);
    }
    Ok(out)
}
