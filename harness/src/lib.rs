//! celharness library: shared by the main driver and the concurrency driver.
pub mod anyser;
pub mod ctx;
pub mod gen;
pub mod model;
pub mod prng;
pub mod props;
pub mod run;
pub mod sx;
pub mod wire;
