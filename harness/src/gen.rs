//! Generators: boundary-biased values, literals in source text, typed and untyped expressions.
use crate::ctx::CtxSpec;
use crate::prng::Rng;
use cel_interpreter::objects::{Key, Map};
use cel_interpreter::Value;
use std::collections::HashMap;
use std::sync::Arc;

#[derive(Clone, Debug, PartialEq)]
pub enum Ty {
    Int,
    Uint,
    Double,
    Bool,
    Str,
    Bytes,
    Null,
    List(Box<Ty>),
    Map(Box<Ty>, Box<Ty>),
    Dur,
    Ts,
}

pub const I64_EDGE: [i64; 24] = [
    0, 1, -1, 2, -2, 3, 7, 10, 100, -100, 255, 65536, 2147483647, -2147483648, 4294967296,
    9007199254740992, 9007199254740993, -9007199254740993, 4611686018427387904, i64::MAX,
    i64::MAX - 1, i64::MIN, i64::MIN + 1, 3037000500,
];
pub const U64_EDGE: [u64; 16] = [
    0, 1, 2, 3, 10, 255, 65536, 4294967295, 4294967296, 9007199254740993, 9223372036854775807,
    9223372036854775808, u64::MAX, u64::MAX - 1, 6074001000, 1000000007,
];
pub const F64_EDGE_BITS: [u64; 26] = [
    0x0000000000000000, 0x8000000000000000, 0x3ff0000000000000, 0xbff0000000000000,
    0x3fe0000000000000, 0x3ff8000000000000, 0xbff8000000000000, 0x4000000000000000,
    0x400921fb54442d18, 0x3fb999999999999a, 0x4340000000000000, 0x4340000000000001,
    0x433fffffffffffff, 0xc340000000000000, 0x43e0000000000000, 0xc3e0000000000000,
    0x43f0000000000000, 0x43dfffffffffffff, 0x7fefffffffffffff, 0x0000000000000001,
    0x0010000000000000, 0x7ff0000000000000, 0xfff0000000000000, 0x7ff8000000000000,
    0x41dfffffffc00000, 0x3ca0000000000000,
];
pub const STR_POOL: [&str; 18] = [
    "", "a", "b", "ab", "abc", "hello", "Hello World", "a b", "é", "héllo", "✌", "🐱", "aé✌🐱", "0", "42",
    "-7", "1.5", "x'y\"z",
];
pub const NAMES: [&str; 6] = ["x", "y", "z", "v", "w", "k"];

pub fn gen_i64(rng: &mut Rng) -> i64 {
    match rng.below(10) {
        0..=4 => *rng.pick(&I64_EDGE),
        5..=6 => rng.range(-5, 20),
        7 => rng.next() as i64,
        _ => {
            let bits = rng.below(63) as u32 + 1;
            let v = (rng.next() >> (64 - bits)) as i64;
            if rng.chance(1, 2) {
                -v
            } else {
                v
            }
        }
    }
}
pub fn gen_u64(rng: &mut Rng) -> u64 {
    match rng.below(10) {
        0..=4 => *rng.pick(&U64_EDGE),
        5..=6 => rng.below(20),
        7 => rng.next(),
        _ => rng.next() >> rng.below(64),
    }
}
pub fn gen_f64(rng: &mut Rng, finite_only: bool) -> f64 {
    loop {
        let f = match rng.below(10) {
            0..=4 => f64::from_bits(*rng.pick(&F64_EDGE_BITS)),
            5 => rng.range(-10, 10) as f64,
            6 => rng.range(-1000, 1000) as f64 / 8.0,
            7 => f64::from_bits(rng.next()),
            8 => gen_i64(rng) as f64,
            _ => (rng.range(-99999, 99999) as f64) * 10f64.powi(rng.range(-12, 12) as i32),
        };
        if !finite_only || f.is_finite() {
            return f;
        }
    }
}
pub fn gen_string(rng: &mut Rng) -> String {
    if rng.chance(2, 3) {
        rng.pick(&STR_POOL).to_string()
    } else {
        let n = rng.below(8);
        let alphabet: Vec<char> = "abcxyz019 _-.é✌🐱'\"\\\n\t\u{0}\u{7f}\u{ff}\u{100}\u{ffff}\u{10000}".chars().collect();
        (0..n).map(|_| *rng.pick(&alphabet)).collect()
    }
}
pub fn gen_bytes(rng: &mut Rng) -> Vec<u8> {
    match rng.below(4) {
        0 => vec![],
        1 => rng.pick(&STR_POOL).as_bytes().to_vec(),
        _ => (0..rng.below(6)).map(|_| *rng.pick(&[0u8, 1, 0x41, 0x7f, 0x80, 0xbf, 0xc3, 0xa9, 0xe2, 0xf0, 0xff, 0x61])).collect(),
    }
}

pub fn gen_duration(rng: &mut Rng) -> chrono::TimeDelta {
    let ns: i128 = match rng.below(8) {
        0 => 0,
        1 => *rng.pick(&[1i128, -1, 999, 1000, 1_000_000, 1_000_000_000, -1_000_000_000, 59_999_999_999, 60_000_000_000, 3_600_000_000_000]),
        2 => i64::MAX as i128,
        3 => i64::MIN as i128,
        4 => gen_i64(rng) as i128,
        5 => (i64::MAX as i128) * 1_000_000 - rng.below(3) as i128, // chrono's limit
        6 => -((i64::MAX as i128) * 1_000_000) + rng.below(3) as i128,
        _ => rng.range(-1_000_000_000_000, 1_000_000_000_000) as i128,
    };
    crate::wire::dur_from_ns(ns).unwrap_or_else(chrono::TimeDelta::zero)
}

pub fn gen_timestamp(rng: &mut Rng) -> chrono::DateTime<chrono::FixedOffset> {
    let off = *rng.pick(&[0i64, 3600, -3600, 19800, -43200, 50400, 5400]);
    let ns: i128 = match rng.below(8) {
        0 => 0,
        1 => 951782400_000000000,                  // 2000-02-29
        2 => -62135596800_000000000,               // 0001-01-01
        3 => 253402300799_999999999,               // 9999-12-31T23:59:59.999999999
        4 => 8210266876799_999999999,              // chrono MAX_UTC
        5 => -8334601228800_000000000,             // chrono MIN_UTC
        6 => rng.range(-62135596800, 253402300799) as i128 * 1_000_000_000 + rng.below(1_000_000_000) as i128,
        _ => rng.range(0, 4102444800) as i128 * 1_000_000_000 + *rng.pick(&[0i128, 1, 999_999_999, 123_000_000, 500_000]),
    };
    crate::wire::ts_from_parts(ns, off).or_else(|| crate::wire::ts_from_parts(ns, 0)).unwrap_or_default()
}

pub fn gen_value(rng: &mut Rng, ty: &Ty, depth: u32) -> Value {
    match ty {
        Ty::Int => Value::Int(gen_i64(rng)),
        Ty::Uint => Value::UInt(gen_u64(rng)),
        Ty::Double => Value::Float(gen_f64(rng, false)),
        Ty::Bool => Value::Bool(rng.chance(1, 2)),
        Ty::Str => Value::String(Arc::new(gen_string(rng))),
        Ty::Bytes => Value::Bytes(Arc::new(gen_bytes(rng))),
        Ty::Null => Value::Null,
        Ty::Dur => Value::Duration(gen_duration(rng)),
        Ty::Ts => Value::Timestamp(gen_timestamp(rng)),
        Ty::List(t) => {
            let n = if depth == 0 { 0 } else { rng.below(5) };
            Value::List(Arc::new((0..n).map(|_| gen_value(rng, t, depth.saturating_sub(1))).collect()))
        }
        Ty::Map(k, v) => {
            let n = if depth == 0 { 0 } else { rng.below(4) };
            let mut m = HashMap::new();
            for _ in 0..n {
                let key = match gen_value(rng, k, 0) {
                    Value::Int(i) => Key::Int(if rng.chance(2, 3) { i.rem_euclid(5) } else { i }),
                    Value::UInt(u) => Key::Uint(if rng.chance(2, 3) { u % 5 } else { u }),
                    Value::Bool(b) => Key::Bool(b),
                    Value::String(s) => Key::String(s),
                    _ => Key::Int(0),
                };
                m.insert(key, gen_value(rng, v, depth.saturating_sub(1)));
            }
            Value::Map(Map { map: Arc::new(m) })
        }
    }
}

pub fn gen_scalar_ty(rng: &mut Rng) -> Ty {
    match rng.below(8) {
        0 | 1 => Ty::Int,
        2 => Ty::Uint,
        3 => Ty::Double,
        4 => Ty::Bool,
        5 | 6 => Ty::Str,
        _ => Ty::Bytes,
    }
}
pub fn gen_key_ty(rng: &mut Rng) -> Ty {
    match rng.below(5) {
        0 => Ty::Int,
        1 => Ty::Uint,
        2 => Ty::Bool,
        _ => Ty::Str,
    }
}
pub fn gen_ty(rng: &mut Rng, depth: u32) -> Ty {
    if depth == 0 || rng.chance(3, 5) {
        return gen_scalar_ty(rng);
    }
    match rng.below(4) {
        0 | 1 => Ty::List(Box::new(gen_ty(rng, depth - 1))),
        2 => Ty::Map(Box::new(gen_key_ty(rng)), Box::new(gen_ty(rng, depth - 1))),
        _ => Ty::Null,
    }
}

// ------------------------------------------------------------------ literals in source text

pub fn str_literal(s: &str) -> String {
    let mut out = String::from("\"");
    for c in s.chars() {
        match c {
            '"' => out.push_str("\\\""),
            '\\' => out.push_str("\\\\"),
            '\n' => out.push_str("\\n"),
            '\r' => out.push_str("\\r"),
            '\t' => out.push_str("\\t"),
            c if (c as u32) < 0x20 || c as u32 == 0x7f => out.push_str(&format!("\\x{:02x}", c as u32)),
            c => out.push(c),
        }
    }
    out.push('"');
    out
}
pub fn bytes_literal(b: &[u8]) -> String {
    let mut out = String::from("b\"");
    for &x in b {
        if x.is_ascii_alphanumeric() || x == b' ' {
            out.push(x as char);
        } else {
            out.push_str(&format!("\\x{:02x}", x));
        }
    }
    out.push('"');
    out
}
pub fn f64_literal(f: f64) -> Option<String> {
    if !f.is_finite() {
        return None;
    }
    let s = format!("{:?}", f);
    let s = if s.contains('.') || s.contains('e') { s } else { format!("{s}.0") };
    Some(if f.is_sign_negative() { format!("({s})") } else { s })
}
/// a literal denoting `v`, when one exists
pub fn value_literal(v: &Value) -> Option<String> {
    Some(match v {
        Value::Int(i) => {
            if *i < 0 {
                format!("({i})")
            } else {
                i.to_string()
            }
        }
        Value::UInt(u) => format!("{u}u"),
        Value::Float(f) => f64_literal(*f)?,
        Value::Bool(b) => b.to_string(),
        Value::Null => "null".into(),
        Value::String(s) => str_literal(s),
        Value::Bytes(b) => bytes_literal(b),
        Value::List(xs) => format!("[{}]", xs.iter().map(value_literal).collect::<Option<Vec<_>>>()?.join(", ")),
        Value::Map(m) => {
            let mut es: Vec<(&Key, &Value)> = m.map.iter().collect();
            es.sort_by(|a, b| crate::wire::key_cmp(a.0, b.0));
            let parts: Option<Vec<String>> = es
                .into_iter()
                .map(|(k, v)| Some(format!("{}: {}", value_literal(&Value::from(k))?, value_literal(v)?)))
                .collect();
            format!("{{{}}}", parts?.join(", "))
        }
        _ => return None,
    })
}

// ------------------------------------------------------------------ expressions

pub struct ExprGen<'a> {
    pub rng: &'a mut Rng,
    /// variables in scope: context variables and macro-bound names
    pub env: Vec<(String, Ty)>,
    /// host functions `name -> arity` that may be sprinkled into expressions
    pub macros: bool,
    /// probability (in 1/100) that a sub-expression ignores the requested type
    pub ill_typed_pct: u64,
    pub max_map_macro_entries: usize,
    pub fresh: u32,
}

impl<'a> ExprGen<'a> {
    pub fn new(rng: &'a mut Rng, env: Vec<(String, Ty)>) -> Self {
        ExprGen { rng, env, macros: true, ill_typed_pct: 0, max_map_macro_entries: 1, fresh: 0 }
    }

    fn vars_of(&self, ty: &Ty) -> Vec<String> {
        self.env.iter().filter(|(_, t)| t == ty).map(|(n, _)| n.clone()).collect()
    }

    pub fn literal(&mut self, ty: &Ty, depth: u32) -> String {
        let v = gen_value(self.rng, ty, depth.min(2));
        match value_literal(&v) {
            Some(s) => s,
            None => match ty {
                Ty::Double => "1.5".into(),
                Ty::Dur => format!("duration({})", str_literal(*self.rng.pick(&["0s", "1s", "90m", "1h30m", "-2s", "1.5ms", "100ns"]))),
                Ty::Ts => format!(
                    "timestamp({})",
                    str_literal(*self.rng.pick(&["2000-02-29T12:34:56Z", "1970-01-01T00:00:00Z", "2023-12-31T23:59:59.999+05:30", "0001-01-01T00:00:00-08:00"]))
                ),
                _ => "null".into(),
            },
        }
    }

    fn leaf(&mut self, ty: &Ty, depth: u32) -> String {
        let vs = self.vars_of(ty);
        if !vs.is_empty() && self.rng.chance(1, 2) {
            return self.rng.pick(&vs).clone();
        }
        self.literal(ty, depth)
    }

    fn fresh_var(&mut self) -> String {
        // reuse a small pool so that shadowing happens
        let n = NAMES[(self.fresh as usize + self.rng.below(3) as usize) % NAMES.len()];
        self.fresh += 1;
        n.to_string()
    }

    fn with_var<R>(&mut self, name: &str, ty: Ty, f: impl FnOnce(&mut Self) -> R) -> R {
        self.env.push((name.to_string(), ty));
        let r = f(self);
        self.env.pop();
        r
    }

    fn numeric(&mut self) -> Ty {
        match self.rng.below(3) {
            0 => Ty::Int,
            1 => Ty::Uint,
            _ => Ty::Double,
        }
    }
    fn comparable(&mut self) -> Ty {
        match self.rng.below(6) {
            0 => Ty::Int,
            1 => Ty::Uint,
            2 => Ty::Double,
            3 => Ty::Str,
            4 => Ty::Bool,
            _ => Ty::Int,
        }
    }

    /// an expression intended to have type `ty`
    pub fn expr(&mut self, ty: &Ty, depth: u32) -> String {
        if self.ill_typed_pct > 0 && self.rng.below(100) < self.ill_typed_pct {
            let t = gen_ty(self.rng, 1);
            let saved = self.ill_typed_pct;
            let s = self.expr_typed(&t, depth);
            self.ill_typed_pct = saved;
            return s;
        }
        self.expr_typed(ty, depth)
    }

    fn expr_typed(&mut self, ty: &Ty, depth: u32) -> String {
        if depth == 0 {
            return self.leaf(ty, 1);
        }
        let d = depth - 1;
        // generic productions available at every type
        match self.rng.below(12) {
            0 | 1 => return self.leaf(ty, depth),
            2 => {
                let c = self.expr(&Ty::Bool, d);
                let a = self.expr(ty, d);
                let b = self.expr(ty, d);
                return format!("({c} ? {a} : {b})");
            }
            3 => {
                // index into a list literal / variable of this element type
                let l = self.expr(&Ty::List(Box::new(ty.clone())), d);
                let i = if self.rng.chance(3, 4) { self.rng.range(0, 3).to_string() } else { self.expr(&Ty::Int, d) };
                return format!("{l}[{i}]");
            }
            4 => {
                let kt = gen_key_ty(self.rng);
                let m = self.expr(&Ty::Map(Box::new(kt.clone()), Box::new(ty.clone())), d);
                let k = self.expr(&kt, d.min(1));
                return format!("{m}[{k}]");
            }
            _ => {}
        }
        match ty {
            Ty::Int => match self.rng.below(12) {
                0..=4 => {
                    let op = *self.rng.pick(&["+", "-", "*", "/", "%"]);
                    format!("({} {op} {})", self.expr(&Ty::Int, d), self.expr(&Ty::Int, d))
                }
                5 => format!("(-{})", self.expr(&Ty::Int, d)),
                6 => {
                    let t = match self.rng.below(4) {
                        0 => Ty::Str,
                        1 => Ty::Bytes,
                        2 => Ty::List(Box::new(gen_scalar_ty(self.rng))),
                        _ => Ty::Map(Box::new(gen_key_ty(self.rng)), Box::new(Ty::Int)),
                    };
                    if self.rng.chance(1, 2) {
                        format!("size({})", self.expr(&t, d))
                    } else {
                        format!("{}.size()", self.expr(&t, d))
                    }
                }
                7 => {
                    let t = match self.rng.below(4) {
                        0 => Ty::Uint,
                        1 => Ty::Double,
                        2 => Ty::Int,
                        _ => Ty::Str,
                    };
                    if t == Ty::Str {
                        let s = if self.rng.chance(3, 4) { str_literal(&gen_i64(self.rng).to_string()) } else { self.expr(&Ty::Str, d) };
                        format!("int({s})")
                    } else {
                        format!("int({})", self.expr(&t, d))
                    }
                }
                8 => {
                    // timestamp accessor
                    let acc = *self.rng.pick(&["getFullYear", "getMonth", "getDayOfYear", "getDayOfMonth", "getDate", "getDayOfWeek", "getHours", "getMinutes", "getSeconds", "getMilliseconds"]);
                    format!("{}.{acc}()", self.expr(&Ty::Ts, d))
                }
                _ => self.leaf(ty, depth),
            },
            Ty::Uint => match self.rng.below(8) {
                0..=4 => {
                    let op = *self.rng.pick(&["+", "-", "*", "/", "%"]);
                    format!("({} {op} {})", self.expr(&Ty::Uint, d), self.expr(&Ty::Uint, d))
                }
                5 => {
                    let t = match self.rng.below(3) {
                        0 => Ty::Int,
                        1 => Ty::Double,
                        _ => Ty::Uint,
                    };
                    format!("uint({})", self.expr(&t, d))
                }
                6 => format!("uint({})", str_literal(&gen_u64(self.rng).to_string())),
                _ => self.leaf(ty, depth),
            },
            Ty::Double => match self.rng.below(8) {
                0..=3 => {
                    let op = *self.rng.pick(&["+", "-", "*", "/"]);
                    format!("({} {op} {})", self.expr(&Ty::Double, d), self.expr(&Ty::Double, d))
                }
                4 => format!("(-{})", self.expr(&Ty::Double, d)),
                5 => {
                    let t = self.numeric();
                    format!("double({})", self.expr(&t, d))
                }
                6 => {
                    let s = *self.rng.pick(&["1.5", "-0.0", "1e10", "inf", "NaN", "0.1", "1e400", "abc", ".5", "1."]);
                    format!("double({})", str_literal(s))
                }
                _ => self.leaf(ty, depth),
            },
            Ty::Bool => match self.rng.below(20) {
                0..=3 => {
                    let t = self.comparable();
                    let op = *self.rng.pick(&["<", "<=", ">", ">=", "==", "!="]);
                    format!("({} {op} {})", self.expr(&t, d), self.expr(&t, d))
                }
                4 => {
                    // cross-type numeric comparison
                    let (a, b) = (self.numeric(), self.numeric());
                    let op = *self.rng.pick(&["<", "<=", ">", ">=", "==", "!="]);
                    format!("({} {op} {})", self.expr(&a, d), self.expr(&b, d))
                }
                5 => {
                    let t = gen_ty(self.rng, 1);
                    let op = *self.rng.pick(&["==", "!="]);
                    format!("({} {op} {})", self.expr(&t, d), self.expr(&t, d))
                }
                6 => format!("(!{})", self.expr(&Ty::Bool, d)),
                7 | 8 => format!("({} && {})", self.expr(&Ty::Bool, d), self.expr(&Ty::Bool, d)),
                9 | 10 => format!("({} || {})", self.expr(&Ty::Bool, d), self.expr(&Ty::Bool, d)),
                11 => {
                    let t = gen_scalar_ty(self.rng);
                    format!("({} in {})", self.expr(&t, d), self.expr(&Ty::List(Box::new(t.clone())), d))
                }
                12 => {
                    let kt = gen_key_ty(self.rng);
                    let m = Ty::Map(Box::new(kt.clone()), Box::new(Ty::Int));
                    if self.rng.chance(1, 2) {
                        format!("({} in {})", self.expr(&kt, d), self.expr(&m, d))
                    } else {
                        format!("{}.contains({})", self.expr(&m, d), self.expr(&kt, d))
                    }
                }
                13 => {
                    let f = *self.rng.pick(&["contains", "startsWith", "endsWith"]);
                    format!("{}.{f}({})", self.expr(&Ty::Str, d), self.expr(&Ty::Str, d))
                }
                14 => {
                    let pat = *self.rng.pick(&["^[a-z]*$", "a", "^$", "[0-9]+", "h.llo", "(", "é", "\\\\d"]);
                    format!("{}.matches({})", self.expr(&Ty::Str, d), str_literal(pat))
                }
                15 => {
                    let field = *self.rng.pick(&["a", "b", "ab", "hello", "x", "size", "min", "contains", "string", "matches"]);
                    format!("has({}.{field})", self.expr(&Ty::Map(Box::new(Ty::Str), Box::new(Ty::Int)), d))
                }
                16..=18 if self.macros => {
                    let et = gen_scalar_ty(self.rng);
                    let l = self.expr(&Ty::List(Box::new(et.clone())), d);
                    let v = self.fresh_var();
                    let m = *self.rng.pick(&["all", "exists", "exists_one", "existsOne"]);
                    let body = self.with_var(&v, et, |g| g.expr(&Ty::Bool, d));
                    format!("{l}.{m}({v}, {body})")
                }
                _ => self.leaf(ty, depth),
            },
            Ty::Str => match self.rng.below(8) {
                0..=2 => format!("({} + {})", self.expr(&Ty::Str, d), self.expr(&Ty::Str, d)),
                3 | 4 => {
                    let t = match self.rng.below(6) {
                        0 => Ty::Int,
                        1 => Ty::Uint,
                        2 => Ty::Double,
                        3 => Ty::Bytes,
                        4 => Ty::Dur,
                        _ => Ty::Str,
                    };
                    format!("string({})", self.expr(&t, d))
                }
                5 => format!("string({})", self.expr(&Ty::Ts, d)),
                _ => self.leaf(ty, depth),
            },
            Ty::Bytes => match self.rng.below(4) {
                0 => format!("bytes({})", self.expr(&Ty::Str, d)),
                _ => self.leaf(ty, depth),
            },
            Ty::Null => self.leaf(ty, depth),
            Ty::Dur => match self.rng.below(4) {
                0 => format!("({} + {})", self.expr(&Ty::Dur, d), self.expr(&Ty::Dur, d)),
                1 => format!("({} - {})", self.expr(&Ty::Dur, d), self.expr(&Ty::Dur, d)),
                2 => format!("({} - {})", self.expr(&Ty::Ts, d), self.expr(&Ty::Ts, d)),
                _ => self.leaf(ty, depth),
            },
            Ty::Ts => match self.rng.below(4) {
                0 => format!("({} + {})", self.expr(&Ty::Ts, d), self.expr(&Ty::Dur, d)),
                1 => format!("({} - {})", self.expr(&Ty::Ts, d), self.expr(&Ty::Dur, d)),
                2 => format!("({} + {})", self.expr(&Ty::Dur, d), self.expr(&Ty::Ts, d)),
                _ => self.leaf(ty, depth),
            },
            Ty::List(et) => match self.rng.below(10) {
                0 | 1 => {
                    let n = self.rng.below(4);
                    let parts: Vec<String> = (0..n).map(|_| self.expr(et, d)).collect();
                    format!("[{}]", parts.join(", "))
                }
                2 | 3 => format!("({} + {})", self.expr(ty, d), self.expr(ty, d)),
                4 | 5 if self.macros => {
                    let st = gen_scalar_ty(self.rng);
                    let l = self.expr(&Ty::List(Box::new(st.clone())), d);
                    let v = self.fresh_var();
                    if self.rng.chance(1, 3) {
                        let (p, f) = self.with_var(&v, st, |g| (g.expr(&Ty::Bool, d), g.expr(et, d)));
                        format!("{l}.map({v}, {p}, {f})")
                    } else {
                        let f = self.with_var(&v, st, |g| g.expr(et, d));
                        format!("{l}.map({v}, {f})")
                    }
                }
                6 if self.macros => {
                    let l = self.expr(ty, d);
                    let v = self.fresh_var();
                    let p = self.with_var(&v, (**et).clone(), |g| g.expr(&Ty::Bool, d));
                    format!("{l}.filter({v}, {p})")
                }
                _ => self.leaf(ty, depth),
            },
            Ty::Map(kt, vt) => match self.rng.below(4) {
                0 | 1 => {
                    let n = self.rng.below(4);
                    let parts: Vec<String> = (0..n)
                        .map(|_| {
                            let k = self.literal(kt, 0);
                            format!("{k}: {}", self.expr(vt, d))
                        })
                        .collect();
                    format!("{{{}}}", parts.join(", "))
                }
                _ => self.leaf(ty, depth),
            },
        }
    }
}

/// a context whose variables cover every type, with boundary-biased values
pub fn gen_context(rng: &mut Rng, exotic: bool) -> (CtxSpec, Vec<(String, Ty)>) {
    let mut spec = CtxSpec::default_ctx();
    let mut env = vec![];
    let decls: Vec<(&str, Ty)> = vec![
        ("i0", Ty::Int),
        ("i1", Ty::Int),
        ("u0", Ty::Uint),
        ("d0", Ty::Double),
        ("s0", Ty::Str),
        ("s1", Ty::Str),
        ("b0", Ty::Bytes),
        ("t0", Ty::Bool),
        ("n0", Ty::Null),
        ("li", Ty::List(Box::new(Ty::Int))),
        ("ls", Ty::List(Box::new(Ty::Str))),
        ("ld", Ty::List(Box::new(Ty::Double))),
        ("msi", Ty::Map(Box::new(Ty::Str), Box::new(Ty::Int))),
        ("mis", Ty::Map(Box::new(Ty::Int), Box::new(Ty::Str))),
        ("mui", Ty::Map(Box::new(Ty::Uint), Box::new(Ty::Int))),
    ];
    for (n, t) in decls {
        if rng.chance(4, 5) {
            spec.vars.push((n.to_string(), gen_value(rng, &t, 2)));
            env.push((n.to_string(), t));
        }
    }
    if exotic {
        for (n, t) in [("dur0", Ty::Dur), ("dur1", Ty::Dur), ("ts0", Ty::Ts), ("ts1", Ty::Ts)] {
            spec.vars.push((n.to_string(), gen_value(rng, &t, 1)));
            env.push((n.to_string(), t));
        }
    }
    (spec, env)
}
