//! A recursive "any serde type": each constructor calls exactly the `Serializer` method it names.
use crate::sx::{hex, unhex, Sx};
use crate::wire::f64_bits;
use serde::ser::{SerializeMap, SerializeSeq, SerializeStruct, SerializeStructVariant, SerializeTuple, SerializeTupleStruct, SerializeTupleVariant};
use serde::{Serialize, Serializer};

#[derive(Clone, Debug)]
pub enum Any {
    Bool(bool),
    I8(i8),
    I16(i16),
    I32(i32),
    I64(i64),
    I128(i128),
    U8(u8),
    U16(u16),
    U32(u32),
    U64(u64),
    U128(u128),
    F32(f32),
    F64(f64),
    Char(char),
    Str(String),
    Bytes(Vec<u8>),
    None,
    Some(Box<Any>),
    Unit,
    UnitStruct(&'static str),
    UnitVariant(&'static str, &'static str),
    NewtypeStruct(&'static str, Box<Any>),
    NewtypeVariant(&'static str, &'static str, Box<Any>),
    Seq(Vec<Any>),
    Tuple(Vec<Any>),
    TupleStruct(&'static str, Vec<Any>),
    TupleVariant(&'static str, &'static str, Vec<Any>),
    Map(Vec<(Any, Any)>),
    Struct(&'static str, Vec<(&'static str, Any)>),
    StructVariant(&'static str, &'static str, Vec<(&'static str, Any)>),
    CelDuration(chrono::TimeDelta),
    CelTimestamp(chrono::DateTime<chrono::FixedOffset>),
}

impl Serialize for Any {
    fn serialize<S: Serializer>(&self, s: S) -> Result<S::Ok, S::Error> {
        match self {
            Any::Bool(b) => s.serialize_bool(*b),
            Any::I8(v) => s.serialize_i8(*v),
            Any::I16(v) => s.serialize_i16(*v),
            Any::I32(v) => s.serialize_i32(*v),
            Any::I64(v) => s.serialize_i64(*v),
            Any::I128(v) => s.serialize_i128(*v),
            Any::U8(v) => s.serialize_u8(*v),
            Any::U16(v) => s.serialize_u16(*v),
            Any::U32(v) => s.serialize_u32(*v),
            Any::U64(v) => s.serialize_u64(*v),
            Any::U128(v) => s.serialize_u128(*v),
            Any::F32(v) => s.serialize_f32(*v),
            Any::F64(v) => s.serialize_f64(*v),
            Any::Char(c) => s.serialize_char(*c),
            Any::Str(v) => s.serialize_str(v),
            Any::Bytes(b) => s.serialize_bytes(b),
            Any::None => s.serialize_none(),
            Any::Some(v) => s.serialize_some(v.as_ref()),
            Any::Unit => s.serialize_unit(),
            Any::UnitStruct(n) => s.serialize_unit_struct(n),
            Any::UnitVariant(n, v) => s.serialize_unit_variant(n, 0, v),
            Any::NewtypeStruct(n, v) => s.serialize_newtype_struct(n, v.as_ref()),
            Any::NewtypeVariant(n, var, v) => s.serialize_newtype_variant(n, 0, var, v.as_ref()),
            Any::Seq(vs) => {
                let mut q = s.serialize_seq(Some(vs.len()))?;
                for v in vs {
                    q.serialize_element(v)?;
                }
                q.end()
            }
            Any::Tuple(vs) => {
                let mut q = s.serialize_tuple(vs.len())?;
                for v in vs {
                    q.serialize_element(v)?;
                }
                q.end()
            }
            Any::TupleStruct(n, vs) => {
                let mut q = s.serialize_tuple_struct(n, vs.len())?;
                for v in vs {
                    q.serialize_field(v)?;
                }
                q.end()
            }
            Any::TupleVariant(n, var, vs) => {
                let mut q = s.serialize_tuple_variant(n, 0, var, vs.len())?;
                for v in vs {
                    q.serialize_field(v)?;
                }
                q.end()
            }
            Any::Map(es) => {
                let mut q = s.serialize_map(Some(es.len()))?;
                for (k, v) in es {
                    q.serialize_key(k)?;
                    q.serialize_value(v)?;
                }
                q.end()
            }
            Any::Struct(n, fs) => {
                let mut q = s.serialize_struct(n, fs.len())?;
                for (f, v) in fs {
                    q.serialize_field(f, v)?;
                }
                q.end()
            }
            Any::StructVariant(n, var, fs) => {
                let mut q = s.serialize_struct_variant(n, 0, var, fs.len())?;
                for (f, v) in fs {
                    q.serialize_field(f, v)?;
                }
                q.end()
            }
            Any::CelDuration(d) => cel_interpreter::Duration(*d).serialize(s),
            Any::CelTimestamp(t) => cel_interpreter::Timestamp(*t).serialize(s),
        }
    }
}

fn name(n: &str) -> Sx {
    Sx::atom(hex(n.as_bytes()))
}

impl Any {
    pub fn to_sx(&self) -> Sx {
        let t = Sx::tagged;
        let a = |s: String| Sx::atom(s);
        match self {
            Any::Bool(b) => t("bool", vec![a((*b as u8).to_string())]),
            Any::I8(v) => t("int", vec![a(v.to_string())]),
            Any::I16(v) => t("int", vec![a(v.to_string())]),
            Any::I32(v) => t("int", vec![a(v.to_string())]),
            Any::I64(v) => t("int", vec![a(v.to_string())]),
            Any::U8(v) => t("uint", vec![a(v.to_string())]),
            Any::U16(v) => t("uint", vec![a(v.to_string())]),
            Any::U32(v) => t("uint", vec![a(v.to_string())]),
            Any::U64(v) => t("uint", vec![a(v.to_string())]),
            Any::I128(_) | Any::U128(_) => Sx::atom("wide"),
            Any::F32(v) => t("float", vec![a(format!("{:016x}", f64_bits(f64::from(*v))))]),
            Any::F64(v) => t("float", vec![a(format!("{:016x}", f64_bits(*v)))]),
            Any::Char(c) => t("char", vec![name(&c.to_string())]),
            Any::Str(s) => t("str", vec![name(s)]),
            Any::Bytes(b) => t("bytes", vec![a(hex(b))]),
            Any::None => Sx::atom("none"),
            Any::Some(v) => t("some", vec![v.to_sx()]),
            Any::Unit => Sx::atom("unit"),
            Any::UnitStruct(n) => t("unitstruct", vec![name(n)]),
            Any::UnitVariant(n, v) => t("unitvariant", vec![name(n), name(v)]),
            Any::NewtypeStruct(n, v) => t("ntstruct", vec![name(n), v.to_sx()]),
            Any::NewtypeVariant(n, var, v) => t("ntvariant", vec![name(n), name(var), v.to_sx()]),
            Any::Seq(vs) => t("seq", vs.iter().map(|v| v.to_sx()).collect()),
            Any::Tuple(vs) => t("tuple", vs.iter().map(|v| v.to_sx()).collect()),
            Any::TupleStruct(n, vs) => {
                let mut x = vec![name(n)];
                x.extend(vs.iter().map(|v| v.to_sx()));
                t("tstruct", x)
            }
            Any::TupleVariant(n, var, vs) => {
                let mut x = vec![name(n), name(var)];
                x.extend(vs.iter().map(|v| v.to_sx()));
                t("tvariant", x)
            }
            Any::Map(es) => t("map", es.iter().map(|(k, v)| Sx::list(vec![k.to_sx(), v.to_sx()])).collect()),
            Any::Struct(n, fs) => {
                let mut x = vec![name(n)];
                x.extend(fs.iter().map(|(f, v)| Sx::list(vec![name(f), v.to_sx()])));
                t("struct", x)
            }
            Any::StructVariant(n, var, fs) => {
                let mut x = vec![name(n), name(var)];
                x.extend(fs.iter().map(|(f, v)| Sx::list(vec![name(f), v.to_sx()])));
                t("svariant", x)
            }
            Any::CelDuration(d) => t("celdur", vec![a(crate::wire::dur_ns(d).to_string())]),
            Any::CelTimestamp(ts) => {
                let (ns, off) = crate::wire::ts_parts(ts);
                t("celts", vec![a(ns.to_string()), a(off.to_string())])
            }
        }
    }

    pub fn from_sx(x: &Sx) -> Option<Any> {
        fn leak(s: String) -> &'static str {
            Box::leak(s.into_boxed_str())
        }
        let nm = |a: &Sx| String::from_utf8_lossy(&unhex(a.as_atom().unwrap_or("x"))).into_owned();
        if let Some(a) = x.as_atom() {
            return Some(match a {
                "wide" => Any::I128(i128::MAX),
                "none" => Any::None,
                "unit" => Any::Unit,
                _ => return None,
            });
        }
        let l = x.as_list()?;
        let kids = |from: usize| -> Option<Vec<Any>> { l[from..].iter().map(Any::from_sx).collect() };
        let fields = |from: usize| -> Option<Vec<(&'static str, Any)>> {
            l[from..].iter().map(|e| e.as_list().and_then(|p| Some((leak(nm(p.first()?)), Any::from_sx(p.get(1)?)?)))).collect()
        };
        Some(match l.first()?.as_atom()? {
            "bool" => Any::Bool(l.get(1)?.as_atom()? == "1"),
            "int" => Any::I64(l.get(1)?.as_atom()?.parse().ok()?),
            "uint" => Any::U64(l.get(1)?.as_atom()?.parse().ok()?),
            "float" => Any::F64(f64::from_bits(u64::from_str_radix(l.get(1)?.as_atom()?, 16).ok()?)),
            "char" => Any::Char(nm(l.get(1)?).chars().next()?),
            "str" => Any::Str(nm(l.get(1)?)),
            "bytes" => Any::Bytes(unhex(l.get(1)?.as_atom()?)),
            "some" => Any::Some(Box::new(Any::from_sx(l.get(1)?)?)),
            "unitstruct" => Any::UnitStruct(leak(nm(l.get(1)?))),
            "unitvariant" => Any::UnitVariant(leak(nm(l.get(1)?)), leak(nm(l.get(2)?))),
            "ntstruct" => Any::NewtypeStruct(leak(nm(l.get(1)?)), Box::new(Any::from_sx(l.get(2)?)?)),
            "ntvariant" => Any::NewtypeVariant(leak(nm(l.get(1)?)), leak(nm(l.get(2)?)), Box::new(Any::from_sx(l.get(3)?)?)),
            "seq" => Any::Seq(kids(1)?),
            "tuple" => Any::Tuple(kids(1)?),
            "tstruct" => Any::TupleStruct(leak(nm(l.get(1)?)), kids(2)?),
            "tvariant" => Any::TupleVariant(leak(nm(l.get(1)?)), leak(nm(l.get(2)?)), kids(3)?),
            "map" => Any::Map(l[1..].iter().map(|e| e.as_list().and_then(|p| Some((Any::from_sx(p.first()?)?, Any::from_sx(p.get(1)?)?)))).collect::<Option<Vec<_>>>()?),
            "struct" => Any::Struct(leak(nm(l.get(1)?)), fields(2)?),
            "svariant" => Any::StructVariant(leak(nm(l.get(1)?)), leak(nm(l.get(2)?)), fields(3)?),
            "celdur" => Any::CelDuration(crate::wire::dur_from_ns(l.get(1)?.as_atom()?.parse().ok()?)?),
            "celts" => Any::CelTimestamp(crate::wire::ts_from_parts(l.get(1)?.as_atom()?.parse().ok()?, l.get(2)?.as_atom()?.parse().ok()?)?),
            _ => return None,
        })
    }
}

pub fn json_to_sx(j: &serde_json::Value) -> Sx {
    use serde_json::Value as J;
    match j {
        J::Null => Sx::atom("jnull"),
        J::Bool(b) => Sx::tagged("jbool", vec![Sx::atom((*b as u8).to_string())]),
        J::Number(n) => {
            if let Some(i) = n.as_i64() {
                Sx::tagged("jint", vec![Sx::atom(i.to_string())])
            } else if let Some(u) = n.as_u64() {
                Sx::tagged("jint", vec![Sx::atom(u.to_string())])
            } else {
                Sx::tagged("jdbl", vec![Sx::atom(format!("{:016x}", f64_bits(n.as_f64().unwrap_or(f64::NAN))))])
            }
        }
        J::String(s) => Sx::tagged("jstr", vec![name(s)]),
        J::Array(xs) => Sx::tagged("jarr", xs.iter().map(json_to_sx).collect()),
        J::Object(m) => {
            let mut es: Vec<(&String, &J)> = m.iter().collect();
            es.sort_by(|a, b| a.0.as_bytes().cmp(b.0.as_bytes()));
            Sx::tagged("jobj", es.into_iter().map(|(k, v)| Sx::list(vec![name(k), json_to_sx(v)])).collect())
        }
    }
}
