//! Conversions between the implementation's types and the wire s-expressions.
use crate::sx::{hex, unhex, Sx};
use cel_interpreter::objects::{Key, Map};
use cel_interpreter::{ExecutionError, Value};
use cel_parser::ast::{
    CallExpr, ComprehensionExpr, EntryExpr, Expr, IdedEntryExpr, IdedExpr, ListExpr, MapEntryExpr,
    MapExpr, SelectExpr, StructExpr, StructFieldExpr,
};
use cel_parser::reference::Val;
use chrono::{DateTime, FixedOffset, TimeDelta};
use std::collections::HashMap;
use std::sync::Arc;

pub const NAN_BITS: u64 = 0x7ff8000000000000;

pub fn f64_bits(f: f64) -> u64 {
    if f.is_nan() {
        NAN_BITS
    } else {
        f.to_bits()
    }
}

pub fn dur_ns(d: &TimeDelta) -> i128 {
    d.num_seconds() as i128 * 1_000_000_000 + d.subsec_nanos() as i128
}

pub fn dur_from_ns(ns: i128) -> Option<TimeDelta> {
    let secs = ns.div_euclid(1_000_000_000);
    let nanos = ns.rem_euclid(1_000_000_000);
    TimeDelta::new(i64::try_from(secs).ok()?, nanos as u32)
}

pub fn ts_parts(t: &DateTime<FixedOffset>) -> (i128, i64) {
    (
        t.timestamp() as i128 * 1_000_000_000 + t.timestamp_subsec_nanos() as i128,
        t.offset().local_minus_utc() as i64,
    )
}

pub fn ts_from_parts(utc_ns: i128, off: i64) -> Option<DateTime<FixedOffset>> {
    let secs = utc_ns.div_euclid(1_000_000_000);
    let nanos = utc_ns.rem_euclid(1_000_000_000);
    let utc = DateTime::from_timestamp(i64::try_from(secs).ok()?, nanos as u32)?;
    let off = FixedOffset::east_opt(off as i32)?;
    Some(utc.with_timezone(&off))
}

fn key_rank(k: &Key) -> u8 {
    match k {
        Key::Int(_) => 0,
        Key::Uint(_) => 1,
        Key::Bool(_) => 2,
        Key::String(_) => 3,
    }
}

pub fn key_cmp(a: &Key, b: &Key) -> std::cmp::Ordering {
    match (a, b) {
        (Key::Int(x), Key::Int(y)) => x.cmp(y),
        (Key::Uint(x), Key::Uint(y)) => x.cmp(y),
        (Key::Bool(x), Key::Bool(y)) => x.cmp(y),
        (Key::String(x), Key::String(y)) => x.as_bytes().cmp(y.as_bytes()),
        _ => key_rank(a).cmp(&key_rank(b)),
    }
}

pub fn key_to_sx(k: &Key) -> Sx {
    match k {
        Key::Int(i) => Sx::tagged("int", vec![Sx::atom(i.to_string())]),
        Key::Uint(u) => Sx::tagged("uint", vec![Sx::atom(u.to_string())]),
        Key::Bool(b) => Sx::tagged("bool", vec![Sx::atom(if *b { "1" } else { "0" })]),
        Key::String(s) => Sx::tagged("str", vec![Sx::atom(hex(s.as_bytes()))]),
    }
}

/// Canonical form: map entries sorted by (key kind, key), NaN collapsed.
pub fn value_to_sx(v: &Value) -> Sx {
    match v {
        Value::Int(i) => Sx::tagged("int", vec![Sx::atom(i.to_string())]),
        Value::UInt(u) => Sx::tagged("uint", vec![Sx::atom(u.to_string())]),
        Value::Float(f) => Sx::tagged("dbl", vec![Sx::atom(format!("{:016x}", f64_bits(*f)))]),
        Value::String(s) => Sx::tagged("str", vec![Sx::atom(hex(s.as_bytes()))]),
        Value::Bytes(b) => Sx::tagged("bytes", vec![Sx::atom(hex(b))]),
        Value::Bool(b) => Sx::tagged("bool", vec![Sx::atom(if *b { "1" } else { "0" })]),
        Value::Null => Sx::atom("null"),
        Value::List(xs) => Sx::tagged("list", xs.iter().map(value_to_sx).collect()),
        Value::Map(m) => {
            let mut es: Vec<(&Key, &Value)> = m.map.iter().collect();
            es.sort_by(|a, b| key_cmp(a.0, b.0));
            Sx::tagged(
                "map",
                es.into_iter()
                    .map(|(k, v)| Sx::list(vec![key_to_sx(k), value_to_sx(v)]))
                    .collect(),
            )
        }
        Value::Duration(d) => Sx::tagged("dur", vec![Sx::atom(dur_ns(d).to_string())]),
        Value::Timestamp(t) => {
            let (ns, off) = ts_parts(t);
            Sx::tagged("ts", vec![Sx::atom(ns.to_string()), Sx::atom(off.to_string())])
        }
        Value::Function(name, recv) => {
            let mut v = vec![Sx::atom(hex(name.as_bytes()))];
            if let Some(r) = recv {
                v.push(value_to_sx(r));
            }
            Sx::tagged("fn", v)
        }
    }
}

fn atom_str(x: &Sx) -> String {
    String::from_utf8_lossy(&unhex(x.as_atom().unwrap_or("x"))).into_owned()
}

pub fn sx_to_key(x: &Sx) -> Option<Key> {
    match sx_to_value(x)? {
        Value::Int(i) => Some(Key::Int(i)),
        Value::UInt(u) => Some(Key::Uint(u)),
        Value::Bool(b) => Some(Key::Bool(b)),
        Value::String(s) => Some(Key::String(s)),
        _ => None,
    }
}

pub fn sx_to_value(x: &Sx) -> Option<Value> {
    if let Some(a) = x.as_atom() {
        return if a == "null" { Some(Value::Null) } else { None };
    }
    let l = x.as_list()?;
    let tag = l.first()?.as_atom()?;
    Some(match tag {
        "int" => Value::Int(l.get(1)?.as_atom()?.parse().ok()?),
        "uint" => Value::UInt(l.get(1)?.as_atom()?.parse().ok()?),
        "dbl" => Value::Float(f64::from_bits(u64::from_str_radix(l.get(1)?.as_atom()?, 16).ok()?)),
        "str" => Value::String(Arc::new(l.get(1).map(atom_str).unwrap_or_default())),
        "bytes" => Value::Bytes(Arc::new(l.get(1).map(|a| unhex(a.as_atom().unwrap_or("x"))).unwrap_or_default())),
        "bool" => Value::Bool(l.get(1)?.as_atom()? == "1"),
        "list" => Value::List(Arc::new(l[1..].iter().map(sx_to_value).collect::<Option<Vec<_>>>()?)),
        "map" => {
            let mut m = HashMap::new();
            for e in &l[1..] {
                let kv = e.as_list()?;
                m.insert(sx_to_key(kv.first()?)?, sx_to_value(kv.get(1)?)?);
            }
            Value::Map(Map { map: Arc::new(m) })
        }
        "dur" => Value::Duration(dur_from_ns(l.get(1)?.as_atom()?.parse().ok()?)?),
        "ts" => Value::Timestamp(ts_from_parts(
            l.get(1)?.as_atom()?.parse().ok()?,
            l.get(2)?.as_atom()?.parse().ok()?,
        )?),
        "fn" => Value::Function(
            Arc::new(atom_str(l.get(1)?)),
            match l.get(2) {
                Some(v) => Some(Box::new(sx_to_value(v)?)),
                None => None,
            },
        ),
        _ => return None,
    })
}

/// Error classes of DESIGN.md Appendix A.
pub fn err_to_sx(e: &ExecutionError) -> Sx {
    use ExecutionError::*;
    let cls = match e {
        IntegerOverflow(..) => "overflow",
        DivisionByZero(_) => "div0",
        RemainderByZero(_) => "rem0",
        UndeclaredReference(n) => {
            return Sx::tagged("err", vec![Sx::atom("undeclared"), Sx::atom(hex(n.as_bytes()))])
        }
        NoSuchKey(_) => "nosuchkey",
        ValuesNotComparable(..) => "notcomparable",
        UnsupportedBinaryOperator(..) | UnsupportedUnaryOperator(..) => "unsupported-op",
        UnsupportedMapIndex(_) | UnsupportedListIndex(_) | UnsupportedIndex(..) => "bad-index",
        UnsupportedKeyType(_) => "bad-key",
        InvalidArgumentCount { .. } => "bad-argc",
        UnexpectedType { .. } => "bad-type",
        MissingArgumentOrTarget => "missing-target",
        FunctionError { .. } => "function-error",
        UnsupportedTargetType { .. } => "bad-target",
        _ => "other",
    };
    Sx::tagged("err", vec![Sx::atom(cls)])
}

pub fn result_to_sx(r: &Result<Value, ExecutionError>) -> Sx {
    match r {
        Ok(v) => Sx::tagged("ok", vec![value_to_sx(v)]),
        Err(e) => err_to_sx(e),
    }
}

// ---------------------------------------------------------------- AST

pub fn val_to_value(v: &Val) -> Value {
    match v {
        Val::String(s) => Value::String(Arc::new(s.clone())),
        Val::Boolean(b) => Value::Bool(*b),
        Val::Int(i) => Value::Int(*i),
        Val::UInt(u) => Value::UInt(*u),
        Val::Double(d) => Value::Float(*d),
        Val::Bytes(b) => Value::Bytes(Arc::new(b.clone())),
        Val::Null => Value::Null,
    }
}

fn name(s: &str) -> Sx {
    Sx::atom(hex(s.as_bytes()))
}

pub fn expr_to_sx(e: &IdedExpr) -> Sx {
    match &e.expr {
        Expr::Unspecified => Sx::atom("unspec"),
        Expr::Literal(v) => Sx::tagged("lit", vec![value_to_sx(&val_to_value(v))]),
        Expr::Ident(n) => Sx::tagged("id", vec![name(n)]),
        Expr::Call(c) => {
            let mut v = vec![name(&c.func_name)];
            let tag = match &c.target {
                Some(t) => {
                    v.push(expr_to_sx(t));
                    "mcall"
                }
                None => "call",
            };
            v.extend(c.args.iter().map(expr_to_sx));
            Sx::tagged(tag, v)
        }
        Expr::Select(s) => Sx::tagged(
            "sel",
            vec![expr_to_sx(&s.operand), name(&s.field), Sx::atom(if s.test { "1" } else { "0" })],
        ),
        Expr::List(l) => Sx::tagged("list", l.elements.iter().map(expr_to_sx).collect()),
        Expr::Map(m) => Sx::tagged(
            "map",
            m.entries
                .iter()
                .map(|en| match &en.expr {
                    EntryExpr::MapEntry(me) => Sx::list(vec![expr_to_sx(&me.key), expr_to_sx(&me.value)]),
                    EntryExpr::StructField(sf) => Sx::list(vec![Sx::atom("unspec"), expr_to_sx(&sf.value)]),
                })
                .collect(),
        ),
        Expr::Struct(s) => {
            let mut v = vec![name(&s.type_name)];
            for en in &s.entries {
                match &en.expr {
                    EntryExpr::StructField(sf) => v.push(Sx::list(vec![name(&sf.field), expr_to_sx(&sf.value)])),
                    EntryExpr::MapEntry(me) => v.push(Sx::list(vec![name("?"), expr_to_sx(&me.value)])),
                }
            }
            Sx::tagged("struct", v)
        }
        Expr::Comprehension(c) => Sx::tagged(
            "comp",
            vec![
                name(&c.iter_var),
                expr_to_sx(&c.iter_range),
                name(&c.accu_var),
                expr_to_sx(&c.accu_init),
                expr_to_sx(&c.loop_cond),
                expr_to_sx(&c.loop_step),
                expr_to_sx(&c.result),
            ],
        ),
    }
}

fn ided(expr: Expr) -> IdedExpr {
    IdedExpr { id: 0, expr }
}

fn value_to_val(v: &Value) -> Option<Val> {
    Some(match v {
        Value::String(s) => Val::String(s.as_ref().clone()),
        Value::Bool(b) => Val::Boolean(*b),
        Value::Int(i) => Val::Int(*i),
        Value::UInt(u) => Val::UInt(*u),
        Value::Float(d) => Val::Double(*d),
        Value::Bytes(b) => Val::Bytes(b.as_ref().clone()),
        Value::Null => Val::Null,
        _ => return None,
    })
}

pub fn sx_to_expr(x: &Sx) -> Option<IdedExpr> {
    if let Some(a) = x.as_atom() {
        return if a == "unspec" { Some(ided(Expr::Unspecified)) } else { None };
    }
    let l = x.as_list()?;
    let tag = l.first()?.as_atom()?;
    Some(match tag {
        "lit" => ided(Expr::Literal(value_to_val(&sx_to_value(l.get(1)?)?)?)),
        "id" => ided(Expr::Ident(atom_str(l.get(1)?))),
        "call" => ided(Expr::Call(CallExpr {
            func_name: atom_str(l.get(1)?),
            target: None,
            args: l[2..].iter().map(sx_to_expr).collect::<Option<Vec<_>>>()?,
        })),
        "mcall" => ided(Expr::Call(CallExpr {
            func_name: atom_str(l.get(1)?),
            target: Some(Box::new(sx_to_expr(l.get(2)?)?)),
            args: l[3..].iter().map(sx_to_expr).collect::<Option<Vec<_>>>()?,
        })),
        "sel" => ided(Expr::Select(SelectExpr {
            operand: Box::new(sx_to_expr(l.get(1)?)?),
            field: atom_str(l.get(2)?),
            test: l.get(3)?.as_atom()? == "1",
        })),
        "list" => ided(Expr::List(ListExpr {
            elements: l[1..].iter().map(sx_to_expr).collect::<Option<Vec<_>>>()?,
        })),
        "map" => {
            let mut entries = vec![];
            for e in &l[1..] {
                let kv = e.as_list()?;
                entries.push(IdedEntryExpr {
                    id: 0,
                    expr: EntryExpr::MapEntry(MapEntryExpr {
                        key: sx_to_expr(kv.first()?)?,
                        value: sx_to_expr(kv.get(1)?)?,
                        optional: false,
                    }),
                });
            }
            ided(Expr::Map(MapExpr { entries }))
        }
        "struct" => {
            let mut entries = vec![];
            for e in &l[2..] {
                let kv = e.as_list()?;
                entries.push(IdedEntryExpr {
                    id: 0,
                    expr: EntryExpr::StructField(StructFieldExpr {
                        field: atom_str(kv.first()?),
                        value: sx_to_expr(kv.get(1)?)?,
                        optional: false,
                    }),
                });
            }
            ided(Expr::Struct(StructExpr { type_name: atom_str(l.get(1)?), entries }))
        }
        "comp" => ided(Expr::Comprehension(ComprehensionExpr {
            iter_var: atom_str(l.get(1)?),
            iter_range: Box::new(sx_to_expr(l.get(2)?)?),
            iter_var2: None,
            accu_var: atom_str(l.get(3)?),
            accu_init: Box::new(sx_to_expr(l.get(4)?)?),
            loop_cond: Box::new(sx_to_expr(l.get(5)?)?),
            loop_step: Box::new(sx_to_expr(l.get(6)?)?),
            result: Box::new(sx_to_expr(l.get(7)?)?),
        })),
        _ => return None,
    })
}
