//! celconc — the concurrency half of C05.
//!
//! Compile-time: `Program`, `Context`, `Value` and `ExecutionError` must be `Send + Sync` (a
//! program and a root context are shared by reference among threads).  Run-time: for each input
//! line `<ctx-sexpr>\t<src>\u{1}<src>…` the programs are executed by `threads` threads
//! concurrently, each in an inner scope of its own over the shared root context, `rounds` times;
//! every execution must yield what the sequential execution yields; then every pair of distinct
//! programs is run head to head by two groups of threads.
use celharness::ctx::{CtxSpec, Log};
use celharness::sx::parse_all;
use celharness::wire::result_to_sx;
use cel_interpreter::{Context, ExecutionError, Program, Value};
use std::sync::{Arc, Mutex};

fn assert_send_sync<T: Send + Sync>() {}

/// does the source mention the identifier `k`?
fn mentions_k(src: &str) -> bool {
    mentions(src, b'k')
}

/// does the source mention the one-letter identifier `name`?
fn mentions(src: &str, name: u8) -> bool {
    let b = src.as_bytes();
    (0..b.len()).any(|i| b[i] == name && (i == 0 || !(b[i - 1].is_ascii_alphanumeric() || b[i - 1] == b'_' || b[i - 1] == b'\'' || b[i - 1] == b'.')) && (i + 1 == b.len() || !(b[i + 1].is_ascii_alphanumeric() || b[i + 1] == b'_' || b[i + 1] == b'\'')))
}

/// programs are told apart by their position's expected answer and index of first occurrence
fn srcs_key(_progs: &[Program], i: usize, expected: &[String]) -> (String, usize) {
    (expected[i].clone(), SRC_IDS.with(|m| m.borrow().get(i).copied().unwrap_or(i)))
}

thread_local! {
    static SRC_IDS: std::cell::RefCell<Vec<usize>> = std::cell::RefCell::new(vec![]);
}

fn main() {
    assert_send_sync::<Program>();
    assert_send_sync::<Context<'static>>();
    assert_send_sync::<Value>();
    assert_send_sync::<ExecutionError>();
    let args: Vec<String> = std::env::args().collect();
    let file = args.get(1).expect("usage: celconc <cases> <threads> <rounds>");
    let threads: usize = args.get(2).and_then(|s| s.parse().ok()).unwrap_or(4);
    let rounds: usize = args.get(3).and_then(|s| s.parse().ok()).unwrap_or(20);
    let text = std::fs::read_to_string(file).expect("cannot read cases");
    host_function_phase(threads, rounds);
    for (n, line) in text.lines().enumerate() {
        let mut parts = line.splitn(2, '\t');
        let ctx_sx = parts.next().unwrap_or("");
        let srcs: Vec<&str> = parts.next().unwrap_or("").split('\u{1}').collect();
        let spec = CtxSpec::from_sx(&parse_all(ctx_sx)[0]).expect("bad ctx");
        let log: Log = Arc::new(Mutex::new(vec![]));
        let compiled: Vec<(&str, Program)> = srcs.iter().filter_map(|s| Program::compile(s).ok().map(|p| (*s, p))).collect();
        SRC_IDS.with(|m| *m.borrow_mut() = compiled.iter().map(|(s, _)| compiled.iter().position(|(s2, _)| s2 == s).unwrap()).collect());
        let srcs_ok: Vec<&str> = compiled.iter().map(|(s, _)| *s).collect();
        let uses_k: Vec<bool> = srcs_ok.iter().map(|s| mentions_k(s)).collect();
        let (srcs_ok, uses_k) = (&srcs_ok, &uses_k);
        let progs: Vec<Program> = compiled.into_iter().map(|(_, p)| p).collect();
        let verdict = spec.with_context(&log, |root| {
            // sequential reference
            let expected: Vec<String> = progs.iter().map(|p| result_to_sx(&p.execute(root)).to_text()).collect();
            let progs = &progs;
            let expected = &expected;
            let bad: Mutex<Option<String>> = Mutex::new(None);
            std::thread::scope(|s| {
                for t in 0..threads {
                    let bad = &bad;
                    s.spawn(move || {
                        for r in 0..rounds {
                            let mut inner = root.new_inner_scope();
                            inner.add_variable_from_value("thread_local", Value::Int((t * 1000 + r) as i64));
                            // `k` is bound differently in every inner scope: a program mentioning it
                            // must yield what a freshly compiled copy yields alone in that scope
                            inner.add_variable_from_value("k", Value::Int((t * 7 + r) as i64 % 11));
                            // each thread walks the programs from a different starting point
                            for j in 0..progs.len() {
                                let i = (j + t) % progs.len();
                                let got = result_to_sx(&progs[i].execute(&inner)).to_text();
                                let want = if uses_k[i] {
                                    match Program::compile(srcs_ok[i]) {
                                        Ok(fresh) => result_to_sx(&fresh.execute(&inner)).to_text(),
                                        Err(_) => expected[i].clone(),
                                    }
                                } else {
                                    expected[i].clone()
                                };
                                if got != want {
                                    *bad.lock().unwrap() = Some(format!("thread {t} round {r} program {i}: {got} instead of {want}"));
                                }
                            }
                            // a scope that has already been used is still an ordinary scope: a name that
                            // was read through the root a moment ago and is now bound here denotes the
                            // new binding, exactly as in a freshly built scope with the same bindings
                            if r % 5 == 0 {
                                let rebound = Value::Int(70 + (t as i64));
                                inner.add_variable_from_value("n", rebound.clone());
                                let mut fresh = root.new_inner_scope();
                                fresh.add_variable_from_value("thread_local", Value::Int((t * 1000 + r) as i64));
                                fresh.add_variable_from_value("k", Value::Int((t * 7 + r) as i64 % 11));
                                fresh.add_variable_from_value("n", rebound);
                                for i in 0..progs.len() {
                                    if mentions(srcs_ok[i], b'n') {
                                        let got = result_to_sx(&progs[i].execute(&inner)).to_text();
                                        let want = result_to_sx(&progs[i].execute(&fresh)).to_text();
                                        if got != want {
                                            *bad.lock().unwrap() = Some(format!("thread {t} round {r} program {i}: after `n` was re-bound in the scope the program had already run in, it yields {got}; in a fresh scope with the same bindings {want}"));
                                        }
                                    }
                                }
                            }
                        }
                    });
                }
            });
            // contention phase: every pair of distinct programs (of the first 8) runs simultaneously,
            // half of the threads looping on one, half on the other — state hidden behind one
            // program (a cache, a scratch buffer, a counter) must not leak into the other
            let mut seen = std::collections::HashSet::new();
            let distinct: Vec<usize> = (0..progs.len()).filter(|&i| seen.insert(srcs_key(progs, i, expected))).take(8).collect();
            for (a_pos, &a) in distinct.iter().enumerate() {
                for &b in &distinct[a_pos + 1..] {
                    std::thread::scope(|s| {
                        for t in 0..threads.max(2) {
                            let bad = &bad;
                            let i = if t % 2 == 0 { a } else { b };
                            s.spawn(move || {
                                let inner = root.new_inner_scope();
                                for r in 0..(rounds * 3).min(60) {
                                    let got = result_to_sx(&progs[i].execute(&inner)).to_text();
                                    if got != expected[i] {
                                        *bad.lock().unwrap() = Some(format!("thread {t} iteration {r}, program {i} running against program {}: {got} instead of {}", if i == a { b } else { a }, expected[i]));
                                        break;
                                    }
                                }
                            });
                        }
                    });
                }
            }
            // and the shared context still yields the sequential results afterwards
            for (i, p) in progs.iter().enumerate() {
                let got = result_to_sx(&p.execute(root)).to_text();
                if got != expected[i] {
                    *bad.lock().unwrap() = Some(format!("after the threads finished, program {i} yields {got} instead of {}", expected[i]));
                }
            }
            bad.into_inner().unwrap()
        });
        match verdict {
            None => println!("{n} ok"),
            Some(why) => println!("{n} differs {why}"),
        }
    }
}

/// Host functions are shared by every execution.  Two things a host may do inside one must stay
/// local to the execution that does it: evaluate an argument lazily (`Expression` parameters
/// resolved through the `FunctionContext`, so the same function can be entered again while it is
/// running), and panic (the panic unwinds through `execute` into the host's own `catch_unwind`).
/// Afterwards, and concurrently, every other execution yields what it yields alone.
fn host_function_phase(threads: usize, rounds: usize) {
    use cel_interpreter::FunctionContext;
    use cel_parser::Expression;
    let prev = std::panic::take_hook();
    std::panic::set_hook(Box::new(|_| {}));
    let (tx, rx) = std::sync::mpsc::channel::<Option<String>>();
    std::thread::spawn(move || {
        let mut root = Context::default();
        root.add_function("orelse", |ftx: &FunctionContext, a: Expression, b: Expression| -> Result<Value, ExecutionError> {
            match ftx.ptx.resolve(&a) {
                Ok(Value::Null) | Err(_) => ftx.ptx.resolve(&b),
                Ok(v) => Ok(v),
            }
        });
        root.add_function("boom", |x: i64| -> i64 {
            if x == 13 || x >= 100 {
                panic!("host function panics on <{x}>");
            }
            x
        });
        root.add_variable_from_value("limit", Value::Int(5));
        let table: Vec<(&str, Program, String)> = [
            "orelse(orelse(missing, null), limit)",
            "orelse(1, boom(13))",
            "[1, 2].map(x, orelse(orelse(nope, x), 0))",
            "orelse(orelse(orelse(null, null), orelse(1 / 0, 7)), 9)",
            "boom(1) + boom(2)",
            "[1, 2, 3].map(x, boom(x))",
            "orelse(boom(4), 0) + limit",
        ]
        .iter()
        .map(|s| {
            let p = Program::compile(s).expect("host-function phase program");
            (*s, p, String::new())
        })
        .collect();
        let table: Vec<(&str, Program, String)> = table.into_iter().map(|(s, p, _)| { let e = result_to_sx(&p.execute(&root)).to_text(); (s, p, e) }).collect();
        let want = ["(ok (int 5))", "(ok (int 1))", "(ok (list (int 1) (int 2)))", "(ok (int 7))", "(ok (int 3))", "(ok (list (int 1) (int 2) (int 3)))", "(ok (int 9))"];
        let mut bad: Option<String> = None;
        for (i, (s, _, e)) in table.iter().enumerate() {
            if e != want[i] {
                bad = Some(format!("`{s}` yields {e} instead of {}", want[i]));
            }
        }
        // the same executions from a call site several MiB further down the native stack (on a
        // thread that has executed from a shallow one before): same results
        {
            fn deep<R>(n: usize, f: &mut dyn FnMut() -> R) -> R {
                let pad = [n as u8; 64 * 1024];
                let r = if n == 0 { f() } else { deep(n - 1, f) };
                std::hint::black_box(&pad);
                r
            }
            let table = &table;
            let root = &root;
            let verdict = std::thread::scope(|sc| {
                std::thread::Builder::new().stack_size(96 << 20).spawn_scoped(sc, move || {
                    let mut out: Option<String> = None;
                    for (s, p, e) in table.iter() {
                        let shallow = result_to_sx(&p.execute(root)).to_text();
                        let far = deep(64, &mut || result_to_sx(&p.execute(root)).to_text());
                        let again = result_to_sx(&p.execute(root)).to_text();
                        if &shallow != e || &far != e || &again != e {
                            out = Some(format!("`{s}` yields {shallow} from a shallow call site, {far} from one 4 MiB further down the stack, {again} afterwards; alone it yields {e}"));
                        }
                    }
                    out
                }).unwrap().join().unwrap_or(Some("the deep-stack execution thread died".into()))
            });
            if verdict.is_some() {
                bad = verdict;
            }
        }
        // a list owned by one inner scope alone (no other handle anywhere): concatenating onto it
        // leaves the scope's variable as it was, however often the program runs
        {
            let mut scope = root.new_inner_scope();
            scope.add_variable_from_value("tags", Value::List(Arc::new(vec![Value::Int(1), Value::Int(2)])));
            scope.add_variable_from_value("word", Value::String(Arc::new("ab".to_string())));
            for src in ["tags + [3]", "tags + tags", "word + 'c'", "[tags + [4], tags]", "tags.map(t, tags + [t])"] {
                let p = Program::compile(src).unwrap();
                let first = result_to_sx(&p.execute(&scope)).to_text();
                for i in 0..3 {
                    let again = result_to_sx(&p.execute(&scope)).to_text();
                    let len = match scope.get_variable("tags") { Ok(Value::List(l)) => l.len(), _ => usize::MAX };
                    let wlen = match scope.get_variable("word") { Ok(Value::String(w)) => w.len(), _ => usize::MAX };
                    if again != first || len != 2 || wlen != 2 {
                        bad = Some(format!("`{src}` against a scope that is the only owner of `tags` and `word`: execution {} yields {again} (the first {first}); afterwards tags has {len} elements and word {wlen} bytes", i + 2));
                    }
                }
            }
        }
        let bomb = Program::compile("boom(13)").unwrap();
        let bad = Mutex::new(bad);
        let (root, table, bomb) = (&root, &table, &bomb);
        std::thread::scope(|sc| {
            for t in 0..threads.max(2) {
                let bad = &bad;
                sc.spawn(move || {
                    let inner = root.new_inner_scope();
                    for r in 0..rounds.min(40) {
                        if (t + r) % 3 == 0 {
                            // an execution whose host function panics: the host sees that panic (or,
                            // should the interpreter ever turn panics into errors, that error) -
                            // with its own message, not that of another thread's execution
                            let _ = std::panic::catch_unwind(std::panic::AssertUnwindSafe(|| bomb.execute(&inner)));
                            let own = 100 + t as i64;
                            let mine = Program::compile(&format!("[{own}].map(v, boom(v))")).unwrap();
                            let text = match std::panic::catch_unwind(std::panic::AssertUnwindSafe(|| mine.execute(&inner))) {
                                Ok(Ok(v)) => format!("value {v:?}"),
                                Ok(Err(e)) => format!("error {e} / {e:?}"),
                                Err(p) => format!("panic {}", p.downcast_ref::<String>().cloned().or_else(|| p.downcast_ref::<&str>().map(|s| s.to_string())).unwrap_or_default()),
                            };
                            if !text.contains(&format!("<{own}>")) {
                                *bad.lock().unwrap() = Some(format!("thread {t} round {r}: `[{own}].map(v, boom(v))`, whose host function panics with a message naming <{own}>, came back as: {text}"));
                            }
                        }
                        for (s, p, e) in table.iter() {
                            let got = match std::panic::catch_unwind(std::panic::AssertUnwindSafe(|| p.execute(&inner))) {
                                Ok(x) => result_to_sx(&x).to_text(),
                                Err(_) => "(panic)".to_string(),
                            };
                            if got != *e {
                                *bad.lock().unwrap() = Some(format!("thread {t} round {r}: `{s}` yields {got} instead of {e} (after / beside executions whose host function panicked or re-entered itself)"));
                            }
                        }
                    }
                });
            }
        });
        // a burst of panicking executions on all threads at once (each with its own message): what
        // comes back to a thread - a panic or, should the interpreter ever turn panics into errors,
        // that error - names its own execution's value, never another thread's
        std::thread::scope(|sc| {
            for t in 0..threads.max(2).max(8) {
                let bad = &bad;
                sc.spawn(move || {
                    let inner = root.new_inner_scope();
                    let own = 100 + t as i64;
                    let mine = Program::compile(&format!("[{own}].map(v, boom(v))")).unwrap();
                    for r in 0..400 {
                        let text = match std::panic::catch_unwind(std::panic::AssertUnwindSafe(|| mine.execute(&inner))) {
                            Ok(Ok(v)) => format!("value {v:?}"),
                            Ok(Err(e)) => format!("error {e} / {e:?}"),
                            Err(p) => format!("panic {}", p.downcast_ref::<String>().cloned().or_else(|| p.downcast_ref::<&str>().map(|s| s.to_string())).unwrap_or_default()),
                        };
                        let foreign = (100..100 + threads.max(8) as i64).any(|o| o != own && text.contains(&format!("<{o}>")));
                        if !text.contains(&format!("<{own}>")) || foreign {
                            *bad.lock().unwrap() = Some(format!("thread {t} iteration {r} of the panic burst: `[{own}].map(v, boom(v))`, whose host function panics with a message naming <{own}>, came back as: {text}"));
                            break;
                        }
                    }
                });
            }
        });
        let _ = tx.send(bad.lock().unwrap_or_else(|e| e.into_inner()).clone());
    });
    let verdict = rx.recv_timeout(std::time::Duration::from_secs(90));
    std::panic::set_hook(prev);
    match verdict {
        Ok(None) => println!("host-functions ok"),
        Ok(Some(why)) => println!("host-functions differs {why}"),
        Err(_) => {
            println!("host-functions differs an execution calling a lazily resolving host function from inside itself (e.g. `orelse(orelse(missing, null), limit)`) or beside a panicking one did not return within 90 s (deadlock)");
            use std::io::Write;
            let _ = std::io::stdout().flush();
            std::process::exit(1);
        }
    }
}
