//! Context specifications: variables, scopes and the catalogue of harness-defined host functions.
use crate::sx::{hex, unhex, Sx};
use crate::wire::{sx_to_value, value_to_sx};
use cel_interpreter::extractors::{Arguments, Identifier, This};
use cel_interpreter::{Context, ExecutionError, FunctionContext, Value};
use cel_parser::Expression;
use chrono::{DateTime, FixedOffset, TimeDelta};
use std::sync::{Arc, Mutex};

pub type Log = Arc<Mutex<Vec<(String, Vec<Value>)>>>;

#[derive(Clone, Debug, PartialEq)]
pub enum Body {
    Echo,
    Fail,
    Const(Value),
    First,
}

#[derive(Clone, Debug, PartialEq)]
pub enum FnSpec {
    Builtin(String),
    /// signature tokens (see `register_host`), with an optional leading "ftx"
    Host(Vec<String>, Body),
}

#[derive(Clone, Debug, Default)]
pub struct CtxSpec {
    pub default_fns: bool,
    pub fns: Vec<(String, FnSpec)>,
    pub vars: Vec<(String, Value)>,
    pub scopes: Vec<Vec<(String, Value)>>,
    pub regex: Vec<(String, String, Option<bool>)>,
}

impl CtxSpec {
    pub fn default_ctx() -> Self {
        CtxSpec { default_fns: true, ..Default::default() }
    }

    pub fn to_sx(&self) -> Sx {
        let mut parts = vec![];
        let mut fns = vec![];
        if self.default_fns {
            fns.push(Sx::atom("default"));
        }
        for (n, f) in &self.fns {
            let k = match f {
                FnSpec::Builtin(b) => Sx::tagged("b", vec![Sx::atom(b.clone())]),
                FnSpec::Host(sig, body) => Sx::tagged(
                    "h",
                    vec![
                        Sx::list(sig.iter().filter(|t| t.as_str() != "ftx").map(|t| Sx::atom(t.clone())).collect()),
                        match body {
                            Body::Echo => Sx::atom("echo"),
                            Body::Fail => Sx::atom("fail"),
                            Body::First => Sx::atom("first"),
                            Body::Const(v) => Sx::tagged("const", vec![value_to_sx(v)]),
                        },
                    ],
                ),
            };
            fns.push(Sx::list(vec![Sx::atom(hex(n.as_bytes())), k]));
        }
        parts.push(Sx::tagged("fns", fns));
        let vars = |vs: &Vec<(String, Value)>| -> Vec<Sx> {
            vs.iter().map(|(n, v)| Sx::list(vec![Sx::atom(hex(n.as_bytes())), value_to_sx(v)])).collect()
        };
        parts.push(Sx::tagged("vars", vars(&self.vars)));
        for s in &self.scopes {
            parts.push(Sx::tagged("scope", vars(s)));
        }
        if !self.regex.is_empty() {
            parts.push(Sx::tagged(
                "regex",
                self.regex
                    .iter()
                    .map(|(p, s, r)| {
                        Sx::list(vec![
                            Sx::atom(hex(p.as_bytes())),
                            Sx::atom(hex(s.as_bytes())),
                            Sx::atom(match r {
                                Some(true) => "1",
                                Some(false) => "0",
                                None => "e",
                            }),
                        ])
                    })
                    .collect(),
            ));
        }
        Sx::tagged("ctx", parts)
    }

    pub fn from_sx(x: &Sx) -> Option<CtxSpec> {
        let l = x.as_list()?;
        if l.first()?.as_atom()? != "ctx" {
            return None;
        }
        let name = |a: &Sx| String::from_utf8_lossy(&unhex(a.as_atom().unwrap_or("x"))).into_owned();
        let mut spec = CtxSpec::default();
        for p in &l[1..] {
            let pl = p.as_list()?;
            match pl.first()?.as_atom()? {
                "fns" => {
                    for f in &pl[1..] {
                        if f.as_atom() == Some("default") {
                            spec.default_fns = true;
                            continue;
                        }
                        let fl = f.as_list()?;
                        let k = fl.get(1)?.as_list()?;
                        let kind = match k.first()?.as_atom()? {
                            "b" => FnSpec::Builtin(k.get(1)?.as_atom()?.to_string()),
                            _ => {
                                let sig = k.get(1)?.as_list()?.iter().filter_map(|a| a.as_atom().map(String::from)).collect();
                                let body = match k.get(2)? {
                                    Sx::Atom(a) if a == "fail" => Body::Fail,
                                    Sx::Atom(a) if a == "first" => Body::First,
                                    Sx::Atom(_) => Body::Echo,
                                    b => Body::Const(sx_to_value(b.as_list()?.get(1)?)?),
                                };
                                FnSpec::Host(sig, body)
                            }
                        };
                        spec.fns.push((name(&fl[0]), kind));
                    }
                }
                "vars" | "scope" => {
                    let mut vs = vec![];
                    for e in &pl[1..] {
                        let el = e.as_list()?;
                        vs.push((name(&el[0]), sx_to_value(el.get(1)?)?));
                    }
                    if pl[0].as_atom() == Some("vars") {
                        spec.vars.extend(vs);
                    } else {
                        spec.scopes.push(vs);
                    }
                }
                "regex" => {
                    for e in &pl[1..] {
                        let el = e.as_list()?;
                        spec.regex.push((
                            name(&el[0]),
                            name(el.get(1)?),
                            match el.get(2)?.as_atom()? {
                                "1" => Some(true),
                                "0" => Some(false),
                                _ => None,
                            },
                        ));
                    }
                }
                _ => {}
            }
        }
        Some(spec)
    }

    /// Builds the real context chain and calls `f` with the innermost scope.
    pub fn with_context<R>(&self, log: &Log, f: impl FnOnce(&Context) -> R) -> R {
        let mut root = if self.default_fns { Context::default() } else { Context::empty() };
        for (n, k) in &self.fns {
            match k {
                FnSpec::Builtin(b) => register_builtin(&mut root, n, b),
                FnSpec::Host(sig, body) => {
                    let toks: Vec<&str> = sig.iter().map(|s| s.as_str()).collect();
                    if !register_host(&mut root, n, &toks, body, log) {
                        panic!("harness: unsupported host signature {:?}", sig);
                    }
                }
            }
        }
        for (n, v) in &self.vars {
            define(&mut root, n, v);
        }
        fn go<R>(parent: &Context, scopes: &[Vec<(String, Value)>], f: impl FnOnce(&Context) -> R) -> R {
            match scopes.split_first() {
                None => f(parent),
                Some((s, rest)) => {
                    let mut child = parent.new_inner_scope();
                    for (n, v) in s {
                        define(&mut child, n, v);
                    }
                    go(&child, rest, f)
                }
            }
        }
        go(&root, &self.scopes, f)
    }
}

/// A CEL value presented as the plain Rust data a host would hold (integers, floats, strings,
/// vectors, maps, the crate's `Timestamp` / `Duration` wrappers), for `Context::add_variable`.
struct HostData<'a>(&'a Value);

fn host_representable(v: &Value) -> bool {
    match v {
        Value::Function(..) => false,
        // chrono's own `Serialize` for `DateTime` panics - with every serializer, serde_json
        // included - when the local time (instant + offset) lies outside `NaiveDateTime`'s range;
        // such timestamps exist as `Value`s but a host cannot pass them through serde at all
        Value::Timestamp(t) => t.naive_utc().checked_add_signed(TimeDelta::seconds(t.offset().local_minus_utc() as i64)).is_some(),
        Value::List(l) => l.iter().all(host_representable),
        Value::Map(m) => m.map.values().all(host_representable),
        _ => true,
    }
}

impl serde::Serialize for HostData<'_> {
    fn serialize<S: serde::Serializer>(&self, s: S) -> Result<S::Ok, S::Error> {
        use serde::ser::{SerializeMap, SerializeSeq};
        match self.0 {
            Value::Int(i) => s.serialize_i64(*i),
            Value::UInt(u) => s.serialize_u64(*u),
            Value::Float(f) => s.serialize_f64(*f),
            Value::Bool(b) => s.serialize_bool(*b),
            Value::String(x) => s.serialize_str(x),
            Value::Bytes(b) => s.serialize_bytes(b),
            Value::Null => s.serialize_unit(),
            Value::Timestamp(t) => cel_interpreter::Timestamp(*t).serialize(s),
            Value::Duration(d) => cel_interpreter::Duration(*d).serialize(s),
            Value::List(l) => {
                let mut q = s.serialize_seq(Some(l.len()))?;
                for x in l.iter() {
                    q.serialize_element(&HostData(x))?;
                }
                q.end()
            }
            Value::Map(m) => {
                let mut q = s.serialize_map(Some(m.map.len()))?;
                for (k, x) in m.map.iter() {
                    match k {
                        cel_interpreter::objects::Key::Int(i) => q.serialize_entry(i, &HostData(x))?,
                        cel_interpreter::objects::Key::Uint(u) => q.serialize_entry(u, &HostData(x))?,
                        cel_interpreter::objects::Key::Bool(b) => q.serialize_entry(b, &HostData(x))?,
                        cel_interpreter::objects::Key::String(t) => q.serialize_entry(t.as_str(), &HostData(x))?,
                    }
                }
                q.end()
            }
            Value::Function(..) => Err(serde::ser::Error::custom("function values have no host data form")),
        }
    }
}

/// The same value rebuilt through the crate's `From` conversions (`Value::from(5i64)`,
/// `Vec<Value>`, `HashMap<Key, Value>`, `String`, `Vec<u8>`, `Option`, chrono types), the way a
/// host writes `add_variable_from_value("x", data)` with data of its own.
fn through_from(v: &Value) -> Value {
    match v {
        Value::Int(i) => Value::from(*i),
        Value::UInt(u) => Value::from(*u),
        Value::Float(f) => Value::from(*f),
        Value::Bool(b) => Value::from(*b),
        Value::String(x) => {
            if x.len() % 2 == 0 {
                Value::from(x.as_str())
            } else {
                Value::from(x.as_str().to_string())
            }
        }
        Value::Bytes(b) => Value::from(b.as_ref().clone()),
        Value::Null => Value::from(None::<i64>),
        Value::Timestamp(t) => Value::from(Some(*t)),
        Value::Duration(d) => Value::from(*d),
        Value::List(l) => Value::from(l.iter().map(through_from).collect::<Vec<Value>>()),
        Value::Map(m) => Value::from(m.map.iter().map(|(k, x)| (k.clone(), through_from(x))).collect::<std::collections::HashMap<cel_interpreter::objects::Key, Value>>()),
        Value::Function(..) => v.clone(),
    }
}

/// Defines one context variable.  A host hands values to a context in three ways, and all are
/// exercised; which one is used for a (name, value) pair is chosen by a hash of the pair, so that
/// a case always replays the same way: as plain Rust data through `Context::add_variable` (the
/// serde conversion), as Rust data converted by the crate's `From` impls and passed to
/// `add_variable_from_value`, or as a ready-made `Value`.  Values the serde conversion refuses
/// take the last way.
pub fn supply_route(name: &str, v: &Value) -> u8 {
    let mut h: u64 = 0xcbf29ce484222325;
    for b in name.bytes().chain(value_to_sx(v).to_text().bytes()) {
        h = (h ^ b as u64).wrapping_mul(0x100000001b3);
    }
    match (h >> 17) % 3 {
        1 if host_representable(v) => 1,
        2 => 2,
        _ => 0,
    }
}

pub fn define(ctx: &mut Context, name: &str, v: &Value) {
    match supply_route(name, v) {
        1 => {
            if ctx.add_variable(name.to_string(), HostData(v)).is_err() {
                ctx.add_variable_from_value(name.to_string(), v.clone());
            }
        }
        2 => ctx.add_variable_from_value(name.to_string(), through_from(v)),
        _ => ctx.add_variable_from_value(name.to_string(), v.clone()),
    }
}

fn register_builtin(ctx: &mut Context, name: &str, b: &str) {
    use cel_interpreter::functions as f;
    match b {
        "contains" => ctx.add_function(name, f::contains),
        "size" => ctx.add_function(name, f::size),
        "max" => ctx.add_function(name, f::max),
        "min" => ctx.add_function(name, f::min),
        "startsWith" => ctx.add_function(name, f::starts_with),
        "endsWith" => ctx.add_function(name, f::ends_with),
        "string" => ctx.add_function(name, f::string),
        "bytes" => ctx.add_function(name, f::bytes),
        "double" => ctx.add_function(name, f::double),
        "int" => ctx.add_function(name, f::int),
        "uint" => ctx.add_function(name, f::uint),
        "matches" => ctx.add_function(name, f::matches),
        "duration" => ctx.add_function(name, f::duration),
        "timestamp" => ctx.add_function(name, f::timestamp),
        "getFullYear" => ctx.add_function(name, f::time::timestamp_year),
        "getMonth" => ctx.add_function(name, f::time::timestamp_month),
        "getDayOfYear" => ctx.add_function(name, f::time::timestamp_year_day),
        "getDayOfMonth" => ctx.add_function(name, f::time::timestamp_month_day),
        "getDate" => ctx.add_function(name, f::time::timestamp_date),
        "getDayOfWeek" => ctx.add_function(name, f::time::timestamp_weekday),
        "getHours" => ctx.add_function(name, f::time::timestamp_hours),
        "getMinutes" => ctx.add_function(name, f::time::timestamp_minutes),
        "getSeconds" => ctx.add_function(name, f::time::timestamp_seconds),
        "getMilliseconds" => ctx.add_function(name, f::time::timestamp_millis),
        other => panic!("harness: unknown builtin {other}"),
    }
}

/// What the closure saw, as a value.
trait ToV {
    fn to_v(&self) -> Value;
}
macro_rules! tov {
    ($t:ty, $v:path) => {
        impl ToV for $t {
            fn to_v(&self) -> Value {
                $v(self.clone())
            }
        }
    };
}
tov!(i64, Value::Int);
tov!(u64, Value::UInt);
tov!(f64, Value::Float);
tov!(Arc<String>, Value::String);
tov!(Arc<Vec<u8>>, Value::Bytes);
tov!(bool, Value::Bool);
tov!(Arc<Vec<Value>>, Value::List);
tov!(TimeDelta, Value::Duration);
tov!(DateTime<FixedOffset>, Value::Timestamp);
impl ToV for Value {
    fn to_v(&self) -> Value {
        self.clone()
    }
}
impl<T: ToV> ToV for Option<T> {
    fn to_v(&self) -> Value {
        match self {
            Some(x) => x.to_v(),
            None => Value::Null,
        }
    }
}
impl<T: ToV> ToV for This<T> {
    fn to_v(&self) -> Value {
        self.0.to_v()
    }
}
impl ToV for Arguments {
    fn to_v(&self) -> Value {
        Value::List(self.0.clone())
    }
}
impl ToV for Identifier {
    fn to_v(&self) -> Value {
        Value::String(self.0.clone())
    }
}
impl ToV for Expression {
    fn to_v(&self) -> Value {
        Value::String(Arc::new("<expr>".to_string()))
    }
}

fn finish(log: &Log, name: &str, body: &Body, args: Vec<Value>) -> Result<Value, ExecutionError> {
    log.lock().unwrap().push((name.to_string(), args.clone()));
    match body {
        Body::Echo => Ok(Value::List(Arc::new(args))),
        Body::Fail => Err(ExecutionError::function_error(name, "host failure")),
        Body::Const(v) => Ok(v.clone()),
        Body::First => Ok(args.first().cloned().unwrap_or(Value::Null)),
    }
}

macro_rules! host {
    ($ctx:expr, $name:expr, $log:expr, $body:expr; $( $p:ident : $t:ty ),* ) => {{
        let log = $log.clone();
        let name = $name.to_string();
        let body = $body.clone();
        $ctx.add_function($name, move |$( $p : $t ),*| -> Result<Value, ExecutionError> {
            let args: Vec<Value> = vec![$( ToV::to_v(&$p) ),*];
            finish(&log, &name, &body, args)
        });
        true
    }};
}
macro_rules! host_ftx {
    ($ctx:expr, $name:expr, $log:expr, $body:expr; $( $p:ident : $t:ty ),* ) => {{
        let log = $log.clone();
        let name = $name.to_string();
        let body = $body.clone();
        $ctx.add_function($name, move |_ftx: &FunctionContext, $( $p : $t ),*| -> Result<Value, ExecutionError> {
            let args: Vec<Value> = vec![$( ToV::to_v(&$p) ),*];
            finish(&log, &name, &body, args)
        });
        true
    }};
}

type Str = Arc<String>;
type Bytes = Arc<Vec<u8>>;
type List = Arc<Vec<Value>>;
type Ts = DateTime<FixedOffset>;
type V = Value;

/// The catalogue of host-function signatures the harness can register (Rust closures are
/// statically typed, so the family is finite).  Returns false for a signature outside it.
pub fn register_host(ctx: &mut Context, name: &str, sig: &[&str], body: &Body, log: &Log) -> bool {
    match sig {
        [] => host!(ctx, name, log, body;),
        ["pos-value"] => host!(ctx, name, log, body; a: V),
        ["pos-value", "pos-value"] => host!(ctx, name, log, body; a: V, b: V),
        ["pos-value", "pos-value", "pos-value"] => host!(ctx, name, log, body; a: V, b: V, c: V),
        ["pos-value", "pos-value", "pos-value", "pos-value"] => host!(ctx, name, log, body; a: V, b: V, c: V, d: V),
        ["pos-value", "pos-value", "pos-value", "pos-value", "pos-value"] => {
            host!(ctx, name, log, body; a: V, b: V, c: V, d: V, e: V)
        }
        ["pos-value", "pos-value", "pos-value", "pos-value", "pos-value", "pos-value"] => {
            host!(ctx, name, log, body; a: V, b: V, c: V, d: V, e: V, f: V)
        }
        ["pos-value", "pos-value", "pos-value", "pos-value", "pos-value", "pos-value", "pos-value"] => {
            host!(ctx, name, log, body; a: V, b: V, c: V, d: V, e: V, f: V, g: V)
        }
        ["pos-value", "pos-value", "pos-value", "pos-value", "pos-value", "pos-value", "pos-value", "pos-value"] => {
            host!(ctx, name, log, body; a: V, b: V, c: V, d: V, e: V, f: V, g: V, h: V)
        }
        ["pos-value", "pos-value", "pos-value", "pos-value", "pos-value", "pos-value", "pos-value", "pos-value", "pos-value"] => {
            host!(ctx, name, log, body; a: V, b: V, c: V, d: V, e: V, f: V, g: V, h: V, i: V)
        }
        ["pos-int"] => host!(ctx, name, log, body; a: i64),
        ["pos-uint"] => host!(ctx, name, log, body; a: u64),
        ["pos-dbl"] => host!(ctx, name, log, body; a: f64),
        ["pos-str"] => host!(ctx, name, log, body; a: Str),
        ["pos-bytes"] => host!(ctx, name, log, body; a: Bytes),
        ["pos-bool"] => host!(ctx, name, log, body; a: bool),
        ["pos-list"] => host!(ctx, name, log, body; a: List),
        ["pos-dur"] => host!(ctx, name, log, body; a: TimeDelta),
        ["pos-ts"] => host!(ctx, name, log, body; a: Ts),
        ["this-value"] => host!(ctx, name, log, body; a: This<V>),
        ["this-int"] => host!(ctx, name, log, body; a: This<i64>),
        ["this-uint"] => host!(ctx, name, log, body; a: This<u64>),
        ["this-dbl"] => host!(ctx, name, log, body; a: This<f64>),
        ["this-str"] => host!(ctx, name, log, body; a: This<Str>),
        ["this-bytes"] => host!(ctx, name, log, body; a: This<Bytes>),
        ["this-bool"] => host!(ctx, name, log, body; a: This<bool>),
        ["this-list"] => host!(ctx, name, log, body; a: This<List>),
        ["this-dur"] => host!(ctx, name, log, body; a: This<TimeDelta>),
        ["this-ts"] => host!(ctx, name, log, body; a: This<Ts>),
        ["thisopt-int"] => host!(ctx, name, log, body; a: This<Option<i64>>),
        ["thisopt-uint"] => host!(ctx, name, log, body; a: This<Option<u64>>),
        ["thisopt-dbl"] => host!(ctx, name, log, body; a: This<Option<f64>>),
        ["thisopt-str"] => host!(ctx, name, log, body; a: This<Option<Str>>),
        ["thisopt-bytes"] => host!(ctx, name, log, body; a: This<Option<Bytes>>),
        ["thisopt-bool"] => host!(ctx, name, log, body; a: This<Option<bool>>),
        ["thisopt-list"] => host!(ctx, name, log, body; a: This<Option<List>>),
        ["thisopt-dur"] => host!(ctx, name, log, body; a: This<Option<TimeDelta>>),
        ["thisopt-ts"] => host!(ctx, name, log, body; a: This<Option<Ts>>),
        ["this-value", "pos-value"] => host!(ctx, name, log, body; a: This<V>, b: V),
        ["this-value", "pos-value", "pos-value"] => host!(ctx, name, log, body; a: This<V>, b: V, c: V),
        ["this-int", "pos-int"] => host!(ctx, name, log, body; a: This<i64>, b: i64),
        ["this-str", "pos-str"] => host!(ctx, name, log, body; a: This<Str>, b: Str),
        ["this-str", "pos-int", "pos-bool"] => host!(ctx, name, log, body; a: This<Str>, b: i64, c: bool),
        ["thisopt-int", "pos-value"] => host!(ctx, name, log, body; a: This<Option<i64>>, b: V),
        ["pos-int", "pos-int"] => host!(ctx, name, log, body; a: i64, b: i64),
        ["pos-int", "pos-str", "pos-bool"] => host!(ctx, name, log, body; a: i64, b: Str, c: bool),
        ["pos-uint", "pos-dbl", "pos-bytes", "pos-list"] => host!(ctx, name, log, body; a: u64, b: f64, c: Bytes, d: List),
        ["args"] => host!(ctx, name, log, body; a: Arguments),
        ["ident"] => host!(ctx, name, log, body; a: Identifier),
        ["expr"] => host!(ctx, name, log, body; a: Expression),
        ["ident", "pos-value"] => host!(ctx, name, log, body; a: Identifier, b: V),
        ["pos-value", "ident"] => host!(ctx, name, log, body; a: V, b: Identifier),
        ["this-value", "ident", "expr"] => host!(ctx, name, log, body; a: This<V>, b: Identifier, c: Expression),
        ["this-value", "args"] => host!(ctx, name, log, body; a: This<V>, b: Arguments),
        ["pos-value", "this-value"] => host!(ctx, name, log, body; a: V, b: This<V>),
        ["pos-value", "this-value", "pos-value"] => host!(ctx, name, log, body; a: V, b: This<V>, c: V),
        ["pos-int", "this-str"] => host!(ctx, name, log, body; a: i64, b: This<Str>),
        ["expr", "args"] => host!(ctx, name, log, body; a: Expression, b: Arguments),
        ["args", "expr"] => host!(ctx, name, log, body; a: Arguments, b: Expression),
        ["expr", "pos-value"] => host!(ctx, name, log, body; a: Expression, b: V),
        ["expr", "expr"] => host!(ctx, name, log, body; a: Expression, b: Expression),
        ["ident", "args"] => host!(ctx, name, log, body; a: Identifier, b: Arguments),
        ["args", "args"] => host!(ctx, name, log, body; a: Arguments, b: Arguments),
        // a host function that reads the variable `x` from the scope it is called in
        ["ftx", "readvar"] | ["readvar"] => {
            let log = log.clone();
            let name_s = name.to_string();
            ctx.add_function(name, move |ftx: &FunctionContext| -> Result<Value, ExecutionError> {
                let v = ftx.ptx.get_variable("x".to_string())?;
                log.lock().unwrap().push((name_s.clone(), vec![v.clone()]));
                Ok(v)
            });
            true
        }
        ["ftx"] => host_ftx!(ctx, name, log, body;),
        ["ftx", "pos-value"] => host_ftx!(ctx, name, log, body; a: V),
        ["ftx", "this-value"] => host_ftx!(ctx, name, log, body; a: This<V>),
        ["ftx", "this-value", "pos-value"] => host_ftx!(ctx, name, log, body; a: This<V>, b: V),
        ["ftx", "pos-int", "pos-int"] => host_ftx!(ctx, name, log, body; a: i64, b: i64),
        ["ftx", "args"] => host_ftx!(ctx, name, log, body; a: Arguments),
        _ => false,
    }
}

/// every signature of the catalogue, as token lists
pub fn host_catalogue() -> Vec<Vec<&'static str>> {
    let tys = ["int", "uint", "dbl", "str", "bytes", "bool", "list", "dur", "ts"];
    let mut out: Vec<Vec<&'static str>> = vec![vec![]];
    for k in 1..=9 {
        out.push(vec!["pos-value"; k]);
    }
    let leak = |s: String| -> &'static str { Box::leak(s.into_boxed_str()) };
    for t in tys {
        out.push(vec![leak(format!("pos-{t}"))]);
        out.push(vec![leak(format!("this-{t}"))]);
        out.push(vec![leak(format!("thisopt-{t}"))]);
    }
    out.push(vec!["this-value"]);
    for s in [
        "this-value pos-value",
        "this-value pos-value pos-value",
        "this-int pos-int",
        "this-str pos-str",
        "this-str pos-int pos-bool",
        "thisopt-int pos-value",
        "pos-int pos-int",
        "pos-int pos-str pos-bool",
        "pos-uint pos-dbl pos-bytes pos-list",
        "args",
        "ident",
        "expr",
        "ident pos-value",
        "pos-value ident",
        "this-value ident expr",
        "this-value args",
        "pos-value this-value",
        "pos-value this-value pos-value",
        "pos-int this-str",
        "expr args",
        "args expr",
        "expr pos-value",
        "expr expr",
        "ident args",
        "args args",
        "ftx",
        "ftx pos-value",
        "ftx this-value",
        "ftx this-value pos-value",
        "ftx pos-int pos-int",
        "ftx args",
    ] {
        out.push(s.split(' ').collect());
    }
    out
}

pub fn log_to_sx(log: &[(String, Vec<Value>)]) -> Sx {
    Sx::tagged(
        "log",
        log.iter()
            .map(|(n, args)| {
                let mut v = vec![Sx::atom(hex(n.as_bytes()))];
                v.extend(args.iter().map(value_to_sx));
                Sx::list(v)
            })
            .collect(),
    )
}
