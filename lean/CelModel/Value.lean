import CelModel.F64
/-!
# CEL values (`interpreter/src/objects.rs`: `Value`, `Key`, `Map`)

Strings are lists of Unicode scalar values (`size` is the UTF-8 byte length, as `String::len`),
byte strings are lists of bytes, maps are association lists with pairwise distinct keys in
insertion order (observations of maps are order-insensitive), a double is its bit pattern, a
duration is its exact nanosecond count and a timestamp is a UTC instant in nanoseconds since the
epoch plus the UTC offset in seconds.
-/
namespace Cel

abbrev Str := List Char

inductive Key where
  | int (i : Int)
  | uint (n : Int)
  | bool (b : Bool)
  | str (s : Str)
deriving Repr, DecidableEq, Inhabited

inductive Value where
  | int (i : Int)
  | uint (n : Int)
  | dbl (bits : UInt64)
  | str (s : Str)
  | bytes (b : List UInt8)
  | bool (b : Bool)
  | null
  | list (xs : List Value)
  | map (m : List (Key × Value))
  | dur (ns : Int)
  | ts (utcNs : Int) (offset : Int)
  /-- `Value::Function(name, receiver)`; the receiver is a list of length ≤ 1 -/
  | fn (name : String) (recv : List Value)
deriving Repr, Inhabited

abbrev MapV := List (Key × Value)

inductive VType where
  | list | map | function | int | uint | float | string | bytes | bool | duration | timestamp | null
deriving Repr, DecidableEq, Inhabited

def Value.typeOf : Value → VType
  | .int _ => .int | .uint _ => .uint | .dbl _ => .float | .str _ => .string
  | .bytes _ => .bytes | .bool _ => .bool | .null => .null | .list _ => .list
  | .map _ => .map | .dur _ => .duration | .ts .. => .timestamp | .fn .. => .function

/-- `TryInto<Key> for Value` -/
def Value.toKey? : Value → Option Key
  | .int i => some (.int i)
  | .uint n => some (.uint n)
  | .str s => some (.str s)
  | .bool b => some (.bool b)
  | _ => none

/-- `From<&Key> for Value` -/
def Key.toValue : Key → Value
  | .int i => .int i | .uint n => .uint n | .bool b => .bool b | .str s => .str s

/-- number of bytes of the UTF-8 encoding of one scalar value (`char::len_utf8`) -/
def utf8Len (c : Char) : Nat :=
  if c.toNat < 0x80 then 1 else if c.toNat < 0x800 then 2 else if c.toNat < 0x10000 then 3 else 4

/-- `String::len`: UTF-8 byte length -/
def strSize : Str → Nat
  | [] => 0
  | c :: cs => utf8Len c + strSize cs

def natToDec (n : Nat) : Str := (toString n).toList
def intToDec (i : Int) : Str := if i < 0 then '-' :: natToDec i.natAbs else natToDec i.natAbs

/-- `Display for Key` -/
def Key.toText : Key → Str
  | .int i => intToDec i
  | .uint n => intToDec n
  | .bool b => if b then "true".toList else "false".toList
  | .str s => s

namespace MapV
/-- typed lookup: `HashMap::get` -/
def find? : MapV → Key → Option Value
  | [], _ => none
  | (k', v) :: rest, k => if k' = k then some v else find? rest k

def contains (m : MapV) (k : Key) : Bool := (find? m k).isSome

/-- `HashMap::insert`: replace an existing entry (keeping its position) or append -/
def insert : MapV → Key → Value → MapV
  | [], k, v => [(k, v)]
  | (k', v') :: rest, k, v => if k' = k then (k, v) :: rest else (k', v') :: insert rest k v

/-- `Map::get`: typed lookup, then the int/uint twin of a numeric key -/
def get (m : MapV) (k : Key) : Option Value :=
  match find? m k with
  | some v => some v
  | none =>
    match k with
    | .int i => if inU64 i then find? m (.uint i) else none
    | .uint n => if inI64 n then find? m (.int n) else none
    | _ => none

def keys (m : MapV) : List Key := m.map (·.1)
end MapV

/-- `Value::to_bool`: lenient truthiness -/
def Value.truthy : Value → Bool
  | .list xs => !xs.isEmpty
  | .map m => !m.isEmpty
  | .int i => i != 0
  | .uint n => n != 0
  | .dbl b => match F64.decode b with
      | .nan => true     -- NaN != 0.0
      | .inf _ => true
      | .fin _ m _ => m != 0
  | .str s => !s.isEmpty
  | .bytes b => !b.isEmpty
  | .bool b => b
  | .null => false
  | .dur ns => if inI64 ns then ns != 0 else false
  | .ts utc _ => if inI64 utc then utc > 0 else false
  | .fn .. => false

end Cel
