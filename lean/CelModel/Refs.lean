import CelModel.Ast
/-!
# Reported references (`antlr/src/references.rs`)
-/
namespace Cel

/-- identifiers starting with `@` are macro-internal and never reported -/
def isInternalName (n : String) : Bool :=
  match n.toList with
  | '@' :: _ => true
  | _ => false

mutual
/-- names of the identifiers the walk collects as variables -/
def Expr.vars : Expr → List String
  | .lit _ => []
  | .ident n => if isInternalName n then [] else [n]
  | .call _ args => varsList args
  | .mcall _ t args => t.vars ++ varsList args
  | .select e _ _ => e.vars
  | .list es => varsList es
  | .map es => varsEntries es
  | .struct _ _ vs => varsList vs
  | .comp _ r _ i c s res => r.vars ++ i.vars ++ c.vars ++ s.vars ++ res.vars
  | .unspecified => []
def varsList : List Expr → List String
  | [] => []
  | e :: es => e.vars ++ varsList es
def varsEntries : List (Expr × Expr) → List String
  | [] => []
  | (k, v) :: es => k.vars ++ v.vars ++ varsEntries es
end

mutual
/-- names of the call nodes the walk collects as functions (operators included) -/
def Expr.funcs : Expr → List String
  | .lit _ => []
  | .ident _ => []
  | .call f args => f :: funcsList args
  | .mcall f t args => f :: (t.funcs ++ funcsList args)
  | .select e _ _ => e.funcs
  | .list es => funcsList es
  | .map es => funcsEntries es
  | .struct _ _ vs => funcsList vs
  | .comp _ r _ i c s res => r.funcs ++ i.funcs ++ c.funcs ++ s.funcs ++ res.funcs
  | .unspecified => []
def funcsList : List Expr → List String
  | [] => []
  | e :: es => e.funcs ++ funcsList es
def funcsEntries : List (Expr × Expr) → List String
  | [] => []
  | (k, v) :: es => k.funcs ++ v.funcs ++ funcsEntries es
end

end Cel
