import CelModel.Basic
/-!
# 64-bit integer arithmetic as `interpreter/src/objects.rs` performs it

Integers are mathematical `Int`s plus explicit range predicates.  The Rust code uses only the
`checked_*` family, whose std contract is "the exact result, or `None` when it does not fit";
that contract is what is modelled (and what the boundary-pair correspondence validates).
-/
namespace Cel

def i64Min : Int := -9223372036854775808
def i64Max : Int := 9223372036854775807
def u64Max : Int := 18446744073709551615

@[inline] def inI64 (i : Int) : Bool := decide (i64Min ≤ i) && decide (i ≤ i64Max)
@[inline] def inU64 (i : Int) : Bool := decide (0 ≤ i) && decide (i ≤ u64Max)

/-- `i64::checked_*` / `u64::checked_*`: exact result or `none`. -/
@[inline] def chk (inR : Int → Bool) (r : Int) : Option Int := if inR r then some r else none

inductive ArithOp where
  | add | sub | mul | div | rem
deriving Repr, DecidableEq, Inhabited

/-- `impl Add/Sub/Mul/Div/Rem for Value`, the `(Int, Int)` arms. -/
def intArith (op : ArithOp) (a b : Int) : Outcome Int :=
  match op with
  | .add => match chk inI64 (a + b) with | some r => .ok r | none => .err .overflow
  | .sub => match chk inI64 (a - b) with | some r => .ok r | none => .err .overflow
  | .mul => match chk inI64 (a * b) with | some r => .ok r | none => .err .overflow
  | .div =>
      if b = 0 then .err .div0
      else match chk inI64 (Int.tdiv a b) with | some r => .ok r | none => .err .overflow
  | .rem =>
      if b = 0 then .err .rem0
      -- `i64::checked_rem` is `None` exactly when the division overflows (MIN % -1)
      else if a = i64Min ∧ b = -1 then .err .overflow
      else .ok (Int.tmod a b)

/-- The `(UInt, UInt)` arms (operands are non-negative `Int`s). `checked_div`/`checked_rem`
are `None` only for a zero divisor. -/
def uintArith (op : ArithOp) (a b : Int) : Outcome Int :=
  match op with
  | .add => match chk inU64 (a + b) with | some r => .ok r | none => .err .overflow
  | .sub => match chk inU64 (a - b) with | some r => .ok r | none => .err .overflow
  | .mul => match chk inU64 (a * b) with | some r => .ok r | none => .err .overflow
  | .div => if b = 0 then .err .div0 else .ok (Int.tdiv a b)
  | .rem => if b = 0 then .err .rem0 else .ok (Int.tmod a b)

/-- Unary minus on an int: `i64::checked_neg`. -/
def intNeg (a : Int) : Outcome Int :=
  match chk inI64 (-a) with | some r => .ok r | none => .err .overflow

end Cel
