import CelModel.Value
import CelModel.Time
import CelModel.StrOps
/-!
# Host data → CEL values (`interpreter/src/ser.rs`) and CEL values → JSON (`json.rs`)

`Data` has one constructor per method of serde's `Serializer` interface (integer widths are
collapsed into signed / unsigned, `f32` is widened exactly as `f64::from` does), plus the two
wrapper types `cel_interpreter::Duration` / `Timestamp`.  `serdeJson` models what
`serde_json::to_value` does with the same data (third-party, modelled).
-/
namespace Cel
namespace Serde

inductive Data where
  | bool (b : Bool)
  | int (i : Int)                 -- serialize_i8 … serialize_i64
  | uint (n : Int)                -- serialize_u8 … serialize_u64
  | wide                          -- serialize_i128 / serialize_u128 (not supported by either side's defaults here)
  | float (bits : UInt64)         -- serialize_f32 (widened) / serialize_f64
  | char (c : Char)
  | str (s : Str)
  | bytes (b : List UInt8)
  | none
  | some (d : Data)
  | unit
  | unitStruct (name : String)
  | unitVariant (name variant : String)
  | newtypeStruct (name : String) (d : Data)
  | newtypeVariant (name variant : String) (d : Data)
  | seq (ds : List Data)
  | tuple (ds : List Data)
  | tupleStruct (name : String) (ds : List Data)
  | tupleVariant (name variant : String) (ds : List Data)
  | map (entries : List (Data × Data))
  | struct (name : String) (fields : List (String × Data))
  | structVariant (name variant : String) (fields : List (String × Data))
  | celDuration (ns : Int)        -- `cel_interpreter::Duration(d)`
  | celTimestamp (utcNs offset : Int)   -- `cel_interpreter::Timestamp(t)`
deriving Repr, Inhabited

inductive SerErr where
  | invalidKey | serdeError
deriving Repr, DecidableEq, Inhabited

/-- `KeySerializer`: int, uint, bool, string-like, transparently through `Some` and newtype
structs; everything else is an `InvalidKey` error -/
def keyOf : Data → Except SerErr Key
  | .bool b => .ok (.bool b)
  | .int i => .ok (.int i)
  | .uint n => .ok (.uint n)
  | .char c => .ok (.str [c])
  | .str s => .ok (.str s)
  | .unitVariant _ v => .ok (.str v.toList)
  | .some d => keyOf d
  | .newtypeStruct _ d => keyOf d
  | .wide => .error .serdeError
  | .celDuration _ => .error .invalidKey     -- newtype struct around a struct
  | .celTimestamp _ _ => .error .invalidKey  -- newtype struct around a string: see `keyOfTimestamp`
  | _ => .error .invalidKey

mutual
/-- `Serializer` -/
def toValue : Data → Except SerErr Value
  | .bool b => .ok (.bool b)
  | .int i => .ok (.int i)
  | .uint n => .ok (.uint n)
  | .wide => .error .serdeError
  | .float b => .ok (.dbl b)
  | .char c => .ok (.str [c])
  | .str s => .ok (.str s)
  | .bytes b => .ok (.bytes b)
  | .none => .ok .null
  | .some d => toValue d
  | .unit => .ok .null
  | .unitStruct _ => .ok .null
  | .unitVariant _ v => .ok (.str v.toList)
  | .newtypeStruct _ d => toValue d
  | .newtypeVariant _ v d =>
    match toValue d with
    | .ok x => .ok (.map [(.str v.toList, x)])
    | .error e => .error e
  | .seq ds => (toValues ds).map .list
  | .tuple ds => (toValues ds).map .list
  | .tupleStruct _ ds => (toValues ds).map .list
  | .tupleVariant _ v ds =>
    match toValues ds with
    | .ok xs => .ok (.map [(.str v.toList, .list xs)])
    | .error e => .error e
  | .map es => (toEntries es []).map .map
  | .struct _ fs => (toFields fs []).map .map
  | .structVariant _ v fs =>
    match toFields fs [] with
    | .ok m => .ok (.map [(.str v.toList, .map m)])
    | .error e => .error e
  | .celDuration ns => .ok (.dur ns)
  | .celTimestamp t o => .ok (.ts t o)
def toValues : List Data → Except SerErr (List Value)
  | [] => .ok []
  | d :: ds =>
    match toValue d with
    | .error e => .error e
    | .ok v =>
      match toValues ds with
      | .error e => .error e
      | .ok vs => .ok (v :: vs)
/-- map entries in order: key first (through `KeySerializer`), then value; later duplicates
overwrite -/
def toEntries : List (Data × Data) → MapV → Except SerErr MapV
  | [], acc => .ok acc
  | (k, v) :: rest, acc =>
    match keyOf k with
    | .error e => .error e
    | .ok key =>
      match toValue v with
      | .error e => .error e
      | .ok x => toEntries rest (MapV.insert acc key x)
def toFields : List (String × Data) → MapV → Except SerErr MapV
  | [], acc => .ok acc
  | (f, v) :: rest, acc =>
    match toValue v with
    | .error e => .error e
    | .ok x => toFields rest (MapV.insert acc (.str f.toList) x)
end

/-! ## JSON -/

inductive Json where
  | null
  | bool (b : Bool)
  | int (i : Int)          -- serde_json `Number`: i64 / u64 range
  | float (bits : UInt64)  -- finite
  | str (s : Str)
  | arr (xs : List Json)
  | obj (fields : List (Str × Json))   -- later duplicates overwrite; compared order-insensitively
deriving Repr, Inhabited

def objInsert : List (Str × Json) → Str → Json → List (Str × Json)
  | [], k, v => [(k, v)]
  | (k', v') :: rest, k, v => if k' = k then (k, v) :: rest else (k', v') :: objInsert rest k v

/-- standard base64 alphabet with padding (`BASE64_STANDARD`) -/
def b64Char (n : Nat) : Char :=
  if n < 26 then Char.ofNat (65 + n) else if n < 52 then Char.ofNat (71 + n)
  else if n < 62 then Char.ofNat (n - 4) else if n == 62 then '+' else '/'

def base64 : List UInt8 → Str
  | [] => []
  | [a] =>
    let n := a.toNat
    [b64Char (n / 4), b64Char (n % 4 * 16), '=', '=']
  | [a, b] =>
    let n := a.toNat * 256 + b.toNat
    [b64Char (n / 1024), b64Char (n / 16 % 64), b64Char (n % 16 * 4), '=']
  | a :: b :: c :: rest =>
    let n := a.toNat * 65536 + b.toNat * 256 + c.toNat
    b64Char (n / 262144) :: b64Char (n / 4096 % 64) :: b64Char (n / 64 % 64) :: b64Char (n % 64) :: base64 rest

inductive JsonErr where
  | value | durationOverflow
deriving Repr, DecidableEq, Inhabited

mutual
/-- `Value::json` -/
def toJson : Value → Except JsonErr Json
  | .list xs => (toJsons xs).map .arr
  | .map m => (toJsonEntries m []).map .obj
  | .int i => .ok (.int i)
  | .uint n => .ok (.int n)
  | .dbl b => .ok (if F64.isFinite b then .float b else .null)
  | .str s => .ok (.str s)
  | .bool b => .ok (.bool b)
  | .bytes b => .ok (.str (base64 b))
  | .null => .ok .null
  | .ts t o => .ok (.str (Time.format t o))
  | .dur ns => if inI64 ns then .ok (.int ns) else .error .durationOverflow
  | .fn _ _ => .error .value
def toJsons : List Value → Except JsonErr (List Json)
  | [] => .ok []
  | v :: vs =>
    match toJson v with
    | .error e => .error e
    | .ok j =>
      match toJsons vs with
      | .error e => .error e
      | .ok js => .ok (j :: js)
def toJsonEntries : List (Key × Value) → List (Str × Json) → Except JsonErr (List (Str × Json))
  | [], acc => .ok acc
  | (k, v) :: rest, acc =>
    match toJson v with
    | .error e => .error e
    | .ok j => toJsonEntries rest (objInsert acc k.toText j)
end

mutual
/-- importing a JSON document: `to_value(&serde_json::Value)` -/
def fromJson : Json → Value
  | .null => .null
  | .bool b => .bool b
  | .int i => if i < 0 then .int i else .uint i     -- serde_json serialises non-negative numbers as u64
  | .float b => .dbl b
  | .str s => .str s
  | .arr xs => .list (fromJsons xs)
  | .obj fs => .map (fromJsonFields fs [])
def fromJsons : List Json → List Value
  | [] => []
  | j :: js => fromJson j :: fromJsons js
def fromJsonFields : List (Str × Json) → MapV → MapV
  | [], acc => acc
  | (k, j) :: rest, acc => fromJsonFields rest (MapV.insert acc (.str k) (fromJson j))
end

/-- key text `serde_json`'s map-key serializer produces; `none` = "key must be a string" -/
def jsonKeyOf : Data → Option Str
  | .str s => some s
  | .char c => some [c]
  | .bool b => some (if b then "true".toList else "false".toList)
  | .int i => some (intToDec i)
  | .uint n => some (intToDec n)
  | .unitVariant _ v => some v.toList
  | .newtypeStruct _ d => jsonKeyOf d
  -- finite float keys are rendered as text (serde_json uses ryu; for the values the generator
  -- uses this coincides with Rust's `Display`)
  | .float b => if F64.isFinite b then some (F64.fmt b) else none
  | _ => none

mutual
/-- `serde_json::to_value` on the same data; `none` = serde_json reports an error -/
def serdeJson : Data → Option Json
  | .bool b => some (.bool b)
  | .int i => some (.int i)
  | .uint n => some (.int n)
  | .wide => none
  | .float b => some (if F64.isFinite b then .float b else .null)
  | .char c => some (.str [c])
  | .str s => some (.str s)
  | .bytes b => some (.arr (b.map (fun x => .int x.toNat)))
  | .none => some .null
  | .some d => serdeJson d
  | .unit => some .null
  | .unitStruct _ => some .null
  | .unitVariant _ v => some (.str v.toList)
  | .newtypeStruct _ d => serdeJson d
  | .newtypeVariant _ v d => (serdeJson d).map (fun j => .obj [(v.toList, j)])
  | .seq ds => (serdeJsons ds).map .arr
  | .tuple ds => (serdeJsons ds).map .arr
  | .tupleStruct _ ds => (serdeJsons ds).map .arr
  | .tupleVariant _ v ds => (serdeJsons ds).map (fun js => .obj [(v.toList, .arr js)])
  | .map es => (serdeJsonEntries es []).map .obj
  | .struct _ fs => (serdeJsonFields fs []).map .obj
  | .structVariant _ v fs => (serdeJsonFields fs []).map (fun o => .obj [(v.toList, .obj o)])
  -- not JSON-native: serde_json renders the wrapper struct / chrono's ISO 8601 text
  | .celDuration ns =>
    some (.obj [("secs".toList, .int (Int.tdiv ns 1000000000)), ("nanos".toList, .int (Int.tmod ns 1000000000))])
  | .celTimestamp t o =>
    some (.str (if o == 0 then (Time.format t o).dropLast.dropLast.dropLast.dropLast.dropLast.dropLast ++ ['Z']
                else Time.format t o))
def serdeJsons : List Data → Option (List Json)
  | [] => some []
  | d :: ds =>
    match serdeJson d, serdeJsons ds with
    | some j, some js => some (j :: js)
    | _, _ => none
def serdeJsonEntries : List (Data × Data) → List (Str × Json) → Option (List (Str × Json))
  | [], acc => some acc
  | (k, v) :: rest, acc =>
    match jsonKeyOf k, serdeJson v with
    | some key, some j => serdeJsonEntries rest (objInsert acc key j)
    | _, _ => none
def serdeJsonFields : List (String × Data) → List (Str × Json) → Option (List (Str × Json))
  | [], acc => some acc
  | (f, v) :: rest, acc =>
    match serdeJson v with
    | some j => serdeJsonFields rest (objInsert acc f.toList j)
    | none => none
end

end Serde
end Cel
