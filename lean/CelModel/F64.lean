import CelModel.Num
/-!
# IEEE-754 binary64 as the interpreter uses it

A double is its 64-bit pattern.  Everything the properties reason about (comparison with
integers, truncation, int → double rounding) is defined on the *decoded* value with integer
arithmetic only, so it is computable and provable.  `+ - * /` on doubles are delegated to Lean's
native `Float` (hardware doubles on both sides; no theorem depends on their values).  Shortest
round-trip printing and correctly-rounded decimal parsing (Rust's `Display`/`FromStr` for `f64`)
are re-implemented with exact `Nat` arithmetic; they are *modelled, not verified* and tied to
Rust's `std` by the correspondence check.
-/
namespace Cel
namespace F64

/-- decoded double: value = (-1)^neg * m * 2^e; finite case has m < 2^53, -1074 ≤ e ≤ 971 -/
inductive D where
  | nan
  | inf (neg : Bool)
  | fin (neg : Bool) (m : Nat) (e : Int)
deriving Repr, DecidableEq, Inhabited

def decodeNat (bits : Nat) : D :=
  let neg := bits / 2^63 % 2 == 1
  let ex : Nat := bits / 2^52 % 2^11
  let fr : Nat := bits % 2^52
  if ex == 2047 then (if fr == 0 then .inf neg else .nan)
  else if ex == 0 then .fin neg fr (-1074)
  else .fin neg (fr + 2^52) ((ex : Int) - 1075)

def decode (bits : UInt64) : D := decodeNat bits.toNat

def isNaN (bits : UInt64) : Bool := match decode bits with | .nan => true | _ => false
def isFinite (bits : UInt64) : Bool := match decode bits with | .fin .. => true | _ => false

def nanBits : UInt64 := 0x7ff8000000000000
def posInfBits : UInt64 := 0x7ff0000000000000
def negInfBits : UInt64 := 0xfff0000000000000
def signBit : UInt64 := 0x8000000000000000

/-- all NaNs are one value for the purposes of comparison of outputs -/
def canon (bits : UInt64) : UInt64 := if isNaN bits then nanBits else bits

/-- extended integers: the exact value of a number scaled by 2^1074, or ±∞ -/
inductive EInt where
  | negInf | fin (z : Int) | posInf
deriving Repr, DecidableEq, Inhabited

def EInt.cmp : EInt → EInt → Ordering
  | .negInf, .negInf => .eq
  | .negInf, _ => .lt
  | _, .negInf => .gt
  | .posInf, .posInf => .eq
  | .posInf, _ => .gt
  | _, .posInf => .lt
  | .fin a, .fin b => compare a b

@[inline] def sgn (neg : Bool) (n : Int) : Int := if neg then -n else n

def scale : Nat := 1074
/-- 2^1074, kept behind a definition so that `simp` never tries to evaluate it -/
def twoScale : Int := 2 ^ scale

/-- exact value scaled by 2^1074 (every finite double is an integer multiple of 2^-1074) -/
def keyD : D → Option EInt
  | .nan => none
  | .inf neg => some (if neg then .negInf else .posInf)
  | .fin neg m e => some (.fin (sgn neg ((m : Int) * 2 ^ (e + 1074).toNat)))

def keyI (i : Int) : EInt := .fin (i * twoScale)

/-- magnitude of the truncation toward zero of m·2^e -/
def truncMag (m : Nat) (e : Int) : Nat := if e ≥ 0 then m * 2 ^ e.toNat else m / 2 ^ (-e).toNat
def fracNonzero (m : Nat) (e : Int) : Bool := if e ≥ 0 then false else m % 2 ^ (-e).toNat != 0

/-- `f64::partial_cmp` -/
def cmpDD (a b : D) : Option Ordering :=
  match keyD a, keyD b with
  | some x, some y => some (EInt.cmp x y)
  | _, _ => none

/-- Comparison of an integer (i64 or u64 range) with a double, shaped like the Rust helper:
NaN → none; otherwise compare `i` with `trunc f`, and on a tie let the fraction decide. -/
def cmpIntD (i : Int) : D → Option Ordering
  | .nan => none
  | .inf neg => some (if neg then .gt else .lt)
  | .fin neg m e =>
    let t : Int := sgn neg (truncMag m e)
    match compare i t with
    | .lt => some .lt
    | .gt => some .gt
    | .eq => if fracNonzero m e then (if neg then some .gt else some .lt) else some .eq

/-- `f as i64` / `f as u64` preceded by the range test: truncation toward zero of a finite value -/
def truncToInt : D → Option Int
  | .fin neg m e => some (sgn neg (truncMag m e))
  | _ => none

/-! ### encoding: round-to-nearest-even of an exact rational `num / den` -/

/-- bits of the positive finite double nearest to `num/den` (ties to even); `none` on overflow
to infinity. `den > 0`. -/
def roundRatPos (num den : Nat) : Option Nat :=
  if num == 0 then some 0 else
  -- choose sh with q = floor(num * 2^sh / den) having at least 55 significant bits
  let ln := Nat.log2 num
  let ld := Nat.log2 den
  let shI : Int := 56 - (ln : Int) + (ld : Int)
  let (n', d') : Nat × Nat := if shI ≥ 0 then (num * 2 ^ shI.toNat, den) else (num, den * 2 ^ (-shI).toNat)
  let q := n' / d'
  let sticky := n' % d' != 0
  -- value = (q + sticky·ε) · 2^(-shI); q has 55..57 bits
  let qb := Nat.log2 q   -- top bit index
  -- exponent of the top bit of the value
  let topE : Int := (qb : Int) - shI
  -- target: 53-bit mantissa with lsb exponent  le = max (topE - 52) (-1074)
  let le : Int := if topE - 52 ≥ -1074 then topE - 52 else -1074
  -- drop = number of low bits of q to discard = le + shI  (≥ 2 by construction)
  let drop : Nat := (le + shI).toNat
  let keep := q / 2 ^ drop
  let rest := q % 2 ^ drop
  let half := 2 ^ (drop - 1)
  let up : Bool := rest > half || (rest == half && (sticky || keep % 2 == 1))
  let mant := if up then keep + 1 else keep
  -- mant < 2^53 + 1; renormalise
  let (mant, le) := if mant == 2 ^ 53 then (2 ^ 52, le + 1) else (mant, le)
  if mant < 2 ^ 52 then
    -- subnormal (le = -1074) or zero
    some mant
  else
    let ex : Int := le + 1075
    if ex ≥ 2047 then none else some (ex.toNat * 2 ^ 52 + (mant - 2 ^ 52))

def ofRat (neg : Bool) (num den : Nat) : UInt64 :=
  let mag := match roundRatPos num den with
    | some b => b
    | none => 0x7ff0000000000000
  UInt64.ofNat (mag + (if neg then 2 ^ 63 else 0))

/-- `i as f64` (i64 or u64): nearest double, ties to even -/
def ofInt (i : Int) : UInt64 := ofRat (i < 0) i.natAbs 1

/-! ### native arithmetic (opaque to the theorems) -/
def toFloat (b : UInt64) : Float := Float.ofBits b
def add (a b : UInt64) : UInt64 := canon (toFloat a + toFloat b).toBits
def sub (a b : UInt64) : UInt64 := canon (toFloat a - toFloat b).toBits
def mul (a b : UInt64) : UInt64 := canon (toFloat a * toFloat b).toBits
def div (a b : UInt64) : UInt64 := canon (toFloat a / toFloat b).toBits
def neg (a : UInt64) : UInt64 := a ^^^ signBit

/-! ### shortest round-trip printing (Rust `impl Display for f64`) -/

def digitChar (d : Nat) : Char := Char.ofNat (48 + d)

/-- Burger–Dybvig free-format digit generation; returns digits (most significant first).
State: r/s is the remaining value, mp/mm the distances to the upper/lower neighbour midpoints. -/
def genDigits (fuel : Nat) (r s mp mm : Nat) (lowOk highOk : Bool) (acc : List Nat) : List Nat :=
  match fuel with
  | 0 => acc.reverse
  | fuel + 1 =>
    let d := r / s
    let r := r % s
    let tc1 := if lowOk then r ≤ mm else r < mm
    let tc2 := if highOk then r + mp ≥ s else r + mp > s
    if !tc1 then
      if !tc2 then genDigits fuel (r * 10) s (mp * 10) (mm * 10) lowOk highOk (d :: acc)
      else ((d + 1) :: acc).reverse
    else if !tc2 then (d :: acc).reverse
    else
      -- both candidates are in the rounding interval: take the closer one; on an exact tie Rust's
      -- flt2dec rounds up (`mant * 2 >= scale`), e.g. …000.25 prints as …000.3
      if r * 2 < s then (d :: acc).reverse
      else ((d + 1) :: acc).reverse

/-- scale so that the first generated digit is the leading one; returns (k, digits) with
value = 0.d₁d₂… × 10^k -/
def shortestDigits (m : Nat) (e : Int) : Int × List Nat :=
  let even := m % 2 == 0
  let boundary := m == 2 ^ 52 && e > -1074
  -- r/s = value, mp/s = half gap above, mm/s = half gap below
  let (r, s, mp, mm) : Nat × Nat × Nat × Nat :=
    if e ≥ 0 then
      let be := 2 ^ e.toNat
      if !boundary then (m * be * 2, 2, be, be) else (m * be * 4, 4, be * 2, be)
    else
      let be := 2 ^ (-e).toNat
      if !boundary then (m * 2, be * 2, 1, 1) else (m * 4, be * 4, 2, 1)
  -- find k: smallest with (r + mp) / s  <(=) 10^k
  let rec up (fuel : Nat) (s : Nat) (k : Int) : Nat × Int :=
    match fuel with
    | 0 => (s, k)
    | fuel + 1 =>
      let tooLow := if even then r + mp ≥ s else r + mp > s
      if tooLow then up fuel (s * 10) (k + 1) else (s, k)
  let rec down (fuel : Nat) (r mp mm : Nat) (s : Nat) (k : Int) : Nat × Nat × Nat × Int :=
    match fuel with
    | 0 => (r, mp, mm, k)
    | fuel + 1 =>
      let tooLow := if even then (r + mp) * 10 ≥ s else (r + mp) * 10 > s
      if tooLow then (r, mp, mm, k) else down fuel (r * 10) (mp * 10) (mm * 10) s (k - 1)
  let (s, k) := up 400 s 0
  let (r, mp, mm, k) := down 400 r mp mm s k
  (k, genDigits 800 (r * 10) s (mp * 10) (mm * 10) even even [])

/-- Rust's `{}` for f64: `NaN`, `inf`, `-inf`, otherwise shortest digits without exponent. -/
def fmt (bits : UInt64) : List Char :=
  match decode bits with
  | .nan => "NaN".toList
  | .inf neg => (if neg then "-inf" else "inf").toList
  | .fin neg m e =>
    let sign := if neg then ['-'] else []
    if m == 0 then sign ++ ['0'] else
    let (k, ds) := shortestDigits m e
    let n := ds.length
    let cs := ds.map digitChar
    if k ≤ 0 then sign ++ ['0', '.'] ++ List.replicate (-k).toNat '0' ++ cs
    else if k.toNat ≥ n then sign ++ cs ++ List.replicate (k.toNat - n) '0'
    else sign ++ cs.take k.toNat ++ ['.'] ++ cs.drop k.toNat

/-! ### decimal parsing (Rust `impl FromStr for f64`) -/

def isDigit (c : Char) : Bool := '0' ≤ c && c ≤ '9'
def digitVal (c : Char) : Nat := c.toNat - 48

def takeDigits : List Char → List Char × List Char
  | c :: cs => if isDigit c then let (a, b) := takeDigits cs; (c :: a, b) else ([], c :: cs)
  | [] => ([], [])

def digitsToNat (cs : List Char) : Nat := cs.foldl (fun n c => n * 10 + digitVal c) 0

def lower (cs : List Char) : List Char := cs.map Char.toLower

/-- `str::parse::<f64>()`; `none` = parse error -/
def parse (s : List Char) : Option UInt64 :=
  let (neg, body) := match s with
    | '-' :: r => (true, r)
    | '+' :: r => (false, r)
    | r => (false, r)
  let lb := lower body
  if lb == "inf".toList || lb == "infinity".toList then some (if neg then negInfBits else posInfBits)
  else if lb == "nan".toList then some nanBits
  else
    let (ip, r1) := takeDigits body
    let (fp, r2, hadDot) := match r1 with
      | '.' :: r => let (f, r') := takeDigits r; (f, r', true)
      | r => ([], r, false)
    let _ := hadDot
    if ip.isEmpty && fp.isEmpty then none else
    let expPart : Option (Int × List Char) := match r2 with
      | c :: r =>
        if c == 'e' || c == 'E' then
          let (eneg, r') := match r with
            | '-' :: t => (true, t)
            | '+' :: t => (false, t)
            | t => (false, t)
          let (ed, r'') := takeDigits r'
          if ed.isEmpty then none else
          -- clamp huge exponents: anything beyond ±100000 behaves the same (leading zeros of
          -- the exponent do not count: `1e0000000001` is 10)
          let edSig := ed.dropWhile (· == '0')
          let ev := if edSig.length > 7 then 10000000 else digitsToNat edSig
          some ((if eneg then -(ev : Int) else (ev : Int)), r'')
        else some (0, c :: r)
      | [] => some (0, [])
    match expPart with
    | none => none
    | some (ex, rest) =>
      if !rest.isEmpty then none else
      let digs := ip ++ fp
      let mant := digitsToNat digs
      let e10 : Int := ex - (fp.length : Int)
      if mant == 0 then some (if neg then signBit else 0) else
      -- magnitude: 10^(sig - 1 + e10) ≤ value < 10^(sig + e10) ≤ 10^(len + e10), where `sig`
      -- counts the digits from the first non-zero one and `len` all of them; clamp far-away
      -- cases (everything in between is computed exactly)
      let magHi : Int := ((digs.dropWhile (· == '0')).length : Int) + e10
      let magLo : Int := (digs.length : Int) + e10
      if magHi > 330 then some (if neg then negInfBits else posInfBits)
      else if magLo < -400 then some (if neg then signBit else 0)
      else if e10 ≥ 0 then some (ofRat neg (mant * 10 ^ e10.toNat) 1)
      else some (ofRat neg mant (10 ^ (-e10).toNat))

end F64
end Cel
