import CelModel.StrLit
import CelModel.Macros
import CelModel.F64
/-!
# The parser: `CEL.g4` grammar rules + the visitor of `antlr/src/parser.rs`

Tokens → `Expr`, by recursive descent with explicit fuel (every call consumes one unit; the
fuel handed to `parseTop` is a fixed multiple of the token count).  `none` = the text is not
accepted (syntax error, or a visitor error: literal out of range, optional syntax, bad macro
argument).  Error text/positions of the ANTLR runtime are not modelled.
-/
namespace Cel
namespace Parser
open Lexer

abbrev Toks := List Tok

/-- `LogicManager::balanced_tree(lo, hi)` over `terms`, `mid = ⌈(lo+hi)/2⌉` -/
def balancedTree (op : String) (terms : Array Expr) : (fuel : Nat) → (lo hi : Nat) → Expr
  | 0, _, _ => .unspecified
  | fuel + 1, lo, hi =>
    let mid := (lo + hi + 1) / 2
    let left := if mid == lo then terms[mid]! else balancedTree op terms fuel lo (mid - 1)
    let right := if mid == hi then terms[mid + 1]! else balancedTree op terms fuel (mid + 1) hi
    .call op [left, right]

def logicExpr (op : String) (terms : List Expr) : Expr :=
  match terms with
  | [t] => t
  | _ => balancedTree op terms.toArray (terms.length + 1) 0 (terms.length - 2)

/-- `visit_Int` on the literal text (sign included) -/
def intLiteral (neg : Bool) (text : Str) : Option Expr :=
  let mag : Option Nat := match text with
    | '0' :: 'x' :: h => StrLit.parseRadix 16 h
    | ds => if ds.all isDigit && !ds.isEmpty then some (ds.foldl (fun n c => n * 10 + (c.toNat - 48)) 0) else none
  match mag with
  | none => none
  | some m =>
    let v : Int := if neg then -(m : Int) else m
    if inI64 v then some (.lit (.int v)) else none

/-- `visit_Uint` -/
def uintLiteral (text : Str) : Option Expr :=
  let body := text.dropLast
  let mag : Option Nat := match body with
    | '0' :: 'x' :: h => StrLit.parseRadix 16 h
    | ds => if ds.all isDigit && !ds.isEmpty then some (ds.foldl (fun n c => n * 10 + (c.toNat - 48)) 0) else none
  match mag with
  | none => none
  | some m => if inU64 m then some (.lit (.uint m)) else none

/-- `visit_Double`: must parse to a finite value -/
def doubleLiteral (neg : Bool) (text : Str) : Option Expr :=
  match F64.parse (if neg then '-' :: text else text) with
  | some b => if F64.isFinite b then some (.lit (.dbl b)) else none
  | none => none

def stringLiteral (text : Str) : Option Expr := (StrLit.parseString text).map (fun s => .lit (.str s))
def bytesLiteral (text : Str) : Option Expr := (StrLit.parseBytes text).map (fun b => .lit (.bytes b))

def relOpName : String → Option String
  | "<" => some "_<_" | "<=" => some "_<=_" | ">=" => some "_>=_" | ">" => some "_>_"
  | "==" => some "_==_" | "!=" => some "_!=_" | "in" => some "@in" | _ => none
def mulOpName : String → Option String
  | "*" => some "_*_" | "/" => some "_/_" | "%" => some "_%_" | _ => none
def addOpName : String → Option String
  | "+" => some "_+_" | "-" => some "_-_" | _ => none

/-- a call node or its macro expansion (`global_call_or_macro` / `receiver_call_or_macro`) -/
def callOrMacro (f : String) (target : Option Expr) (args : List Expr) : Option Expr :=
  match Macros.expand f target args with
  | .ok e => some e
  | .error => none
  | .notMacro => match target with
    | none => some (.call f args)
    | some t => some (.mcall f t args)

/-- length of the run of `sym s` tokens at the head -/
def runLen (s : String) : Toks → Nat
  | .sym t :: r => if t == s then 1 + runLen s r else 0
  | _ => 0

/-- `IDENT ('.' IDENT)* '{'` lookahead for a message literal: the dotted name and the tokens
after the brace -/
def messageHead : (fuel : Nat) → Toks → Option (List Str × Toks)
  | 0, _ => none
  | fuel + 1, ts =>
    match ts with
    | .ident n :: .sym "{" :: r => some ([n], r)
    | .ident n :: .sym "." :: r =>
      (match messageHead fuel r with
       | some (ns, r') => some (n :: ns, r')
       | none => none)
    | _ => none

def joinDots : List Str → Str
  | [] => []
  | [a] => a
  | a :: rest => a ++ ['.'] ++ joinDots rest

mutual
/-- expr : conditionalOr ('?' conditionalOr ':' expr)? -/
def parseExpr : (fuel : Nat) → Toks → Option (Expr × Toks)
  | 0, _ => none
  | fuel + 1, ts =>
    match parseOr fuel ts with
    | none => none
    | some (c, .sym "?" :: r) =>
      (match parseOr fuel r with
       | some (a, .sym ":" :: r2) =>
         (match parseExpr fuel r2 with
          | some (b, r3) => some (.call "_?_:_" [c, a, b], r3)
          | none => none)
       | _ => none)
    | some (c, r) => some (c, r)

/-- conditionalOr : conditionalAnd ('||' conditionalAnd)* -/
def parseOr : (fuel : Nat) → Toks → Option (Expr × Toks)
  | 0, _ => none
  | fuel + 1, ts =>
    match parseAnd fuel ts with
    | none => none
    | some (t, r) =>
      (match parseOrRest fuel r [t] with
       | some (terms, r') => some (logicExpr "_||_" terms.reverse, r')
       | none => none)
def parseOrRest : (fuel : Nat) → Toks → List Expr → Option (List Expr × Toks)
  | 0, _, _ => none
  | fuel + 1, ts, acc =>
    match ts with
    | .sym "||" :: r =>
      (match parseAnd fuel r with
       | some (t, r') => parseOrRest fuel r' (t :: acc)
       | none => none)
    | _ => some (acc, ts)

/-- conditionalAnd : relation ('&&' relation)* -/
def parseAnd : (fuel : Nat) → Toks → Option (Expr × Toks)
  | 0, _ => none
  | fuel + 1, ts =>
    match parseRel fuel ts with
    | none => none
    | some (t, r) =>
      (match parseAndRest fuel r [t] with
       | some (terms, r') => some (logicExpr "_&&_" terms.reverse, r')
       | none => none)
def parseAndRest : (fuel : Nat) → Toks → List Expr → Option (List Expr × Toks)
  | 0, _, _ => none
  | fuel + 1, ts, acc =>
    match ts with
    | .sym "&&" :: r =>
      (match parseRel fuel r with
       | some (t, r') => parseAndRest fuel r' (t :: acc)
       | none => none)
    | _ => some (acc, ts)

/-- relation : calc (relop calc)*, left-associative -/
def parseRel : (fuel : Nat) → Toks → Option (Expr × Toks)
  | 0, _ => none
  | fuel + 1, ts =>
    match parseAdd fuel ts with
    | none => none
    | some (l, r) => parseRelRest fuel r l
def parseRelRest : (fuel : Nat) → Toks → Expr → Option (Expr × Toks)
  | 0, _, _ => none
  | fuel + 1, ts, l =>
    match ts with
    | .sym s :: r =>
      (match relOpName s with
       | some op =>
         (match parseAdd fuel r with
          | some (rhs, r') => parseRelRest fuel r' (.call op [l, rhs])
          | none => none)
       | none => some (l, ts))
    | _ => some (l, ts)

/-- calc, additive level: mul (('+'|'-') mul)* -/
def parseAdd : (fuel : Nat) → Toks → Option (Expr × Toks)
  | 0, _ => none
  | fuel + 1, ts =>
    match parseMul fuel ts with
    | none => none
    | some (l, r) => parseAddRest fuel r l
def parseAddRest : (fuel : Nat) → Toks → Expr → Option (Expr × Toks)
  | 0, _, _ => none
  | fuel + 1, ts, l =>
    match ts with
    | .sym s :: r =>
      (match addOpName s with
       | some op =>
         (match parseMul fuel r with
          | some (rhs, r') => parseAddRest fuel r' (.call op [l, rhs])
          | none => none)
       | none => some (l, ts))
    | _ => some (l, ts)

/-- calc, multiplicative level: unary (('*'|'/'|'%') unary)* -/
def parseMul : (fuel : Nat) → Toks → Option (Expr × Toks)
  | 0, _ => none
  | fuel + 1, ts =>
    match parseUnary fuel ts with
    | none => none
    | some (l, r) => parseMulRest fuel r l
def parseMulRest : (fuel : Nat) → Toks → Expr → Option (Expr × Toks)
  | 0, _, _ => none
  | fuel + 1, ts, l =>
    match ts with
    | .sym s :: r =>
      (match mulOpName s with
       | some op =>
         (match parseUnary fuel r with
          | some (rhs, r') => parseMulRest fuel r' (.call op [l, rhs])
          | none => none)
       | none => some (l, ts))
    | _ => some (l, ts)

/-- unary : member | '!'+ member | '-'+ member -/
def parseUnary : (fuel : Nat) → Toks → Option (Expr × Toks)
  | 0, _ => none
  | fuel + 1, ts =>
    let nb := runLen "!" ts
    let nm := runLen "-" ts
    if nb > 0 then
      match parseMember fuel (ts.drop nb) with
      | some (m, r) => some (if nb % 2 == 0 then m else .call "!_" [m], r)
      | none => none
    else if nm > 0 then
      -- a single '-' directly before a numeric literal is the literal's sign (first alternative)
      let signedLit : Bool := nm == 1 && (match ts.drop 1 with
        | .int _ :: _ => true | .float _ :: _ => true | _ => false)
      if signedLit then parseMember fuel ts
      else
        match parseMember fuel (ts.drop nm) with
        | some (m, r) => some (if nm % 2 == 0 then m else .call "-_" [m], r)
        | none => none
    else parseMember fuel ts

/-- member : primary ('.' id | '.' id '(' args ')' | '[' expr ']')* -/
def parseMember : (fuel : Nat) → Toks → Option (Expr × Toks)
  | 0, _ => none
  | fuel + 1, ts =>
    match parsePrimary fuel ts with
    | none => none
    | some (p, r) => parseSuffix fuel r p
def parseSuffix : (fuel : Nat) → Toks → Expr → Option (Expr × Toks)
  | 0, _, _ => none
  | fuel + 1, ts, e =>
    match ts with
    | .sym "." :: .ident f :: .sym "(" :: r =>
      (match parseArgs fuel r with
       | some (args, r') =>
         (match callOrMacro (String.ofList f) (some e) args with
          | some c => parseSuffix fuel r' c
          | none => none)
       | none => none)
    | .sym "." :: .ident f :: r => parseSuffix fuel r (.select e f false)
    | .sym "." :: .escIdent f :: r => parseSuffix fuel r (.select e f false)
    | .sym "[" :: r =>
      (match parseExpr fuel r with
       | some (i, .sym "]" :: r') => parseSuffix fuel r' (.call "_[_]" [e, i])
       | _ => none)
    | _ => some (e, ts)

/-- exprList? ')' : the arguments and the tokens after the closing parenthesis -/
def parseArgs : (fuel : Nat) → Toks → Option (List Expr × Toks)
  | 0, _ => none
  | fuel + 1, ts =>
    match ts with
    | .sym ")" :: r => some ([], r)
    | _ =>
      (match parseExpr fuel ts with
       | some (a, .sym "," :: r) =>
         (match r with
          | .sym ")" :: _ => none      -- no trailing comma in argument lists
          | _ =>
            (match parseArgs fuel r with
             | some (rest, r') => some (a :: rest, r')
             | none => none))
       | some (a, .sym ")" :: r) => some ([a], r)
       | _ => none)

/-- listInit? ','? ']' -/
def parseListElems : (fuel : Nat) → Toks → Option (List Expr × Toks)
  | 0, _ => none
  | fuel + 1, ts =>
    match ts with
    | .sym "]" :: r => some ([], r)
    | _ =>
      (match parseExpr fuel ts with
       | some (a, .sym "," :: r) =>
         (match parseListElems fuel r with
          | some (rest, r') => some (a :: rest, r')
          | none => none)
       | some (a, .sym "]" :: r) => some ([a], r)
       | _ => none)

/-- mapInitializerList? ','? '}' -/
def parseMapEntries : (fuel : Nat) → Toks → Option (List (Expr × Expr) × Toks)
  | 0, _ => none
  | fuel + 1, ts =>
    match ts with
    | .sym "}" :: r => some ([], r)
    | _ =>
      (match parseExpr fuel ts with
       | some (k, .sym ":" :: r) =>
         (match parseExpr fuel r with
          | some (v, .sym "," :: r2) =>
            (match parseMapEntries fuel r2 with
             | some (rest, r3) => some ((k, v) :: rest, r3)
             | none => none)
          | some (v, .sym "}" :: r2) => some ([(k, v)], r2)
          | _ => none)
       | _ => none)

/-- field_initializer_list? ','? '}' -/
def parseFields : (fuel : Nat) → Toks → Option (List Str × List Expr × Toks)
  | 0, _ => none
  | fuel + 1, ts =>
    match ts with
    | .sym "}" :: r => some ([], [], r)
    | _ =>
      let nameRest : Option (Str × Toks) := match ts with
        | .ident f :: .sym ":" :: r => some (f, r)
        | .escIdent f :: .sym ":" :: r => some (f, r)
        | _ => none
      (match nameRest with
       | none => none
       | some (f, r) =>
         (match parseExpr fuel r with
          | some (v, .sym "," :: r2) =>
            (match parseFields fuel r2 with
             | some (fs, vs, r3) => some (f :: fs, v :: vs, r3)
             | none => none)
          | some (v, .sym "}" :: r2) => some ([f], [v], r2)
          | _ => none))

/-- primary -/
def parsePrimary : (fuel : Nat) → Toks → Option (Expr × Toks)
  | 0, _ => none
  | fuel + 1, ts =>
    -- literals first
    match ts with
    | .sym "-" :: .int t :: r => (intLiteral true t).map (·, r)
    | .sym "-" :: .float t :: r => (doubleLiteral true t).map (·, r)
    | .int t :: r => (intLiteral false t).map (·, r)
    | .float t :: r => (doubleLiteral false t).map (·, r)
    | .uint t :: r => (uintLiteral t).map (·, r)
    | .str t :: r => (stringLiteral t).map (·, r)
    | .bytes t :: r => (bytesLiteral t).map (·, r)
    | .sym "true" :: r => some (.lit (.bool true), r)
    | .sym "false" :: r => some (.lit (.bool false), r)
    | .sym "null" :: r => some (.lit .null, r)
    | .sym "(" :: r =>
      (match parseExpr fuel r with
       | some (e, .sym ")" :: r') => some (e, r')
       | _ => none)
    | .sym "[" :: r =>
      (match r with
       | .sym "," :: .sym "]" :: r' => some (.list [], r')
       | _ => (match parseListElems fuel r with
          | some (es, r') => some (.list es, r')
          | none => none))
    | .sym "{" :: r =>
      (match r with
       | .sym "," :: .sym "}" :: r' => some (.map [], r')
       | _ => (match parseMapEntries fuel r with
          | some (es, r') => some (.map es, r')
          | none => none))
    | _ =>
      -- identifiers, calls and message literals, with an optional leading dot
      let (dot, ts') : Bool × Toks := match ts with
        | .sym "." :: r => (true, r)
        | _ => (false, ts)
      match messageHead (ts'.length + 1) ts' with
      | some (names, r) =>
        let tname := (if dot then ['.'] else []) ++ joinDots names
        (match r with
         | .sym "," :: .sym "}" :: r' => some (.struct (String.ofList tname) [] [], r')
         | _ => (match parseFields fuel r with
            | some (fs, vs, r') => some (.struct (String.ofList tname) fs vs, r')
            | none => none))
      | none =>
        match ts' with
        | .ident f :: .sym "(" :: r =>
          (match parseArgs fuel r with
           | some (args, r') =>
             (callOrMacro (String.ofList ((if dot then ['.'] else []) ++ f)) none args).map (·, r')
           | none => none)
        | .ident n :: r => some (.ident (String.ofList n), r)
        | _ => none
end

/-- `start : expr EOF` -/
def parseTop (ts : Toks) : Option Expr :=
  match parseExpr (40 * (ts.length + 2)) ts with
  | some (e, []) => some e
  | _ => none

/-- `Program::compile` / `Parser::parse`: lex, then parse; any lexer error rejects -/
def compile (src : Str) : Option Expr :=
  -- The antlr4rust token stream does not skip a hidden-channel token at index 0: the parser
  -- sees it, deletes it and reports "extraneous input".  `parser.rs` filters that report for
  -- WHITESPACE only, so a text that *begins* with a comment is rejected (observed; DESIGN.md).
  match Lexer.bestMatch src with
  | some (.comment, _, _) => none
  | _ =>
    match Lexer.lex src with
    | (ts, 0) => parseTop ts
    | _ => none

end Parser
end Cel
