/-!
# Outcomes, error classes and the evaluation monad

Every model function that mirrors fallible Rust code returns an `Outcome`: a value, an
execution error (classified as the harness canonicaliser classifies `ExecutionError`), or a
*panic* at a named site.  Panics are first-class so that "never panics" is a theorem about the
model and not a tautology.
-/
namespace Cel

/-- Error classes: one per `ExecutionError` variant family (DESIGN.md Appendix A). -/
inductive ErrC where
  | overflow | div0 | rem0
  | undeclared (n : String)
  | nosuchkey | notcomparable | unsupportedOp | badIndex | badKey | badArgc | badType
  | missingTarget | functionError | badTarget | other
  /-- not an `ExecutionError`: the model needs the answer of an external primitive (the `regex`
  crate) that the case did not ship; the harness re-sends the case with the answer -/
  | needRegex (pattern text : String)
deriving Repr, DecidableEq, Inhabited

inductive Outcome (α : Type) where
  | ok (v : α)
  | err (e : ErrC)
  | panic (site : String)
deriving Repr, Inhabited, DecidableEq

namespace Outcome
def map (f : α → β) : Outcome α → Outcome β
  | .ok v => .ok (f v) | .err e => .err e | .panic s => .panic s
def bind (o : Outcome α) (f : α → Outcome β) : Outcome β :=
  match o with
  | .ok v => f v | .err e => .err e | .panic s => .panic s
def isPanic : Outcome α → Bool
  | .panic _ => true | _ => false
def isOk : Outcome α → Bool
  | .ok _ => true | _ => false
end Outcome

/-- One observed host-function invocation: its name and what it saw. `β` is the value type. -/
structure Call (β : Type) where
  name : String
  args : List β
deriving Repr, Inhabited

/-- Evaluation state: the ordered host-call log and a step counter (one tick per AST node
evaluation), used by the evaluation-order and cost theorems. -/
structure St (β : Type) where
  log : List (Call β) := []
  steps : Nat := 0
deriving Repr, Inhabited

/-- The evaluation monad: state plus outcome; errors and panics stop the computation but keep
the state reached (so the log of what happened before an error stays observable). -/
def M (β : Type) (α : Type) := St β → Outcome α × St β

namespace M
@[inline] def pure (a : α) : M β α := fun s => (.ok a, s)
@[inline] def bind (m : M β α) (f : α → M β γ) : M β γ := fun s =>
  match m s with
  | (.ok a, s') => f a s'
  | (.err e, s') => (.err e, s')
  | (.panic p, s') => (.panic p, s')
instance : Monad (M β) := { pure := M.pure, bind := M.bind }
def throw (e : ErrC) : M β α := fun s => (.err e, s)
def panic (p : String) : M β α := fun s => (.panic p, s)
def logCall (c : Call β) : M β Unit := fun s => (.ok (), { s with log := s.log ++ [c] })
def tick : M β Unit := fun s => (.ok (), { s with steps := s.steps + 1 })
def lift (o : Outcome α) : M β α := fun s => (o, s)
def run (m : M β α) : Outcome α × St β := m {}
end M

end Cel
