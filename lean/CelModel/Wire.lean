import CelModel.Eval
import CelModel.Macros
import CelModel.CtxOps
import CelModel.Refs
import CelModel.Parser
import CelModel.Serde
/-!
# Line protocol: s-expressions, decoding of cases, printing of answers

This is I/O glue for the correspondence check, not part of any theorem.
-/
namespace Cel
namespace Wire

inductive Sx where
  | atom (s : String)
  | list (xs : List Sx)
deriving Repr, Inhabited

/-- tokens: "(" ")" and maximal runs of non-space, non-paren characters -/
def tokenize (s : String) : Array String := Id.run do
  let mut out : Array String := #[]
  let mut cur : String := ""
  for c in s.toList do
    if c == '(' || c == ')' then
      if !cur.isEmpty then out := out.push cur; cur := ""
      out := out.push (String.singleton c)
    else if c == ' ' || c == '\t' || c == '\n' || c == '\r' then
      if !cur.isEmpty then out := out.push cur; cur := ""
    else cur := cur.push c
  if !cur.isEmpty then out := out.push cur
  return out

partial def parseSeq (toks : Array String) (i : Nat) (acc : Array Sx) : Array Sx × Nat :=
  if h : i < toks.size then
    let t := toks[i]
    if t == ")" then (acc, i + 1)
    else if t == "(" then
      let (xs, j) := parseSeq toks (i + 1) #[]
      parseSeq toks j (acc.push (.list xs.toList))
    else parseSeq toks (i + 1) (acc.push (.atom t))
  else (acc, i)

def parseLine (s : String) : List Sx := (parseSeq (tokenize s) 0 #[]).1.toList

/-! ### atoms -/
def hexVal (c : Char) : Nat :=
  if '0' ≤ c && c ≤ '9' then c.toNat - 48
  else if 'a' ≤ c && c ≤ 'f' then c.toNat - 87
  else if 'A' ≤ c && c ≤ 'F' then c.toNat - 55 else 0

def hexToBytes : List Char → List UInt8
  | a :: b :: rest => (hexVal a * 16 + hexVal b).toUInt8 :: hexToBytes rest
  | _ => []

def hexDigit (n : Nat) : Char := if n < 10 then Char.ofNat (48 + n) else Char.ofNat (87 + n)
def bytesToHex (bs : List UInt8) : String :=
  String.ofList (bs.foldr (fun b acc => hexDigit (b.toNat / 16) :: hexDigit (b.toNat % 16) :: acc) [])

/-- `x<hex>` → bytes -/
def atomBytes (s : String) : List UInt8 :=
  match s.toList with
  | 'x' :: rest => hexToBytes rest
  | _ => []

def atomStr (s : String) : Str := bytesToStrLossy (atomBytes s)
def atomName (s : String) : String := String.ofList (atomStr s)
def atomInt (s : String) : Int := s.toInt?.getD 0
def atomHex64 (s : String) : UInt64 :=
  UInt64.ofNat (s.toList.foldl (fun n c => n * 16 + hexVal c) 0)

def strAtom (s : Str) : String := "x" ++ bytesToHex (strToBytes s)
def nameAtom (s : String) : String := strAtom s.toList
def hex64 (b : UInt64) : String :=
  let n := b.toNat
  String.ofList ((List.range 16).map (fun i => hexDigit (n / 16 ^ (15 - i) % 16)))

/-! ### values -/
mutual
partial def decValue : Sx → Value
  | .atom "null" => .null
  | .list [.atom "int", .atom n] => .int (atomInt n)
  | .list [.atom "uint", .atom n] => .uint (atomInt n)
  | .list [.atom "dbl", .atom h] => .dbl (atomHex64 h)
  | .list [.atom "str", .atom h] => .str (atomStr h)
  | .list [.atom "str"] => .str []
  | .list [.atom "bytes", .atom h] => .bytes (atomBytes h)
  | .list [.atom "bytes"] => .bytes []
  | .list [.atom "bool", .atom b] => .bool (b == "1")
  | .list (.atom "list" :: xs) => .list (xs.map decValue)
  | .list (.atom "map" :: es) => .map (es.foldl (fun m e => match e with
      | .list [k, v] => (match (decValue k).toKey? with
        | some key => MapV.insert m key (decValue v)
        | none => m)
      | _ => m) [])
  | .list [.atom "dur", .atom n] => .dur (atomInt n)
  | .list [.atom "ts", .atom n, .atom o] => .ts (atomInt n) (atomInt o)
  | .list [.atom "fn", .atom n] => .fn (atomName n) []
  | .list [.atom "fn", .atom n, v] => .fn (atomName n) [decValue v]
  | _ => .null
end

def keyRank : Key → Nat
  | .int _ => 0 | .uint _ => 1 | .bool _ => 2 | .str _ => 3

def keyLt (a b : Key) : Bool :=
  match a, b with
  | .int x, .int y => x < y
  | .uint x, .uint y => x < y
  | .bool x, .bool y => !x && y
  | .str x, .str y => cmpStr x y == .lt
  | a, b => keyRank a < keyRank b

def insertSorted (e : Key × Value) : List (Key × Value) → List (Key × Value)
  | [] => [e]
  | x :: xs => if keyLt e.1 x.1 then e :: x :: xs else x :: insertSorted e xs

def sortEntries (m : List (Key × Value)) : List (Key × Value) := m.foldl (fun acc e => insertSorted e acc) []

partial def encValue : Value → String
  | .null => "null"
  | .int i => s!"(int {i})"
  | .uint n => s!"(uint {n})"
  | .dbl b => s!"(dbl {hex64 (F64.canon b)})"
  | .str s => s!"(str {strAtom s})"
  | .bytes b => s!"(bytes x{bytesToHex b})"
  | .bool b => if b then "(bool 1)" else "(bool 0)"
  | .list xs => "(list" ++ String.join (xs.map (fun v => " " ++ encValue v)) ++ ")"
  | .map m => "(map" ++ String.join ((sortEntries m).map (fun kv =>
      " (" ++ encValue kv.1.toValue ++ " " ++ encValue kv.2 ++ ")")) ++ ")"
  | .dur ns => s!"(dur {ns})"
  | .ts t o => s!"(ts {t} {o})"
  | .fn n r => "(fn " ++ nameAtom n ++ String.join (r.map (fun v => " " ++ encValue v)) ++ ")"

/-! ### expressions -/
partial def decExpr : Sx → Expr
  | .atom "unspec" => .unspecified
  | .list [.atom "lit", v] => .lit (decValue v)
  | .list [.atom "id", .atom n] => .ident (atomName n)
  | .list (.atom "call" :: .atom f :: args) => .call (atomName f) (args.map decExpr)
  | .list (.atom "mcall" :: .atom f :: t :: args) => .mcall (atomName f) (decExpr t) (args.map decExpr)
  | .list [.atom "sel", e, .atom f, .atom t] => .select (decExpr e) (atomStr f) (t == "1")
  | .list (.atom "list" :: es) => .list (es.map decExpr)
  | .list (.atom "map" :: es) => .map (es.filterMap (fun e => match e with
      | .list [k, v] => some (decExpr k, decExpr v)
      | _ => none))
  | .list (.atom "struct" :: .atom n :: fs) =>
    .struct (atomName n)
      (fs.filterMap (fun e => match e with | .list [.atom f, _] => some (atomStr f) | _ => none))
      (fs.filterMap (fun e => match e with | .list [_, v] => some (decExpr v) | _ => none))
  | .list [.atom "comp", .atom iv, r, .atom av, i, c, s, res] =>
    .comp (atomName iv) (decExpr r) (atomName av) (decExpr i) (decExpr c) (decExpr s) (decExpr res)
  | _ => .unspecified

partial def encExpr : Expr → String
  | .unspecified => "unspec"
  | .lit v => "(lit " ++ encValue v ++ ")"
  | .ident n => "(id " ++ nameAtom n ++ ")"
  | .call f args => "(call " ++ nameAtom f ++ String.join (args.map (fun a => " " ++ encExpr a)) ++ ")"
  | .mcall f t args => "(mcall " ++ nameAtom f ++ " " ++ encExpr t ++ String.join (args.map (fun a => " " ++ encExpr a)) ++ ")"
  | .select e f t => "(sel " ++ encExpr e ++ " " ++ strAtom f ++ (if t then " 1)" else " 0)")
  | .list es => "(list" ++ String.join (es.map (fun a => " " ++ encExpr a)) ++ ")"
  | .map es => "(map" ++ String.join (es.map (fun kv => " (" ++ encExpr kv.1 ++ " " ++ encExpr kv.2 ++ ")")) ++ ")"
  | .struct n fs vs => "(struct " ++ nameAtom n ++ String.join ((fs.zip vs).map (fun fv => " (" ++ strAtom fv.1 ++ " " ++ encExpr fv.2 ++ ")")) ++ ")"
  | .comp iv r av i c s res => "(comp " ++ nameAtom iv ++ " " ++ encExpr r ++ " " ++ nameAtom av ++ " " ++ encExpr i
      ++ " " ++ encExpr c ++ " " ++ encExpr s ++ " " ++ encExpr res ++ ")"

/-! ### contexts -/
def decTy : String → ExtTy
  | "value" => .value | "int" => .int | "uint" => .uint | "dbl" => .dbl | "str" => .str
  | "bytes" => .bytes | "bool" => .bool | "list" => .list | "dur" => .dur | "ts" => .ts
  | _ => .value

def decExtractor (s : String) : Extractor :=
  match s.splitOn "-" with
  | ["this", t] => .this (decTy t)
  | ["thisopt", t] => .thisOpt (decTy t)
  | ["pos", t] => .pos (decTy t)
  | ["args"] => .allArgs
  | ["ident"] => .ident
  | ["expr"] => .expr
  | _ => .pos .value

def builtinTable : List (String × Builtin) :=
  [("contains", .contains), ("size", .size), ("max", .max), ("min", .min),
   ("startsWith", .startsWith), ("endsWith", .endsWith), ("string", .string), ("bytes", .bytes),
   ("double", .double), ("int", .int), ("uint", .uint), ("matches", .matches),
   ("duration", .duration), ("timestamp", .timestamp),
   ("getFullYear", .timeAccessor .fullYear), ("getMonth", .timeAccessor .month),
   ("getDayOfYear", .timeAccessor .dayOfYear), ("getDayOfMonth", .timeAccessor .dayOfMonth),
   ("getDate", .timeAccessor .date), ("getDayOfWeek", .timeAccessor .dayOfWeek),
   ("getHours", .timeAccessor .hours), ("getMinutes", .timeAccessor .minutes),
   ("getSeconds", .timeAccessor .seconds), ("getMilliseconds", .timeAccessor .milliseconds)]

/-- `Context::default()` -/
def defaultFns : List (String × FnKind) := builtinTable.map (fun p => (p.1, .builtin p.2))

def decFnKind : Sx → FnKind
  | .list [.atom "b", .atom n] =>
    match builtinTable.lookup n with
    | some b => .builtin b
    | none => .host [] .echo
  | .list [.atom "h", .list exts, body] =>
    .host (exts.filterMap (fun e => match e with | .atom a => some (decExtractor a) | _ => none))
      (match body with
       | .atom "fail" => .fail
       | .atom "first" => .first
       | .list [.atom "const", v] => .const (decValue v)
       | _ => .echo)
  | _ => .host [] .echo

/-- later registrations replace earlier ones (`HashMap::insert`): put them in front -/
def decCtx : Sx → Ctx
  | .list (.atom "ctx" :: parts) =>
    parts.foldl (fun c p => match p with
      | .list (.atom "vars" :: vs) =>
        vs.foldl (fun c e => match e with
          | .list [.atom n, v] => c.bind (atomName n) (decValue v)
          | _ => c) c
      | .list (.atom "scope" :: vs) =>
        vs.foldl (fun c e => match e with
          | .list [.atom n, v] => c.bind (atomName n) (decValue v)
          | _ => c) (c.push [])
      | .list (.atom "fns" :: fs) =>
        fs.foldl (fun c e => match e with
          | .atom "default" => { c with fns := defaultFns.reverse ++ c.fns }
          | .list [.atom n, k] => { c with fns := (atomName n, decFnKind k) :: c.fns }
          | _ => c) c
      | .list (.atom "regex" :: rs) =>
        { c with regex := rs.filterMap (fun e => match e with
          | .list [.atom p, .atom s, .atom r] =>
            some ((atomStr p, atomStr s), if r == "1" then some true else if r == "0" then some false else none)
          | _ => none) ++ c.regex }
      | _ => c) {}
  | _ => {}

/-! ### answers -/
def encErr : ErrC → String
  | .overflow => "(err overflow)" | .div0 => "(err div0)" | .rem0 => "(err rem0)"
  | .undeclared n => "(err undeclared " ++ nameAtom n ++ ")"
  | .nosuchkey => "(err nosuchkey)" | .notcomparable => "(err notcomparable)"
  | .unsupportedOp => "(err unsupported-op)" | .badIndex => "(err bad-index)"
  | .badKey => "(err bad-key)" | .badArgc => "(err bad-argc)" | .badType => "(err bad-type)"
  | .missingTarget => "(err missing-target)" | .functionError => "(err function-error)"
  | .badTarget => "(err bad-target)" | .other => "(err other)"
  | .needRegex p t => "(need-regex " ++ p ++ " " ++ t ++ ")"

def encOutcome (enc : α → String) : Outcome α → String
  | .ok v => "(ok " ++ enc v ++ ")"
  | .err e => encErr e
  | .panic _ => "(panic)"

def encLog (log : List (Call Value)) : String :=
  "(log" ++ String.join (log.map (fun c =>
    " (" ++ nameAtom c.name ++ String.join (c.args.map (fun v => " " ++ encValue v)) ++ ")")) ++ ")"

def decArith : String → Option ArithOp
  | "add" => some .add | "sub" => some .sub | "mul" => some .mul | "div" => some .div
  | "rem" => some .rem | _ => none

def encOrd : Option Ordering → String
  | none => "none" | some .lt => "lt" | some .eq => "eq" | some .gt => "gt"

/-! ### serde data and JSON -/
open Serde in
partial def decData : Sx → Serde.Data
  | .atom "wide" => .wide
  | .atom "none" => .none
  | .atom "unit" => .unit
  | .list [.atom "bool", .atom b] => .bool (b == "1")
  | .list [.atom "int", .atom n] => .int (atomInt n)
  | .list [.atom "uint", .atom n] => .uint (atomInt n)
  | .list [.atom "float", .atom h] => .float (atomHex64 h)
  | .list [.atom "char", .atom h] => .char ((atomStr h).head?.getD 'x')
  | .list [.atom "str", .atom h] => .str (atomStr h)
  | .list [.atom "bytes", .atom h] => .bytes (atomBytes h)
  | .list [.atom "some", d] => .some (decData d)
  | .list [.atom "unitstruct", .atom n] => .unitStruct (atomName n)
  | .list [.atom "unitvariant", .atom n, .atom v] => .unitVariant (atomName n) (atomName v)
  | .list [.atom "ntstruct", .atom n, d] => .newtypeStruct (atomName n) (decData d)
  | .list [.atom "ntvariant", .atom n, .atom v, d] => .newtypeVariant (atomName n) (atomName v) (decData d)
  | .list (.atom "seq" :: ds) => .seq (ds.map decData)
  | .list (.atom "tuple" :: ds) => .tuple (ds.map decData)
  | .list (.atom "tstruct" :: .atom n :: ds) => .tupleStruct (atomName n) (ds.map decData)
  | .list (.atom "tvariant" :: .atom n :: .atom v :: ds) => .tupleVariant (atomName n) (atomName v) (ds.map decData)
  | .list (.atom "map" :: es) => .map (es.filterMap (fun e => match e with
      | .list [k, v] => some (decData k, decData v) | _ => none))
  | .list (.atom "struct" :: .atom n :: fs) => .struct (atomName n) (fs.filterMap (fun e => match e with
      | .list [.atom f, v] => some (atomName f, decData v) | _ => none))
  | .list (.atom "svariant" :: .atom n :: .atom v :: fs) => .structVariant (atomName n) (atomName v)
      (fs.filterMap (fun e => match e with
      | .list [.atom f, v] => some (atomName f, decData v) | _ => none))
  | .list [.atom "celdur", .atom n] => .celDuration (atomInt n)
  | .list [.atom "celts", .atom t, .atom o] => .celTimestamp (atomInt t) (atomInt o)
  | _ => .unit

def insertSortedJ (e : Str × Serde.Json) : List (Str × Serde.Json) → List (Str × Serde.Json)
  | [] => [e]
  | x :: xs => if cmpStr e.1 x.1 == .lt then e :: x :: xs else x :: insertSortedJ e xs

partial def encJson : Serde.Json → String
  | .null => "jnull"
  | .bool b => if b then "(jbool 1)" else "(jbool 0)"
  | .int i => s!"(jint {i})"
  | .float b => s!"(jdbl {hex64 b})"
  | .str s => "(jstr " ++ strAtom s ++ ")"
  | .arr xs => "(jarr" ++ String.join (xs.map (fun j => " " ++ encJson j)) ++ ")"
  | .obj fs => "(jobj" ++ String.join ((fs.foldl (fun acc e => insertSortedJ e acc) []).map (fun kv =>
      " (" ++ strAtom kv.1 ++ " " ++ encJson kv.2 ++ ")")) ++ ")"

partial def decJson : Sx → Serde.Json
  | .atom "jnull" => .null
  | .list [.atom "jbool", .atom b] => .bool (b == "1")
  | .list [.atom "jint", .atom n] => .int (atomInt n)
  | .list [.atom "jdbl", .atom h] => .float (atomHex64 h)
  | .list [.atom "jstr", .atom h] => .str (atomStr h)
  | .list (.atom "jarr" :: xs) => .arr (xs.map decJson)
  | .list (.atom "jobj" :: fs) => .obj (fs.filterMap (fun e => match e with
      | .list [.atom k, v] => some (atomStr k, decJson v) | _ => none))
  | _ => .null

def encJsonOutcome : Except Serde.JsonErr Serde.Json → String
  | .ok j => "(ok " ++ encJson j ++ ")"
  -- the kind of error (function value / over-wide duration) depends on which offending
  -- element a map iteration reaches first, so only "an error" is observable
  | .error _ => "(jerr)"

/-- answer one case -/
def answer (kind : String) (payload : List Sx) : String :=
  match kind, payload with
  | "binop", [.atom op, a, b] =>
    let va := decValue a; let vb := decValue b
    (match decArith op with
     | some o => encOutcome encValue (arith o va vb)
     | none =>
       if op == "eq" then (if Value.eq va vb then "(bool 1)" else "(bool 0)")
       else if op == "cmp" then encOrd (Value.partialCmp va vb)
       else "(bad-op)")
  | "neg", [a] => encOutcome encValue (applyUn .neg (decValue a))
  | "eval", [c, e] =>
    let (o, st) := execute (decCtx c) (decExpr e)
    "(res " ++ encOutcome encValue o ++ " " ++ encLog st.log ++ ")"
  | "run", [c, .atom src] =>
    (match Parser.compile (atomStr src) with
     | some e =>
       let (o, st) := execute (decCtx c) e
       "(res " ++ encOutcome encValue o ++ " " ++ encLog st.log ++ ")"
     | none => "(res (compile-error) (log))")
  | "c01", [.atom src] =>
    (match Parser.compile (atomStr src) with
     | some e => "(c01 (ast " ++ encExpr e ++ ") ok)"
     | none => "(c01 (reject) ok)")
  | "compile", [.atom src] =>
    (match Parser.compile (atomStr src) with
     | some e => "(ast " ++ encExpr e ++ ")"
     | none => "(reject)")
  | "lex", [.atom src] =>
    let (ts, errs) := Lexer.lex (atomStr src)
    "(toks " ++ toString errs ++ String.join (ts.map (fun t => match t with
      | .sym s => " (sym " ++ nameAtom s ++ ")"
      | .ident s => " (ident " ++ strAtom s ++ ")"
      | .escIdent s => " (esc " ++ strAtom s ++ ")"
      | .int s => " (int " ++ strAtom s ++ ")"
      | .uint s => " (uint " ++ strAtom s ++ ")"
      | .float s => " (float " ++ strAtom s ++ ")"
      | .str s => " (str " ++ strAtom s ++ ")"
      | .bytes s => " (bytes " ++ strAtom s ++ ")")) ++ ")"
  | "serde", [d] =>
    let data := decData d
    let v := Serde.toValue data
    let vtxt := match v with
      | .ok x => "(ok " ++ encValue x ++ ")"
      | .error .invalidKey => "(err invalid-key)"
      | .error .serdeError => "(err serde-error)"
    let jtxt := match v with
      | .ok x => encJsonOutcome (Serde.toJson x)
      | .error _ => "-"
    let stxt := match Serde.serdeJson data with
      | some j => "(ok " ++ encJson j ++ ")"
      | none => "(err)"
    "(serde " ++ vtxt ++ " " ++ jtxt ++ " " ++ stxt ++ ")"
  | "json", [v] =>
    let value := decValue v
    (match Serde.toJson value with
     | .ok j => "(json (ok " ++ encJson j ++ ") " ++ encValue (Serde.fromJson j) ++ ")"
     | e => "(json " ++ encJsonOutcome e ++ " -)")
  | "cmp2", [a, b] =>
    let va := decValue a; let vb := decValue b
    let bit := fun (x : Bool) => if x then "1" else "0"
    "(cmp2 " ++ bit (Value.eq va vb) ++ " " ++ bit (Value.eq vb va) ++ " " ++ encOrd (Value.partialCmp va vb)
      ++ " " ++ encOrd (Value.partialCmp vb va) ++ ")"
  | "history", (c :: es) =>
    -- the model's evaluator is a function: every execution of a history sees the same context
    let ctx := decCtx c
    "(history" ++ String.join (es.map (fun e =>
      let (o, st) := execute ctx (decExpr e)
      " (res " ++ encOutcome encValue o ++ " " ++ encLog st.log ++ ")")) ++ " pure)"
  | "evalpair", [c, e1, e2] =>
    let ctx := decCtx c
    let (o1, st1) := execute ctx (decExpr e1)
    let (o2, st2) := execute ctx (decExpr e2)
    "(pair (res " ++ encOutcome encValue o1 ++ " " ++ encLog st1.log ++ ") (res "
      ++ encOutcome encValue o2 ++ " " ++ encLog st2.log ++ "))"
  | "macro", (.atom f :: tgt :: args) =>
    let target : Option Expr := match tgt with
      | .atom "none" => none
      | t => some (decExpr t)
    (match Macros.expand (atomName f) target (args.map decExpr) with
     | .notMacro => "(not-macro)"
     | .error => "(macro-error)"
     | .ok e => "(expanded " ++ encExpr e ++ ")")
  | "refs", [e] =>
    let ex := decExpr e
    let dedupSort : List String → List String := fun l =>
      (l.foldl (fun acc n => if acc.contains n then acc else n :: acc) []).toArray.qsort (· < ·) |>.toList
    "(refs (vars" ++ String.join ((dedupSort ex.vars).map (fun n => " " ++ nameAtom n)) ++ ") (funcs"
      ++ String.join ((dedupSort ex.funcs).map (fun n => " " ++ nameAtom n)) ++ "))"
  | "refexec", [c, e] =>
    let ex := decExpr e
    let dedupSort : List String → List String := fun l =>
      (l.foldl (fun acc n => if acc.contains n then acc else n :: acc) []).toArray.qsort (· < ·) |>.toList
    let (o, _) := execute (decCtx c) ex
    "(refexec (vars" ++ String.join ((dedupSort ex.vars).map (fun n => " " ++ nameAtom n)) ++ ") (funcs"
      ++ String.join ((dedupSort ex.funcs).map (fun n => " " ++ nameAtom n)) ++ ") "
      ++ encOutcome encValue o ++ ")"
  | "ctxops", ops =>
    let decOp : Sx → Option CtxOp := fun x => match x with
      | .list [.atom "def", .atom n, v] => some (.define (atomName n) (decValue v))
      | .list [.atom "push"] => some .openScope
      | .list [.atom "pop"] => some .closeScope
      | .list [.atom "fn", .atom n] => some (.addFn (atomName n) (.host [] (.const (.int 1))))
      | .list [.atom "get", .atom n] => some (.lookup (atomName n))
      | .list [.atom "probe", .atom n] => some (.probeFn (atomName n))
      | _ => none
    let obs := runCtxOps {} (ops.filterMap decOp)
    "(obs" ++ String.join (obs.map (fun o => match o with
      | .var none => " none"
      | .var (some v) => " " ++ encValue v
      | .fn b => if b then " (fn 1)" else " (fn 0)")) ++ ")"
  | _, _ => "(bad-case)"

end Wire
end Cel
