import CelModel.Parser
/-!
# Decimal and hexadecimal digit strings: `Nat.toDigits` against the model's folds
-/
namespace Cel.Lemmas.Digits
open Cel

/-- the model's decimal fold is `Nat.ofDigitChars 10` -/
theorem foldl_eq_ofDigitChars (l : List Char) (init : Nat) :
    l.foldl (fun n c => n * 10 + (c.toNat - 48)) init = Nat.ofDigitChars 10 l init := by
  induction l generalizing init with
  | nil => simp [Nat.ofDigitChars]
  | cons c cs ih =>
    simp only [List.foldl_cons, Nat.ofDigitChars_cons, ih]
    congr 1
    simp [Nat.mul_comm]

theorem natToDec_eq (n : Nat) : natToDec n = Nat.toDigits 10 n := by
  simp [natToDec]

theorem dec_fold (n : Nat) :
    (natToDec n).foldl (fun a c => a * 10 + (c.toNat - 48)) 0 = n := by
  rw [foldl_eq_ofDigitChars, natToDec_eq, Nat.ofDigitChars_ten_toDigits]

theorem lexIsDigit_of_isDigit {c : Char} (h : c.isDigit = true) : Lexer.isDigit c = true := by
  simp only [Char.isDigit, Bool.and_eq_true, decide_eq_true_eq] at h
  simp only [Lexer.isDigit, Bool.and_eq_true, decide_eq_true_eq]
  simp only [Char.le_def, UInt32.le_iff_toNat_le] at *
  simp only [UInt32.reduceToNat, Char.reduceVal] at *
  exact h

theorem dec_all_isDigit (n : Nat) : (natToDec n).all Lexer.isDigit = true := by
  rw [natToDec_eq, List.all_eq_true]
  intro c hc
  exact lexIsDigit_of_isDigit (Nat.isDigit_of_mem_toDigits (by decide) (by decide) hc)

theorem dec_ne_nil (n : Nat) : natToDec n ≠ [] := by
  rw [natToDec_eq]; exact Nat.toDigits_ne_nil

/-- a decimal digit string is not a `0x…` text: its second character is a digit -/
theorem dec_not_hex (n : Nat) (h : Str) : natToDec n ≠ '0' :: 'x' :: h := by
  intro he
  have hall := dec_all_isDigit n
  rw [he] at hall
  simp [Lexer.isDigit] at hall

end Cel.Lemmas.Digits

namespace Cel.Lemmas.Digits
open Cel

theorem hex_digitChar {d : Nat} (h : d < 16) :
    Lexer.isHex (Nat.digitChar d) = true ∧ StrLit.hexVal (Nat.digitChar d) = d := by
  have : d = 0 ∨ d = 1 ∨ d = 2 ∨ d = 3 ∨ d = 4 ∨ d = 5 ∨ d = 6 ∨ d = 7 ∨ d = 8 ∨ d = 9 ∨
      d = 10 ∨ d = 11 ∨ d = 12 ∨ d = 13 ∨ d = 14 ∨ d = 15 := by omega
  rcases this with rfl | rfl | rfl | rfl | rfl | rfl | rfl | rfl | rfl | rfl | rfl | rfl | rfl |
    rfl | rfl | rfl <;> decide

/-- one step of `parseRadix 16` -/
def hexStep (acc : Option Nat) (c : Char) : Option Nat :=
  match acc with
  | none => none
  | some n => if Lexer.isHex c then some (n * 16 + StrLit.hexVal c) else none

theorem parseRadix16_eq (s : Str) :
    StrLit.parseRadix 16 s = if s.isEmpty then none else s.foldl hexStep (some 0) := by
  unfold StrLit.parseRadix
  have hext : ∀ (f g : Option Nat → Char → Option Nat), (∀ a c, f a c = g a c) →
      ∀ acc, s.foldl f acc = s.foldl g acc := by
    intro f g hfg
    have : f = g := funext fun a => funext fun c => hfg a c
    subst this; intro _; rfl
  rw [hext _ hexStep]
  intro a c
  cases a <;> simp [hexStep]

theorem hex_fold (n : Nat) : (Nat.toDigits 16 n).foldl hexStep (some 0) = some n := by
  induction n using Nat.strongRecOn with
  | _ n ih =>
    rw [Nat.toDigits_eq_if (by decide)]
    split
    · rename_i hlt
      have := hex_digitChar hlt
      simp [hexStep, this.1, this.2]
    · rename_i hge
      have hd := hex_digitChar (Nat.mod_lt n (by decide : 16 > 0))
      rw [List.foldl_append, ih (n / 16) (by omega)]
      simp only [List.foldl_cons, List.foldl_nil, hexStep, hd.1, hd.2, if_true]
      congr 1
      omega

theorem parseRadix16_toDigits (n : Nat) : StrLit.parseRadix 16 (Nat.toDigits 16 n) = some n := by
  rw [parseRadix16_eq, hex_fold]
  simp

end Cel.Lemmas.Digits

namespace Cel.Lemmas.Digits
open Cel

theorem inI64_iff (i : Int) : inI64 i = true ↔ (-9223372036854775808 ≤ i ∧ i ≤ 9223372036854775807) := by
  unfold inI64 i64Min i64Max; simp
theorem inU64_iff (i : Int) : inU64 i = true ↔ (0 ≤ i ∧ i ≤ 18446744073709551615) := by
  unfold inU64 u64Max; simp

/-- the magnitude of an integer literal: hexadecimal after `0x`, decimal otherwise -/
def litMag (text : Str) : Option Nat :=
  match text with
  | '0' :: 'x' :: h => StrLit.parseRadix 16 h
  | ds => if ds.all Lexer.isDigit && !ds.isEmpty then
      some (ds.foldl (fun n c => n * 10 + (c.toNat - 48)) 0) else none

theorem intLiteral_eq (neg : Bool) (text : Str) :
    Parser.intLiteral neg text =
      match litMag text with
      | none => none
      | some m => if inI64 (if neg then -(m : Int) else m) then
          some (.lit (.int (if neg then -(m : Int) else m))) else none := rfl

theorem uintLiteral_eq (text : Str) :
    Parser.uintLiteral text =
      match litMag text.dropLast with
      | none => none
      | some m => if inU64 m then some (.lit (.uint m)) else none := rfl

theorem litMag_dec (n : Nat) : litMag (natToDec n) = some n := by
  unfold litMag
  split
  · rename_i h heq; exact absurd heq (dec_not_hex n _)
  · simp [dec_all_isDigit, dec_ne_nil, dec_fold]

theorem litMag_hex (n : Nat) : litMag ('0' :: 'x' :: Nat.toDigits 16 n) = some n := by
  simp only [litMag, parseRadix16_toDigits]

theorem intLiteral_natToDec (neg : Bool) (n : Nat) :
    Parser.intLiteral neg (natToDec n) =
      (if inI64 (if neg then -(n : Int) else n) then
        some (.lit (.int (if neg then -(n : Int) else n))) else none) := by
  rw [intLiteral_eq, litMag_dec]

theorem intLiteral_hex (neg : Bool) (n : Nat) :
    Parser.intLiteral neg ('0' :: 'x' :: Nat.toDigits 16 n) =
      (if inI64 (if neg then -(n : Int) else n) then
        some (.lit (.int (if neg then -(n : Int) else n))) else none) := by
  rw [intLiteral_eq, litMag_hex]

theorem uintLiteral_dec (n : Nat) (suffix : Char) :
    Parser.uintLiteral (natToDec n ++ [suffix]) =
      (if inU64 n then some (.lit (.uint n)) else none) := by
  rw [uintLiteral_eq, List.dropLast_concat, litMag_dec]

theorem uintLiteral_hex (n : Nat) (suffix : Char) :
    Parser.uintLiteral ('0' :: 'x' :: Nat.toDigits 16 n ++ [suffix]) =
      (if inU64 n then some (.lit (.uint n)) else none) := by
  have : ('0' :: 'x' :: Nat.toDigits 16 n ++ [suffix]).dropLast = '0' :: 'x' :: Nat.toDigits 16 n := by
    rw [show '0' :: 'x' :: Nat.toDigits 16 n ++ [suffix] = ('0' :: 'x' :: Nat.toDigits 16 n) ++ [suffix] from rfl,
      List.dropLast_concat]
  rw [uintLiteral_eq, this, litMag_hex]

end Cel.Lemmas.Digits
