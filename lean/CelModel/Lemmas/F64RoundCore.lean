import CelModel.Lemmas.F64Interval
import CelModel.Lemmas.OfInt
/-!
# Toolkit for the correct-rounding proof of `F64.roundRatPos`

A fraction `x = num / den` is compared with dyadic numbers `c · 2^z` (`c : Nat`, `z : Int`) by
cross-multiplication.  `PL c z` means `c · 2^z ≤ x`, `PU c z` means `x ≤ c · 2^z`; the strict
comparisons are the negations.  Every comparison that `roundRatPos` makes and every inequality
of `InInterval` has the shape `c * 2^α * den ≤ num * 2^β`, which only depends on `α - β`.
-/
namespace Cel.Lemmas.F64RoundCore
open Cel Cel.F64 Cel.Lemmas.OfInt

/-- `c · 2^z ≤ num / den` -/
def PL (num den c : Nat) (z : Int) : Prop := c * 2 ^ z.toNat * den ≤ num * 2 ^ (-z).toNat
/-- `num / den ≤ c · 2^z` -/
def PU (num den c : Nat) (z : Int) : Prop := num * 2 ^ (-z).toNat ≤ c * 2 ^ z.toNat * den

theorem two_pow_pos (k : Nat) : 0 < 2 ^ k := Nat.pow_pos (by decide)

theorem split_exp (α β : Nat) (z : Int) (h : (α : Int) - β = z) :
    ∃ k, α = z.toNat + k ∧ β = (-z).toNat + k := ⟨min α β, by omega, by omega⟩

theorem canonL (num den c α β : Nat) (z : Int) (h : (α : Int) - β = z) :
    c * 2 ^ α * den ≤ num * 2 ^ β ↔ PL num den c z := by
  obtain ⟨k, h1, h2⟩ := split_exp α β z h
  unfold PL
  rw [h1, h2, Nat.pow_add, Nat.pow_add]
  have e1 : c * (2 ^ z.toNat * 2 ^ k) * den = c * 2 ^ z.toNat * den * 2 ^ k := by
    rw [← Nat.mul_assoc, Nat.mul_right_comm]
  have e2 : num * (2 ^ (-z).toNat * 2 ^ k) = num * 2 ^ (-z).toNat * 2 ^ k := by
    rw [Nat.mul_assoc]
  rw [e1, e2]
  exact Nat.mul_le_mul_right_iff (two_pow_pos k)

theorem canonU (num den c α β : Nat) (z : Int) (h : (α : Int) - β = z) :
    num * 2 ^ β ≤ c * 2 ^ α * den ↔ PU num den c z := by
  obtain ⟨k, h1, h2⟩ := split_exp α β z h
  unfold PU
  rw [h1, h2, Nat.pow_add, Nat.pow_add]
  have e1 : c * (2 ^ z.toNat * 2 ^ k) * den = c * 2 ^ z.toNat * den * 2 ^ k := by
    rw [← Nat.mul_assoc, Nat.mul_right_comm]
  have e2 : num * (2 ^ (-z).toNat * 2 ^ k) = num * 2 ^ (-z).toNat * 2 ^ k := by
    rw [Nat.mul_assoc]
  rw [e1, e2]
  exact Nat.mul_le_mul_right_iff (two_pow_pos k)

/-- moving a power of two between the coefficient and the exponent -/
theorem PL_shift (num den c k : Nat) (z : Int) :
    PL num den (c * 2 ^ k) z ↔ PL num den c (z + k) := by
  rw [← canonL num den c (z.toNat + k) (-z).toNat (z + k) (by omega)]
  unfold PL
  rw [Nat.pow_add, Nat.mul_assoc c, Nat.mul_comm (2 ^ k)]

theorem PU_shift (num den c k : Nat) (z : Int) :
    PU num den (c * 2 ^ k) z ↔ PU num den c (z + k) := by
  rw [← canonU num den c (z.toNat + k) (-z).toNat (z + k) (by omega)]
  unfold PU
  rw [Nat.pow_add, Nat.mul_assoc c, Nat.mul_comm (2 ^ k)]

theorem PL_mono (num den c c' : Nat) (z : Int) (h : PL num den c z) (hc : c' ≤ c) :
    PL num den c' z := by
  unfold PL at *
  exact Nat.le_trans (Nat.mul_le_mul_right _ (Nat.mul_le_mul_right _ hc)) h

theorem PU_mono (num den c c' : Nat) (z : Int) (h : PU num den c z) (hc : c ≤ c') :
    PU num den c' z := by
  unfold PU at *
  exact Nat.le_trans h (Nat.mul_le_mul_right _ (Nat.mul_le_mul_right _ hc))

/-- `c·2^z ≤ x ≤ c'·2^z` gives `c ≤ c'` -/
theorem PL_PU_le (num den c c' : Nat) (z : Int) (hden : 0 < den) (h1 : PL num den c z)
    (h2 : PU num den c' z) : c ≤ c' := by
  unfold PL at h1; unfold PU at h2
  have h := Nat.le_trans h1 h2
  rw [Nat.mul_assoc, Nat.mul_assoc] at h
  exact Nat.le_of_mul_le_mul_right h (Nat.mul_pos (two_pow_pos _) hden)

/-- `2^z' ≤ 2^z ≤ x` -/
theorem PL_one_mono (num den : Nat) (z z' : Int) (h : PL num den 1 z) (hz : z' ≤ z) :
    PL num den 1 z' := by
  have e : z = z' + ((z - z').toNat : Nat) := by omega
  rw [e, ← PL_shift] at h
  exact PL_mono _ _ _ _ _ h (by have := two_pow_pos (z - z').toNat; omega)

/-- `2^k · 2^z ≤ x` read as `2^(z+k) ≤ x` -/
theorem PL_pow (num den k : Nat) (z : Int) : PL num den (2 ^ k) z ↔ PL num den 1 (z + k) := by
  rw [← PL_shift, Nat.one_mul]

/-- the rounding step of `roundRatPos`: if `n'/d'` lies between `(2K-1)/2` and `(2K+1)/2` units of
`2^drop` (end points allowed only for even `K`), keeping the top bits and rounding half-even
gives `K` -/
theorem mant_eq (n' d' drop K : Nat) (hd : 0 < d') (hdrop : 1 ≤ drop) (hK : 1 ≤ K)
    (hlo : (2 * K - 1) * (2 ^ drop * d') ≤ 2 * n')
    (hhi : 2 * n' ≤ (2 * K + 1) * (2 ^ drop * d'))
    (hodd : K % 2 = 1 →
      (2 * K - 1) * (2 ^ drop * d') < 2 * n' ∧ 2 * n' < (2 * K + 1) * (2 ^ drop * d')) :
    (if (decide (n' / d' % 2 ^ drop > 2 ^ (drop - 1)) ||
         (n' / d' % 2 ^ drop == 2 ^ (drop - 1) &&
           (n' % d' != 0 || n' / d' / 2 ^ drop % 2 == 1)))
     then n' / d' / 2 ^ drop + 1 else n' / d' / 2 ^ drop) = K := by
  obtain ⟨K0, rfl⟩ : ∃ K0, K = K0 + 1 := ⟨K - 1, by omega⟩
  obtain ⟨dr, rfl⟩ : ∃ dr, drop = dr + 1 := ⟨drop - 1, by omega⟩
  have hG : 2 ^ (dr + 1) = 2 * 2 ^ dr := by rw [Nat.pow_succ, Nat.mul_comm]
  have hK1 : 2 * (K0 + 1) - 1 = 2 * K0 + 1 := by omega
  simp only [Nat.add_sub_cancel, hG, hK1] at *
  have hHpos : 0 < 2 ^ dr := two_pow_pos _
  generalize 2 ^ dr = H at *
  have hn : n' = d' * (n' / d') + n' % d' := (Nat.div_add_mod n' d').symm
  have hrd : n' % d' < d' := Nat.mod_lt _ hd
  generalize n' / d' = q at *
  generalize n' % d' = r at *
  have hqq : q = 2 * H * (q / (2 * H)) + q % (2 * H) := (Nat.div_add_mod q (2 * H)).symm
  have hrestlt : q % (2 * H) < 2 * H := Nat.mod_lt _ (by omega)
  generalize q / (2 * H) = keep at *
  generalize q % (2 * H) = rest at *
  -- everything in units of `W = H * d'`
  have e1 : (2 * K0 + 1) * (2 * H * d') = 4 * (K0 * (H * d')) + 2 * (H * d') := by grind
  have e2 : (2 * (K0 + 1) + 1) * (2 * H * d') = 4 * (K0 * (H * d')) + 6 * (H * d') := by grind
  have e3 : n' = 2 * (keep * (H * d')) + rest * d' + r := by rw [hn, hqq]; grind
  rw [e1] at hlo hodd
  rw [e2] at hhi hodd
  have c1 : rest ≤ H - 1 → (rest + 1) * d' ≤ H * d' := fun h =>
    Nat.mul_le_mul_right _ (by omega)
  have c2 : H + 1 ≤ rest → (H + 1) * d' ≤ rest * d' := fun h => Nat.mul_le_mul_right _ h
  have c3 : rest < 2 * H := hrestlt
  have c4 : (rest + 1) * d' ≤ 2 * H * d' := Nat.mul_le_mul_right _ (by omega)
  have e4 : (rest + 1) * d' = rest * d' + d' := by grind
  have e5 : (H + 1) * d' = H * d' + d' := by grind
  have e6 : 2 * H * d' = 2 * (H * d') := by grind
  rw [e4] at c1 c4; rw [e5] at c2; rw [e6] at c4
  have k1 : K0 + 2 ≤ keep → (K0 + 2) * (H * d') ≤ keep * (H * d') := fun h =>
    Nat.mul_le_mul_right _ h
  have k2 : keep + 1 ≤ K0 → (keep + 1) * (H * d') ≤ K0 * (H * d') := fun h =>
    Nat.mul_le_mul_right _ h
  have e7 : (K0 + 2) * (H * d') = K0 * (H * d') + 2 * (H * d') := by grind
  have e8 : (keep + 1) * (H * d') = keep * (H * d') + H * d' := by grind
  rw [e7] at k1; rw [e8] at k2
  have hWpos : 0 < H * d' := Nat.mul_pos hHpos hd
  have hAW : rest = H → rest * d' = H * d' := fun h => by rw [h]
  generalize H * d' = W at *
  generalize hA : rest * d' = A at *
  have hkk : keep = K0 ∨ keep = K0 + 1 := by
    rcases Nat.lt_or_ge keep K0 with h | h
    · have := k2 h; omega
    · rcases Nat.lt_or_ge (K0 + 1) keep with h' | h'
      · have := k1 h'; omega
      · omega
  rcases hkk with hk | hk
  · -- must round up
    have hkW : keep * W = K0 * W := by rw [hk]
    have hup : (decide (rest > H) || (rest == H && (r != 0 || keep % 2 == 1))) = true := by
      simp only [Bool.or_eq_true, Bool.and_eq_true, decide_eq_true_eq, beq_iff_eq, bne_iff_ne,
        ne_eq]
      rcases Nat.lt_trichotomy rest H with h | h | h
      · have := c1 (by omega); omega
      · by_cases hr0 : r = 0
        · right; refine ⟨h, Or.inr ?_⟩
          by_cases hp : (K0 + 1) % 2 = 1
          · have := hodd hp; have := hAW h; omega
          · omega
        · right; exact ⟨h, Or.inl hr0⟩
      · left; exact h
    rw [hup]; simp only [if_true]; omega
  · -- must not round up
    have hkW : keep * W = K0 * W + W := by rw [hk]; grind
    have hup : (decide (rest > H) || (rest == H && (r != 0 || keep % 2 == 1))) = false := by
      rw [Bool.eq_false_iff]
      simp only [ne_eq, Bool.or_eq_true, Bool.and_eq_true, decide_eq_true_eq, beq_iff_eq, bne_iff_ne]
      intro hcon
      rcases hcon with h | ⟨h, h'⟩
      · have := c2 h; omega
      · rcases h' with h' | h'
        · have := hAW h; omega
        · have := hodd (by omega); have := hAW h; omega
    rw [hup]; simp only [Bool.false_eq_true, if_false]; omega

theorem PU_of_not_PL (num den c : Nat) (z : Int) (h : ¬ PL num den c z) : PU num den c z := by
  unfold PL at h; unfold PU; omega

theorem scaled_frame (num den : Nat) (shI : Int) :
    ∃ sa sb : Nat, scaled num den shI = (num * 2 ^ sa, den * 2 ^ sb) ∧ (sa : Int) - sb = shI := by
  by_cases h : shI ≥ 0
  · exact ⟨shI.toNat, 0, by simp [scaled, h], by omega⟩
  · exact ⟨0, (-shI).toNat, by simp [scaled, h], by omega⟩

/-- comparisons in the scaled frame `n' = num·2^sa`, `d' = den·2^sb`, against `c·2^γ·d'` -/
theorem frameL (num den sa sb c γ : Nat) (z : Int) (hz : (γ : Int) + sb - sa = z) :
    c * 2 ^ γ * (den * 2 ^ sb) ≤ num * 2 ^ sa ↔ PL num den c z := by
  rw [← canonL num den c (γ + sb) sa z (by omega)]
  have e : c * 2 ^ γ * (den * 2 ^ sb) = c * 2 ^ (γ + sb) * den := by rw [Nat.pow_add]; ac_rfl
  rw [e]

/-- comparisons of `2·n'` against `c·(2^drop·d')` -/
theorem frameL2 (num den sa sb c drop : Nat) (z : Int) (hz : (drop : Int) + sb - sa - 1 = z) :
    c * (2 ^ drop * (den * 2 ^ sb)) ≤ 2 * (num * 2 ^ sa) ↔ PL num den c z := by
  rw [← canonL num den c (drop + sb) (sa + 1) z (by omega)]
  have e1 : c * (2 ^ drop * (den * 2 ^ sb)) = c * 2 ^ (drop + sb) * den := by
    rw [Nat.pow_add]; ac_rfl
  have e2 : 2 * (num * 2 ^ sa) = num * 2 ^ (sa + 1) := by rw [Nat.pow_succ]; ac_rfl
  rw [e1, e2]

theorem frameU2 (num den sa sb c drop : Nat) (z : Int) (hz : (drop : Int) + sb - sa - 1 = z) :
    2 * (num * 2 ^ sa) ≤ c * (2 ^ drop * (den * 2 ^ sb)) ↔ PU num den c z := by
  rw [← canonU num den c (drop + sb) (sa + 1) z (by omega)]
  have e1 : c * (2 ^ drop * (den * 2 ^ sb)) = c * 2 ^ (drop + sb) * den := by
    rw [Nat.pow_add]; ac_rfl
  have e2 : 2 * (num * 2 ^ sa) = num * 2 ^ (sa + 1) := by rw [Nat.pow_succ]; ac_rfl
  rw [e1, e2]

theorem roundCore_le (q : Nat) (st : Bool) (shI le : Int) (drop : Nat)
    (hle : (if (Nat.log2 q : Int) - shI - 52 ≥ -1074 then (Nat.log2 q : Int) - shI - 52
      else -1074) = le)
    (hdrop : (le + shI).toNat = drop) :
    roundCore q st shI =
      finish (if (decide (q % 2 ^ drop > 2 ^ (drop - 1)) ||
                (q % 2 ^ drop == 2 ^ (drop - 1) && (st || q / 2 ^ drop % 2 == 1)))
              then q / 2 ^ drop + 1 else q / 2 ^ drop) le := by
  subst hle; subst hdrop; rfl

/-- the scaled quotient has at least 56 bits -/
theorem q_lower (num den sa sb ln ld : Nat) (hn : 2 ^ ln ≤ num) (hd : den < 2 ^ (ld + 1))
    (hs : (sa : Int) - sb = 56 - (ln : Int) + (ld : Int)) :
    2 ^ 55 * (den * 2 ^ sb) ≤ num * 2 ^ sa := by
  have h1 : den * 2 ^ sb ≤ 2 ^ (ld + 1) * 2 ^ sb := Nat.mul_le_mul_right _ (Nat.le_of_lt hd)
  have h2 : 2 ^ ln * 2 ^ sa ≤ num * 2 ^ sa := Nat.mul_le_mul_right _ hn
  have h3 : 2 ^ 55 * (2 ^ (ld + 1) * 2 ^ sb) = 2 ^ ln * 2 ^ sa := by
    rw [← Nat.pow_add, ← Nat.pow_add, ← Nat.pow_add]; congr 1; omega
  have h4 := Nat.mul_le_mul_left (2 ^ 55) h1
  omega

/-- `roundRatPos` in terms of dyadic comparisons: if `x = num/den` is within half a unit `2^le`
of `K·2^le` (ties only for even `K`) and `le` is the lsb exponent the algorithm derives from
the top bit of `x`, the result is `finish K le` -/
theorem round_main (num den : Nat) (hnum : 0 < num) (hden : 0 < den) (K : Nat) (le : Int)
    (hK : 1 ≤ K)
    (hlo : PL num den (2 * K - 1) (le - 1)) (hhi : PU num den (2 * K + 1) (le - 1))
    (hodd : K % 2 = 1 → ¬ PU num den (2 * K - 1) (le - 1) ∧ ¬ PL num den (2 * K + 1) (le - 1))
    (hle : ∀ topE : Int, PL num den 1 topE → ¬ PL num den 1 (topE + 1) →
      (if topE - 52 ≥ -1074 then topE - 52 else -1074) = le) :
    roundRatPos num den = finish K le := by
  have hnum0 : num ≠ 0 := by omega
  have hden0 : den ≠ 0 := by omega
  have hln := (Nat.log2_eq_iff hnum0).1 rfl
  have hld := (Nat.log2_eq_iff hden0).1 rfl
  have h0 : (num == 0) = false := by simp [hnum0]
  rw [roundRatPos_eq, h0]
  simp only [Bool.false_eq_true, if_false]
  obtain ⟨sa, sb, hsc, hs⟩ :=
    scaled_frame num den (56 - (Nat.log2 num : Int) + (Nat.log2 den : Int))
  rw [hsc]
  dsimp only
  have hql := q_lower num den sa sb _ _ hln.1 hld.2 hs
  generalize (56 - (Nat.log2 num : Int) + (Nat.log2 den : Int)) = shI at *
  have hd' : 0 < den * 2 ^ sb := Nat.mul_pos hden (two_pow_pos _)
  have hq55 : 2 ^ 55 ≤ num * 2 ^ sa / (den * 2 ^ sb) := (Nat.le_div_iff_mul_le hd').2 hql
  have hq0 : num * 2 ^ sa / (den * 2 ^ sb) ≠ 0 := by omega
  have hqb := (Nat.log2_eq_iff hq0).1 rfl
  have hqb55 : 55 ≤ Nat.log2 (num * 2 ^ sa / (den * 2 ^ sb)) := (Nat.le_log2 hq0).2 hq55
  have hP1 : PL num den 1 ((Nat.log2 (num * 2 ^ sa / (den * 2 ^ sb)) : Int) - shI) := by
    refine (frameL num den sa sb 1 (Nat.log2 (num * 2 ^ sa / (den * 2 ^ sb))) _ (by omega)).1 ?_
    rw [Nat.one_mul]
    exact (Nat.le_div_iff_mul_le hd').1 hqb.1
  have hP2 : ¬ PL num den 1 ((Nat.log2 (num * 2 ^ sa / (den * 2 ^ sb)) : Int) - shI + 1) := by
    intro h
    have h' := (frameL num den sa sb 1 (Nat.log2 (num * 2 ^ sa / (den * 2 ^ sb)) + 1) _
      (by omega)).2 h
    rw [Nat.one_mul] at h'
    have := (Nat.le_div_iff_mul_le hd').2 h'
    omega
  have hle' := hle _ hP1 hP2
  obtain ⟨drop, hdrop⟩ : ∃ drop : Nat, (drop : Int) = le + shI := by
    refine ⟨(le + shI).toNat, ?_⟩
    split at hle' <;> omega
  have hdrop3 : 3 ≤ drop := by
    split at hle' <;> omega
  rw [roundCore_le _ _ shI le drop hle' (by omega)]
  congr 1
  refine mant_eq (num * 2 ^ sa) (den * 2 ^ sb) drop K hd' (by omega) hK ?_ ?_ ?_
  · exact (frameL2 num den sa sb _ drop _ (by omega)).2 hlo
  · exact (frameU2 num den sa sb _ drop _ (by omega)).2 hhi
  · intro hp
    obtain ⟨h1, h2⟩ := hodd hp
    constructor
    · exact Nat.lt_of_not_le (fun h => h1 ((frameU2 num den sa sb _ drop _ (by omega)).1 h))
    · exact Nat.lt_of_not_le (fun h => h2 ((frameL2 num den sa sb _ drop _ (by omega)).1 h))

/-- `x ≤ c·2^z` with `c < 2^k` bounds the top bit of `x` -/
theorem top_lt (num den c k : Nat) (z t : Int) (hden : 0 < den) (hU : PU num den c z)
    (hc : c < 2 ^ k) (ht : PL num den 1 t) : t < z + k := by
  apply Int.lt_of_not_ge
  intro hge
  have h1 := PL_one_mono num den t (z + k) ht hge
  have h2 := (PL_pow num den k z).2 h1
  have := PL_PU_le num den _ _ z hden h2 hU
  omega

theorem top_lt' (num den k : Nat) (z t : Int) (hU : ¬ PL num den (2 ^ k) z)
    (ht : PL num den 1 t) : t < z + k := by
  apply Int.lt_of_not_ge
  intro hge
  exact hU ((PL_pow num den k z).2 (PL_one_mono num den t (z + k) ht hge))

theorem top_ge (num den c k : Nat) (z t : Int) (hL : PL num den c z) (hc : 2 ^ k ≤ c)
    (ht : ¬ PL num den 1 (t + 1)) : z + k ≤ t := by
  apply Int.le_of_not_gt
  intro hlt
  have h1 := (PL_pow num den k z).1 (PL_mono num den c _ z hL hc)
  exact ht (PL_one_mono num den (z + k) (t + 1) h1 (by omega))

theorem isBoundary_iff (m : Nat) (e : Int) : isBoundary m e = true ↔ m = 2 ^ 52 ∧ e > -1074 := by
  simp [isBoundary]

/-- `InInterval` as dyadic comparisons -/
theorem interval_facts (m : Nat) (e : Int) (he : -1074 ≤ e) (num den : Nat)
    (hin : InInterval m e num den) :
    PL num den (lowQ m e) (e - 2) ∧ PU num den (highQ m) (e - 2) ∧
      (m % 2 = 1 → ¬ PU num den (lowQ m e) (e - 2) ∧ ¬ PL num den (highQ m) (e - 2)) := by
  unfold InInterval unit4 at hin
  generalize hβ : (1076 : Nat) = β at hin
  have cL := fun c => canonL num den c (e + 1074).toNat β (e - 2) (by omega)
  have cU := fun c => canonU num den c (e + 1074).toNat β (e - 2) (by omega)
  split at hin
  · exact ⟨(cL _).1 hin.1, (cU _).1 hin.2, fun h => by omega⟩
  · refine ⟨(cL _).1 (Nat.le_of_lt hin.1), (cU _).1 (Nat.le_of_lt hin.2), fun _ => ⟨?_, ?_⟩⟩
    · intro h; have := (cU _).2 h; omega
    · intro h; have := (cL _).2 h; omega

theorem finish_sub (m : Nat) (e : Int) (hm : m < 2 ^ 52) : finish m e = some (encodePos m e) := by
  have h1 : (m == 2 ^ 53) = false := by rw [beq_eq_false_iff_ne]; omega
  simp only [finish, h1, hm, if_true, Bool.false_eq_true, if_false, encodePos]

theorem finish_norm (m : Nat) (e : Int) (h1 : 2 ^ 52 ≤ m) (h2 : m < 2 ^ 53) (he1 : -1074 ≤ e)
    (he2 : e ≤ 971) : finish m e = some (encodePos m e) := by
  rw [finish_normal m e h1 h2 he1 (by omega)]
  have : ¬ m < 2 ^ 52 := by omega
  simp only [encodePos, this, if_false]

theorem finish_renorm (e : Int) (he1 : -1074 < e) (he2 : e ≤ 971) :
    finish (2 ^ 53) (e - 1) = some (encodePos (2 ^ 52) e) := by
  have h3 : ¬ (e + 1075 ≥ 2047) := by omega
  have h4 : e - 1 + 1 = e := by omega
  simp only [finish, beq_self_eq_true, if_true, Nat.lt_irrefl, if_false, h4, h3, encodePos]

end Cel.Lemmas.F64RoundCore
