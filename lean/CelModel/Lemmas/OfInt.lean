import CelModel.F64
/-!
# `F64.ofInt` is exact up to 2^53 in magnitude

`roundRatPos` is cut into `scaled` / `roundCore` / `finish` (definitionally the same function),
each piece is evaluated for an integer `n ≤ 2^53` (no bits are rounded away), and the resulting
bit pattern is decoded again.
-/
namespace Cel.Lemmas.OfInt
open Cel Cel.F64

theorem log2_one : Nat.log2 1 = 0 := by rw [Nat.log2_def]; simp

def finish (mant : Nat) (le : Int) : Option Nat :=
  let (mant, le) := if mant == 2 ^ 53 then (2 ^ 52, le + 1) else (mant, le)
  if mant < 2 ^ 52 then some mant
  else
    let ex : Int := le + 1075
    if ex ≥ 2047 then none else some (ex.toNat * 2 ^ 52 + (mant - 2 ^ 52))

def roundCore (q : Nat) (sticky : Bool) (shI : Int) : Option Nat :=
  let qb := Nat.log2 q
  let topE : Int := (qb : Int) - shI
  let le : Int := if topE - 52 ≥ -1074 then topE - 52 else -1074
  let drop : Nat := (le + shI).toNat
  let keep := q / 2 ^ drop
  let rest := q % 2 ^ drop
  let half := 2 ^ (drop - 1)
  let up : Bool := rest > half || (rest == half && (sticky || keep % 2 == 1))
  finish (if up then keep + 1 else keep) le

def scaled (num den : Nat) (shI : Int) : Nat × Nat :=
  if shI ≥ 0 then (num * 2 ^ shI.toNat, den) else (num, den * 2 ^ (-shI).toNat)

theorem roundRatPos_eq (num den : Nat) :
    roundRatPos num den =
      if num == 0 then some 0 else
        roundCore ((scaled num den (56 - (Nat.log2 num : Int) + (Nat.log2 den : Int))).1 /
                   (scaled num den (56 - (Nat.log2 num : Int) + (Nat.log2 den : Int))).2)
                  ((scaled num den (56 - (Nat.log2 num : Int) + (Nat.log2 den : Int))).1 %
                   (scaled num den (56 - (Nat.log2 num : Int) + (Nat.log2 den : Int))).2 != 0)
                  (56 - (Nat.log2 num : Int) + (Nat.log2 den : Int)) := rfl

theorem finish_normal (K : Nat) (le : Int) (hK1 : 2 ^ 52 ≤ K) (hK2 : K < 2 ^ 53)
    (hle1 : -1074 ≤ le) (hle2 : le < 972) :
    finish K le = some ((le + 1075).toNat * 2 ^ 52 + (K - 2 ^ 52)) := by
  have h1 : (K == 2 ^ 53) = false := by
    rw [beq_eq_false_iff_ne]; omega
  have h2 : ¬ K < 2 ^ 52 := by omega
  have h3 : ¬ le + 1075 ≥ 2047 := by omega
  simp only [finish, h1, h2, h3, if_false, Bool.false_eq_true]

theorem roundCore_exact (Q K L S : Nat) (hlog : Nat.log2 Q = 56) (hK : Q = K * 16)
    (hS : S + L = 56) (hL : L ≤ 53) :
    roundCore Q false (S : Int) = some ((L + 1023) * 2 ^ 52 + (K - 2 ^ 52)) := by
  have hQ0 : Q ≠ 0 := by intro h; rw [h] at hlog; simp [Nat.log2_zero] at hlog
  have hb := (Nat.log2_eq_iff hQ0).1 hlog
  have hK1 : 2 ^ 52 ≤ K := by omega
  have hK2 : K < 2 ^ 53 := by omega
  have htop : ((56 : Nat) : Int) - (S : Int) - 52 ≥ -1074 := by omega
  have hdrop : (((56 : Nat) : Int) - (S : Int) - 52 + (S : Int)).toNat = 4 := by omega
  have hkeep : Q / 2 ^ 4 = K := by omega
  have hrest : Q % 2 ^ 4 = 0 := by omega
  unfold roundCore
  simp only [hlog, htop, if_true, hdrop, hkeep, hrest]
  have hup : (decide (0 > 2 ^ (4 - 1)) || (0 == 2 ^ (4 - 1) && (false || K % 2 == 1))) = false := by
    simp
  rw [hup]
  simp only [Bool.false_eq_true, if_false]
  rw [finish_normal K _ hK1 hK2 (by omega) (by omega)]
  have he : (((56 : Nat) : Int) - (S : Int) - 52 + 1075).toNat = L + 1023 := by omega
  rw [he]

theorem log2_shift (n L : Nat) (hn : n ≠ 0) (hL : Nat.log2 n = L) (hL56 : L ≤ 56) :
    Nat.log2 (n * 2 ^ (56 - L)) = 56 := by
  have hb := (Nat.log2_eq_iff hn).1 hL
  have hpos : 0 < 2 ^ (56 - L) := Nat.pow_pos (by decide)
  have hne : n * 2 ^ (56 - L) ≠ 0 := Nat.mul_ne_zero hn (by omega)
  rw [Nat.log2_eq_iff hne]
  constructor
  · have : 2 ^ 56 = 2 ^ L * 2 ^ (56 - L) := by rw [← Nat.pow_add]; congr 1; omega
    rw [this]; exact Nat.mul_le_mul_right _ hb.1
  · have : 2 ^ (56 + 1) = 2 ^ (L + 1) * 2 ^ (56 - L) := by rw [← Nat.pow_add]; congr 1; omega
    rw [this]; exact Nat.mul_lt_mul_of_pos_right hb.2 hpos

theorem roundRatPos_int (n L K : Nat) (hn : n ≠ 0) (hL : Nat.log2 n = L) (hL53 : L ≤ 53)
    (hK : n * 2 ^ (56 - L) = K * 16) :
    roundRatPos n 1 = some ((L + 1023) * 2 ^ 52 + (K - 2 ^ 52)) := by
  have h0 : (n == 0) = false := by simp [hn]
  have hsh : (56 - (L : Int) + ((0 : Nat) : Int)) = ((56 - L : Nat) : Int) := by omega
  rw [roundRatPos_eq, h0, hL, log2_one, hsh]
  have hsc : scaled n 1 ((56 - L : Nat) : Int) = (n * 2 ^ (56 - L), 1) := by
    simp [scaled]
  rw [hsc]
  simp only [Nat.div_one, Nat.mod_one, bne_self_eq_false, Bool.false_eq_true, if_false]
  exact roundCore_exact _ K L (56 - L) (log2_shift n L hn hL (by omega)) hK (by omega) hL53

theorem decodeNat_normal (E F : Nat) (hE0 : 0 < E) (hE : E < 2047) (hF : F < 2 ^ 52) (neg : Bool) :
    decodeNat (E * 2 ^ 52 + F + (if neg then 2 ^ 63 else 0)) =
      .fin neg (F + 2 ^ 52) ((E : Int) - 1075) := by
  have h1 : (E == 2047) = false := by rw [beq_eq_false_iff_ne]; omega
  have h2 : (E == 0) = false := by rw [beq_eq_false_iff_ne]; omega
  cases neg
  · simp only [if_false, Bool.false_eq_true]
    have hex : (E * 2 ^ 52 + F + 0) / 2 ^ 52 % 2 ^ 11 = E := by omega
    have hfr : (E * 2 ^ 52 + F + 0) % 2 ^ 52 = F := by omega
    have hsg : (E * 2 ^ 52 + F + 0) / 2 ^ 63 % 2 = 0 := by omega
    unfold decodeNat
    simp only [hex, hfr, hsg, h1, h2, Bool.false_eq_true, if_false]
    simp
  · simp only [if_true]
    have hex : (E * 2 ^ 52 + F + 2 ^ 63) / 2 ^ 52 % 2 ^ 11 = E := by omega
    have hfr : (E * 2 ^ 52 + F + 2 ^ 63) % 2 ^ 52 = F := by omega
    have hsg : (E * 2 ^ 52 + F + 2 ^ 63) / 2 ^ 63 % 2 = 1 := by omega
    unfold decodeNat
    simp only [hex, hfr, hsg, h1, h2, Bool.false_eq_true, if_false]
    simp

theorem exists_K (n L : Nat) (hn : n ≠ 0) (hL : Nat.log2 n = L) (h : n ≤ 2 ^ 53) :
    L ≤ 53 ∧ ∃ K, n * 2 ^ (56 - L) = K * 16 ∧ 2 ^ 52 ≤ K ∧ K < 2 ^ 53 ∧
      K * 2 ^ (L + 1022) = n * 2 ^ scale := by
  have hb := (Nat.log2_eq_iff hn).1 hL
  have hL53 : L ≤ 53 := by
    have : Nat.log2 n < 54 := (Nat.log2_lt hn).2 (by omega)
    omega
  refine ⟨hL53, ?_⟩
  have hlog := log2_shift n L hn hL (by omega)
  have hne : n * 2 ^ (56 - L) ≠ 0 := Nat.mul_ne_zero hn (Nat.pos_iff_ne_zero.1 (Nat.pow_pos (by decide)))
  have hq := (Nat.log2_eq_iff hne).1 hlog
  have hdiv : ∃ K, n * 2 ^ (56 - L) = K * 16 := by
    by_cases hc : L ≤ 52
    · refine ⟨n * 2 ^ (52 - L), ?_⟩
      have : 56 - L = (52 - L) + 4 := by omega
      rw [this, Nat.pow_add, ← Nat.mul_assoc]
    · have hL' : L = 53 := by omega
      subst hL'
      have : n = 2 ^ 53 := by omega
      subst this
      exact ⟨2 ^ 52, by decide⟩
  obtain ⟨K, hK⟩ := hdiv
  refine ⟨K, hK, by omega, by omega, ?_⟩
  apply Nat.eq_of_mul_eq_mul_right (by decide : 0 < 16)
  calc K * 2 ^ (L + 1022) * 16 = K * 16 * 2 ^ (L + 1022) := Nat.mul_right_comm _ _ _
    _ = n * 2 ^ (56 - L) * 2 ^ (L + 1022) := by rw [hK]
    _ = n * (2 ^ (56 - L) * 2 ^ (L + 1022)) := Nat.mul_assoc _ _ _
    _ = n * 2 ^ (scale + 4) := by
        rw [← Nat.pow_add]
        have : 56 - L + (L + 1022) = scale + 4 := by simp only [scale]; omega
        rw [this]
    _ = n * 2 ^ scale * 16 := by rw [Nat.pow_add, ← Nat.mul_assoc]

theorem double_of_int_exact_small (i : Int) (h : i.natAbs ≤ 2 ^ 53) :
    F64.keyD (F64.decode (F64.ofInt i)) = some (F64.keyI i) := by
  by_cases hn : i.natAbs = 0
  · have : i = 0 := by omega
    subst this
    simp [ofInt, ofRat, roundRatPos, decode, decodeNat, keyD, keyI, sgn]
  · obtain ⟨hL53, K, hK, hK1, hK2, hscale⟩ := exists_K i.natAbs _ hn rfl h
    generalize hL : Nat.log2 i.natAbs = L at *
    have hr := roundRatPos_int i.natAbs L K hn hL hL53 hK
    unfold ofInt ofRat
    simp only [hr]
    unfold decode
    have hlt : (L + 1023) * 2 ^ 52 + (K - 2 ^ 52) + (if decide (i < 0) = true then 2 ^ 63 else 0) < 2 ^ 64 := by
      split <;> omega
    rw [UInt64.toNat_ofNat', Nat.mod_eq_of_lt hlt,
      decodeNat_normal (L + 1023) (K - 2 ^ 52) (by omega) (by omega) (by omega)]
    have hKK : K - 2 ^ 52 + 2 ^ 52 = K := by omega
    have he : (((L + 1023 : Nat) : Int) - 1075 + 1074).toNat = L + 1022 := by omega
    simp only [keyD, keyI, hKK, he]
    refine congrArg (fun z => some (EInt.fin z)) ?_
    have hcast : (K : Int) * 2 ^ (L + 1022) = (i.natAbs : Int) * twoScale := by
      have := congrArg (fun x : Nat => (x : Int)) hscale
      simp only [Int.natCast_mul, Int.natCast_pow] at this
      exact this
    rw [hcast]
    unfold sgn
    by_cases hneg : i < 0
    · simp only [hneg, decide_true, if_true]
      have : (i.natAbs : Int) = -i := by omega
      rw [this, Int.neg_mul, Int.neg_neg]
    · simp only [hneg, decide_false, if_false, Bool.false_eq_true]
      have : (i.natAbs : Int) = i := by omega
      rw [this]

end Cel.Lemmas.OfInt
