import CelModel.Lemmas.CivilCheck
/-! era tables, chunk 8 of 16: kernel evaluation by `decide +kernel` -/
namespace Cel.Time.Table
set_option maxRecDepth 100000 in
theorem doeChunk8 : checkRange checkDoe 73056 9132 = true := by decide +kernel
set_option maxRecDepth 100000 in
theorem ymdChunk8 : checkRange checkYmd 74400 9300 = true := by decide +kernel
end Cel.Time.Table
