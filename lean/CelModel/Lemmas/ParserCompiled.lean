import CelModel.Parser
import CelModel.Props.C02
/-!
# Tree-level invariant of the parser (support for `Props/C02b`)

Whatever tree any of the mutually recursive parser functions returns contains no
`Expr.unspecified` node (`Compiled`).  Same shape as `Lemmas/ParserInv.lean`: one step lemma per
parser function, then one simultaneous induction on the fuel.

The only sources of an `unspecified` node in the parser model are `balancedTree` at fuel 0 (shown
unreachable: `logicExpr` hands it more fuel than the width of the interval) and an out-of-range
`terms[i]!` (harmless: `default : Expr` is a literal).  Macro expansion only wraps the receiver and
the arguments in `lit`/`ident`/`call`/`list`/`comp`/`select` nodes.
-/
namespace Cel
namespace ParserCompiled
open Lexer Parser Cel.Props.C02

/-! ## building blocks -/

theorem c_default : Compiled (default : Expr) = true := rfl

theorem c_lit (v : Value) : Compiled (.lit v) = true := by rw [Compiled]
theorem c_ident (n : String) : Compiled (.ident n) = true := by rw [Compiled]
theorem cl_nil : CompiledList [] = true := by rw [CompiledList]
theorem cl_cons {a : Expr} {l : List Expr} (ha : Compiled a = true) (hl : CompiledList l = true) :
    CompiledList (a :: l) = true := by rw [CompiledList, ha, hl]; rfl
theorem cl_one {a : Expr} (ha : Compiled a = true) : CompiledList [a] = true := cl_cons ha cl_nil
theorem cl_two {a b : Expr} (ha : Compiled a = true) (hb : Compiled b = true) :
    CompiledList [a, b] = true := cl_cons ha (cl_one hb)
theorem cl_three {a b c : Expr} (ha : Compiled a = true) (hb : Compiled b = true)
    (hc : Compiled c = true) : CompiledList [a, b, c] = true := cl_cons ha (cl_two hb hc)
theorem cl_inv {a : Expr} {l : List Expr} (h : CompiledList (a :: l) = true) :
    Compiled a = true ∧ CompiledList l = true := by
  rw [CompiledList, Bool.and_eq_true] at h; exact h
theorem c_call {f : String} {args : List Expr} (h : CompiledList args = true) :
    Compiled (.call f args) = true := by rw [Compiled]; exact h
theorem c_call1 {f : String} {a : Expr} (ha : Compiled a = true) : Compiled (.call f [a]) = true :=
  c_call (cl_one ha)
theorem c_call2 {f : String} {a b : Expr} (ha : Compiled a = true) (hb : Compiled b = true) :
    Compiled (.call f [a, b]) = true := c_call (cl_two ha hb)
theorem c_call3 {f : String} {a b c : Expr} (ha : Compiled a = true) (hb : Compiled b = true)
    (hc : Compiled c = true) : Compiled (.call f [a, b, c]) = true := c_call (cl_three ha hb hc)
theorem c_mcall {f : String} {t : Expr} {args : List Expr} (ht : Compiled t = true)
    (h : CompiledList args = true) : Compiled (.mcall f t args) = true := by
  rw [Compiled, ht, h]; rfl
theorem c_select {e : Expr} {f : Str} {b : Bool} (h : Compiled e = true) :
    Compiled (.select e f b) = true := by rw [Compiled]; exact h
theorem c_select_inv {e : Expr} {f : Str} {b : Bool} (h : Compiled (.select e f b) = true) :
    Compiled e = true := by rw [Compiled] at h; exact h
theorem c_list {es : List Expr} (h : CompiledList es = true) : Compiled (.list es) = true := by
  rw [Compiled]; exact h
theorem c_map {es : List (Expr × Expr)} (h : CompiledEntries es = true) :
    Compiled (.map es) = true := by rw [Compiled]; exact h
theorem c_struct {n : String} {fs : List Str} {vs : List Expr} (h : CompiledList vs = true) :
    Compiled (.struct n fs vs) = true := by rw [Compiled]; exact h
theorem c_comp {iv av : String} {r i c s res : Expr} (hr : Compiled r = true)
    (hi : Compiled i = true) (hc : Compiled c = true) (hs : Compiled s = true)
    (hres : Compiled res = true) : Compiled (.comp iv r av i c s res) = true := by
  rw [Compiled, hr, hi, hc, hs, hres]; rfl
theorem ce_nil : CompiledEntries [] = true := by rw [CompiledEntries]
theorem ce_cons {k v : Expr} {l : List (Expr × Expr)} (hk : Compiled k = true)
    (hv : Compiled v = true) (hl : CompiledEntries l = true) :
    CompiledEntries ((k, v) :: l) = true := by rw [CompiledEntries, hk, hv, hl]; rfl

theorem cl_append {a b : List Expr} (ha : CompiledList a = true) (hb : CompiledList b = true) :
    CompiledList (a ++ b) = true := by
  induction a with
  | nil => exact hb
  | cons x xs ih =>
    have := cl_inv ha
    exact cl_cons this.1 (ih this.2)

theorem cl_reverse {a : List Expr} (ha : CompiledList a = true) : CompiledList a.reverse = true := by
  induction a with
  | nil => exact cl_nil
  | cons x xs ih =>
    have := cl_inv ha
    rw [List.reverse_cons]
    exact cl_append (ih this.2) (cl_one this.1)

theorem cl_mem {l : List Expr} (h : CompiledList l = true) : ∀ x ∈ l, Compiled x = true := by
  induction l with
  | nil => intro x hx; cases hx
  | cons a as ih =>
    have := cl_inv h
    intro x hx
    rcases List.mem_cons.mp hx with rfl | hx
    · exact this.1
    · exact ih this.2 x hx

/-- an array access with `!` on a compiled list: in range it is an element, out of range it is
`default`, a literal -/
theorem c_getElem! {l : List Expr} (h : CompiledList l = true) (i : Nat) :
    Compiled (l.toArray[i]!) = true := by
  by_cases hi : i < l.length
  · have : l.toArray[i]! = l[i] := by simp [hi]
    rw [this]
    exact cl_mem h _ (List.getElem_mem hi)
  · have : l.toArray[i]! = default := by simp [hi]
    rw [this]
    exact c_default

/-! ## `balancedTree` / `logicExpr` -/

theorem balancedTree_succ (op : String) (arr : Array Expr) (fuel lo hi : Nat) :
  balancedTree op arr (fuel + 1) lo hi =
    .call op [if (lo + hi + 1) / 2 == lo then arr[(lo + hi + 1) / 2]! else balancedTree op arr fuel lo ((lo + hi + 1) / 2 - 1),
      if (lo + hi + 1) / 2 == hi then arr[(lo + hi + 1) / 2 + 1]! else balancedTree op arr fuel ((lo + hi + 1) / 2 + 1) hi] := by
  rw [balancedTree]

/-- with `lo ≤ hi` and more fuel than the width of the interval the fuel-0 case is never reached -/
theorem balancedTree_compiled (op : String) (terms : List Expr) (h : CompiledList terms = true) :
    ∀ fuel lo hi, lo ≤ hi → hi - lo + 1 ≤ fuel →
      Compiled (balancedTree op terms.toArray fuel lo hi) = true := by
  intro fuel
  induction fuel with
  | zero => intro lo hi _ hf; omega
  | succ f ih =>
    intro lo hi hle hf
    rw [balancedTree_succ]
    apply c_call2
    · split
      · exact c_getElem! h _
      · rename_i hm
        have hm' : (lo + hi + 1) / 2 ≠ lo := by simpa using hm
        exact ih _ _ (by omega) (by omega)
    · split
      · exact c_getElem! h _
      · rename_i hm
        have hm' : (lo + hi + 1) / 2 ≠ hi := by simpa using hm
        exact ih _ _ (by omega) (by omega)

theorem logicExpr_compiled (op : String) (terms : List Expr) (h : CompiledList terms = true) :
    Compiled (logicExpr op terms) = true := by
  unfold logicExpr
  split
  · exact (cl_inv h).1
  · exact balancedTree_compiled op terms h _ _ _ (Nat.zero_le _) (by omega)

/-! ## literals and macro expansion -/

theorem intLiteral_compiled {neg : Bool} {t : Str} {e : Expr} (h : intLiteral neg t = some e) :
    Compiled e = true := by
  unfold intLiteral at h
  simp only at h
  split at h
  · cases h
  · split at h <;> split at h <;> first | (cases h; exact c_lit _) | cases h

theorem uintLiteral_compiled {t : Str} {e : Expr} (h : uintLiteral t = some e) :
    Compiled e = true := by
  unfold uintLiteral at h
  simp only at h
  split at h
  · cases h
  · split at h
    · cases h; exact c_lit _
    · cases h

theorem doubleLiteral_compiled {neg : Bool} {t : Str} {e : Expr} (h : doubleLiteral neg t = some e) :
    Compiled e = true := by
  unfold doubleLiteral at h
  split at h
  · split at h
    · cases h; exact c_lit _
    · cases h
  · cases h

theorem stringLiteral_compiled {t : Str} {e : Expr} (h : stringLiteral t = some e) :
    Compiled e = true := by
  unfold stringLiteral at h
  simp only [Option.map_eq_some_iff] at h
  obtain ⟨s, _, rfl⟩ := h
  exact c_lit _

theorem bytesLiteral_compiled {t : Str} {e : Expr} (h : bytesLiteral t = some e) :
    Compiled e = true := by
  unfold bytesLiteral at h
  simp only [Option.map_eq_some_iff] at h
  obtain ⟨s, _, rfl⟩ := h
  exact c_lit _

open Macros in
theorem c_accu : Compiled accuIdent = true := c_ident _

open Macros in
theorem expandAll_compiled (v : String) {r p : Expr} (hr : Compiled r = true) (hp : Compiled p = true) :
    Compiled (expandAll v r p) = true :=
  c_comp hr (c_lit _) (c_call1 c_accu) (c_call2 c_accu hp) c_accu

open Macros in
theorem expandExists_compiled (v : String) {r p : Expr} (hr : Compiled r = true) (hp : Compiled p = true) :
    Compiled (expandExists v r p) = true :=
  c_comp hr (c_lit _) (c_call1 (c_call1 c_accu)) (c_call2 c_accu hp) c_accu

open Macros in
theorem expandExistsOne_compiled (v : String) {r p : Expr} (hr : Compiled r = true) (hp : Compiled p = true) :
    Compiled (expandExistsOne v r p) = true :=
  c_comp hr (c_lit _) (c_lit _) (c_call3 hp (c_call2 c_accu (c_lit _)) c_accu) (c_call2 c_accu (c_lit _))

open Macros in
theorem expandMap_compiled (v : String) {r f : Expr} (hr : Compiled r = true) (hf : Compiled f = true) :
    Compiled (expandMap v r f) = true :=
  c_comp hr (c_list cl_nil) (c_lit _) (c_call2 c_accu (c_list (cl_one hf))) c_accu

open Macros in
theorem expandMapFilter_compiled (v : String) {r p f : Expr} (hr : Compiled r = true)
    (hp : Compiled p = true) (hf : Compiled f = true) :
    Compiled (expandMapFilter v r p f) = true :=
  c_comp hr (c_list cl_nil) (c_lit _)
    (c_call3 hp (c_call2 c_accu (c_list (cl_one hf))) c_accu) c_accu

open Macros in
theorem expandFilter_compiled (v : String) {r p : Expr} (hr : Compiled r = true) (hp : Compiled p = true) :
    Compiled (expandFilter v r p) = true :=
  c_comp hr (c_list cl_nil) (c_lit _)
    (c_call3 hp (c_call2 c_accu (c_list (cl_one (c_ident _)))) c_accu) c_accu

open Macros in
theorem expandHas_compiled {a e : Expr} (ha : Compiled a = true) (h : expandHas a = some e) :
    Compiled e = true := by
  unfold expandHas at h
  split at h
  · cases h; exact c_select (c_select_inv ha)
  · cases h

/-- the target of a call, if any, is compiled -/
def CompiledOpt : Option Expr → Prop
  | none => True
  | some t => Compiled t = true

open Macros in
theorem expand_compiled {f : String} {target : Option Expr} {args : List Expr} {e : Expr}
    (ht : CompiledOpt target) (ha : CompiledList args = true)
    (h : expand f target args = .ok e) : Compiled e = true := by
  unfold expand at h
  split at h
  · -- has(a)
    rename_i a
    split at h
    · split at h
      · rename_i e' he
        cases h
        exact expandHas_compiled (cl_inv ha).1 he
      · cases h
    · cases h
  · -- t.f(v, p)
    rename_i t v p
    have hT : Compiled t = true := ht
    have hP : Compiled p = true := (cl_inv (cl_inv ha).2).1
    split at h
    · split at h
      · rename_i n
        split at h
        · cases h; exact expandAll_compiled _ hT hP
        · split at h
          · cases h; exact expandExists_compiled _ hT hP
          · split at h
            · cases h; exact expandExistsOne_compiled _ hT hP
            · split at h
              · cases h; exact expandMap_compiled _ hT hP
              · cases h; exact expandFilter_compiled _ hT hP
      · cases h
    · cases h
  · -- t.map(v, p, fn)
    rename_i t v p fn
    have hT : Compiled t = true := ht
    have hP : Compiled p = true := (cl_inv (cl_inv ha).2).1
    have hF : Compiled fn = true := (cl_inv (cl_inv (cl_inv ha).2).2).1
    split at h
    · split at h
      · cases h; exact expandMapFilter_compiled _ hT hP hF
      · cases h
    · cases h
  · cases h

theorem callOrMacro_compiled {f : String} {target : Option Expr} {args : List Expr} {e : Expr}
    (ht : CompiledOpt target) (ha : CompiledList args = true)
    (h : callOrMacro f target args = some e) : Compiled e = true := by
  unfold callOrMacro at h
  split at h
  · rename_i e' he
    cases h
    exact expand_compiled ht ha he
  · cases h
  · split at h
    · cases h; exact c_call ha
    · cases h; exact c_mcall ht ha

/-! ## the parser functions -/

/-- returns a tree -/
def QE (p : Toks → Option (Expr × Toks)) : Prop :=
  ∀ ts e rest, p ts = some (e, rest) → Compiled e = true
/-- threads a tree -/
def QA (p : Toks → Expr → Option (Expr × Toks)) : Prop :=
  ∀ ts acc e rest, Compiled acc = true → p ts acc = some (e, rest) → Compiled e = true
/-- threads a list of trees -/
def QLA (p : Toks → List Expr → Option (List Expr × Toks)) : Prop :=
  ∀ ts acc es rest, CompiledList acc = true → p ts acc = some (es, rest) → CompiledList es = true
/-- returns a list of trees -/
def QL (p : Toks → Option (List Expr × Toks)) : Prop :=
  ∀ ts es rest, p ts = some (es, rest) → CompiledList es = true
/-- returns map entries -/
def QM (p : Toks → Option (List (Expr × Expr) × Toks)) : Prop :=
  ∀ ts es rest, p ts = some (es, rest) → CompiledEntries es = true
/-- returns field names and field values -/
def QF (p : Toks → Option (List Str × List Expr × Toks)) : Prop :=
  ∀ ts fs vs rest, p ts = some (fs, vs, rest) → CompiledList vs = true

theorem parseExpr_step (fuel : Nat) (hOr : QE (parseOr fuel)) (hE : QE (parseExpr fuel)) :
    QE (parseExpr (fuel + 1)) := by
  intro ts e rest h
  simp only [parseExpr] at h
  split at h
  · cases h
  · rename_i c r h1
    split at h
    · rename_i a r2 h2
      split at h
      · rename_i b r3 h3
        cases h
        exact c_call3 (hOr _ _ _ h1) (hOr _ _ _ h2) (hE _ _ _ h3)
      · cases h
    · cases h
  · rename_i h1
    cases h
    exact hOr _ _ _ h1

theorem parseOr_step (fuel : Nat) (hA : QE (parseAnd fuel)) (hR : QLA (parseOrRest fuel)) :
    QE (parseOr (fuel + 1)) := by
  intro ts e rest h
  simp only [parseOr] at h
  split at h
  · cases h
  · rename_i t r h1
    split at h
    · rename_i terms r' h2
      cases h
      exact logicExpr_compiled _ _ (cl_reverse (hR _ _ _ _ (cl_one (hA _ _ _ h1)) h2))
    · cases h

theorem parseOrRest_step (fuel : Nat) (hA : QE (parseAnd fuel)) (hR : QLA (parseOrRest fuel)) :
    QLA (parseOrRest (fuel + 1)) := by
  intro ts acc e rest hacc h
  simp only [parseOrRest] at h
  split at h
  · rename_i r
    split at h
    · rename_i t r' h1
      exact hR _ _ _ _ (cl_cons (hA _ _ _ h1) hacc) h
    · cases h
  · cases h; exact hacc

theorem parseAnd_step (fuel : Nat) (hA : QE (parseRel fuel)) (hR : QLA (parseAndRest fuel)) :
    QE (parseAnd (fuel + 1)) := by
  intro ts e rest h
  simp only [parseAnd] at h
  split at h
  · cases h
  · rename_i t r h1
    split at h
    · rename_i terms r' h2
      cases h
      exact logicExpr_compiled _ _ (cl_reverse (hR _ _ _ _ (cl_one (hA _ _ _ h1)) h2))
    · cases h

theorem parseAndRest_step (fuel : Nat) (hA : QE (parseRel fuel)) (hR : QLA (parseAndRest fuel)) :
    QLA (parseAndRest (fuel + 1)) := by
  intro ts acc e rest hacc h
  simp only [parseAndRest] at h
  split at h
  · rename_i r
    split at h
    · rename_i t r' h1
      exact hR _ _ _ _ (cl_cons (hA _ _ _ h1) hacc) h
    · cases h
  · cases h; exact hacc

theorem parseRel_step (fuel : Nat) (hA : QE (parseAdd fuel)) (hR : QA (parseRelRest fuel)) :
    QE (parseRel (fuel + 1)) := by
  intro ts e rest h
  simp only [parseRel] at h
  split at h
  · cases h
  · rename_i t r h1
    exact hR _ _ _ _ (hA _ _ _ h1) h

theorem parseRelRest_step (fuel : Nat) (hA : QE (parseAdd fuel)) (hR : QA (parseRelRest fuel)) :
    QA (parseRelRest (fuel + 1)) := by
  intro ts acc e rest hacc h
  simp only [parseRelRest] at h
  split at h
  · rename_i s r
    split at h
    · rename_i op hop
      split at h
      · rename_i t r' h1
        exact hR _ _ _ _ (c_call2 hacc (hA _ _ _ h1)) h
      · cases h
    · cases h; exact hacc
  · cases h; exact hacc

theorem parseAdd_step (fuel : Nat) (hA : QE (parseMul fuel)) (hR : QA (parseAddRest fuel)) :
    QE (parseAdd (fuel + 1)) := by
  intro ts e rest h
  simp only [parseAdd] at h
  split at h
  · cases h
  · rename_i t r h1
    exact hR _ _ _ _ (hA _ _ _ h1) h

theorem parseAddRest_step (fuel : Nat) (hA : QE (parseMul fuel)) (hR : QA (parseAddRest fuel)) :
    QA (parseAddRest (fuel + 1)) := by
  intro ts acc e rest hacc h
  simp only [parseAddRest] at h
  split at h
  · rename_i s r
    split at h
    · rename_i op hop
      split at h
      · rename_i t r' h1
        exact hR _ _ _ _ (c_call2 hacc (hA _ _ _ h1)) h
      · cases h
    · cases h; exact hacc
  · cases h; exact hacc

theorem parseMul_step (fuel : Nat) (hA : QE (parseUnary fuel)) (hR : QA (parseMulRest fuel)) :
    QE (parseMul (fuel + 1)) := by
  intro ts e rest h
  simp only [parseMul] at h
  split at h
  · cases h
  · rename_i t r h1
    exact hR _ _ _ _ (hA _ _ _ h1) h

theorem parseMulRest_step (fuel : Nat) (hA : QE (parseUnary fuel)) (hR : QA (parseMulRest fuel)) :
    QA (parseMulRest (fuel + 1)) := by
  intro ts acc e rest hacc h
  simp only [parseMulRest] at h
  split at h
  · rename_i s r
    split at h
    · rename_i op hop
      split at h
      · rename_i t r' h1
        exact hR _ _ _ _ (c_call2 hacc (hA _ _ _ h1)) h
      · cases h
    · cases h; exact hacc
  · cases h; exact hacc

theorem c_ite_call1 {b : Bool} {f : String} {m : Expr} (hm : Compiled m = true) :
    Compiled (if b = true then m else .call f [m]) = true := by
  cases b
  · exact c_call1 hm
  · exact hm

theorem parseUnary_step (fuel : Nat) (hM : QE (parseMember fuel)) :
    QE (parseUnary (fuel + 1)) := by
  intro ts e rest h
  simp only [parseUnary] at h
  split at h
  · split at h
    · rename_i m r h1
      cases h
      exact c_ite_call1 (hM _ _ _ h1)
    · cases h
  · split at h
    · have key : ∀ b : Bool, (if b = true then parseMember fuel ts
          else
            match parseMember fuel (List.drop (runLen "-" ts) ts) with
            | some (m, r) => some (if (runLen "-" ts % 2 == 0) = true then m else Expr.call "-_" [m], r)
            | none => none) = some (e, rest) → Compiled e = true := by
        intro b hb
        split at hb
        · exact hM _ _ _ hb
        · split at hb
          · rename_i m r h1
            cases hb
            exact c_ite_call1 (hM _ _ _ h1)
          · cases hb
      exact key _ h
    · exact hM _ _ _ h

theorem parseMember_step (fuel : Nat) (hP : QE (parsePrimary fuel)) (hS : QA (parseSuffix fuel)) :
    QE (parseMember (fuel + 1)) := by
  intro ts e rest h
  simp only [parseMember] at h
  split at h
  · cases h
  · rename_i t r h1
    exact hS _ _ _ _ (hP _ _ _ h1) h

theorem parseSuffix_step (fuel : Nat) (hA : QL (parseArgs fuel)) (hE : QE (parseExpr fuel))
    (hS : QA (parseSuffix fuel)) :
    QA (parseSuffix (fuel + 1)) := by
  intro ts acc e rest hacc h
  simp only [parseSuffix] at h
  split at h
  · rename_i f r
    split at h
    · rename_i args r' h1
      split at h
      · rename_i c hc
        exact hS _ _ _ _ (callOrMacro_compiled (target := some acc) hacc (hA _ _ _ h1) hc) h
      · cases h
    · cases h
  · exact hS _ _ _ _ (c_select hacc) h
  · exact hS _ _ _ _ (c_select hacc) h
  · rename_i r
    split at h
    · rename_i i r' h1
      exact hS _ _ _ _ (c_call2 hacc (hE _ _ _ h1)) h
    · cases h
  · cases h; exact hacc

theorem parseArgs_step (fuel : Nat) (hE : QE (parseExpr fuel)) (hA : QL (parseArgs fuel)) :
    QL (parseArgs (fuel + 1)) := by
  intro ts e rest h
  simp only [parseArgs] at h
  split at h
  · cases h; exact cl_nil
  · split at h
    · rename_i a r h1
      split at h
      · cases h
      · split at h
        · rename_i rs r' h2
          cases h
          exact cl_cons (hE _ _ _ h1) (hA _ _ _ h2)
        · cases h
    · rename_i a r h1
      cases h
      exact cl_one (hE _ _ _ h1)
    · cases h

theorem parseListElems_step (fuel : Nat) (hE : QE (parseExpr fuel)) (hA : QL (parseListElems fuel)) :
    QL (parseListElems (fuel + 1)) := by
  intro ts e rest h
  simp only [parseListElems] at h
  split at h
  · cases h; exact cl_nil
  · split at h
    · rename_i a r h1
      split at h
      · rename_i rs r' h2
        cases h
        exact cl_cons (hE _ _ _ h1) (hA _ _ _ h2)
      · cases h
    · rename_i a r h1
      cases h
      exact cl_one (hE _ _ _ h1)
    · cases h

theorem parseMapEntries_step (fuel : Nat) (hE : QE (parseExpr fuel)) (hA : QM (parseMapEntries fuel)) :
    QM (parseMapEntries (fuel + 1)) := by
  intro ts e rest h
  simp only [parseMapEntries] at h
  split at h
  · cases h; exact ce_nil
  · split at h
    · rename_i k r h1
      split at h
      · rename_i v r2 h2
        split at h
        · rename_i rs r3 h3
          cases h
          exact ce_cons (hE _ _ _ h1) (hE _ _ _ h2) (hA _ _ _ h3)
        · cases h
      · rename_i v r2 h2
        cases h
        exact ce_cons (hE _ _ _ h1) (hE _ _ _ h2) ce_nil
      · cases h
    · cases h

theorem parseFields_step (fuel : Nat) (hE : QE (parseExpr fuel)) (hA : QF (parseFields fuel)) :
    QF (parseFields (fuel + 1)) := by
  intro ts fs vs rest h
  simp only [parseFields] at h
  split at h
  · cases h; exact cl_nil
  · split at h
    · cases h
    · rename_i f r hnr
      split at h
      · rename_i v r2 h2
        split at h
        · rename_i fs' vs' r3 h3
          cases h
          exact cl_cons (hE _ _ _ h2) (hA _ _ _ _ h3)
        · cases h
      · rename_i v r2 h2
        cases h
        exact cl_one (hE _ _ _ h2)
      · cases h

theorem primary_ident (fuel : Nat) (hA : QL (parseArgs fuel)) (hF : QF (parseFields fuel))
    (p : Bool × Toks) (e : Expr) (rest : Toks)
    (h : (match messageHead (p.snd.length + 1) p.snd with
      | some (names, r) =>
        (match r with
         | .sym "," :: .sym "}" :: r' =>
            some (Expr.struct (String.ofList ((if p.fst then ['.'] else []) ++ joinDots names)) [] [], r')
         | _ => (match parseFields fuel r with
            | some (fs, vs, r') =>
              some (Expr.struct (String.ofList ((if p.fst then ['.'] else []) ++ joinDots names)) fs vs, r')
            | none => none))
      | none =>
        match p.snd with
        | .ident f :: .sym "(" :: r =>
          (match parseArgs fuel r with
           | some (args, r') =>
             (callOrMacro (String.ofList ((if p.fst then ['.'] else []) ++ f)) none args).map (·, r')
           | none => none)
        | .ident n :: r => some (Expr.ident (String.ofList n), r)
        | _ => none) = some (e, rest)) :
    Compiled e = true := by
  obtain ⟨dot, ts'⟩ := p
  simp only at h
  split at h
  · rename_i names r h1
    split at h
    · cases h
      exact c_struct cl_nil
    · split at h
      · rename_i fs vs r' h2
        cases h
        exact c_struct (hF _ _ _ _ h2)
      · cases h
  · split at h
    · rename_i f r
      split at h
      · rename_i args r' h2
        simp only [Option.map_eq_some_iff] at h
        obtain ⟨a, hc, ha⟩ := h
        cases ha
        exact callOrMacro_compiled (target := none) trivial (hA _ _ _ h2) hc
      · cases h
    · cases h
      exact c_ident _
    · cases h

theorem lit_case {o : Option Expr} {r rest : Toks} {e : Expr}
    (h : Option.map (fun x => (x, r)) o = some (e, rest)) : o = some e := by
  simp only [Option.map_eq_some_iff] at h
  obtain ⟨a, ha, hp⟩ := h
  cases hp; exact ha

theorem parsePrimary_step (fuel : Nat) (hE : QE (parseExpr fuel)) (hA : QL (parseArgs fuel))
    (hL : QL (parseListElems fuel)) (hM : QM (parseMapEntries fuel)) (hF : QF (parseFields fuel)) :
    QE (parsePrimary (fuel + 1)) := by
  intro ts e rest h
  simp only [parsePrimary] at h
  split at h
  · exact intLiteral_compiled (lit_case h)
  · exact doubleLiteral_compiled (lit_case h)
  · exact intLiteral_compiled (lit_case h)
  · exact doubleLiteral_compiled (lit_case h)
  · exact uintLiteral_compiled (lit_case h)
  · exact stringLiteral_compiled (lit_case h)
  · exact bytesLiteral_compiled (lit_case h)
  · cases h; exact c_lit _
  · cases h; exact c_lit _
  · cases h; exact c_lit _
  · rename_i r
    split at h
    · rename_i e' r' h1
      cases h
      exact hE _ _ _ h1
    · cases h
  · rename_i r
    split at h
    · cases h
      exact c_list cl_nil
    · split at h
      · rename_i es r' h1
        cases h
        exact c_list (hL _ _ _ h1)
      · cases h
  · rename_i r
    split at h
    · cases h
      exact c_map ce_nil
    · split at h
      · rename_i es r' h1
        cases h
        exact c_map (hM _ _ _ h1)
      · cases h
  · exact primary_ident fuel hA hF _ e rest h

/-! ## the simultaneous induction on the fuel -/

structure All (fuel : Nat) : Prop where
  expr : QE (parseExpr fuel)
  or : QE (parseOr fuel)
  orRest : QLA (parseOrRest fuel)
  and : QE (parseAnd fuel)
  andRest : QLA (parseAndRest fuel)
  rel : QE (parseRel fuel)
  relRest : QA (parseRelRest fuel)
  add : QE (parseAdd fuel)
  addRest : QA (parseAddRest fuel)
  mul : QE (parseMul fuel)
  mulRest : QA (parseMulRest fuel)
  unary : QE (parseUnary fuel)
  member : QE (parseMember fuel)
  suffix : QA (parseSuffix fuel)
  args : QL (parseArgs fuel)
  elems : QL (parseListElems fuel)
  entries : QM (parseMapEntries fuel)
  fields : QF (parseFields fuel)
  primary : QE (parsePrimary fuel)

theorem all_zero : All 0 where
  expr := by intro ts e rest h; simp [parseExpr] at h
  or := by intro ts e rest h; simp [parseOr] at h
  orRest := by intro ts acc e rest _ h; simp [parseOrRest] at h
  and := by intro ts e rest h; simp [parseAnd] at h
  andRest := by intro ts acc e rest _ h; simp [parseAndRest] at h
  rel := by intro ts e rest h; simp [parseRel] at h
  relRest := by intro ts acc e rest _ h; simp [parseRelRest] at h
  add := by intro ts e rest h; simp [parseAdd] at h
  addRest := by intro ts acc e rest _ h; simp [parseAddRest] at h
  mul := by intro ts e rest h; simp [parseMul] at h
  mulRest := by intro ts acc e rest _ h; simp [parseMulRest] at h
  unary := by intro ts e rest h; simp [parseUnary] at h
  member := by intro ts e rest h; simp [parseMember] at h
  suffix := by intro ts acc e rest _ h; simp [parseSuffix] at h
  args := by intro ts e rest h; simp [parseArgs] at h
  elems := by intro ts e rest h; simp [parseListElems] at h
  entries := by intro ts e rest h; simp [parseMapEntries] at h
  fields := by intro ts fs vs rest h; simp [parseFields] at h
  primary := by intro ts e rest h; simp [parsePrimary] at h

theorem all_succ (fuel : Nat) (ih : All fuel) : All (fuel + 1) where
  expr := parseExpr_step fuel ih.or ih.expr
  or := parseOr_step fuel ih.and ih.orRest
  orRest := parseOrRest_step fuel ih.and ih.orRest
  and := parseAnd_step fuel ih.rel ih.andRest
  andRest := parseAndRest_step fuel ih.rel ih.andRest
  rel := parseRel_step fuel ih.add ih.relRest
  relRest := parseRelRest_step fuel ih.add ih.relRest
  add := parseAdd_step fuel ih.mul ih.addRest
  addRest := parseAddRest_step fuel ih.mul ih.addRest
  mul := parseMul_step fuel ih.unary ih.mulRest
  mulRest := parseMulRest_step fuel ih.unary ih.mulRest
  unary := parseUnary_step fuel ih.member
  member := parseMember_step fuel ih.primary ih.suffix
  suffix := parseSuffix_step fuel ih.args ih.expr ih.suffix
  args := parseArgs_step fuel ih.expr ih.args
  elems := parseListElems_step fuel ih.expr ih.elems
  entries := parseMapEntries_step fuel ih.expr ih.entries
  fields := parseFields_step fuel ih.expr ih.fields
  primary := parsePrimary_step fuel ih.expr ih.args ih.elems ih.entries ih.fields

theorem all (fuel : Nat) : All fuel := by
  induction fuel with
  | zero => exact all_zero
  | succ n ih => exact all_succ n ih

/-- every tree `parseExpr` returns, at any fuel and on any tokens, has no `unspecified` node -/
theorem parseExpr_compiled {fuel : Nat} {ts rest : Toks} {e : Expr}
    (h : parseExpr fuel ts = some (e, rest)) : Compiled e = true := (all fuel).expr _ _ _ h

end ParserCompiled
end Cel
