import CelModel.Lemmas.CivilCheck
/-! era tables, chunk 15 of 16: kernel evaluation by `decide +kernel` -/
namespace Cel.Time.Table
set_option maxRecDepth 100000 in
theorem doeChunk15 : checkRange checkDoe 136980 9117 = true := by decide +kernel
set_option maxRecDepth 100000 in
theorem ymdChunk15 : checkRange checkYmd 139500 9300 = true := by decide +kernel
end Cel.Time.Table
