import CelModel.Lemmas.CivilCheck
/-! era tables, chunk 1 of 16: kernel evaluation by `decide +kernel` -/
namespace Cel.Time.Table
set_option maxRecDepth 100000 in
theorem doeChunk1 : checkRange checkDoe 9132 9132 = true := by decide +kernel
set_option maxRecDepth 100000 in
theorem ymdChunk1 : checkRange checkYmd 9300 9300 = true := by decide +kernel
end Cel.Time.Table
