import CelModel.Lemmas.Monad
/-!
# A Hoare-style calculus for the evaluation monad

`Sat m Q E` : from every state, `m` yields a value satisfying `Q` or an execution error
satisfying `E` — and never a panic.  The rules below let evaluator-wide facts be proved by
following the `do` blocks of the model one bind at a time.
-/
namespace Cel

/-- total-correctness-style triple (pre-condition `True`, any state): value post-condition `Q`,
error post-condition `E`, panics excluded -/
def Sat (m : M β α) (Q : α → Prop) (E : ErrC → Prop) : Prop :=
  ∀ s, match m s with
    | (.ok a, _) => Q a
    | (.err e, _) => E e
    | (.panic _, _) => False

/-- the trivial post-condition -/
abbrev Any {α : Type} : α → Prop := fun _ => True

namespace Sat

theorem pure {a : α} {Q : α → Prop} {E : ErrC → Prop} (h : Q a) :
    Sat (Pure.pure a : M β α) Q E := by
  intro s; exact h

theorem throw {e : ErrC} {Q : α → Prop} {E : ErrC → Prop} (h : E e) :
    Sat (M.throw e : M β α) Q E := by
  intro s; exact h

/-- lifting an `Outcome`: whatever holds of the outcome holds of the computation -/
theorem lift {o : Outcome α} {Q : α → Prop} {E : ErrC → Prop}
    (h : match o with | .ok a => Q a | .err e => E e | .panic _ => False) :
    Sat (M.lift o : M β α) Q E := by
  intro s
  cases o <;> exact h

/-- lifting an `Outcome` that is not a panic -/
theorem lift_noPanic {o : Outcome α} (h : o.isPanic = false) :
    Sat (M.lift o : M β α) Any Any := by
  apply lift
  cases o with
  | ok _ => trivial
  | err _ => trivial
  | panic _ => simp [Outcome.isPanic] at h

theorem bind {m : M β α} {f : α → M β γ} {Q : α → Prop} {R : γ → Prop} {E : ErrC → Prop}
    (hm : Sat m Q E) (hf : ∀ a, Q a → Sat (f a) R E) : Sat (m >>= f) R E := by
  intro s
  have h1 := hm s
  rw [M.bind_apply]
  split at h1
  · rename_i a s' heq; rw [heq]; exact hf a h1 s'
  · rename_i e s' heq; rw [heq]; exact h1
  · exact h1.elim

theorem weaken {m : M β α} {Q Q' : α → Prop} {E E' : ErrC → Prop}
    (h : Sat m Q E) (hq : ∀ a, Q a → Q' a) (he : ∀ e, E e → E' e) : Sat m Q' E' := by
  intro s
  have := h s
  split at this
  · exact hq _ this
  · exact he _ this
  · exact this.elim

/-- forget the post-conditions -/
theorem toAny {m : M β α} {Q : α → Prop} {E : ErrC → Prop} (h : Sat m Q E) : Sat m Any Any :=
  h.weaken (fun _ _ => trivial) (fun _ _ => trivial)

theorem tick {Q : Unit → Prop} {E : ErrC → Prop} (h : Q ()) : Sat (M.tick : M β Unit) Q E := by
  intro s; exact h

theorem logCall {c : Call β} {Q : Unit → Prop} {E : ErrC → Prop} (h : Q ()) :
    Sat (M.logCall c : M β Unit) Q E := by
  intro s; exact h

/-- `M.panic` satisfies no triple -/
theorem not_panic {p : String} {Q : α → Prop} {E : ErrC → Prop} : ¬ Sat (M.panic p : M β α) Q E := by
  intro h; exact h {}

theorem ite {c : Prop} [Decidable c] {a b : M β α} {Q : α → Prop} {E : ErrC → Prop}
    (ha : c → Sat a Q E) (hb : ¬ c → Sat b Q E) : Sat (if c then a else b) Q E := by
  split
  · exact ha ‹_›
  · exact hb ‹_›

/-- sequencing after a tick -/
theorem tick_bind {f : Unit → M β γ} {R : γ → Prop} {E : ErrC → Prop} (h : Sat (f ()) R E) :
    Sat (M.tick >>= f) R E :=
  bind (Q := Any) (tick trivial) (fun _ _ => h)

/-- what a triple says about one run -/
theorem isPanic_eq_false {m : M β α} {Q : α → Prop} {E : ErrC → Prop} (h : Sat m Q E) (s : St β) :
    ((m s).1).isPanic = false := by
  have := h s
  split at this
  · rename_i heq; rw [heq]; rfl
  · rename_i heq; rw [heq]; rfl
  · exact this.elim

/-- conversely, a computation that never panics satisfies the trivial triple -/
theorem of_isPanic_eq_false {m : M β α} (h : ∀ s, ((m s).1).isPanic = false) : Sat m Any Any := by
  intro s
  have := h s
  split
  · trivial
  · trivial
  · rename_i heq; rw [heq] at this; simp [Outcome.isPanic] at this

end Sat
end Cel
