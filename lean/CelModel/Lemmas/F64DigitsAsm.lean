import CelModel.Lemmas.F64DigitsCore
/-!
# Burger–Dybvig digit generation: set-up facts and assembly
-/
namespace Cel.F64

/-- the initial `(r, s, m⁺, m⁻)` of `shortestDigits` -/
def bdSetup (m : Nat) (e : Int) : Nat × Nat × Nat × Nat :=
  let boundary := m == 2 ^ 52 && e > -1074
  if e ≥ 0 then
    let be := 2 ^ e.toNat
    if !boundary then (m * be * 2, 2, be, be) else (m * be * 4, 4, be * 2, be)
  else
    let be := 2 ^ (-e).toNat
    if !boundary then (m * 2, be * 2, 1, 1) else (m * 4, be * 4, 2, 1)

/-- scaling and digit generation from a given `(r, s, m⁺, m⁻)` -/
def bdCore (ev : Bool) (r s mp mm : Nat) : Int × List Nat :=
  match shortestDigits.up ev r mp 400 s 0 with
  | (s, k) =>
    match shortestDigits.down ev 400 r mp mm s k with
    | (r, mp, mm, k) => (k, genDigits 800 (r * 10) s (mp * 10) (mm * 10) ev ev [])

theorem shortestDigits_eq (m : Nat) (e : Int) (r s mp mm : Nat)
    (h : bdSetup m e = (r, s, mp, mm)) :
    shortestDigits m e = bdCore (m % 2 == 0) r s mp mm := by
  unfold bdSetup at h
  unfold shortestDigits
  simp only [] at h ⊢
  rw [h]
  rfl

theorem pow10_324_309 : (10 : Nat) ^ 324 * 10 ^ 309 < 10 ^ 1 * 10 ^ 799 := by decide +kernel

/-- what `bdCore` delivers, in terms of the unscaled `(r, s, m⁺, m⁻)` -/
theorem bdCore_spec (ev : Bool) (r s mp mm : Nat) (hs : 0 < s) (hmp : 0 < mp)
    (hhigh : r + mp < s * 10 ^ 309) (hgap : s ≤ mp * 10 ^ 324) :
    (bdCore ev r s mp mm).2 ≠ [] ∧
    (∀ d ∈ (bdCore ev r s mp mm).2, d < 10) ∧
    (bdCore ev r s mp mm).1 ≤ 330 ∧
    0 < (fracOfDigits (bdCore ev r s mp mm).2 (bdCore ev r s mp mm).1).2 ∧
    Rel ev (r * (fracOfDigits (bdCore ev r s mp mm).2 (bdCore ev r s mp mm).1).2)
      ((fracOfDigits (bdCore ev r s mp mm).2 (bdCore ev r s mp mm).1).1 * s
        + mm * (fracOfDigits (bdCore ev r s mp mm).2 (bdCore ev r s mp mm).1).2) ∧
    Rel ev ((fracOfDigits (bdCore ev r s mp mm).2 (bdCore ev r s mp mm).1).1 * s)
      (r * (fracOfDigits (bdCore ev r s mp mm).2 (bdCore ev r s mp mm).1).2
        + mp * (fracOfDigits (bdCore ev r s mp mm).2 (bdCore ev r s mp mm).1).2) := by
  obtain ⟨a, ha, hup, hrel⟩ := up_spec ev r mp 400 309 s 0 (by decide) hhigh
  obtain ⟨b, hdown, hrel'⟩ := down_spec ev (s * 10 ^ a) 400 r mp mm (0 + (a : Int)) hrel
  have hcore : bdCore ev r s mp mm =
      ((a : Int) - (b : Int),
        genDigits (799 + 1) (r * 10 ^ b * 10) (s * 10 ^ a) (mp * 10 ^ b * 10 ^ (0 + 1))
          (mm * 10 ^ b * 10 ^ (0 + 1)) ev ev []) := by
    unfold bdCore
    rw [hup]
    simp only []
    rw [hdown]
    simp only [Int.zero_add, Nat.zero_add, Nat.pow_one]
  have hs2 : 0 < s * 10 ^ a := Nat.mul_pos hs (Nat.pow_pos (by decide))
  have hmp2 : 0 < mp * 10 ^ b := Nat.mul_pos hmp (Nat.pow_pos (by decide))
  have hgood := gen_spec ev (r * 10 ^ b) (s * 10 ^ a) (mp * 10 ^ b) (mm * 10 ^ b) hs2 hmp2
    799 [] (r * 10 ^ b * 10)
    (by simp [digitsNum])
    (by
      have := Rel.mul_right 10 (by decide) hrel'
      rw [Nat.add_mul] at this
      simpa [Nat.mul_comm] using this)
    (by
      have h1 := Nat.pow_le_pow_right (n := 10) (by decide) ha
      have h2 : (1 : Nat) ≤ 10 ^ b := Nat.pow_pos (by decide)
      calc s * 10 ^ a ≤ (mp * 10 ^ 324) * 10 ^ 309 := Nat.mul_le_mul hgap h1
        _ = mp * (10 ^ 324 * 10 ^ 309) := Nat.mul_assoc _ _ _
        _ < mp * (10 ^ 1 * 10 ^ 799) := Nat.mul_lt_mul_of_pos_left pow10_324_309 hmp
        _ = mp * 1 * 10 ^ 1 * 10 ^ 799 := by rw [Nat.mul_one, Nat.mul_assoc]
        _ ≤ mp * 10 ^ b * 10 ^ 1 * 10 ^ 799 :=
          Nat.mul_le_mul_right _ (Nat.mul_le_mul_right _ (Nat.mul_le_mul_left _ h2)))
    (by simp)
  rw [List.length_nil] at hgood
  rw [hcore]
  clear hhigh hgap hcore hup hdown
  generalize genDigits (799 + 1) (r * 10 ^ b * 10) (s * 10 ^ a) (mp * 10 ^ b * 10 ^ (0 + 1))
          (mm * 10 ^ b * 10 ^ (0 + 1)) ev ev [] = ds at hgood
  obtain ⟨hne, hdig, hlo, hhi⟩ := hgood
  refine ⟨hne, hdig, by simp only []; omega, ?_⟩
  simp only []
  unfold fracOfDigits
  simp only []
  have hTa : 0 < 10 ^ a := Nat.pow_pos (by decide)
  have hTb : 0 < 10 ^ b := Nat.pow_pos (by decide)
  have hTn : 0 < 10 ^ ds.length := Nat.pow_pos (by decide)
  split
  · rename_i hex
    obtain ⟨c, hc⟩ : ∃ c : Nat, ((a : Int) - (b : Int) - (ds.length : Int)).toNat = c := ⟨_, rfl⟩
    rw [hc]
    have hac : a = c + (b + ds.length) := by omega
    have hpa : 10 ^ a = 10 ^ c * (10 ^ b * 10 ^ ds.length) := by
      rw [hac, Nat.pow_add, Nat.pow_add]
    rw [hpa] at hlo hhi
    generalize 10 ^ c = C at *
    generalize 10 ^ b = B at *
    generalize 10 ^ ds.length = N at *
    generalize digitsNum ds = X at *
    have hBN : 0 < B * N := Nat.mul_pos hTb hTn
    refine ⟨Nat.one_pos, ?_, ?_⟩
    · apply Rel.of_mul_right hBN
      apply Rel.congr hlo <;> grind
    · apply Rel.of_mul_right hBN
      apply Rel.congr hhi <;> grind
  · rename_i hex
    obtain ⟨c, hc⟩ : ∃ c : Nat, (-((a : Int) - (b : Int) - (ds.length : Int))).toNat = c :=
      ⟨_, rfl⟩
    rw [hc]
    have hac : b + ds.length = a + c := by omega
    have hpa : 10 ^ b * 10 ^ ds.length = 10 ^ a * 10 ^ c := by
      rw [← Nat.pow_add, ← Nat.pow_add, hac]
    have hTc : 0 < 10 ^ c := Nat.pow_pos (by decide)
    generalize 10 ^ c = C at *
    generalize 10 ^ b = B at *
    generalize 10 ^ ds.length = N at *
    generalize 10 ^ a = A at *
    generalize digitsNum ds = X at *
    refine ⟨hTc, ?_, ?_⟩
    · apply Rel.of_mul_right hTa
      apply Rel.congr hlo <;> grind
    · apply Rel.of_mul_right hTa
      apply Rel.congr hhi <;> grind

theorem Rel.add_cancel {ev : Bool} {a b k : Nat} (h : Rel ev (a + k) (b + k)) : Rel ev a b := by
  cases ev <;> simp [Rel] at h ⊢ <;> omega

/-- from bounds against `(r - m⁻)/s` and `(r + m⁺)/s` to the rounding interval -/
theorem inInterval_of_frac (m : Nat) (e : Int) (r s mp mm num den : Nat) (hs : 0 < s)
    (hlo : r * 2 ^ 1076 = lowQ m e * unit4 e * s + mm * 2 ^ 1076)
    (hhi : (r + mp) * 2 ^ 1076 = highQ m * unit4 e * s)
    (h1 : Rel (m % 2 == 0) (r * den) (num * s + mm * den))
    (h2 : Rel (m % 2 == 0) (num * s) (r * den + mp * den)) :
    InInterval m e num den := by
  have hP : 0 < (2 : Nat) ^ 1076 := by apply Nat.two_pow_pos
  unfold InInterval
  generalize (2 : Nat) ^ 1076 = P at *
  generalize lowQ m e * unit4 e = L at *
  generalize highQ m * unit4 e = H at *
  have e1 : Rel (m % 2 == 0) (L * den * s + mm * den * P) (num * P * s + mm * den * P) :=
    Rel.congr (Rel.mul_right P hP h1) (by grind) (by grind)
  have l1 : Rel (m % 2 == 0) (L * den) (num * P) := Rel.of_mul_right hs (Rel.add_cancel e1)
  have e2 : Rel (m % 2 == 0) (num * P * s) (H * den * s) :=
    Rel.congr (Rel.mul_right P hP h2) (by grind) (by grind)
  have l2 : Rel (m % 2 == 0) (num * P) (H * den) := Rel.of_mul_right hs e2
  by_cases hm : m % 2 = 0
  · rw [if_pos hm]
    simp only [hm, Rel, beq_self_eq_true, if_true] at l1 l2
    exact ⟨l1, l2⟩
  · rw [if_neg hm]
    have hb : (m % 2 == 0) = false := by simpa using hm
    simp only [hb, Rel] at l1 l2
    exact ⟨by simpa using l1, by simpa using l2⟩

theorem pow1076 : (2 : Nat) ^ 1076 = 4 * 2 ^ 1074 := by
  decide +kernel

theorem two_pow_split (a b c : Nat) (h : c = a + b) : (2 : Nat) ^ c = 2 ^ a * 2 ^ b := by
  subst h; exact Nat.pow_add 2 a b

/-- the set-up: `r/s` is the value, `m⁺/s`, `m⁻/s` the half-gaps, in the units of `InInterval` -/
theorem bdSetup_spec (m : Nat) (e : Int) (hv : ValidFin m e) :
    ∃ r s mp mm, bdSetup m e = (r, s, mp, mm) ∧ 0 < s ∧ 0 < mp ∧
      r * 2 ^ 1076 = lowQ m e * unit4 e * s + mm * 2 ^ 1076 ∧
      (r + mp) * 2 ^ 1076 = highQ m * unit4 e * s ∧
      mp * 2 ^ 1076 = 2 * unit4 e * s := by
  obtain ⟨hm0, hm53, he1, he2, hsub⟩ := hv
  rw [pow1076]
  have hW : 0 < (2 : Nat) ^ 1074 := by apply Nat.two_pow_pos
  unfold bdSetup lowQ highQ unit4
  simp only [show (m == 2 ^ 52 && decide (e > -1074)) = isBoundary m e from rfl]
  by_cases he : e ≥ 0
  · simp only [he, if_true]
    have hU : (2 : Nat) ^ (e + 1074).toNat = 2 ^ e.toNat * 2 ^ 1074 :=
      two_pow_split e.toNat 1074 (e + 1074).toNat (by omega)
    rw [hU]
    have hbe : 0 < (2 : Nat) ^ e.toNat := Nat.pow_pos (by decide)
    generalize (2 : Nat) ^ e.toNat = be at *
    generalize (2 : Nat) ^ 1074 = W at *
    by_cases hb : isBoundary m e = true
    · simp only [hb, Bool.not_true, if_true]
      refine ⟨_, _, _, _, rfl, by decide, by omega, ?_, ?_, ?_⟩
      · obtain ⟨q, hq⟩ : ∃ q, 4 * m - 1 = q := ⟨_, rfl⟩
        have : q + 1 = 4 * m := by omega
        rw [hq]; grind
      · grind
      · grind
    · simp only [hb, Bool.not_false, if_true]
      refine ⟨_, _, _, _, rfl, by decide, by omega, ?_, ?_, ?_⟩
      · obtain ⟨q, hq⟩ : ∃ q, 4 * m - 2 = q := ⟨_, rfl⟩
        have : q + 2 = 4 * m := by omega
        rw [hq]; grind
      · grind
      · grind
  · simp only [he, if_false]
    have hU : (2 : Nat) ^ (e + 1074).toNat * 2 ^ (-e).toNat = 2 ^ 1074 :=
      (two_pow_split (e + 1074).toNat (-e).toNat 1074 (by omega)).symm
    have hbe : 0 < (2 : Nat) ^ (-e).toNat := Nat.pow_pos (by decide)
    generalize (2 : Nat) ^ (-e).toNat = be at *
    generalize (2 : Nat) ^ (e + 1074).toNat = U at *
    generalize (2 : Nat) ^ 1074 = W at *
    subst hU
    by_cases hb : isBoundary m e = true
    · simp only [hb, Bool.not_true, if_true]
      refine ⟨_, _, _, _, rfl, by omega, by decide, ?_, ?_, ?_⟩
      · obtain ⟨q, hq⟩ : ∃ q, 4 * m - 1 = q := ⟨_, rfl⟩
        have : q + 1 = 4 * m := by omega
        rw [hq]; grind
      · grind
      · grind
    · simp only [hb, Bool.not_false, if_true]
      refine ⟨_, _, _, _, rfl, by omega, by decide, ?_, ?_, ?_⟩
      · obtain ⟨q, hq⟩ : ∃ q, 4 * m - 2 = q := ⟨_, rfl⟩
        have : q + 2 = 4 * m := by omega
        rw [hq]; grind
      · grind
      · grind

theorem pow_55_2045 : (2 : Nat) ^ 55 * 2 ^ 2045 = 2 ^ 1024 * 2 ^ 1076 := by decide +kernel
theorem pow_1024_le : (2 : Nat) ^ 1024 ≤ 10 ^ 309 := by decide +kernel
theorem pow_1076_le : (2 : Nat) ^ 1076 ≤ 10 ^ 324 := by decide +kernel

/-- magnitude bounds that make the fuel of the loops sufficient -/
theorem bd_bounds (r s mp U H : Nat) (hs : 0 < s) (hH : H < 2 ^ 55) (hU1 : 0 < U)
    (hU : U ≤ 2 ^ 2045) (hhi : (r + mp) * 2 ^ 1076 = H * U * s)
    (hmp : mp * 2 ^ 1076 = 2 * U * s) :
    r + mp < s * 10 ^ 309 ∧ s ≤ mp * 10 ^ 324 := by
  have h1 := pow_55_2045
  have h2 := pow_1024_le
  have h3 := pow_1076_le
  have hP : 0 < (2 : Nat) ^ 1076 := by apply Nat.two_pow_pos
  generalize (2 : Nat) ^ 1076 = P at *
  generalize (2 : Nat) ^ 1024 = K at *
  generalize (2 : Nat) ^ 2045 = B at *
  generalize (2 : Nat) ^ 55 = C at *
  generalize (10 : Nat) ^ 309 = T1 at *
  generalize (10 : Nat) ^ 324 = T2 at *
  constructor
  · have hlt : H * U < C * B := Nat.mul_lt_mul_of_lt_of_le hH hU (by omega)
    have hlt2 : H * U * s < C * B * s := Nat.mul_lt_mul_of_pos_right hlt hs
    rw [← hhi, h1] at hlt2
    have hlt3 : (r + mp) * P < K * s * P := by
      rw [Nat.mul_right_comm K s P]; exact hlt2
    have hlt4 : r + mp < K * s := Nat.lt_of_mul_lt_mul_right hlt3
    calc r + mp < K * s := hlt4
      _ ≤ T1 * s := Nat.mul_le_mul_right s h2
      _ = s * T1 := Nat.mul_comm _ _
  · calc s = 1 * s := (Nat.one_mul s).symm
      _ ≤ 2 * U * s := Nat.mul_le_mul_right s (by omega)
      _ = mp * P := hmp.symm
      _ ≤ mp * T2 := Nat.mul_le_mul_left mp h3

end Cel.F64
