import CelModel.Lemmas.CivilCheck
/-! era tables, chunk 7 of 16: kernel evaluation by `decide +kernel` -/
namespace Cel.Time.Table
set_option maxRecDepth 100000 in
theorem doeChunk7 : checkRange checkDoe 63924 9132 = true := by decide +kernel
set_option maxRecDepth 100000 in
theorem ymdChunk7 : checkRange checkYmd 65100 9300 = true := by decide +kernel
end Cel.Time.Table
