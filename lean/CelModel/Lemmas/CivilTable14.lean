import CelModel.Lemmas.CivilCheck
/-! era tables, chunk 14 of 16: kernel evaluation by `decide +kernel` -/
namespace Cel.Time.Table
set_option maxRecDepth 100000 in
theorem doeChunk14 : checkRange checkDoe 127848 9132 = true := by decide +kernel
set_option maxRecDepth 100000 in
theorem ymdChunk14 : checkRange checkYmd 130200 9300 = true := by decide +kernel
end Cel.Time.Table
