import CelModel.Lemmas.CivilCheck
/-! era tables, chunk 4 of 16: kernel evaluation by `decide +kernel` -/
namespace Cel.Time.Table
set_option maxRecDepth 100000 in
theorem doeChunk4 : checkRange checkDoe 36528 9132 = true := by decide +kernel
set_option maxRecDepth 100000 in
theorem ymdChunk4 : checkRange checkYmd 37200 9300 = true := by decide +kernel
end Cel.Time.Table
