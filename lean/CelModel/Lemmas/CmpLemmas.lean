import CelModel.Lemmas.F64Lemmas
/-!
# Order lemmas for the scalar comparisons of `CelModel.Cmp` (used by `CelModel.Props.C09`)
-/
namespace Cel
open F64

/-! ### `Ordering.rev` -/
@[simp] theorem rev_lt : Ordering.rev .lt = .gt := rfl
@[simp] theorem rev_gt : Ordering.rev .gt = .lt := rfl
@[simp] theorem rev_eq : Ordering.rev .eq = .eq := rfl
@[simp] theorem rev_rev (o : Ordering) : Ordering.rev (Ordering.rev o) = o := by cases o <;> rfl

theorem rev_beq_eq (o : Ordering) : (Ordering.rev o == .eq) = (o == .eq) := by cases o <;> rfl

theorem some_beq_some_eq (o : Ordering) : (some o == some Ordering.eq) = (o == .eq) := by
  cases o <;> rfl

/-! ### `compare` on `Int` -/
theorem icmp_swap (a b : Int) : compare b a = Ordering.rev (compare a b) := by
  rcases Int.lt_trichotomy a b with h | h | h
  · rw [icmp_lt h, icmp_gt h]; rfl
  · subst h; rw [icmp_eq rfl]; rfl
  · rw [icmp_gt h, icmp_lt h]; rfl

theorem icmp_trans (a b c : Int) (o : Ordering) (h1 : compare a b = o) (h2 : compare b c = o) :
    compare a c = o := by
  cases o
  · rw [Int.compare_eq_lt] at *; omega
  · rw [Int.compare_eq_eq] at *; omega
  · rw [Int.compare_eq_gt] at *; omega

theorem icmp_trans_eq_left (a b c : Int) (o : Ordering) (h1 : compare a b = .eq)
    (h2 : compare b c = o) : compare a c = o := by
  rw [Int.compare_eq_eq] at h1; subst h1; exact h2

theorem ibeq_eq_cmp (a b : Int) : (a == b) = (compare a b == .eq) := by
  rcases Int.lt_trichotomy a b with h | h | h
  · rw [icmp_lt h]
    have : a ≠ b := by omega
    simp [this]
  · subst h; rw [icmp_eq rfl]; simp
  · rw [icmp_gt h]
    have : a ≠ b := by omega
    simp [this]

/-! ### `cmpBool` -/
theorem cmpBool_swap (a b : Bool) : cmpBool b a = Ordering.rev (cmpBool a b) := by
  cases a <;> cases b <;> rfl
theorem cmpBool_trans (a b c : Bool) (o : Ordering) (h1 : cmpBool a b = o) (h2 : cmpBool b c = o) :
    cmpBool a c = o := by
  cases a <;> cases b <;> cases c <;> simp only [cmpBool] at * <;> first | assumption | (subst h1; cases h2)
theorem cmpBool_trans_eq_left (a b c : Bool) (o : Ordering) (h1 : cmpBool a b = .eq)
    (h2 : cmpBool b c = o) : cmpBool a c = o := by
  cases a <;> cases b <;> cases c <;> simp_all [cmpBool]
theorem bbeq_eq_cmp (a b : Bool) : (a == b) = (cmpBool a b == .eq) := by
  cases a <;> cases b <;> rfl

/-! ### `cmpStr` -/
theorem cmpStr_cons_lt {x y : Char} (xs ys : Str) (h : x.toNat < y.toNat) :
    cmpStr (x :: xs) (y :: ys) = .lt := by
  simp [cmpStr, h]
theorem cmpStr_cons_gt {x y : Char} (xs ys : Str) (h : y.toNat < x.toNat) :
    cmpStr (x :: xs) (y :: ys) = .gt := by
  have : ¬ x.toNat < y.toNat := by omega
  simp [cmpStr, h, this]
theorem cmpStr_cons_eq {x y : Char} (xs ys : Str) (h : x.toNat = y.toNat) :
    cmpStr (x :: xs) (y :: ys) = cmpStr xs ys := by
  simp [cmpStr, h]

theorem char_toNat_inj {x y : Char} (h : x.toNat = y.toNat) : x = y := by
  apply Char.ext
  apply UInt32.toNat_inj.1
  exact h

theorem cmpStr_swap (a : Str) : ∀ b : Str, cmpStr b a = Ordering.rev (cmpStr a b) := by
  induction a with
  | nil => intro b; cases b <;> rfl
  | cons x xs ih =>
    intro b
    cases b with
    | nil => rfl
    | cons y ys =>
      rcases Nat.lt_trichotomy x.toNat y.toNat with p | p | p
      · rw [cmpStr_cons_lt _ _ p, cmpStr_cons_gt _ _ p]; rfl
      · rw [cmpStr_cons_eq _ _ p, cmpStr_cons_eq _ _ p.symm]; exact ih ys
      · rw [cmpStr_cons_gt _ _ p, cmpStr_cons_lt _ _ p]; rfl

theorem cmpStr_eq_iff (a : Str) : ∀ b : Str, cmpStr a b = .eq ↔ a = b := by
  induction a with
  | nil => intro b; cases b <;> simp [cmpStr]
  | cons x xs ih =>
    intro b
    cases b with
    | nil => simp [cmpStr]
    | cons y ys =>
      rcases Nat.lt_trichotomy x.toNat y.toNat with p | p | p
      · rw [cmpStr_cons_lt _ _ p]
        have : x ≠ y := by intro h; subst h; omega
        simp [this]
      · rw [cmpStr_cons_eq _ _ p, ih ys]
        have := char_toNat_inj p
        simp [this]
      · rw [cmpStr_cons_gt _ _ p]
        have : x ≠ y := by intro h; subst h; omega
        simp [this]

theorem cmpStr_trans (a : Str) : ∀ (b c : Str) (o : Ordering),
    cmpStr a b = o → cmpStr b c = o → cmpStr a c = o := by
  induction a with
  | nil =>
    intro b c o h1 h2
    cases b with
    | nil => exact h2
    | cons y ys =>
      simp only [cmpStr] at h1; subst h1
      cases c with
      | nil => simp [cmpStr] at h2
      | cons z zs => rfl
  | cons x xs ih =>
    intro b c o h1 h2
    cases b with
    | nil =>
      simp only [cmpStr] at h1; subst h1
      cases c <;> simp [cmpStr] at h2
    | cons y ys =>
      cases c with
      | nil => simp only [cmpStr] at h2; subst h2; rfl
      | cons z zs =>
        rcases Nat.lt_trichotomy x.toNat y.toNat with p | p | p <;>
        rcases Nat.lt_trichotomy y.toNat z.toNat with q | q | q
        · rw [cmpStr_cons_lt _ _ p] at h1; subst h1
          exact cmpStr_cons_lt _ _ (by omega)
        · rw [cmpStr_cons_lt _ _ p] at h1; subst h1
          exact cmpStr_cons_lt _ _ (by omega)
        · rw [cmpStr_cons_lt _ _ p] at h1; rw [cmpStr_cons_gt _ _ q] at h2
          subst h1; cases h2
        · rw [cmpStr_cons_lt _ _ q] at h2; subst h2
          exact cmpStr_cons_lt _ _ (by omega)
        · rw [cmpStr_cons_eq _ _ p] at h1; rw [cmpStr_cons_eq _ _ q] at h2
          rw [cmpStr_cons_eq _ _ (by omega)]
          exact ih ys zs o h1 h2
        · rw [cmpStr_cons_gt _ _ q] at h2; subst h2
          exact cmpStr_cons_gt _ _ (by omega)
        · rw [cmpStr_cons_gt _ _ p] at h1; rw [cmpStr_cons_lt _ _ q] at h2
          subst h1; cases h2
        · rw [cmpStr_cons_gt _ _ p] at h1; subst h1
          exact cmpStr_cons_gt _ _ (by omega)
        · rw [cmpStr_cons_gt _ _ p] at h1; subst h1
          exact cmpStr_cons_gt _ _ (by omega)

theorem cmpStr_trans_eq_left (a b c : Str) (o : Ordering) (h1 : cmpStr a b = .eq)
    (h2 : cmpStr b c = o) : cmpStr a c = o := by
  rw [cmpStr_eq_iff] at h1; subst h1; exact h2

theorem sbeq_eq_cmp (a b : Str) : (a == b) = (cmpStr a b == .eq) := by
  by_cases h : a = b
  · subst h
    have := (cmpStr_eq_iff a a).2 rfl
    rw [this]; simp
  · have h' : cmpStr a b ≠ .eq := fun e => h ((cmpStr_eq_iff a b).1 e)
    have : (a == b) = false := by simp [h]
    rw [this]
    cases hc : cmpStr a b <;> first | rfl | exact absurd hc h'

end Cel
