import CelModel.Lemmas.F64Interval
import CelModel.Lemmas.F64RoundCore
/-!
# Correct rounding: `roundRatPos` returns the double whose rounding interval holds the fraction
-/
namespace Cel.F64
open Cel.Lemmas.F64RoundCore Cel.Lemmas.OfInt

/-- decoding the bit pattern built from a valid significand / exponent gives them back -/
theorem decode_encodePos (m : Nat) (e : Int) (hv : ValidFin m e) :
    decodeNat (encodePos m e) = .fin false m e ∧ encodePos m e < 2 ^ 63 := by
  obtain ⟨hm0, hm53, he1, he2, hsub⟩ := hv
  by_cases hm : m < 2 ^ 52
  · have he : e = -1074 := by omega
    have henc : encodePos m e = m := by simp only [encodePos, hm, if_true]
    rw [henc]
    refine ⟨?_, by omega⟩
    have hex : m / 2 ^ 52 % 2 ^ 11 = 0 := by omega
    have hfr : m % 2 ^ 52 = m := by omega
    have hsg : m / 2 ^ 63 % 2 = 0 := by omega
    unfold decodeNat
    have b1 : ((0 : Nat) == 2047) = false := by decide
    have b2 : ((0 : Nat) == 1) = false := by decide
    simp only [hex, hfr, hsg, he, b1, b2, beq_self_eq_true, if_true, Bool.false_eq_true, if_false]
  · obtain ⟨E, hE⟩ : ∃ E : Nat, (E : Int) = e + 1075 := ⟨(e + 1075).toNat, by omega⟩
    have hEt : (e + 1075).toNat = E := by omega
    have henc : encodePos m e = E * 2 ^ 52 + (m - 2 ^ 52) := by
      simp only [encodePos, hm, if_false, hEt]
    rw [henc]
    refine ⟨?_, by omega⟩
    have h1 : (E == 2047) = false := by rw [beq_eq_false_iff_ne]; omega
    have h2 : (E == 0) = false := by rw [beq_eq_false_iff_ne]; omega
    have b2 : ((0 : Nat) == 1) = false := by decide
    have hex : (E * 2 ^ 52 + (m - 2 ^ 52)) / 2 ^ 52 % 2 ^ 11 = E := by omega
    have hfr : (E * 2 ^ 52 + (m - 2 ^ 52)) % 2 ^ 52 = m - 2 ^ 52 := by omega
    have hsg : (E * 2 ^ 52 + (m - 2 ^ 52)) / 2 ^ 63 % 2 = 0 := by omega
    have e1 : m - 2 ^ 52 + 2 ^ 52 = m := by omega
    have e2 : (E : Int) - 1075 = e := by omega
    unfold decodeNat
    simp only [hex, hfr, hsg, h1, h2, b2, Bool.false_eq_true, if_false, e1, e2]

/-- every positive finite non-zero bit pattern decodes to a valid pair, and is its encoding -/
theorem decodeNat_validFin (bits : Nat) (hb : bits < 2 ^ 63) (m : Nat) (e : Int)
    (hd : decodeNat bits = .fin false m e) (hm : 0 < m) :
    ValidFin m e ∧ encodePos m e = bits := by
  have hex : bits / 2 ^ 52 % 2 ^ 11 = bits / 2 ^ 52 := by omega
  have hdm : bits = bits / 2 ^ 52 * 2 ^ 52 + bits % 2 ^ 52 := by omega
  have hfr : bits % 2 ^ 52 < 2 ^ 52 := by omega
  have hE : bits / 2 ^ 52 < 2 ^ 11 := by omega
  unfold decodeNat at hd
  simp only [hex] at hd
  generalize bits / 2 ^ 52 = E at *
  generalize bits % 2 ^ 52 = F at *
  split at hd
  · split at hd <;> cases hd
  · split at hd
    · rename_i h1 h2
      have hE0 : E = 0 := by simpa using h2
      injection hd with _ hmF heq
      subst hmF; subst heq
      refine ⟨⟨hm, by omega, by omega, by omega, Or.inl rfl⟩, ?_⟩
      simp only [encodePos, hfr, if_true]
      omega
    · rename_i h1 h2
      have hE0 : E ≠ 0 := by simpa using h2
      have hE1 : E ≠ 2047 := by simpa using h1
      injection hd with _ hmF heq
      subst hmF; subst heq
      refine ⟨⟨hm, by omega, by omega, by omega, Or.inr (by omega)⟩, ?_⟩
      have : ¬ (F + 2 ^ 52 < 2 ^ 52) := by omega
      have ht : ((E : Int) - 1075 + 1075).toNat = E := by omega
      simp only [encodePos, this, if_false, ht]
      omega

/-- CORRECT ROUNDING: a fraction inside the rounding interval of a double rounds to that double -/
theorem roundRatPos_of_interval (m : Nat) (e : Int) (hv : ValidFin m e) (num den : Nat)
    (hden : 0 < den) (hin : InInterval m e num den) :
    roundRatPos num den = some (encodePos m e) := by
  obtain ⟨hm0, hm53, he1, he2, hsub⟩ := hv
  obtain ⟨hL, hU, hO⟩ := interval_facts m e he1 num den hin
  have hlow1 : 1 ≤ lowQ m e := by unfold lowQ; split <;> omega
  have hnum : 0 < num := by
    apply Nat.pos_of_ne_zero
    intro h0
    subst h0
    unfold PL at hL
    have := Nat.mul_pos (Nat.mul_pos hlow1 (two_pow_pos (e - 2).toNat)) hden
    omega
  unfold highQ at hU hO
  by_cases hB : isBoundary m e = true ∧ ¬ PL num den (4 * m) (e - 2)
  · -- the fraction is below `2^52·2^e`, in the binade underneath
    obtain ⟨hb, hnl⟩ := hB
    obtain ⟨hm, heb⟩ := (isBoundary_iff m e).1 hb
    have hlq : lowQ m e = 2 * 2 ^ 53 - 1 := by unfold lowQ; rw [if_pos hb]; omega
    have h4m : 4 * m = 2 ^ 54 := by omega
    have hz : e - 1 - 1 = e - 2 := by omega
    rw [hlq] at hL
    rw [h4m] at hnl
    have hr := round_main num den hnum hden (2 ^ 53) (e - 1) (by omega)
      (by rw [hz]; exact hL)
      (by rw [hz]; exact PU_mono _ _ _ _ _ (PU_of_not_PL _ _ _ _ hnl) (by omega))
      (fun h => by omega)
      (by
        intro t ht1 ht2
        have a1 := top_lt' num den 54 (e - 2) t hnl ht1
        have a2 := top_ge num den _ 53 (e - 2) t hL (by omega) ht2
        split <;> omega)
    rw [hr, hm]
    exact finish_renorm e heb he2
  · -- the generic case: lsb exponent `e`, significand `m`
    have hL2 : PL num den (4 * m - 2) (e - 2) := by
      by_cases hb : isBoundary m e = true
      · have : PL num den (4 * m) (e - 2) := Classical.not_not.1 (fun h => hB ⟨hb, h⟩)
        exact PL_mono _ _ _ _ _ this (by omega)
      · unfold lowQ at hL; rw [if_neg hb] at hL; exact hL
    have e1 : 4 * m - 2 = (2 * m - 1) * 2 ^ 1 := by omega
    have e2' : 4 * m + 2 = (2 * m + 1) * 2 ^ 1 := by omega
    have hz : e - 2 + ((1 : Nat) : Int) = e - 1 := by omega
    have hr := round_main num den hnum hden m e (by omega)
      (by rw [e1, PL_shift, hz] at hL2; exact hL2)
      (by rw [e2', PU_shift, hz] at hU; exact hU)
      (by
        intro hp
        have hnb : ¬ isBoundary m e = true := by
          intro hb; have := ((isBoundary_iff m e).1 hb).1; omega
        obtain ⟨o1, o2⟩ := hO hp
        unfold lowQ at o1; rw [if_neg hnb] at o1
        rw [e1, PU_shift, hz] at o1
        rw [e2', PL_shift, hz] at o2
        exact ⟨o1, o2⟩)
      (by
        intro t ht1 ht2
        have a1 := top_lt num den _ 55 (e - 2) t hden hU (by omega) ht1
        by_cases hee : e = -1074
        · split <;> omega
        · have hm52 : 2 ^ 52 ≤ m := by omega
          have a2 : e - 2 + ((54 : Nat) : Int) ≤ t := by
            by_cases hm' : m = 2 ^ 52
            · have hb : isBoundary m e = true := (isBoundary_iff m e).2 ⟨hm', by omega⟩
              have : PL num den (4 * m) (e - 2) := Classical.not_not.1 (fun h => hB ⟨hb, h⟩)
              exact top_ge num den _ 54 (e - 2) t this (by omega) ht2
            · exact top_ge num den _ 54 (e - 2) t hL2 (by omega) ht2
          split <;> omega)
    rw [hr]
    by_cases hm52 : m < 2 ^ 52
    · exact finish_sub m e hm52
    · exact finish_norm m e (by omega) hm53 he1 he2

end Cel.F64
