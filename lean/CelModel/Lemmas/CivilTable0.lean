import CelModel.Lemmas.CivilCheck
/-! era tables, chunk 0 of 16: kernel evaluation by `decide +kernel` -/
namespace Cel.Time.Table
set_option maxRecDepth 100000 in
theorem doeChunk0 : checkRange checkDoe 0 9132 = true := by decide +kernel
set_option maxRecDepth 100000 in
theorem ymdChunk0 : checkRange checkYmd 0 9300 = true := by decide +kernel
end Cel.Time.Table
