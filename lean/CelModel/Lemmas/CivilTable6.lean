import CelModel.Lemmas.CivilCheck
/-! era tables, chunk 6 of 16: kernel evaluation by `decide +kernel` -/
namespace Cel.Time.Table
set_option maxRecDepth 100000 in
theorem doeChunk6 : checkRange checkDoe 54792 9132 = true := by decide +kernel
set_option maxRecDepth 100000 in
theorem ymdChunk6 : checkRange checkYmd 55800 9300 = true := by decide +kernel
end Cel.Time.Table
