import CelModel.Time
/-!
# Lemmas about duration text: decimal digits, `fmtFrac`, `takeTerm`, `formatMag`
(support for `CelModel/Props/C15.lean`)
-/
namespace Cel.Dur

/-! ## digit characters -/

theorem isDigit_iff (c : Char) : isDigit c = true ↔ ('0' ≤ c ∧ c ≤ '9') := by
  simp [isDigit]

theorem isDigit_false_iff (c : Char) : isDigit c = false ↔ ¬ ('0' ≤ c ∧ c ≤ '9') := by
  rw [← isDigit_iff]; simp

theorem isDigit_toNat (c : Char) : isDigit c = true ↔ (48 ≤ c.toNat ∧ c.toNat ≤ 57) := by
  rw [isDigit_iff, Char.le_def, Char.le_def]
  rfl

theorem digitChar_eq_nat (d : Nat) (h : d < 10) : digitChar d = Nat.digitChar d := by
  have : d = 0 ∨ d = 1 ∨ d = 2 ∨ d = 3 ∨ d = 4 ∨ d = 5 ∨ d = 6 ∨ d = 7 ∨ d = 8 ∨ d = 9 := by omega
  rcases this with h | h | h | h | h | h | h | h | h | h <;> subst h <;> rfl

theorem digitChar_toNat (d : Nat) (h : d < 10) : (digitChar d).toNat - 48 = d := by
  rw [digitChar_eq_nat d h]; exact Nat.toNat_digitChar_sub_48_of_lt_ten h

theorem isDigit_digitChar (d : Nat) (h : d < 10) : isDigit (digitChar d) = true := by
  have : d = 0 ∨ d = 1 ∨ d = 2 ∨ d = 3 ∨ d = 4 ∨ d = 5 ∨ d = 6 ∨ d = 7 ∨ d = 8 ∨ d = 9 := by omega
  rcases this with h | h | h | h | h | h | h | h | h | h <;> subst h <;> rfl

/-! ## `takeDigits` -/

theorem takeDigits_cons_digit (c : Char) (cs : Str) (h : isDigit c = true) :
    takeDigits (c :: cs) = (c :: (takeDigits cs).1, (takeDigits cs).2) := by
  simp [takeDigits, h]

theorem takeDigits_cons_nondigit (c : Char) (cs : Str) (h : isDigit c = false) :
    takeDigits (c :: cs) = ([], c :: cs) := by
  simp [takeDigits, h]

/-- `rest` does not start with a digit -/
def NoDigitHead (rest : Str) : Prop := ∀ c, rest.head? = some c → isDigit c = false

theorem takeDigits_noDigitHead (rest : Str) (h : NoDigitHead rest) : takeDigits rest = ([], rest) := by
  cases rest with
  | nil => rfl
  | cons c cs => exact takeDigits_cons_nondigit c cs (h c rfl)

theorem takeDigits_append (ds rest : Str) (hds : ∀ c ∈ ds, isDigit c = true)
    (hrest : NoDigitHead rest) : takeDigits (ds ++ rest) = (ds, rest) := by
  induction ds with
  | nil => exact takeDigits_noDigitHead rest hrest
  | cons d ds ih =>
    have hd : isDigit d = true := hds d (List.mem_cons_self ..)
    have ih' := ih (fun c hc => hds c (List.mem_cons_of_mem _ hc))
    rw [List.cons_append, takeDigits_cons_digit d _ hd, ih']

theorem takeDigits_spec (s : Str) :
    s = (takeDigits s).1 ++ (takeDigits s).2 ∧ (∀ c ∈ (takeDigits s).1, isDigit c = true) ∧
      NoDigitHead (takeDigits s).2 := by
  induction s with
  | nil => refine ⟨rfl, ?_, ?_⟩ <;> simp [takeDigits, NoDigitHead]
  | cons c cs ih =>
    cases hc : isDigit c with
    | true =>
      rw [takeDigits_cons_digit c cs hc]
      obtain ⟨h1, h2, h3⟩ := ih
      refine ⟨?_, ?_, h3⟩
      · simp only [List.cons_append]; rw [← h1]
      · intro x hx
        rcases List.mem_cons.1 hx with rfl | hx
        · exact hc
        · exact h2 x hx
    | false =>
      rw [takeDigits_cons_nondigit c cs hc]
      refine ⟨rfl, by simp, ?_⟩
      intro x hx
      simp only [List.head?_cons, Option.some.injEq] at hx
      subst hx; exact hc

/-! ## `digitsToNat` -/

theorem digitsToNat_nil : digitsToNat [] = 0 := rfl

theorem digitsToNat_snoc (ds : Str) (c : Char) :
    digitsToNat (ds ++ [c]) = digitsToNat ds * 10 + (c.toNat - 48) := by
  simp [digitsToNat, List.foldl_append]

/-! ## decimal text of naturals -/

theorem natToDec_eq (n : Nat) : natToDec n = Nat.toDigits 10 n := by
  unfold natToDec
  rw [Nat.toString_eq_repr, Nat.toList_repr]

theorem natToDec_ne_nil (n : Nat) : natToDec n ≠ [] := by
  rw [natToDec_eq]; exact Nat.toDigits_ne_nil

theorem natToDec_digits (n : Nat) : ∀ c ∈ natToDec n, isDigit c = true := by
  intro c hc
  rw [natToDec_eq] at hc
  have := Nat.isDigit_of_mem_toDigits (by decide) (by decide) hc
  rw [isDigit_toNat]
  simp only [Char.isDigit, Bool.and_eq_true, decide_eq_true_eq] at this
  exact ⟨UInt32.le_iff_toNat_le.1 this.1, UInt32.le_iff_toNat_le.1 this.2⟩

theorem digitsToNat_natToDec (n : Nat) : digitsToNat (natToDec n) = n := by
  induction n using Nat.strongRecOn with
  | _ n ih =>
    rw [natToDec_eq]
    by_cases h : n < 10
    · rw [Nat.toDigits_of_lt_base h, ← digitChar_eq_nat n h]
      show 0 * 10 + ((digitChar n).toNat - 48) = n
      rw [digitChar_toNat n h]; omega
    · have h10 : 10 ≤ n := by omega
      rw [Nat.toDigits_of_base_le (by decide) h10, digitsToNat_snoc, ← natToDec_eq,
        ih (n / 10) (by omega), ← digitChar_eq_nat _ (Nat.mod_lt _ (by decide)),
        digitChar_toNat _ (Nat.mod_lt _ (by decide))]
      omega

theorem natToDec_cons (n : Nat) : ∃ c cs, natToDec n = c :: cs ∧ isDigit c = true := by
  cases h : natToDec n with
  | nil => exact absurd h (natToDec_ne_nil n)
  | cons c cs =>
    refine ⟨c, cs, rfl, ?_⟩
    exact natToDec_digits n c (by rw [h]; exact List.mem_cons_self ..)

/-! ## `fmtFrac` -/

/-- the `prec` low decimal digits of `v`, zero padded -/
def pad : Nat → Nat → Str
  | 0, _ => []
  | prec + 1, v => pad prec (v / 10) ++ [digitChar (v % 10)]

/-- the `prec` low decimal digits of `v` with trailing zeros trimmed -/
def frac : Nat → Nat → Str
  | 0, _ => []
  | prec + 1, v => if v % 10 = 0 then frac prec (v / 10) else pad (prec + 1) v

/-- the fraction text: nothing, or a point and the trimmed digits -/
def fracStr (prec v : Nat) : Str := if frac prec v = [] then [] else '.' :: frac prec v

theorem pad_length (prec v : Nat) : (pad prec v).length = prec := by
  induction prec generalizing v with
  | zero => rfl
  | succ p ih => simp [pad, ih]

theorem pad_digits (prec v : Nat) : ∀ c ∈ pad prec v, isDigit c = true := by
  induction prec generalizing v with
  | zero => simp [pad]
  | succ p ih =>
    intro c hc
    simp only [pad, List.mem_append, List.mem_singleton] at hc
    rcases hc with hc | rfl
    · exact ih _ c hc
    · exact isDigit_digitChar _ (Nat.mod_lt _ (by decide))

theorem pad_value (prec v : Nat) : digitsToNat (pad prec v) = v % 10 ^ prec := by
  induction prec generalizing v with
  | zero => simp [pad, digitsToNat, Nat.mod_one]
  | succ p ih =>
    rw [pad, digitsToNat_snoc, ih, digitChar_toNat _ (Nat.mod_lt _ (by decide)),
      Nat.pow_succ, Nat.mul_comm (10 ^ p) 10, Nat.mod_mul]
    omega

theorem fmtFrac_true (prec v : Nat) (acc : Str) :
    fmtFrac prec v true acc = ('.' :: (pad prec v ++ acc), v / 10 ^ prec) := by
  induction prec generalizing v acc with
  | zero => simp [fmtFrac, pad]
  | succ p ih =>
    simp only [fmtFrac, Bool.true_or, if_true]
    rw [ih, pad, Nat.pow_succ, Nat.mul_comm (10 ^ p) 10, Nat.div_div_eq_div_mul]
    simp

theorem fmtFrac_false (prec v : Nat) (acc : Str) :
    fmtFrac prec v false acc =
      (if frac prec v = [] then acc else '.' :: (frac prec v ++ acc), v / 10 ^ prec) := by
  induction prec generalizing v acc with
  | zero => simp [fmtFrac, frac]
  | succ p ih =>
    by_cases h : v % 10 = 0
    · simp only [fmtFrac, frac, h, Bool.false_or, bne_self_eq_false, if_true]
      rw [show (if false = true then digitChar 0 :: acc else acc) = acc from rfl, ih,
        Nat.pow_succ, Nat.mul_comm (10 ^ p) 10, Nat.div_div_eq_div_mul]
    · have hb : (v % 10 != 0) = true := by simp [h]
      simp only [fmtFrac, frac, h, Bool.false_or, hb, if_true, if_false]
      rw [fmtFrac_true, Nat.pow_succ, Nat.mul_comm (10 ^ p) 10, Nat.div_div_eq_div_mul]
      have hne : pad (p + 1) v ≠ [] := by
        intro h0
        have := pad_length (p + 1) v
        rw [h0] at this; simp at this
      simp [pad]

theorem fmtFrac_eq (prec v : Nat) : fmtFrac prec v false [] = (fracStr prec v, v / 10 ^ prec) := by
  rw [fmtFrac_false]; simp [fracStr]

theorem frac_length (prec v : Nat) : (frac prec v).length ≤ prec := by
  induction prec generalizing v with
  | zero => simp [frac]
  | succ p ih =>
    simp only [frac]
    split
    · exact Nat.le_succ_of_le (ih _)
    · rw [pad_length]; exact Nat.le_refl _

theorem frac_digits (prec v : Nat) : ∀ c ∈ frac prec v, isDigit c = true := by
  induction prec generalizing v with
  | zero => simp [frac]
  | succ p ih =>
    simp only [frac]
    split
    · exact ih _
    · exact pad_digits _ _

/-- the trimmed digits denote the low `prec` digits of `v` once the trimmed zeros are restored -/
theorem frac_value (prec v : Nat) :
    digitsToNat (frac prec v) * 10 ^ (prec - (frac prec v).length) = v % 10 ^ prec := by
  induction prec generalizing v with
  | zero => simp [frac, digitsToNat, Nat.mod_one]
  | succ p ih =>
    simp only [frac]
    split
    · next h =>
      have hl := frac_length p (v / 10)
      rw [show p + 1 - (frac p (v / 10)).length = (p - (frac p (v / 10)).length) + 1 by omega,
        Nat.pow_succ, ← Nat.mul_assoc, ih, Nat.pow_succ, Nat.mul_comm (10 ^ p) 10, Nat.mod_mul]
      omega
    · rw [pad_length, Nat.sub_self, Nat.pow_zero, Nat.mul_one, pad_value]

theorem frac_eq_nil_of_mod (prec v : Nat) (h : v % 10 ^ prec = 0) : frac prec v = [] := by
  induction prec generalizing v with
  | zero => rfl
  | succ p ih =>
    rw [Nat.pow_succ, Nat.mul_comm (10 ^ p) 10, Nat.mod_mul] at h
    have h1 : v % 10 = 0 := by omega
    have h2 : v / 10 % 10 ^ p = 0 := by omega
    simp only [frac, h1, if_true]
    exact ih _ h2

/-- the value the parser assigns to the fraction digits against the unit `10 ^ prec` -/
theorem frac_term_value (prec v : Nat) :
    digitsToNat (frac prec v) * 10 ^ prec / 10 ^ (frac prec v).length = v % 10 ^ prec := by
  have hl := frac_length prec v
  have hv := frac_value prec v
  have hp : (10 : Nat) ^ prec = 10 ^ (prec - (frac prec v).length) * 10 ^ (frac prec v).length := by
    rw [← Nat.pow_add]; congr 1; omega
  rw [← hv]
  generalize digitsToNat (frac prec v) = D at *
  rw [hp, ← Nat.mul_assoc, Nat.mul_div_cancel _ (Nat.pow_pos (by decide))]

/-! ## `takeTerm` -/

/-- the text starts with neither a digit nor a point -/
def UnitHead (r : Str) : Prop := ∀ c, r.head? = some c → isDigit c = false ∧ c ≠ '.'

theorem UnitHead.noDigit {r : Str} (h : UnitHead r) : NoDigitHead r := fun c hc => (h c hc).1

theorem takeUnit_nil : takeUnit [] = none := rfl

/-- the optional fraction of a term (the inner `match` of `takeTerm`) -/
def fracPart (r1 : Str) : Str × Str :=
  match r1 with
  | '.' :: r => takeDigits r
  | r => ([], r)

theorem takeTerm_def (s : Str) :
    takeTerm s =
      (if (takeDigits s).1.isEmpty && (fracPart (takeDigits s).2).1.isEmpty then none else
        match takeUnit (fracPart (takeDigits s).2).2 with
        | none => none
        | some (unit, rest) =>
          some (digitsToNat (takeDigits s).1 * unit +
            digitsToNat ((fracPart (takeDigits s).2).1.take 18) * unit /
              10 ^ ((fracPart (takeDigits s).2).1.take 18).length, rest)) := rfl

theorem fracPart_dot (r : Str) : fracPart ('.' :: r) = takeDigits r := rfl

theorem fracPart_unitHead (r : Str) (h : UnitHead r) : fracPart r = ([], r) := by
  cases r with
  | nil => rfl
  | cons c cs =>
    have hc : c ≠ '.' := (h c rfl).2
    unfold fracPart
    split
    · next r' heq => cases heq; exact absurd rfl hc
    · rfl

theorem takeTerm_int (ip r2 : Str) (unit : Nat) (rest : Str)
    (hi : ∀ c ∈ ip, isDigit c = true) (hne : ip ≠ []) (hh : UnitHead r2)
    (hu : takeUnit r2 = some (unit, rest)) :
    takeTerm (ip ++ r2) = some (digitsToNat ip * unit, rest) := by
  rw [takeTerm_def, takeDigits_append ip r2 hi hh.noDigit]
  simp only [fracPart_unitHead r2 hh, hu]
  have : ip.isEmpty = false := by cases ip <;> simp_all
  simp [this, digitsToNat]

theorem takeTerm_frac (ip fp r2 : Str) (unit : Nat) (rest : Str)
    (hi : ∀ c ∈ ip, isDigit c = true) (hf : ∀ c ∈ fp, isDigit c = true)
    (hne : ip ≠ [] ∨ fp ≠ []) (hh : NoDigitHead r2)
    (hu : takeUnit r2 = some (unit, rest)) :
    takeTerm (ip ++ '.' :: (fp ++ r2)) =
      some (digitsToNat ip * unit +
        digitsToNat (fp.take 18) * unit / 10 ^ (fp.take 18).length, rest) := by
  have hdot : NoDigitHead ('.' :: (fp ++ r2)) := by
    intro c hc
    simp only [List.head?_cons, Option.some.injEq] at hc
    subst hc; rfl
  rw [takeTerm_def, takeDigits_append ip _ hi hdot]
  simp only [fracPart_dot, takeDigits_append fp r2 hf hh, hu]
  have : (ip.isEmpty && fp.isEmpty) = false := by
    rcases hne with h | h
    · cases ip <;> simp_all
    · cases fp <;> simp_all
  simp [this]

end Cel.Dur
