import CelModel.ArcHeap
/-!
# Lemmas about the reference-counted heap model (`Cel.ArcHeap`) and thread systems (`Cel.Threads`)
-/
namespace Cel.ArcHeap

/-! ## association list -/

theorem lookup_update (m : List (Addr × Cell)) (a : Addr) (c : Cell) (b : Addr) :
    lookup (update m a c) b = if b = a then some c else lookup m b := by
  induction m with
  | nil =>
    by_cases h : b = a
    · subst h; simp [update, lookup]
    · have h' : ¬ a = b := fun e => h e.symm
      simp [update, lookup, h, h']
  | cons x rest ih =>
    obtain ⟨a', c'⟩ := x
    by_cases hk : a' = a
    · subst hk
      by_cases h : b = a'
      · subst h; simp [update, lookup]
      · have h' : ¬ a' = b := fun e => h e.symm
        simp [update, lookup, h, h']
    · by_cases hm : a' = b
      · subst hm
        simp [update, lookup, hk]
      · simp [update, lookup, hk, hm, ih]

theorem lookup_update_self (m : List (Addr × Cell)) (a : Addr) (c : Cell) :
    lookup (update m a c) a = some c := by
  simp [lookup_update]

theorem lookup_update_ne (m : List (Addr × Cell)) (a : Addr) (c : Cell) (b : Addr) (h : b ≠ a) :
    lookup (update m a c) b = lookup m b := by
  simp [lookup_update, h]

/-! ## multiset of handles -/

theorem count_removeOne (l : List Addr) (x y : Addr) :
    (removeOne l x).count y = if y = x then l.count y - 1 else l.count y := by
  induction l with
  | nil => simp [removeOne]
  | cons a rest ih =>
    by_cases hax : a = x
    · subst hax
      by_cases hy : y = a
      · subst hy; simp [removeOne]
      · have hy' : ¬ a = y := fun e => hy e.symm
        simp [removeOne, hy, hy']
    · by_cases hy : y = x
      · subst hy
        simp [removeOne, hax, ih]
      · simp [removeOne, hax, List.count_cons, ih, hy]

theorem mem_iff_count_pos (l : List Addr) (a : Addr) : a ∈ l ↔ 0 < l.count a :=
  List.count_pos_iff.symm

theorem mem_of_mem_removeOne {l : List Addr} {x a : Addr} (h : a ∈ removeOne l x) : a ∈ l := by
  rw [mem_iff_count_pos] at h ⊢
  rw [count_removeOne] at h
  split at h <;> omega

theorem mem_removeOne_of_ne {l : List Addr} {x a : Addr} (h : a ∈ l) (hne : a ≠ x) :
    a ∈ removeOne l x := by
  rw [mem_iff_count_pos] at h ⊢
  rw [count_removeOne]
  simp [hne, h]

/-- if `a` survives the removal of one `x`, and `x` occurred at most once, then `a ≠ x` -/
theorem ne_of_mem_removeOne_of_count_le_one {l : List Addr} {x a : Addr}
    (h : a ∈ removeOne l x) (hc : l.count x ≤ 1) : a ≠ x := by
  intro e
  subst e
  rw [mem_iff_count_pos, count_removeOne] at h
  simp at h
  omega

/-! ## reads: only `concat`'s in-place branch and `alloc` ever change a payload -/

theorem read_drop (s : State) (h a : Addr) : read (drop s h) a = read s a := by
  unfold drop
  cases hc : lookup s.heap h with
  | none => rfl
  | some c =>
    simp only [read, lookup_update]
    by_cases e : a = h
    · subst e; simp [hc]
    · simp [e]

theorem read_clone (s : State) (h a : Addr) : read (clone s h) a = read s a := by
  unfold clone
  cases hc : lookup s.heap h with
  | none => rfl
  | some c =>
    simp only [read, lookup_update]
    by_cases e : a = h
    · subst e; simp [hc]
    · simp [e]

theorem read_alloc_self (s : State) (p : List Nat) : read (alloc s p).1 (alloc s p).2 = some p := by
  simp [read, alloc, lookup_update]

theorem read_alloc_ne (s : State) (p : List Nat) (a : Addr) (h : a ≠ s.next) :
    read (alloc s p).1 a = read s a := by
  simp [read, alloc, lookup_update, h]

theorem drop_next (s : State) (h : Addr) : (drop s h).next = s.next := by
  unfold drop
  cases lookup s.heap h <;> rfl

theorem drop_live (s : State) (h : Addr) (c : Cell) (hc : lookup s.heap h = some c) :
    (drop s h).live = removeOne s.live h := by
  unfold drop
  rw [hc]

/-! ## `concat` unfolded -/

theorem concat_unique {s : State} {h1 h2 : Addr} {c1 c2 : Cell}
    (hc1 : lookup s.heap h1 = some c1) (hc2 : lookup s.heap h2 = some c2) (hu : c1.rc = 1) :
    concat s h1 h2 =
      (drop { s with heap := update s.heap h1 { c1 with payload := c1.payload ++ c2.payload } } h2,
        h1) := by
  unfold concat
  rw [hc1, hc2]
  simp [hu]

theorem concat_shared {s : State} {h1 h2 : Addr} {c1 c2 : Cell}
    (hc1 : lookup s.heap h1 = some c1) (hc2 : lookup s.heap h2 = some c2) (hu : c1.rc ≠ 1) :
    concat s h1 h2 =
      (drop (alloc (drop s h1) (c1.payload ++ c2.payload)).1 h2,
        (alloc (drop s h1) (c1.payload ++ c2.payload)).2) := by
  unfold concat
  rw [hc1, hc2]
  simp [hu]

/-! ## the invariant -/

theorem Inv.lookup_of_mem {s : State} (h : Inv s) {a : Addr} (ha : a ∈ s.live) :
    ∃ c, lookup s.heap a = some c := by
  have := h.2.1 a ha
  cases hc : lookup s.heap a with
  | none => simp [hc] at this
  | some c => exact ⟨c, rfl⟩

theorem Inv.lt_next_of_mem {s : State} (h : Inv s) {a : Addr} (ha : a ∈ s.live) : a < s.next := by
  obtain ⟨c, hc⟩ := h.lookup_of_mem ha
  exact h.2.2 a c hc

theorem Inv.next_not_mem {s : State} (h : Inv s) : s.next ∉ s.live := by
  intro hm
  exact Nat.lt_irrefl _ (h.lt_next_of_mem hm)

theorem Inv.alloc {s : State} (h : Inv s) (p : List Nat) : Inv (alloc s p).1 := by
  have hfresh : s.live.count s.next = 0 := List.count_eq_zero.mpr h.next_not_mem
  refine ⟨?_, ?_, ?_⟩
  · intro a c hc
    simp only [ArcHeap.alloc, lookup_update] at hc
    simp only [ArcHeap.alloc]
    by_cases e : a = s.next
    · subst e
      simp at hc
      subst hc
      simp [hfresh]
    · simp only [e, if_false] at hc
      have e' : ¬ s.next = a := fun x => e x.symm
      simp [e', h.1 a c hc]
  · intro a ha
    simp only [ArcHeap.alloc, List.mem_cons] at ha
    simp only [ArcHeap.alloc, lookup_update]
    by_cases e : a = s.next
    · simp [e]
    · simp only [e, if_false]
      rcases ha with ha | ha
      · exact absurd ha e
      · exact h.2.1 a ha
  · intro a c hc
    simp only [ArcHeap.alloc, lookup_update] at hc
    simp only [ArcHeap.alloc]
    by_cases e : a = s.next
    · rw [e]; exact Nat.lt_succ_self _
    · simp only [e, if_false] at hc
      exact Nat.lt_succ_of_lt (h.2.2 a c hc)

theorem Inv.clone {s : State} (h : Inv s) {x : Addr} (hx : x ∈ s.live) : Inv (clone s x) := by
  obtain ⟨cx, hcx⟩ := h.lookup_of_mem hx
  unfold ArcHeap.clone
  rw [hcx]
  refine ⟨?_, ?_, ?_⟩
  · intro a c hc
    simp only [lookup_update] at hc
    by_cases e : a = x
    · subst e
      simp at hc
      subst hc
      simp [h.1 a cx hcx]
    · simp only [e, if_false] at hc
      have e' : ¬ x = a := fun y => e y.symm
      simp [e', h.1 a c hc]
  · intro a ha
    simp only [List.mem_cons] at ha
    simp only [lookup_update]
    by_cases e : a = x
    · simp [e]
    · simp only [e, if_false]
      rcases ha with ha | ha
      · exact absurd ha e
      · exact h.2.1 a ha
  · intro a c hc
    simp only [lookup_update] at hc
    by_cases e : a = x
    · subst e
      exact h.2.2 a cx hcx
    · simp only [e, if_false] at hc
      exact h.2.2 a c hc

theorem Inv.drop {s : State} (h : Inv s) {x : Addr} (hx : x ∈ s.live) : Inv (drop s x) := by
  obtain ⟨cx, hcx⟩ := h.lookup_of_mem hx
  unfold ArcHeap.drop
  rw [hcx]
  refine ⟨?_, ?_, ?_⟩
  · intro a c hc
    simp only [lookup_update] at hc
    simp only [count_removeOne]
    by_cases e : a = x
    · subst e
      simp at hc
      subst hc
      simp [h.1 a cx hcx]
    · simp only [e, if_false] at hc
      simp [e, h.1 a c hc]
  · intro a ha
    simp only [lookup_update]
    by_cases e : a = x
    · simp [e]
    · simp only [e, if_false]
      exact h.2.1 a (mem_of_mem_removeOne ha)
  · intro a c hc
    simp only [lookup_update] at hc
    by_cases e : a = x
    · subst e
      exact h.2.2 a cx hcx
    · simp only [e, if_false] at hc
      exact h.2.2 a c hc

/-- replacing the payload of a cell (count unchanged) keeps the invariant -/
theorem Inv.setPayload {s : State} (h : Inv s) {x : Addr} {cx : Cell}
    (hcx : lookup s.heap x = some cx) (p : List Nat) :
    Inv { s with heap := update s.heap x { cx with payload := p } } := by
  refine ⟨?_, ?_, ?_⟩
  · intro a c hc
    simp only [lookup_update] at hc
    by_cases e : a = x
    · subst e
      simp at hc
      subst hc
      exact h.1 a cx hcx
    · simp only [e, if_false] at hc
      exact h.1 a c hc
  · intro a ha
    simp only [lookup_update]
    by_cases e : a = x
    · simp [e]
    · simp only [e, if_false]
      exact h.2.1 a ha
  · intro a c hc
    simp only [lookup_update] at hc
    by_cases e : a = x
    · subst e
      exact h.2.2 a cx hcx
    · simp only [e, if_false] at hc
      exact h.2.2 a c hc

end Cel.ArcHeap

namespace Cel.Threads

theorem iterate_succ (f : α → α) (n : Nat) (x : α) : iterate f (n + 1) x = iterate f n (f x) := rfl

theorem run_shared {σ τ : Type} (step : σ → τ → τ) (sys : System σ τ) (sched : List Nat) :
    (run step sys sched).shared = sys.shared := by
  induction sched generalizing sys with
  | nil => rfl
  | cons j rest ih =>
    simp only [run]
    rw [ih]
    rfl

theorem run_locals_getElem? {σ τ : Type} (step : σ → τ → τ) (sys : System σ τ) (sched : List Nat)
    (i : Nat) :
    (run step sys sched).locals[i]? =
      (sys.locals[i]?).map (iterate (step sys.shared) (sched.count i)) := by
  induction sched generalizing sys with
  | nil =>
    simp only [run, List.count_nil]
    cases sys.locals[i]? <;> rfl
  | cons j rest ih =>
    simp only [run]
    rw [ih]
    simp only [stepThread, List.getElem?_modify, List.count_cons]
    by_cases e : j = i
    · subst e
      cases sys.locals[j]? <;> simp [iterate_succ]
    · cases sys.locals[i]? <;> simp [e]

end Cel.Threads
