import CelModel.Lemmas.F64Interval
import CelModel.Lemmas.F64DigitsAsm
/-!
# Shortest-digit generation stays inside the rounding interval (Burger–Dybvig free-format)
-/
namespace Cel.F64

/-- the digits `shortestDigits` produces for a positive finite double are decimal digits, there is
at least one, the decimal exponent is moderate, and the number they spell — `0.d₁…dₙ × 10^k` —
lies in the double's rounding interval -/
theorem shortestDigits_spec (m : Nat) (e : Int) (hv : ValidFin m e) :
    (shortestDigits m e).2 ≠ [] ∧
    (∀ d ∈ (shortestDigits m e).2, d < 10) ∧
    (shortestDigits m e).1 ≤ 330 ∧
    InInterval m e (fracOfDigits (shortestDigits m e).2 (shortestDigits m e).1).1
                   (fracOfDigits (shortestDigits m e).2 (shortestDigits m e).1).2 := by
  obtain ⟨r, s, mp, mm, hset, hs, hmp, hlo, hhi, hgap⟩ := bdSetup_spec m e hv
  have hv' := hv
  obtain ⟨hm0, hm53, he1, he2, _⟩ := hv'
  have hH : highQ m < 2 ^ 55 := by unfold highQ; omega
  have hU1 : 0 < unit4 e := Nat.pow_pos (by decide)
  have hU : unit4 e ≤ 2 ^ 2045 := by
    unfold unit4; apply Nat.pow_le_pow_right (by decide); omega
  obtain ⟨hb1, hb2⟩ := bd_bounds r s mp (unit4 e) (highQ m) hs hH hU1 hU hhi hgap
  rw [shortestDigits_eq m e r s mp mm hset]
  obtain ⟨h1, h2, h3, _, h5, h6⟩ := bdCore_spec (m % 2 == 0) r s mp mm hs hmp hb1 hb2
  exact ⟨h1, h2, h3, inInterval_of_frac m e r s mp mm _ _ hs hlo hhi h5 h6⟩

end Cel.F64
