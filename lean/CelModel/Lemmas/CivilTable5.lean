import CelModel.Lemmas.CivilCheck
/-! era tables, chunk 5 of 16: kernel evaluation by `decide +kernel` -/
namespace Cel.Time.Table
set_option maxRecDepth 100000 in
theorem doeChunk5 : checkRange checkDoe 45660 9132 = true := by decide +kernel
set_option maxRecDepth 100000 in
theorem ymdChunk5 : checkRange checkYmd 46500 9300 = true := by decide +kernel
end Cel.Time.Table
