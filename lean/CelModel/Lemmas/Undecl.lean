import CelModel.Lemmas.Sat
import CelModel.Props.C11
/-!
# Where "undeclared reference" errors can come from

A panic-tolerant variant of the `Sat` calculus (`SatP`), the fact that no value-level operator
or built-in ever produces `ErrC.undeclared`, and the resulting rules for `extract`, `applyFn`,
`callNode` and `loopG`: an error of a call node is an error of one of its operand computations,
or a non-`undeclared` error, or `undeclared f` for the node's own name when the function
registry is actually consulted.
-/
namespace Cel

/-! ## the panic-tolerant triple -/

/-- partial-correctness triple: value post-condition `Q`, error post-condition `E`, panics
tolerated (so the rules apply to arbitrary trees, `Expr.unspecified` included) -/
def SatP (m : M β α) (Q : α → Prop) (E : ErrC → Prop) : Prop :=
  ∀ s, match m s with
    | (.ok a, _) => Q a
    | (.err e, _) => E e
    | (.panic _, _) => True

namespace SatP

theorem pure {a : α} {Q : α → Prop} {E : ErrC → Prop} (h : Q a) :
    SatP (Pure.pure a : M β α) Q E := by
  intro s; exact h

theorem throw {e : ErrC} {Q : α → Prop} {E : ErrC → Prop} (h : E e) :
    SatP (M.throw e : M β α) Q E := by
  intro s; exact h

theorem panic {p : String} {Q : α → Prop} {E : ErrC → Prop} :
    SatP (M.panic p : M β α) Q E := by
  intro s; trivial

theorem lift {o : Outcome α} {Q : α → Prop} {E : ErrC → Prop}
    (h : match o with | .ok a => Q a | .err e => E e | .panic _ => True) :
    SatP (M.lift o : M β α) Q E := by
  intro s
  cases o <;> exact h

theorem bind {m : M β α} {f : α → M β γ} {Q : α → Prop} {R : γ → Prop} {E : ErrC → Prop}
    (hm : SatP m Q E) (hf : ∀ a, Q a → SatP (f a) R E) : SatP (m >>= f) R E := by
  intro s
  have h1 := hm s
  rw [M.bind_apply]
  split at h1
  · rename_i a s' heq; rw [heq]; exact hf a h1 s'
  · rename_i e s' heq; rw [heq]; exact h1
  · rename_i p s' heq; rw [heq]; trivial

theorem weaken {m : M β α} {Q Q' : α → Prop} {E E' : ErrC → Prop}
    (h : SatP m Q E) (hq : ∀ a, Q a → Q' a) (he : ∀ e, E e → E' e) : SatP m Q' E' := by
  intro s
  have := h s
  split at this
  · exact hq _ this
  · exact he _ this
  · trivial

theorem tick {Q : Unit → Prop} {E : ErrC → Prop} (h : Q ()) : SatP (M.tick : M β Unit) Q E := by
  intro s; exact h

theorem logCall {c : Call β} {Q : Unit → Prop} {E : ErrC → Prop} (h : Q ()) :
    SatP (M.logCall c : M β Unit) Q E := by
  intro s; exact h

theorem tick_bind {f : Unit → M β γ} {R : γ → Prop} {E : ErrC → Prop} (h : SatP (f ()) R E) :
    SatP (M.tick >>= f) R E :=
  bind (Q := Any) (tick trivial) (fun _ _ => h)

/-- what a triple says about one failing run -/
theorem err_of_run {m : M β α} {Q : α → Prop} {E : ErrC → Prop} (h : SatP m Q E)
    {s s' : St β} {e : ErrC} (hr : m s = (.err e, s')) : E e := by
  have := h s
  rw [hr] at this
  exact this

end SatP

/-! ## errors that are not "undeclared reference" -/

def ErrC.isUndecl : ErrC → Bool
  | .undeclared _ => true
  | _ => false

def Outcome.isUndecl : Outcome α → Bool
  | .err e => e.isUndecl
  | _ => false

/-- an error predicate that accepts every error other than `undeclared` -/
def Good (P : ErrC → Prop) : Prop := ∀ e, e.isUndecl = false → P e

theorem SatP.lift_good {o : Outcome α} {P : ErrC → Prop} (hP : Good P) (h : o.isUndecl = false) :
    SatP (M.lift o : M β α) Any P := by
  apply SatP.lift
  cases o with
  | ok _ => trivial
  | err e => exact hP e h
  | panic _ => trivial

theorem SatP.throw_good {e : ErrC} {P : ErrC → Prop} (hP : Good P) (h : e.isUndecl = false) :
    SatP (M.throw e : M β α) Any P :=
  SatP.throw (hP e h)

namespace NoUndecl

theorem map_isUndecl (f : α → β) (o : Outcome α) : (o.map f).isUndecl = o.isUndecl := by
  cases o <;> rfl

theorem intArith (op : ArithOp) (a b : Int) : (intArith op a b).isUndecl = false := by
  cases op <;> simp only [Cel.intArith, chk] <;> (repeat' split) <;> rfl

theorem uintArith (op : ArithOp) (a b : Int) : (uintArith op a b).isUndecl = false := by
  cases op <;> simp only [Cel.uintArith, chk] <;> (repeat' split) <;> rfl

theorem arith (op : ArithOp) (a b : Value) : (arith op a b).isUndecl = false := by
  cases a <;> cases b <;>
    first
    | (simp only [Cel.arith, map_isUndecl, NoUndecl.intArith, NoUndecl.uintArith]; done)
    | (simp only [Cel.arith]; rfl)
    | (cases op <;> simp only [Cel.arith] <;> (repeat' split) <;> rfl)

theorem relOp (op : BinOp) (a b : Value) : (relOp op a b).isUndecl = false := by
  unfold Cel.relOp
  split
  · rfl
  · cases op <;> rfl

theorem inOp (a b : Value) : (inOp a b).isUndecl = false := by
  unfold Cel.inOp
  split
  · rfl
  · rfl
  · split <;> rfl
  · rfl

theorem indexOp (a b : Value) : (indexOp a b).isUndecl = false := by
  unfold Cel.indexOp
  split
  · split <;> rfl
  · split
    · split <;> rfl
    · rfl
  all_goals rfl

theorem applyBin (op : BinOp) (a b : Value) : (applyBin op a b).isUndecl = false := by
  cases op <;> simp only [Cel.applyBin] <;>
    first
    | exact NoUndecl.arith _ _ _
    | exact NoUndecl.relOp _ _ _
    | exact NoUndecl.inOp _ _
    | exact NoUndecl.indexOp _ _
    | rfl

theorem applyUn (op : UnOp) (v : Value) : (applyUn op v).isUndecl = false := by
  cases op
  · rfl
  · cases v <;> simp only [Cel.applyUn] <;> try rfl
    rw [map_isUndecl]
    simp only [intNeg, chk]
    split <;> rfl
  · cases v <;> rfl

theorem sizeFn (v : Value) : (sizeFn v).isUndecl = false := by
  cases v <;> rfl

theorem containsFn (t a : Value) : (containsFn t a).isUndecl = false := by
  unfold Cel.containsFn
  split
  · rfl
  · split <;> rfl
  · split <;> rfl
  · split <;> rfl
  · rfl

theorem stringFn (v : Value) : (stringFn v).isUndecl = false := by
  cases v <;> rfl

theorem doubleFn (v : Value) : (doubleFn v).isUndecl = false := by
  cases v <;> simp only [Cel.doubleFn] <;> (repeat' split) <;> rfl

theorem uintFn (v : Value) : (uintFn v).isUndecl = false := by
  cases v <;> simp only [Cel.uintFn] <;> (repeat' split) <;> rfl

theorem intFn (v : Value) : (intFn v).isUndecl = false := by
  cases v <;> simp only [Cel.intFn] <;> (repeat' split) <;> rfl

theorem extremumFold (g : Bool) (acc : Value) (xs : List Value) :
    (extremumFold g acc xs).isUndecl = false := by
  induction xs generalizing acc with
  | nil => rfl
  | cons x xs ih =>
    unfold Cel.extremumFold
    split
    · rfl
    · exact ih _

theorem extremumFn (g : Bool) (args : List Value) : (extremumFn g args).isUndecl = false := by
  unfold Cel.extremumFn
  split <;> dsimp only <;> (try split) <;> (first | rfl | exact NoUndecl.extremumFold _ _ _)

/-- no built-in, on any parameter list, reports an undeclared reference -/
theorem applyBuiltin (ctx : Ctx) (b : Builtin) (ps : List Value) :
    (applyBuiltin ctx b ps).isUndecl = false := by
  unfold Cel.applyBuiltin
  split <;>
    first
    | rfl
    | exact NoUndecl.sizeFn _
    | exact NoUndecl.containsFn _ _
    | exact NoUndecl.extremumFn _ _
    | exact NoUndecl.stringFn _
    | exact NoUndecl.doubleFn _
    | exact NoUndecl.intFn _
    | exact NoUndecl.uintFn _
    | (split <;> rfl)

theorem fromValue (t : ExtTy) (v : Value) : (fromValue t v).isUndecl = false := by
  cases t <;> cases v <;> rfl

theorem fromValueOpt (t : ExtTy) (v : Value) : (fromValueOpt t v).isUndecl = false := by
  unfold Cel.fromValueOpt
  split
  · rfl
  · exact NoUndecl.fromValue _ _

theorem member (ctx : Ctx) (v : Value) (field : Str) : (member ctx v field).isUndecl = false := by
  unfold Cel.member
  dsimp only
  split
  · rfl
  · split <;> rfl

end NoUndecl

/-! ## argument extraction, function application, call nodes -/

section
variable {P : ErrC → Prop}

theorem runAll_satP (thunks : List (EvalM Value)) (hth : ∀ t ∈ thunks, SatP t Any P) :
    SatP (runAll thunks) Any P := by
  induction thunks with
  | nil => exact SatP.pure trivial
  | cons t ts ih =>
    unfold runAll
    apply SatP.bind (hth t (List.mem_cons_self ..)); intro v _
    apply SatP.bind (ih (fun t' h => hth t' (List.mem_cons_of_mem _ h))); intro vs _
    exact SatP.pure trivial

/-- an error of `extract` is an error of one of the argument computations or is not an
undeclared-reference error -/
theorem extract_satP (hP : Good P) (this : Option Value) (thunks : List (EvalM Value))
    (argEs : List Expr) (hth : ∀ t ∈ thunks, SatP t Any P) (sig : List Extractor) (idx : Nat) :
    SatP (extract this thunks argEs sig idx) Any P := by
  induction sig generalizing idx with
  | nil => unfold extract; exact SatP.pure trivial
  | cons ex rest ih =>
    unfold extract
    apply SatP.bind (Q := Any)
    · cases ex with
      | this t =>
        dsimp only
        split
        · apply SatP.bind (SatP.lift_good hP (NoUndecl.fromValue t _)); intro v _
          exact SatP.pure trivial
        · split
          · exact SatP.throw_good hP rfl
          · rename_i th hth'
            apply SatP.bind (hth th (List.mem_of_getElem? hth')); intro a _
            apply SatP.bind (SatP.lift_good hP (NoUndecl.fromValue t a)); intro v _
            exact SatP.pure trivial
      | thisOpt t =>
        dsimp only
        split
        · apply SatP.bind (SatP.lift_good hP (NoUndecl.fromValueOpt t _)); intro v _
          exact SatP.pure trivial
        · split
          · exact SatP.throw_good hP rfl
          · rename_i th hth'
            apply SatP.bind (hth th (List.mem_of_getElem? hth')); intro a _
            apply SatP.bind (SatP.lift_good hP (NoUndecl.fromValueOpt t a)); intro v _
            exact SatP.pure trivial
      | pos t =>
        dsimp only
        split
        · exact SatP.throw_good hP rfl
        · rename_i th hth'
          apply SatP.bind (hth th (List.mem_of_getElem? hth')); intro a _
          apply SatP.bind (SatP.lift_good hP (NoUndecl.fromValue t a)); intro v _
          exact SatP.pure trivial
      | posOpt t =>
        dsimp only
        split
        · exact SatP.throw_good hP rfl
        · rename_i th hth'
          apply SatP.bind (hth th (List.mem_of_getElem? hth')); intro a _
          apply SatP.bind (SatP.lift_good hP (NoUndecl.fromValueOpt t a)); intro v _
          exact SatP.pure trivial
      | allArgs =>
        dsimp only
        apply SatP.bind (runAll_satP thunks hth); intro vs _
        exact SatP.pure trivial
      | ident =>
        dsimp only
        split
        · exact SatP.throw_good hP rfl
        · exact SatP.pure trivial
        · exact SatP.throw_good hP rfl
      | expr =>
        dsimp only
        split
        · exact SatP.throw_good hP rfl
        · exact SatP.pure trivial
    · rintro ⟨v, idx'⟩ _
      dsimp only
      apply SatP.bind (ih idx'); intro vs _
      exact SatP.pure trivial

theorem applyFn_satP (hP : Good P) (ctx : Ctx) (name : String) (k : FnKind) (this : Option Value)
    (thunks : List (EvalM Value)) (argEs : List Expr) (hth : ∀ t ∈ thunks, SatP t Any P) :
    SatP (applyFn ctx name k this thunks argEs) Any P := by
  cases k with
  | builtin b =>
    unfold applyFn
    dsimp only
    apply SatP.bind (extract_satP hP this thunks argEs hth b.sig 0); intro ps _
    exact SatP.lift_good hP (NoUndecl.applyBuiltin ctx b ps)
  | host sig body =>
    unfold applyFn
    dsimp only
    apply SatP.bind (extract_satP hP this thunks argEs hth sig 0); intro ps _
    apply SatP.bind (Q := Any) (SatP.logCall trivial); intro _ _
    cases body with
    | echo => exact SatP.pure trivial
    | fail => exact SatP.throw_good hP rfl
    | const v => exact SatP.pure trivial
    | first => exact SatP.pure trivial

/-- the function-call fallback of a call node -/
theorem fnCall_satP (hP : Good P) (ctx : Ctx) (f : String) (target : Option (EvalM Value))
    (argEs : List Expr) (thunks : List (EvalM Value)) (hth : ∀ t ∈ thunks, SatP t Any P)
    (hund : ctx.getFunction f = none → P (.undeclared f)) :
    (∀ t, target = some t → SatP t Any P) →
    SatP (match ctx.getFunction f with
      | none => M.throw (.undeclared f)
      | some k =>
        match target with
        | none => applyFn ctx f k none thunks argEs
        | some t => do
          let tv ← t
          applyFn ctx f k (some tv) thunks argEs : EvalM Value) Any P := by
  intro htg
  split
  · rename_i h
    exact SatP.throw (hund h)
  · split
    · exact applyFn_satP hP _ _ _ _ _ _ hth
    · rename_i t
      apply SatP.bind (htg t rfl); intro tv _
      exact applyFn_satP hP _ _ _ _ _ _ hth

/-- the function registry is consulted for the name `f` used with `n` arguments: `f` is not an
operator of that arity -/
def ReachesFn (f : String) (n : Nat) : Prop :=
  (n = 3 → (f == condName) = false) ∧ (n = 2 → binOpOfName f = none) ∧
    (n = 1 → unOpOfName f = none)

/-- an error of a call node is an error of an operand computation, or not an undeclared-reference
error, or `undeclared f` — the latter only when the registry is consulted and lacks `f` -/
theorem callNode_satP (hP : Good P) (ctx : Ctx) (f : String) (target : Option (EvalM Value))
    (argEs : List Expr) (thunks : List (EvalM Value)) (hth : ∀ t ∈ thunks, SatP t Any P)
    (htg : ∀ t, target = some t → SatP t Any P)
    (hund : ReachesFn f thunks.length → ctx.getFunction f = none → P (.undeclared f)) :
    SatP (callNode ctx f target argEs thunks) Any P := by
  have hfn := fun h => fnCall_satP hP ctx f target argEs thunks hth (hund h) htg
  unfold callNode
  dsimp only
  split
  · rename_i c a b
    have hc := hth c (by simp)
    have ha := hth a (by simp)
    have hb := hth b (by simp)
    split
    · apply SatP.bind hc; intro cv _
      split
      · exact ha
      · exact hb
    · rename_i hne
      refine hfn ⟨fun _ => ?_, fun h => ?_, fun h => ?_⟩
      · simpa using hne
      · simp at h
      · simp at h
  · rename_i a b
    have ha := hth a (by simp)
    have hb := hth b (by simp)
    split
    · apply SatP.bind ha; intro l _
      split
      · exact SatP.pure trivial
      · exact hb
    · apply SatP.bind ha; intro l _
      split
      · exact SatP.pure trivial
      · apply SatP.bind hb; intro r _
        exact SatP.pure trivial
    · rename_i op _ _ _
      apply SatP.bind ha; intro l _
      apply SatP.bind hb; intro r _
      exact SatP.lift_good hP (NoUndecl.applyBin op l r)
    · rename_i hnone
      refine hfn ⟨fun h => ?_, fun _ => hnone, fun h => ?_⟩
      · simp at h
      · simp at h
  · rename_i a
    have ha := hth a (by simp)
    split
    · rename_i op _
      apply SatP.bind ha; intro v _
      exact SatP.lift_good hP (NoUndecl.applyUn op v)
    · rename_i hnone
      refine hfn ⟨fun h => ?_, fun h => ?_, fun _ => hnone⟩
      · simp at h
      · simp at h
  · rename_i h3 h2 h1
    refine hfn ⟨fun h => ?_, fun h => ?_, fun h => ?_⟩
    · exfalso
      match thunks, h with
      | [c, a, b], _ => exact h3 c a b rfl
    · exfalso
      match thunks, h with
      | [a, b], _ => exact h2 a b rfl
    · exfalso
      match thunks, h with
      | [a], _ => exact h1 a rfl

/-! ## the comprehension loop -/

/-- the loop keeps a scope invariant `D` that `scopeInsert` preserves; the condition runs in a
scope satisfying `D`, the step in such a scope extended with the iteration variable -/
theorem loopG_satP (iv av : String) (evCond evStep : Scope → EvalM Value) (D : Scope → Prop)
    (hD : ∀ sc n v, D sc → D (Ctx.scopeInsert sc n v))
    (hc : ∀ sc, D sc → SatP (evCond sc) Any P)
    (hs : ∀ sc item, D sc → SatP (evStep (Ctx.scopeInsert sc iv item)) Any P)
    (items : List Value) (sc : Scope) (h : D sc) :
    SatP (loopG iv av evCond evStep items sc) D P := by
  induction items generalizing sc with
  | nil => unfold loopG; exact SatP.pure h
  | cons item rest ih =>
    unfold loopG
    apply SatP.bind (hc sc h); intro c _
    split
    · exact SatP.pure h
    · dsimp only
      apply SatP.bind (hs sc item h); intro acc _
      exact ih _ (hD _ _ _ (hD _ _ _ h))

end

/-! ## scopes -/

theorem lookup_scopeInsert_self (s : Scope) (n : String) (v : Value) :
    (Ctx.lookupScope (Ctx.scopeInsert s n v) n).isSome = true := by
  rw [Props.C11.lookup_scopeInsert]; simp

theorem lookup_scopeInsert_isSome (s : Scope) (n m : String) (v : Value)
    (h : (Ctx.lookupScope s m).isSome = true) :
    (Ctx.lookupScope (Ctx.scopeInsert s n v) m).isSome = true := by
  rw [Props.C11.lookup_scopeInsert]
  split
  · rfl
  · exact h

theorem getVariable_push_of_lookup (ctx : Ctx) (sc : Scope) (n : String)
    (h : (Ctx.lookupScope sc n).isSome = true) : ((ctx.push sc).getVariable n).isSome = true := by
  unfold Ctx.push Ctx.getVariable
  simp only [Ctx.getVar]
  cases hl : Ctx.lookupScope sc n with
  | none => rw [hl] at h; cases h
  | some v => rfl

theorem getVariable_push_isSome (ctx : Ctx) (sc : Scope) (n : String)
    (h : (ctx.getVariable n).isSome = true) : ((ctx.push sc).getVariable n).isSome = true := by
  unfold Ctx.push Ctx.getVariable
  simp only [Ctx.getVar]
  cases hl : Ctx.lookupScope sc n with
  | none => exact h
  | some v => rfl

theorem getVariable_push_none (ctx : Ctx) (sc : Scope) (n : String)
    (h : (ctx.push sc).getVariable n = none) : ctx.getVariable n = none := by
  cases hv : ctx.getVariable n with
  | none => rfl
  | some v =>
    have := getVariable_push_isSome ctx sc n (by rw [hv]; rfl)
    rw [h] at this; cases this

theorem getFunction_push (ctx : Ctx) (sc : Scope) (f : String) :
    (ctx.push sc).getFunction f = ctx.getFunction f := rfl

end Cel
