import CelModel.Lemmas.DurLemmas
/-!
# `Dur.parse (Dur.format ns) = some ns` (support for `CelModel/Props/C15.lean`)
-/
namespace Cel.Dur

/-! ## `takeUnit` on the suffixes `formatMag` prints -/

theorem takeUnit_ns (r : Str) : takeUnit ('n' :: 's' :: r) = some (1, r) := rfl
theorem takeUnit_micro (r : Str) : takeUnit ('µ' :: 's' :: r) = some (1000, r) := rfl
theorem takeUnit_ms (r : Str) : takeUnit ('m' :: 's' :: r) = some (1000000, r) := rfl
theorem takeUnit_s (r : Str) : takeUnit ('s' :: r) = some (1000000000, r) := rfl
theorem takeUnit_h (r : Str) : takeUnit ('h' :: r) = some (3600000000000, r) := rfl
theorem takeUnit_m (c : Char) (cs : Str) (h : c ≠ 's') :
    takeUnit ('m' :: c :: cs) = some (60000000000, c :: cs) := by
  simp [takeUnit, h]

theorem unitHead_cons (c : Char) (r : Str) (h1 : isDigit c = false) (h2 : c ≠ '.') :
    UnitHead (c :: r) := by
  intro x hx
  simp only [List.head?_cons, Option.some.injEq] at hx
  subst hx; exact ⟨h1, h2⟩

theorem unitHead_n (r : Str) : UnitHead ('n' :: r) := unitHead_cons _ _ (by decide) (by decide)
theorem unitHead_micro (r : Str) : UnitHead ('µ' :: r) := unitHead_cons _ _ (by decide) (by decide)
theorem unitHead_m (r : Str) : UnitHead ('m' :: r) := unitHead_cons _ _ (by decide) (by decide)
theorem unitHead_s (r : Str) : UnitHead ('s' :: r) := unitHead_cons _ _ (by decide) (by decide)
theorem unitHead_h (r : Str) : UnitHead ('h' :: r) := unitHead_cons _ _ (by decide) (by decide)

/-! ## one printed number followed by a unit -/

theorem takeTerm_natToDec (w : Nat) (r2 : Str) (unit : Nat) (rest : Str) (hh : UnitHead r2)
    (hu : takeUnit r2 = some (unit, rest)) :
    takeTerm (natToDec w ++ r2) = some (w * unit, rest) := by
  rw [takeTerm_int (natToDec w) r2 unit rest (natToDec_digits w) (natToDec_ne_nil w) hh hu,
    digitsToNat_natToDec]

theorem takeTerm_num (w prec v : Nat) (r2 : Str) (unit : Nat) (rest : Str) (hp : prec ≤ 18)
    (hunit : unit = 10 ^ prec) (hh : UnitHead r2) (hu : takeUnit r2 = some (unit, rest)) :
    takeTerm (natToDec w ++ fracStr prec v ++ r2) = some (w * unit + v % 10 ^ prec, rest) := by
  unfold fracStr
  split
  · next h =>
    have hv := frac_value prec v
    rw [h] at hv
    simp only [digitsToNat_nil, Nat.zero_mul] at hv
    rw [List.append_nil, takeTerm_natToDec w r2 unit rest hh hu, ← hv, Nat.add_zero]
  · next h =>
    have hl := frac_length prec v
    have ht : (frac prec v).take 18 = frac prec v := List.take_of_length_le (by omega)
    rw [List.append_assoc, List.cons_append,
      takeTerm_frac (natToDec w) (frac prec v) r2 unit rest (natToDec_digits w) (frac_digits prec v)
        (Or.inl (natToDec_ne_nil w)) hh.noDigit hu,
      ht, digitsToNat_natToDec, hunit, frac_term_value]

/-! ## `formatMag` by range -/

theorem formatMag_ns (u : Nat) (h0 : u ≠ 0) (h : u < 1000) :
    formatMag u = natToDec u ++ ['n', 's'] := by
  have h1 : u < 1000000000 := by omega
  simp [formatMag, h0, h, h1]

theorem formatMag_micro (u : Nat) (h1 : 1000 ≤ u) (h2 : u < 1000000) :
    formatMag u = natToDec (u / 1000) ++ fracStr 3 u ++ ['µ', 's'] := by
  have h0 : u ≠ 0 := by omega
  have h3 : u < 1000000000 := by omega
  have h4 : ¬ u < 1000 := by omega
  simp [formatMag, h0, h2, h3, h4, fmtFrac_eq]

theorem formatMag_ms (u : Nat) (h1 : 1000000 ≤ u) (h2 : u < 1000000000) :
    formatMag u = natToDec (u / 1000000) ++ fracStr 6 u ++ ['m', 's'] := by
  have h0 : u ≠ 0 := by omega
  have h3 : ¬ u < 1000000 := by omega
  have h4 : ¬ u < 1000 := by omega
  simp [formatMag, h0, h2, h3, h4, fmtFrac_eq]

/-- the seconds term `S[.F]s` -/
def secStr (u : Nat) : Str := natToDec (u / 1000000000 % 60) ++ fracStr 9 u ++ ['s']

theorem formatMag_s (u : Nat) (h1 : 1000000000 ≤ u) :
    formatMag u =
      if u / 1000000000 / 60 = 0 then secStr u
      else if u / 1000000000 / 60 / 60 = 0 then
        natToDec (u / 1000000000 / 60 % 60) ++ ['m'] ++ secStr u
      else natToDec (u / 1000000000 / 60 / 60) ++ ['h'] ++
        (natToDec (u / 1000000000 / 60 % 60) ++ ['m'] ++ secStr u) := by
  have h0 : ¬ u < 1000000000 := by omega
  simp [formatMag, h0, fmtFrac_eq, secStr]

/-! ## `parseTerms` on the printed text -/

theorem parseTerms_last (fuel : Nat) (s : Str) (acc v : Nat) (h : takeTerm s = some (v, [])) :
    parseTerms (fuel + 1) s acc = some (acc + v) := by
  simp [parseTerms, h]

theorem parseTerms_more (fuel : Nat) (s : Str) (acc v : Nat) (rest : Str)
    (h : takeTerm s = some (v, rest)) (hr : rest ≠ []) :
    parseTerms (fuel + 1) s acc = parseTerms fuel rest (acc + v) := by
  have : rest.isEmpty = false := by cases rest <;> simp_all
  simp [parseTerms, h, this]

theorem takeTerm_secStr (u : Nat) :
    takeTerm (secStr u) = some (u / 1000000000 % 60 * 1000000000 + u % 1000000000, []) :=
  takeTerm_num (u / 1000000000 % 60) 9 u ['s'] 1000000000 [] (by decide) (by decide)
    (unitHead_s []) (takeUnit_s [])

theorem secStr_cons (u : Nat) : ∃ c cs, secStr u = c :: cs ∧ isDigit c = true := by
  obtain ⟨c, cs, h, hc⟩ := natToDec_cons (u / 1000000000 % 60)
  exact ⟨c, cs ++ (fracStr 9 u ++ ['s']), by simp [secStr, h], hc⟩

theorem takeTerm_min (m : Nat) (u : Nat) :
    takeTerm (natToDec m ++ ['m'] ++ secStr u) = some (m * 60000000000, secStr u) := by
  obtain ⟨c, cs, h, hc⟩ := secStr_cons u
  have hcs : c ≠ 's' := by
    intro h0; subst h0; exact absurd hc (by decide)
  rw [List.append_assoc, List.singleton_append, h]
  exact takeTerm_natToDec m ('m' :: c :: cs) _ _ (unitHead_m _) (takeUnit_m c cs hcs)

theorem takeTerm_hour (hh : Nat) (r : Str) :
    takeTerm (natToDec hh ++ ['h'] ++ r) = some (hh * 3600000000000, r) := by
  rw [List.append_assoc, List.singleton_append]
  exact takeTerm_natToDec hh ('h' :: r) _ _ (unitHead_h _) (takeUnit_h r)

theorem secStr_ne_nil (u : Nat) : secStr u ≠ [] := by
  obtain ⟨c, cs, h, _⟩ := secStr_cons u
  rw [h]; simp

theorem parseTerms_formatMag (u fuel : Nat) : parseTerms (fuel + 3) (formatMag u) 0 = some u := by
  by_cases h9 : u < 1000000000
  · by_cases h0 : u = 0
    · subst h0
      have : formatMag 0 = natToDec 0 ++ ['s'] := by decide
      rw [this, parseTerms_last _ _ 0 (0 * 1000000000)
        (takeTerm_natToDec 0 ['s'] _ _ (unitHead_s []) (takeUnit_s []))]
    · by_cases h3 : u < 1000
      · rw [formatMag_ns u h0 h3, parseTerms_last _ _ 0 (u * 1)
          (takeTerm_natToDec u ['n', 's'] _ _ (unitHead_n _) (takeUnit_ns []))]
        simp
      · by_cases h6 : u < 1000000
        · rw [formatMag_micro u (by omega) h6, parseTerms_last _ _ 0 _
            (takeTerm_num (u / 1000) 3 u ['µ', 's'] 1000 [] (by decide) (by decide)
              (unitHead_micro _) (takeUnit_micro []))]
          congr 1; omega
        · rw [formatMag_ms u (by omega) h9, parseTerms_last _ _ 0 _
            (takeTerm_num (u / 1000000) 6 u ['m', 's'] 1000000 [] (by decide) (by decide)
              (unitHead_m _) (takeUnit_ms []))]
          congr 1; omega
  · rw [formatMag_s u (by omega)]
    split
    · next hm =>
      rw [parseTerms_last _ _ 0 _ (takeTerm_secStr u)]
      congr 1; omega
    · split
      · next hm hh =>
        rw [parseTerms_more _ _ 0 _ _ (takeTerm_min _ u) (secStr_ne_nil u),
          parseTerms_last _ _ _ _ (takeTerm_secStr u)]
        congr 1; omega
      · next hm hh =>
        have hne : natToDec (u / 1000000000 / 60 % 60) ++ ['m'] ++ secStr u ≠ [] := by
          intro h
          have := congrArg List.length h
          simp at this
        rw [parseTerms_more _ _ 0 _ _ (takeTerm_hour _ _) hne,
          parseTerms_more _ _ _ _ _ (takeTerm_min _ u) (secStr_ne_nil u),
          parseTerms_last _ _ _ _ (takeTerm_secStr u)]
        congr 1; omega

/-! ## shape of the printed text -/

theorem formatMag_shape (u : Nat) : ∃ w r, formatMag u = natToDec w ++ r ∧ r ≠ [] := by
  by_cases h9 : u < 1000000000
  · by_cases h0 : u = 0
    · subst h0
      exact ⟨0, ['s'], by decide, by simp⟩
    · by_cases h3 : u < 1000
      · exact ⟨_, _, formatMag_ns u h0 h3, by simp⟩
      · by_cases h6 : u < 1000000
        · exact ⟨_, _, by rw [formatMag_micro u (by omega) h6, List.append_assoc], by simp⟩
        · exact ⟨_, _, by rw [formatMag_ms u (by omega) h9, List.append_assoc], by simp⟩
  · rw [formatMag_s u (by omega)]
    split
    · exact ⟨_, _, by rw [secStr, List.append_assoc], by simp⟩
    · split
      · exact ⟨_, _, by rw [List.append_assoc], by simp⟩
      · exact ⟨_, _, by rw [List.append_assoc], by simp⟩

theorem formatMag_cons (u : Nat) : ∃ c cs, formatMag u = c :: cs ∧ isDigit c = true ∧ cs ≠ [] := by
  obtain ⟨w, r, h, hr⟩ := formatMag_shape u
  obtain ⟨c, cs, hw, hc⟩ := natToDec_cons w
  refine ⟨c, cs ++ r, by rw [h, hw]; rfl, hc, by simp [hr]⟩

/-! ## `parse` -/

/-- the optional sign (the outer `match` of `parse`) -/
def signPart (s : Str) : Bool × Str :=
  match s with
  | '-' :: r => (true, r)
  | r => (false, r)

theorem parse_def (s : Str) :
    parse s =
      (if (signPart s).2 == ['0'] then some 0 else
        match parseTerms ((signPart s).2.length + 1) (signPart s).2 0 with
        | none => none
        | some mag =>
          let v : Int := if (signPart s).1 then -(mag : Int) else mag
          if inI64 v then some v else none) := rfl

theorem signPart_minus (r : Str) : signPart ('-' :: r) = (true, r) := rfl

theorem signPart_other (c : Char) (cs : Str) (h : c ≠ '-') : signPart (c :: cs) = (false, c :: cs) := by
  unfold signPart
  split
  · next r heq => cases heq; exact absurd rfl h
  · rfl

theorem signPart_nil : signPart [] = (false, []) := rfl

theorem parseTerms_formatMag_fuel (u : Nat) :
    (formatMag u == ['0']) = false ∧
      parseTerms ((formatMag u).length + 1) (formatMag u) 0 = some u := by
  obtain ⟨c, cs, h, _, hcs⟩ := formatMag_cons u
  constructor
  · rw [h]; cases cs <;> simp_all
  · have hl : (formatMag u).length + 1 = ((formatMag u).length - 2) + 3 := by
      rw [h]; cases cs <;> simp_all
    rw [hl]; exact parseTerms_formatMag u _

theorem parse_neg_formatMag (u : Nat) (h : inI64 (-(u : Int)) = true) :
    parse ('-' :: formatMag u) = some (-(u : Int)) := by
  obtain ⟨h1, h2⟩ := parseTerms_formatMag_fuel u
  rw [parse_def, signPart_minus]
  simp [h1, h2, h]

theorem parse_pos_formatMag (u : Nat) (h : inI64 (u : Int) = true) :
    parse (formatMag u) = some (u : Int) := by
  obtain ⟨h1, h2⟩ := parseTerms_formatMag_fuel u
  obtain ⟨c, cs, hc, hd, _⟩ := formatMag_cons u
  have hm : c ≠ '-' := by
    intro h0; subst h0; exact absurd hd (by decide)
  have hs : signPart (formatMag u) = (false, formatMag u) := by
    rw [hc]; exact signPart_other c cs hm
  rw [parse_def, hs]
  simp [h1, h2, h]

theorem parse_format (ns : Int) (h : inI64 ns = true) : parse (format ns) = some ns := by
  unfold format
  split
  · next hneg =>
    have : ns = -((ns.natAbs : Nat) : Int) := by omega
    rw [this] at h
    rw [parse_neg_formatMag _ h, ← this]
  · next hpos =>
    have : ns = ((ns.natAbs : Nat) : Int) := by omega
    rw [this] at h
    rw [parse_pos_formatMag _ h, ← this]

/-! ## what the parser consumes (grammar-free forms) -/

theorem fracPart_spec (r : Str) :
    ∃ dot : Bool, r = (if dot then ['.'] else []) ++ (fracPart r).1 ++ (fracPart r).2 ∧
      (∀ c ∈ (fracPart r).1, isDigit c = true) ∧ (dot = false → (fracPart r).1 = []) := by
  unfold fracPart
  split
  · next r' =>
    refine ⟨true, ?_, (takeDigits_spec r').2.1, by simp⟩
    have := (takeDigits_spec r').1
    simp only [if_true, List.cons_append, List.nil_append]
    rw [← this]
  · exact ⟨false, by simp, by simp, fun _ => rfl⟩

theorem signPart_spec (s : Str) :
    s = (if (signPart s).1 then ['-'] else []) ++ (signPart s).2 := by
  unfold signPart
  split <;> simp

theorem takeUnit_spec (s : Str) (u : Nat) (rest : Str) (h : takeUnit s = some (u, rest)) :
    s = ['n', 's'] ++ rest ∨ s = ['u', 's'] ++ rest ∨ s = ['µ', 's'] ++ rest ∨
    s = ['μ', 's'] ++ rest ∨ s = ['m', 's'] ++ rest ∨ s = ['s'] ++ rest ∨ s = ['m'] ++ rest ∨
    s = ['h'] ++ rest := by
  unfold takeUnit at h
  split at h <;> simp at h <;> simp [h]

end Cel.Dur
