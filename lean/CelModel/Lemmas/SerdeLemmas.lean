import CelModel.Serde
import CelModel.Cmp
/-!
# Helper lemmas for C17 / C18: association-list insertion on both sides (`MapV.insert`,
`Serde.objInsert`)
-/
namespace Cel.Serde.Lemmas
open Cel Cel.Serde

/-- (copy of `C14.insert_find`) -/
theorem insert_find (m : MapV) (k k' : Key) (v : Value) :
    MapV.find? (MapV.insert m k v) k' = if k' = k then some v else MapV.find? m k' := by
  induction m with
  | nil =>
    by_cases h : k' = k
    · subst h; simp [MapV.insert, MapV.find?]
    · have : ¬ k = k' := fun e => h e.symm
      simp [MapV.insert, MapV.find?, h, this]
  | cons kv rest ih =>
    obtain ⟨k0, v0⟩ := kv
    by_cases h0 : k0 = k
    · subst h0
      by_cases h : k' = k0
      · subst h; simp [MapV.insert, MapV.find?]
      · have : ¬ k0 = k' := fun e => h e.symm
        simp [MapV.insert, MapV.find?, h, this]
    · by_cases h1 : k0 = k'
      · subst h1
        have : ¬ k0 = k := h0
        simp [MapV.insert, MapV.find?, h0]
      · simp [MapV.insert, MapV.find?, h0, h1, ih]

theorem objInsert_keys (l : List (Str × Json)) (k : Str) (v : Json) :
    (objInsert l k v).map (·.1) = if k ∈ l.map (·.1) then l.map (·.1) else l.map (·.1) ++ [k] := by
  induction l with
  | nil => simp [objInsert]
  | cons p rest ih =>
    obtain ⟨k', v'⟩ := p
    by_cases h : k' = k
    · subst h; simp [objInsert]
    · have h' : ¬ k = k' := fun e => h e.symm
      simp only [objInsert, h, if_false, List.map_cons, ih, List.mem_cons, h', false_or]
      split <;> simp

theorem objInsert_nodup (l : List (Str × Json)) (k : Str) (v : Json)
    (h : (l.map (·.1)).Nodup) : ((objInsert l k v).map (·.1)).Nodup := by
  rw [objInsert_keys]
  split
  · exact h
  · rename_i hk
    rw [List.nodup_append]
    refine ⟨h, by simp, ?_⟩
    intro a ha b hb
    simp only [List.mem_singleton] at hb
    subst hb
    intro e; subst e; exact hk ha

theorem objInsert_fresh (l : List (Str × Json)) (k : Str) (v : Json)
    (h : k ∉ l.map (·.1)) : objInsert l k v = l ++ [(k, v)] := by
  induction l with
  | nil => rfl
  | cons p rest ih =>
    obtain ⟨k', v'⟩ := p
    simp only [List.map_cons, List.mem_cons, not_or] at h
    have h' : ¬ k' = k := fun e => h.1 e.symm
    simp [objInsert, h', ih h.2]

theorem mapInsert_fresh (l : MapV) (k : Key) (v : Value)
    (h : k ∉ l.map (·.1)) : MapV.insert l k v = l ++ [(k, v)] := by
  induction l with
  | nil => rfl
  | cons p rest ih =>
    obtain ⟨k', v'⟩ := p
    simp only [List.map_cons, List.mem_cons, not_or] at h
    have h' : ¬ k' = k := fun e => h.1 e.symm
    simp [MapV.insert, h', ih h.2]

/-- the exported-object accumulator `jacc` mirrors the value-map accumulator `acc`: same length,
string keys with the same text, values exported entry by entry -/
def Rel : MapV → List (Str × Json) → Prop
  | [], [] => True
  | (k, v) :: r, (s, j) :: jr => k = .str s ∧ toJson v = .ok j ∧ Rel r jr
  | _, _ => False

theorem rel_insert (s : Str) (x : Value) (j : Json) (hx : toJson x = .ok j) :
    ∀ (acc : MapV) (jacc : List (Str × Json)), Rel acc jacc →
      Rel (MapV.insert acc (.str s) x) (objInsert jacc s j)
  | [], [], _ => by simp [MapV.insert, objInsert, Rel, hx]
  | [], _ :: _, h => by simp [Rel] at h
  | _ :: _, [], h => by simp [Rel] at h
  | (k, v) :: r, (s', j') :: jr, h => by
    simp only [Rel] at h
    obtain ⟨hk, hv, hr⟩ := h
    subst hk
    by_cases e : s' = s
    · subst e
      simp [MapV.insert, objInsert, Rel, hx, hr]
    · have e' : ¬ (Key.str s' = Key.str s) := by intro q; injection q with q; exact e q
      simp only [MapV.insert, objInsert, e, e', if_false, Rel, hv, true_and]
      exact rel_insert s x j hx r jr hr

/-- exporting a map whose (string) keys are pairwise distinct appends its entries in order -/
theorem rel_export : ∀ (acc : MapV) (jacc pre : List (Str × Json)), Rel acc jacc →
    ((pre ++ jacc).map (·.1)).Nodup → toJsonEntries acc pre = .ok (pre ++ jacc)
  | [], [], pre, _, _ => by simp [toJsonEntries]
  | [], _ :: _, _, h, _ => by simp [Rel] at h
  | _ :: _, [], _, h, _ => by simp [Rel] at h
  | (k, v) :: r, (s, j) :: jr, pre, h, hn => by
    simp only [Rel] at h
    obtain ⟨hk, hv, hr⟩ := h
    subst hk
    rw [toJsonEntries, hv]
    simp only [Key.toText]
    have hfresh : s ∉ pre.map (·.1) := by
      intro hm
      simp only [List.map_append, List.map_cons, List.nodup_append] at hn
      exact hn.2.2 s hm s (by simp) rfl
    rw [objInsert_fresh pre s j hfresh]
    have := rel_export r jr (pre ++ [(s, j)]) hr (by simpa using hn)
    simpa using this

theorem rel_keys : ∀ (m : MapV) (jm : List (Str × Json)), Rel m jm →
    m.map (·.1) = jm.map (fun p => Key.str p.1)
  | [], [], _ => rfl
  | [], _ :: _, h => by simp [Rel] at h
  | _ :: _, [], h => by simp [Rel] at h
  | (k, v) :: r, (s, j) :: jr, h => by
    simp only [Rel] at h
    simp [h.1, rel_keys r jr h.2.2]

theorem rel_length (m : MapV) (jm : List (Str × Json)) (h : Rel m jm) : m.length = jm.length := by
  have := congrArg List.length (rel_keys m jm h)
  simpa using this

theorem rel_nodup (m : MapV) (jm : List (Str × Json)) (h : Rel m jm)
    (hn : (m.map (·.1)).Nodup) : (jm.map (·.1)).Nodup := by
  rw [rel_keys m jm h] at hn
  have : jm.map (fun p => Key.str p.1) = (jm.map (·.1)).map Key.str := by simp
  rw [this] at hn
  exact List.Pairwise.of_map Key.str (fun a b hne e => hne (congrArg Key.str e)) hn

/-- importing an object with pairwise distinct keys appends its entries in order -/
theorem fromJsonFields_fresh : ∀ (jm : List (Str × Json)) (acc : MapV),
    (acc.map (·.1) ++ jm.map (fun p => Key.str p.1)).Nodup →
    fromJsonFields jm acc = acc ++ jm.map (fun p => (Key.str p.1, fromJson p.2))
  | [], acc, _ => by simp [fromJsonFields]
  | (s, j) :: jr, acc, hn => by
    rw [fromJsonFields]
    have hfresh : Key.str s ∉ acc.map (·.1) := by
      intro hm
      simp only [List.map_cons, List.nodup_append] at hn
      exact hn.2.2 _ hm _ (by simp) rfl
    rw [mapInsert_fresh acc _ _ hfresh, fromJsonFields_fresh jr _ (by simpa using hn)]
    simp

theorem eqEntries_of_forall (b : MapV) : ∀ (a : MapV),
    (∀ e ∈ a, ∃ v', MapV.find? b e.1 = some v' ∧ Value.eq e.2 v' = true) → eqEntries a b = true
  | [], _ => by rw [eqEntries]
  | (k, v) :: r, h => by
    rw [eqEntries]
    obtain ⟨v', h1, h2⟩ := h (k, v) (by simp)
    simp only [h1, h2, Bool.true_and]
    exact eqEntries_of_forall b r (fun e he => h e (by simp [he]))

end Cel.Serde.Lemmas
