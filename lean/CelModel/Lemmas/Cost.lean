import CelModel.Lemmas.Monad
/-!
# Two counting calculi for the evaluation monad

* `Cost m n` : from every state, `m` advances the step counter by at most `n` (whatever the
  outcome — the state reached is kept on errors and panics).
* `CostQ m n Q` : additionally every value returned satisfies `Q` (needed where the cost of the
  continuation depends on the value, e.g. the argument index threaded through `extract`).
* `LogB m k` : the step counter never decreases, and the host-call log grows by at most the
  growth of the step counter plus `k`.
-/
namespace Cel

/-- `m` performs at most `n` ticks -/
def Cost (m : M β α) (n : Nat) : Prop := ∀ s, (m s).2.steps ≤ s.steps + n

/-- `m` performs at most `n` ticks and every value it returns satisfies `Q` -/
def CostQ (m : M β α) (n : Nat) (Q : α → Prop) : Prop :=
  ∀ s, (m s).2.steps ≤ s.steps + n ∧ ∀ a s', m s = (.ok a, s') → Q a

namespace Cost

theorem pure {a : α} {n : Nat} : Cost (Pure.pure a : M β α) n := fun _ => Nat.le_add_right _ _

theorem throw {e : ErrC} {n : Nat} : Cost (M.throw e : M β α) n := fun _ => Nat.le_add_right _ _

theorem panic {p : String} {n : Nat} : Cost (M.panic p : M β α) n := fun _ => Nat.le_add_right _ _

theorem lift {o : Outcome α} {n : Nat} : Cost (M.lift o : M β α) n := fun _ => Nat.le_add_right _ _

theorem logCall {c : Call β} {n : Nat} : Cost (M.logCall c : M β Unit) n :=
  fun _ => Nat.le_add_right _ _

theorem tick {n : Nat} (h : 1 ≤ n) : Cost (M.tick : M β Unit) n := by
  intro s
  show s.steps + 1 ≤ s.steps + n
  omega

theorem weaken {m : M β α} {a n : Nat} (h : Cost m a) (hle : a ≤ n) : Cost m n := by
  intro s
  have := h s
  omega

theorem bind {m : M β α} {f : α → M β γ} {a b n : Nat} (hm : Cost m a)
    (hf : ∀ x, Cost (f x) b) (h : a + b ≤ n) : Cost (m >>= f) n := by
  intro s
  have h1 := hm s
  rw [M.bind_apply]
  cases hms : m s with
  | mk o s' =>
    rw [hms] at h1
    cases o with
    | ok x =>
      have h2 := hf x s'
      dsimp only at h1 h2 ⊢
      omega
    | err e => dsimp only at h1 ⊢; omega
    | panic p => dsimp only at h1 ⊢; omega

/-- sequencing where the continuation's bound relies on a property of the value -/
theorem bindQ {m : M β α} {f : α → M β γ} {Q : α → Prop} {a b n : Nat} (hm : CostQ m a Q)
    (hf : ∀ x, Q x → Cost (f x) b) (h : a + b ≤ n) : Cost (m >>= f) n := by
  intro s
  obtain ⟨h1, hq⟩ := hm s
  rw [M.bind_apply]
  cases hms : m s with
  | mk o s' =>
    rw [hms] at h1
    cases o with
    | ok x =>
      have h2 := hf x (hq x s' hms) s'
      dsimp only at h1 h2 ⊢
      omega
    | err e => dsimp only at h1 ⊢; omega
    | panic p => dsimp only at h1 ⊢; omega

/-- sequencing after a tick -/
theorem tick_bind {f : Unit → M β γ} {b n : Nat} (h : Cost (f ()) b) (hle : 1 + b ≤ n) :
    Cost (M.tick >>= f) n :=
  bind (tick (Nat.le_refl 1)) (fun _ => h) hle

end Cost

namespace CostQ

theorem pure {a : α} {n : Nat} {Q : α → Prop} (h : Q a) : CostQ (Pure.pure a : M β α) n Q := by
  intro s
  refine ⟨Nat.le_add_right _ _, ?_⟩
  intro a' s' heq
  cases heq
  exact h

theorem throw {e : ErrC} {n : Nat} {Q : α → Prop} : CostQ (M.throw e : M β α) n Q := by
  intro s
  refine ⟨Nat.le_add_right _ _, ?_⟩
  intro a' s' heq
  cases heq

theorem toCost {m : M β α} {n : Nat} {Q : α → Prop} (h : CostQ m n Q) : Cost m n :=
  fun s => (h s).1

/-- a bound together with a separately known fact about the returned values -/
theorem of {m : M β α} {n : Nat} {Q : α → Prop} (h : Cost m n)
    (hq : ∀ s a s', m s = (.ok a, s') → Q a) : CostQ m n Q :=
  fun s => ⟨h s, hq s⟩

theorem bind {m : M β α} {f : α → M β γ} {Q : γ → Prop} {a b n : Nat} (hm : Cost m a)
    (hf : ∀ x, CostQ (f x) b Q) (h : a + b ≤ n) : CostQ (m >>= f) n Q := by
  intro s
  refine ⟨Cost.bind hm (fun x => (hf x).toCost) h s, ?_⟩
  intro c s'' heq
  rw [M.bind_apply] at heq
  cases hms : m s with
  | mk o s' =>
    rw [hms] at heq
    cases o with
    | ok x => exact ((hf x) s').2 c s'' heq
    | err e => cases heq
    | panic p => cases heq

end CostQ

/-- steps never decrease, and the log grows by at most the growth of the steps plus `k` -/
def LogB (m : M β α) (k : Nat) : Prop :=
  ∀ s, s.steps ≤ (m s).2.steps ∧
    (m s).2.log.length + s.steps ≤ (m s).2.steps + s.log.length + k

namespace LogB

theorem pure {a : α} {k : Nat} : LogB (Pure.pure a : M β α) k := by
  intro s
  show s.steps ≤ s.steps ∧ s.log.length + s.steps ≤ s.steps + s.log.length + k
  omega

theorem throw {e : ErrC} {k : Nat} : LogB (M.throw e : M β α) k := by
  intro s
  show s.steps ≤ s.steps ∧ s.log.length + s.steps ≤ s.steps + s.log.length + k
  omega

theorem panic {p : String} {k : Nat} : LogB (M.panic p : M β α) k := by
  intro s
  show s.steps ≤ s.steps ∧ s.log.length + s.steps ≤ s.steps + s.log.length + k
  omega

theorem lift {o : Outcome α} {k : Nat} : LogB (M.lift o : M β α) k := by
  intro s
  show s.steps ≤ s.steps ∧ s.log.length + s.steps ≤ s.steps + s.log.length + k
  omega

theorem tick {k : Nat} : LogB (M.tick : M β Unit) k := by
  intro s
  show s.steps ≤ s.steps + 1 ∧ s.log.length + s.steps ≤ s.steps + 1 + s.log.length + k
  omega

theorem logCall {c : Call β} {k : Nat} (h : 1 ≤ k) : LogB (M.logCall c : M β Unit) k := by
  intro s
  show s.steps ≤ s.steps ∧ (s.log ++ [c]).length + s.steps ≤ s.steps + s.log.length + k
  rw [List.length_append, List.length_singleton]
  omega

theorem weaken {m : M β α} {a k : Nat} (h : LogB m a) (hle : a ≤ k) : LogB m k := by
  intro s
  have := h s
  omega

theorem bind {m : M β α} {f : α → M β γ} {a b k : Nat} (hm : LogB m a)
    (hf : ∀ x, LogB (f x) b) (h : a + b ≤ k) : LogB (m >>= f) k := by
  intro s
  have h1 := hm s
  rw [M.bind_apply]
  cases hms : m s with
  | mk o s' =>
    rw [hms] at h1
    cases o with
    | ok x =>
      have h2 := hf x s'
      dsimp only at h1 h2 ⊢
      omega
    | err e => dsimp only at h1 ⊢; omega
    | panic p => dsimp only at h1 ⊢; omega

/-- the tick at the head of a call node pays for the one host call the node may log -/
theorem tick_bind {f : Unit → M β γ} {k : Nat} (h : LogB (f ()) (k + 1)) :
    LogB (M.tick >>= f) k := by
  intro s
  rw [M.tick_bind]
  have h2 := h (tickSt s)
  have e1 : (tickSt s).steps = s.steps + 1 := rfl
  have e2 : (tickSt s).log = s.log := rfl
  rw [e1, e2] at h2
  omega

end LogB

/-! ## Sums of per-thunk bounds -/

theorem sum_drop (costs : List Nat) (idx : Nat) :
    costs[idx]?.getD 0 + (costs.drop (idx + 1)).sum = (costs.drop idx).sum := by
  induction costs generalizing idx with
  | nil => simp
  | cons c cs ih =>
    cases idx with
    | zero => simp
    | succ i => simpa using ih i

theorem sum_drop_succ_le (costs : List Nat) (idx : Nat) :
    (costs.drop (idx + 1)).sum ≤ (costs.drop idx).sum := by
  have := sum_drop costs idx
  omega

end Cel
