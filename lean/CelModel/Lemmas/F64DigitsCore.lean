import CelModel.Lemmas.F64Interval
/-!
# Burger–Dybvig digit generation: the scaling loops and the digit loop

Auxiliary lemmas for `F64Digits.lean`.  Everything is on naturals with cross-multiplication.
`Rel ev a b` is `a ≤ b` when the interval end points are included (`ev = true`, even significand)
and `a < b` otherwise.
-/
namespace Cel.F64

/-- `a ≤ b` if `ev`, else `a < b` -/
def Rel (ev : Bool) (a b : Nat) : Prop := if ev = true then a ≤ b else a < b

instance (ev : Bool) (a b : Nat) : Decidable (Rel ev a b) := by unfold Rel; exact inferInstance

theorem Rel.le {ev : Bool} {a b : Nat} (h : Rel ev a b) : a ≤ b := by
  cases ev <;> simp [Rel] at h <;> omega

theorem Rel.of_lt {ev : Bool} {a b : Nat} (h : a < b) : Rel ev a b := by
  cases ev <;> simp [Rel] <;> omega

theorem Rel.not {ev : Bool} {a b : Nat} (h : ¬ Rel ev a b) : Rel (!ev) b a := by
  cases ev <;> simp [Rel] at h ⊢ <;> omega

theorem Rel.mul_right {ev : Bool} {a b : Nat} (t : Nat) (ht : 0 < t) (h : Rel ev a b) :
    Rel ev (a * t) (b * t) := by
  cases ev <;> simp [Rel] at h ⊢
  · exact Nat.mul_lt_mul_of_pos_right h ht
  · exact Nat.mul_le_mul_right t h

theorem Rel.of_mul_right {ev : Bool} {a b t : Nat} (ht : 0 < t) (h : Rel ev (a * t) (b * t)) :
    Rel ev a b := by
  cases ev <;> simp [Rel] at h ⊢
  · exact Nat.lt_of_mul_lt_mul_right h
  · exact Nat.le_of_mul_le_mul_right h ht

theorem Rel.congr {ev : Bool} {a b a' b' : Nat} (h : Rel ev a b) (ha : a = a') (hb : b = b') :
    Rel ev a' b' := by subst ha; subst hb; exact h

/-! ### the scaling loops -/

theorem mul10_pow (x b : Nat) : x * 10 * 10 ^ b = x * 10 ^ (b + 1) := by
  rw [Nat.pow_succ, Nat.mul_assoc, Nat.mul_comm 10]

theorem up_zero (ev : Bool) (r mp s : Nat) (k : Int) :
    shortestDigits.up ev r mp 0 s k = (s, k) := rfl

theorem up_step (ev : Bool) (r mp f s : Nat) (k : Int) :
    shortestDigits.up ev r mp (f + 1) s k =
      if Rel ev s (r + mp) then shortestDigits.up ev r mp f (s * 10) (k + 1) else (s, k) := by
  rw [shortestDigits.up.eq_2]; cases ev <;> simp [Rel]

theorem down_zero (ev : Bool) (r mp mm s : Nat) (k : Int) :
    shortestDigits.down ev 0 r mp mm s k = (r, mp, mm, k) := rfl

theorem down_step (ev : Bool) (f r mp mm s : Nat) (k : Int) :
    shortestDigits.down ev (f + 1) r mp mm s k =
      if Rel ev s ((r + mp) * 10) then (r, mp, mm, k)
      else shortestDigits.down ev f (r * 10) (mp * 10) (mm * 10) s (k - 1) := by
  rw [shortestDigits.down.eq_2]; cases ev <;> simp [Rel]

theorem up_spec (ev : Bool) (r mp : Nat) :
    ∀ (fuel j s : Nat) (k : Int), j ≤ fuel → r + mp < s * 10 ^ j →
      ∃ a : Nat, a ≤ j ∧ shortestDigits.up ev r mp fuel s k = (s * 10 ^ a, k + (a : Int)) ∧
        Rel (!ev) (r + mp) (s * 10 ^ a) := by
  intro fuel
  induction fuel with
  | zero =>
    intro j s k hj hlt
    have : j = 0 := by omega
    subst this
    refine ⟨0, Nat.le_refl _, ?_, ?_⟩
    · simp [up_zero]
    · exact Rel.of_lt hlt
  | succ fuel ih =>
    intro j s k hj hlt
    rw [up_step]
    by_cases htl : Rel ev s (r + mp)
    · rw [if_pos htl]
      have hge : s ≤ r + mp := htl.le
      have hj0 : j ≠ 0 := by
        intro h0; subst h0; rw [Nat.pow_zero, Nat.mul_one] at hlt; omega
      obtain ⟨j', rfl⟩ : ∃ j', j = j' + 1 := ⟨j - 1, by omega⟩
      have hlt' : r + mp < s * 10 * 10 ^ j' := by
        rw [Nat.pow_succ] at hlt
        rw [Nat.mul_assoc, Nat.mul_comm 10]; exact hlt
      obtain ⟨a, ha, heq, hrel⟩ := ih j' (s * 10) (k + 1) (by omega) hlt'
      refine ⟨a + 1, by omega, ?_, ?_⟩
      · rw [heq, Nat.pow_succ, Nat.mul_assoc, Nat.mul_comm 10]
        congr 1
        simp only [Int.natCast_add, Int.natCast_one]; omega
      · rw [Nat.pow_succ, Nat.mul_comm _ 10, ← Nat.mul_assoc]; exact hrel
    · rw [if_neg htl]
      refine ⟨0, Nat.zero_le _, by simp, ?_⟩
      simpa using Rel.not htl

theorem down_spec (ev : Bool) (s : Nat) :
    ∀ (fuel r mp mm : Nat) (k : Int), Rel (!ev) (r + mp) s →
      ∃ b : Nat, shortestDigits.down ev fuel r mp mm s k
          = (r * 10 ^ b, mp * 10 ^ b, mm * 10 ^ b, k - (b : Int)) ∧
        Rel (!ev) (r * 10 ^ b + mp * 10 ^ b) s := by
  intro fuel
  induction fuel with
  | zero =>
    intro r mp mm k h
    exact ⟨0, by simp [down_zero], by simpa using h⟩
  | succ fuel ih =>
    intro r mp mm k h
    rw [down_step]
    by_cases htl : Rel ev s ((r + mp) * 10)
    · rw [if_pos htl]
      exact ⟨0, by simp, by simpa using h⟩
    · rw [if_neg htl]
      have h' : Rel (!ev) (r * 10 + mp * 10) s := by
        have := Rel.not htl
        rwa [Nat.add_mul] at this
      obtain ⟨b, heq, hrel⟩ := ih (r * 10) (mp * 10) (mm * 10) (k - 1) h'
      simp only [mul10_pow] at heq hrel
      refine ⟨b + 1, ?_, hrel⟩
      rw [heq]
      congr 3
      omega

/-! ### the digit loop -/

theorem genDigits_step (ev : Bool) (f R s P Q : Nat) (acc : List Nat) :
    genDigits (f + 1) R s P Q ev ev acc =
      if ¬ Rel ev (R % s) Q then
        if ¬ Rel ev s (R % s + P) then
          genDigits f (R % s * 10) s (P * 10) (Q * 10) ev ev (R / s :: acc)
        else ((R / s + 1) :: acc).reverse
      else if ¬ Rel ev s (R % s + P) then (R / s :: acc).reverse
      else if R % s * 2 < s then (R / s :: acc).reverse
      else ((R / s + 1) :: acc).reverse := by
  rw [genDigits.eq_2]; cases ev <;> simp [Rel]

theorem digitsNum_snoc (l : List Nat) (d : Nat) : digitsNum (l ++ [d]) = digitsNum l * 10 + d := by
  simp [digitsNum, List.foldl_append]

/-- the digit string `ds` (read as `0.d₁…dₙ`) times `s` lies between `r - mm` and `r + mp` -/
structure Good (ev : Bool) (r s mp mm : Nat) (ds : List Nat) : Prop where
  ne : ds ≠ []
  dig : ∀ x ∈ ds, x < 10
  lo : Rel ev (r * 10 ^ ds.length) (digitsNum ds * s + mm * 10 ^ ds.length)
  hi : Rel ev (digitsNum ds * s) (r * 10 ^ ds.length + mp * 10 ^ ds.length)

theorem good_lo (ev : Bool) (r s mp mm R : Nat) (acc : List Nat)
    (hmp : 0 < mp)
    (hA : r * 10 ^ (acc.length + 1) = digitsNum acc.reverse * (10 * s) + R)
    (hacc : ∀ x ∈ acc, x < 10) (hd : R / s < 10)
    (h1 : Rel ev (R % s) (mm * 10 ^ (acc.length + 1))) :
    Good ev r s mp mm ((R / s) :: acc).reverse := by
  have hlen : ((R / s) :: acc).reverse.length = acc.length + 1 := by simp
  have hnum : digitsNum ((R / s) :: acc).reverse = digitsNum acc.reverse * 10 + R / s := by
    rw [List.reverse_cons, digitsNum_snoc]
  have hR := Nat.div_add_mod R s
  have hA' : r * 10 ^ (acc.length + 1) = (digitsNum acc.reverse * 10 + R / s) * s + R % s := by
    grind
  have hP : 0 < mp * 10 ^ (acc.length + 1) := Nat.mul_pos hmp (Nat.pow_pos (by decide))
  refine ⟨by simp, ?_, ?_, ?_⟩
  · intro x hx
    simp only [List.mem_reverse, List.mem_cons] at hx
    rcases hx with rfl | hx
    · exact hd
    · exact hacc x hx
  · rw [hlen, hnum, hA']
    cases ev <;> simp [Rel] at h1 ⊢ <;> omega
  · rw [hlen, hnum, hA']
    apply Rel.of_lt; omega

theorem good_hi (ev : Bool) (r s mp mm R : Nat) (acc : List Nat)
    (hs : 0 < s)
    (hA : r * 10 ^ (acc.length + 1) = digitsNum acc.reverse * (10 * s) + R)
    (hacc : ∀ x ∈ acc, x < 10) (hd : R / s + 1 < 10)
    (h2 : Rel ev s (R % s + mp * 10 ^ (acc.length + 1))) :
    Good ev r s mp mm ((R / s + 1) :: acc).reverse := by
  have hlen : ((R / s + 1) :: acc).reverse.length = acc.length + 1 := by simp
  have hnum : digitsNum ((R / s + 1) :: acc).reverse
      = digitsNum acc.reverse * 10 + (R / s + 1) := by
    rw [List.reverse_cons, digitsNum_snoc]
  have hR := Nat.div_add_mod R s
  have hlt := Nat.mod_lt R hs
  have hA' : r * 10 ^ (acc.length + 1) + s
      = (digitsNum acc.reverse * 10 + (R / s + 1)) * s + R % s := by
    grind
  refine ⟨by simp, ?_, ?_, ?_⟩
  · intro x hx
    simp only [List.mem_reverse, List.mem_cons] at hx
    rcases hx with rfl | hx
    · exact hd
    · exact hacc x hx
  · rw [hlen, hnum]
    apply Rel.of_lt; omega
  · rw [hlen, hnum]
    cases ev <;> simp [Rel] at h2 ⊢ <;> omega

theorem gen_spec (ev : Bool) (r s mp mm : Nat) (hs : 0 < s) (hmp : 0 < mp) :
    ∀ (f : Nat) (acc : List Nat) (R : Nat),
      r * 10 ^ (acc.length + 1) = digitsNum acc.reverse * (10 * s) + R →
      Rel (!ev) (R + mp * 10 ^ (acc.length + 1)) (10 * s) →
      s < mp * 10 ^ (acc.length + 1) * 10 ^ f →
      (∀ x ∈ acc, x < 10) →
      Good ev r s mp mm
        (genDigits (f + 1) R s (mp * 10 ^ (acc.length + 1)) (mm * 10 ^ (acc.length + 1))
          ev ev acc)
  | f, acc, R, hA, hinv, hfuel, hacc => by
    have hP : 0 < mp * 10 ^ (acc.length + 1) := Nat.mul_pos hmp (Nat.pow_pos (by decide))
    have hR := Nat.div_add_mod R s
    have hlt := Nat.mod_lt R hs
    have hd : R / s < 10 := by
      rw [Nat.div_lt_iff_lt_mul hs]
      have := hinv.le
      omega
    have hd1 : Rel ev s (R % s + mp * 10 ^ (acc.length + 1)) → R / s + 1 < 10 := by
      intro h2
      apply Classical.byContradiction
      intro hn
      have h9 : 9 ≤ R / s := by omega
      have := Nat.mul_le_mul_left s h9
      cases ev <;> simp [Rel] at h2 hinv <;> omega
    rw [genDigits_step]
    by_cases h1 : Rel ev (R % s) (mm * 10 ^ (acc.length + 1))
    · rw [if_neg (not_not_intro h1)]
      by_cases h2 : Rel ev s (R % s + mp * 10 ^ (acc.length + 1))
      · rw [if_neg (not_not_intro h2)]
        have glo := good_lo ev r s mp mm R acc hmp hA hacc hd h1
        have ghi := good_hi ev r s mp mm R acc hs hA hacc (hd1 h2) h2
        split
        · exact glo
        · exact ghi
      · rw [if_pos h2]
        exact good_lo ev r s mp mm R acc hmp hA hacc hd h1
    · rw [if_pos h1]
      by_cases h2 : Rel ev s (R % s + mp * 10 ^ (acc.length + 1))
      · rw [if_neg (not_not_intro h2)]
        exact good_hi ev r s mp mm R acc hs hA hacc (hd1 h2) h2
      · rw [if_pos h2]
        have h2' := Rel.not h2
        cases f with
        | zero =>
          exfalso
          have := h2'.le
          rw [Nat.pow_zero, Nat.mul_one] at hfuel
          omega
        | succ f' =>
          have e1 : ∀ x : Nat, x * 10 ^ (acc.length + 1) * 10
              = x * 10 ^ ((R / s :: acc).length + 1) := by
            intro x
            rw [List.length_cons, Nat.pow_succ _ (acc.length + 1), Nat.mul_assoc]
          rw [e1, e1]
          apply gen_spec ev r s mp mm hs hmp f' (R / s :: acc) (R % s * 10)
          · rw [← e1, List.reverse_cons, digitsNum_snoc]
            grind
          · rw [← e1]
            have := Rel.mul_right 10 (by decide) h2'
            rw [Nat.add_mul] at this
            rwa [Nat.mul_comm 10 s]
          · rw [← e1]
            rw [Nat.pow_succ _ f', ← Nat.mul_assoc, Nat.mul_right_comm] at hfuel
            exact hfuel
          · intro x hx
            rcases List.mem_cons.mp hx with rfl | hx
            · exact hd
            · exact hacc x hx

end Cel.F64
