import CelModel.Lemmas.F64Round
import CelModel.Lemmas.F64Text
/-!
# Far-away magnitudes: overflow and underflow of `roundRatPos`, and digit-string bounds

Helper development for `Props/C13d`: the magnitude clamps of `F64.parse` are sound.
-/
namespace Cel.F64
open Cel.Lemmas.F64RoundCore Cel.Lemmas.OfInt

/-! ### `roundRatPos` framed by the top bit of the fraction -/

/-- `roundRatPos` is `roundCore` of a quotient whose top bit `log2 q - shI` frames the fraction -/
theorem round_frame (num den : Nat) (hnum : 0 < num) (hden : 0 < den) :
    ∃ (q : Nat) (st : Bool) (shI : Int), roundRatPos num den = roundCore q st shI ∧ 2 ^ 55 ≤ q ∧
      PL num den 1 ((Nat.log2 q : Int) - shI) ∧ ¬ PL num den 1 ((Nat.log2 q : Int) - shI + 1) := by
  have hnum0 : num ≠ 0 := by omega
  have hden0 : den ≠ 0 := by omega
  have hln := (Nat.log2_eq_iff hnum0).1 rfl
  have hld := (Nat.log2_eq_iff hden0).1 rfl
  have h0 : (num == 0) = false := by simp [hnum0]
  rw [roundRatPos_eq, h0]
  simp only [Bool.false_eq_true, if_false]
  obtain ⟨sa, sb, hsc, hs⟩ :=
    scaled_frame num den (56 - (Nat.log2 num : Int) + (Nat.log2 den : Int))
  rw [hsc]
  dsimp only
  have hql := q_lower num den sa sb _ _ hln.1 hld.2 hs
  generalize (56 - (Nat.log2 num : Int) + (Nat.log2 den : Int)) = shI at *
  have hd' : 0 < den * 2 ^ sb := Nat.mul_pos hden (two_pow_pos _)
  have hq55 : 2 ^ 55 ≤ num * 2 ^ sa / (den * 2 ^ sb) := (Nat.le_div_iff_mul_le hd').2 hql
  have hq0 : num * 2 ^ sa / (den * 2 ^ sb) ≠ 0 := by omega
  have hqb := (Nat.log2_eq_iff hq0).1 rfl
  refine ⟨_, _, shI, rfl, hq55, ?_, ?_⟩
  · refine (frameL num den sa sb 1 (Nat.log2 (num * 2 ^ sa / (den * 2 ^ sb))) _ (by omega)).1 ?_
    rw [Nat.one_mul]
    exact (Nat.le_div_iff_mul_le hd').1 hqb.1
  · intro h
    have h' := (frameL num den sa sb 1 (Nat.log2 (num * 2 ^ sa / (den * 2 ^ sb)) + 1) _
      (by omega)).2 h
    rw [Nat.one_mul] at h'
    have := (Nat.le_div_iff_mul_le hd').2 h'
    omega

theorem PL_one_nat (num den k : Nat) : PL num den 1 (k : Int) ↔ 2 ^ k * den ≤ num := by
  unfold PL
  have e2 : (-(k : Int)).toNat = 0 := by omega
  rw [Int.toNat_natCast, e2, Nat.one_mul, Nat.pow_zero, Nat.mul_one]

theorem finish_overflow (m : Nat) (le : Int) (hm : 2 ^ 52 ≤ m) (hle : 972 ≤ le) :
    finish m le = none := by
  unfold finish
  by_cases h : m = 2 ^ 53
  · subst h
    have h3 : le + 1 + 1075 ≥ 2047 := by omega
    simp only [beq_self_eq_true, if_true, Nat.lt_irrefl, if_false, h3]
  · have h1 : (m == 2 ^ 53) = false := by rw [beq_eq_false_iff_ne]; exact h
    have h2 : ¬ m < 2 ^ 52 := by omega
    have h3 : le + 1075 ≥ 2047 := by omega
    simp only [h1, Bool.false_eq_true, if_false, h2, h3, if_true]

/-- a rational at or above `2^1024` overflows -/
theorem roundRatPos_overflow' (num den : Nat) (hden : 0 < den) (h : 2 ^ 1024 * den ≤ num) :
    roundRatPos num den = none := by
  have hnum : 0 < num := by
    have := Nat.mul_pos (two_pow_pos 1024) hden
    omega
  obtain ⟨q, st, shI, hr, hq55, hP1, hP2⟩ := round_frame num den hnum hden
  have hq0 : q ≠ 0 := by omega
  have hqb := (Nat.log2_eq_iff hq0).1 rfl
  have hqb55 : 55 ≤ Nat.log2 q := (Nat.le_log2 hq0).2 hq55
  have hPL : PL num den 1 ((1024 : Nat) : Int) := by
    exact (PL_one_nat num den 1024).2 h
  have htop := top_ge num den 1 0 ((1024 : Nat) : Int) _ hPL (by decide) hP2
  rw [hr]
  generalize hb : Nat.log2 q = qb at *
  have hle : (if (qb : Int) - shI - 52 ≥ -1074 then (qb : Int) - shI - 52 else -1074) =
      (qb : Int) - shI - 52 := by
    rw [if_pos (by omega)]
  rw [roundCore_le q st shI _ (qb - 52) (hb ▸ hle) (by omega)]
  apply finish_overflow _ _ _ (by omega)
  have hk : 2 ^ 52 ≤ q / 2 ^ (qb - 52) := by
    rw [Nat.le_div_iff_mul_le (two_pow_pos _), ← Nat.pow_add]
    have : 52 + (qb - 52) = qb := by omega
    rw [this]; exact hqb.1
  split <;> omega

theorem finish_zero (le : Int) : finish 0 le = some 0 := by
  unfold finish
  have h1 : ((0 : Nat) == 2 ^ 53) = false := by decide
  have h2 : (0 : Nat) < 2 ^ 52 := by decide
  simp only [h1, Bool.false_eq_true, if_false, h2, if_true]

/-- a positive rational below `2^-1076` rounds to `+0` -/
theorem roundRatPos_underflow' (num den : Nat) (hnum : 0 < num) (hden : 0 < den)
    (h : num * 2 ^ 1076 < den) : roundRatPos num den = some 0 := by
  obtain ⟨q, st, shI, hr, hq55, hP1, hP2⟩ := round_frame num den hnum hden
  have hq0 : q ≠ 0 := by omega
  have hqb := (Nat.log2_eq_iff hq0).1 rfl
  have hnPL : ¬ PL num den (2 ^ 0) (-1076) := by
    unfold PL
    intro h'
    have e1 : (-1076 : Int).toNat = 0 := by decide
    have e2 : (-(-1076 : Int)).toNat = 1076 := by decide
    rw [e1, e2] at h'
    generalize 2 ^ 1076 = P at *
    simp only [Nat.pow_zero, Nat.one_mul] at h'
    omega
  have htop := top_lt' num den 0 (-1076) _ hnPL hP1
  rw [hr]
  generalize hb : Nat.log2 q = qb at *
  have hle : (if (qb : Int) - shI - 52 ≥ -1074 then (qb : Int) - shI - 52 else -1074) =
      -1074 := by
    rw [if_neg (by omega)]
  obtain ⟨drop, hdrop⟩ : ∃ drop : Nat, (drop : Int) = -1074 + shI := ⟨(-1074 + shI).toNat, by omega⟩
  rw [roundCore_le q st shI _ drop (hb ▸ hle) (by omega)]
  have hlt : q < 2 ^ (drop - 1) :=
    Nat.lt_of_lt_of_le hqb.2 (Nat.pow_le_pow_right (by decide) (by omega))
  have hlt2 : q < 2 ^ drop :=
    Nat.lt_of_lt_of_le hlt (Nat.pow_le_pow_right (by decide) (by omega))
  have hkeep : q / 2 ^ drop = 0 := Nat.div_eq_of_lt hlt2
  have hrest : q % 2 ^ drop = q := Nat.mod_eq_of_lt hlt2
  rw [hkeep, hrest]
  have hup : (decide (q > 2 ^ (drop - 1)) || (q == 2 ^ (drop - 1) && (st || 0 % 2 == 1))) = false := by
    have a1 : decide (q > 2 ^ (drop - 1)) = false := by
      rw [decide_eq_false_iff_not]; omega
    have a2 : (q == 2 ^ (drop - 1)) = false := by
      rw [beq_eq_false_iff_ne]; omega
    rw [a1, a2]; rfl
  rw [hup]
  exact finish_zero _

/-! ### `ofRat` of far-away magnitudes -/

theorem ofRat_overflow (neg : Bool) (num den : Nat) (hden : 0 < den) (h : 2 ^ 1024 * den ≤ num) :
    ofRat neg num den = if neg then negInfBits else posInfBits := by
  unfold ofRat
  rw [roundRatPos_overflow' num den hden h]
  cases neg <;> decide

theorem ofRat_underflow (neg : Bool) (num den : Nat) (hnum : 0 < num) (hden : 0 < den)
    (h : num * 2 ^ 1076 < den) : ofRat neg num den = if neg then signBit else 0 := by
  unfold ofRat
  rw [roundRatPos_underflow' num den hnum hden h]
  cases neg <;> decide

theorem two_1024_le : 2 ^ 1024 ≤ 10 ^ 330 := by decide +kernel
theorem two_1076_lt : 2 ^ 1076 < 10 ^ 400 := by decide +kernel

theorem ten_pow_pos (k : Nat) : 0 < 10 ^ k := Nat.pow_pos (by decide)

/-- `mant ≥ 10^s` with `s ≥ 330 + k`: `mant / 10^k ≥ 2^1024` -/
theorem big_hi_gen (A n mant s k : Nat) (c : A ≤ 10 ^ n) (hs : 10 ^ s ≤ mant) (h : n + k ≤ s) :
    A * 10 ^ k ≤ mant :=
  calc A * 10 ^ k ≤ 10 ^ n * 10 ^ k := Nat.mul_le_mul_right _ c
    _ = 10 ^ (n + k) := (Nat.pow_add _ _ _).symm
    _ ≤ 10 ^ s := Nat.pow_le_pow_right (by decide) h
    _ ≤ mant := hs

theorem big_hi (mant s k : Nat) (hs : 10 ^ s ≤ mant) (h : 330 + k ≤ s) :
    2 ^ 1024 * 10 ^ k ≤ mant := by
  have c := two_1024_le
  generalize 2 ^ 1024 = A at *
  exact big_hi_gen A 330 mant s k c hs h

theorem big_hi_mul_gen (A n mant s k : Nat) (c : A ≤ 10 ^ n) (hs : 10 ^ s ≤ mant)
    (h : n ≤ s + k) : A * 1 ≤ mant * 10 ^ k :=
  calc A * 1 = A := Nat.mul_one _
    _ ≤ 10 ^ n := c
    _ ≤ 10 ^ (s + k) := Nat.pow_le_pow_right (by decide) h
    _ = 10 ^ s * 10 ^ k := Nat.pow_add _ _ _
    _ ≤ mant * 10 ^ k := Nat.mul_le_mul_right _ hs

/-- `mant ≥ 10^s` with `s + k ≥ 330`: `mant · 10^k ≥ 2^1024` -/
theorem big_hi_mul (mant s k : Nat) (hs : 10 ^ s ≤ mant) (h : 330 ≤ s + k) :
    2 ^ 1024 * 1 ≤ mant * 10 ^ k := by
  have c := two_1024_le
  generalize 2 ^ 1024 = A at *
  exact big_hi_mul_gen A 330 mant s k c hs h

theorem big_lo_gen (A n mant l k : Nat) (c : A < 10 ^ n) (hl : mant < 10 ^ l) (h : l + n ≤ k) :
    mant * A < 10 ^ k :=
  calc mant * A ≤ mant * 10 ^ n := Nat.mul_le_mul_left _ (Nat.le_of_lt c)
    _ < 10 ^ l * 10 ^ n := Nat.mul_lt_mul_of_pos_right hl (ten_pow_pos _)
    _ = 10 ^ (l + n) := (Nat.pow_add _ _ _).symm
    _ ≤ 10 ^ k := Nat.pow_le_pow_right (by decide) h

/-- `mant < 10^l` with `l + 400 ≤ k`: `mant / 10^k < 2^-1076` -/
theorem big_lo (mant l k : Nat) (hl : mant < 10 ^ l) (h : l + 400 ≤ k) :
    mant * 2 ^ 1076 < 10 ^ k := by
  have c := two_1076_lt
  generalize 2 ^ 1076 = A at *
  exact big_lo_gen A 400 mant l k c hl h

/-! ### digit strings -/

theorem digitVal_le (c : Char) (hc : isDigit c = true) : digitVal c ≤ 9 := by
  rw [isDigit_iff] at hc
  unfold digitVal
  omega

theorem digitVal_pos (c : Char) (hc : isDigit c = true) (h0 : c ≠ '0') : 1 ≤ digitVal c := by
  rw [isDigit_iff] at hc
  unfold digitVal
  have : c.toNat ≠ 48 := by
    intro h
    apply h0
    rw [← Char.ofNat_toNat c, h]
  omega

theorem digitsToNat_cons (c : Char) (cs : List Char) :
    digitsToNat (c :: cs) = digitVal c * 10 ^ cs.length + digitsToNat cs := by
  rw [← List.singleton_append, digitsToNat_append]
  congr 2
  show 0 * 10 + digitVal c = digitVal c
  omega

theorem digitsToNat_lt (cs : List Char) (h : ∀ c ∈ cs, isDigit c = true) :
    digitsToNat cs < 10 ^ cs.length := by
  induction cs with
  | nil => decide
  | cons c cs ih =>
    have h1 := digitVal_le c (h c (by simp))
    have h2 := ih (fun c hc => h c (by simp [hc]))
    rw [digitsToNat_cons, List.length_cons, Nat.pow_succ]
    have h3 : digitVal c * 10 ^ cs.length ≤ 9 * 10 ^ cs.length := Nat.mul_le_mul_right _ h1
    omega

theorem digitsToNat_dropZeros (cs : List Char) :
    digitsToNat (cs.dropWhile (· == '0')) = digitsToNat cs := by
  induction cs with
  | nil => rfl
  | cons c cs ih =>
    by_cases hc : (c == '0') = true
    · rw [List.dropWhile_cons_of_pos (p := (· == '0')) (a := c) hc, ih, digitsToNat_cons]
      have : c = '0' := by simpa using hc
      subst this
      show _ = 0 * _ + _
      omega
    · rw [List.dropWhile_cons_of_neg (p := (· == '0')) (a := c) hc]

/-- the digits from the first non-zero one bound the value from below -/
theorem digitsToNat_sig' (cs : List Char) (h : ∀ c ∈ cs, isDigit c = true)
    (hs : 1 ≤ (cs.dropWhile (· == '0')).length) :
    10 ^ ((cs.dropWhile (· == '0')).length - 1) ≤ digitsToNat cs := by
  induction cs with
  | nil => simp at hs
  | cons c cs ih =>
    by_cases hc : (c == '0') = true
    · have hc0 : c = '0' := by simpa using hc
      have hv : digitsToNat (c :: cs) = digitsToNat cs := by
        rw [digitsToNat_cons, hc0]
        show 0 * _ + _ = _
        omega
      rw [List.dropWhile_cons_of_pos (p := (· == '0')) (a := c) hc] at hs ⊢
      rw [hv]
      exact ih (fun c hc => h c (by simp [hc])) hs
    · rw [List.dropWhile_cons_of_neg (p := (· == '0')) (a := c) hc, digitsToNat_cons]
      have hc0 : c ≠ '0' := by simpa using hc
      have h1 := digitVal_pos c (h c (by simp)) hc0
      have h3 : 1 * 10 ^ cs.length ≤ digitVal c * 10 ^ cs.length := Nat.mul_le_mul_right _ h1
      simp only [List.length_cons, Nat.add_sub_cancel]
      omega

theorem sig_pos (cs : List Char) (hne : digitsToNat cs ≠ 0) :
    1 ≤ (cs.dropWhile (· == '0')).length := by
  cases hd : cs.dropWhile (· == '0') with
  | nil =>
    rw [← digitsToNat_dropZeros, hd] at hne
    exact absurd rfl hne
  | cons c t => simp

theorem digitsToNat_sig (cs : List Char) (h : ∀ c ∈ cs, isDigit c = true)
    (hne : digitsToNat cs ≠ 0) :
    10 ^ ((cs.dropWhile (· == '0')).length - 1) ≤ digitsToNat cs :=
  digitsToNat_sig' cs h (sig_pos cs hne)

/-! ### the last stage of `parse`, clamped and exact -/

/-- the last stage of `parse` without any clamp (the same term as `Props.C13.parseFinExact`) -/
def exactFin (neg : Bool) (ip fp : List Char) (ex : Int) : UInt64 :=
  let mant := digitsToNat (ip ++ fp)
  let e10 : Int := ex - (fp.length : Int)
  if mant == 0 then (if neg then signBit else 0)
  else if e10 ≥ 0 then ofRat neg (mant * 10 ^ e10.toNat) 1
  else ofRat neg mant (10 ^ (-e10).toNat)

theorem all_digits_append (ip fp : List Char)
    (hip : ∀ c ∈ ip, isDigit c = true) (hfp : ∀ c ∈ fp, isDigit c = true) :
    ∀ c ∈ ip ++ fp, isDigit c = true := by
  intro c hc
  rcases List.mem_append.1 hc with h | h
  · exact hip c h
  · exact hfp c h

theorem parseFin_eq_exactFin (neg : Bool) (ip fp : List Char) (ex : Int)
    (hip : ∀ c ∈ ip, isDigit c = true) (hfp : ∀ c ∈ fp, isDigit c = true) :
    parseFin neg ip fp ex = exactFin neg ip fp ex := by
  have hd := all_digits_append ip fp hip hfp
  unfold parseFin exactFin
  dsimp only
  by_cases hm : digitsToNat (ip ++ fp) = 0
  · simp only [hm, beq_self_eq_true, if_true]
  · have hm' : (digitsToNat (ip ++ fp) == 0) = false := by rw [beq_eq_false_iff_ne]; exact hm
    simp only [hm', Bool.false_eq_true, if_false]
    have hsig := digitsToNat_sig _ hd hm
    have hsp := sig_pos _ hm
    have hlt := digitsToNat_lt _ hd
    generalize hS : ((ip ++ fp).dropWhile (· == '0')).length = S at *
    generalize hL : (ip ++ fp).length = L at *
    generalize hM : digitsToNat (ip ++ fp) = M at *
    generalize hE : ex - (fp.length : Int) = e10 at *
    have hMpos : 0 < M := Nat.pos_of_ne_zero hm
    by_cases h1 : (S : Int) + e10 > 330
    · rw [if_pos h1]
      by_cases h3 : e10 ≥ 0
      · rw [if_pos h3, ofRat_overflow neg _ 1 (by decide)
          (big_hi_mul M (S - 1) e10.toNat hsig (by omega))]
      · rw [if_neg h3, ofRat_overflow neg M (10 ^ (-e10).toNat) (ten_pow_pos _)
          (big_hi M (S - 1) (-e10).toNat hsig (by omega))]
    · rw [if_neg h1]
      by_cases h2 : (L : Int) + e10 < -400
      · rw [if_pos h2, if_neg (show ¬ e10 ≥ 0 by omega),
          ofRat_underflow neg M _ hMpos (ten_pow_pos _) (big_lo M L (-e10).toNat hlt (by omega))]
      · rw [if_neg h2]

/-- the exponent clamp: beyond `±10^7` nothing changes for mantissas of up to a million digits -/
theorem exactFin_big_exponent (neg : Bool) (ip fp : List Char) (ex : Int)
    (hip : ∀ c ∈ ip, isDigit c = true) (hfp : ∀ c ∈ fp, isDigit c = true)
    (hlen : ip.length + fp.length ≤ 1000000) (hbig : 10000000 ≤ ex.natAbs) :
    exactFin neg ip fp ex = exactFin neg ip fp (if ex < 0 then -10000000 else 10000000) := by
  have hd := all_digits_append ip fp hip hfp
  unfold exactFin
  dsimp only
  by_cases hm : digitsToNat (ip ++ fp) = 0
  · simp only [hm, beq_self_eq_true, if_true]
  · have hm' : (digitsToNat (ip ++ fp) == 0) = false := by rw [beq_eq_false_iff_ne]; exact hm
    simp only [hm', Bool.false_eq_true, if_false]
    have hlt := digitsToNat_lt _ hd
    rw [List.length_append] at hlt
    generalize hM : digitsToNat (ip ++ fp) = M at *
    have hMpos : 0 < M := Nat.pos_of_ne_zero hm
    have h1M : 10 ^ 0 ≤ M := hMpos
    by_cases hneg : ex < 0
    · rw [if_pos hneg, if_neg (by omega), if_neg (by omega),
        ofRat_underflow neg M _ hMpos (ten_pow_pos _) (big_lo M _ _ hlt (by omega)),
        ofRat_underflow neg M _ hMpos (ten_pow_pos _) (big_lo M _ _ hlt (by omega))]
    · rw [if_neg hneg, if_pos (by omega), if_pos (by omega),
        ofRat_overflow neg _ 1 (by decide) (big_hi_mul M 0 _ h1M (by omega)),
        ofRat_overflow neg _ 1 (by decide) (big_hi_mul M 0 _ h1M (by omega))]

/-- NEAREST DOUBLE for the exact stage -/
theorem exactFin_nearest (neg : Bool) (ip fp : List Char) (ex : Int) (m : Nat) (e : Int)
    (hv : ValidFin m e)
    (hin : InInterval m e
      (if ex - (fp.length : Int) ≥ 0 then digitsToNat (ip ++ fp) * 10 ^ (ex - (fp.length : Int)).toNat else digitsToNat (ip ++ fp))
      (if ex - (fp.length : Int) ≥ 0 then 1 else 10 ^ (-(ex - (fp.length : Int))).toNat)) :
    exactFin neg ip fp ex = UInt64.ofNat (encodePos m e + (if neg then 2 ^ 63 else 0)) := by
  unfold exactFin
  dsimp only
  by_cases h3 : ex - (fp.length : Int) ≥ 0
  · rw [if_pos h3, if_pos h3] at hin
    have hnum := InInterval_num_pos m e _ _ hv.1 (by decide) hin
    have hm : digitsToNat (ip ++ fp) ≠ 0 := by
      intro h; apply hnum; rw [h, Nat.zero_mul]
    have hm' : (digitsToNat (ip ++ fp) == 0) = false := by rw [beq_eq_false_iff_ne]; exact hm
    rw [hm', if_pos h3]
    simp only [Bool.false_eq_true, if_false]
    exact ofRat_of_round neg _ _ _ (roundRatPos_of_interval m e hv _ _ (by decide) hin)
  · rw [if_neg h3, if_neg h3] at hin
    have hm := InInterval_num_pos m e _ _ hv.1 (ten_pow_pos _) hin
    have hm' : (digitsToNat (ip ++ fp) == 0) = false := by rw [beq_eq_false_iff_ne]; exact hm
    rw [hm', if_neg h3]
    simp only [Bool.false_eq_true, if_false]
    exact ofRat_of_round neg _ _ _ (roundRatPos_of_interval m e hv _ _ (ten_pow_pos _) hin)

/-! ### texts with an exponent part -/

/-- the exponent the model reads: more than seven significant digits count as `10^7` -/
def evClamp (ed : List Char) : Nat :=
  if (ed.dropWhile (· == '0')).length > 7 then 10000000 else digitsToNat (ed.dropWhile (· == '0'))

/-- the sign split of the exponent part, as the matcher inside `parseBody` -/
abbrev signSplit (r : List Char) : Bool × List Char :=
  parseBody.match_6 (fun _ => Bool × List Char) r (fun t => (true, t)) (fun t => (false, t))
    (fun t => (false, t))

theorem signSplit_minus (t : List Char) : signSplit ('-' :: t) = (true, t) := rfl
theorem signSplit_plus (t : List Char) : signSplit ('+' :: t) = (false, t) := rfl

theorem signSplit_digit (d : Char) (t : List Char) (hd : isDigit d = true) :
    signSplit (d :: t) = (false, d :: t) := by
  unfold signSplit
  split
  · rename_i heq; exact absurd (List.cons.inj heq).1 (digit_ne d hd).1
  · rename_i heq; exact absurd (List.cons.inj heq).1 (digit_ne d hd).2.1
  · rfl

theorem match3_nodot {α : Type} (c : Char) (r : List Char) (f g : List Char → α) (hc : c ≠ '.') :
    parseBody.match_3 (fun _ => α) (c :: r) (fun a => f a) (fun a => g a) = g (c :: r) := by
  generalize h : parseBody.match_3 _ (c :: r) (fun a => f a) (fun a => g a) = p
  split at h
  · rename_i heq; exact absurd (List.cons.inj heq).1 hc
  · exact h.symm

theorem parseBody_dot_exp (neg : Bool) (body ip fpx fp ed r : List Char) (c : Char) (eneg : Bool)
    (h1 : (lower body == "inf".toList) = false) (h2 : (lower body == "infinity".toList) = false)
    (h3 : (lower body == "nan".toList) = false)
    (htd : takeDigits body = (ip, '.' :: fpx)) (htd2 : takeDigits fpx = (fp, c :: r))
    (hc : (c == 'e' || c == 'E') = true)
    (hr : signSplit r = (eneg, ed))
    (hted : takeDigits ed = (ed, [])) (hed : ed.isEmpty = false) (hne : ip.isEmpty = false) :
    parseBody neg body =
      some (parseFin neg ip fp (if eneg then -(evClamp ed : Int) else evClamp ed)) := by
  unfold signSplit at hr
  have hev : (if (ed.dropWhile (· == '0')).length > 7 then 10000000
      else digitsToNat (ed.dropWhile (· == '0'))) = evClamp ed := rfl
  unfold parseBody parseFin
  simp only [h1, h2, h3, htd, htd2, hne, hc, hr, hted, hed, Bool.or_self, Bool.false_eq_true,
    if_false, Bool.false_and, List.isEmpty_nil, Bool.not_true, if_true, hev]
  generalize (if eneg = true then -(evClamp ed : Int) else (evClamp ed : Int)) = EX
  repeat (first | rfl | split)

theorem parseBody_int_exp (neg : Bool) (body ip ed r : List Char) (c : Char) (eneg : Bool)
    (h1 : (lower body == "inf".toList) = false) (h2 : (lower body == "infinity".toList) = false)
    (h3 : (lower body == "nan".toList) = false)
    (htd : takeDigits body = (ip, c :: r))
    (hc : (c == 'e' || c == 'E') = true) (hcd : c ≠ '.')
    (hr : signSplit r = (eneg, ed))
    (hted : takeDigits ed = (ed, [])) (hed : ed.isEmpty = false) (hne : ip.isEmpty = false) :
    parseBody neg body =
      some (parseFin neg ip [] (if eneg then -(evClamp ed : Int) else evClamp ed)) := by
  unfold signSplit at hr
  have hev : (if (ed.dropWhile (· == '0')).length > 7 then 10000000
      else digitsToNat (ed.dropWhile (· == '0'))) = evClamp ed := rfl
  unfold parseBody parseFin
  simp only [h1, h2, h3, htd, Bool.or_self, Bool.false_eq_true, if_false]
  rw [match3_nodot _ _ _ _ hcd]
  simp only [hne, hc, hr, hted, hed, Bool.false_eq_true, if_false, Bool.false_and,
    List.isEmpty_nil, Bool.not_true, if_true, hev]
  generalize (if eneg = true then -(evClamp ed : Int) else (evClamp ed : Int)) = EX
  repeat (first | rfl | split)

/-- the characters that may follow the `e`: an optional sign -/
def SignChars (sg : List Char) (eneg : Bool) : Prop :=
  (sg = ['-'] ∧ eneg = true) ∨ (sg = ['+'] ∧ eneg = false) ∨ (sg = [] ∧ eneg = false)

theorem signSplit_signChars (sg ed : List Char) (eneg : Bool) (hs : SignChars sg eneg)
    (hed : ed ≠ []) (hedd : ∀ c ∈ ed, isDigit c = true) : signSplit (sg ++ ed) = (eneg, ed) := by
  rcases hs with ⟨rfl, rfl⟩ | ⟨rfl, rfl⟩ | ⟨rfl, rfl⟩
  · rfl
  · rfl
  · cases ed with
    | nil => exact absurd rfl hed
    | cons d t => exact signSplit_digit d t (hedd d (by simp))

theorem expChar_facts (c : Char) (hc : c = 'e' ∨ c = 'E') :
    isDigit c = false ∧ (c == 'e' || c == 'E') = true ∧ c ≠ '.' := by
  rcases hc with rfl | rfl <;> decide

/-- `-?ddd.ddd[eE][+-]?ddd`, up to the clamped stage -/
theorem parse_dot_exp_fin (neg : Bool) (ip fp ed sg : List Char) (c : Char) (eneg : Bool)
    (hne : ip ≠ []) (hed : ed ≠ [])
    (hip : ∀ c ∈ ip, isDigit c = true) (hfp : ∀ c ∈ fp, isDigit c = true)
    (hedd : ∀ c ∈ ed, isDigit c = true) (hc : c = 'e' ∨ c = 'E') (hs : SignChars sg eneg) :
    parse (signCs neg ++ (ip ++ '.' :: (fp ++ c :: (sg ++ ed)))) =
      some (parseFin neg ip fp (if eneg then -(evClamp ed : Int) else evClamp ed)) := by
  obtain ⟨hc1, hc2, _⟩ := expChar_facts c hc
  cases ip with
  | nil => exact absurd rfl hne
  | cons d ip' =>
    have hd := hip d (by simp)
    rw [List.cons_append, parse_sign neg d _ hd, ← List.cons_append]
    have hl := lower_digit_ne d (ip' ++ '.' :: (fp ++ c :: (sg ++ ed))) hd
    rw [← List.cons_append] at hl
    refine parseBody_dot_exp neg _ (d :: ip') _ fp ed (sg ++ ed) c eneg hl.1 hl.2.1 hl.2.2
      (takeDigits_dot _ _ hip) ?_ hc2 (signSplit_signChars sg ed eneg hs hed hedd)
      (takeDigits_all ed hedd) ?_ rfl
    · apply takeDigits_append fp _ hfp
      intro c' r he
      rw [← (List.cons.inj he).1]
      exact hc1
    · cases ed with
      | nil => exact absurd rfl hed
      | cons _ _ => rfl

/-- `-?ddd[eE][+-]?ddd`, up to the clamped stage -/
theorem parse_int_exp_fin (neg : Bool) (ip ed sg : List Char) (c : Char) (eneg : Bool)
    (hne : ip ≠ []) (hed : ed ≠ [])
    (hip : ∀ c ∈ ip, isDigit c = true)
    (hedd : ∀ c ∈ ed, isDigit c = true) (hc : c = 'e' ∨ c = 'E') (hs : SignChars sg eneg) :
    parse (signCs neg ++ (ip ++ c :: (sg ++ ed))) =
      some (parseFin neg ip [] (if eneg then -(evClamp ed : Int) else evClamp ed)) := by
  obtain ⟨hc1, hc2, hc3⟩ := expChar_facts c hc
  cases ip with
  | nil => exact absurd rfl hne
  | cons d ip' =>
    have hd := hip d (by simp)
    rw [List.cons_append, parse_sign neg d _ hd, ← List.cons_append]
    have hl := lower_digit_ne d (ip' ++ c :: (sg ++ ed)) hd
    rw [← List.cons_append] at hl
    refine parseBody_int_exp neg _ (d :: ip') ed (sg ++ ed) c eneg hl.1 hl.2.1 hl.2.2
      ?_ hc2 hc3 (signSplit_signChars sg ed eneg hs hed hedd)
      (takeDigits_all ed hedd) ?_ rfl
    · apply takeDigits_append (d :: ip') _ hip
      intro c' r he
      rw [← (List.cons.inj he).1]
      exact hc1
    · cases ed with
      | nil => exact absurd rfl hed
      | cons _ _ => rfl

/-- the exponent clamp does not change the exact stage -/
theorem exactFin_evClamp (neg : Bool) (ip fp ed : List Char) (eneg : Bool)
    (hip : ∀ c ∈ ip, isDigit c = true) (hfp : ∀ c ∈ fp, isDigit c = true)
    (hedd : ∀ c ∈ ed, isDigit c = true) (hlen : ip.length + fp.length ≤ 1000000) :
    exactFin neg ip fp (if eneg then -(evClamp ed : Int) else evClamp ed) =
      exactFin neg ip fp (if eneg then -(digitsToNat ed : Int) else digitsToNat ed) := by
  unfold evClamp
  by_cases h : (ed.dropWhile (· == '0')).length > 7
  · rw [if_pos h]
    have h1 := digitsToNat_sig' ed hedd (by omega)
    have h2 : 10 ^ 7 ≤ 10 ^ ((ed.dropWhile (· == '0')).length - 1) :=
      Nat.pow_le_pow_right (by decide) (by omega)
    have h3 : (10 : Nat) ^ 7 = 10000000 := by decide
    have hN : 10000000 ≤ digitsToNat ed := by omega
    generalize digitsToNat ed = N at *
    cases eneg
    · have hb := exactFin_big_exponent neg ip fp (N : Int) hip hfp hlen (by omega)
      rw [if_neg (by omega)] at hb
      simp only [Bool.false_eq_true, if_false]
      rw [hb]
      rfl
    · have hb := exactFin_big_exponent neg ip fp (-(N : Int)) hip hfp hlen (by omega)
      rw [if_pos (by omega)] at hb
      simp only [if_true]
      rw [hb]
      rfl
  · rw [if_neg h, digitsToNat_dropZeros]

/-- `-?ddd.ddd[eE][+-]?ddd` parses to the exact stage at the exponent the text denotes -/
theorem parse_dot_exp_exact (neg : Bool) (ip fp ed sg : List Char) (c : Char) (eneg : Bool)
    (hne : ip ≠ []) (hed : ed ≠ [])
    (hip : ∀ c ∈ ip, isDigit c = true) (hfp : ∀ c ∈ fp, isDigit c = true)
    (hedd : ∀ c ∈ ed, isDigit c = true) (hlen : ip.length + fp.length ≤ 1000000)
    (hc : c = 'e' ∨ c = 'E') (hs : SignChars sg eneg) :
    parse (signCs neg ++ (ip ++ '.' :: (fp ++ c :: (sg ++ ed)))) =
      some (exactFin neg ip fp (if eneg then -(digitsToNat ed : Int) else digitsToNat ed)) := by
  rw [parse_dot_exp_fin neg ip fp ed sg c eneg hne hed hip hfp hedd hc hs,
    parseFin_eq_exactFin neg ip fp _ hip hfp, exactFin_evClamp neg ip fp ed eneg hip hfp hedd hlen]

theorem parse_int_exp_exact (neg : Bool) (ip ed sg : List Char) (c : Char) (eneg : Bool)
    (hne : ip ≠ []) (hed : ed ≠ [])
    (hip : ∀ c ∈ ip, isDigit c = true)
    (hedd : ∀ c ∈ ed, isDigit c = true) (hlen : ip.length ≤ 1000000)
    (hc : c = 'e' ∨ c = 'E') (hs : SignChars sg eneg) :
    parse (signCs neg ++ (ip ++ c :: (sg ++ ed))) =
      some (exactFin neg ip [] (if eneg then -(digitsToNat ed : Int) else digitsToNat ed)) := by
  have hnil : ∀ c ∈ ([] : List Char), isDigit c = true := by simp
  rw [parse_int_exp_fin neg ip ed sg c eneg hne hed hip hedd hc hs,
    parseFin_eq_exactFin neg ip [] _ hip hnil,
    exactFin_evClamp neg ip [] ed eneg hip hnil hedd (by simpa using hlen)]

end Cel.F64
