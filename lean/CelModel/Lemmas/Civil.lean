import CelModel.Lemmas.CivilCheck
import CelModel.Lemmas.CivilTable0
import CelModel.Lemmas.CivilTable1
import CelModel.Lemmas.CivilTable2
import CelModel.Lemmas.CivilTable3
import CelModel.Lemmas.CivilTable4
import CelModel.Lemmas.CivilTable5
import CelModel.Lemmas.CivilTable6
import CelModel.Lemmas.CivilTable7
import CelModel.Lemmas.CivilTable8
import CelModel.Lemmas.CivilTable9
import CelModel.Lemmas.CivilTable10
import CelModel.Lemmas.CivilTable11
import CelModel.Lemmas.CivilTable12
import CelModel.Lemmas.CivilTable13
import CelModel.Lemmas.CivilTable14
import CelModel.Lemmas.CivilTable15
/-!
# The era tables assembled, and the calendar round trips derived from them
-/
namespace Cel.Time.Table

theorem doe_table (doe : Nat) (h : doe < 146097) : checkDoe doe = true := by
  by_cases h0 : doe < 9132
  · exact checkRange_spec _ _ _ doeChunk0 doe (by omega) (by omega)
  by_cases h1 : doe < 18264
  · exact checkRange_spec _ _ _ doeChunk1 doe (by omega) (by omega)
  by_cases h2 : doe < 27396
  · exact checkRange_spec _ _ _ doeChunk2 doe (by omega) (by omega)
  by_cases h3 : doe < 36528
  · exact checkRange_spec _ _ _ doeChunk3 doe (by omega) (by omega)
  by_cases h4 : doe < 45660
  · exact checkRange_spec _ _ _ doeChunk4 doe (by omega) (by omega)
  by_cases h5 : doe < 54792
  · exact checkRange_spec _ _ _ doeChunk5 doe (by omega) (by omega)
  by_cases h6 : doe < 63924
  · exact checkRange_spec _ _ _ doeChunk6 doe (by omega) (by omega)
  by_cases h7 : doe < 73056
  · exact checkRange_spec _ _ _ doeChunk7 doe (by omega) (by omega)
  by_cases h8 : doe < 82188
  · exact checkRange_spec _ _ _ doeChunk8 doe (by omega) (by omega)
  by_cases h9 : doe < 91320
  · exact checkRange_spec _ _ _ doeChunk9 doe (by omega) (by omega)
  by_cases h10 : doe < 100452
  · exact checkRange_spec _ _ _ doeChunk10 doe (by omega) (by omega)
  by_cases h11 : doe < 109584
  · exact checkRange_spec _ _ _ doeChunk11 doe (by omega) (by omega)
  by_cases h12 : doe < 118716
  · exact checkRange_spec _ _ _ doeChunk12 doe (by omega) (by omega)
  by_cases h13 : doe < 127848
  · exact checkRange_spec _ _ _ doeChunk13 doe (by omega) (by omega)
  by_cases h14 : doe < 136980
  · exact checkRange_spec _ _ _ doeChunk14 doe (by omega) (by omega)
  exact checkRange_spec _ _ _ doeChunk15 doe (by omega) (by omega)

theorem ymd_table (n : Nat) (h : n < 148800) : checkYmd n = true := by
  by_cases h0 : n < 9300
  · exact checkRange_spec _ _ _ ymdChunk0 n (by omega) (by omega)
  by_cases h1 : n < 18600
  · exact checkRange_spec _ _ _ ymdChunk1 n (by omega) (by omega)
  by_cases h2 : n < 27900
  · exact checkRange_spec _ _ _ ymdChunk2 n (by omega) (by omega)
  by_cases h3 : n < 37200
  · exact checkRange_spec _ _ _ ymdChunk3 n (by omega) (by omega)
  by_cases h4 : n < 46500
  · exact checkRange_spec _ _ _ ymdChunk4 n (by omega) (by omega)
  by_cases h5 : n < 55800
  · exact checkRange_spec _ _ _ ymdChunk5 n (by omega) (by omega)
  by_cases h6 : n < 65100
  · exact checkRange_spec _ _ _ ymdChunk6 n (by omega) (by omega)
  by_cases h7 : n < 74400
  · exact checkRange_spec _ _ _ ymdChunk7 n (by omega) (by omega)
  by_cases h8 : n < 83700
  · exact checkRange_spec _ _ _ ymdChunk8 n (by omega) (by omega)
  by_cases h9 : n < 93000
  · exact checkRange_spec _ _ _ ymdChunk9 n (by omega) (by omega)
  by_cases h10 : n < 102300
  · exact checkRange_spec _ _ _ ymdChunk10 n (by omega) (by omega)
  by_cases h11 : n < 111600
  · exact checkRange_spec _ _ _ ymdChunk11 n (by omega) (by omega)
  by_cases h12 : n < 120900
  · exact checkRange_spec _ _ _ ymdChunk12 n (by omega) (by omega)
  by_cases h13 : n < 130200
  · exact checkRange_spec _ _ _ ymdChunk13 n (by omega) (by omega)
  by_cases h14 : n < 139500
  · exact checkRange_spec _ _ _ ymdChunk14 n (by omega) (by omega)
  exact checkRange_spec _ _ _ ymdChunk15 n (by omega) (by omega)
theorem dimYoe_le (yoe m : Nat) : dimYoe yoe m ≤ 31 := by
  unfold dimYoe; split <;> try omega
  split <;> omega

theorem civilOfDoe_spec (doe : Nat) (h : doe < 146097) :
    ∃ yoe m d, civilOfDoe doe = (yoe, m, d) ∧ doeOfCivil yoe m d = doe ∧ yoe < 400 ∧
      1 ≤ m ∧ m ≤ 12 ∧ 1 ≤ d ∧ d ≤ dimYoe yoe m := by
  exact checkDoe_sound doe (doe_table doe h)

theorem doeOfCivil_spec (yoe m d : Nat) (hy : yoe < 400) (hm1 : 1 ≤ m) (hm : m ≤ 12)
    (hd1 : 1 ≤ d) (hd : d ≤ dimYoe yoe m) :
    doeOfCivil yoe m d < 146097 ∧ civilOfDoe (doeOfCivil yoe m d) = (yoe, m, d) := by
  have hd31 := dimYoe_le yoe m
  have ht := ymd_table ((yoe * 12 + (m - 1)) * 31 + (d - 1)) (by omega)
  have e1 : ((yoe * 12 + (m - 1)) * 31 + (d - 1)) / 372 = yoe := by omega
  have e2 : ((yoe * 12 + (m - 1)) * 31 + (d - 1)) / 31 % 12 + 1 = m := by omega
  have e3 : ((yoe * 12 + (m - 1)) * 31 + (d - 1)) % 31 + 1 = d := by omega
  have hs := checkYmd_sound _ ht (by rw [e1, e2, e3]; exact hd)
  rw [e1, e2, e3] at hs
  exact hs

theorem isLeap_eq (y : Int) (n : Nat) (e : Int) (h : y = n + e * 400) : isLeap y = leapN n := by
  have h4 : y % 4 = ((n % 4 : Nat) : Int) := by omega
  have h100 : y % 100 = ((n % 100 : Nat) : Int) := by omega
  have h400 : y % 400 = ((n % 400 : Nat) : Int) := by omega
  unfold isLeap leapN
  rw [h4, h100, h400]
  simp only [← Int.natCast_zero, Int.natCast_inj, bne, BEq.beq]

theorem daysInMonth_eq (yoe m : Nat) (era : Int) :
    daysInMonth (if m ≤ 2 then (yoe : Int) + era * 400 + 1 else (yoe : Int) + era * 400) m
      = dimYoe yoe m := by
  unfold daysInMonth dimYoe
  split
  · simp only [Nat.le_refl, if_true]
    rw [isLeap_eq _ (yoe + 1) era (by simp; omega)]
  all_goals (split <;> first | rfl | simp_all)

end Cel.Time.Table

namespace Cel.Time
open Table

theorem civilFromDays_spec (z : Int) :
    ∃ y m d, civilFromDays z = (y, m, d) ∧ daysFromCivil y m d = z ∧ 1 ≤ m ∧ m ≤ 12 ∧ 1 ≤ d ∧
      d ≤ daysInMonth y m := by
  obtain ⟨yoe, m, d, hc, hdoe, hy, hm1, hm, hd1, hd⟩ :=
    civilOfDoe_spec ((z + 719468) % 146097).toNat (by omega)
  refine ⟨(if m ≤ 2 then (yoe : Int) + (z + 719468) / 146097 * 400 + 1
          else (yoe : Int) + (z + 719468) / 146097 * 400), m, d, ?_, ?_, hm1, hm, hd1, ?_⟩
  · simp only [civilFromDays, hc]
  · simp only [daysFromCivil]
    have e0 : (if m ≤ 2 then (if m ≤ 2 then (yoe : Int) + (z + 719468) / 146097 * 400 + 1
          else (yoe : Int) + (z + 719468) / 146097 * 400) - 1
        else (if m ≤ 2 then (yoe : Int) + (z + 719468) / 146097 * 400 + 1
          else (yoe : Int) + (z + 719468) / 146097 * 400))
        = (yoe : Int) + (z + 719468) / 146097 * 400 := by
      split <;> omega
    rw [e0]
    have e1 : ((yoe : Int) + (z + 719468) / 146097 * 400) / 400 = (z + 719468) / 146097 := by omega
    have e2 : (((yoe : Int) + (z + 719468) / 146097 * 400) % 400).toNat = yoe := by omega
    rw [e1, e2, hdoe]
    omega
  · rw [daysInMonth_eq]; exact hd

theorem civilFromDays_daysFromCivil (y : Int) (m d : Nat) (hm1 : 1 ≤ m) (hm : m ≤ 12)
    (hd1 : 1 ≤ d) (hd : d ≤ daysInMonth y m) :
    civilFromDays (daysFromCivil y m d) = (y, m, d) := by
  generalize hy' : (if m ≤ 2 then y - 1 else y) = y'
  have hyeq : y = if m ≤ 2 then ((y' % 400).toNat : Int) + y' / 400 * 400 + 1
      else ((y' % 400).toNat : Int) + y' / 400 * 400 := by
    split at hy' <;> simp [*] <;> omega
  have hd' : d ≤ dimYoe (y' % 400).toNat m := by
    rw [← daysInMonth_eq _ _ (y' / 400), ← hyeq]; exact hd
  obtain ⟨hlt', hciv⟩ := doeOfCivil_spec (y' % 400).toNat m d (by omega) hm1 hm hd1 hd'
  simp only [daysFromCivil, hy']
  generalize doeOfCivil (y' % 400).toNat m d = doe at hlt' hciv
  simp only [civilFromDays]
  have e1 : (y' / 400 * 146097 + (doe : Int) - 719468 + 719468) / 146097 = y' / 400 := by omega
  have e2 : ((y' / 400 * 146097 + (doe : Int) - 719468 + 719468) % 146097).toNat = doe := by omega
  rw [e1, e2, hciv]
  simp only
  rw [← hyeq]

end Cel.Time
