import CelModel.Parser
/-!
# One-step unfolding rules and precedence-level lifting lemmas for the parser model

Used by `CelModel/Props/C04.lean` (round trip of the fully parenthesised rendering).
Every parser function hands `fuel - 1` to its callees; the rules below are stated on `f + 1`.
-/
namespace Cel.Lemmas.ParserSteps
open Cel Cel.Lexer Cel.Parser

/-- the head symbol of a token list (`""` when the list is empty or starts with a non-symbol) -/
def hd : Toks → String
  | .sym s :: _ => s
  | _ => ""

@[simp] theorem hd_nil : hd [] = "" := rfl
@[simp] theorem hd_sym (s : String) (r : Toks) : hd (.sym s :: r) = s := rfl

theorem parseExpr_stop {f : Nat} {ts r : Toks} {c : Expr}
    (h : parseOr f ts = some (c, r)) (hq : hd r ≠ "?") : parseExpr (f + 1) ts = some (c, r) := by
  rw [parseExpr, h]
  split <;> simp_all [hd]

theorem parseExpr_cond {f : Nat} {ts r r2 r3 : Toks} {c a b : Expr}
    (h : parseOr f ts = some (c, .sym "?" :: r)) (h2 : parseOr f r = some (a, .sym ":" :: r2))
    (h3 : parseExpr f r2 = some (b, r3)) :
    parseExpr (f + 1) ts = some (.call "_?_:_" [c, a, b], r3) := by
  rw [parseExpr, h]
  simp only [h2, h3]

theorem parseOr_of {f : Nat} {ts r : Toks} {t : Expr} (h : parseAnd f ts = some (t, r)) :
    parseOr (f + 1) ts = (match parseOrRest f r [t] with
       | some (terms, r') => some (logicExpr "_||_" terms.reverse, r')
       | none => none) := by
  rw [parseOr, h]; rfl

theorem parseOrRest_stop {f : Nat} {ts : Toks} {acc : List Expr} (h : hd ts ≠ "||") :
    parseOrRest (f + 1) ts acc = some (acc, ts) := by
  rw [parseOrRest.eq_3]
  intro r hr; subst hr; exact h rfl

theorem parseOrRest_step {f : Nat} {r r' : Toks} {acc : List Expr} {t : Expr}
    (h : parseAnd f r = some (t, r')) :
    parseOrRest (f + 1) (.sym "||" :: r) acc = parseOrRest f r' (t :: acc) := by
  rw [parseOrRest, h]

theorem parseAnd_of {f : Nat} {ts r : Toks} {t : Expr} (h : parseRel f ts = some (t, r)) :
    parseAnd (f + 1) ts = (match parseAndRest f r [t] with
       | some (terms, r') => some (logicExpr "_&&_" terms.reverse, r')
       | none => none) := by
  rw [parseAnd, h]; rfl

theorem parseAndRest_stop {f : Nat} {ts : Toks} {acc : List Expr} (h : hd ts ≠ "&&") :
    parseAndRest (f + 1) ts acc = some (acc, ts) := by
  rw [parseAndRest.eq_3]
  intro r hr; subst hr; exact h rfl

theorem parseAndRest_step {f : Nat} {r r' : Toks} {acc : List Expr} {t : Expr}
    (h : parseRel f r = some (t, r')) :
    parseAndRest (f + 1) (.sym "&&" :: r) acc = parseAndRest f r' (t :: acc) := by
  rw [parseAndRest, h]

theorem parseRel_of {f : Nat} {ts r : Toks} {l : Expr} (h : parseAdd f ts = some (l, r)) :
    parseRel (f + 1) ts = parseRelRest f r l := by
  rw [parseRel, h]

theorem parseRelRest_stop {f : Nat} {ts : Toks} {l : Expr} (h : relOpName (hd ts) = none) :
    parseRelRest (f + 1) ts l = some (l, ts) := by
  match ts, h with
  | .sym t :: r, h => rw [parseRelRest.eq_2]; simp only [hd] at h; simp only [h]
  | [], _ => rw [parseRelRest.eq_3]; intro t r hr; cases hr
  | .ident _ :: _, _ | .escIdent _ :: _, _ | .int _ :: _, _ | .uint _ :: _, _ | .float _ :: _, _
  | .str _ :: _, _ | .bytes _ :: _, _ => rw [parseRelRest.eq_3]; intro t r hr; cases hr

theorem parseRelRest_step {f : Nat} {s op : String} {r r' : Toks} {l rhs : Expr}
    (hop : relOpName s = some op) (h : parseAdd f r = some (rhs, r')) :
    parseRelRest (f + 1) (.sym s :: r) l = parseRelRest f r' (.call op [l, rhs]) := by
  rw [parseRelRest]; simp only [hop, h]

theorem parseAdd_of {f : Nat} {ts r : Toks} {l : Expr} (h : parseMul f ts = some (l, r)) :
    parseAdd (f + 1) ts = parseAddRest f r l := by
  rw [parseAdd, h]

theorem parseAddRest_stop {f : Nat} {ts : Toks} {l : Expr} (h : addOpName (hd ts) = none) :
    parseAddRest (f + 1) ts l = some (l, ts) := by
  match ts, h with
  | .sym t :: r, h => rw [parseAddRest.eq_2]; simp only [hd] at h; simp only [h]
  | [], _ => rw [parseAddRest.eq_3]; intro t r hr; cases hr
  | .ident _ :: _, _ | .escIdent _ :: _, _ | .int _ :: _, _ | .uint _ :: _, _ | .float _ :: _, _
  | .str _ :: _, _ | .bytes _ :: _, _ => rw [parseAddRest.eq_3]; intro t r hr; cases hr

theorem parseAddRest_step {f : Nat} {s op : String} {r r' : Toks} {l rhs : Expr}
    (hop : addOpName s = some op) (h : parseMul f r = some (rhs, r')) :
    parseAddRest (f + 1) (.sym s :: r) l = parseAddRest f r' (.call op [l, rhs]) := by
  rw [parseAddRest]; simp only [hop, h]

theorem parseMul_of {f : Nat} {ts r : Toks} {l : Expr} (h : parseUnary f ts = some (l, r)) :
    parseMul (f + 1) ts = parseMulRest f r l := by
  rw [parseMul, h]

theorem parseMulRest_stop {f : Nat} {ts : Toks} {l : Expr} (h : mulOpName (hd ts) = none) :
    parseMulRest (f + 1) ts l = some (l, ts) := by
  match ts, h with
  | .sym t :: r, h => rw [parseMulRest.eq_2]; simp only [hd] at h; simp only [h]
  | [], _ => rw [parseMulRest.eq_3]; intro t r hr; cases hr
  | .ident _ :: _, _ | .escIdent _ :: _, _ | .int _ :: _, _ | .uint _ :: _, _ | .float _ :: _, _
  | .str _ :: _, _ | .bytes _ :: _, _ => rw [parseMulRest.eq_3]; intro t r hr; cases hr

theorem parseMulRest_step {f : Nat} {s op : String} {r r' : Toks} {l rhs : Expr}
    (hop : mulOpName s = some op) (h : parseUnary f r = some (rhs, r')) :
    parseMulRest (f + 1) (.sym s :: r) l = parseMulRest f r' (.call op [l, rhs]) := by
  rw [parseMulRest]; simp only [hop, h]

/-! ## runs of a prefix operator -/

theorem runLen_replicate (s : String) (n : Nat) (rest : Toks) :
    runLen s (List.replicate n (.sym s) ++ rest) = n + runLen s rest := by
  induction n with
  | zero => simp
  | succ k ih => simp [List.replicate_succ, runLen, ih]; omega

theorem runLen_other (s s' : String) (h : (s' == s) = false) (n : Nat) (hn : 0 < n) (rest : Toks) :
    runLen s (List.replicate n (.sym s') ++ rest) = 0 := by
  cases n with
  | zero => omega
  | succ k => simp [List.replicate_succ, runLen, h]

theorem drop_replicate_append (n : Nat) (a : Tok) (rest : Toks) :
    (List.replicate n a ++ rest).drop n = rest := by
  simp


theorem parseUnary_succ (fuel : Nat) (ts : Toks) : parseUnary (fuel + 1) ts =
    (if runLen "!" ts > 0 then
      match parseMember fuel (ts.drop (runLen "!" ts)) with
      | some (m, r) => some (if runLen "!" ts % 2 == 0 then m else .call "!_" [m], r)
      | none => none
    else if runLen "-" ts > 0 then
      if (runLen "-" ts == 1 && (match ts.drop 1 with
        | .int _ :: _ => true | .float _ :: _ => true | _ => false)) = true then parseMember fuel ts
      else
        match parseMember fuel (ts.drop (runLen "-" ts)) with
        | some (m, r) => some (if runLen "-" ts % 2 == 0 then m else .call "-_" [m], r)
        | none => none
    else parseMember fuel ts) := by
  rw [parseUnary]; rfl

theorem parseUnary_plain {f : Nat} {ts : Toks} (h1 : runLen "!" ts = 0) (h2 : runLen "-" ts = 0) :
    parseUnary (f + 1) ts = parseMember f ts := by
  rw [parseUnary_succ]; simp only [h1, h2, gt_iff_lt, Nat.lt_irrefl, if_false]

theorem parseUnary_not_paren {f : Nat} {ts r : Toks} {m : Expr}
    (h : parseMember f (.sym "(" :: ts) = some (m, r)) :
    parseUnary (f + 1) (.sym "!" :: .sym "(" :: ts) = some (.call "!_" [m], r) := by
  rw [parseUnary_succ]
  simp [runLen, h]

theorem parseUnary_neg_paren {f : Nat} {ts r : Toks} {m : Expr}
    (h : parseMember f (.sym "(" :: ts) = some (m, r)) :
    parseUnary (f + 1) (.sym "-" :: .sym "(" :: ts) = some (.call "-_" [m], r) := by
  rw [parseUnary_succ]
  simp [runLen, h]

theorem parseMember_of {f : Nat} {ts r : Toks} {p : Expr} (h : parsePrimary f ts = some (p, r)) :
    parseMember (f + 1) ts = parseSuffix f r p := by
  rw [parseMember, h]

theorem parseSuffix_stop {f : Nat} {ts : Toks} {e : Expr} (h1 : hd ts ≠ ".") (h2 : hd ts ≠ "[") :
    parseSuffix (f + 1) ts e = some (e, ts) := by
  rw [parseSuffix.eq_6] <;> (intros; subst_vars; simp [hd] at h1 h2)

theorem parseSuffix_index {f : Nat} {r r' : Toks} {e i : Expr}
    (h : parseExpr f r = some (i, .sym "]" :: r')) :
    parseSuffix (f + 1) (.sym "[" :: r) e = parseSuffix f r' (.call "_[_]" [e, i]) := by
  rw [parseSuffix.eq_5, h]; rfl

theorem parseSuffix_select {f : Nat} {r : Toks} {e : Expr} {fld : Str} (h : hd r ≠ "(") :
    parseSuffix (f + 1) (.sym "." :: .ident fld :: r) e = parseSuffix f r (.select e fld false) := by
  rw [parseSuffix.eq_3]
  intro r1 hr; subst hr; exact h rfl

theorem parsePrimary_paren {f : Nat} {r r' : Toks} {e : Expr}
    (h : parseExpr f r = some (e, .sym ")" :: r')) :
    parsePrimary (f + 1) (.sym "(" :: r) = some (e, r') := by
  rw [parsePrimary.eq_12, h]; rfl

theorem parsePrimary_int (f : Nat) (t : Str) (r : Toks) :
    parsePrimary (f + 1) (.int t :: r) = (intLiteral false t).map (·, r) := by
  rw [parsePrimary.eq_4]

theorem messageHead_ident (k : Nat) (n : Str) (r : Toks) (h1 : hd r ≠ ".") (h2 : hd r ≠ "{") :
    messageHead k (.ident n :: r) = none := by
  cases k with
  | zero => rfl
  | succ k =>
    rw [messageHead.eq_4] <;> (intro n' r' hr; cases hr; simp [hd] at h1 h2)
theorem parsePrimary_ident {f : Nat} {n : Str} {r : Toks}
    (h1 : hd r ≠ ".") (h2 : hd r ≠ "{") (h3 : hd r ≠ "(") :
    parsePrimary (f + 1) (.ident n :: r) = some (.ident (String.ofList n), r) := by
  rw [parsePrimary.eq_21, messageHead_ident _ _ _ h1 h2]
  intro r' hr; subst hr; exact h3 rfl

/-! ## binding level of the symbol that follows a sub-expression -/

/-- 0: continues a primary/member (`.`, `[`, `{`, `(`); 1..6: operator of that precedence level;
7: closes everything -/
def lvl (s : String) : Nat :=
  if s = "." ∨ s = "[" ∨ s = "{" ∨ s = "(" then 0
  else if (mulOpName s).isSome then 1
  else if (addOpName s).isSome then 2
  else if (relOpName s).isSome then 3
  else if s = "&&" then 4
  else if s = "||" then 5
  else if s = "?" then 6
  else 7

theorem lvl_rparen : lvl ")" = 7 := by decide
theorem lvl_rbrack : lvl "]" = 7 := by decide
theorem lvl_colon : lvl ":" = 7 := by decide
theorem lvl_empty : lvl "" = 7 := by decide
theorem lvl_quest : lvl "?" = 6 := by decide
theorem lvl_or : lvl "||" = 5 := by decide
theorem lvl_and : lvl "&&" = 4 := by decide

theorem mulOp_cases {s nm : String} (h : mulOpName s = some nm) : s = "*" ∨ s = "/" ∨ s = "%" := by
  unfold mulOpName at h
  split at h <;> simp_all
theorem addOp_cases {s nm : String} (h : addOpName s = some nm) : s = "+" ∨ s = "-" := by
  unfold addOpName at h
  split at h <;> simp_all
theorem relOp_cases {s nm : String} (h : relOpName s = some nm) :
    s = "<" ∨ s = "<=" ∨ s = ">=" ∨ s = ">" ∨ s = "==" ∨ s = "!=" ∨ s = "in" := by
  unfold relOpName at h
  split at h <;> simp_all

theorem mulOp_lvl {s nm : String} (h : mulOpName s = some nm) : lvl s = 1 := by
  rcases mulOp_cases h with rfl | rfl | rfl <;> decide
theorem addOp_lvl {s nm : String} (h : addOpName s = some nm) : lvl s = 2 := by
  rcases addOp_cases h with rfl | rfl <;> decide
theorem relOp_lvl {s nm : String} (h : relOpName s = some nm) : lvl s = 3 := by
  rcases relOp_cases h with rfl | rfl | rfl | rfl | rfl | rfl | rfl <;> decide

theorem lvl_pos {s : String} (h : 0 < lvl s) : s ≠ "." ∧ s ≠ "[" ∧ s ≠ "{" ∧ s ≠ "(" := by
  unfold lvl at h
  split at h
  · omega
  · rename_i h'; simpa [not_or] using h'

theorem lvl_gt1 {s : String} (h : 1 < lvl s) : mulOpName s = none := by
  unfold lvl at h
  split at h; omega
  split at h; omega
  rename_i h'; simpa using h'
theorem lvl_gt2 {s : String} (h : 2 < lvl s) : addOpName s = none := by
  unfold lvl at h
  split at h; omega
  split at h; omega
  split at h; omega
  rename_i h'; simpa using h'
theorem lvl_gt3 {s : String} (h : 3 < lvl s) : relOpName s = none := by
  unfold lvl at h
  split at h; omega
  split at h; omega
  split at h; omega
  split at h; omega
  rename_i h'; simpa using h'
theorem lvl_gt4 {s : String} (h : 4 < lvl s) : s ≠ "&&" := by
  rintro rfl; rw [lvl_and] at h; omega
theorem lvl_gt5 {s : String} (h : 5 < lvl s) : s ≠ "||" := by
  rintro rfl; rw [lvl_or] at h; omega
theorem lvl_gt6 {s : String} (h : 6 < lvl s) : s ≠ "?" := by
  rintro rfl; rw [lvl_quest] at h; omega


/-! ## lifting a result through the precedence levels -/

theorem up_member {g : Nat} {ts r : Toks} {e : Expr} (h : parsePrimary (g + 1) ts = some (e, r))
    (hl : 0 < lvl (hd r)) : parseMember (g + 2) ts = some (e, r) := by
  have := lvl_pos hl
  rw [parseMember_of h, parseSuffix_stop this.1 this.2.1]

theorem up_unary {g : Nat} {ts r : Toks} {e : Expr} (h : parseMember (g + 1) ts = some (e, r))
    (h1 : runLen "!" ts = 0) (h2 : runLen "-" ts = 0) : parseUnary (g + 2) ts = some (e, r) := by
  rw [parseUnary_plain h1 h2, h]

theorem up_mul {g : Nat} {ts r : Toks} {e : Expr} (h : parseUnary (g + 1) ts = some (e, r))
    (hl : 1 < lvl (hd r)) : parseMul (g + 2) ts = some (e, r) := by
  rw [parseMul_of h, parseMulRest_stop (lvl_gt1 hl)]

theorem up_add {g : Nat} {ts r : Toks} {e : Expr} (h : parseMul (g + 1) ts = some (e, r))
    (hl : 2 < lvl (hd r)) : parseAdd (g + 2) ts = some (e, r) := by
  rw [parseAdd_of h, parseAddRest_stop (lvl_gt2 hl)]

theorem up_rel {g : Nat} {ts r : Toks} {e : Expr} (h : parseAdd (g + 1) ts = some (e, r))
    (hl : 3 < lvl (hd r)) : parseRel (g + 2) ts = some (e, r) := by
  rw [parseRel_of h, parseRelRest_stop (lvl_gt3 hl)]

theorem up_and {g : Nat} {ts r : Toks} {e : Expr} (h : parseRel (g + 1) ts = some (e, r))
    (hl : 4 < lvl (hd r)) : parseAnd (g + 2) ts = some (e, r) := by
  rw [parseAnd_of h, parseAndRest_stop (lvl_gt4 hl)]; rfl

theorem up_or {g : Nat} {ts r : Toks} {e : Expr} (h : parseAnd (g + 1) ts = some (e, r))
    (hl : 5 < lvl (hd r)) : parseOr (g + 2) ts = some (e, r) := by
  rw [parseOr_of h, parseOrRest_stop (lvl_gt5 hl)]; rfl

theorem up_expr {g : Nat} {ts r : Toks} {e : Expr} (h : parseOr g ts = some (e, r))
    (hl : 6 < lvl (hd r)) : parseExpr (g + 1) ts = some (e, r) :=
  parseExpr_stop h (lvl_gt6 hl)

theorem or_to_expr {g : Nat} {ts r : Toks} {e : Expr} (h : parseOr (g + 1) ts = some (e, r))
    (hl : 6 < lvl (hd r)) : parseExpr (g + 2) ts = some (e, r) := up_expr h hl
theorem and_to_expr {g : Nat} {ts r : Toks} {e : Expr} (h : parseAnd (g + 1) ts = some (e, r))
    (hl : 6 < lvl (hd r)) : parseExpr (g + 3) ts = some (e, r) :=
  or_to_expr (up_or h (by omega)) hl
theorem rel_to_expr {g : Nat} {ts r : Toks} {e : Expr} (h : parseRel (g + 1) ts = some (e, r))
    (hl : 6 < lvl (hd r)) : parseExpr (g + 4) ts = some (e, r) :=
  and_to_expr (up_and h (by omega)) hl
theorem add_to_expr {g : Nat} {ts r : Toks} {e : Expr} (h : parseAdd (g + 1) ts = some (e, r))
    (hl : 6 < lvl (hd r)) : parseExpr (g + 5) ts = some (e, r) :=
  rel_to_expr (up_rel h (by omega)) hl
theorem mul_to_expr {g : Nat} {ts r : Toks} {e : Expr} (h : parseMul (g + 1) ts = some (e, r))
    (hl : 6 < lvl (hd r)) : parseExpr (g + 6) ts = some (e, r) :=
  add_to_expr (up_add h (by omega)) hl
theorem unary_to_expr {g : Nat} {ts r : Toks} {e : Expr} (h : parseUnary (g + 1) ts = some (e, r))
    (hl : 6 < lvl (hd r)) : parseExpr (g + 7) ts = some (e, r) :=
  mul_to_expr (up_mul h (by omega)) hl

/-! ## atoms -/

/-- `ta` is parsed by `parsePrimary` (with at least `f + 1` fuel) to `ea`, whatever follows, as
long as what follows does not continue a primary; and it does not start with a prefix operator -/
def ParsesAtom (f : Nat) (ta : Toks) (ea : Expr) : Prop :=
  ∀ g rest, f ≤ g → 0 < lvl (hd rest) →
    parsePrimary (g + 1) (ta ++ rest) = some (ea, rest) ∧
      runLen "!" (ta ++ rest) = 0 ∧ runLen "-" (ta ++ rest) = 0

theorem ParsesAtom.mono {f f' : Nat} {ta : Toks} {ea : Expr} (h : ParsesAtom f ta ea) (hf : f ≤ f') :
    ParsesAtom f' ta ea := fun g rest hg hl => h g rest (by omega) hl

section
variable {f : Nat} {ta : Toks} {ea : Expr} (h : ParsesAtom f ta ea) {g : Nat} (hg : f ≤ g) (rest : Toks)
include h hg

theorem ParsesAtom.unary (hl : 0 < lvl (hd rest)) : parseUnary (g + 3) (ta ++ rest) = some (ea, rest) := by
  obtain ⟨h0, h1, h2⟩ := h g rest hg hl
  exact up_unary (up_member h0 hl) h1 h2
theorem ParsesAtom.mul (hl : 1 < lvl (hd rest)) : parseMul (g + 4) (ta ++ rest) = some (ea, rest) :=
  up_mul (h.unary hg rest (by omega)) hl
theorem ParsesAtom.add (hl : 2 < lvl (hd rest)) : parseAdd (g + 5) (ta ++ rest) = some (ea, rest) :=
  up_add (h.mul hg rest (by omega)) hl
theorem ParsesAtom.rel (hl : 3 < lvl (hd rest)) : parseRel (g + 6) (ta ++ rest) = some (ea, rest) :=
  up_rel (h.add hg rest (by omega)) hl
theorem ParsesAtom.and (hl : 4 < lvl (hd rest)) : parseAnd (g + 7) (ta ++ rest) = some (ea, rest) :=
  up_and (h.rel hg rest (by omega)) hl
theorem ParsesAtom.or (hl : 5 < lvl (hd rest)) : parseOr (g + 8) (ta ++ rest) = some (ea, rest) :=
  up_or (h.and hg rest (by omega)) hl
theorem ParsesAtom.expr (hl : 6 < lvl (hd rest)) : parseExpr (g + 9) (ta ++ rest) = some (ea, rest) :=
  up_expr (h.or hg rest (by omega)) hl
end

theorem parsesAtom_ident (n : Str) : ParsesAtom 0 [.ident n] (.ident (String.ofList n)) := by
  intro g rest _ hl
  have := lvl_pos hl
  exact ⟨parsePrimary_ident this.1 this.2.2.1 this.2.2.2, rfl, rfl⟩

theorem parsesAtom_int (t : Str) (e : Expr) (h : intLiteral false t = some e) : ParsesAtom 0 [.int t] e := by
  intro g rest _ hl
  refine ⟨?_, rfl, rfl⟩
  show parsePrimary (g + 1) (.int t :: rest) = _
  rw [parsePrimary_int, h]; rfl


/-! ## compound nodes in parentheses are atoms again -/

section
variable {f : Nat} {ta tb : Toks} {ea eb : Expr}

theorem parsesAtom_mulOp (ha : ParsesAtom f ta ea) (hb : ParsesAtom f tb eb) {s nm : String}
    (hop : mulOpName s = some nm) :
    ParsesAtom (f + 20) ([.sym "("] ++ ta ++ [.sym s] ++ tb ++ [.sym ")"]) (.call nm [ea, eb]) := by
  intro g rest hg hl
  obtain ⟨g, rfl⟩ : ∃ g', g = g' + 20 := ⟨g - 20, by omega⟩
  have hs := mulOp_lvl hop
  simp only [List.append_assoc, List.cons_append, List.nil_append]
  refine ⟨?_, by simp [runLen], by simp [runLen]⟩
  apply parsePrimary_paren
  have hA := ha.unary (g := g + 11) (by omega) (.sym s :: (tb ++ .sym ")" :: rest)) (by simp [hs])
  have hB := hb.unary (g := g + 10) (by omega) (.sym ")" :: rest) (by simp [lvl_rparen])
  simp only [Nat.add_assoc, Nat.reduceAdd] at hA hB
  apply mul_to_expr (g := g + 14)
  · show parseMul (g + 14 + 1) _ = _
    rw [parseMul_of hA]
    show parseMulRest (g + 13 + 1) _ _ = _
    rw [parseMulRest_step hop hB]
    show parseMulRest (g + 12 + 1) _ _ = _
    rw [parseMulRest_stop (lvl_gt1 (by simp [lvl_rparen]))]
  · simp [lvl_rparen]

theorem parsesAtom_addOp (ha : ParsesAtom f ta ea) (hb : ParsesAtom f tb eb) {s nm : String}
    (hop : addOpName s = some nm) :
    ParsesAtom (f + 20) ([.sym "("] ++ ta ++ [.sym s] ++ tb ++ [.sym ")"]) (.call nm [ea, eb]) := by
  intro g rest hg hl
  obtain ⟨g, rfl⟩ : ∃ g', g = g' + 20 := ⟨g - 20, by omega⟩
  have hs := addOp_lvl hop
  simp only [List.append_assoc, List.cons_append, List.nil_append]
  refine ⟨?_, by simp [runLen], by simp [runLen]⟩
  apply parsePrimary_paren
  have hA := ha.mul (g := g + 11) (by omega) (.sym s :: (tb ++ .sym ")" :: rest)) (by simp [hs])
  have hB := hb.mul (g := g + 10) (by omega) (.sym ")" :: rest) (by simp [lvl_rparen])
  simp only [Nat.add_assoc, Nat.reduceAdd] at hA hB
  apply add_to_expr (g := g + 15)
  · show parseAdd (g + 15 + 1) _ = _
    rw [parseAdd_of hA]
    show parseAddRest (g + 14 + 1) _ _ = _
    rw [parseAddRest_step hop hB]
    show parseAddRest (g + 13 + 1) _ _ = _
    rw [parseAddRest_stop (lvl_gt2 (by simp [lvl_rparen]))]
  · simp [lvl_rparen]

theorem parsesAtom_relOp (ha : ParsesAtom f ta ea) (hb : ParsesAtom f tb eb) {s nm : String}
    (hop : relOpName s = some nm) :
    ParsesAtom (f + 20) ([.sym "("] ++ ta ++ [.sym s] ++ tb ++ [.sym ")"]) (.call nm [ea, eb]) := by
  intro g rest hg hl
  obtain ⟨g, rfl⟩ : ∃ g', g = g' + 20 := ⟨g - 20, by omega⟩
  have hs := relOp_lvl hop
  simp only [List.append_assoc, List.cons_append, List.nil_append]
  refine ⟨?_, by simp [runLen], by simp [runLen]⟩
  apply parsePrimary_paren
  have hA := ha.add (g := g + 11) (by omega) (.sym s :: (tb ++ .sym ")" :: rest)) (by simp [hs])
  have hB := hb.add (g := g + 10) (by omega) (.sym ")" :: rest) (by simp [lvl_rparen])
  simp only [Nat.add_assoc, Nat.reduceAdd] at hA hB
  apply rel_to_expr (g := g + 16)
  · show parseRel (g + 16 + 1) _ = _
    rw [parseRel_of hA]
    show parseRelRest (g + 15 + 1) _ _ = _
    rw [parseRelRest_step hop hB]
    show parseRelRest (g + 14 + 1) _ _ = _
    rw [parseRelRest_stop (lvl_gt3 (by simp [lvl_rparen]))]
  · simp [lvl_rparen]

theorem logicExpr_two (op : String) (a b : Expr) : logicExpr op [a, b] = .call op [a, b] := by
  simp [logicExpr, balancedTree]

theorem parsesAtom_andOp (ha : ParsesAtom f ta ea) (hb : ParsesAtom f tb eb) :
    ParsesAtom (f + 20) ([.sym "("] ++ ta ++ [.sym "&&"] ++ tb ++ [.sym ")"]) (.call "_&&_" [ea, eb]) := by
  intro g rest hg hl
  obtain ⟨g, rfl⟩ : ∃ g', g = g' + 20 := ⟨g - 20, by omega⟩
  simp only [List.append_assoc, List.cons_append, List.nil_append]
  refine ⟨?_, by simp [runLen], by simp [runLen]⟩
  apply parsePrimary_paren
  have hA := ha.rel (g := g + 11) (by omega) (.sym "&&" :: (tb ++ .sym ")" :: rest)) (by simp [lvl_and])
  have hB := hb.rel (g := g + 10) (by omega) (.sym ")" :: rest) (by simp [lvl_rparen])
  simp only [Nat.add_assoc, Nat.reduceAdd] at hA hB
  apply and_to_expr (g := g + 17)
  · show parseAnd (g + 17 + 1) _ = _
    have hR : parseAndRest (g + 17) (.sym "&&" :: (tb ++ .sym ")" :: rest)) [ea]
        = some ([eb, ea], .sym ")" :: rest) := by
      show parseAndRest (g + 16 + 1) _ _ = _
      rw [parseAndRest_step hB]
      show parseAndRest (g + 15 + 1) _ _ = _
      rw [parseAndRest_stop (lvl_gt4 (by simp [lvl_rparen]))]
    rw [parseAnd_of hA, hR]
    simp only [List.reverse_cons, List.reverse_nil, List.nil_append, List.cons_append, logicExpr_two]
  · simp [lvl_rparen]

theorem parsesAtom_orOp (ha : ParsesAtom f ta ea) (hb : ParsesAtom f tb eb) :
    ParsesAtom (f + 20) ([.sym "("] ++ ta ++ [.sym "||"] ++ tb ++ [.sym ")"]) (.call "_||_" [ea, eb]) := by
  intro g rest hg hl
  obtain ⟨g, rfl⟩ : ∃ g', g = g' + 20 := ⟨g - 20, by omega⟩
  simp only [List.append_assoc, List.cons_append, List.nil_append]
  refine ⟨?_, by simp [runLen], by simp [runLen]⟩
  apply parsePrimary_paren
  have hA := ha.and (g := g + 11) (by omega) (.sym "||" :: (tb ++ .sym ")" :: rest)) (by simp [lvl_or])
  have hB := hb.and (g := g + 10) (by omega) (.sym ")" :: rest) (by simp [lvl_rparen])
  simp only [Nat.add_assoc, Nat.reduceAdd] at hA hB
  apply or_to_expr (g := g + 18)
  · show parseOr (g + 18 + 1) _ = _
    have hR : parseOrRest (g + 18) (.sym "||" :: (tb ++ .sym ")" :: rest)) [ea]
        = some ([eb, ea], .sym ")" :: rest) := by
      show parseOrRest (g + 17 + 1) _ _ = _
      rw [parseOrRest_step hB]
      show parseOrRest (g + 16 + 1) _ _ = _
      rw [parseOrRest_stop (lvl_gt5 (by simp [lvl_rparen]))]
    rw [parseOr_of hA, hR]
    simp only [List.reverse_cons, List.reverse_nil, List.nil_append, List.cons_append, logicExpr_two]
  · simp [lvl_rparen]

theorem parsesAtom_cond {tc : Toks} {ec : Expr} (hc : ParsesAtom f tc ec) (ha : ParsesAtom f ta ea)
    (hb : ParsesAtom f tb eb) :
    ParsesAtom (f + 20) ([.sym "("] ++ tc ++ [.sym "?"] ++ ta ++ [.sym ":"] ++ tb ++ [.sym ")"])
      (.call "_?_:_" [ec, ea, eb]) := by
  intro g rest hg hl
  obtain ⟨g, rfl⟩ : ∃ g', g = g' + 20 := ⟨g - 20, by omega⟩
  simp only [List.append_assoc, List.cons_append, List.nil_append]
  refine ⟨?_, by simp [runLen], by simp [runLen]⟩
  apply parsePrimary_paren
  have hC := hc.or (g := g + 11) (by omega) (.sym "?" :: (ta ++ .sym ":" :: (tb ++ .sym ")" :: rest)))
    (by simp [lvl_quest])
  have hA := ha.or (g := g + 11) (by omega) (.sym ":" :: (tb ++ .sym ")" :: rest)) (by simp [lvl_colon])
  have hB := hb.expr (g := g + 10) (by omega) (.sym ")" :: rest) (by simp [lvl_rparen])
  simp only [Nat.add_assoc, Nat.reduceAdd] at hA hB hC
  exact parseExpr_cond (f := g + 19) hC hA hB

theorem parsesAtom_not (ha : ParsesAtom f ta ea) :
    ParsesAtom (f + 20) ([.sym "(", .sym "!", .sym "("] ++ ta ++ [.sym ")", .sym ")"]) (.call "!_" [ea]) := by
  intro g rest hg hl
  obtain ⟨g, rfl⟩ : ∃ g', g = g' + 20 := ⟨g - 20, by omega⟩
  simp only [List.append_assoc, List.cons_append, List.nil_append]
  refine ⟨?_, by simp [runLen], by simp [runLen]⟩
  apply parsePrimary_paren
  have hA := ha.expr (g := g + 2) (by omega) (.sym ")" :: .sym ")" :: rest) (by simp [lvl_rparen])
  simp only [Nat.add_assoc, Nat.reduceAdd] at hA
  have hP := parsePrimary_paren hA
  have hM := up_member hP (by simp [lvl_rparen])
  have hU := parseUnary_not_paren hM
  have hE := unary_to_expr hU (by simp [lvl_rparen])
  simp only [Nat.add_assoc, Nat.reduceAdd] at hE
  exact hE

theorem parsesAtom_neg (ha : ParsesAtom f ta ea) :
    ParsesAtom (f + 20) ([.sym "(", .sym "-", .sym "("] ++ ta ++ [.sym ")", .sym ")"]) (.call "-_" [ea]) := by
  intro g rest hg hl
  obtain ⟨g, rfl⟩ : ∃ g', g = g' + 20 := ⟨g - 20, by omega⟩
  simp only [List.append_assoc, List.cons_append, List.nil_append]
  refine ⟨?_, by simp [runLen], by simp [runLen]⟩
  apply parsePrimary_paren
  have hA := ha.expr (g := g + 2) (by omega) (.sym ")" :: .sym ")" :: rest) (by simp [lvl_rparen])
  simp only [Nat.add_assoc, Nat.reduceAdd] at hA
  have hP := parsePrimary_paren hA
  have hM := up_member hP (by simp [lvl_rparen])
  have hU := parseUnary_neg_paren hM
  have hE := unary_to_expr hU (by simp [lvl_rparen])
  simp only [Nat.add_assoc, Nat.reduceAdd] at hE
  exact hE

theorem parsesAtom_index (ha : ParsesAtom f ta ea) (hb : ParsesAtom f tb eb) :
    ParsesAtom (f + 20) ([.sym "(", .sym "("] ++ ta ++ [.sym ")", .sym "["] ++ tb ++ [.sym "]", .sym ")"])
      (.call "_[_]" [ea, eb]) := by
  intro g rest hg hl
  obtain ⟨g, rfl⟩ : ∃ g', g = g' + 20 := ⟨g - 20, by omega⟩
  simp only [List.append_assoc, List.cons_append, List.nil_append]
  refine ⟨?_, by simp [runLen], by simp [runLen]⟩
  apply parsePrimary_paren
  have hA := ha.expr (g := g + 2) (by omega) (.sym ")" :: .sym "[" :: (tb ++ .sym "]" :: .sym ")" :: rest))
    (by simp [lvl_rparen])
  have hB := hb.expr (g := g + 2) (by omega) (.sym "]" :: .sym ")" :: rest) (by simp [lvl_rbrack])
  simp only [Nat.add_assoc, Nat.reduceAdd] at hA hB
  have hP := parsePrimary_paren hA
  have hM : parseMember (g + 12 + 1) (.sym "(" :: (ta ++ .sym ")" :: .sym "[" :: (tb ++ .sym "]" :: .sym ")" :: rest)))
      = some (.call "_[_]" [ea, eb], .sym ")" :: rest) := by
    rw [parseMember_of hP, parseSuffix_index hB, parseSuffix_stop] <;> simp
  have hU := up_unary hM (by simp [runLen]) (by simp [runLen])
  have hE := unary_to_expr hU (by simp [lvl_rparen])
  simp only [Nat.add_assoc, Nat.reduceAdd] at hE
  exact hE

theorem parsesAtom_select (ha : ParsesAtom f ta ea) (fld : Str) :
    ParsesAtom (f + 20) ([.sym "(", .sym "("] ++ ta ++ [.sym ")", .sym ".", .ident fld, .sym ")"])
      (.select ea fld false) := by
  intro g rest hg hl
  obtain ⟨g, rfl⟩ : ∃ g', g = g' + 20 := ⟨g - 20, by omega⟩
  simp only [List.append_assoc, List.cons_append, List.nil_append]
  refine ⟨?_, by simp [runLen], by simp [runLen]⟩
  apply parsePrimary_paren
  have hA := ha.expr (g := g + 2) (by omega) (.sym ")" :: .sym "." :: .ident fld :: .sym ")" :: rest)
    (by simp [lvl_rparen])
  simp only [Nat.add_assoc, Nat.reduceAdd] at hA
  have hP := parsePrimary_paren hA
  have hM : parseMember (g + 11 + 1 + 1) (.sym "(" :: (ta ++ .sym ")" :: .sym "." :: .ident fld :: .sym ")" :: rest))
      = some (.select ea fld false, .sym ")" :: rest) := by
    rw [parseMember_of hP, parseSuffix_select, parseSuffix_stop] <;> simp
  have hU := up_unary hM (by simp [runLen]) (by simp [runLen])
  have hE := unary_to_expr hU (by simp [lvl_rparen])
  simp only [Nat.add_assoc, Nat.reduceAdd] at hE
  exact hE
end

end Cel.Lemmas.ParserSteps
