import CelModel.Parser
/-!
# Token-level invariant of the parser (support for `Props/C01`)

Whatever any of the mutually recursive parser functions consumes is a *balanced segment* of
tokens that starts with a token an expression may start with and ends with a token an
expression may end with.  The bracket checker / `canEnd` / `canStart` below are verbatim copies
of the definitions of `Props/C01.lean` (shown equal there).
-/
namespace Cel
namespace ParserInv
open Lexer Parser

def opener : Tok → Option String
  | .sym "(" => some ")" | .sym "[" => some "]" | .sym "{" => some "}" | _ => none
def closer : Tok → Option String
  | .sym ")" => some ")" | .sym "]" => some "]" | .sym "}" => some "}" | _ => none

def wellBracketed : List String → Toks → Bool
  | stack, [] => stack.isEmpty
  | stack, t :: ts =>
    match opener t with
    | some c => wellBracketed (c :: stack) ts
    | none =>
      match closer t with
      | some c => (match stack with
        | c' :: rest => c == c' && wellBracketed rest ts
        | [] => false)
      | none => wellBracketed stack ts

def canEnd : Tok → Bool
  | .sym s => s == ")" || s == "]" || s == "}" || s == "true" || s == "false" || s == "null"
  | _ => true

def canStart : Tok → Bool
  | .sym s => s == "(" || s == "[" || s == "{" || s == "." || s == "-" || s == "!" || s == "true"
      || s == "false" || s == "null"
  | .escIdent _ => false
  | _ => true

/-- a token that is not a bracket -/
def plain (t : Tok) : Prop := opener t = none ∧ closer t = none

/-- a balanced segment: brackets opened inside are closed inside, nothing outside is touched -/
def Seg (c : Toks) : Prop :=
  ∀ stack tail, wellBracketed stack (c ++ tail) = wellBracketed stack tail

/-- `ts = c ++ rest` with `c` balanced -/
def SegR (ts rest : Toks) : Prop := ∃ c, ts = c ++ rest ∧ Seg c
/-- … and `c` ends with a `canEnd` token (so it is not empty) -/
def EndsR (ts rest : Toks) : Prop :=
  ∃ c, ts = c ++ rest ∧ Seg c ∧ ∃ l, c.getLast? = some l ∧ canEnd l = true
def StartsR (ts : Toks) : Prop := ∃ f, ts.head? = some f ∧ canStart f = true
def TailR (ts rest : Toks) : Prop := ts = rest ∨ EndsR ts rest
def GoodR (ts rest : Toks) : Prop := EndsR ts rest ∧ StartsR ts

theorem wb_plain {t : Tok} (h : plain t) (st : List String) (ts : Toks) :
    wellBracketed st (t :: ts) = wellBracketed st ts := by
  simp [wellBracketed, h.1, h.2]

theorem SegR.refl (ts : Toks) : SegR ts ts := ⟨[], rfl, fun _ _ => rfl⟩

theorem SegR.trans {a b c : Toks} (h1 : SegR a b) (h2 : SegR b c) : SegR a c := by
  obtain ⟨c1, rfl, s1⟩ := h1
  obtain ⟨c2, rfl, s2⟩ := h2
  refine ⟨c1 ++ c2, by simp, fun st tl => ?_⟩
  rw [List.append_assoc, s1, s2]

theorem SegR.plain {t : Tok} (h : plain t) (r : Toks) : SegR (t :: r) r :=
  ⟨[t], rfl, fun st tl => wb_plain h st tl⟩

theorem EndsR.toSeg {a b : Toks} (h : EndsR a b) : SegR a b := by
  obtain ⟨c, e, s, _⟩ := h; exact ⟨c, e, s⟩

theorem EndsR.seg_trans {a b c : Toks} (h1 : SegR a b) (h2 : EndsR b c) : EndsR a c := by
  obtain ⟨c1, rfl, s1⟩ := h1
  obtain ⟨c2, rfl, s2, l, hl, hc⟩ := h2
  refine ⟨c1 ++ c2, by simp, fun st tl => ?_, l, ?_, hc⟩
  · rw [List.append_assoc, s1, s2]
  · rw [List.getLast?_append, hl]; rfl

theorem EndsR.trans_tail {a b c : Toks} (h1 : EndsR a b) (h2 : TailR b c) : EndsR a c := by
  cases h2 with
  | inl h => subst h; exact h1
  | inr h => exact EndsR.seg_trans h1.toSeg h

theorem EndsR.tok {t : Tok} (h : plain t) (he : canEnd t = true) (r : Toks) : EndsR (t :: r) r :=
  ⟨[t], rfl, fun st tl => wb_plain h st tl, t, rfl, he⟩

theorem getLast_wrap (a : Tok) (c : Toks) (b : Tok) : (a :: (c ++ [b])).getLast? = some b := by
  rw [← List.cons_append, List.getLast?_append]; rfl

theorem EndsR.paren {r rest : Toks} (h : SegR r (.sym ")" :: rest)) : EndsR (.sym "(" :: r) rest := by
  obtain ⟨c, rfl, s⟩ := h
  refine ⟨.sym "(" :: (c ++ [.sym ")"]), by simp, fun st tl => ?_, .sym ")", getLast_wrap _ _ _, by decide⟩
  have := s (")" :: st) (.sym ")" :: tl)
  simp [wellBracketed, opener, closer] at this ⊢
  rw [this]

theorem EndsR.brack {r rest : Toks} (h : SegR r (.sym "]" :: rest)) : EndsR (.sym "[" :: r) rest := by
  obtain ⟨c, rfl, s⟩ := h
  refine ⟨.sym "[" :: (c ++ [.sym "]"]), by simp, fun st tl => ?_, .sym "]", getLast_wrap _ _ _, by decide⟩
  have := s ("]" :: st) (.sym "]" :: tl)
  simp [wellBracketed, opener, closer] at this ⊢
  rw [this]

theorem EndsR.brace {r rest : Toks} (h : SegR r (.sym "}" :: rest)) : EndsR (.sym "{" :: r) rest := by
  obtain ⟨c, rfl, s⟩ := h
  refine ⟨.sym "{" :: (c ++ [.sym "}"]), by simp, fun st tl => ?_, .sym "}", getLast_wrap _ _ _, by decide⟩
  have := s ("}" :: st) (.sym "}" :: tl)
  simp [wellBracketed, opener, closer] at this ⊢
  rw [this]

theorem TailR.refl (ts : Toks) : TailR ts ts := Or.inl rfl
theorem TailR.step {a b c : Toks} (h1 : EndsR a b) (h2 : TailR b c) : TailR a c :=
  Or.inr (h1.trans_tail h2)

theorem GoodR.trans_tail {a b c : Toks} (h1 : GoodR a b) (h2 : TailR b c) : GoodR a c :=
  ⟨h1.1.trans_tail h2, h1.2⟩

/-! ## the parser functions -/

def PE {α : Type} (p : Toks → Option (α × Toks)) : Prop :=
  ∀ ts e rest, p ts = some (e, rest) → GoodR ts rest
def PL {α β : Type} (p : Toks → β → Option (α × Toks)) : Prop :=
  ∀ ts acc e rest, p ts acc = some (e, rest) → TailR ts rest
def PC {α : Type} (cl : String) (p : Toks → Option (α × Toks)) : Prop :=
  ∀ ts e rest, p ts = some (e, rest) → SegR ts (.sym cl :: rest)

theorem plain_sym {s : String} (h1 : s ≠ "(") (h2 : s ≠ "[") (h3 : s ≠ "{") (h4 : s ≠ ")")
    (h5 : s ≠ "]") (h6 : s ≠ "}") : plain (.sym s) := by
  constructor
  · unfold opener; split <;> simp_all
  · unfold closer; split <;> simp_all

theorem plain_q : plain (.sym "?") := plain_sym (by decide) (by decide) (by decide) (by decide) (by decide) (by decide)
theorem plain_colon : plain (.sym ":") := plain_sym (by decide) (by decide) (by decide) (by decide) (by decide) (by decide)
theorem plain_comma : plain (.sym ",") := plain_sym (by decide) (by decide) (by decide) (by decide) (by decide) (by decide)
theorem plain_dot : plain (.sym ".") := plain_sym (by decide) (by decide) (by decide) (by decide) (by decide) (by decide)
theorem plain_or : plain (.sym "||") := plain_sym (by decide) (by decide) (by decide) (by decide) (by decide) (by decide)
theorem plain_and : plain (.sym "&&") := plain_sym (by decide) (by decide) (by decide) (by decide) (by decide) (by decide)
theorem plain_bang : plain (.sym "!") := plain_sym (by decide) (by decide) (by decide) (by decide) (by decide) (by decide)
theorem plain_minus : plain (.sym "-") := plain_sym (by decide) (by decide) (by decide) (by decide) (by decide) (by decide)

theorem parseExpr_step (fuel : Nat) (hOr : PE (parseOr fuel)) (hE : PE (parseExpr fuel)) :
    PE (parseExpr (fuel + 1)) := by
  intro ts e rest h
  simp only [parseExpr] at h
  split at h
  · cases h
  · rename_i c r h1
    split at h
    · rename_i a r2 h2
      split at h
      · rename_i b r3 h3
        cases h
        have g1 := hOr _ _ _ h1
        have g2 := hOr _ _ _ h2
        have g3 := hE _ _ _ h3
        exact ⟨EndsR.seg_trans (g1.1.toSeg.trans (SegR.plain plain_q _))
          (EndsR.seg_trans (g2.1.toSeg.trans (SegR.plain plain_colon _)) g3.1), g1.2⟩
      · cases h
    · cases h
  · rename_i h1
    cases h
    exact hOr _ _ _ h1

theorem parseOr_step (fuel : Nat) (hA : PE (parseAnd fuel)) (hR : PL (parseOrRest fuel)) :
    PE (parseOr (fuel + 1)) := by
  intro ts e rest h
  simp only [parseOr] at h
  split at h
  · cases h
  · rename_i t r h1
    split at h
    · rename_i terms r' h2
      cases h
      exact (hA _ _ _ h1).trans_tail (hR _ _ _ _ h2)
    · cases h

theorem parseOrRest_step (fuel : Nat) (hA : PE (parseAnd fuel)) (hR : PL (parseOrRest fuel)) :
    PL (parseOrRest (fuel + 1)) := by
  intro ts acc e rest h
  simp only [parseOrRest] at h
  split at h
  · rename_i r
    split at h
    · rename_i t r' h1
      exact TailR.step (EndsR.seg_trans (SegR.plain plain_or _) (hA _ _ _ h1).1) (hR _ _ _ _ h)
    · cases h
  · cases h; exact TailR.refl _

theorem parseAnd_step (fuel : Nat) (hA : PE (parseRel fuel)) (hR : PL (parseAndRest fuel)) :
    PE (parseAnd (fuel + 1)) := by
  intro ts e rest h
  simp only [parseAnd] at h
  split at h
  · cases h
  · rename_i t r h1
    split at h
    · rename_i terms r' h2
      cases h
      exact (hA _ _ _ h1).trans_tail (hR _ _ _ _ h2)
    · cases h

theorem parseAndRest_step (fuel : Nat) (hA : PE (parseRel fuel)) (hR : PL (parseAndRest fuel)) :
    PL (parseAndRest (fuel + 1)) := by
  intro ts acc e rest h
  simp only [parseAndRest] at h
  split at h
  · rename_i r
    split at h
    · rename_i t r' h1
      exact TailR.step (EndsR.seg_trans (SegR.plain plain_and _) (hA _ _ _ h1).1) (hR _ _ _ _ h)
    · cases h
  · cases h; exact TailR.refl _

theorem plain_relOp {s op : String} (h : relOpName s = some op) : plain (.sym s) := by
  unfold relOpName at h
  split at h <;> first | exact plain_sym (by decide) (by decide) (by decide) (by decide) (by decide) (by decide) | cases h
theorem plain_addOp {s op : String} (h : addOpName s = some op) : plain (.sym s) := by
  unfold addOpName at h
  split at h <;> first | exact plain_sym (by decide) (by decide) (by decide) (by decide) (by decide) (by decide) | cases h
theorem plain_mulOp {s op : String} (h : mulOpName s = some op) : plain (.sym s) := by
  unfold mulOpName at h
  split at h <;> first | exact plain_sym (by decide) (by decide) (by decide) (by decide) (by decide) (by decide) | cases h

theorem parseRel_step (fuel : Nat) (hA : PE (parseAdd fuel)) (hR : PL (parseRelRest fuel)) :
    PE (parseRel (fuel + 1)) := by
  intro ts e rest h
  simp only [parseRel] at h
  split at h
  · cases h
  · rename_i t r h1
    exact (hA _ _ _ h1).trans_tail (hR _ _ _ _ h)

theorem parseRelRest_step (fuel : Nat) (hA : PE (parseAdd fuel)) (hR : PL (parseRelRest fuel)) :
    PL (parseRelRest (fuel + 1)) := by
  intro ts acc e rest h
  simp only [parseRelRest] at h
  split at h
  · rename_i s r
    split at h
    · rename_i op hop
      split at h
      · rename_i t r' h1
        exact TailR.step (EndsR.seg_trans (SegR.plain (plain_relOp hop) _) (hA _ _ _ h1).1) (hR _ _ _ _ h)
      · cases h
    · cases h; exact TailR.refl _
  · cases h; exact TailR.refl _

theorem parseAdd_step (fuel : Nat) (hA : PE (parseMul fuel)) (hR : PL (parseAddRest fuel)) :
    PE (parseAdd (fuel + 1)) := by
  intro ts e rest h
  simp only [parseAdd] at h
  split at h
  · cases h
  · rename_i t r h1
    exact (hA _ _ _ h1).trans_tail (hR _ _ _ _ h)

theorem parseAddRest_step (fuel : Nat) (hA : PE (parseMul fuel)) (hR : PL (parseAddRest fuel)) :
    PL (parseAddRest (fuel + 1)) := by
  intro ts acc e rest h
  simp only [parseAddRest] at h
  split at h
  · rename_i s r
    split at h
    · rename_i op hop
      split at h
      · rename_i t r' h1
        exact TailR.step (EndsR.seg_trans (SegR.plain (plain_addOp hop) _) (hA _ _ _ h1).1) (hR _ _ _ _ h)
      · cases h
    · cases h; exact TailR.refl _
  · cases h; exact TailR.refl _

theorem parseMul_step (fuel : Nat) (hA : PE (parseUnary fuel)) (hR : PL (parseMulRest fuel)) :
    PE (parseMul (fuel + 1)) := by
  intro ts e rest h
  simp only [parseMul] at h
  split at h
  · cases h
  · rename_i t r h1
    exact (hA _ _ _ h1).trans_tail (hR _ _ _ _ h)

theorem parseMulRest_step (fuel : Nat) (hA : PE (parseUnary fuel)) (hR : PL (parseMulRest fuel)) :
    PL (parseMulRest (fuel + 1)) := by
  intro ts acc e rest h
  simp only [parseMulRest] at h
  split at h
  · rename_i s r
    split at h
    · rename_i op hop
      split at h
      · rename_i t r' h1
        exact TailR.step (EndsR.seg_trans (SegR.plain (plain_mulOp hop) _) (hA _ _ _ h1).1) (hR _ _ _ _ h)
      · cases h
    · cases h; exact TailR.refl _
  · cases h; exact TailR.refl _

theorem segR_drop_run (s : String) (hp : plain (.sym s)) : ∀ ts : Toks, SegR ts (ts.drop (runLen s ts)) := by
  intro ts
  induction ts with
  | nil => exact SegR.refl _
  | cons t r ih =>
    cases t with
    | sym t =>
      simp only [runLen]
      split
      · rename_i heq
        have : t = s := by simpa using heq
        subst this
        rw [Nat.add_comm, List.drop_succ_cons]
        exact (SegR.plain hp _).trans ih
      · exact SegR.refl _
    | _ => exact SegR.refl _

theorem starts_of_run (s : String) (hs : canStart (.sym s) = true) (ts : Toks) (h : runLen s ts > 0) :
    StartsR ts := by
  cases ts with
  | nil => simp [runLen] at h
  | cons t r =>
    cases t with
    | sym t =>
      simp only [runLen] at h
      split at h
      · rename_i heq
        have : t = s := by simpa using heq
        subst this
        exact ⟨_, rfl, hs⟩
      · simp at h
    | _ => simp [runLen] at h

theorem parseUnary_step (fuel : Nat) (hM : PE (parseMember fuel)) :
    PE (parseUnary (fuel + 1)) := by
  intro ts e rest h
  simp only [parseUnary] at h
  split at h
  · rename_i hnb
    split at h
    · rename_i m r h1
      cases h
      exact ⟨EndsR.seg_trans (segR_drop_run "!" plain_bang ts) (hM _ _ _ h1).1,
        starts_of_run "!" (by decide) ts hnb⟩
    · cases h
  · split at h
    · rename_i hnm
      have key : ∀ b : Bool, (if b = true then parseMember fuel ts
          else
            match parseMember fuel (List.drop (runLen "-" ts) ts) with
            | some (m, r) => some (if (runLen "-" ts % 2 == 0) = true then m else Expr.call "-_" [m], r)
            | none => none) = some (e, rest) → GoodR ts rest := by
        intro b hb
        split at hb
        · exact hM _ _ _ hb
        · split at hb
          · rename_i m r h1
            cases hb
            exact ⟨EndsR.seg_trans (segR_drop_run "-" plain_minus ts) (hM _ _ _ h1).1,
              starts_of_run "-" (by decide) ts hnm⟩
          · cases hb
      exact key _ h
    · exact hM _ _ _ h

theorem parseMember_step (fuel : Nat) (hP : PE (parsePrimary fuel)) (hS : PL (parseSuffix fuel)) :
    PE (parseMember (fuel + 1)) := by
  intro ts e rest h
  simp only [parseMember] at h
  split at h
  · cases h
  · rename_i t r h1
    exact (hP _ _ _ h1).trans_tail (hS _ _ _ _ h)

theorem plain_ident (f : Str) : plain (.ident f) := ⟨rfl, rfl⟩
theorem plain_escIdent (f : Str) : plain (.escIdent f) := ⟨rfl, rfl⟩

theorem parseSuffix_step (fuel : Nat) (hA : PC ")" (parseArgs fuel)) (hE : PE (parseExpr fuel))
    (hS : PL (parseSuffix fuel)) :
    PL (parseSuffix (fuel + 1)) := by
  intro ts acc e rest h
  simp only [parseSuffix] at h
  split at h
  · rename_i f r
    split at h
    · rename_i args r' h1
      split at h
      · rename_i c hc
        refine TailR.step ?_ (hS _ _ _ _ h)
        exact EndsR.seg_trans (SegR.plain plain_dot _)
          (EndsR.seg_trans (SegR.plain (plain_ident f) _) (EndsR.paren (hA _ _ _ h1)))
      · cases h
    · cases h
  · rename_i f r _
    refine TailR.step ?_ (hS _ _ _ _ h)
    exact EndsR.seg_trans (SegR.plain plain_dot _) (EndsR.tok (plain_ident f) rfl _)
  · rename_i f r
    refine TailR.step ?_ (hS _ _ _ _ h)
    exact EndsR.seg_trans (SegR.plain plain_dot _) (EndsR.tok (plain_escIdent f) rfl _)
  · rename_i r
    split at h
    · rename_i i r' h1
      refine TailR.step ?_ (hS _ _ _ _ h)
      exact EndsR.brack (hE _ _ _ h1).1.toSeg
    · cases h
  · cases h; exact TailR.refl _


theorem parseArgs_step (fuel : Nat) (hE : PE (parseExpr fuel)) (hA : PC ")" (parseArgs fuel)) :
    PC ")" (parseArgs (fuel + 1)) := by
  intro ts e rest h
  simp only [parseArgs] at h
  split at h
  · cases h; exact SegR.refl _
  · split at h
    · rename_i a r h1
      split at h
      · cases h
      · split at h
        · rename_i rs r' h2
          cases h
          exact ((hE _ _ _ h1).1.toSeg.trans (SegR.plain plain_comma _)).trans (hA _ _ _ h2)
        · cases h
    · rename_i a r h1
      cases h
      exact (hE _ _ _ h1).1.toSeg
    · cases h

theorem parseListElems_step (fuel : Nat) (hE : PE (parseExpr fuel)) (hA : PC "]" (parseListElems fuel)) :
    PC "]" (parseListElems (fuel + 1)) := by
  intro ts e rest h
  simp only [parseListElems] at h
  split at h
  · cases h; exact SegR.refl _
  · split at h
    · rename_i a r h1
      split at h
      · rename_i rs r' h2
        cases h
        exact ((hE _ _ _ h1).1.toSeg.trans (SegR.plain plain_comma _)).trans (hA _ _ _ h2)
      · cases h
    · rename_i a r h1
      cases h
      exact (hE _ _ _ h1).1.toSeg
    · cases h

theorem parseMapEntries_step (fuel : Nat) (hE : PE (parseExpr fuel)) (hA : PC "}" (parseMapEntries fuel)) :
    PC "}" (parseMapEntries (fuel + 1)) := by
  intro ts e rest h
  simp only [parseMapEntries] at h
  split at h
  · cases h; exact SegR.refl _
  · split at h
    · rename_i k r h1
      have gk := ((hE _ _ _ h1).1.toSeg.trans (SegR.plain plain_colon _))
      split at h
      · rename_i v r2 h2
        split at h
        · rename_i rs r3 h3
          cases h
          exact (gk.trans ((hE _ _ _ h2).1.toSeg.trans (SegR.plain plain_comma _))).trans (hA _ _ _ h3)
        · cases h
      · rename_i v r2 h2
        cases h
        exact gk.trans (hE _ _ _ h2).1.toSeg
      · cases h
    · cases h

/-- `parseFields` returns a triple -/
def PF (p : Toks → Option (List Str × List Expr × Toks)) : Prop :=
  ∀ ts fs vs rest, p ts = some (fs, vs, rest) → SegR ts (.sym "}" :: rest)

theorem parseFields_step (fuel : Nat) (hE : PE (parseExpr fuel)) (hA : PF (parseFields fuel)) :
    PF (parseFields (fuel + 1)) := by
  intro ts fs vs rest h
  simp only [parseFields] at h
  split at h
  · cases h; exact SegR.refl _
  · split at h
    · cases h
    · rename_i f r hnr
      have gk : SegR ts r := by
        split at hnr
        · cases hnr
          exact (SegR.plain (plain_ident _) _).trans (SegR.plain plain_colon _)
        · cases hnr
          exact (SegR.plain (plain_escIdent _) _).trans (SegR.plain plain_colon _)
        · cases hnr
      split at h
      · rename_i v r2 h2
        split at h
        · rename_i fs' vs' r3 h3
          cases h
          exact (gk.trans ((hE _ _ _ h2).1.toSeg.trans (SegR.plain plain_comma _))).trans (hA _ _ _ _ h3)
        · cases h
      · rename_i v r2 h2
        cases h
        exact gk.trans (hE _ _ _ h2).1.toSeg
      · cases h


theorem messageHead_inv : ∀ (fuel : Nat) (ts : Toks) (names : List Str) (r : Toks),
    messageHead fuel ts = some (names, r) →
      SegR ts (.sym "{" :: r) ∧ ∃ n, ts.head? = some (.ident n) := by
  intro fuel
  induction fuel with
  | zero => intro ts names r h; simp [messageHead] at h
  | succ fuel ih =>
    intro ts names r h
    simp only [messageHead] at h
    split at h
    · cases h
      exact ⟨SegR.plain (plain_ident _) _, _, rfl⟩
    · split at h
      · rename_i ns r' h1
        cases h
        exact ⟨(SegR.plain (plain_ident _) _).trans ((SegR.plain plain_dot _).trans (ih _ _ _ h1).1), _, rfl⟩
      · cases h
    · cases h

theorem primary_ident (fuel : Nat) (hA : PC ")" (parseArgs fuel)) (hF : PF (parseFields fuel))
    (p : Bool × Toks) (e : Expr) (rest : Toks)
    (h : (match messageHead (p.snd.length + 1) p.snd with
      | some (names, r) =>
        (match r with
         | .sym "," :: .sym "}" :: r' =>
            some (Expr.struct (String.ofList ((if p.fst then ['.'] else []) ++ joinDots names)) [] [], r')
         | _ => (match parseFields fuel r with
            | some (fs, vs, r') =>
              some (Expr.struct (String.ofList ((if p.fst then ['.'] else []) ++ joinDots names)) fs vs, r')
            | none => none))
      | none =>
        match p.snd with
        | .ident f :: .sym "(" :: r =>
          (match parseArgs fuel r with
           | some (args, r') =>
             (callOrMacro (String.ofList ((if p.fst then ['.'] else []) ++ f)) none args).map (·, r')
           | none => none)
        | .ident n :: r => some (Expr.ident (String.ofList n), r)
        | _ => none) = some (e, rest)) :
    EndsR p.snd rest ∧ ∃ n, p.snd.head? = some (.ident n) := by
  obtain ⟨dot, ts'⟩ := p
  simp only at h ⊢
  split at h
  · rename_i names r h1
    have g := messageHead_inv _ _ _ _ h1
    refine ⟨EndsR.seg_trans g.1 (EndsR.brace ?_), g.2⟩
    split at h
    · cases h
      exact SegR.plain plain_comma _
    · split at h
      · rename_i fs vs r' h2
        cases h
        exact hF _ _ _ _ h2
      · cases h
  · split at h
    · rename_i f r
      split at h
      · rename_i args r' h2
        simp only [Option.map_eq_some_iff] at h
        obtain ⟨a, _, ha⟩ := h
        cases ha
        exact ⟨EndsR.seg_trans (SegR.plain (plain_ident _) _) (EndsR.paren (hA _ _ _ h2)), _, rfl⟩
      · cases h
    · cases h
      exact ⟨EndsR.tok (plain_ident _) rfl _, _, rfl⟩
    · cases h

theorem starts_ident {ts : Toks} (h : ∃ n, ts.head? = some (.ident n)) : StartsR ts := by
  obtain ⟨n, hn⟩ := h
  exact ⟨_, hn, rfl⟩

theorem lit_case {α : Type} {o : Option α} {r rest : Toks} {e : α}
    (h : Option.map (fun x => (x, r)) o = some (e, rest)) : r = rest := by
  simp only [Option.map_eq_some_iff] at h
  obtain ⟨a, _, ha⟩ := h
  cases ha; rfl

theorem parsePrimary_step (fuel : Nat) (hE : PE (parseExpr fuel)) (hA : PC ")" (parseArgs fuel))
    (hL : PC "]" (parseListElems fuel)) (hM : PC "}" (parseMapEntries fuel)) (hF : PF (parseFields fuel)) :
    PE (parsePrimary (fuel + 1)) := by
  intro ts e rest h
  simp only [parsePrimary] at h
  split at h
  · cases lit_case h
    exact ⟨EndsR.seg_trans (SegR.plain plain_minus _) (EndsR.tok ⟨rfl, rfl⟩ rfl _), _, rfl, by decide⟩
  · cases lit_case h
    exact ⟨EndsR.seg_trans (SegR.plain plain_minus _) (EndsR.tok ⟨rfl, rfl⟩ rfl _), _, rfl, by decide⟩
  · cases lit_case h
    exact ⟨EndsR.tok ⟨rfl, rfl⟩ rfl _, _, rfl, rfl⟩
  · cases lit_case h
    exact ⟨EndsR.tok ⟨rfl, rfl⟩ rfl _, _, rfl, rfl⟩
  · cases lit_case h
    exact ⟨EndsR.tok ⟨rfl, rfl⟩ rfl _, _, rfl, rfl⟩
  · cases lit_case h
    exact ⟨EndsR.tok ⟨rfl, rfl⟩ rfl _, _, rfl, rfl⟩
  · cases lit_case h
    exact ⟨EndsR.tok ⟨rfl, rfl⟩ rfl _, _, rfl, rfl⟩
  · cases h
    exact ⟨EndsR.tok (plain_sym (by decide) (by decide) (by decide) (by decide) (by decide) (by decide)) (by decide) _, _, rfl, by decide⟩
  · cases h
    exact ⟨EndsR.tok (plain_sym (by decide) (by decide) (by decide) (by decide) (by decide) (by decide)) (by decide) _, _, rfl, by decide⟩
  · cases h
    exact ⟨EndsR.tok (plain_sym (by decide) (by decide) (by decide) (by decide) (by decide) (by decide)) (by decide) _, _, rfl, by decide⟩
  · rename_i r
    split at h
    · rename_i e' r' h1
      cases h
      exact ⟨EndsR.paren (hE _ _ _ h1).1.toSeg, _, rfl, by decide⟩
    · cases h
  · rename_i r
    refine ⟨EndsR.brack ?_, _, rfl, by decide⟩
    split at h
    · cases h
      exact SegR.plain plain_comma _
    · split at h
      · rename_i es r' h1
        cases h
        exact hL _ _ _ h1
      · cases h
  · rename_i r
    refine ⟨EndsR.brace ?_, _, rfl, by decide⟩
    split at h
    · cases h
      exact SegR.plain plain_comma _
    · split at h
      · rename_i es r' h1
        cases h
        exact hM _ _ _ h1
      · cases h
  · have key := primary_ident fuel hA hF _ e rest h
    clear h
    split at key
    · exact ⟨EndsR.seg_trans (SegR.plain plain_dot _) key.1, _, rfl, by decide⟩
    · exact ⟨key.1, starts_ident key.2⟩


/-! ## the simultaneous induction on the fuel -/

structure All (fuel : Nat) : Prop where
  expr : PE (parseExpr fuel)
  or : PE (parseOr fuel)
  orRest : PL (parseOrRest fuel)
  and : PE (parseAnd fuel)
  andRest : PL (parseAndRest fuel)
  rel : PE (parseRel fuel)
  relRest : PL (parseRelRest fuel)
  add : PE (parseAdd fuel)
  addRest : PL (parseAddRest fuel)
  mul : PE (parseMul fuel)
  mulRest : PL (parseMulRest fuel)
  unary : PE (parseUnary fuel)
  member : PE (parseMember fuel)
  suffix : PL (parseSuffix fuel)
  args : PC ")" (parseArgs fuel)
  elems : PC "]" (parseListElems fuel)
  entries : PC "}" (parseMapEntries fuel)
  fields : PF (parseFields fuel)
  primary : PE (parsePrimary fuel)

theorem all_zero : All 0 where
  expr := by intro ts e rest h; simp [parseExpr] at h
  or := by intro ts e rest h; simp [parseOr] at h
  orRest := by intro ts acc e rest h; simp [parseOrRest] at h
  and := by intro ts e rest h; simp [parseAnd] at h
  andRest := by intro ts acc e rest h; simp [parseAndRest] at h
  rel := by intro ts e rest h; simp [parseRel] at h
  relRest := by intro ts acc e rest h; simp [parseRelRest] at h
  add := by intro ts e rest h; simp [parseAdd] at h
  addRest := by intro ts acc e rest h; simp [parseAddRest] at h
  mul := by intro ts e rest h; simp [parseMul] at h
  mulRest := by intro ts acc e rest h; simp [parseMulRest] at h
  unary := by intro ts e rest h; simp [parseUnary] at h
  member := by intro ts e rest h; simp [parseMember] at h
  suffix := by intro ts acc e rest h; simp [parseSuffix] at h
  args := by intro ts e rest h; simp [parseArgs] at h
  elems := by intro ts e rest h; simp [parseListElems] at h
  entries := by intro ts e rest h; simp [parseMapEntries] at h
  fields := by intro ts fs vs rest h; simp [parseFields] at h
  primary := by intro ts e rest h; simp [parsePrimary] at h

theorem all_succ (fuel : Nat) (ih : All fuel) : All (fuel + 1) where
  expr := parseExpr_step fuel ih.or ih.expr
  or := parseOr_step fuel ih.and ih.orRest
  orRest := parseOrRest_step fuel ih.and ih.orRest
  and := parseAnd_step fuel ih.rel ih.andRest
  andRest := parseAndRest_step fuel ih.rel ih.andRest
  rel := parseRel_step fuel ih.add ih.relRest
  relRest := parseRelRest_step fuel ih.add ih.relRest
  add := parseAdd_step fuel ih.mul ih.addRest
  addRest := parseAddRest_step fuel ih.mul ih.addRest
  mul := parseMul_step fuel ih.unary ih.mulRest
  mulRest := parseMulRest_step fuel ih.unary ih.mulRest
  unary := parseUnary_step fuel ih.member
  member := parseMember_step fuel ih.primary ih.suffix
  suffix := parseSuffix_step fuel ih.args ih.expr ih.suffix
  args := parseArgs_step fuel ih.expr ih.args
  elems := parseListElems_step fuel ih.expr ih.elems
  entries := parseMapEntries_step fuel ih.expr ih.entries
  fields := parseFields_step fuel ih.expr ih.fields
  primary := parsePrimary_step fuel ih.expr ih.args ih.elems ih.entries ih.fields

theorem all (fuel : Nat) : All fuel := by
  induction fuel with
  | zero => exact all_zero
  | succ n ih => exact all_succ n ih

/-- what `parseExpr` consumes is a balanced, non-empty segment that begins with a `canStart`
token and ends with a `canEnd` token -/
theorem parseExpr_good {fuel : Nat} {ts rest : Toks} {e : Expr}
    (h : parseExpr fuel ts = some (e, rest)) : GoodR ts rest := (all fuel).expr _ _ _ h

theorem parseTop_good {ts : Toks} {e : Expr} (h : parseTop ts = some e) : GoodR ts [] := by
  unfold parseTop at h
  split at h
  · rename_i e' h1
    exact parseExpr_good h1
  · cases h

theorem good_nil_balanced {ts : Toks} (h : GoodR ts []) : wellBracketed [] ts = true := by
  obtain ⟨⟨c, rfl, s, _⟩, _⟩ := h
  rw [s]; rfl

theorem good_nil_last {ts : Toks} (h : GoodR ts []) : ∃ l, ts.getLast? = some l ∧ canEnd l = true := by
  obtain ⟨⟨c, rfl, _, l, hl, hc⟩, _⟩ := h
  exact ⟨l, by simpa using hl, hc⟩


end ParserInv
end Cel
