import CelModel.Time
/-!
# Boolean checkers for the 400-year era tables (used by `Props/C16`)

`checkDoe` is the per-day check of `civilOfDoe`/`doeOfCivil` (day-of-era → date → day-of-era),
`checkYmd` the per-date check of the other direction, indexed by
`n = (yoe * 12 + (m - 1)) * 31 + (d - 1)`.  Both are written for cheap kernel evaluation
(`strict` forces intermediate values so that they are computed once; comparisons are the
kernel-accelerated `Nat.beq`/`Nat.ble`/`Nat.blt`); `checkDoe_sound` / `checkYmd_sound` relate them
to the model's `civilOfDoe` / `doeOfCivil`.  The tables themselves are evaluated by the kernel in
`CivilTable*.lean`, in chunks.
-/
namespace Cel.Time.Table

/-- leap rule on a natural year number -/
def leapN (n : Nat) : Bool := (n % 4 == 0 && n % 100 != 0) || n % 400 == 0

/-- days in month `m` of the March-based year-of-era `yoe` (January and February belong to
calendar year `yoe + 1`) -/
def dimYoe (yoe m : Nat) : Nat :=
  match m with
  | 2 => if leapN (yoe + 1) then 29 else 28
  | 4 => 30 | 6 => 30 | 9 => 30 | 11 => 30
  | _ => 31

/-- evaluate `x` before continuing (the kernel then shares the value instead of the thunk) -/
def strict {α : Type} (x : Nat) (f : Nat → α) : α :=
  match x with
  | 0 => f 0
  | n + 1 => f (n + 1)

theorem strict_eq {α : Type} (x : Nat) (f : Nat → α) : strict x f = f x := by
  cases x <;> rfl

def leapB (n : Nat) : Bool :=
  (Nat.beq (n % 4) 0 && !(Nat.beq (n % 100) 0)) || Nat.beq (n % 400) 0

def dimB (yoe m : Nat) : Nat :=
  bif Nat.beq m 2 then (bif leapB (yoe + 1) then 29 else 28)
  else bif (Nat.beq m 4 || Nat.beq m 6 || Nat.beq m 9 || Nat.beq m 11) then 30 else 31

theorem leapB_eq (n : Nat) : leapB n = leapN n := by
  have e : ∀ a : Nat, Nat.beq a 0 = (a == 0) := fun a => by
    rw [Bool.eq_iff_iff]; simp
  simp only [leapB, leapN, e, bne]

theorem dimB_eq (yoe m : Nat) : dimB yoe m = dimYoe yoe m := by
  have e : ∀ a b : Nat, Nat.beq a b = decide (a = b) := fun a b => by
    rw [Bool.eq_iff_iff]; simp
  unfold dimB dimYoe
  rw [leapB_eq]
  simp only [e]
  split
  · cases leapN (yoe + 1) <;> rfl
  · rfl
  · rfl
  · rfl
  · rfl
  · rename_i h2 h4 h6 h9 h11
    rw [decide_eq_false h2, decide_eq_false h4, decide_eq_false h6, decide_eq_false h9,
      decide_eq_false h11]
    rfl

def checkDoe (doe : Nat) : Bool :=
  strict ((doe - doe / 1460 + doe / 36524 - doe / 146096) / 365) fun yoe =>
  strict (doe - (365 * yoe + yoe / 4 - yoe / 100)) fun doy =>
  strict ((5 * doy + 2) / 153) fun mp =>
  strict (doy - (153 * mp + 2) / 5 + 1) fun d =>
  strict (bif Nat.blt mp 10 then mp + 3 else mp - 9) fun m =>
  strict (bif Nat.blt 2 m then m - 3 else m + 9) fun mp' =>
    Nat.beq (yoe * 365 + yoe / 4 - yoe / 100 + ((153 * mp' + 2) / 5 + d - 1)) doe
      && Nat.blt yoe 400 && Nat.ble 1 m && Nat.ble m 12 && Nat.ble 1 d && Nat.ble d (dimB yoe m)

theorem checkDoe_sound (doe : Nat) (h : checkDoe doe = true) :
    ∃ yoe m d, civilOfDoe doe = (yoe, m, d) ∧ doeOfCivil yoe m d = doe ∧ yoe < 400 ∧
      1 ≤ m ∧ m ≤ 12 ∧ 1 ≤ d ∧ d ≤ dimYoe yoe m := by
  unfold checkDoe at h
  rw [strict_eq] at h
  generalize hyoe : (doe - doe / 1460 + doe / 36524 - doe / 146096) / 365 = yoe at h
  rw [strict_eq] at h
  generalize hdoy : doe - (365 * yoe + yoe / 4 - yoe / 100) = doy at h
  rw [strict_eq] at h
  generalize hmp : (5 * doy + 2) / 153 = mp at h
  rw [strict_eq] at h
  generalize hd : doy - (153 * mp + 2) / 5 + 1 = d at h
  rw [strict_eq] at h
  generalize hm : (bif Nat.blt mp 10 then mp + 3 else mp - 9) = m at h
  rw [strict_eq] at h
  simp only [Bool.and_eq_true, Nat.blt_eq, Nat.ble_eq, dimB_eq,
    cond_eq_ite] at h hm
  obtain ⟨⟨⟨⟨⟨h1, h2⟩, h3⟩, h4⟩, h5⟩, h6⟩ := h
  refine ⟨yoe, m, d, ?_, Nat.eq_of_beq_eq_true h1, h2, h3, h4, h5, h6⟩
  subst hm hd hmp hdoy hyoe
  rfl

def checkYmd (n : Nat) : Bool :=
  strict (n / 372) fun yoe =>
  strict (n / 31 % 12 + 1) fun m =>
  strict (n % 31 + 1) fun d =>
  bif Nat.ble d (dimB yoe m) then
    strict (bif Nat.blt 2 m then m - 3 else m + 9) fun mp =>
    strict (yoe * 365 + yoe / 4 - yoe / 100 + ((153 * mp + 2) / 5 + d - 1)) fun doe =>
    strict ((doe - doe / 1460 + doe / 36524 - doe / 146096) / 365) fun yoe' =>
    strict (doe - (365 * yoe' + yoe' / 4 - yoe' / 100)) fun doy =>
    strict ((5 * doy + 2) / 153) fun mp2 =>
      Nat.blt doe 146097 && Nat.beq yoe' yoe
        && Nat.beq (bif Nat.blt mp2 10 then mp2 + 3 else mp2 - 9) m
        && Nat.beq (doy - (153 * mp2 + 2) / 5 + 1) d
  else true

theorem checkYmd_sound (n : Nat) (h : checkYmd n = true)
    (hd : n % 31 + 1 ≤ dimYoe (n / 372) (n / 31 % 12 + 1)) :
    doeOfCivil (n / 372) (n / 31 % 12 + 1) (n % 31 + 1) < 146097 ∧
      civilOfDoe (doeOfCivil (n / 372) (n / 31 % 12 + 1) (n % 31 + 1))
        = (n / 372, n / 31 % 12 + 1, n % 31 + 1) := by
  unfold checkYmd at h
  rw [strict_eq] at h
  generalize n / 372 = yoe at h hd ⊢
  rw [strict_eq] at h
  generalize n / 31 % 12 + 1 = m at h hd ⊢
  rw [strict_eq] at h
  generalize n % 31 + 1 = d at h hd ⊢
  rw [dimB_eq, Nat.ble_eq.mpr hd, cond_true, strict_eq] at h
  generalize hmp : (bif Nat.blt 2 m then m - 3 else m + 9) = mp at h
  rw [strict_eq] at h
  generalize hdoe : yoe * 365 + yoe / 4 - yoe / 100 + ((153 * mp + 2) / 5 + d - 1) = doe at h
  rw [strict_eq] at h
  generalize hyoe : (doe - doe / 1460 + doe / 36524 - doe / 146096) / 365 = yoe' at h
  rw [strict_eq] at h
  generalize hdoy : doe - (365 * yoe' + yoe' / 4 - yoe' / 100) = doy at h
  rw [strict_eq] at h
  generalize hmp2 : (5 * doy + 2) / 153 = mp2 at h
  simp only [Bool.and_eq_true, Nat.blt_eq, cond_eq_ite] at h hmp
  obtain ⟨⟨⟨h1, h2⟩, h3⟩, h4⟩ := h
  have hdc : doeOfCivil yoe m d = doe := by
    subst hdoe hmp
    rfl
  rw [hdc]
  refine ⟨h1, ?_⟩
  have hciv : civilOfDoe doe
      = (yoe', (if mp2 < 10 then mp2 + 3 else mp2 - 9), doy - (153 * mp2 + 2) / 5 + 1) := by
    subst hmp2 hdoy hyoe
    rfl
  rw [hciv, Nat.eq_of_beq_eq_true h2, Nat.eq_of_beq_eq_true h3, Nat.eq_of_beq_eq_true h4]

def checkRange (p : Nat → Bool) (lo : Nat) : Nat → Bool
  | 0 => true
  | n + 1 => p lo && checkRange p (lo + 1) n

theorem checkRange_spec (p : Nat → Bool) : ∀ (n lo : Nat), checkRange p lo n = true →
    ∀ k, lo ≤ k → k < lo + n → p k = true := by
  intro n
  induction n with
  | zero => intro lo _ k h1 h2; omega
  | succ n ih =>
    intro lo h k h1 h2
    simp only [checkRange, Bool.and_eq_true] at h
    by_cases hk : k = lo
    · subst hk; exact h.1
    · exact ih (lo + 1) h.2 k (by omega) (by omega)

end Cel.Time.Table
