import CelModel.Lemmas.OfInt
import CelModel.Lemmas.F64Lemmas
/-!
# `F64.ofInt` beyond 2^53: nearest double, ties to even

`roundRatPos n 1` is evaluated for `2^53 ≤ n < 2^64` (case split on `Nat.log2 n`), giving the
round-half-even of `n` to a multiple of `s = 2^(log2 n - 52)`; then the nearest / tie reasoning is
done once, abstractly, against every finite double.
-/
namespace Cel.Lemmas.OfIntNearest
open Cel Cel.F64 Cel.Lemmas.OfInt

/-! ### `roundCore` when the scaled quotient has exactly 57 bits -/

/-- the round-up decision of `roundCore` with `drop = 4` -/
def upB (Q : Nat) (st : Bool) : Bool :=
  decide (Q % 16 > 8) || (Q % 16 == 8 && (st || Q / 16 % 2 == 1))

theorem roundCore_56 (Q : Nat) (st : Bool) (S : Int) (hlog : Nat.log2 Q = 56)
    (hS : -1000 ≤ S) (hS' : S ≤ 1000) :
    roundCore Q st S = finish (if upB Q st then Q / 16 + 1 else Q / 16) (4 - S) := by
  have htop : 4 - S ≥ -1074 := by omega
  have hdrop : (4 - S + S).toNat = 4 := by omega
  have hle : ((56 : Nat) : Int) - S - 52 = 4 - S := by omega
  unfold roundCore
  simp only [hlog, hle, htop, if_true, hdrop]
  rfl

/-! ### `roundRatPos n 1`, the two scaling directions -/

theorem rr_lo (n L : Nat) (hn : n ≠ 0) (hL : Nat.log2 n = L) (hL56 : L ≤ 56) :
    roundRatPos n 1 = roundCore (n * 2 ^ (56 - L)) false ((56 - L : Nat) : Int) := by
  have h0 : (n == 0) = false := by simp [hn]
  have hsh : (56 - (L : Int) + ((0 : Nat) : Int)) = ((56 - L : Nat) : Int) := by omega
  rw [roundRatPos_eq, h0, hL, log2_one, hsh]
  have hsc : scaled n 1 ((56 - L : Nat) : Int) = (n * 2 ^ (56 - L), 1) := by
    simp [scaled]
  rw [hsc]
  simp only [Nat.div_one, Nat.mod_one, bne_self_eq_false, Bool.false_eq_true, if_false]

theorem rr_hi (n L : Nat) (hn : n ≠ 0) (hL : Nat.log2 n = L) (hL56 : 56 < L) :
    roundRatPos n 1 =
      roundCore (n / 2 ^ (L - 56)) (n % 2 ^ (L - 56) != 0) (-((L - 56 : Nat) : Int)) := by
  have h0 : (n == 0) = false := by simp [hn]
  have hsh : (56 - (L : Int) + ((0 : Nat) : Int)) = -((L - 56 : Nat) : Int) := by omega
  rw [roundRatPos_eq, h0, hL, log2_one, hsh]
  have hneg : ¬ (-((L - 56 : Nat) : Int) ≥ 0) := by omega
  have hsc : scaled n 1 (-((L - 56 : Nat) : Int)) = (n, 2 ^ (L - 56)) := by
    simp only [scaled, hneg, if_false, Int.neg_neg, Int.toNat_natCast, Nat.one_mul]
  rw [hsc]
  simp only [Bool.false_eq_true, if_false]

/-- round-half-even of `n / s` to an integer -/
def rne (n s : Nat) : Nat :=
  if 2 * (n % s) > s ∨ (2 * (n % s) = s ∧ n / s % 2 = 1) then n / s + 1 else n / s

set_option linter.unusedSimpArgs false in
local macro "up_tac" : tactic =>
  `(tactic| (unfold upB rne
             split <;> split <;>
               simp only [Bool.or_eq_true, Bool.and_eq_true, decide_eq_true_eq, beq_iff_eq,
                 bne_iff_ne, ne_eq, Bool.false_eq_true, false_or] at * <;> omega))

theorem up_lo1 (n : Nat) :
    (if upB (n * 8) false then n * 8 / 16 + 1 else n * 8 / 16) = rne n 2 := by up_tac
theorem up_lo2 (n : Nat) :
    (if upB (n * 4) false then n * 4 / 16 + 1 else n * 4 / 16) = rne n 4 := by up_tac
theorem up_lo3 (n : Nat) :
    (if upB (n * 2) false then n * 2 / 16 + 1 else n * 2 / 16) = rne n 8 := by up_tac
theorem up_lo4 (n : Nat) :
    (if upB (n * 1) false then n * 1 / 16 + 1 else n * 1 / 16) = rne n 16 := by up_tac
theorem up_hi5 (n : Nat) :
    (if upB (n / 2) (n % 2 != 0) then n / 2 / 16 + 1 else n / 2 / 16) = rne n 32 := by up_tac
theorem up_hi6 (n : Nat) :
    (if upB (n / 4) (n % 4 != 0) then n / 4 / 16 + 1 else n / 4 / 16) = rne n 64 := by up_tac
theorem up_hi7 (n : Nat) :
    (if upB (n / 8) (n % 8 != 0) then n / 8 / 16 + 1 else n / 8 / 16) = rne n 128 := by up_tac
theorem up_hi8 (n : Nat) :
    (if upB (n / 16) (n % 16 != 0) then n / 16 / 16 + 1 else n / 16 / 16) = rne n 256 := by up_tac
theorem up_hi9 (n : Nat) :
    (if upB (n / 32) (n % 32 != 0) then n / 32 / 16 + 1 else n / 32 / 16) = rne n 512 := by up_tac
theorem up_hi10 (n : Nat) :
    (if upB (n / 64) (n % 64 != 0) then n / 64 / 16 + 1 else n / 64 / 16) = rne n 1024 := by up_tac
theorem up_hi11 (n : Nat) :
    (if upB (n / 128) (n % 128 != 0) then n / 128 / 16 + 1 else n / 128 / 16) = rne n 2048 := by
  up_tac

theorem log2_div (n l : Nat) (hn : n ≠ 0) (h5 : 5 ≤ l) (hL : Nat.log2 n = 52 + l) :
    Nat.log2 (n / 2 ^ (l - 4)) = 56 := by
  have hb := (Nat.log2_eq_iff hn).1 hL
  have hpos : 0 < 2 ^ (l - 4) := Nat.pow_pos (by decide)
  have e1 : 2 ^ (52 + l) = 2 ^ 56 * 2 ^ (l - 4) := by rw [← Nat.pow_add]; congr 1; omega
  have e2 : 2 ^ (52 + l + 1) = 2 ^ (56 + 1) * 2 ^ (l - 4) := by
    rw [← Nat.pow_add]; congr 1; omega
  have b1 : 2 ^ 56 ≤ n / 2 ^ (l - 4) := (Nat.le_div_iff_mul_le hpos).2 (e1 ▸ hb.1)
  have b2 : n / 2 ^ (l - 4) < 2 ^ (56 + 1) := (Nat.div_lt_iff_lt_mul hpos).2 (e2 ▸ hb.2)
  have hne : n / 2 ^ (l - 4) ≠ 0 := by omega
  exact (Nat.log2_eq_iff hne).2 ⟨b1, b2⟩

/-- `roundRatPos n 1` for `2^53 ≤ n < 2^64`: round-half-even to 53 bits, then `finish` -/
theorem rr_spec (n l : Nat) (hl1 : 1 ≤ l) (hl2 : l ≤ 11) (hL : Nat.log2 n = 52 + l) :
    roundRatPos n 1 = finish (rne n (2 ^ l)) (l : Int) := by
  have hn : n ≠ 0 := by
    intro h; rw [h, Nat.log2_zero] at hL; omega
  by_cases h4 : l ≤ 4
  · have e1 : 56 - (52 + l) = 4 - l := by omega
    have e2 : (4 : Int) - ((4 - l : Nat) : Int) = (l : Int) := by omega
    rw [rr_lo n (52 + l) hn hL (by omega),
      roundCore_56 _ _ _ (log2_shift n _ hn hL (by omega)) (by omega) (by omega), e1, e2]
    congr 1
    have : l = 1 ∨ l = 2 ∨ l = 3 ∨ l = 4 := by omega
    rcases this with rfl | rfl | rfl | rfl
    · exact up_lo1 n
    · exact up_lo2 n
    · exact up_lo3 n
    · exact up_lo4 n
  · have e1 : 52 + l - 56 = l - 4 := by omega
    have e2 : (4 : Int) - -((l - 4 : Nat) : Int) = (l : Int) := by omega
    rw [rr_hi n (52 + l) hn hL (by omega), e1,
      roundCore_56 _ _ _ (log2_div n l hn (by omega) hL) (by omega) (by omega), e2]
    congr 1
    have : l = 5 ∨ l = 6 ∨ l = 7 ∨ l = 8 ∨ l = 9 ∨ l = 10 ∨ l = 11 := by omega
    rcases this with rfl | rfl | rfl | rfl | rfl | rfl | rfl
    · exact up_hi5 n
    · exact up_hi6 n
    · exact up_hi7 n
    · exact up_hi8 n
    · exact up_hi9 n
    · exact up_hi10 n
    · exact up_hi11 n

/-! ### `finish`, bounds, decoding -/

theorem finish_spec (M l : Nat) (h1 : 2 ^ 52 ≤ M) (h2 : M ≤ 2 ^ 53) (hl : l ≤ 11) :
    ∃ M' e, finish M (l : Int) = some ((e + 1075) * 2 ^ 52 + (M' - 2 ^ 52)) ∧
      2 ^ 52 ≤ M' ∧ M' < 2 ^ 53 ∧ ((M' = M ∧ e = l) ∨ (M' = 2 ^ 52 ∧ M = 2 ^ 53 ∧ e = l + 1)) := by
  by_cases hM : M = 2 ^ 53
  · refine ⟨2 ^ 52, l + 1, ?_, by omega, by omega, Or.inr ⟨rfl, hM, rfl⟩⟩
    subst hM
    have h3 : ¬ ((l : Int) + 1 + 1075 ≥ 2047) := by omega
    have h4 : ((l : Int) + 1 + 1075).toNat = l + 1 + 1075 := by omega
    simp only [finish, beq_self_eq_true, if_true, Nat.lt_irrefl, if_false, h3, h4]
  · refine ⟨M, l, ?_, h1, by omega, Or.inl ⟨rfl, rfl⟩⟩
    rw [finish_normal M _ h1 (by omega) (by omega) (by omega)]
    have h4 : ((l : Int) + 1075).toNat = l + 1075 := by omega
    rw [h4]

theorem div_bounds (n l : Nat) (h1 : 2 ^ (52 + l) ≤ n) (h2 : n < 2 ^ (52 + l + 1)) :
    2 ^ 52 ≤ n / 2 ^ l ∧ n / 2 ^ l < 2 ^ 53 := by
  have hpos : 0 < 2 ^ l := Nat.pow_pos (by decide)
  have e1 : 2 ^ (52 + l) = 2 ^ 52 * 2 ^ l := Nat.pow_add ..
  have e2 : 2 ^ (52 + l + 1) = 2 ^ 53 * 2 ^ l := by
    rw [← Nat.pow_add]; congr 1; omega
  exact ⟨(Nat.le_div_iff_mul_le hpos).2 (e1 ▸ h1), (Nat.div_lt_iff_lt_mul hpos).2 (e2 ▸ h2)⟩

theorem rne_bounds (n s : Nat) : n / s ≤ rne n s ∧ rne n s ≤ n / s + 1 := by
  unfold rne; split <;> omega

theorem decodeNat_mant_lt (bits : Nat) (neg : Bool) (m : Nat) (e : Int)
    (h : decodeNat bits = .fin neg m e) : m < 2 ^ 53 := by
  unfold decodeNat at h
  simp only at h
  split at h
  · split at h <;> cases h
  · split at h
    · injection h with _ hm _; omega
    · injection h with _ hm _; omega

theorem decode_ofRat (neg : Bool) (n E F : Nat) (hr : roundRatPos n 1 = some (E * 2 ^ 52 + F))
    (hE0 : 0 < E) (hE : E < 2047) (hF : F < 2 ^ 52) :
    decode (ofRat neg n 1) = .fin neg (F + 2 ^ 52) ((E : Int) - 1075) := by
  unfold ofRat
  simp only [hr]
  unfold decode
  have hlt : E * 2 ^ 52 + F + (if neg = true then 2 ^ 63 else 0) < 2 ^ 64 := by
    split <;> omega
  rw [UInt64.toNat_ofNat', Nat.mod_eq_of_lt hlt, decodeNat_normal E F hE0 hE hF]

/-- the decoded form of `ofInt i` for `2^53 ≤ |i| < 2^64` -/
theorem ofInt_big_decode (i : Int) (l : Nat) (hl1 : 1 ≤ l) (hl2 : l ≤ 11)
    (hL : Nat.log2 i.natAbs = 52 + l) :
    ∃ M e : Nat, decode (ofInt i) = .fin (decide (i < 0)) M (e : Int) ∧ 2 ^ 52 ≤ M ∧ M < 2 ^ 53 ∧
      M * 2 ^ e = rne i.natAbs (2 ^ l) * 2 ^ l ∧ (M = rne i.natAbs (2 ^ l) ∨ M = 2 ^ 52) := by
  have hn : i.natAbs ≠ 0 := by
    intro h; rw [h, Nat.log2_zero] at hL; omega
  have hb := (Nat.log2_eq_iff hn).1 hL
  have hd := div_bounds _ l hb.1 hb.2
  have hrb := rne_bounds i.natAbs (2 ^ l)
  obtain ⟨M, e, hfin, hM1, hM2, hcase⟩ :=
    finish_spec (rne i.natAbs (2 ^ l)) l (by omega) (by omega) hl2
  have hr := rr_spec i.natAbs l hl1 hl2 hL
  rw [hfin] at hr
  have he : e ≤ 12 := by omega
  have hdec := decode_ofRat (decide (i < 0)) i.natAbs (e + 1075) (M - 2 ^ 52) hr (by omega)
    (by omega) (by omega)
  have hMM : M - 2 ^ 52 + 2 ^ 52 = M := by omega
  have hee : ((e + 1075 : Nat) : Int) - 1075 = (e : Int) := by omega
  rw [hMM, hee] at hdec
  refine ⟨M, e, hdec, hM1, hM2, ?_, ?_⟩
  · rcases hcase with ⟨h1, h2⟩ | ⟨h1, h2, h3⟩
    · rw [h1, h2]
    · rw [h1, h2, h3, Nat.pow_succ]; omega
  · rcases hcase with ⟨h1, _⟩ | ⟨h1, _, _⟩
    · exact Or.inl h1
    · exact Or.inr h1

/-! ### the nearest / tie argument, abstractly -/

theorem lin_core (LU U C P X Q R lo : Nat) (hQ : Q = LU + C) (hCU : C < U)
    (hP : (R = lo ∧ P = LU ∧ 2 * C < U) ∨ (R = lo + 1 ∧ P = LU + U ∧ 2 * C > U) ∨
      (2 * C = U ∧ R % 2 = 0 ∧ (P = LU ∨ P = LU + U)))
    (hX : X < LU ∨ X = LU ∨ X = LU + U ∨ X + U ≤ LU ∨ LU + 2 * U ≤ X) :
    ((P : Int) - Q).natAbs ≤ ((X : Int) - Q).natAbs ∧
      (((P : Int) - Q).natAbs = ((X : Int) - Q).natAbs → X ≠ P → R % 2 = 0) := by
  rcases hP with ⟨h1, h2, h3⟩ | ⟨h1, h2, h3⟩ | ⟨h1, h2, h3 | h3⟩ <;>
    rcases hX with h | h | h | h | h <;> omega

theorem nearest_core (n s T X B : Nat) (hs : 0 < s) (hT : 0 < T) (hB : B * s ≤ n)
    (hX : X < B * s * T ∨ ∃ j, X = j * (s * T)) :
    (((rne n s * s * T : Nat) : Int) - ((n * T : Nat) : Int)).natAbs ≤
        ((X : Int) - ((n * T : Nat) : Int)).natAbs ∧
      ((((rne n s * s * T : Nat) : Int) - ((n * T : Nat) : Int)).natAbs =
        ((X : Int) - ((n * T : Nat) : Int)).natAbs → X ≠ rne n s * s * T → rne n s % 2 = 0) := by
  have hdm : s * (n / s) + n % s = n := Nat.div_add_mod n s
  have hr : n % s < s := Nat.mod_lt _ hs
  have hQ : n * T = n / s * (s * T) + n % s * T := by
    conv => lhs; rw [← hdm]
    rw [Nat.add_mul, Nat.mul_comm s (n / s), Nat.mul_assoc]
  have hBlo : B ≤ n / s := (Nat.le_div_iff_mul_le hs).2 hB
  have hBU : B * s * T ≤ n / s * (s * T) := by
    rw [Nat.mul_assoc]; exact Nat.mul_le_mul_right _ hBlo
  have hCU : n % s * T < s * T := Nat.mul_lt_mul_of_pos_right hr hT
  have hPP : ∀ R, R * s * T = R * (s * T) := fun R => Nat.mul_assoc ..
  have hP : (rne n s = n / s ∧ rne n s * s * T = n / s * (s * T) ∧ 2 * (n % s * T) < s * T) ∨
      (rne n s = n / s + 1 ∧ rne n s * s * T = n / s * (s * T) + s * T ∧ 2 * (n % s * T) > s * T) ∨
      (2 * (n % s * T) = s * T ∧ rne n s % 2 = 0 ∧
        (rne n s * s * T = n / s * (s * T) ∨ rne n s * s * T = n / s * (s * T) + s * T)) := by
    have hsucc : (n / s + 1) * s * T = n / s * (s * T) + s * T := by
      rw [hPP, Nat.add_mul, Nat.one_mul]
    rcases Nat.lt_trichotomy (2 * (n % s)) s with h | h | h
    · left
      have hR : rne n s = n / s := by unfold rne; rw [if_neg (by omega)]
      refine ⟨hR, by rw [hR, hPP], ?_⟩
      have := Nat.mul_lt_mul_of_pos_right h hT
      rw [Nat.mul_assoc] at this; exact this
    · right; right
      refine ⟨by rw [← Nat.mul_assoc, h], ?_, ?_⟩
      · unfold rne; split <;> omega
      · unfold rne; split
        · right; exact hsucc
        · left; exact hPP _
    · right; left
      have hR : rne n s = n / s + 1 := by unfold rne; rw [if_pos (by omega)]
      refine ⟨hR, by rw [hR, hsucc], ?_⟩
      have := Nat.mul_lt_mul_of_pos_right h hT
      rw [Nat.mul_assoc] at this; exact this
  refine lin_core (n / s * (s * T)) (s * T) (n % s * T) _ X _ (rne n s) (n / s)
    (by rw [hQ]) hCU hP ?_
  rcases hX with h | ⟨j, rfl⟩
  · left; omega
  · right
    rcases Nat.lt_trichotomy j (n / s) with h | h | h
    · right; right; left
      have := Nat.mul_le_mul_right (s * T) (Nat.succ_le_of_lt h)
      rw [Nat.succ_mul] at this; exact this
    · left; rw [h]
    · by_cases h' : j = n / s + 1
      · right; left; rw [h', Nat.add_mul, Nat.one_mul]
      · right; right; right
        have : n / s + 2 ≤ j := by omega
        have := Nat.mul_le_mul_right (s * T) this
        rw [Nat.add_mul] at this; exact this

/-- a finite double's magnitude is below `2^(52+l)` or a multiple of `2^l` (scaled by `2^c`) -/
theorem X_class (m' a l c : Nat) (hm : m' < 2 ^ 53) (hc : 1 ≤ c) :
    m' * 2 ^ a < 2 ^ 52 * 2 ^ l * 2 ^ c ∨ ∃ j, m' * 2 ^ a = j * (2 ^ l * 2 ^ c) := by
  by_cases h : a < l + c
  · left
    have h1 : m' * 2 ^ a < 2 ^ 53 * 2 ^ a := Nat.mul_lt_mul_of_pos_right hm (Nat.pow_pos (by decide))
    have h2 : 2 ^ a ≤ 2 ^ (l + c - 1) := Nat.pow_le_pow_right (by decide) (by omega)
    have h3 : 2 ^ 53 * 2 ^ (l + c - 1) = 2 ^ 52 * 2 ^ l * 2 ^ c := by
      rw [← Nat.pow_add, ← Nat.pow_add, ← Nat.pow_add]; congr 1; omega
    have h4 := Nat.mul_le_mul_left (2 ^ 53) h2
    omega
  · right
    refine ⟨m' * 2 ^ (a - (l + c)), ?_⟩
    rw [Nat.mul_assoc, ← Nat.pow_add, ← Nat.pow_add]
    congr 2; omega

theorem sign_core (neg neg' : Bool) (P Q X : Nat) (ev : Prop)
    (h1 : ((P : Int) - Q).natAbs ≤ ((X : Int) - Q).natAbs)
    (h2 : ((P : Int) - Q).natAbs = ((X : Int) - Q).natAbs → X ≠ P → ev)
    (h3 : ((P : Int) - Q).natAbs < Q) :
    (sgn neg (P : Int) - sgn neg (Q : Int)).natAbs ≤ (sgn neg' (X : Int) - sgn neg (Q : Int)).natAbs ∧
      ((sgn neg (P : Int) - sgn neg (Q : Int)).natAbs =
          (sgn neg' (X : Int) - sgn neg (Q : Int)).natAbs →
        sgn neg' (X : Int) ≠ sgn neg (P : Int) → ev) := by
  cases neg <;> cases neg' <;> simp only [sgn, if_true, if_false, Bool.false_eq_true] <;>
    refine ⟨by omega, fun ht hne => ?_⟩
  · exact h2 (by omega) (by omega)
  · omega
  · omega
  · exact h2 (by omega) (by omega)

theorem twoScale_cast : twoScale = ((2 ^ scale : Nat) : Int) := by
  unfold twoScale; rw [Int.natCast_pow]; rfl

theorem int_eq_sgn (i : Int) : i = sgn (decide (i < 0)) (i.natAbs : Int) := by
  unfold sgn
  by_cases h : i < 0
  · simp only [h, decide_true, if_true]; omega
  · simp only [h, decide_false, if_false, Bool.false_eq_true]; omega


theorem ofInt_big_core (n l c : Nat) (neg neg' : Bool) (M e m' a : Nat)
    (hB : 2 ^ 52 * 2 ^ l ≤ n) (hc : 1 ≤ c) (hval : M * 2 ^ e = rne n (2 ^ l) * 2 ^ l)
    (hMcase : M = rne n (2 ^ l) ∨ M = 2 ^ 52) (hm' : m' < 2 ^ 53) :
    (sgn neg ((M : Int) * 2 ^ (e + c)) - sgn neg ((n : Int) * 2 ^ c)).natAbs ≤
        (sgn neg' ((m' : Int) * 2 ^ a) - sgn neg ((n : Int) * 2 ^ c)).natAbs ∧
      ((sgn neg ((M : Int) * 2 ^ (e + c)) - sgn neg ((n : Int) * 2 ^ c)).natAbs =
        (sgn neg' ((m' : Int) * 2 ^ a) - sgn neg ((n : Int) * 2 ^ c)).natAbs →
        sgn neg' ((m' : Int) * 2 ^ a) ≠ sgn neg ((M : Int) * 2 ^ (e + c)) → M % 2 = 0) := by
  have hs : 0 < 2 ^ l := Nat.pow_pos (by decide)
  have hT : 0 < 2 ^ c := Nat.pow_pos (by decide)
  have hkey : (M : Int) * 2 ^ (e + c) = ((rne n (2 ^ l) * 2 ^ l * 2 ^ c : Nat) : Int) := by
    rw [← hval]
    simp only [Int.natCast_mul, Int.natCast_pow, Int.pow_add, Int.mul_assoc, Int.cast_ofNat_Int]
  have hX : (m' : Int) * 2 ^ a = ((m' * 2 ^ a : Nat) : Int) := by
    simp only [Int.natCast_mul, Int.natCast_pow, Int.cast_ofNat_Int]
  have hQ : (n : Int) * 2 ^ c = ((n * 2 ^ c : Nat) : Int) := by
    simp only [Int.natCast_mul, Int.natCast_pow, Int.cast_ofNat_Int]
  rw [hkey, hX, hQ]
  have hcore := nearest_core n (2 ^ l) (2 ^ c) (m' * 2 ^ a) (2 ^ 52) hs hT hB
    (X_class m' a l c hm' hc)
  have hcore0 := (nearest_core n (2 ^ l) (2 ^ c) (2 ^ 52 * (2 ^ l * 2 ^ c)) (2 ^ 52)
    hs hT hB (Or.inr ⟨_, rfl⟩)).1
  have hBT : 2 ^ 52 * (2 ^ l * 2 ^ c) ≤ n * 2 ^ c := by
    rw [← Nat.mul_assoc]; exact Nat.mul_le_mul_right _ hB
  have hBpos : 0 < 2 ^ 52 * (2 ^ l * 2 ^ c) :=
    Nat.mul_pos (by decide) (Nat.mul_pos hs hT)
  have h3 : (((rne n (2 ^ l) * 2 ^ l * 2 ^ c : Nat) : Int) -
      ((n * 2 ^ c : Nat) : Int)).natAbs < n * 2 ^ c := by
    generalize rne n (2 ^ l) * 2 ^ l * 2 ^ c = P at *
    generalize n * 2 ^ c = Q at *
    generalize 2 ^ 52 * (2 ^ l * 2 ^ c) = Y at *
    omega
  have hev : rne n (2 ^ l) % 2 = 0 → M % 2 = 0 := by
    intro h; rcases hMcase with h' | h'
    · rw [h']; exact h
    · rw [h']
  exact sign_core neg neg' _ _ _ (M % 2 = 0) hcore.1 (fun a b => hev (hcore.2 a b)) h3

/-- `ofInt i` for `2^53 ≤ |i| < 2^64`: decoded form, nearest among all finite doubles, and even
significand on a tie -/
theorem ofInt_big (i : Int) (l : Nat) (hl1 : 1 ≤ l) (hl2 : l ≤ 11)
    (hL : Nat.log2 i.natAbs = 52 + l) :
    ∃ M e : Nat, decode (ofInt i) = .fin (decide (i < 0)) M (e : Int) ∧ 0 < M ∧
      ∀ (neg' : Bool) (m' : Nat) (e' : Int), m' < 2 ^ 53 →
        (sgn (decide (i < 0)) ((M : Int) * 2 ^ ((e : Int) + 1074).toNat) - i * twoScale).natAbs ≤
          (sgn neg' ((m' : Int) * 2 ^ (e' + 1074).toNat) - i * twoScale).natAbs ∧
        ((sgn (decide (i < 0)) ((M : Int) * 2 ^ ((e : Int) + 1074).toNat) - i * twoScale).natAbs =
          (sgn neg' ((m' : Int) * 2 ^ (e' + 1074).toNat) - i * twoScale).natAbs →
          sgn neg' ((m' : Int) * 2 ^ (e' + 1074).toNat) ≠
            sgn (decide (i < 0)) ((M : Int) * 2 ^ ((e : Int) + 1074).toNat) →
          M % 2 = 0) := by
  obtain ⟨M, e, hdec, hM1, hM2, hval, hMcase⟩ := ofInt_big_decode i l hl1 hl2 hL
  refine ⟨M, e, hdec, by omega, ?_⟩
  intro neg' m' e' hm'
  have hn : i.natAbs ≠ 0 := by
    intro h; rw [h, Nat.log2_zero] at hL; omega
  have hb := (Nat.log2_eq_iff hn).1 hL
  have hB : 2 ^ 52 * 2 ^ l ≤ i.natAbs := by rw [← Nat.pow_add]; exact hb.1
  have hsc : 1 ≤ scale := by decide
  have hea : ((e : Int) + 1074).toNat = e + scale := by simp only [scale]; omega
  have hi : i * twoScale = sgn (decide (i < 0)) ((i.natAbs : Int) * 2 ^ scale) := by
    rw [sgn_mul, ← int_eq_sgn]; unfold twoScale; rfl
  rw [hea, hi]
  exact ofInt_big_core i.natAbs l scale (decide (i < 0)) neg' M e m' _ hB hsc hval hMcase hm'

/-- the small range: decoded form (sign kept, non-zero significand) -/
theorem ofInt_small_decode (i : Int) (hz : i ≠ 0) (h : i.natAbs ≤ 2 ^ 53) :
    ∃ (M : Nat) (e : Int), decode (ofInt i) = .fin (decide (i < 0)) M e ∧ 0 < M := by
  have hn : i.natAbs ≠ 0 := by omega
  obtain ⟨hL53, K, hK, hK1, hK2, _⟩ := exists_K i.natAbs _ hn rfl h
  generalize hL : Nat.log2 i.natAbs = L at *
  have hr := roundRatPos_int i.natAbs L K hn hL hL53 hK
  have hdec := decode_ofRat (decide (i < 0)) i.natAbs (L + 1023) (K - 2 ^ 52) hr (by omega)
    (by omega) (by omega)
  exact ⟨_, _, hdec, by omega⟩

theorem big_l (n : Nat) (h1 : 2 ^ 53 < n) (h2 : n < 2 ^ 64) :
    ∃ l, 1 ≤ l ∧ l ≤ 11 ∧ Nat.log2 n = 52 + l := by
  have hn : n ≠ 0 := by omega
  have hlt : Nat.log2 n < 64 := (Nat.log2_lt hn).2 h2
  have hge : 53 ≤ Nat.log2 n := (Nat.le_log2 hn).2 (by omega)
  exact ⟨Nat.log2 n - 52, by omega, by omega, by omega⟩

end Cel.Lemmas.OfIntNearest
