import CelModel.Lemmas.Digits
import CelModel.Eval
/-!
# Helper lemmas for the conversion functions `int()`, `uint()`, `string()`
-/
namespace Cel.Lemmas.Conv
open Cel Cel.Lemmas.Digits

theorem truncMag_zero (e : Int) : F64.truncMag 0 e = 0 := by
  unfold F64.truncMag; split <;> simp

/-- `0 > f` for a finite double `f` exactly when `f` is negative and non-zero -/
theorem cmp_zero_gt (neg : Bool) (m : Nat) (e : Int) :
    (F64.cmpIntD 0 (.fin neg m e) != some .gt) = decide (neg = false ∨ m = 0) := by
  unfold F64.cmpIntD
  cases neg with
  | false =>
    simp only [F64.sgn, Bool.false_eq_true, if_false]
    rcases Nat.eq_zero_or_pos (F64.truncMag m e) with h | h
    · rw [h, Int.compare_eq_eq.2 (by simp)]
      cases F64.fracNonzero m e <;> simp
    · rw [Int.compare_eq_lt.2 (by omega)]
      simp
  | true =>
    simp only [F64.sgn, if_true]
    by_cases hm : m = 0
    · subst hm
      have h1 : F64.truncMag 0 e = 0 := by unfold F64.truncMag; split <;> simp
      have h2 : F64.fracNonzero 0 e = false := by unfold F64.fracNonzero; split <;> simp
      rw [h1, h2, Int.compare_eq_eq.2 (by simp)]
      simp
    · rcases Nat.eq_zero_or_pos (F64.truncMag m e) with h | h
      · have h2 : F64.fracNonzero m e = true := by
          unfold F64.truncMag at h
          unfold F64.fracNonzero
          split at h
          · have : 0 < 2 ^ e.toNat := Nat.pow_pos (by decide)
            rcases Nat.mul_eq_zero.1 h with h | h <;> omega
          · rename_i hne
            simp only [hne, if_false]
            have h1 := Nat.div_add_mod m (2 ^ (-e).toNat)
            rw [h] at h1
            simp only [bne_iff_ne, ne_eq]
            omega
        rw [h, h2, Int.compare_eq_eq.2 (by simp)]
        simp [hm]
      · rw [Int.compare_eq_gt.2 (by omega)]
        simp [hm]

theorem isDigit_fun_eq : (fun c : Char => decide ('0' ≤ c) && decide (c ≤ '9')) = Lexer.isDigit := by
  funext c; rfl

theorem parseIntText_dec (allow : Bool) (n : Nat) :
    parseIntText allow (natToDec n) = some (n : Int) := by
  have hall := dec_all_isDigit n
  have hne := dec_ne_nil n
  have hfold := dec_fold n
  unfold parseIntText
  generalize natToDec n = s at *
  split
  rename_i heq
  split at heq
  · simp [Lexer.isDigit] at hall
  · simp [Lexer.isDigit] at hall
  · simp only [Prod.mk.injEq] at heq
    obtain ⟨h1, h2⟩ := heq
    subst h1 h2
    simp [isDigit_fun_eq, hall, hne, hfold]

theorem parseIntText_neg_dec (n : Nat) :
    parseIntText true ('-' :: natToDec n) = some (-(n : Int)) := by
  have hall := dec_all_isDigit n
  have hne := dec_ne_nil n
  have hfold := dec_fold n
  simp [parseIntText, isDigit_fun_eq, hall, hne, hfold]

end Cel.Lemmas.Conv
