import CelModel.Time
/-!
# Fixed-width decimal fields: `pad`/`takeN` inverse lemmas and the parse of a rendered RFC 3339 text
-/
namespace Cel.Time.Rfc
open Cel Cel.Time

theorem natToDec_eq (n : Nat) : natToDec n = Nat.toDigits 10 n := by
  simp [natToDec]

theorem isDigit_of_charIsDigit (c : Char) (h : c.isDigit = true) : Time.isDigit c = true := by
  simp only [Char.isDigit, Bool.and_eq_true, decide_eq_true_eq] at h
  simp only [Time.isDigit, Bool.and_eq_true, decide_eq_true_eq, Char.le_def]
  exact ⟨h.1, h.2⟩

theorem digitsToNat_snoc (a : Str) (c : Char) :
    Dur.digitsToNat (a ++ [c]) = Dur.digitsToNat a * 10 + (c.toNat - 48) := by
  simp [Dur.digitsToNat, List.foldl_append]

theorem digitsToNat_toDigits (n : Nat) : Dur.digitsToNat (Nat.toDigits 10 n) = n := by
  induction n using Nat.strongRecOn with
  | _ n ih =>
    rw [Nat.toDigits_eq_if (by omega)]
    split
    · rename_i h
      simp only [Dur.digitsToNat, List.foldl_cons, List.foldl_nil]
      rw [Nat.toNat_digitChar_sub_48_of_lt_ten h]; omega
    · rename_i h
      rw [digitsToNat_snoc, ih (n / 10) (by omega),
        Nat.toNat_digitChar_sub_48_of_lt_ten (Nat.mod_lt _ (by omega))]
      omega

theorem digitsToNat_zeros_append (k : Nat) (s : Str) :
    Dur.digitsToNat (List.replicate k '0' ++ s) = Dur.digitsToNat s := by
  induction k with
  | zero => simp
  | succ k ih =>
    simp only [List.replicate_succ, List.cons_append]
    simp only [Dur.digitsToNat, List.foldl_cons] at ih ⊢
    exact ih

theorem digitsToNat_append_zeros (s : Str) (k : Nat) :
    Dur.digitsToNat (s ++ List.replicate k '0') = Dur.digitsToNat s * 10 ^ k := by
  induction k with
  | zero => simp
  | succ k ih =>
    rw [List.replicate_succ', ← List.append_assoc, digitsToNat_snoc, ih, Nat.pow_succ]
    simp [Nat.mul_assoc]

theorem pad_length (w n : Nat) (hw : 0 < w) (h : n < 10 ^ w) : (pad w n).length = w := by
  have := (Nat.length_toDigits_le_iff (b := 10) (n := n) (k := w) (by omega) hw).2 h
  simp only [pad, natToDec_eq, List.length_append, List.length_replicate]
  omega

theorem pad_all_digit (w n : Nat) : (pad w n).all Time.isDigit = true := by
  simp only [pad, natToDec_eq, List.all_append, Bool.and_eq_true, List.all_eq_true]
  refine ⟨?_, ?_⟩
  · intro c hc
    rw [List.mem_replicate] at hc
    rw [hc.2]; rfl
  · intro c hc
    exact isDigit_of_charIsDigit c (Nat.isDigit_of_mem_toDigits (by omega) (by omega) hc)

theorem digitsToNat_pad (w n : Nat) : Dur.digitsToNat (pad w n) = n := by
  simp only [pad, digitsToNat_zeros_append, natToDec_eq, digitsToNat_toDigits]

theorem takeN_pad (w n : Nat) (rest : Str) (hw : 0 < w) (h : n < 10 ^ w) :
    takeN w (pad w n ++ rest) = some (n, rest) := by
  have hl := pad_length w n hw h
  have ht : (pad w n ++ rest).take w = pad w n := by
    rw [List.take_append_of_le_length (by omega), List.take_of_length_le (by omega)]
  have hd : (pad w n ++ rest).drop w = rest := by
    have := List.drop_left (l₁ := pad w n) (l₂ := rest)
    rwa [hl] at this
  simp only [takeN, ht, hd, hl, pad_all_digit, digitsToNat_pad, beq_self_eq_true, Bool.and_self,
    if_true]

theorem takeDigits_append (ds : Str) (c : Char) (rest : Str)
    (hds : ds.all Time.isDigit = true) (hc : Time.isDigit c = false) :
    Dur.takeDigits (ds ++ c :: rest) = (ds, c :: rest) := by
  induction ds with
  | nil =>
    have : Dur.isDigit c = false := hc
    simp [Dur.takeDigits, this]
  | cons a ds ih =>
    simp only [List.all_cons, Bool.and_eq_true] at hds
    have ha : Dur.isDigit a = true := hds.1
    simp [Dur.takeDigits, ha, ih hds.2]

/-- the fraction printed with `k` digits, re-read and right-padded to nanoseconds -/
theorem frac_reread (k n : Nat) (hk : 0 < k) (hk9 : k ≤ 9) (h : n < 10 ^ k) :
    Dur.digitsToNat ((pad k n ++ List.replicate 9 '0').take 9) = n * 10 ^ (9 - k) := by
  have hl := pad_length k n hk h
  have : (pad k n ++ List.replicate 9 '0').take 9 = pad k n ++ List.replicate (9 - k) '0' := by
    rw [List.take_append, hl, List.take_of_length_le (by omega), List.take_replicate]
    congr 2; omega
  rw [this, digitsToNat_append_zeros, digitsToNat_pad]

theorem pad_ne_nil (k n : Nat) (hk : 0 < k) (h : n < 10 ^ k) : (pad k n).isEmpty = false := by
  have hl := pad_length k n hk h
  cases hp : pad k n with
  | nil => rw [hp] at hl; simp at hl; omega
  | cons => rfl


theorem takeN4_pad (n : Nat) (rest : Str) (h : n < 10000) :
    takeN 4 (pad 4 n ++ rest) = some (n, rest) := takeN_pad 4 n rest (by omega) (by omega)
theorem takeN2_pad (n : Nat) (rest : Str) (h : n < 100) :
    takeN 2 (pad 2 n ++ rest) = some (n, rest) := takeN_pad 2 n rest (by omega) (by omega)

theorem takeN2_pad_nil (n : Nat) (h : n < 100) : takeN 2 (pad 2 n) = some (n, []) := by
  have := takeN2_pad n [] h
  rwa [List.append_nil] at this

theorem isDigit_plus : Time.isDigit '+' = false := by decide
theorem isDigit_minus : Time.isDigit '-' = false := by decide

theorem daysInMonth_le (y : Int) (m : Nat) : daysInMonth y m ≤ 31 := by
  unfold daysInMonth
  split
  · split <;> omega
  all_goals omega

/-- what `format` may print for the fraction, with the nanoseconds it denotes -/
def FracOK (frac : Str) (nanos : Nat) : Prop :=
  (frac = [] ∧ nanos = 0) ∨
    ∃ k n, 0 < k ∧ k ≤ 9 ∧ n < 10 ^ k ∧ frac = '.' :: pad k n ∧ nanos = n * 10 ^ (9 - k)

theorem parse_render (Y M D h mi s nanos : Nat) (frac : Str) (sign : Char) (oh om : Nat)
    (hY : Y < 10000) (hM1 : 1 ≤ M) (hM : M ≤ 12) (hD1 : 1 ≤ D) (hD : D ≤ daysInMonth Y M)
    (hh : h ≤ 23) (hmi : mi ≤ 59) (hs : s ≤ 59) (hoh : oh < 24) (hom : om < 60)
    (hsign : sign = '+' ∨ sign = '-') (hfrac : FracOK frac nanos) :
    parse (pad 4 Y ++ '-' :: (pad 2 M ++ '-' :: (pad 2 D ++ 'T' :: (pad 2 h ++ ':' :: (pad 2 mi ++
      ':' :: (pad 2 s ++ (frac ++ sign :: (pad 2 oh ++ ':' :: pad 2 om))))))))
    = some (daysFromCivil Y M D * nsPerDay + ((h * 3600 + mi * 60 + s : Nat) : Int) * nsPerSec
          + nanos - (if sign = '-' then -((oh * 3600 + om * 60 : Nat) : Int)
                      else ((oh * 3600 + om * 60 : Nat) : Int)) * nsPerSec,
        (if sign = '-' then -((oh * 3600 + om * 60 : Nat) : Int)
          else ((oh * 3600 + om * 60 : Nat) : Int))) := by
  have hD31 : D ≤ 31 := by
    have := daysInMonth_le Y M
    omega
  have hM' : M < 100 := by omega
  have hD' : D < 100 := by omega
  have hh' : h < 100 := by omega
  have hmi' : mi < 100 := by omega
  have hs' : s < 100 := by omega
  have hoh' : oh < 100 := by omega
  have hom' : om < 100 := by omega
  simp only [parse, takeN4_pad _ _ hY, takeN2_pad _ _ hM', takeN2_pad _ _ hD', takeN2_pad _ _ hh',
      takeN2_pad _ _ hmi', takeN2_pad _ _ hs',
      expect, Option.bind_eq_bind, Option.bind_some, beq_self_eq_true, if_true]
  have hval : (((((¬M = 0 ∧ M ≤ 12) ∧ ¬D = 0) ∧ D ≤ daysInMonth (↑Y) M) ∧ h ≤ 23) ∧ mi ≤ 59) ∧ s ≤ 59 :=
    (And.intro (And.intro (And.intro (And.intro (And.intro (And.intro (by omega) hM) (by omega)) hD) hh) hmi) hs)
  rcases hfrac with ⟨rfl, rfl⟩ | ⟨k, n, hk, hk9, hn, rfl, rfl⟩
  · rcases hsign with rfl | rfl
    · simp [takeN2_pad _ _ hoh', takeN2_pad_nil _ hom']
      exact ⟨hom, hoh, hval⟩
    · simp [takeN2_pad _ _ hoh', takeN2_pad_nil _ hom']
      exact ⟨hom, hoh, hval⟩
  · have hne := pad_ne_nil k n hk hn
    have hre : Dur.digitsToNat (List.take 9 (pad k n ++ ['0', '0', '0', '0', '0', '0', '0', '0', '0']))
        = n * 10 ^ (9 - k) := frac_reread k n hk hk9 hn
    rcases hsign with rfl | rfl
    · have htd := takeDigits_append (pad k n) '+' (pad 2 oh ++ ':' :: pad 2 om) (pad_all_digit k n) isDigit_plus
      simp [takeN2_pad _ _ hoh', takeN2_pad_nil _ hom', htd, hne]
      exact ⟨hom, hoh, hval, by rw [hre]; simp [Int.natCast_mul, Int.natCast_pow]⟩
    · have htd := takeDigits_append (pad k n) '-' (pad 2 oh ++ ':' :: pad 2 om) (pad_all_digit k n) isDigit_minus
      simp [takeN2_pad _ _ hoh', takeN2_pad_nil _ hom', htd, hne]
      exact ⟨hom, hoh, hval, by rw [hre]; simp [Int.natCast_mul, Int.natCast_pow]⟩
end Cel.Time.Rfc
