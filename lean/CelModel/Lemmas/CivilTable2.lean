import CelModel.Lemmas.CivilCheck
/-! era tables, chunk 2 of 16: kernel evaluation by `decide +kernel` -/
namespace Cel.Time.Table
set_option maxRecDepth 100000 in
theorem doeChunk2 : checkRange checkDoe 18264 9132 = true := by decide +kernel
set_option maxRecDepth 100000 in
theorem ymdChunk2 : checkRange checkYmd 18600 9300 = true := by decide +kernel
end Cel.Time.Table
