import CelModel.Eval
/-!
# Rewriting lemmas for the evaluation monad
-/
namespace Cel

/-- the state after one step tick -/
def tickSt (st : St β) : St β := { st with steps := st.steps + 1 }

namespace M

@[simp] theorem pure_apply (a : α) (s : St β) : (Pure.pure a : M β α) s = (.ok a, s) := rfl
@[simp] theorem throw_apply (e : ErrC) (s : St β) : (M.throw e : M β α) s = (.err e, s) := rfl
@[simp] theorem panic_apply (p : String) (s : St β) : (M.panic p : M β α) s = (.panic p, s) := rfl
@[simp] theorem lift_apply (o : Outcome α) (s : St β) : (M.lift o : M β α) s = (o, s) := rfl
@[simp] theorem tick_apply (s : St β) : (M.tick : M β Unit) s = (.ok (), tickSt s) := rfl

theorem bind_apply (m : M β α) (f : α → M β γ) (s : St β) :
    (m >>= f) s = match m s with
      | (.ok a, s') => f a s'
      | (.err e, s') => (.err e, s')
      | (.panic p, s') => (.panic p, s') := rfl

theorem bind_ok {m : M β α} {f : α → M β γ} {s s' : St β} {a : α} (h : m s = (.ok a, s')) :
    (m >>= f) s = f a s' := by
  rw [bind_apply, h]

theorem bind_err {m : M β α} {f : α → M β γ} {s s' : St β} {e : ErrC} (h : m s = (.err e, s')) :
    (m >>= f) s = (.err e, s') := by
  rw [bind_apply, h]

theorem bind_panic {m : M β α} {f : α → M β γ} {s s' : St β} {p : String}
    (h : m s = (.panic p, s')) : (m >>= f) s = (.panic p, s') := by
  rw [bind_apply, h]

@[simp] theorem tick_bind (f : Unit → M β γ) (s : St β) : (M.tick >>= f) s = f () (tickSt s) := rfl

@[simp] theorem pure_bind' (a : α) (f : α → M β γ) (s : St β) : ((Pure.pure a : M β α) >>= f) s = f a s := rfl

@[simp] theorem lift_ok_bind (a : α) (f : α → M β γ) (s : St β) : ((M.lift (.ok a) : M β α) >>= f) s = f a s := rfl

theorem bind_assoc (m : M β α) (f : α → M β γ) (g : γ → M β δ) :
    (m >>= f) >>= g = m >>= fun a => f a >>= g := by
  funext s
  simp only [bind_apply]
  cases h : m s with
  | mk o s1 => cases o <;> rfl

theorem pure_bind (a : α) (f : α → M β γ) : (Pure.pure a : M β α) >>= f = f a := rfl

theorem bind_pure (m : M β α) : m >>= (fun a => (Pure.pure a : M β α)) = m := by
  funext s
  simp only [bind_apply]
  cases h : m s with
  | mk o s1 => cases o <;> rfl

theorem lift_ok (a : α) : (M.lift (.ok a) : M β α) = Pure.pure a := rfl

theorem bind_congr {m : M β α} {f g : α → M β γ} (h : ∀ a, f a = g a) : m >>= f = m >>= g := by
  have : f = g := funext h
  rw [this]

theorem map_eq_bind (f : α → γ) (m : M β α) : f <$> m = m >>= fun a => Pure.pure (f a) := rfl

end M
end Cel
