import CelModel.Lemmas.Steps
/-!
# Observational equality modulo the step counter

`Obs m1 m2`: started from two states with the same host-call log (the step counters may differ),
`m1` and `m2` produce the same outcome and the same log.  This is a congruence for `>>=` without
side conditions; every steps-independent computation is related to itself.
-/
namespace Cel

def Obs (m1 m2 : EvalM α) : Prop :=
  ∀ s1 s2 : St Value, s1.log = s2.log → (m1 s1).1 = (m2 s2).1 ∧ (m1 s1).2.log = (m2 s2).2.log

theorem SI.obs {m : EvalM α} (h : SI m) : Obs m m := by
  intro s1 s2 hl
  have e1 : s1 = shiftSt s1.steps { log := s1.log, steps := 0 } := by
    cases s1; simp [shiftSt]
  have e2 : s2 = shiftSt s2.steps { log := s1.log, steps := 0 } := by
    cases s2; simp only [shiftSt] at *; simp [hl]
  rw [e1, e2, h, h]
  exact ⟨rfl, rfl⟩

namespace Obs

theorem symm {m1 m2 : EvalM α} (h : Obs m1 m2) : Obs m2 m1 := by
  intro s1 s2 hl
  have := h s2 s1 hl.symm
  exact ⟨this.1.symm, this.2.symm⟩

theorem trans {m1 m2 m3 : EvalM α} (h1 : Obs m1 m2) (h2 : Obs m2 m3) : Obs m1 m3 := by
  intro s1 s3 hl
  have a := h1 s1 s1 rfl
  have b := h2 s1 s3 hl
  exact ⟨a.1.trans b.1, a.2.trans b.2⟩

theorem of_eq {m1 m2 : EvalM α} (e : m1 = m2) (h : Obs m2 m2) : Obs m1 m2 := by
  subst e; exact h

theorem pure {a : α} : Obs (Pure.pure a : EvalM α) (Pure.pure a) := fun _ _ hl => ⟨rfl, hl⟩
theorem throw {e : ErrC} : Obs (M.throw e : EvalM α) (M.throw e) := fun _ _ hl => ⟨rfl, hl⟩
theorem lift {o : Outcome α} : Obs (M.lift o : EvalM α) (M.lift o) := fun _ _ hl => ⟨rfl, hl⟩

theorem bind {m1 m2 : EvalM α} {f g : α → EvalM γ} (hm : Obs m1 m2)
    (hf : ∀ a, Obs (f a) (g a)) : Obs (m1 >>= f) (m2 >>= g) := by
  intro s1 s2 hl
  have h := hm s1 s2 hl
  rw [M.bind_apply, M.bind_apply]
  rcases h1 : m1 s1 with ⟨o1, t1⟩
  rcases h2 : m2 s2 with ⟨o2, t2⟩
  rw [h1, h2] at h
  obtain ⟨ho, ht⟩ := h
  dsimp only at ho ht
  subst ho
  cases o1 with
  | ok a => exact hf a t1 t2 ht
  | err e => exact ⟨rfl, ht⟩
  | panic p => exact ⟨rfl, ht⟩

/-- a leading tick on the left is invisible -/
theorem tick_left {m : Unit → EvalM α} {m' : EvalM α} (h : Obs (m ()) m') :
    Obs (M.tick >>= m) m' := by
  intro s1 s2 hl
  rw [M.tick_bind]
  exact h (tickSt s1) s2 hl

/-- a computation on the left that behaves like `pure a` can be replaced by its value -/
theorem bind_pure_left {m : EvalM α} {a : α} {f : α → EvalM γ} {g : EvalM γ}
    (hm : Obs m (Pure.pure a)) (hf : Obs (f a) g) : Obs (m >>= f) g := by
  intro s1 s2 hl
  have h := hm s1 s1 rfl
  rw [M.bind_apply]
  rcases h1 : m s1 with ⟨o1, t1⟩
  rw [h1] at h
  obtain ⟨ho, ht⟩ := h
  dsimp only [M.pure_apply] at ho ht
  subst ho
  exact hf t1 s2 (ht.trans hl)

/-- the left computation is the right one followed by a pure function -/
theorem bind_map_left {m : EvalM α} {m' : EvalM α'} {h : α' → α} {K : α → EvalM γ}
    {K' : α' → EvalM γ} (hm : Obs m (m' >>= fun r => Pure.pure (h r)))
    (hf : ∀ r, Obs (K (h r)) (K' r)) : Obs (m >>= K) (m' >>= K') := by
  intro s1 s2 hl
  have hh := hm s1 s2 hl
  rw [M.bind_apply] at hh
  rw [M.bind_apply, M.bind_apply]
  rcases h2 : m' s2 with ⟨o2, t2⟩
  rw [h2] at hh
  rcases h1 : m s1 with ⟨o1, t1⟩
  rw [h1] at hh
  cases o2 with
  | ok r =>
    obtain ⟨ho, ht⟩ := hh
    dsimp only [M.pure_apply] at ho ht
    subst ho
    exact hf r t1 t2 ht
  | err e =>
    obtain ⟨ho, ht⟩ := hh
    dsimp only at ho ht
    subst ho
    exact ⟨rfl, ht⟩
  | panic p =>
    obtain ⟨ho, ht⟩ := hh
    dsimp only at ho ht
    subst ho
    exact ⟨rfl, ht⟩

theorem ite {c : Prop} [Decidable c] {a b a' b' : EvalM α} (ha : c → Obs a a')
    (hb : ¬ c → Obs b b') : Obs (if c then a else b) (if c then a' else b') := by
  split
  · exact ha ‹_›
  · exact hb ‹_›

end Obs

/-! ## The evaluator is steps-independent, hence self-related -/

theorem eval_obs (ctx : Ctx) (e : Expr) : Obs (eval ctx e) (eval ctx e) := (eval_SI e ctx).obs

end Cel
