import CelModel.F64
/-!
# Rounding intervals of doubles — the interface between printing and parsing

A positive finite double with significand `m > 0` and exponent `e` (value `m · 2^e`, as
`F64.decodeNat` yields them: `e ≥ -1074`, `m < 2^53`, and `m ≥ 2^52` unless `e = -1074`) owns the
interval of reals that round to it: from the midpoint to its lower neighbour up to the midpoint to
its upper neighbour, the end points included exactly when `m` is even (round-half-to-even).  The
lower neighbour is half as far away when `m = 2^52` starts a binade (`e > -1074`).

Everything is stated on naturals by cross-multiplication, in units of `2^(e-2)` scaled by
`2^1076`, so that it can be both evaluated and reasoned about.
-/
namespace Cel.F64

/-- `m, e` is the decoding of a positive finite non-zero double -/
def ValidFin (m : Nat) (e : Int) : Prop :=
  0 < m ∧ m < 2 ^ 53 ∧ -1074 ≤ e ∧ e ≤ 971 ∧ (e = -1074 ∨ 2 ^ 52 ≤ m)

/-- the binade-boundary case: the gap below is half the gap above -/
def isBoundary (m : Nat) (e : Int) : Bool := m == 2 ^ 52 && e > -1074

/-- the unit `2^(e-2)`, scaled by `2^1076` -/
def unit4 (e : Int) : Nat := 2 ^ (e + 1074).toNat

/-- lower end of the rounding interval in units of `2^(e-2)` -/
def lowQ (m : Nat) (e : Int) : Nat := if isBoundary m e then 4 * m - 1 else 4 * m - 2
/-- upper end of the rounding interval in units of `2^(e-2)` -/
def highQ (m : Nat) : Nat := 4 * m + 2

/-- `num / den` lies in the rounding interval of the double `m · 2^e` -/
def InInterval (m : Nat) (e : Int) (num den : Nat) : Prop :=
  if m % 2 = 0 then
    lowQ m e * unit4 e * den ≤ num * 2 ^ 1076 ∧ num * 2 ^ 1076 ≤ highQ m * unit4 e * den
  else
    lowQ m e * unit4 e * den < num * 2 ^ 1076 ∧ num * 2 ^ 1076 < highQ m * unit4 e * den

instance (m : Nat) (e : Int) (num den : Nat) : Decidable (InInterval m e num den) := by
  unfold InInterval; exact inferInstance

/-- the bit pattern of the positive double `m · 2^e` (inverse of `decodeNat` on `ValidFin`) -/
def encodePos (m : Nat) (e : Int) : Nat :=
  if m < 2 ^ 52 then m else (e + 1075).toNat * 2 ^ 52 + (m - 2 ^ 52)

/-- value of a digit string `0.d₁d₂…dₙ × 10^k` as a fraction `num / den` -/
def digitsNum (ds : List Nat) : Nat := ds.foldl (fun n d => n * 10 + d) 0
def fracOfDigits (ds : List Nat) (k : Int) : Nat × Nat :=
  let ex : Int := k - (ds.length : Int)
  if ex ≥ 0 then (digitsNum ds * 10 ^ ex.toNat, 1) else (digitsNum ds, 10 ^ (-ex).toNat)

end Cel.F64
