import CelModel.Cmp
/-!
# Lemmas about decoded doubles, `EInt.cmp` and the int/double comparison helper
(used by `CelModel.Props.C09`)
-/
namespace Cel
namespace F64

/-! ### `compare` on `Int` -/

theorem icmp_lt {a b : Int} (h : a < b) : compare a b = .lt := Int.compare_eq_lt.2 h
theorem icmp_gt {a b : Int} (h : b < a) : compare a b = .gt := Int.compare_eq_gt.2 h
theorem icmp_eq {a b : Int} (h : a = b) : compare a b = .eq := Int.compare_eq_eq.2 h

/-- a common positive factor does not change the comparison -/
theorem icmp_mul_right (a b c : Int) (hc : 0 < c) : compare (a * c) (b * c) = compare a b := by
  rcases Int.lt_trichotomy a b with h | h | h
  · rw [icmp_lt h, icmp_lt (Int.mul_lt_mul_of_pos_right h hc)]
  · subst h; rw [icmp_eq rfl, icmp_eq rfl]
  · rw [icmp_gt h, icmp_gt (Int.mul_lt_mul_of_pos_right h hc)]

theorem twoScale_pos : 0 < twoScale := by
  unfold twoScale
  exact Int.pow_pos (by decide)

theorem sgn_mul (neg : Bool) (a c : Int) : sgn neg (a * c) = sgn neg a * c := by
  cases neg <;> simp [sgn, Int.neg_mul]

/-! ### `EInt.cmp` is a linear order -/

@[simp] theorem EInt.cmp_fin_fin (a b : Int) : EInt.cmp (.fin a) (.fin b) = compare a b := rfl
@[simp] theorem EInt.cmp_fin_negInf (a : Int) : EInt.cmp (.fin a) .negInf = .gt := rfl
@[simp] theorem EInt.cmp_fin_posInf (a : Int) : EInt.cmp (.fin a) .posInf = .lt := rfl
@[simp] theorem EInt.cmp_negInf_fin (a : Int) : EInt.cmp .negInf (.fin a) = .lt := rfl
@[simp] theorem EInt.cmp_posInf_fin (a : Int) : EInt.cmp .posInf (.fin a) = .gt := rfl
@[simp] theorem EInt.cmp_negInf_negInf : EInt.cmp .negInf .negInf = .eq := rfl
@[simp] theorem EInt.cmp_posInf_posInf : EInt.cmp .posInf .posInf = .eq := rfl
@[simp] theorem EInt.cmp_negInf_posInf : EInt.cmp .negInf .posInf = .lt := rfl
@[simp] theorem EInt.cmp_posInf_negInf : EInt.cmp .posInf .negInf = .gt := rfl

/-- rank of an extended integer as a pair ordered lexicographically: (class, value) -/
def EInt.cls : EInt → Int
  | .negInf => -1 | .fin _ => 0 | .posInf => 1
def EInt.val : EInt → Int
  | .fin z => z | _ => 0

theorem EInt.cmp_eq_lt_iff (x y : EInt) :
    EInt.cmp x y = .lt ↔ (x.cls < y.cls ∨ (x.cls = y.cls ∧ x.val < y.val)) := by
  cases x <;> cases y <;> simp [EInt.cls, EInt.val, Int.compare_eq_lt]

theorem EInt.cmp_eq_gt_iff (x y : EInt) :
    EInt.cmp x y = .gt ↔ (y.cls < x.cls ∨ (x.cls = y.cls ∧ y.val < x.val)) := by
  cases x <;> cases y <;> simp [EInt.cls, EInt.val, Int.compare_eq_gt]

theorem EInt.cmp_eq_eq_iff (x y : EInt) : EInt.cmp x y = .eq ↔ x = y := by
  cases x <;> cases y <;> simp

theorem EInt.ext_cls_val {x y : EInt} (h1 : x.cls = y.cls) (h2 : x.val = y.val) : x = y := by
  cases x <;> cases y <;> simp_all [EInt.cls, EInt.val]

theorem EInt.cmp_swap (x y : EInt) : EInt.cmp y x = Ordering.rev (EInt.cmp x y) := by
  cases h : EInt.cmp x y
  · have := (EInt.cmp_eq_lt_iff x y).1 h
    exact (EInt.cmp_eq_gt_iff y x).2 (by omega)
  · have := (EInt.cmp_eq_eq_iff x y).1 h
    subst this; exact h
  · have := (EInt.cmp_eq_gt_iff x y).1 h
    exact (EInt.cmp_eq_lt_iff y x).2 (by omega)

theorem EInt.cmp_trans (x y z : EInt) (o : Ordering) (h1 : EInt.cmp x y = o) (h2 : EInt.cmp y z = o) :
    EInt.cmp x z = o := by
  cases o
  · have a := (EInt.cmp_eq_lt_iff x y).1 h1
    have b := (EInt.cmp_eq_lt_iff y z).1 h2
    exact (EInt.cmp_eq_lt_iff x z).2 (by omega)
  · have a := (EInt.cmp_eq_eq_iff x y).1 h1
    subst a; exact h2
  · have a := (EInt.cmp_eq_gt_iff x y).1 h1
    have b := (EInt.cmp_eq_gt_iff y z).1 h2
    exact (EInt.cmp_eq_gt_iff x z).2 (by omega)

theorem EInt.cmp_trans_eq_left (x y z : EInt) (o : Ordering) (h1 : EInt.cmp x y = .eq)
    (h2 : EInt.cmp y z = o) : EInt.cmp x z = o := by
  have a := (EInt.cmp_eq_eq_iff x y).1 h1
  subst a; exact h2

theorem EInt.cmp_refl (x : EInt) : EInt.cmp x x = .eq := (EInt.cmp_eq_eq_iff x x).2 rfl

/-! ### decoding -/

theorem decodeNat_exponent_ge (bits : Nat) (neg : Bool) (m : Nat) (e : Int)
    (h : decodeNat bits = .fin neg m e) : -1074 ≤ e := by
  unfold decodeNat at h
  simp only at h
  split at h
  · split at h <;> cases h
  · split at h
    · injection h with _ _ he; omega
    · rename_i h1 h2
      injection h with _ _ he
      simp at h2
      omega

/-! ### the int/double comparison helper is exact -/

/-- integer core of the negative-exponent case, non-negative double -/
theorem cmp_core_pos (i q r P : Int) (hP : 0 < P) (hr0 : 0 ≤ r) (hr : r < P) :
    compare (i * P) (q * P + r) =
      (match compare i q with
       | .lt => Ordering.lt
       | .gt => Ordering.gt
       | .eq => if r ≠ 0 then .lt else .eq) := by
  rcases Int.lt_trichotomy i q with h | h | h
  · rw [icmp_lt h]
    have h1 : (i + 1) * P ≤ q * P := Int.mul_le_mul_of_nonneg_right (by omega) (by omega)
    rw [Int.add_mul, Int.one_mul] at h1
    exact icmp_lt (by omega)
  · subst h
    rw [icmp_eq rfl]
    by_cases hz : r = 0
    · simp [hz]
    · simp only [ne_eq, hz, not_false_eq_true, if_true]
      exact icmp_lt (by omega)
  · rw [icmp_gt h]
    have h1 : (q + 1) * P ≤ i * P := Int.mul_le_mul_of_nonneg_right (by omega) (by omega)
    rw [Int.add_mul, Int.one_mul] at h1
    exact icmp_gt (by omega)

/-- integer core of the negative-exponent case, negative double -/
theorem cmp_core_neg (i q r P : Int) (hP : 0 < P) (hr0 : 0 ≤ r) (hr : r < P) :
    compare (i * P) (-(q * P + r)) =
      (match compare i (-q) with
       | .lt => Ordering.lt
       | .gt => Ordering.gt
       | .eq => if r ≠ 0 then .gt else .eq) := by
  rcases Int.lt_trichotomy i (-q) with h | h | h
  · rw [icmp_lt h]
    have h1 : (i + 1) * P ≤ (-q) * P := Int.mul_le_mul_of_nonneg_right (by omega) (by omega)
    rw [Int.add_mul, Int.one_mul, Int.neg_mul] at h1
    exact icmp_lt (by omega)
  · subst h
    rw [icmp_eq rfl]
    rw [Int.neg_mul]
    by_cases hz : r = 0
    · simp [hz]
    · simp only [ne_eq, hz, not_false_eq_true, if_true]
      exact icmp_gt (by omega)
  · rw [icmp_gt h]
    have h1 : (-q + 1) * P ≤ i * P := Int.mul_le_mul_of_nonneg_right (by omega) (by omega)
    rw [Int.add_mul, Int.one_mul, Int.neg_mul] at h1
    exact icmp_gt (by omega)

theorem match_compare_id (o : Ordering) :
    (match o with | .lt => some Ordering.lt | .gt => some Ordering.gt | .eq => some Ordering.eq) = some o := by
  cases o <;> rfl

theorem bne_zero_cast (x : Nat) : (x != 0) = decide ((x : Int) ≠ 0) := by
  cases x with
  | zero => rfl
  | succ n =>
    have h : ((n + 1 : Nat) : Int) ≠ 0 := by omega
    simp only [h, ne_eq, not_false_eq_true, decide_true]
    rfl

theorem cmpIntD_fin (i : Int) (neg : Bool) (m : Nat) (e : Int) (he : -1074 ≤ e) :
    cmpIntD i (.fin neg m e) =
      some (EInt.cmp (keyI i) (.fin (sgn neg ((m : Int) * 2 ^ (e + 1074).toNat)))) := by
  by_cases h0 : 0 ≤ e
  · obtain ⟨n, rfl⟩ := Int.eq_ofNat_of_zero_le h0
    have hpow : (2:Int) ^ ((n:Int) + 1074).toNat = 2 ^ n * twoScale := by
      have h : ((n:Int) + 1074).toNat = n + 1074 := by omega
      rw [h, Int.pow_add]; rfl
    have hT := twoScale_pos
    rw [hpow, ← Int.mul_assoc, sgn_mul]
    simp only [cmpIntD, truncMag, fracNonzero, keyI, EInt.cmp_fin_fin, ge_iff_le, h0, if_true,
      Int.toNat_natCast, Bool.false_eq_true, if_false]
    rw [icmp_mul_right _ _ _ hT]
    simp only [Int.natCast_mul, Int.natCast_pow, Int.cast_ofNat_Int]
    exact match_compare_id _
  · have hk : ∃ k : Nat, e = -(k:Int) ∧ 0 < k ∧ k ≤ 1074 := ⟨(-e).toNat, by omega, by omega, by omega⟩
    obtain ⟨k, rfl, hk0, hk1⟩ := hk
    have h1 : (-(k:Int) + 1074).toNat = 1074 - k := by omega
    have h2 : (- -(k:Int)).toNat = k := by omega
    have hT : twoScale = (2:Int) ^ k * 2 ^ (1074 - k) := by
      rw [← Int.pow_add]
      have h : k + (1074 - k) = 1074 := by omega
      rw [h]; rfl
    have hR : (0:Int) < 2 ^ (1074 - k) := Int.pow_pos (by decide)
    have hP : (0:Int) < 2 ^ k := Int.pow_pos (by decide)
    have hPn : 0 < 2 ^ k := Nat.two_pow_pos k
    have hm : (m : Int) = ((m / 2 ^ k : Nat) : Int) * 2 ^ k + ((m % 2 ^ k : Nat) : Int) := by
      have h := Nat.div_add_mod m (2 ^ k)
      have h' : ((2 ^ k * (m / 2 ^ k) + m % 2 ^ k : Nat) : Int) = (m : Int) := by rw [h]
      rw [Int.natCast_add, Int.natCast_mul, Int.natCast_pow] at h'
      rw [← h', Int.mul_comm]; rfl
    have hr0 : (0:Int) ≤ ((m % 2 ^ k : Nat) : Int) := Int.natCast_nonneg _
    have hr1 : ((m % 2 ^ k : Nat) : Int) < 2 ^ k := by
      have h := Nat.mod_lt m hPn
      have h' : ((m % 2 ^ k : Nat) : Int) < ((2 ^ k : Nat) : Int) := Int.ofNat_lt.2 h
      rw [Int.natCast_pow] at h'
      exact h'
    have hneg : ¬ (0 ≤ -(k:Int)) := by omega
    simp only [cmpIntD, truncMag, fracNonzero, keyI, EInt.cmp_fin_fin, ge_iff_le, hneg, if_false,
      h1, h2]
    rw [hT, ← Int.mul_assoc, sgn_mul, icmp_mul_right _ _ _ hR]
    generalize hq : ((m / 2 ^ k : Nat) : Int) = q at hm
    generalize hr : ((m % 2 ^ k : Nat) : Int) = r at hm hr0 hr1
    have hrz : (m % 2 ^ k != 0) = decide (r ≠ 0) := by
      subst hr
      exact bne_zero_cast _
    rw [hm, hrz]
    cases neg
    · simp only [sgn, Bool.false_eq_true, if_false]
      rw [cmp_core_pos i q r _ hP hr0 hr1]
      by_cases hz : r = 0 <;> cases compare i q <;> simp [hz]
    · simp only [sgn, if_true]
      rw [cmp_core_neg i q r _ hP hr0 hr1]
      by_cases hz : r = 0 <;> cases compare i (-q) <;> simp [hz]

theorem cmpIntD_matches_key' (i : Int) (b : UInt64) :
    cmpIntD i (decode b) = (keyD (decode b)).map (fun k => EInt.cmp (keyI i) k) := by
  cases h : decode b with
  | nan => rfl
  | inf neg => cases neg <;> rfl
  | fin neg m e =>
    have he := decodeNat_exponent_ge _ _ _ _ h
    rw [cmpIntD_fin i neg m e he]
    rfl

end F64
end Cel
