import CelModel.Lemmas.CivilCheck
/-! era tables, chunk 3 of 16: kernel evaluation by `decide +kernel` -/
namespace Cel.Time.Table
set_option maxRecDepth 100000 in
theorem doeChunk3 : checkRange checkDoe 27396 9132 = true := by decide +kernel
set_option maxRecDepth 100000 in
theorem ymdChunk3 : checkRange checkYmd 27900 9300 = true := by decide +kernel
end Cel.Time.Table
