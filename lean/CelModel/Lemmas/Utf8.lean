import CelModel.StrOps
/-!
# UTF-8: `utf8Lossy` decodes what `utf8Encode` produces
-/
namespace Cel.Lemmas.Utf8
open Cel

theorem isCont_iff (b : UInt8) : isCont b = true ↔ 0x80 ≤ b.toNat ∧ b.toNat ≤ 0xBF := by
  simp [isCont, UInt8.le_iff_toNat_le]

theorem lossy1 (f : Nat) (b : UInt8) (rest : List UInt8) (h : b.toNat < 0x80) :
    utf8Lossy (f + 1) (b :: rest) = Char.ofNat b.toNat :: utf8Lossy f rest := by
  simp [utf8Lossy, h]

theorem lossy2 (f : Nat) (b0 b1 : UInt8) (rest : List UInt8)
    (h0 : 0xC2 ≤ b0.toNat ∧ b0.toNat ≤ 0xDF) (h1 : 0x80 ≤ b1.toNat ∧ b1.toNat ≤ 0xBF) :
    utf8Lossy (f + 1) (b0 :: b1 :: rest) =
      Char.ofNat ((b0.toNat - 0xC0) * 64 + (b1.toNat - 0x80)) :: utf8Lossy f rest := by
  have hc := (isCont_iff b1).2 h1
  have hn : ¬ b0.toNat < 0x80 := by omega
  simp [utf8Lossy, hn, h0.1, h0.2, hc]

theorem lossy3 (f : Nat) (b0 b1 b2 : UInt8) (rest : List UInt8)
    (h0 : 0xE0 ≤ b0.toNat ∧ b0.toNat ≤ 0xEF)
    (hlo : (if b0.toNat = 0xE0 then 0xA0 else 0x80) ≤ b1.toNat)
    (hhi : b1.toNat ≤ (if b0.toNat = 0xED then 0x9F else 0xBF))
    (h2 : 0x80 ≤ b2.toNat ∧ b2.toNat ≤ 0xBF) :
    utf8Lossy (f + 1) (b0 :: b1 :: b2 :: rest) =
      Char.ofNat ((b0.toNat - 0xE0) * 4096 + (b1.toNat - 0x80) * 64 + (b2.toNat - 0x80))
        :: utf8Lossy f rest := by
  have hc := (isCont_iff b2).2 h2
  have hn : ¬ b0.toNat < 0x80 := by omega
  have hn2 : ¬ (0xC2 ≤ b0.toNat ∧ b0.toNat ≤ 0xDF) := by omega
  simp [utf8Lossy, hn, hn2, h0.1, h0.2, hc, hlo, hhi]

theorem lossy4 (f : Nat) (b0 b1 b2 b3 : UInt8) (rest : List UInt8)
    (h0 : 0xF0 ≤ b0.toNat ∧ b0.toNat ≤ 0xF4)
    (hlo : (if b0.toNat = 0xF0 then 0x90 else 0x80) ≤ b1.toNat)
    (hhi : b1.toNat ≤ (if b0.toNat = 0xF4 then 0x8F else 0xBF))
    (h2 : 0x80 ≤ b2.toNat ∧ b2.toNat ≤ 0xBF) (h3 : 0x80 ≤ b3.toNat ∧ b3.toNat ≤ 0xBF) :
    utf8Lossy (f + 1) (b0 :: b1 :: b2 :: b3 :: rest) =
      Char.ofNat ((b0.toNat - 0xF0) * 262144 + (b1.toNat - 0x80) * 4096 + (b2.toNat - 0x80) * 64
        + (b3.toNat - 0x80)) :: utf8Lossy f rest := by
  have hc2 := (isCont_iff b2).2 h2
  have hc3 := (isCont_iff b3).2 h3
  have hn : ¬ b0.toNat < 0x80 := by omega
  have hn2 : ¬ (0xC2 ≤ b0.toNat ∧ b0.toNat ≤ 0xDF) := by omega
  have hn3 : ¬ (0xE0 ≤ b0.toNat ∧ b0.toNat ≤ 0xEF) := by omega
  simp [utf8Lossy, hn, hn2, hn3, h0.1, h0.2, hc2, hc3, hlo, hhi]

theorem toUInt8_toNat (n : Nat) (h : n < 256) : n.toUInt8.toNat = n := by
  show (UInt8.ofNat n).toNat = n
  rw [UInt8.toNat_ofNat']
  exact Nat.mod_eq_of_lt h

theorem char_valid (c : Char) :
    c.toNat < 0xD800 ∨ (0xDFFF < c.toNat ∧ c.toNat < 0x110000) := by
  exact c.valid

theorem ofNat_eq (c : Char) (k : Nat) (h : k = c.toNat) : Char.ofNat k = c := by
  subst h; exact Char.ofNat_toNat c

/-- decoding one encoded scalar value consumes one unit of fuel and gives the scalar back -/
theorem lossy_encode (f : Nat) (c : Char) (rest : List UInt8) :
    utf8Lossy (f + 1) (utf8Encode c ++ rest) = c :: utf8Lossy f rest := by
  have hv := char_valid c
  unfold utf8Encode
  generalize hn : c.toNat = n at *
  simp only []
  by_cases h1 : n < 0x80
  · simp only [h1, if_true, List.cons_append, List.nil_append]
    have e0 := toUInt8_toNat n (by omega)
    rw [lossy1 _ _ _ (by omega), e0, ofNat_eq c n hn.symm]
  · by_cases h2 : n < 0x800
    · simp only [h1, h2, if_true, if_false, List.cons_append, List.nil_append]
      have e0 := toUInt8_toNat (0xC0 + n / 64) (by omega)
      have e1 := toUInt8_toNat (0x80 + n % 64) (by omega)
      rw [lossy2 _ _ _ _ (by omega) (by omega), e0, e1, ofNat_eq c _ (by omega)]
    · by_cases h3 : n < 0x10000
      · simp only [h1, h2, h3, if_true, if_false, List.cons_append, List.nil_append]
        have e0 := toUInt8_toNat (0xE0 + n / 4096) (by omega)
        have e1 := toUInt8_toNat (0x80 + n / 64 % 64) (by omega)
        have e2 := toUInt8_toNat (0x80 + n % 64) (by omega)
        rw [lossy3 _ _ _ _ _ (by omega) (by rw [e0, e1]; split <;> omega)
          (by rw [e0, e1]; split <;> omega) (by omega), e0, e1, e2, ofNat_eq c _ (by omega)]
      · simp only [h1, h2, h3, if_false, List.cons_append, List.nil_append]
        have e0 := toUInt8_toNat (0xF0 + n / 262144) (by omega)
        have e1 := toUInt8_toNat (0x80 + n / 4096 % 64) (by omega)
        have e2 := toUInt8_toNat (0x80 + n / 64 % 64) (by omega)
        have e3 := toUInt8_toNat (0x80 + n % 64) (by omega)
        rw [lossy4 _ _ _ _ _ _ (by omega) (by rw [e0, e1]; split <;> omega)
          (by rw [e0, e1]; split <;> omega) (by omega) (by omega), e0, e1, e2, e3,
          ofNat_eq c _ (by omega)]

theorem lossy_strToBytes (s : Str) : ∀ f, s.length ≤ f → utf8Lossy f (strToBytes s) = s := by
  induction s with
  | nil => intro f _; cases f <;> simp [strToBytes, utf8Lossy]
  | cons c cs ih =>
    intro f hf
    cases f with
    | zero => simp at hf
    | succ f =>
      rw [strToBytes, lossy_encode, ih f (by simpa using hf)]

theorem utf8Encode_length_pos (c : Char) : 1 ≤ (utf8Encode c).length := by
  unfold utf8Encode
  simp only []
  split
  · simp
  · split
    · simp
    · split <;> simp

theorem length_le_strToBytes (s : Str) : s.length ≤ (strToBytes s).length := by
  induction s with
  | nil => simp [strToBytes]
  | cons c cs ih =>
    have := utf8Encode_length_pos c
    simp only [strToBytes, List.length_cons, List.length_append]
    omega

theorem utf8_roundtrip (s : Str) : bytesToStrLossy (strToBytes s) = s := by
  unfold bytesToStrLossy
  exact lossy_strToBytes s _ (by have := length_le_strToBytes s; omega)

end Cel.Lemmas.Utf8
