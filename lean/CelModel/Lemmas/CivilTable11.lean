import CelModel.Lemmas.CivilCheck
/-! era tables, chunk 11 of 16: kernel evaluation by `decide +kernel` -/
namespace Cel.Time.Table
set_option maxRecDepth 100000 in
theorem doeChunk11 : checkRange checkDoe 100452 9132 = true := by decide +kernel
set_option maxRecDepth 100000 in
theorem ymdChunk11 : checkRange checkYmd 102300 9300 = true := by decide +kernel
end Cel.Time.Table
