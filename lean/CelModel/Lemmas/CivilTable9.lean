import CelModel.Lemmas.CivilCheck
/-! era tables, chunk 9 of 16: kernel evaluation by `decide +kernel` -/
namespace Cel.Time.Table
set_option maxRecDepth 100000 in
theorem doeChunk9 : checkRange checkDoe 82188 9132 = true := by decide +kernel
set_option maxRecDepth 100000 in
theorem ymdChunk9 : checkRange checkYmd 83700 9300 = true := by decide +kernel
end Cel.Time.Table
