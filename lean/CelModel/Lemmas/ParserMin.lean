import CelModel.Lemmas.ParserSteps
/-!
# Parser lemmas for the minimally parenthesised round trip (`Props/C04Min.lean`)

`ParsesAt p f ts e`: the parser function of precedence level `p` (0 `parseExpr` … 7 `parseMember`)
reads exactly `ts` and yields `e`, whatever follows, provided the next token does not continue an
expression of that level.  `Cont7 / Cont5 / Cont4 / Cont3`: continuation forms for the levels with
a left-recursive loop (suffixes, `* / %`, `+ -`, relations): after `ts` the level's function is in
its loop with accumulator `e`, whatever follows.  Fuel is additive: a statement with parameter `f`
consumes at most `f` units.
-/
namespace Cel.Lemmas.ParserMin
open Cel Cel.Lexer Cel.Parser Cel.Lemmas.ParserSteps

/-! ## the first token -/

/-- the first token is an identifier, a numeral, an opening parenthesis, or the opening bracket /
brace of a list / map literal -/
inductive HeadOk : Toks → Prop
  | ident (n : Str) (r : Toks) : HeadOk (.ident n :: r)
  | int (d : Str) (r : Toks) : HeadOk (.int d :: r)
  | paren (r : Toks) : HeadOk (.sym "(" :: r)
  | brack (r : Toks) : HeadOk (.sym "[" :: r)
  | brace (r : Toks) : HeadOk (.sym "{" :: r)

theorem HeadOk.append {ts : Toks} (h : HeadOk ts) (r : Toks) : HeadOk (ts ++ r) := by
  cases h <;> constructor

theorem HeadOk.runLen_not {ts : Toks} (h : HeadOk ts) : runLen "!" ts = 0 := by
  cases h <;> simp [runLen]

theorem HeadOk.runLen_neg {ts : Toks} (h : HeadOk ts) : runLen "-" ts = 0 := by
  cases h <;> simp [runLen]

/-! ## what may follow a primary -/

/-- token lists that may follow a primary inside a member expression: a stop token, a field
selection (not a method call) followed by such a list, a method call, or an index -/
inductive SufRest : Toks → Prop
  | stop (r : Toks) : 0 < lvl (hd r) → SufRest r
  | sel (f : Str) (r : Toks) : SufRest r → SufRest (.sym "." :: .ident f :: r)
  | call (f : Str) (r : Toks) : SufRest (.sym "." :: .ident f :: .sym "(" :: r)
  | idx (r : Toks) : SufRest (.sym "[" :: r)

theorem SufRest.hd_ne {r : Toks} (h : SufRest r) : hd r ≠ "(" ∧ hd r ≠ "{" := by
  cases h with
  | stop r hl => have := lvl_pos hl; exact ⟨this.2.2.2, this.2.2.1⟩
  | sel f r _ => simp
  | call f r => simp
  | idx r => simp

theorem messageHead_sufRest {r : Toks} (h : SufRest r) : ∀ (n : Str) (k : Nat), messageHead k (.ident n :: r) = none := by
  induction h with
  | stop r hl => intro n k; have := lvl_pos hl; exact messageHead_ident k n r this.1 this.2.2.1
  | sel f r _ ih =>
    intro n k
    cases k with
    | zero => rfl
    | succ k => simp [messageHead, ih f k]
  | call f r =>
    intro n k
    cases k with
    | zero => rfl
    | succ k => simp [messageHead, messageHead_ident k f (.sym "(" :: r) (by simp) (by simp)]
  | idx r => intro n k; exact messageHead_ident k n _ (by simp) (by simp)

theorem parsePrimary_ident' {f : Nat} {n : Str} {r : Toks} (h : SufRest r) :
    parsePrimary (f + 1) (.ident n :: r) = some (.ident (String.ofList n), r) := by
  rw [parsePrimary.eq_21, messageHead_sufRest h]
  intro r' hr; subst hr; exact h.hd_ne.1 rfl

/-! ## level-indexed parsing -/

/-- the parser function of precedence level `p` -/
def pfun : Nat → Nat → Toks → Option (Expr × Toks)
  | 0 => parseExpr | 1 => parseOr | 2 => parseAnd | 3 => parseRel | 4 => parseAdd
  | 5 => parseMul | 6 => parseUnary | _ => parseMember

def ParsesAt (p f : Nat) (ts : Toks) (e : Expr) : Prop :=
  ∀ g rest, f ≤ g → 6 - p < lvl (hd rest) → pfun p (g + 1) (ts ++ rest) = some (e, rest)

theorem ParsesAt.mono {p f f' : Nat} {ts : Toks} {e : Expr} (h : ParsesAt p f ts e) (hf : f ≤ f') :
    ParsesAt p f' ts e := fun g rest hg hl => h g rest (by omega) hl

/-- a construct of level `p + 1` is one of level `p` -/
theorem ParsesAt.down1 {p f : Nat} {ts : Toks} {e : Expr} (h : ParsesAt (p + 1) f ts e) (hp : p + 1 ≤ 7)
    (hh : p + 1 = 7 → HeadOk ts) : ParsesAt p (f + 1) ts e := by
  intro g rest hg hl
  obtain ⟨g, rfl⟩ : ∃ g', g = g' + 1 := ⟨g - 1, by omega⟩
  match p, h, hp, hh, hl with
  | 0, h, _, _, hl => exact up_expr (h g rest (by omega) (by omega)) (by omega)
  | 1, h, _, _, hl => exact up_or (h g rest (by omega) (by omega)) (by omega)
  | 2, h, _, _, hl => exact up_and (h g rest (by omega) (by omega)) (by omega)
  | 3, h, _, _, hl => exact up_rel (h g rest (by omega) (by omega)) (by omega)
  | 4, h, _, _, hl => exact up_add (h g rest (by omega) (by omega)) (by omega)
  | 5, h, _, _, hl => exact up_mul (h g rest (by omega) (by omega)) (by omega)
  | 6, h, _, hh, hl =>
    exact up_unary (h g rest (by omega) (by omega)) ((hh rfl).append rest).runLen_not ((hh rfl).append rest).runLen_neg

theorem ParsesAt.downBy {f : Nat} {ts : Toks} {e : Expr} : ∀ (d p : Nat), p + d ≤ 7 → (p + d = 7 → HeadOk ts) →
    ParsesAt (p + d) f ts e → ParsesAt p (f + d) ts e
  | 0, _, _, _, h => h
  | d + 1, p, hp, hh, h => by
    have h1 : ParsesAt (p + 1) (f + d) ts e :=
      ParsesAt.downBy d (p + 1) (by omega) (fun he => hh (by omega)) (by rwa [show p + 1 + d = p + (d + 1) by omega])
    exact h1.down1 (by omega) (fun he => hh (by omega))

theorem ParsesAt.down {p q f : Nat} {ts : Toks} {e : Expr} (h : ParsesAt q f ts e) (hpq : p ≤ q) (hq : q ≤ 7)
    (hh : q = 7 → HeadOk ts) : ParsesAt p (f + 7) ts e := by
  obtain ⟨d, rfl⟩ : ∃ d, q = p + d := ⟨q - p, by omega⟩
  exact (ParsesAt.downBy d p hq hh h).mono (by omega)

/-! ## continuation forms -/

def Cont7 (f : Nat) (ts : Toks) (e : Expr) : Prop :=
  ∀ g rest, SufRest rest → ∃ k, k ≤ f ∧ parseMember (g + f + 1) (ts ++ rest) = parseSuffix (g + k + 1) rest e
def Cont5 (f : Nat) (ts : Toks) (e : Expr) : Prop :=
  ∀ g rest, 0 < lvl (hd rest) → ∃ k, k ≤ f ∧ parseMul (g + f + 1) (ts ++ rest) = parseMulRest (g + k + 1) rest e
def Cont4 (f : Nat) (ts : Toks) (e : Expr) : Prop :=
  ∀ g rest, 1 < lvl (hd rest) → ∃ k, k ≤ f ∧ parseAdd (g + f + 1) (ts ++ rest) = parseAddRest (g + k + 1) rest e
def Cont3 (f : Nat) (ts : Toks) (e : Expr) : Prop :=
  ∀ g rest, 2 < lvl (hd rest) → ∃ k, k ≤ f ∧ parseRel (g + f + 1) (ts ++ rest) = parseRelRest (g + k + 1) rest e

section
variable {f f' : Nat} {ts : Toks} {e : Expr}

theorem Cont7.mono (h : Cont7 f ts e) (hf : f ≤ f') : Cont7 f' ts e := by
  intro g rest hr
  obtain ⟨k, hk, h⟩ := h (g + (f' - f)) rest hr
  refine ⟨k + (f' - f), by omega, ?_⟩
  rw [show g + f' + 1 = g + (f' - f) + f + 1 by omega, show g + (k + (f' - f)) + 1 = g + (f' - f) + k + 1 by omega]
  exact h
theorem Cont5.mono (h : Cont5 f ts e) (hf : f ≤ f') : Cont5 f' ts e := by
  intro g rest hr
  obtain ⟨k, hk, h⟩ := h (g + (f' - f)) rest hr
  refine ⟨k + (f' - f), by omega, ?_⟩
  rw [show g + f' + 1 = g + (f' - f) + f + 1 by omega, show g + (k + (f' - f)) + 1 = g + (f' - f) + k + 1 by omega]
  exact h
theorem Cont4.mono (h : Cont4 f ts e) (hf : f ≤ f') : Cont4 f' ts e := by
  intro g rest hr
  obtain ⟨k, hk, h⟩ := h (g + (f' - f)) rest hr
  refine ⟨k + (f' - f), by omega, ?_⟩
  rw [show g + f' + 1 = g + (f' - f) + f + 1 by omega, show g + (k + (f' - f)) + 1 = g + (f' - f) + k + 1 by omega]
  exact h
theorem Cont3.mono (h : Cont3 f ts e) (hf : f ≤ f') : Cont3 f' ts e := by
  intro g rest hr
  obtain ⟨k, hk, h⟩ := h (g + (f' - f)) rest hr
  refine ⟨k + (f' - f), by omega, ?_⟩
  rw [show g + f' + 1 = g + (f' - f) + f + 1 by omega, show g + (k + (f' - f)) + 1 = g + (f' - f) + k + 1 by omega]
  exact h

theorem Cont7.parsesAt (h : Cont7 f ts e) : ParsesAt 7 f ts e := by
  intro g rest hg hl
  obtain ⟨g, rfl⟩ : ∃ g', g = g' + f := ⟨g - f, by omega⟩
  have hl' : 0 < lvl (hd rest) := by omega
  obtain ⟨k, _, h⟩ := h g rest (.stop rest hl')
  have := lvl_pos hl'
  show parseMember (g + f + 1) _ = _
  rw [h, parseSuffix_stop this.1 this.2.1]
theorem Cont5.parsesAt (h : Cont5 f ts e) : ParsesAt 5 f ts e := by
  intro g rest hg hl
  obtain ⟨g, rfl⟩ : ∃ g', g = g' + f := ⟨g - f, by omega⟩
  obtain ⟨k, _, h⟩ := h g rest (by omega)
  show parseMul (g + f + 1) _ = _
  rw [h, parseMulRest_stop (lvl_gt1 (by omega))]
theorem Cont4.parsesAt (h : Cont4 f ts e) : ParsesAt 4 f ts e := by
  intro g rest hg hl
  obtain ⟨g, rfl⟩ : ∃ g', g = g' + f := ⟨g - f, by omega⟩
  obtain ⟨k, _, h⟩ := h g rest (by omega)
  show parseAdd (g + f + 1) _ = _
  rw [h, parseAddRest_stop (lvl_gt2 (by omega))]
theorem Cont3.parsesAt (h : Cont3 f ts e) : ParsesAt 3 f ts e := by
  intro g rest hg hl
  obtain ⟨g, rfl⟩ : ∃ g', g = g' + f := ⟨g - f, by omega⟩
  obtain ⟨k, _, h⟩ := h g rest (by omega)
  show parseRel (g + f + 1) _ = _
  rw [h, parseRelRest_stop (lvl_gt3 (by omega))]

/-- a unary-level construct starts a multiplicative chain -/
theorem Cont5.ofParsesAt (h : ParsesAt 6 f ts e) : Cont5 (f + 1) ts e := by
  intro g rest hl
  have hU : parseUnary (g + f + 1) (ts ++ rest) = some (e, rest) := h (g + f) rest (by omega) (by omega)
  refine ⟨f, by omega, ?_⟩
  rw [show g + (f + 1) + 1 = g + f + 1 + 1 by omega, parseMul_of hU]
theorem Cont4.ofParsesAt (h : ParsesAt 5 f ts e) : Cont4 (f + 1) ts e := by
  intro g rest hl
  have hU : parseMul (g + f + 1) (ts ++ rest) = some (e, rest) := h (g + f) rest (by omega) (by omega)
  refine ⟨f, by omega, ?_⟩
  rw [show g + (f + 1) + 1 = g + f + 1 + 1 by omega, parseAdd_of hU]
theorem Cont3.ofParsesAt (h : ParsesAt 4 f ts e) : Cont3 (f + 1) ts e := by
  intro g rest hl
  have hU : parseAdd (g + f + 1) (ts ++ rest) = some (e, rest) := h (g + f) rest (by omega) (by omega)
  refine ⟨f, by omega, ?_⟩
  rw [show g + (f + 1) + 1 = g + f + 1 + 1 by omega, parseRel_of hU]
end

/-! ## atoms -/

theorem cont7_ident (n : Str) : Cont7 1 [.ident n] (.ident (String.ofList n)) := by
  intro g rest hr
  refine ⟨0, by omega, ?_⟩
  show parseMember (g + 1 + 1) (.ident n :: rest) = _
  rw [parseMember_of (parsePrimary_ident' hr)]

theorem cont7_int (t : Str) (e : Expr) (h : intLiteral false t = some e) : Cont7 1 [.int t] e := by
  intro g rest _
  refine ⟨0, by omega, ?_⟩
  have hP : parsePrimary (g + 1) (.int t :: rest) = some (e, rest) := by
    rw [parsePrimary_int, h]; rfl
  show parseMember (g + 1 + 1) (.int t :: rest) = _
  rw [parseMember_of hP]

/-- anything in parentheses is an atom -/
theorem cont7_paren {f : Nat} {ts : Toks} {e : Expr} (h : ParsesAt 0 f ts e) :
    Cont7 (f + 2) ([.sym "("] ++ ts ++ [.sym ")"]) e := by
  intro g rest _
  have hE : parseExpr (g + f + 1) (ts ++ .sym ")" :: rest) = some (e, .sym ")" :: rest) :=
    h (g + f) (.sym ")" :: rest) (by omega) (by simp [lvl_rparen])
  have hP := parsePrimary_paren hE
  refine ⟨f + 1, by omega, ?_⟩
  simp only [List.append_assoc, List.cons_append, List.nil_append]
  rw [show g + (f + 2) + 1 = g + f + 1 + 1 + 1 by omega, parseMember_of hP,
    show g + (f + 1) + 1 = g + f + 1 + 1 by omega]

theorem headOk_paren (ts : Toks) : HeadOk ([.sym "("] ++ ts ++ [.sym ")"]) := by
  simp only [List.cons_append, List.nil_append]
  exact .paren _

/-! ## member level -/

theorem cont7_select {fa : Nat} {A : Toks} {ea : Expr} (ha : Cont7 fa A ea) (fld : Str) :
    Cont7 (fa + 1) (A ++ [.sym ".", .ident fld]) (.select ea fld false) := by
  intro g rest hr
  obtain ⟨k, hk, h⟩ := ha (g + 1) (.sym "." :: .ident fld :: rest) (.sel fld rest hr)
  refine ⟨k, by omega, ?_⟩
  simp only [List.append_assoc, List.cons_append, List.nil_append]
  rw [show g + (fa + 1) + 1 = g + 1 + fa + 1 by omega, h,
    show g + 1 + k + 1 = g + k + 1 + 1 by omega, parseSuffix_select hr.hd_ne.1]

theorem cont7_index {fa fi : Nat} {A I : Toks} {ea ei : Expr} (ha : Cont7 fa A ea) (hi : ParsesAt 0 fi I ei) :
    Cont7 (fa + fi + 2) (A ++ [.sym "["] ++ I ++ [.sym "]"]) (.call "_[_]" [ea, ei]) := by
  intro g rest _
  obtain ⟨k, hk, h⟩ := ha (g + fi + 2) (.sym "[" :: (I ++ .sym "]" :: rest)) (.idx _)
  have hI : parseExpr (g + fi + 1 + k + 1) (I ++ .sym "]" :: rest) = some (ei, .sym "]" :: rest) :=
    hi (g + fi + 1 + k) (.sym "]" :: rest) (by omega) (by simp [lvl_rbrack])
  refine ⟨fi + 1 + k, by omega, ?_⟩
  simp only [List.append_assoc, List.cons_append, List.nil_append]
  rw [show g + (fa + fi + 2) + 1 = g + fi + 2 + fa + 1 by omega, h,
    show g + fi + 2 + k + 1 = g + fi + 1 + k + 1 + 1 by omega, parseSuffix_index hI,
    show g + (fi + 1 + k) + 1 = g + fi + 1 + k + 1 by omega]

/-! ## prefix operators -/

theorem parsesAt_not {fa : Nat} {A : Toks} {ea : Expr} (ha : ParsesAt 7 fa A ea) (hh : HeadOk A) :
    ParsesAt 6 (fa + 1) ([.sym "!"] ++ A) (.call "!_" [ea]) := by
  intro g rest hg hl
  obtain ⟨g, rfl⟩ : ∃ g', g = g' + 1 := ⟨g - 1, by omega⟩
  have hA : parseMember (g + 1) (A ++ rest) = some (ea, rest) := ha g rest (by omega) (by omega)
  have h0 := (hh.append rest).runLen_not
  show parseUnary (g + 1 + 1) (.sym "!" :: (A ++ rest)) = _
  rw [parseUnary_succ]
  simp [runLen, h0, hA]

theorem parsesAt_neg_paren {fa : Nat} {A : Toks} {ea : Expr} (ha : ParsesAt 7 fa (.sym "(" :: A) ea) :
    ParsesAt 6 (fa + 1) (.sym "-" :: .sym "(" :: A) (.call "-_" [ea]) := by
  intro g rest hg hl
  obtain ⟨g, rfl⟩ : ∃ g', g = g' + 1 := ⟨g - 1, by omega⟩
  have hA : parseMember (g + 1) (.sym "(" :: (A ++ rest)) = some (ea, rest) := ha g rest (by omega) (by omega)
  exact parseUnary_neg_paren hA

theorem parsesAt_neg {fa : Nat} {A : Toks} {ea : Expr} (ha : ParsesAt 7 fa A ea) (hh : HeadOk A)
    (hni : ∀ d r, A ≠ .int d :: r) : ParsesAt 6 (fa + 1) ([.sym "-"] ++ A) (.call "-_" [ea]) := by
  cases hh with
  | int d r => exact absurd rfl (hni d r)
  | paren r => exact parsesAt_neg_paren ha
  | brack r =>
    intro g rest hg hl
    obtain ⟨g, rfl⟩ : ∃ g', g = g' + 1 := ⟨g - 1, by omega⟩
    have hA : parseMember (g + 1) (.sym "[" :: (r ++ rest)) = some (ea, rest) := ha g rest (by omega) (by omega)
    show parseUnary (g + 1 + 1) (.sym "-" :: .sym "[" :: (r ++ rest)) = _
    rw [parseUnary_succ]
    simp [runLen, hA]
  | brace r =>
    intro g rest hg hl
    obtain ⟨g, rfl⟩ : ∃ g', g = g' + 1 := ⟨g - 1, by omega⟩
    have hA : parseMember (g + 1) (.sym "{" :: (r ++ rest)) = some (ea, rest) := ha g rest (by omega) (by omega)
    show parseUnary (g + 1 + 1) (.sym "-" :: .sym "{" :: (r ++ rest)) = _
    rw [parseUnary_succ]
    simp [runLen, hA]
  | ident n r =>
    intro g rest hg hl
    obtain ⟨g, rfl⟩ : ∃ g', g = g' + 1 := ⟨g - 1, by omega⟩
    have hA : parseMember (g + 1) (.ident n :: (r ++ rest)) = some (ea, rest) := ha g rest (by omega) (by omega)
    show parseUnary (g + 1 + 1) (.sym "-" :: .ident n :: (r ++ rest)) = _
    rw [parseUnary_succ]
    simp [runLen, hA]

/-! ## conditional, `||`, `&&` -/

theorem parsesAt_cond {fc fa fb : Nat} {C A B : Toks} {ec ea eb : Expr} (hc : ParsesAt 1 fc C ec)
    (ha : ParsesAt 1 fa A ea) (hb : ParsesAt 0 fb B eb) :
    ParsesAt 0 (fc + fa + fb + 1) (C ++ [.sym "?"] ++ A ++ [.sym ":"] ++ B) (.call "_?_:_" [ec, ea, eb]) := by
  intro g rest hg hl
  obtain ⟨g, rfl⟩ : ∃ g', g = g' + 1 := ⟨g - 1, by omega⟩
  have hC : parseOr (g + 1) (C ++ .sym "?" :: (A ++ .sym ":" :: (B ++ rest))) = some (ec, _) :=
    hc g _ (by omega) (by simp [lvl_quest])
  have hA : parseOr (g + 1) (A ++ .sym ":" :: (B ++ rest)) = some (ea, _) :=
    ha g _ (by omega) (by simp [lvl_colon])
  have hB : parseExpr (g + 1) (B ++ rest) = some (eb, rest) := hb g rest (by omega) hl
  simp only [List.append_assoc, List.cons_append, List.nil_append]
  exact parseExpr_cond hC hA hB

theorem parsesAt_or {fa fb : Nat} {A B : Toks} {ea eb : Expr} (ha : ParsesAt 2 fa A ea) (hb : ParsesAt 2 fb B eb) :
    ParsesAt 1 (fa + fb + 2) (A ++ [.sym "||"] ++ B) (.call "_||_" [ea, eb]) := by
  intro g rest hg hl
  obtain ⟨g, rfl⟩ : ∃ g', g = g' + 2 := ⟨g - 2, by omega⟩
  have hA : parseAnd (g + 1 + 1) (A ++ .sym "||" :: (B ++ rest)) = some (ea, _) :=
    ha (g + 1) _ (by omega) (by simp [lvl_or])
  have hB : parseAnd (g + 1) (B ++ rest) = some (eb, rest) := hb g rest (by omega) (by omega)
  have hR : parseOrRest (g + 1 + 1) (.sym "||" :: (B ++ rest)) [ea] = some ([eb, ea], rest) := by
    rw [parseOrRest_step hB, parseOrRest_stop (lvl_gt5 (by omega))]
  simp only [List.append_assoc, List.cons_append, List.nil_append]
  show parseOr (g + 1 + 1 + 1) _ = _
  rw [parseOr_of hA, hR]
  simp only [List.reverse_cons, List.reverse_nil, List.nil_append, List.cons_append, logicExpr_two]

theorem parsesAt_and {fa fb : Nat} {A B : Toks} {ea eb : Expr} (ha : ParsesAt 3 fa A ea) (hb : ParsesAt 3 fb B eb) :
    ParsesAt 2 (fa + fb + 2) (A ++ [.sym "&&"] ++ B) (.call "_&&_" [ea, eb]) := by
  intro g rest hg hl
  obtain ⟨g, rfl⟩ : ∃ g', g = g' + 2 := ⟨g - 2, by omega⟩
  have hA : parseRel (g + 1 + 1) (A ++ .sym "&&" :: (B ++ rest)) = some (ea, _) :=
    ha (g + 1) _ (by omega) (by simp [lvl_and])
  have hB : parseRel (g + 1) (B ++ rest) = some (eb, rest) := hb g rest (by omega) (by omega)
  have hR : parseAndRest (g + 1 + 1) (.sym "&&" :: (B ++ rest)) [ea] = some ([eb, ea], rest) := by
    rw [parseAndRest_step hB, parseAndRest_stop (lvl_gt4 (by omega))]
  simp only [List.append_assoc, List.cons_append, List.nil_append]
  show parseAnd (g + 1 + 1 + 1) _ = _
  rw [parseAnd_of hA, hR]
  simp only [List.reverse_cons, List.reverse_nil, List.nil_append, List.cons_append, logicExpr_two]

/-! ## the left-associative levels -/

theorem cont5_mul {fa fb : Nat} {A B : Toks} {ea eb : Expr} (ha : Cont5 fa A ea) (hb : ParsesAt 6 fb B eb)
    {s nm : String} (hop : mulOpName s = some nm) :
    Cont5 (fa + fb + 2) (A ++ [.sym s] ++ B) (.call nm [ea, eb]) := by
  intro g rest hl
  obtain ⟨k, hk, h⟩ := ha (g + fb + 2) (.sym s :: (B ++ rest)) (by simp [mulOp_lvl hop])
  have hB : parseUnary (g + fb + k + 1 + 1) (B ++ rest) = some (eb, rest) :=
    hb (g + fb + k + 1) rest (by omega) (by omega)
  refine ⟨fb + k + 1, by omega, ?_⟩
  simp only [List.append_assoc, List.cons_append, List.nil_append]
  rw [show g + (fa + fb + 2) + 1 = g + fb + 2 + fa + 1 by omega, h,
    show g + fb + 2 + k + 1 = g + fb + k + 1 + 1 + 1 by omega, parseMulRest_step hop hB,
    show g + (fb + k + 1) + 1 = g + fb + k + 1 + 1 by omega]

theorem cont4_add {fa fb : Nat} {A B : Toks} {ea eb : Expr} (ha : Cont4 fa A ea) (hb : ParsesAt 5 fb B eb)
    {s nm : String} (hop : addOpName s = some nm) :
    Cont4 (fa + fb + 2) (A ++ [.sym s] ++ B) (.call nm [ea, eb]) := by
  intro g rest hl
  obtain ⟨k, hk, h⟩ := ha (g + fb + 2) (.sym s :: (B ++ rest)) (by simp [addOp_lvl hop])
  have hB : parseMul (g + fb + k + 1 + 1) (B ++ rest) = some (eb, rest) :=
    hb (g + fb + k + 1) rest (by omega) (by omega)
  refine ⟨fb + k + 1, by omega, ?_⟩
  simp only [List.append_assoc, List.cons_append, List.nil_append]
  rw [show g + (fa + fb + 2) + 1 = g + fb + 2 + fa + 1 by omega, h,
    show g + fb + 2 + k + 1 = g + fb + k + 1 + 1 + 1 by omega, parseAddRest_step hop hB,
    show g + (fb + k + 1) + 1 = g + fb + k + 1 + 1 by omega]

theorem cont3_rel {fa fb : Nat} {A B : Toks} {ea eb : Expr} (ha : Cont3 fa A ea) (hb : ParsesAt 4 fb B eb)
    {s nm : String} (hop : relOpName s = some nm) :
    Cont3 (fa + fb + 2) (A ++ [.sym s] ++ B) (.call nm [ea, eb]) := by
  intro g rest hl
  obtain ⟨k, hk, h⟩ := ha (g + fb + 2) (.sym s :: (B ++ rest)) (by simp [relOp_lvl hop])
  have hB : parseAdd (g + fb + k + 1 + 1) (B ++ rest) = some (eb, rest) :=
    hb (g + fb + k + 1) rest (by omega) (by omega)
  refine ⟨fb + k + 1, by omega, ?_⟩
  simp only [List.append_assoc, List.cons_append, List.nil_append]
  rw [show g + (fa + fb + 2) + 1 = g + fb + 2 + fa + 1 by omega, h,
    show g + fb + 2 + k + 1 = g + fb + k + 1 + 1 + 1 by omega, parseRelRest_step hop hB,
    show g + (fb + k + 1) + 1 = g + fb + k + 1 + 1 by omega]

end Cel.Lemmas.ParserMin
