import CelModel.Lemmas.CivilCheck
/-! era tables, chunk 13 of 16: kernel evaluation by `decide +kernel` -/
namespace Cel.Time.Table
set_option maxRecDepth 100000 in
theorem doeChunk13 : checkRange checkDoe 118716 9132 = true := by decide +kernel
set_option maxRecDepth 100000 in
theorem ymdChunk13 : checkRange checkYmd 120900 9300 = true := by decide +kernel
end Cel.Time.Table
