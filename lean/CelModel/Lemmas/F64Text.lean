import CelModel.Lemmas.F64Round
import CelModel.Lemmas.F64Digits
/-!
# The text side of the double round trip: `F64.parse` on the layouts `F64.fmt` produces

`F64.fmt` writes the shortest digits of a finite double without an exponent, in one of three
layouts (`0.000ddd`, `ddd000`, `dd.ddd`).  This file shows that `F64.parse` reads each layout back
as exactly the fraction `fracOfDigits ds k` that `shortestDigits_spec` speaks about, so that
`roundRatPos_of_interval` applies.
-/
namespace Cel.F64

/-! ### characters -/

theorem isDigit_iff (c : Char) : isDigit c = true ↔ 48 ≤ c.toNat ∧ c.toNat ≤ 57 := by
  simp only [isDigit, Bool.and_eq_true, decide_eq_true_eq, Char.le_def, UInt32.le_iff_toNat_le]
  simp only [UInt32.reduceToNat, Char.reduceVal]
  rfl

theorem digit_ne (c : Char) (hc : isDigit c = true) :
    c ≠ '-' ∧ c ≠ '+' ∧ c ≠ '.' ∧ c ≠ 'i' ∧ c ≠ 'n' := by
  rw [isDigit_iff] at hc
  refine ⟨?_, ?_, ?_, ?_, ?_⟩ <;> (rintro rfl; revert hc; decide)

theorem digit_toLower (c : Char) (hc : isDigit c = true) : c.toLower = c := by
  rw [isDigit_iff] at hc
  unfold Char.toLower
  rw [dif_neg]
  intro h
  have h1 := h.1
  simp only [ge_iff_le, UInt32.le_iff_toNat_le, Char.reduceVal, UInt32.reduceToNat] at h1
  have : c.val.toNat = c.toNat := rfl
  omega

theorem digitChar_facts {d : Nat} (h : d < 10) :
    isDigit (digitChar d) = true ∧ digitVal (digitChar d) = d := by
  have : d = 0 ∨ d = 1 ∨ d = 2 ∨ d = 3 ∨ d = 4 ∨ d = 5 ∨ d = 6 ∨ d = 7 ∨ d = 8 ∨ d = 9 := by omega
  rcases this with rfl | rfl | rfl | rfl | rfl | rfl | rfl | rfl | rfl | rfl <;> decide

theorem isDigit_zero : isDigit '0' = true := by decide

/-- a text that starts with a digit is none of the words `inf`, `infinity`, `nan` -/
theorem lower_digit_ne (c : Char) (body : List Char) (hc : isDigit c = true) :
    (lower (c :: body) == "inf".toList) = false ∧ (lower (c :: body) == "infinity".toList) = false ∧
    (lower (c :: body) == "nan".toList) = false := by
  have hl : lower (c :: body) = c :: lower body := by
    simp only [lower, List.map_cons, digit_toLower c hc]
  have h := digit_ne c hc
  have e1 : "inf".toList = ['i', 'n', 'f'] := by decide
  have e2 : "infinity".toList = ['i', 'n', 'f', 'i', 'n', 'i', 't', 'y'] := by decide
  have e3 : "nan".toList = ['n', 'a', 'n'] := by decide
  rw [hl, e1, e2, e3]
  refine ⟨?_, ?_, ?_⟩
  · apply beq_eq_false_iff_ne.2; intro he; exact h.2.2.2.1 (List.cons.inj he).1
  · apply beq_eq_false_iff_ne.2; intro he; exact h.2.2.2.1 (List.cons.inj he).1
  · apply beq_eq_false_iff_ne.2; intro he; exact h.2.2.2.2 (List.cons.inj he).1

/-! ### digit runs -/

theorem takeDigits_append (ip rest : List Char) (h : ∀ c ∈ ip, isDigit c = true)
    (hr : ∀ c r, rest = c :: r → isDigit c = false) : takeDigits (ip ++ rest) = (ip, rest) := by
  induction ip with
  | nil =>
    cases rest with
    | nil => rfl
    | cons c r => simp [takeDigits, hr c r rfl]
  | cons c cs ih =>
    have hc := h c (by simp)
    have := ih (fun c hc => h c (by simp [hc]))
    simp [takeDigits, hc, this]

theorem takeDigits_all (ip : List Char) (h : ∀ c ∈ ip, isDigit c = true) :
    takeDigits ip = (ip, []) := by
  have := takeDigits_append ip [] h (fun c r he => by cases he)
  rwa [List.append_nil] at this

theorem takeDigits_dot (ip fp : List Char) (h : ∀ c ∈ ip, isDigit c = true) :
    takeDigits (ip ++ '.' :: fp) = (ip, '.' :: fp) := by
  apply takeDigits_append ip _ h
  intro c r he
  rw [← (List.cons.inj he).1]
  decide

theorem foldl_digits_shift (cs : List Char) (a : Nat) :
    cs.foldl (fun n c => n * 10 + digitVal c) a = a * 10 ^ cs.length + digitsToNat cs := by
  unfold digitsToNat
  induction cs generalizing a with
  | nil => simp
  | cons c cs ih =>
    rw [List.foldl_cons, List.foldl_cons, ih, ih (0 * 10 + digitVal c), List.length_cons, Nat.pow_succ]
    rw [Nat.zero_mul, Nat.zero_add, Nat.add_mul, Nat.mul_assoc, Nat.mul_comm 10, Nat.add_assoc]

theorem digitsToNat_append (a b : List Char) :
    digitsToNat (a ++ b) = digitsToNat a * 10 ^ b.length + digitsToNat b := by
  conv => lhs; unfold digitsToNat
  rw [List.foldl_append, foldl_digits_shift]
  rfl

theorem digitsToNat_zeros (z : Nat) : digitsToNat (List.replicate z '0') = 0 := by
  induction z with
  | zero => rfl
  | succ z ih =>
    have h0 : digitsToNat ['0'] = 0 := by decide
    rw [List.replicate_succ, ← List.singleton_append, digitsToNat_append, ih, h0, Nat.zero_mul]

theorem digitsToNat_digitChars (ds : List Nat) (hd : ∀ d ∈ ds, d < 10) :
    digitsToNat (ds.map digitChar) = digitsNum ds := by
  unfold digitsToNat digitsNum
  generalize 0 = a
  induction ds generalizing a with
  | nil => rfl
  | cons d ds ih =>
    rw [List.map_cons, List.foldl_cons, List.foldl_cons, (digitChar_facts (hd d (by simp))).2]
    exact ih (fun d h => hd d (by simp [h])) _

theorem digitChars_isDigit (ds : List Nat) (hd : ∀ d ∈ ds, d < 10) :
    ∀ c ∈ ds.map digitChar, isDigit c = true := by
  intro c hc
  obtain ⟨d, hd', rfl⟩ := List.mem_map.1 hc
  exact (digitChar_facts (hd d hd')).1

theorem zeros_isDigit (z : Nat) : ∀ c ∈ List.replicate z '0', isDigit c = true := by
  intro c hc
  rw [(List.mem_replicate.1 hc).2]
  decide

/-! ### `parse` in stages -/

/-- the last stage of `parse`: the value of the digits `ip.fp` times `10^ex` -/
def parseFin (neg : Bool) (ip fp : List Char) (ex : Int) : UInt64 :=
  let digs := ip ++ fp
  let mant := digitsToNat digs
  let e10 : Int := ex - (fp.length : Int)
  if mant == 0 then (if neg then signBit else 0) else
  let magHi : Int := ((digs.dropWhile (· == '0')).length : Int) + e10
  let magLo : Int := (digs.length : Int) + e10
  if magHi > 330 then (if neg then negInfBits else posInfBits)
  else if magLo < -400 then (if neg then signBit else 0)
  else if e10 ≥ 0 then ofRat neg (mant * 10 ^ e10.toNat) 1
  else ofRat neg mant (10 ^ (-e10).toNat)

/-- `parse` after the sign has been split off (verbatim copy of that part of `parse`) -/
def parseBody (neg : Bool) (body : List Char) : Option UInt64 :=
  let lb := lower body
  if lb == "inf".toList || lb == "infinity".toList then some (if neg then negInfBits else posInfBits)
  else if lb == "nan".toList then some nanBits
  else
    let (ip, r1) := takeDigits body
    let (fp, r2, hadDot) := match r1 with
      | '.' :: r => let (f, r') := takeDigits r; (f, r', true)
      | r => ([], r, false)
    let _ := hadDot
    if ip.isEmpty && fp.isEmpty then none else
    let expPart : Option (Int × List Char) := match r2 with
      | c :: r =>
        if c == 'e' || c == 'E' then
          let (eneg, r') := match r with
            | '-' :: t => (true, t)
            | '+' :: t => (false, t)
            | t => (false, t)
          let (ed, r'') := takeDigits r'
          if ed.isEmpty then none else
          let edSig := ed.dropWhile (· == '0')
          let ev := if edSig.length > 7 then 10000000 else digitsToNat edSig
          some ((if eneg then -(ev : Int) else (ev : Int)), r'')
        else some (0, c :: r)
      | [] => some (0, [])
    match expPart with
    | none => none
    | some (ex, rest) =>
      if !rest.isEmpty then none else
      let digs := ip ++ fp
      let mant := digitsToNat digs
      let e10 : Int := ex - (fp.length : Int)
      if mant == 0 then some (if neg then signBit else 0) else
      let magHi : Int := ((digs.dropWhile (· == '0')).length : Int) + e10
      let magLo : Int := (digs.length : Int) + e10
      if magHi > 330 then some (if neg then negInfBits else posInfBits)
      else if magLo < -400 then some (if neg then signBit else 0)
      else if e10 ≥ 0 then some (ofRat neg (mant * 10 ^ e10.toNat) 1)
      else some (ofRat neg mant (10 ^ (-e10).toNat))

theorem parse_neg (body : List Char) : parse ('-' :: body) = parseBody true body := rfl

theorem parse_pos (c : Char) (body : List Char) (h1 : c ≠ '-') (h2 : c ≠ '+') :
    parse (c :: body) = parseBody false (c :: body) := by
  unfold parse
  generalize h : parse.match_1 _ (c :: body) _ _ _ = p
  split at h
  · rename_i heq; exact absurd (List.cons.inj heq).1 h1
  · rename_i heq; exact absurd (List.cons.inj heq).1 h2
  · subst h; rfl

theorem parseBody_dot (neg : Bool) (body ip fp : List Char)
    (h1 : (lower body == "inf".toList) = false) (h2 : (lower body == "infinity".toList) = false)
    (h3 : (lower body == "nan".toList) = false)
    (htd : takeDigits body = (ip, '.' :: fp)) (htd2 : takeDigits fp = (fp, []))
    (hne : ip.isEmpty = false) :
    parseBody neg body = some (parseFin neg ip fp 0) := by
  unfold parseBody parseFin
  simp only [h1, h2, h3, htd, htd2, hne, Bool.or_self, Bool.false_eq_true, if_false, Bool.false_and,
    List.isEmpty_nil, Bool.not_true]
  repeat (first | rfl | split)

theorem parseBody_int (neg : Bool) (body ip : List Char)
    (h1 : (lower body == "inf".toList) = false) (h2 : (lower body == "infinity".toList) = false)
    (h3 : (lower body == "nan".toList) = false)
    (htd : takeDigits body = (ip, [])) (hne : ip.isEmpty = false) :
    parseBody neg body = some (parseFin neg ip [] 0) := by
  unfold parseBody parseFin
  simp only [h1, h2, h3, htd, hne, Bool.or_self, Bool.false_eq_true, if_false, Bool.false_and,
    List.isEmpty_nil, Bool.not_true]
  repeat (first | rfl | split)

/-- the sign `fmt` prints -/
def signCs (neg : Bool) : List Char := if neg then ['-'] else []

theorem parse_sign (neg : Bool) (c : Char) (body : List Char) (hc : isDigit c = true) :
    parse (signCs neg ++ c :: body) = parseBody neg (c :: body) := by
  cases neg
  · exact parse_pos c body (digit_ne c hc).1 (digit_ne c hc).2.1
  · exact parse_neg (c :: body)

/-- `-?ddd.ddd` -/
theorem parse_dot (neg : Bool) (ip fp : List Char) (hne : ip ≠ [])
    (hip : ∀ c ∈ ip, isDigit c = true) (hfp : ∀ c ∈ fp, isDigit c = true) :
    parse (signCs neg ++ (ip ++ '.' :: fp)) = some (parseFin neg ip fp 0) := by
  cases ip with
  | nil => exact absurd rfl hne
  | cons c ip' =>
    have hc := hip c (by simp)
    rw [List.cons_append, parse_sign neg c _ hc, ← List.cons_append]
    have hl := lower_digit_ne c (ip' ++ '.' :: fp) hc
    rw [← List.cons_append] at hl
    exact parseBody_dot neg _ (c :: ip') fp hl.1 hl.2.1 hl.2.2 (takeDigits_dot _ fp hip)
      (takeDigits_all fp hfp) rfl

/-- `-?ddd` -/
theorem parse_int (neg : Bool) (ip : List Char) (hne : ip ≠ [])
    (hip : ∀ c ∈ ip, isDigit c = true) :
    parse (signCs neg ++ ip) = some (parseFin neg ip [] 0) := by
  cases ip with
  | nil => exact absurd rfl hne
  | cons c ip' =>
    have hc := hip c (by simp)
    rw [parse_sign neg c _ hc]
    have hl := lower_digit_ne c ip' hc
    exact parseBody_int neg _ (c :: ip') hl.1 hl.2.1 hl.2.2 (takeDigits_all _ hip) rfl

/-! ### the value `parse` computes -/

theorem parseFin_int (neg : Bool) (ip : List Char) (hm : digitsToNat ip ≠ 0)
    (hlen : ip.length ≤ 330) :
    parseFin neg ip [] 0 = ofRat neg (digitsToNat ip) 1 := by
  have hdw : (ip.dropWhile (· == '0')).length ≤ ip.length := (List.dropWhile_sublist _).length_le
  unfold parseFin
  simp only [List.append_nil, List.length_nil, Int.natCast_zero, Int.sub_self, Int.add_zero,
    beq_iff_eq, hm, if_false, ge_iff_le, Int.le_refl, if_true, Int.toNat_zero, Nat.pow_zero,
    Nat.mul_one]
  rw [if_neg (by omega), if_neg (by omega)]

theorem parseFin_frac (neg : Bool) (ip fp : List Char) (hfp : fp ≠ [])
    (hm : digitsToNat (ip ++ fp) ≠ 0) (hlen : ip.length ≤ 330) :
    parseFin neg ip fp 0 = ofRat neg (digitsToNat (ip ++ fp)) (10 ^ fp.length) := by
  have hpos : 0 < fp.length := List.length_pos_iff.2 hfp
  have hdw : ((ip ++ fp).dropWhile (· == '0')).length ≤ ip.length + fp.length := by
    have := (List.dropWhile_sublist (l := ip ++ fp) (· == '0')).length_le
    rwa [List.length_append] at this
  unfold parseFin
  simp only [beq_iff_eq, hm, if_false, List.length_append]
  rw [if_neg (by omega), if_neg (by omega), if_neg (by omega)]
  congr 2
  omega

/-! ### the layouts of `fmt` -/

/-- the text `fmt` prints for a non-zero finite double with shortest digits `ds`, exponent `k` -/
def layout (neg : Bool) (k : Int) (ds : List Nat) : List Char :=
  let n := ds.length
  let cs := ds.map digitChar
  if k ≤ 0 then signCs neg ++ (['0'] ++ '.' :: (List.replicate (-k).toNat '0' ++ cs))
  else if k.toNat ≥ n then signCs neg ++ (cs ++ List.replicate (k.toNat - n) '0')
  else signCs neg ++ (cs.take k.toNat ++ '.' :: cs.drop k.toNat)

theorem fmt_fin (b : UInt64) (neg : Bool) (m : Nat) (e : Int) (hd : decode b = .fin neg m e)
    (hm : m ≠ 0) : fmt b = layout neg (shortestDigits m e).1 (shortestDigits m e).2 := by
  unfold fmt layout signCs
  simp only [hd, beq_iff_eq, hm, if_false]
  split
  · simp
  · split <;> simp

theorem fmt_zero (b : UInt64) (neg : Bool) (e : Int) (hd : decode b = .fin neg 0 e) :
    fmt b = signCs neg ++ ['0'] := by
  unfold fmt signCs
  simp only [hd, beq_self_eq_true, if_true]

/-- READING BACK: the three layouts parse to the fraction the digits denote -/
theorem parse_layout (neg : Bool) (k : Int) (ds : List Nat) (hne : ds ≠ [])
    (hd : ∀ d ∈ ds, d < 10) (hk : k ≤ 330) (hnum : (fracOfDigits ds k).1 ≠ 0) :
    parse (layout neg k ds) =
      some (ofRat neg (fracOfDigits ds k).1 (fracOfDigits ds k).2) := by
  have hcs := digitChars_isDigit ds hd
  have hval := digitsToNat_digitChars ds hd
  have hn : 0 < ds.length := List.length_pos_iff.2 hne
  have hlen : (ds.map digitChar).length = ds.length := List.length_map _
  unfold layout
  dsimp only
  split
  · -- 0.000ddd
    rename_i hk0
    have hfp : ∀ c ∈ List.replicate (-k).toNat '0' ++ ds.map digitChar, isDigit c = true := by
      intro c hc
      rcases List.mem_append.1 hc with h | h
      · exact zeros_isDigit _ c h
      · exact hcs c h
    have hfrac : fracOfDigits ds k = (digitsNum ds, 10 ^ ((-k).toNat + ds.length)) := by
      unfold fracOfDigits
      dsimp only
      rw [if_neg (by omega)]
      congr 2
      omega
    rw [hfrac] at hnum ⊢
    have hmant : digitsToNat (['0'] ++ (List.replicate (-k).toNat '0' ++ ds.map digitChar)) =
        digitsNum ds := by
      rw [digitsToNat_append, digitsToNat_append, digitsToNat_zeros, hval]
      show 0 * _ + (0 * _ + _) = _
      rw [Nat.zero_mul, Nat.zero_mul, Nat.zero_add, Nat.zero_add]
    rw [parse_dot neg ['0'] _ (by simp) (by intro c hc; rw [List.mem_singleton.1 hc]; decide) hfp,
      parseFin_frac neg _ _ (by
        intro h
        have := congrArg List.length h
        simp only [List.length_append, List.length_replicate, hlen, List.length_nil] at this
        omega) (by rw [hmant]; exact hnum) (by simp), hmant]
    simp only [List.length_append, List.length_replicate, hlen]
  · split
    · -- ddd000
      rename_i hk0 hkn
      have hip : ∀ c ∈ ds.map digitChar ++ List.replicate (k.toNat - ds.length) '0',
          isDigit c = true := by
        intro c hc
        rcases List.mem_append.1 hc with h | h
        · exact hcs c h
        · exact zeros_isDigit _ c h
      have hfrac : fracOfDigits ds k = (digitsNum ds * 10 ^ (k.toNat - ds.length), 1) := by
        unfold fracOfDigits
        dsimp only
        rw [if_pos (by omega)]
        congr 3
        omega
      rw [hfrac] at hnum ⊢
      have hmant : digitsToNat (ds.map digitChar ++ List.replicate (k.toNat - ds.length) '0') =
          digitsNum ds * 10 ^ (k.toNat - ds.length) := by
        rw [digitsToNat_append, digitsToNat_zeros, hval, List.length_replicate, Nat.add_zero]
      rw [parse_int neg _ (by
          intro h
          have := congrArg List.length h
          simp only [List.length_append, List.length_replicate, hlen, List.length_nil] at this
          omega) hip,
        parseFin_int neg _ (by rw [hmant]; exact hnum) (by
          simp only [List.length_append, List.length_replicate, hlen]; omega), hmant]
    · -- dd.ddd
      rename_i hk0 hkn
      have hlt : k.toNat < ds.length := by omega
      have hip : ∀ c ∈ (ds.map digitChar).take k.toNat, isDigit c = true :=
        fun c hc => hcs c (List.mem_of_mem_take hc)
      have hfp : ∀ c ∈ (ds.map digitChar).drop k.toNat, isDigit c = true :=
        fun c hc => hcs c (List.mem_of_mem_drop hc)
      have hfrac : fracOfDigits ds k = (digitsNum ds, 10 ^ (ds.length - k.toNat)) := by
        unfold fracOfDigits
        dsimp only
        rw [if_neg (by omega)]
        congr 2
        omega
      rw [hfrac] at hnum ⊢
      have hmant : digitsToNat ((ds.map digitChar).take k.toNat ++ (ds.map digitChar).drop k.toNat) =
          digitsNum ds := by
        rw [List.take_append_drop, hval]
      rw [parse_dot neg _ _ (by
          intro h
          have := congrArg List.length h
          simp only [List.length_take, hlen, List.length_nil] at this
          omega) hip hfp,
        parseFin_frac neg _ _ (by
          intro h
          have := congrArg List.length h
          simp only [List.length_drop, hlen, List.length_nil] at this
          omega) (by rw [hmant]; exact hnum) (by
          simp only [List.length_take, hlen]; omega), hmant]
      simp only [List.length_drop, hlen]

/-! ### bit patterns -/

/-- splitting off the sign bit of a finite double -/
theorem decodeNat_sign (n : Nat) (hn : n < 2 ^ 64) (neg : Bool) (m : Nat) (e : Int)
    (hd : decodeNat n = .fin neg m e) :
    decodeNat (n % 2 ^ 63) = .fin false m e ∧ n = n % 2 ^ 63 + (if neg then 2 ^ 63 else 0) := by
  unfold decodeNat at hd ⊢
  have e1 : n % 2 ^ 63 / 2 ^ 52 % 2 ^ 11 = n / 2 ^ 52 % 2 ^ 11 := by omega
  have e2 : n % 2 ^ 63 % 2 ^ 52 = n % 2 ^ 52 := by omega
  have e3 : n % 2 ^ 63 / 2 ^ 63 % 2 = 0 := by omega
  simp only [e1, e2, e3] at hd ⊢
  have hsign : n = n % 2 ^ 63 + (if (n / 2 ^ 63 % 2 == 1) = true then 2 ^ 63 else 0) := by
    split
    · rename_i h; simp only [beq_iff_eq] at h; omega
    · rename_i h; simp only [beq_iff_eq] at h; omega
  split at hd
  · split at hd <;> cases hd
  · rename_i hex1
    split at hd
    · rename_i hex0
      injection hd with h1 h2 h3
      subst h1 h2 h3
      exact ⟨by rw [if_neg hex1, if_pos hex0]; rfl, hsign⟩
    · rename_i hex0
      injection hd with h1 h2 h3
      subst h1 h2 h3
      exact ⟨by rw [if_neg hex1, if_neg hex0]; rfl, hsign⟩

/-- a zero significand: the pattern is `+0` -/
theorem decodeNat_zero (n : Nat) (hn : n < 2 ^ 63) (e : Int)
    (hd : decodeNat n = .fin false 0 e) : n = 0 := by
  unfold decodeNat at hd
  dsimp only at hd
  split at hd
  · split at hd <;> cases hd
  · split at hd
    · rename_i hex
      injection hd with h1 h2 h3
      simp only [beq_iff_eq] at hex
      omega
    · injection hd with h1 h2 h3
      omega

/-- an infinity is one of two bit patterns -/
theorem decodeNat_inf (n : Nat) (hn : n < 2 ^ 64) (neg : Bool) (hd : decodeNat n = .inf neg) :
    n = if neg then 0xfff0000000000000 else 0x7ff0000000000000 := by
  unfold decodeNat at hd
  dsimp only at hd
  split at hd
  · rename_i hex
    split at hd
    · rename_i hfr
      injection hd with h1
      subst h1
      simp only [beq_iff_eq] at hex hfr
      split
      · rename_i h; simp only [beq_iff_eq] at h; omega
      · rename_i h; simp only [beq_iff_eq] at h; omega
    · cases hd
  · split at hd <;> cases hd

theorem ofRat_of_round (neg : Bool) (num den bits : Nat) (h : roundRatPos num den = some bits) :
    ofRat neg num den = UInt64.ofNat (bits + (if neg then 2 ^ 63 else 0)) := by
  unfold ofRat
  rw [h]

theorem InInterval_num_pos (m : Nat) (e : Int) (num den : Nat) (hm : 0 < m) (hden : 0 < den)
    (h : InInterval m e num den) : num ≠ 0 := by
  intro h0
  subst h0
  have hl : 0 < lowQ m e := by
    unfold lowQ; split <;> omega
  have hu : 0 < unit4 e := Nat.pow_pos (by decide)
  have hp : 0 < lowQ m e * unit4 e * den := Nat.mul_pos (Nat.mul_pos hl hu) hden
  unfold InInterval at h
  generalize 2 ^ 1076 = P at h
  rw [Nat.zero_mul] at h
  split at h
  · exact Nat.not_le_of_gt hp h.1
  · exact Nat.not_lt_zero _ h.1

theorem fracOfDigits_den_pos (ds : List Nat) (k : Int) : 0 < (fracOfDigits ds k).2 := by
  unfold fracOfDigits
  dsimp only
  split
  · exact Nat.one_pos
  · exact Nat.pow_pos (by decide)

end Cel.F64
