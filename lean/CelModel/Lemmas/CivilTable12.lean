import CelModel.Lemmas.CivilCheck
/-! era tables, chunk 12 of 16: kernel evaluation by `decide +kernel` -/
namespace Cel.Time.Table
set_option maxRecDepth 100000 in
theorem doeChunk12 : checkRange checkDoe 109584 9132 = true := by decide +kernel
set_option maxRecDepth 100000 in
theorem ymdChunk12 : checkRange checkYmd 111600 9300 = true := by decide +kernel
end Cel.Time.Table
