import CelModel.Lemmas.Sat
import CelModel.Props.C11
/-!
# Generic `Sat` lemmas used by the type-soundness proof (`Props/C03Types.lean`)

Nothing here mentions types: element-wise lifting for `evalList` / `evalEntries`, the thunks of
a call node, the dispatch of `callNode`, `extract` on the concrete signatures of the standard
functions, and an invariant rule for the comprehension loop.
-/
namespace Cel.Typing
open Cel

/-! ## thunks -/

theorem evalThunks_nil (ctx : Ctx) : evalThunks ctx [] = [] := by
  rw [evalThunks]

theorem evalThunks_cons (ctx : Ctx) (e : Expr) (es : List Expr) :
    evalThunks ctx (e :: es) = eval ctx e :: evalThunks ctx es := by
  rw [evalThunks]

theorem evalThunks_one (ctx : Ctx) (a : Expr) : evalThunks ctx [a] = [eval ctx a] := by
  rw [evalThunks_cons, evalThunks_nil]

theorem evalThunks_two (ctx : Ctx) (a b : Expr) :
    evalThunks ctx [a, b] = [eval ctx a, eval ctx b] := by
  rw [evalThunks_cons, evalThunks_one]

theorem evalThunks_three (ctx : Ctx) (a b c : Expr) :
    evalThunks ctx [a, b, c] = [eval ctx a, eval ctx b, eval ctx c] := by
  rw [evalThunks_cons, evalThunks_two]

/-! ## list and map literals -/

theorem evalList_sat {Q : Value → Prop} {E : ErrC → Prop} (ctx : Ctx) (es : List Expr)
    (h : ∀ e ∈ es, Sat (eval ctx e) Q E) :
    Sat (evalList ctx es) (fun vs => ∀ v ∈ vs, Q v) E := by
  induction es with
  | nil =>
    rw [evalList]
    exact Sat.pure (fun _ hv => nomatch hv)
  | cons e es ih =>
    rw [evalList]
    apply Sat.bind (h e (List.mem_cons_self ..)); intro v hv
    apply Sat.bind (ih (fun e' he' => h e' (List.mem_cons_of_mem _ he'))); intro vs hvs
    apply Sat.pure
    intro x hx
    rcases List.mem_cons.mp hx with rfl | hx
    · exact hv
    · exact hvs x hx

theorem mem_insert {m : MapV} {k : Key} {v : Value} {kv : Key × Value}
    (h : kv ∈ MapV.insert m k v) : kv ∈ m ∨ kv = (k, v) := by
  induction m with
  | nil =>
    simp only [MapV.insert, List.mem_singleton] at h
    exact Or.inr h
  | cons hd rest ih =>
    obtain ⟨k', v'⟩ := hd
    simp only [MapV.insert] at h
    split at h
    · rcases List.mem_cons.mp h with h | h
      · exact Or.inr h
      · exact Or.inl (List.mem_cons_of_mem _ h)
    · rcases List.mem_cons.mp h with h | h
      · exact Or.inl (h ▸ List.mem_cons_self ..)
      · rcases ih h with h | h
        · exact Or.inl (List.mem_cons_of_mem _ h)
        · exact Or.inr h

theorem find?_mem {m : MapV} {k : Key} {v : Value} (h : MapV.find? m k = some v) :
    ∃ k', (k', v) ∈ m := by
  induction m with
  | nil => simp [MapV.find?] at h
  | cons hd rest ih =>
    obtain ⟨k', v'⟩ := hd
    simp only [MapV.find?] at h
    split at h
    · cases h; exact ⟨k', List.mem_cons_self ..⟩
    · obtain ⟨k'', hk⟩ := ih h
      exact ⟨k'', List.mem_cons_of_mem _ hk⟩

/-- `find?` returns the entry stored under exactly that key -/
theorem find?_mem_key {m : MapV} {k : Key} {v : Value} (h : MapV.find? m k = some v) :
    (k, v) ∈ m := by
  induction m with
  | nil => simp [MapV.find?] at h
  | cons hd rest ih =>
    obtain ⟨k', v'⟩ := hd
    simp only [MapV.find?] at h
    split at h
    · rename_i hk; cases h; subst hk; exact List.mem_cons_self ..
    · exact List.mem_cons_of_mem _ (ih h)

theorem get_mem {m : MapV} {k : Key} {v : Value} (h : MapV.get m k = some v) :
    ∃ k', (k', v) ∈ m := by
  unfold MapV.get at h
  split at h
  · rename_i w hw; cases h; exact find?_mem hw
  · split at h
    · split at h
      · exact find?_mem h
      · cases h
    · split at h
      · exact find?_mem h
      · cases h
    · cases h

theorem toKey?_toValue {v : Value} {k : Key} (h : v.toKey? = some k) : k.toValue = v := by
  cases v <;> simp only [Value.toKey?] at h <;> cases h <;> rfl

theorem evalEntries_sat {QK QV : Value → Prop} {E : ErrC → Prop} (ctx : Ctx)
    (es : List (Expr × Expr))
    (hk : ∀ kv ∈ es, Sat (eval ctx kv.1) QK E) (hv : ∀ kv ∈ es, Sat (eval ctx kv.2) QV E)
    (hkey : ∀ v, QK v → v.toKey? ≠ none) (acc : MapV)
    (hacc : ∀ kv ∈ acc, QK kv.1.toValue ∧ QV kv.2) :
    Sat (evalEntries ctx es acc) (fun m => ∀ kv ∈ m, QK kv.1.toValue ∧ QV kv.2) E := by
  induction es generalizing acc with
  | nil =>
    rw [evalEntries]
    exact Sat.pure hacc
  | cons e es ih =>
    obtain ⟨k, v⟩ := e
    rw [evalEntries]
    apply Sat.bind (hk (k, v) (List.mem_cons_self ..)); intro kv hkv
    split
    · rename_i hnone
      exact absurd hnone (hkey kv hkv)
    · rename_i key hkey'
      apply Sat.bind (hv (k, v) (List.mem_cons_self ..)); intro vv hvv
      refine ih (fun e' he' => hk e' (List.mem_cons_of_mem _ he'))
        (fun e' he' => hv e' (List.mem_cons_of_mem _ he')) _ ?_
      intro kv' hkv'
      rcases mem_insert hkv' with h | h
      · exact hacc kv' h
      · subst h
        exact ⟨by rw [toKey?_toValue hkey']; exact hkv, hvv⟩

/-! ## call-node dispatch -/

theorem callNode_cond (ctx : Ctx) (target : Option (EvalM Value)) (argEs : List Expr)
    (c a b : EvalM Value) :
    callNode ctx condName target argEs [c, a, b] = (do
      let cv ← c
      if cv.truthy then a else b) := by
  unfold callNode
  simp only [beq_self_eq_true, if_true]

theorem callNode_bin (ctx : Ctx) (f : String) (op : BinOp) (target : Option (EvalM Value))
    (argEs : List Expr) (a b : EvalM Value) (hf : binOpOfName f = some op)
    (hop : op ≠ .and ∧ op ≠ .or) :
    callNode ctx f target argEs [a, b] = (do
      let l ← a
      let r ← b
      M.lift (applyBin op l r)) := by
  unfold callNode
  simp only [hf]
  cases op <;> first | rfl | exact absurd rfl hop.1 | exact absurd rfl hop.2

theorem callNode_and (ctx : Ctx) (f : String) (target : Option (EvalM Value))
    (argEs : List Expr) (a b : EvalM Value) (hf : binOpOfName f = some .and) :
    callNode ctx f target argEs [a, b] = (do
      let l ← a
      if !l.truthy then pure (.bool false)
      else do
        let r ← b
        pure (.bool r.truthy)) := by
  unfold callNode
  simp only [hf]

theorem callNode_or (ctx : Ctx) (f : String) (target : Option (EvalM Value))
    (argEs : List Expr) (a b : EvalM Value) (hf : binOpOfName f = some .or) :
    callNode ctx f target argEs [a, b] = (do
      let l ← a
      if l.truthy then pure l else b) := by
  unfold callNode
  simp only [hf]

theorem callNode_un (ctx : Ctx) (f : String) (op : UnOp) (target : Option (EvalM Value))
    (argEs : List Expr) (a : EvalM Value) (hf : unOpOfName f = some op) :
    callNode ctx f target argEs [a] = (do
      let v ← a
      M.lift (applyUn op v)) := by
  unfold callNode
  simp only [hf]

/-- a call node with at most two operands whose name is not an operator name is a function call
of the registered function -/
theorem callNode_fn_global (ctx : Ctx) (f : String) (k : FnKind) (argEs : List Expr)
    (thunks : List (EvalM Value)) (hk : ctx.getFunction f = some k)
    (hlen : thunks.length ≤ 2) (hb : binOpOfName f = none) (hu : unOpOfName f = none) :
    callNode ctx f none argEs thunks = applyFn ctx f k none thunks argEs := by
  unfold callNode
  match thunks, hlen with
  | [], _ => simp only [hk]
  | [a], _ => simp only [hk, hu]
  | [a, b], _ => simp only [hk, hb]
  | _ :: _ :: _ :: _, h => simp at h

theorem callNode_fn_member (ctx : Ctx) (f : String) (k : FnKind) (t : EvalM Value)
    (argEs : List Expr)
    (thunks : List (EvalM Value)) (hk : ctx.getFunction f = some k)
    (hlen : thunks.length ≤ 2) (hb : binOpOfName f = none) (hu : unOpOfName f = none) :
    callNode ctx f (some t) argEs thunks = (do
      let tv ← t
      applyFn ctx f k (some tv) thunks argEs) := by
  unfold callNode
  match thunks, hlen with
  | [], _ => simp only [hk]
  | [a], _ => simp only [hk, hu]
  | [a, b], _ => simp only [hk, hb]
  | _ :: _ :: _ :: _, h => simp at h

/-! ## `extract` on the signatures of the standard functions -/

section extract
variable {Q Q2 : Value → Prop} {E : ErrC → Prop}

theorem lift_fromValue_sat {t : ExtTy} {a : Value} (h : fromValue t a = .ok a) {R : Value → Prop}
    (hr : R a) : Sat (M.lift (fromValue t a) : EvalM Value) R E := by
  rw [h]; exact Sat.lift hr

/-- `[This<T>]`, called with a receiver -/
theorem extract_this_recv (tv : Value) (thunks : List (EvalM Value)) (argEs : List Expr)
    (t : ExtTy) (h : fromValue t tv = .ok tv) :
    Sat (extract (some tv) thunks argEs [.this t] 0) (fun ps => ps = [tv]) E := by
  simp only [extract]
  apply Sat.bind (Q := fun p => p.1 = tv)
  · apply Sat.bind (lift_fromValue_sat h (R := fun v => v = tv) rfl); intro v hv
    exact Sat.pure hv
  · rintro ⟨v, idx⟩ hv
    apply Sat.bind (Q := fun vs => vs = []) (Sat.pure rfl); intro vs hvs
    apply Sat.pure
    dsimp only at hv
    rw [hv, hvs]

/-- `[This<T>]`, called without a receiver: the first argument -/
theorem extract_this_global (th : EvalM Value) (argEs : List Expr)
    (t : ExtTy) (hth : Sat th Q E) (h : ∀ a, Q a → fromValue t a = .ok a) :
    Sat (extract none [th] argEs [.this t] 0) (fun ps => ∃ a, ps = [a] ∧ Q a) E := by
  simp only [extract, List.getElem?_cons_zero]
  apply Sat.bind (Q := fun p => Q p.1)
  · apply Sat.bind hth; intro a ha
    apply Sat.bind (lift_fromValue_sat (h a ha) (R := Q) ha); intro v hv
    exact Sat.pure hv
  · rintro ⟨v, idx⟩ hv
    apply Sat.bind (Q := fun vs => vs = []) (Sat.pure rfl); intro vs hvs
    apply Sat.pure
    exact ⟨v, by rw [hvs], hv⟩

/-- `[T]`, called without a receiver -/
theorem extract_pos_global (th : EvalM Value) (argEs : List Expr)
    (t : ExtTy) (hth : Sat th Q E) (h : ∀ a, Q a → fromValue t a = .ok a) :
    Sat (extract none [th] argEs [.pos t] 0) (fun ps => ∃ a, ps = [a] ∧ Q a) E := by
  simp only [extract, List.getElem?_cons_zero]
  apply Sat.bind (Q := fun p => Q p.1)
  · apply Sat.bind hth; intro a ha
    apply Sat.bind (lift_fromValue_sat (h a ha) (R := Q) ha); intro v hv
    exact Sat.pure hv
  · rintro ⟨v, idx⟩ hv
    apply Sat.bind (Q := fun vs => vs = []) (Sat.pure rfl); intro vs hvs
    apply Sat.pure
    exact ⟨v, by rw [hvs], hv⟩

/-- `[This<T>, U]`, called with a receiver and one argument -/
theorem extract_this_pos_recv (tv : Value) (th : EvalM Value) (argEs : List Expr)
    (t t2 : ExtTy) (h : fromValue t tv = .ok tv)
    (hth : Sat th Q E) (h2 : ∀ a, Q a → fromValue t2 a = .ok a) :
    Sat (extract (some tv) [th] argEs [.this t, .pos t2] 0)
      (fun ps => ∃ a, ps = [tv, a] ∧ Q a) E := by
  simp only [extract]
  apply Sat.bind (Q := fun p => p.1 = tv ∧ p.2 = 0)
  · apply Sat.bind (lift_fromValue_sat h (R := fun v => v = tv) rfl); intro v hv
    exact Sat.pure ⟨hv, rfl⟩
  · rintro ⟨v, idx⟩ ⟨hv, hidx⟩
    dsimp only at hv hidx
    subst hv hidx
    apply Sat.bind (Q := fun vs => ∃ a, vs = [a] ∧ Q a)
    · simp only [List.getElem?_cons_zero]
      apply Sat.bind (Q := fun p => Q p.1)
      · apply Sat.bind hth; intro a ha
        apply Sat.bind (lift_fromValue_sat (h2 a ha) (R := Q) ha); intro v hv
        exact Sat.pure hv
      · rintro ⟨v, idx⟩ hv
        apply Sat.bind (Q := fun vs => vs = []) (Sat.pure rfl); intro vs hvs
        apply Sat.pure
        exact ⟨v, by rw [hvs], hv⟩
    · rintro vs ⟨a, rfl, ha⟩
      exact Sat.pure ⟨a, rfl, ha⟩

/-- `[This<T>, U]`, called without a receiver and with two arguments -/
theorem extract_this_pos_global (th1 th2 : EvalM Value) (argEs : List Expr)
    (t t2 : ExtTy) (hth1 : Sat th1 Q E) (h1 : ∀ a, Q a → fromValue t a = .ok a)
    (hth2 : Sat th2 Q2 E) (h2 : ∀ a, Q2 a → fromValue t2 a = .ok a) :
    Sat (extract none [th1, th2] argEs [.this t, .pos t2] 0)
      (fun ps => ∃ a b, ps = [a, b] ∧ Q a ∧ Q2 b) E := by
  simp only [extract, List.getElem?_cons_zero]
  apply Sat.bind (Q := fun p => Q p.1 ∧ p.2 = 1)
  · apply Sat.bind hth1; intro a ha
    apply Sat.bind (lift_fromValue_sat (h1 a ha) (R := Q) ha); intro v hv
    exact Sat.pure ⟨hv, rfl⟩
  · rintro ⟨v, idx⟩ ⟨hv, hidx⟩
    dsimp only at hv hidx
    subst hidx
    apply Sat.bind (Q := fun vs => ∃ a, vs = [a] ∧ Q2 a)
    · simp only [List.getElem?_cons_succ, List.getElem?_cons_zero]
      apply Sat.bind (Q := fun p => Q2 p.1)
      · apply Sat.bind hth2; intro a ha
        apply Sat.bind (lift_fromValue_sat (h2 a ha) (R := Q2) ha); intro v hv
        exact Sat.pure hv
      · rintro ⟨v, idx⟩ hv
        apply Sat.bind (Q := fun vs => vs = []) (Sat.pure rfl); intro vs hvs
        apply Sat.pure
        exact ⟨v, by rw [hvs], hv⟩
    · rintro vs ⟨b, rfl, hb⟩
      exact Sat.pure ⟨v, b, rfl, hv, hb⟩

end extract

/-! ## the comprehension loop -/

/-- invariant rule: `I` holds of the scope whenever the loop condition is evaluated and of the
final scope -/
theorem loopG_inv {E : ErrC → Prop} (iv av : String) (evCond evStep : Scope → EvalM Value)
    (I : Scope → Prop) (P : Value → Prop)
    (hc : ∀ sc, I sc → Sat (evCond sc) Any E)
    (hs : ∀ sc item, I sc → P item →
      Sat (evStep (Ctx.scopeInsert sc iv item))
        (fun acc => I (Ctx.scopeInsert (Ctx.scopeInsert sc iv item) av acc)) E)
    (items : List Value) (hitems : ∀ x ∈ items, P x) (sc : Scope) (hsc : I sc) :
    Sat (loopG iv av evCond evStep items sc) I E := by
  induction items generalizing sc with
  | nil => unfold loopG; exact Sat.pure hsc
  | cons item rest ih =>
    unfold loopG
    apply Sat.bind (hc sc hsc); intro c _
    split
    · exact Sat.pure hsc
    · dsimp only
      apply Sat.bind (hs sc item hsc (hitems item (List.mem_cons_self ..))); intro acc hacc
      exact ih (fun x hx => hitems x (List.mem_cons_of_mem _ hx)) _ hacc

/-! ## contexts -/

theorem getVariable_push (ctx : Ctx) (sc : Scope) (n : String) :
    (ctx.push sc).getVariable n =
      match Ctx.lookupScope sc n with
      | some v => some v
      | none => ctx.getVariable n := by
  simp only [Ctx.push, Ctx.getVariable, Ctx.getVar]
  cases Ctx.lookupScope sc n <;> rfl

theorem getFunction_push (ctx : Ctx) (sc : Scope) (f : String) :
    (ctx.push sc).getFunction f = ctx.getFunction f := rfl

theorem hasFunction_push (ctx : Ctx) (sc : Scope) (f : String) :
    (ctx.push sc).hasFunction f = ctx.hasFunction f := rfl

end Cel.Typing
