import CelModel.Lemmas.CivilCheck
/-! era tables, chunk 10 of 16: kernel evaluation by `decide +kernel` -/
namespace Cel.Time.Table
set_option maxRecDepth 100000 in
theorem doeChunk10 : checkRange checkDoe 91320 9132 = true := by decide +kernel
set_option maxRecDepth 100000 in
theorem ymdChunk10 : checkRange checkYmd 93000 9300 = true := by decide +kernel
end Cel.Time.Table
