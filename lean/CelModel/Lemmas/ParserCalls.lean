import CelModel.Lemmas.ParserMin
/-!
# Parser lemmas for calls, list literals and map literals

Used by both round-trip theorems of `Props/C04.lean` / `Props/C04Min.lean`.

* `parseExpr_closer`: no expression starts with `,` `)` `]` `}`.
* one-step rules for `parseArgs`, `parseListElems`, `parseMapEntries` and for the call / list / map
  alternatives of `parsePrimary` and the method-call alternative of `parseSuffix`;
* `Items f ts es`: every token list of `ts` is read by `parseExpr` (fuel parameter `f`) to the
  corresponding expression of `es`; `sepList ts` writes them separated by commas;
  `SeqParser.all`: the three list-reading functions read `sepList ts` followed by their closing
  token.  `Entries`, `sepEntries`, `parseMapEntries_all`: the same for `key : value` pairs;
* `parsesAtom_*` (fully parenthesised rendering) and `cont7_*` (minimal rendering) for the four
  new kinds of node.
-/
namespace Cel.Lemmas.ParserCalls
open Cel Cel.Lexer Cel.Parser Cel.Lemmas.ParserSteps Cel.Lemmas.ParserMin

/-! ## tokens that cannot start an expression -/

/-- separators / closing tokens -/
def Closer (s : String) : Prop := s = "," ∨ s = ")" ∨ s = "]" ∨ s = "}"

theorem closer_comma : Closer "," := Or.inl rfl
theorem closer_rparen : Closer ")" := Or.inr (Or.inl rfl)
theorem closer_rbrack : Closer "]" := Or.inr (Or.inr (Or.inl rfl))
theorem closer_rbrace : Closer "}" := Or.inr (Or.inr (Or.inr rfl))

theorem lvl_comma : lvl "," = 7 := by decide
theorem lvl_rbrace : lvl "}" = 7 := by decide

theorem Closer.lvl {s : String} (h : Closer s) : lvl s = 7 := by
  rcases h with rfl | rfl | rfl | rfl <;> decide

theorem messageHead_sym (k : Nat) (s : String) (r : Toks) : messageHead k (.sym s :: r) = none := by
  cases k with
  | zero => rfl
  | succ k => rw [messageHead.eq_4] <;> (intros; simp_all)

theorem parsePrimary_closer {s : String} (hs : Closer s) (g : Nat) (r : Toks) :
    parsePrimary g (.sym s :: r) = none := by
  cases g with
  | zero => rfl
  | succ g =>
    rcases hs with rfl | rfl | rfl | rfl <;>
      (rw [parsePrimary.eq_22, messageHead_sym] <;> (intros; simp_all))

theorem parseMember_closer {s : String} (hs : Closer s) (g : Nat) (r : Toks) :
    parseMember g (.sym s :: r) = none := by
  cases g with
  | zero => rfl
  | succ g => rw [parseMember, parsePrimary_closer hs]

theorem parseUnary_closer {s : String} (hs : Closer s) (g : Nat) (r : Toks) :
    parseUnary g (.sym s :: r) = none := by
  cases g with
  | zero => rfl
  | succ g =>
    have h1 : runLen "!" (.sym s :: r) = 0 := by rcases hs with rfl | rfl | rfl | rfl <;> simp [runLen]
    have h2 : runLen "-" (.sym s :: r) = 0 := by rcases hs with rfl | rfl | rfl | rfl <;> simp [runLen]
    rw [parseUnary_plain h1 h2, parseMember_closer hs]

theorem parseMul_closer {s : String} (hs : Closer s) (g : Nat) (r : Toks) :
    parseMul g (.sym s :: r) = none := by
  cases g with
  | zero => rfl
  | succ g => rw [parseMul, parseUnary_closer hs]

theorem parseAdd_closer {s : String} (hs : Closer s) (g : Nat) (r : Toks) :
    parseAdd g (.sym s :: r) = none := by
  cases g with
  | zero => rfl
  | succ g => rw [parseAdd, parseMul_closer hs]

theorem parseRel_closer {s : String} (hs : Closer s) (g : Nat) (r : Toks) :
    parseRel g (.sym s :: r) = none := by
  cases g with
  | zero => rfl
  | succ g => rw [parseRel, parseAdd_closer hs]

theorem parseAnd_closer {s : String} (hs : Closer s) (g : Nat) (r : Toks) :
    parseAnd g (.sym s :: r) = none := by
  cases g with
  | zero => rfl
  | succ g => rw [parseAnd, parseRel_closer hs]

theorem parseOr_closer {s : String} (hs : Closer s) (g : Nat) (r : Toks) :
    parseOr g (.sym s :: r) = none := by
  cases g with
  | zero => rfl
  | succ g => rw [parseOr, parseAnd_closer hs]

/-- no expression starts with a separator or a closing token -/
theorem parseExpr_closer {s : String} (hs : Closer s) (g : Nat) (r : Toks) :
    parseExpr g (.sym s :: r) = none := by
  cases g with
  | zero => rfl
  | succ g => rw [parseExpr, parseOr_closer hs]

theorem parseExpr_some_ne {g : Nat} {ts : Toks} {p : Expr × Toks} (h : parseExpr g ts = some p)
    {s : String} (hs : Closer s) (r : Toks) : ts ≠ .sym s :: r := by
  rintro rfl
  rw [parseExpr_closer hs] at h
  cases h

theorem parseExpr_some_hd {g : Nat} {ts : Toks} {p : Expr × Toks} (h : parseExpr g ts = some p) :
    ¬ Closer (hd ts) := by
  intro hc
  match ts, h, hc with
  | .sym s :: r, h, hc => exact parseExpr_some_ne h hc r rfl
  | [], _, hc | .ident _ :: _, _, hc | .escIdent _ :: _, _, hc | .int _ :: _, _, hc | .uint _ :: _, _, hc
  | .float _ :: _, _, hc | .str _ :: _, _, hc | .bytes _ :: _, _, hc =>
    rcases hc with hc | hc | hc | hc <;> simp [hd] at hc

/-! ## one-step rules: the three list-reading functions -/

theorem parseArgs_nil (g : Nat) (r : Toks) : parseArgs (g + 1) (.sym ")" :: r) = some ([], r) := by
  rw [parseArgs.eq_2]

theorem parseArgs_last {g : Nat} {ts r : Toks} {a : Expr}
    (h : parseExpr g ts = some (a, .sym ")" :: r)) : parseArgs (g + 1) ts = some ([a], r) := by
  rw [parseArgs.eq_3 _ _ (fun r' hr => parseExpr_some_ne h closer_rparen r' hr), h]; rfl

theorem parseArgs_more {g : Nat} {ts r r' : Toks} {a : Expr} {as : List Expr}
    (h : parseExpr g ts = some (a, .sym "," :: r)) (hr : hd r ≠ ")")
    (h2 : parseArgs g r = some (as, r')) : parseArgs (g + 1) ts = some (a :: as, r') := by
  rw [parseArgs.eq_3 _ _ (fun r' hr => parseExpr_some_ne h closer_rparen r' hr), h]
  simp only
  split
  · exact absurd rfl hr
  · rw [h2]

theorem parseListElems_nil (g : Nat) (r : Toks) : parseListElems (g + 1) (.sym "]" :: r) = some ([], r) := by
  rw [parseListElems.eq_2]

theorem parseListElems_last {g : Nat} {ts r : Toks} {a : Expr}
    (h : parseExpr g ts = some (a, .sym "]" :: r)) : parseListElems (g + 1) ts = some ([a], r) := by
  rw [parseListElems.eq_3 _ _ (fun r' hr => parseExpr_some_ne h closer_rbrack r' hr), h]; rfl

theorem parseListElems_more {g : Nat} {ts r r' : Toks} {a : Expr} {as : List Expr}
    (h : parseExpr g ts = some (a, .sym "," :: r))
    (h2 : parseListElems g r = some (as, r')) : parseListElems (g + 1) ts = some (a :: as, r') := by
  rw [parseListElems.eq_3 _ _ (fun r' hr => parseExpr_some_ne h closer_rbrack r' hr), h]
  simp only [h2]

theorem parseMapEntries_nil (g : Nat) (r : Toks) :
    parseMapEntries (g + 1) (.sym "}" :: r) = some ([], r) := by
  rw [parseMapEntries.eq_2]

theorem parseMapEntries_last {g : Nat} {ts r r2 : Toks} {k v : Expr}
    (hk : parseExpr g ts = some (k, .sym ":" :: r)) (hv : parseExpr g r = some (v, .sym "}" :: r2)) :
    parseMapEntries (g + 1) ts = some ([(k, v)], r2) := by
  rw [parseMapEntries.eq_3 _ _ (fun r' hr => parseExpr_some_ne hk closer_rbrace r' hr), hk]
  simp only [hv]

theorem parseMapEntries_more {g : Nat} {ts r r2 r3 : Toks} {k v : Expr} {es : List (Expr × Expr)}
    (hk : parseExpr g ts = some (k, .sym ":" :: r)) (hv : parseExpr g r = some (v, .sym "," :: r2))
    (h2 : parseMapEntries g r2 = some (es, r3)) :
    parseMapEntries (g + 1) ts = some ((k, v) :: es, r3) := by
  rw [parseMapEntries.eq_3 _ _ (fun r' hr => parseExpr_some_ne hk closer_rbrace r' hr), hk]
  simp only [hv, h2]

/-! ## one-step rules: calls, list and map literals -/

theorem callOrMacro_global {f : String} {args : List Expr} (h : Macros.expand f none args = .notMacro) :
    callOrMacro f none args = some (.call f args) := by
  simp only [callOrMacro, h]

theorem callOrMacro_receiver {f : String} {t : Expr} {args : List Expr}
    (h : Macros.expand f (some t) args = .notMacro) :
    callOrMacro f (some t) args = some (.mcall f t args) := by
  simp only [callOrMacro, h]

/-- `f(args)` -/
theorem parsePrimary_call {g : Nat} {fn : Str} {r r' : Toks} {args : List Expr}
    (h : parseArgs g r = some (args, r'))
    (hm : Macros.expand (String.ofList fn) none args = .notMacro) :
    parsePrimary (g + 1) (.ident fn :: .sym "(" :: r) = some (.call (String.ofList fn) args, r') := by
  rw [parsePrimary.eq_20, messageHead_ident _ fn (.sym "(" :: r) (by simp) (by simp), h]
  simp only [Bool.false_eq_true, if_false, List.nil_append, callOrMacro_global hm, Option.map]

/-- `[elems]` -/
theorem parsePrimary_list {g : Nat} {r r' : Toks} {es : List Expr}
    (h : parseListElems g r = some (es, r')) (hr : hd r ≠ ",") :
    parsePrimary (g + 1) (.sym "[" :: r) = some (.list es, r') := by
  rw [parsePrimary.eq_14 _ _ (fun r'' hr' => by subst hr'; exact hr rfl), h]

/-- `{entries}` -/
theorem parsePrimary_map {g : Nat} {r r' : Toks} {es : List (Expr × Expr)}
    (h : parseMapEntries g r = some (es, r')) (hr : hd r ≠ ",") :
    parsePrimary (g + 1) (.sym "{" :: r) = some (.map es, r') := by
  rw [parsePrimary.eq_16 _ _ (fun r'' hr' => by subst hr'; exact hr rfl), h]

/-- `.f(args)` -/
theorem parseSuffix_mcall {g : Nat} {fn : Str} {r r' : Toks} {e : Expr} {args : List Expr}
    (h : parseArgs g r = some (args, r'))
    (hm : Macros.expand (String.ofList fn) (some e) args = .notMacro) :
    parseSuffix (g + 1) (.sym "." :: .ident fn :: .sym "(" :: r) e
      = parseSuffix g r' (.mcall (String.ofList fn) e args) := by
  rw [parseSuffix.eq_2, h]
  simp only [callOrMacro_receiver hm]

/-! ## comma-separated sequences -/

/-- element-wise: `parseExpr` reads the token list to the expression -/
inductive Items (f : Nat) : List Toks → List Expr → Prop
  | nil : Items f [] []
  | cons {t : Toks} {e : Expr} {ts : List Toks} {es : List Expr} :
      ParsesAt 0 f t e → Items f ts es → Items f (t :: ts) (e :: es)

theorem Items.mono {f f' : Nat} {ts : List Toks} {es : List Expr} (h : Items f ts es) (hf : f ≤ f') :
    Items f' ts es := by
  induction h with
  | nil => exact .nil
  | cons ht _ ih => exact .cons (ht.mono hf) ih

/-- `, t₁ , t₂ …` -/
def sepTail : List Toks → Toks
  | [] => []
  | t :: ts => .sym "," :: (t ++ sepTail ts)

/-- `t₀ , t₁ , t₂ …` (no trailing comma) -/
def sepList : List Toks → Toks
  | [] => []
  | t :: ts => t ++ sepTail ts

theorem length_sepTail_le (ts : List Toks) : (sepTail ts).length ≤ (sepList ts).length + 1 := by
  cases ts with
  | nil => simp [sepTail]
  | cons t ts => simp [sepTail, sepList]

theorem lvl_hd_sepTail (ts : List Toks) {c : String} (hc : Closer c) (rest : Toks) :
    6 < lvl (hd (sepTail ts ++ .sym c :: rest)) := by
  cases ts with
  | nil => simp [sepTail, hc.lvl]
  | cons t ts => simp [sepTail, lvl_comma]

/-- what the proofs use about `parseArgs` / `parseListElems` -/
structure SeqParser (P : Nat → Toks → Option (List Expr × Toks)) (c : String) : Prop where
  closer : Closer c
  nil : ∀ (g : Nat) (r : Toks), P (g + 1) (.sym c :: r) = some ([], r)
  last : ∀ {g : Nat} {ts r : Toks} {a : Expr}, parseExpr g ts = some (a, .sym c :: r) → P (g + 1) ts = some ([a], r)
  more : ∀ {g : Nat} {ts r r' : Toks} {a : Expr} {as : List Expr},
    parseExpr g ts = some (a, .sym "," :: r) → hd r ≠ c → P g r = some (as, r') → P (g + 1) ts = some (a :: as, r')

theorem seqParser_args : SeqParser parseArgs ")" :=
  ⟨closer_rparen, parseArgs_nil, parseArgs_last, parseArgs_more⟩

theorem seqParser_list : SeqParser parseListElems "]" :=
  ⟨closer_rbrack, parseListElems_nil, parseListElems_last, fun h _ h2 => parseListElems_more h h2⟩

section
variable {P : Nat → Toks → Option (List Expr × Toks)} {c : String} {f : Nat}

theorem SeqParser.tail (hP : SeqParser P c) {ts : List Toks} {es : List Expr} (h : Items f ts es) :
    ∀ {t : Toks} {e : Expr}, ParsesAt 0 f t e → ∀ (g : Nat) (rest : Toks), f + ts.length + 1 ≤ g →
      P (g + 1) (t ++ (sepTail ts ++ .sym c :: rest)) = some (e :: es, rest) := by
  induction h with
  | nil =>
    intro t e ht g rest hg
    obtain ⟨g, rfl⟩ : ∃ g', g = g' + 1 := ⟨g - 1, by simp at hg; omega⟩
    have hE : parseExpr (g + 1) (t ++ .sym c :: rest) = some (e, .sym c :: rest) :=
      ht g _ (by simp at hg; omega) (by simp [hP.closer.lvl])
    exact hP.last hE
  | @cons t2 e2 ts es h2 _ ih =>
    intro t e ht g rest hg
    simp only [List.length_cons] at hg
    obtain ⟨g, rfl⟩ : ∃ g', g = g' + 1 := ⟨g - 1, by omega⟩
    have hE : parseExpr (g + 1) (t ++ .sym "," :: (t2 ++ (sepTail ts ++ .sym c :: rest)))
        = some (e, .sym "," :: (t2 ++ (sepTail ts ++ .sym c :: rest))) :=
      ht g _ (by omega) (by simp [lvl_comma])
    have hE2 : parseExpr (f + 1) (t2 ++ (sepTail ts ++ .sym c :: rest)) = some (e2, _) :=
      h2 f _ (Nat.le_refl _) (lvl_hd_sepTail ts hP.closer rest)
    have hne : hd (t2 ++ (sepTail ts ++ .sym c :: rest)) ≠ c :=
      fun heq => parseExpr_some_hd hE2 (by rw [heq]; exact hP.closer)
    have hR := ih h2 g rest (by omega)
    simp only [sepTail, List.cons_append, List.append_assoc]
    exact hP.more hE hne hR

/-- the elements, separated by commas, then the closing token -/
theorem SeqParser.all (hP : SeqParser P c) {ts : List Toks} {es : List Expr} (h : Items f ts es)
    (g : Nat) (rest : Toks) (hg : f + ts.length + 1 ≤ g) :
    P (g + 1) (sepList ts ++ .sym c :: rest) = some (es, rest) := by
  cases h with
  | nil => exact hP.nil g rest
  | cons ht hts =>
    simp only [sepList, List.append_assoc]
    exact hP.tail hts ht g rest (by simp only [List.length_cons] at hg; omega)

/-- the first token after an opening bracket is not a comma -/
theorem hd_sepList_ne_comma {ts : List Toks} {es : List Expr} (h : Items f ts es) {c : String}
    (hc : Closer c) (hcc : c ≠ ",") (rest : Toks) : hd (sepList ts ++ .sym c :: rest) ≠ "," := by
  cases h with
  | nil => simpa [sepList] using hcc
  | @cons t e ts es ht hts =>
    have hE : parseExpr (f + 1) (t ++ (sepTail ts ++ .sym c :: rest)) = some (e, _) :=
      ht f _ (Nat.le_refl _) (lvl_hd_sepTail ts hc rest)
    simp only [sepList, List.append_assoc]
    exact fun heq => parseExpr_some_hd hE (by rw [heq]; exact closer_comma)
end

/-! ## `key : value` sequences -/

inductive Entries (f : Nat) : List (Toks × Toks) → List (Expr × Expr) → Prop
  | nil : Entries f [] []
  | cons {k v : Toks} {ek ev : Expr} {ts : List (Toks × Toks)} {es : List (Expr × Expr)} :
      ParsesAt 0 f k ek → ParsesAt 0 f v ev → Entries f ts es → Entries f ((k, v) :: ts) ((ek, ev) :: es)

theorem Entries.mono {f f' : Nat} {ts : List (Toks × Toks)} {es : List (Expr × Expr)}
    (h : Entries f ts es) (hf : f ≤ f') : Entries f' ts es := by
  induction h with
  | nil => exact .nil
  | cons hk hv _ ih => exact .cons (hk.mono hf) (hv.mono hf) ih

/-- `, k₁ : v₁ , k₂ : v₂ …` -/
def sepEntTail : List (Toks × Toks) → Toks
  | [] => []
  | (k, v) :: ts => .sym "," :: (k ++ .sym ":" :: (v ++ sepEntTail ts))

/-- `k₀ : v₀ , k₁ : v₁ …` (no trailing comma) -/
def sepEntries : List (Toks × Toks) → Toks
  | [] => []
  | (k, v) :: ts => k ++ .sym ":" :: (v ++ sepEntTail ts)

theorem length_sepEntTail_le (ts : List (Toks × Toks)) : (sepEntTail ts).length ≤ (sepEntries ts).length + 1 := by
  match ts with
  | [] => simp [sepEntTail]
  | (k, v) :: ts => simp [sepEntTail, sepEntries]

theorem lvl_hd_sepEntTail (ts : List (Toks × Toks)) (rest : Toks) :
    6 < lvl (hd (sepEntTail ts ++ .sym "}" :: rest)) := by
  match ts with
  | [] => simp [sepEntTail, lvl_rbrace]
  | (k, v) :: ts => simp [sepEntTail, lvl_comma]

section
variable {f : Nat}

theorem parseMapEntries_tail {ts : List (Toks × Toks)} {es : List (Expr × Expr)} (h : Entries f ts es) :
    ∀ {k v : Toks} {ek ev : Expr}, ParsesAt 0 f k ek → ParsesAt 0 f v ev →
      ∀ (g : Nat) (rest : Toks), f + ts.length + 1 ≤ g →
      parseMapEntries (g + 1) (k ++ .sym ":" :: (v ++ (sepEntTail ts ++ .sym "}" :: rest)))
        = some ((ek, ev) :: es, rest) := by
  induction h with
  | nil =>
    intro k v ek ev hk hv g rest hg
    obtain ⟨g, rfl⟩ : ∃ g', g = g' + 1 := ⟨g - 1, by simp at hg; omega⟩
    have hK : parseExpr (g + 1) (k ++ .sym ":" :: (v ++ .sym "}" :: rest)) = some (ek, _) :=
      hk g _ (by simp at hg; omega) (by simp [lvl_colon])
    have hV : parseExpr (g + 1) (v ++ .sym "}" :: rest) = some (ev, .sym "}" :: rest) :=
      hv g _ (by simp at hg; omega) (by simp [lvl_rbrace])
    exact parseMapEntries_last hK hV
  | @cons k2 v2 ek2 ev2 ts es hk2 hv2 _ ih =>
    intro k v ek ev hk hv g rest hg
    simp only [List.length_cons] at hg
    obtain ⟨g, rfl⟩ : ∃ g', g = g' + 1 := ⟨g - 1, by omega⟩
    have hK : parseExpr (g + 1)
        (k ++ .sym ":" :: (v ++ .sym "," :: (k2 ++ .sym ":" :: (v2 ++ (sepEntTail ts ++ .sym "}" :: rest)))))
        = some (ek, _) :=
      hk g _ (by omega) (by simp [lvl_colon])
    have hV : parseExpr (g + 1) (v ++ .sym "," :: (k2 ++ .sym ":" :: (v2 ++ (sepEntTail ts ++ .sym "}" :: rest))))
        = some (ev, _) :=
      hv g _ (by omega) (by simp [lvl_comma])
    have hR := ih hk2 hv2 g rest (by omega)
    simp only [sepEntTail, List.cons_append, List.append_assoc]
    exact parseMapEntries_more hK hV hR

theorem parseMapEntries_all {ts : List (Toks × Toks)} {es : List (Expr × Expr)} (h : Entries f ts es)
    (g : Nat) (rest : Toks) (hg : f + ts.length + 1 ≤ g) :
    parseMapEntries (g + 1) (sepEntries ts ++ .sym "}" :: rest) = some (es, rest) := by
  cases h with
  | nil => exact parseMapEntries_nil g rest
  | cons hk hv hts =>
    simp only [sepEntries, List.append_assoc, List.cons_append]
    exact parseMapEntries_tail hts hk hv g rest (by simp only [List.length_cons] at hg; omega)

theorem hd_sepEntries_ne_comma {ts : List (Toks × Toks)} {es : List (Expr × Expr)} (h : Entries f ts es)
    (rest : Toks) : hd (sepEntries ts ++ .sym "}" :: rest) ≠ "," := by
  cases h with
  | nil => simp [sepEntries]
  | @cons k v ek ev ts es hk hv hts =>
    have hE : parseExpr (f + 1) (k ++ .sym ":" :: (v ++ (sepEntTail ts ++ .sym "}" :: rest))) = some (ek, _) :=
      hk f _ (Nat.le_refl _) (by simp [lvl_colon])
    simp only [sepEntries, List.append_assoc, List.cons_append]
    exact fun heq => parseExpr_some_hd hE (by rw [heq]; exact closer_comma)
end

/-! ## fully parenthesised rendering: the new nodes are atoms -/

/-- an atom is an expression -/
theorem parsesAt0_of_atom {f : Nat} {ta : Toks} {ea : Expr} (h : ParsesAtom f ta ea) :
    ParsesAt 0 (f + 8) ta ea := by
  intro g rest hg hl
  obtain ⟨g, rfl⟩ : ∃ g', g = g' + 8 := ⟨g - 8, by omega⟩
  exact h.expr (g := g) (by omega) rest (by omega)

section
variable {f : Nat} {ts : List Toks} {es : List Expr}

theorem parsesAtom_call (h : Items f ts es) (fn : Str)
    (hm : Macros.expand (String.ofList fn) none es = .notMacro) :
    ParsesAtom (f + ts.length + 2) ([.ident fn, .sym "("] ++ sepList ts ++ [.sym ")"])
      (.call (String.ofList fn) es) := by
  intro g rest hg hl
  obtain ⟨g, rfl⟩ : ∃ g', g = g' + 1 := ⟨g - 1, by omega⟩
  simp only [List.append_assoc, List.cons_append, List.nil_append]
  refine ⟨?_, by simp [runLen], by simp [runLen]⟩
  exact parsePrimary_call (seqParser_args.all h g rest (by omega)) hm

theorem parsesAtom_list (h : Items f ts es) :
    ParsesAtom (f + ts.length + 2) ([.sym "["] ++ sepList ts ++ [.sym "]"]) (.list es) := by
  intro g rest hg hl
  obtain ⟨g, rfl⟩ : ∃ g', g = g' + 1 := ⟨g - 1, by omega⟩
  simp only [List.append_assoc, List.cons_append, List.nil_append]
  refine ⟨?_, by simp [runLen], by simp [runLen]⟩
  exact parsePrimary_list (seqParser_list.all h g rest (by omega))
    (hd_sepList_ne_comma h closer_rbrack (by decide) rest)

theorem parsesAtom_map {ps : List (Toks × Toks)} {ees : List (Expr × Expr)} (h : Entries f ps ees) :
    ParsesAtom (f + ps.length + 2) ([.sym "{"] ++ sepEntries ps ++ [.sym "}"]) (.map ees) := by
  intro g rest hg hl
  obtain ⟨g, rfl⟩ : ∃ g', g = g' + 1 := ⟨g - 1, by omega⟩
  simp only [List.append_assoc, List.cons_append, List.nil_append]
  refine ⟨?_, by simp [runLen], by simp [runLen]⟩
  exact parsePrimary_map (parseMapEntries_all h g rest (by omega)) (hd_sepEntries_ne_comma h rest)

theorem parsesAtom_mcall {fa F : Nat} {ta : Toks} {ea : Expr} (ha : ParsesAtom fa ta ea) (h : Items f ts es)
    (hfa : fa ≤ F) (hf : f + ts.length ≤ F + 9) (fn : Str)
    (hm : Macros.expand (String.ofList fn) (some ea) es = .notMacro) :
    ParsesAtom (F + 20)
      ([.sym "(", .sym "("] ++ ta ++ [.sym ")", .sym ".", .ident fn, .sym "("] ++ sepList ts ++ [.sym ")", .sym ")"])
      (.mcall (String.ofList fn) ea es) := by
  intro g rest hg hl
  obtain ⟨g, rfl⟩ : ∃ g', g = g' + 20 := ⟨g - 20, by omega⟩
  simp only [List.append_assoc, List.cons_append, List.nil_append]
  refine ⟨?_, by simp [runLen], by simp [runLen]⟩
  apply parsePrimary_paren
  have hA := ha.expr (g := g + 2) (by omega)
    (.sym ")" :: .sym "." :: .ident fn :: .sym "(" :: (sepList ts ++ .sym ")" :: .sym ")" :: rest))
    (by simp [lvl_rparen])
  simp only [Nat.add_assoc, Nat.reduceAdd] at hA
  have hP := parsePrimary_paren hA
  have hArgs : parseArgs (g + 10 + 1) (sepList ts ++ .sym ")" :: .sym ")" :: rest) = some (es, .sym ")" :: rest) :=
    seqParser_args.all h (g + 10) _ (by omega)
  have hM : parseMember (g + 11 + 1 + 1)
      (.sym "(" :: (ta ++ .sym ")" :: .sym "." :: .ident fn :: .sym "(" :: (sepList ts ++ .sym ")" :: .sym ")" :: rest)))
      = some (.mcall (String.ofList fn) ea es, .sym ")" :: rest) := by
    rw [parseMember_of hP, parseSuffix_mcall hArgs hm, parseSuffix_stop] <;> simp
  have hU := up_unary hM (by simp [runLen]) (by simp [runLen])
  have hE := unary_to_expr hU (by simp [lvl_rparen])
  simp only [Nat.add_assoc, Nat.reduceAdd] at hE
  exact hE
end

/-! ## minimal rendering: the new nodes at the member level -/

section
variable {f : Nat} {ts : List Toks} {es : List Expr}

theorem cont7_call (h : Items f ts es) (fn : Str)
    (hm : Macros.expand (String.ofList fn) none es = .notMacro) :
    Cont7 (f + ts.length + 3) ([.ident fn, .sym "("] ++ sepList ts ++ [.sym ")"])
      (.call (String.ofList fn) es) := by
  intro g rest _
  have hArgs : parseArgs (g + f + ts.length + 1 + 1) (sepList ts ++ .sym ")" :: rest) = some (es, rest) :=
    seqParser_args.all h _ rest (by omega)
  have hP := parsePrimary_call (fn := fn) hArgs hm
  refine ⟨f + ts.length + 2, by omega, ?_⟩
  simp only [List.append_assoc, List.cons_append, List.nil_append]
  rw [show g + (f + ts.length + 3) + 1 = g + f + ts.length + 1 + 1 + 1 + 1 by omega, parseMember_of hP,
    show g + (f + ts.length + 2) + 1 = g + f + ts.length + 1 + 1 + 1 by omega]

theorem cont7_list (h : Items f ts es) :
    Cont7 (f + ts.length + 3) ([.sym "["] ++ sepList ts ++ [.sym "]"]) (.list es) := by
  intro g rest _
  have hL : parseListElems (g + f + ts.length + 1 + 1) (sepList ts ++ .sym "]" :: rest) = some (es, rest) :=
    seqParser_list.all h _ rest (by omega)
  have hP := parsePrimary_list hL (hd_sepList_ne_comma h closer_rbrack (by decide) rest)
  refine ⟨f + ts.length + 2, by omega, ?_⟩
  simp only [List.append_assoc, List.cons_append, List.nil_append]
  rw [show g + (f + ts.length + 3) + 1 = g + f + ts.length + 1 + 1 + 1 + 1 by omega, parseMember_of hP,
    show g + (f + ts.length + 2) + 1 = g + f + ts.length + 1 + 1 + 1 by omega]

theorem cont7_map {ps : List (Toks × Toks)} {ees : List (Expr × Expr)} (h : Entries f ps ees) :
    Cont7 (f + ps.length + 3) ([.sym "{"] ++ sepEntries ps ++ [.sym "}"]) (.map ees) := by
  intro g rest _
  have hL : parseMapEntries (g + f + ps.length + 1 + 1) (sepEntries ps ++ .sym "}" :: rest) = some (ees, rest) :=
    parseMapEntries_all h _ rest (by omega)
  have hP := parsePrimary_map hL (hd_sepEntries_ne_comma h rest)
  refine ⟨f + ps.length + 2, by omega, ?_⟩
  simp only [List.append_assoc, List.cons_append, List.nil_append]
  rw [show g + (f + ps.length + 3) + 1 = g + f + ps.length + 1 + 1 + 1 + 1 by omega, parseMember_of hP,
    show g + (f + ps.length + 2) + 1 = g + f + ps.length + 1 + 1 + 1 by omega]

/-- a method-call suffix `.fn(args)` after a member expression -/
theorem cont7_mcall {fa : Nat} {A : Toks} {ea : Expr} (ha : Cont7 fa A ea) (h : Items f ts es) (fn : Str)
    (hm : Macros.expand (String.ofList fn) (some ea) es = .notMacro) :
    Cont7 (fa + f + ts.length + 3) (A ++ [.sym ".", .ident fn, .sym "("] ++ sepList ts ++ [.sym ")"])
      (.mcall (String.ofList fn) ea es) := by
  intro g rest _
  obtain ⟨k, hk, hA⟩ := ha (g + f + ts.length + 3)
    (.sym "." :: .ident fn :: .sym "(" :: (sepList ts ++ .sym ")" :: rest)) (.call fn _)
  have hArgs : parseArgs (g + f + ts.length + 1 + k + 1 + 1) (sepList ts ++ .sym ")" :: rest) = some (es, rest) :=
    seqParser_args.all h _ rest (by omega)
  refine ⟨f + ts.length + 2 + k, by omega, ?_⟩
  simp only [List.append_assoc, List.cons_append, List.nil_append]
  rw [show g + (fa + f + ts.length + 3) + 1 = g + f + ts.length + 3 + fa + 1 by omega, hA,
    show g + f + ts.length + 3 + k + 1 = g + f + ts.length + 1 + k + 1 + 1 + 1 by omega,
    parseSuffix_mcall hArgs hm,
    show g + (f + ts.length + 2 + k) + 1 = g + f + ts.length + 1 + k + 1 + 1 by omega]
end

end Cel.Lemmas.ParserCalls
