import CelModel.Lemmas.Monad
/-!
# The step counter is write-only

`SI m`: shifting the step counter of the start state by `k` shifts the step counter of the end
state by `k` and changes nothing else.  Closure rules for every combinator of the evaluation
monad, then `runAll`, `extract`, `applyFn`, `callNode`, `loopG` and finally `eval`.
-/
namespace Cel

/-- the state with `k` more steps on the counter -/
def shiftSt (k : Nat) (s : St β) : St β := { s with steps := s.steps + k }

/-- steps-independence of a computation -/
def SI (m : M β α) : Prop := ∀ s k, m (shiftSt k s) = ((m s).1, shiftSt k (m s).2)

namespace SI

theorem pure {a : α} : SI (Pure.pure a : M β α) := fun _ _ => rfl
theorem throw {e : ErrC} : SI (M.throw e : M β α) := fun _ _ => rfl
theorem panic {p : String} : SI (M.panic p : M β α) := fun _ _ => rfl
theorem lift {o : Outcome α} : SI (M.lift o : M β α) := fun _ _ => rfl
theorem logCall {c : Call β} : SI (M.logCall c : M β Unit) := fun _ _ => rfl

theorem tick : SI (M.tick : M β Unit) := by
  intro s k
  show ((Outcome.ok (), ({ log := s.log, steps := s.steps + k + 1 } : St β))) =
    (Outcome.ok (), ({ log := s.log, steps := s.steps + 1 + k } : St β))
  rw [Nat.add_right_comm]

theorem bind {m : M β α} {f : α → M β γ} (hm : SI m) (hf : ∀ a, SI (f a)) : SI (m >>= f) := by
  intro s k
  rw [M.bind_apply, M.bind_apply, hm s k]
  rcases h : m s with ⟨o, s'⟩
  cases o with
  | ok a => exact hf a s' k
  | err e => rfl
  | panic p => rfl

theorem tick_bind {f : Unit → M β γ} (h : SI (f ())) : SI (M.tick >>= f) :=
  bind tick (fun _ => h)

theorem ite {c : Prop} [Decidable c] {a b : M β α} (ha : SI a) (hb : SI b) :
    SI (if c then a else b) := by
  split
  · exact ha
  · exact hb

end SI

/-! ## Argument extraction and function application -/

theorem runAll_SI (thunks : List (EvalM Value)) (hth : ∀ t ∈ thunks, SI t) : SI (runAll thunks) := by
  induction thunks with
  | nil => exact SI.pure
  | cons t ts ih =>
    unfold runAll
    apply SI.bind (hth t (List.mem_cons_self ..)); intro v
    apply SI.bind (ih (fun t' h => hth t' (List.mem_cons_of_mem _ h))); intro vs
    exact SI.pure

theorem extract_SI (this : Option Value) (thunks : List (EvalM Value)) (argEs : List Expr)
    (hth : ∀ t ∈ thunks, SI t) (sig : List Extractor) (idx : Nat) :
    SI (extract this thunks argEs sig idx) := by
  induction sig generalizing idx with
  | nil => unfold extract; exact SI.pure
  | cons ex rest ih =>
    unfold extract
    apply SI.bind
    · cases ex with
      | this t =>
        dsimp only
        split
        · apply SI.bind SI.lift; intro v
          exact SI.pure
        · split
          · exact SI.throw
          · rename_i th hth'
            apply SI.bind (hth th (List.mem_of_getElem? hth')); intro a
            apply SI.bind SI.lift; intro v
            exact SI.pure
      | thisOpt t =>
        dsimp only
        split
        · apply SI.bind SI.lift; intro v
          exact SI.pure
        · split
          · exact SI.throw
          · rename_i th hth'
            apply SI.bind (hth th (List.mem_of_getElem? hth')); intro a
            apply SI.bind SI.lift; intro v
            exact SI.pure
      | pos t =>
        dsimp only
        split
        · exact SI.throw
        · rename_i th hth'
          apply SI.bind (hth th (List.mem_of_getElem? hth')); intro a
          apply SI.bind SI.lift; intro v
          exact SI.pure
      | posOpt t =>
        dsimp only
        split
        · exact SI.throw
        · rename_i th hth'
          apply SI.bind (hth th (List.mem_of_getElem? hth')); intro a
          apply SI.bind SI.lift; intro v
          exact SI.pure
      | allArgs =>
        dsimp only
        apply SI.bind (runAll_SI thunks hth); intro vs
        exact SI.pure
      | ident =>
        dsimp only
        split
        · exact SI.throw
        · exact SI.pure
        · exact SI.throw
      | expr =>
        dsimp only
        split
        · exact SI.throw
        · exact SI.pure
    · rintro ⟨v, idx'⟩
      dsimp only
      apply SI.bind (ih idx'); intro vs
      exact SI.pure

theorem applyFn_SI (ctx : Ctx) (name : String) (k : FnKind) (this : Option Value)
    (thunks : List (EvalM Value)) (argEs : List Expr) (hth : ∀ t ∈ thunks, SI t) :
    SI (applyFn ctx name k this thunks argEs) := by
  cases k with
  | builtin b =>
    unfold applyFn
    dsimp only
    apply SI.bind (extract_SI this thunks argEs hth b.sig 0); intro ps
    exact SI.lift
  | host sig body =>
    unfold applyFn
    dsimp only
    apply SI.bind (extract_SI this thunks argEs hth sig 0); intro ps
    apply SI.bind SI.logCall; intro _
    cases body with
    | echo => exact SI.pure
    | fail => exact SI.throw
    | const v => exact SI.pure
    | first => exact SI.pure

/-! ## Call nodes -/

theorem fnCall_SI (ctx : Ctx) (f : String) (target : Option (EvalM Value)) (argEs : List Expr)
    (thunks : List (EvalM Value)) (hth : ∀ t ∈ thunks, SI t) :
    (∀ t, target = some t → SI t) →
    SI (match ctx.getFunction f with
      | none => M.throw (.undeclared f)
      | some k =>
        match target with
        | none => applyFn ctx f k none thunks argEs
        | some t => do
          let tv ← t
          applyFn ctx f k (some tv) thunks argEs : EvalM Value) := by
  intro htg
  split
  · exact SI.throw
  · split
    · exact applyFn_SI _ _ _ _ _ _ hth
    · rename_i t
      apply SI.bind (htg t rfl); intro tv
      exact applyFn_SI _ _ _ _ _ _ hth

theorem callNode_SI (ctx : Ctx) (f : String) (target : Option (EvalM Value)) (argEs : List Expr)
    (thunks : List (EvalM Value)) (hth : ∀ t ∈ thunks, SI t)
    (htg : ∀ t, target = some t → SI t) :
    SI (callNode ctx f target argEs thunks) := by
  have hfn := fnCall_SI ctx f target argEs thunks hth htg
  unfold callNode
  dsimp only
  split
  · rename_i c a b
    have hc := hth c (by simp)
    have ha := hth a (by simp)
    have hb := hth b (by simp)
    split
    · apply SI.bind hc; intro cv
      split
      · exact ha
      · exact hb
    · exact hfn
  · rename_i a b
    have ha := hth a (by simp)
    have hb := hth b (by simp)
    split
    · apply SI.bind ha; intro l
      split
      · exact SI.pure
      · exact hb
    · apply SI.bind ha; intro l
      split
      · exact SI.pure
      · apply SI.bind hb; intro r
        exact SI.pure
    · apply SI.bind ha; intro l
      apply SI.bind hb; intro r
      exact SI.lift
    · exact hfn
  · rename_i a
    have ha := hth a (by simp)
    split
    · apply SI.bind ha; intro v
      exact SI.lift
    · exact hfn
  · exact hfn

/-! ## The comprehension loop -/

theorem loopG_SI (iv av : String) (evCond evStep : Scope → EvalM Value)
    (hc : ∀ sc, SI (evCond sc)) (hs : ∀ sc, SI (evStep sc))
    (items : List Value) (sc : Scope) : SI (loopG iv av evCond evStep items sc) := by
  induction items generalizing sc with
  | nil => unfold loopG; exact SI.pure
  | cons item rest ih =>
    unfold loopG
    apply SI.bind (hc sc); intro c
    split
    · exact SI.pure
    · dsimp only
      apply SI.bind (hs _); intro acc
      exact ih _

/-! ## The evaluator -/

theorem eval_SI : ∀ e ctx, SI (eval ctx e) := by
  apply Expr.rec
    (motive_1 := fun e => ∀ ctx, SI (eval ctx e))
    (motive_2 := fun es => ∀ ctx, SI (evalList ctx es) ∧ ∀ t ∈ evalThunks ctx es, SI t)
    (motive_3 := fun es => ∀ ctx acc, SI (evalEntries ctx es acc))
    (motive_4 := fun p => ∀ ctx, SI (eval ctx p.1) ∧ SI (eval ctx p.2))
  · -- lit
    intro v ctx
    rw [eval]
    exact SI.tick_bind SI.pure
  · -- ident
    intro n ctx
    rw [eval]
    apply SI.tick_bind
    split
    · exact SI.pure
    · exact SI.throw
  · -- call
    intro f args ih ctx
    rw [eval]
    apply SI.tick_bind
    exact callNode_SI ctx f none args _ (ih ctx).2 (fun _ h => nomatch h)
  · -- mcall
    intro f t args iht ih ctx
    rw [eval]
    apply SI.tick_bind
    refine callNode_SI ctx f _ args _ (ih ctx).2 ?_
    intro t' ht'
    cases ht'
    exact iht ctx
  · -- select
    intro e field test ih ctx
    rw [eval]
    apply SI.tick_bind
    apply SI.bind (ih ctx); intro v
    split
    · exact SI.pure
    · exact SI.lift
  · -- list
    intro es ih ctx
    rw [eval]
    apply SI.tick_bind
    apply SI.bind (ih ctx).1; intro vs
    exact SI.pure
  · -- map
    intro es ih ctx
    rw [eval]
    apply SI.tick_bind
    apply SI.bind (ih ctx []); intro m
    exact SI.pure
  · -- struct
    intro name fields vals _ ctx
    rw [eval]
    apply SI.tick_bind
    exact SI.throw
  · -- comp
    intro iv range av init cond step result ihr ihi ihc ihs ihres ctx
    rw [eval]
    apply SI.tick_bind
    apply SI.bind (ihi ctx); intro vinit
    apply SI.bind (ihr ctx); intro r
    apply SI.bind
    · split
      · exact SI.pure
      · exact SI.pure
      · exact SI.throw
    · intro items
      apply SI.bind (loopG_SI iv av _ _ (fun sc => ihc _) (fun sc => ihs _) items _)
      intro sc
      exact ihres _
  · -- unspecified
    intro ctx
    rw [eval]
    exact SI.panic
  · -- []
    intro ctx
    refine ⟨?_, ?_⟩
    · rw [evalList]; exact SI.pure
    · rw [evalThunks]; intro t ht; cases ht
  · -- e :: es
    intro e es ihe ihes ctx
    refine ⟨?_, ?_⟩
    · rw [evalList]
      apply SI.bind (ihe ctx); intro v
      apply SI.bind (ihes ctx).1; intro vs
      exact SI.pure
    · rw [evalThunks]
      intro t ht
      rcases List.mem_cons.mp ht with rfl | ht
      · exact ihe ctx
      · exact (ihes ctx).2 t ht
  · -- entries []
    intro ctx acc
    rw [evalEntries]
    exact SI.pure
  · -- entry :: entries
    rintro ⟨k, v⟩ rest ihkv ihrest ctx acc
    obtain ⟨sk, sv⟩ := ihkv ctx
    rw [evalEntries]
    apply SI.bind sk; intro kv
    split
    · exact SI.throw
    · apply SI.bind sv; intro vv
      exact ihrest ctx _
  · -- pair
    intro k v ihk ihv ctx
    exact ⟨ihk ctx, ihv ctx⟩

end Cel
