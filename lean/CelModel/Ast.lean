import CelModel.Value
/-!
# Expression trees (`antlr/src/ast/mod.rs`), node ids dropped
-/
namespace Cel

inductive Expr where
  | lit (v : Value)
  | ident (n : String)
  /-- `CallExpr` with `target = None` -/
  | call (f : String) (args : List Expr)
  /-- `CallExpr` with `target = Some(_)` -/
  | mcall (f : String) (target : Expr) (args : List Expr)
  | select (operand : Expr) (field : Str) (test : Bool)
  | list (elems : List Expr)
  | map (entries : List (Expr × Expr))
  /-- message literal: type name, field names, field values (same length) -/
  | struct (name : String) (fields : List Str) (vals : List Expr)
  | comp (iterVar : String) (range : Expr) (accuVar : String) (init cond step result : Expr)
  | unspecified
deriving Repr, Inhabited

/-- operator classification exactly as `Value::resolve` dispatches: by name and arity -/
inductive BinOp where
  | add | sub | div | mul | rem | eq | ne | lt | le | gt | ge | in_ | or | and | index
deriving Repr, DecidableEq, Inhabited

inductive UnOp where
  | not | neg | notStrictlyFalse
deriving Repr, DecidableEq, Inhabited

def binOpOfName (f : String) : Option BinOp :=
  if f == "_+_" then some .add else if f == "_-_" then some .sub
  else if f == "_/_" then some .div else if f == "_*_" then some .mul
  else if f == "_%_" then some .rem else if f == "_==_" then some .eq
  else if f == "_!=_" then some .ne else if f == "_<_" then some .lt
  else if f == "_<=_" then some .le else if f == "_>_" then some .gt
  else if f == "_>=_" then some .ge else if f == "@in" then some .in_
  else if f == "_||_" then some .or else if f == "_&&_" then some .and
  else if f == "_[_]" then some .index else none

def unOpOfName (f : String) : Option UnOp :=
  if f == "!_" then some .not else if f == "-_" then some .neg
  else if f == "@not_strictly_false" then some .notStrictlyFalse else none

def BinOp.name : BinOp → String
  | .add => "_+_" | .sub => "_-_" | .div => "_/_" | .mul => "_*_" | .rem => "_%_"
  | .eq => "_==_" | .ne => "_!=_" | .lt => "_<_" | .le => "_<=_" | .gt => "_>_" | .ge => "_>=_"
  | .in_ => "@in" | .or => "_||_" | .and => "_&&_" | .index => "_[_]"

def UnOp.name : UnOp → String
  | .not => "!_" | .neg => "-_" | .notStrictlyFalse => "@not_strictly_false"

def condName : String := "_?_:_"

mutual
def Expr.size : Expr → Nat
  | .lit _ => 1
  | .ident _ => 1
  | .call _ args => 1 + sizeList args
  | .mcall _ t args => 1 + t.size + sizeList args
  | .select e _ _ => 1 + e.size
  | .list es => 1 + sizeList es
  | .map es => 1 + sizeEntries es
  | .struct _ _ vs => 1 + sizeList vs
  | .comp _ r _ i c s res => 1 + r.size + i.size + c.size + s.size + res.size
  | .unspecified => 1
def sizeList : List Expr → Nat
  | [] => 0
  | e :: es => e.size + sizeList es
def sizeEntries : List (Expr × Expr) → Nat
  | [] => 0
  | (k, v) :: es => k.size + v.size + sizeEntries es
end

end Cel
