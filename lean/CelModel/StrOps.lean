import CelModel.Value
/-!
# String and byte-string primitives of Rust `std` used by the built-ins
-/
namespace Cel

/-- `char::encode_utf8` -/
def utf8Encode (c : Char) : List UInt8 :=
  let n := c.toNat
  if n < 0x80 then [n.toUInt8]
  else if n < 0x800 then [(0xC0 + n / 64).toUInt8, (0x80 + n % 64).toUInt8]
  else if n < 0x10000 then
    [(0xE0 + n / 4096).toUInt8, (0x80 + n / 64 % 64).toUInt8, (0x80 + n % 64).toUInt8]
  else
    [(0xF0 + n / 262144).toUInt8, (0x80 + n / 4096 % 64).toUInt8, (0x80 + n / 64 % 64).toUInt8,
     (0x80 + n % 64).toUInt8]

/-- `str::as_bytes` -/
def strToBytes : Str → List UInt8
  | [] => []
  | c :: cs => utf8Encode c ++ strToBytes cs

def hexDigitChar (n : Nat) : Char := if n < 10 then Char.ofNat (48 + n) else Char.ofNat (87 + n)
/-- `x` followed by the hex digits of the UTF-8 encoding (wire format of strings) -/
def hexOfStr (s : Str) : String :=
  String.ofList ('x' :: (strToBytes s).foldr (fun b acc =>
    hexDigitChar (b.toNat / 16) :: hexDigitChar (b.toNat % 16) :: acc) [])

def isCont (b : UInt8) : Bool := 0x80 ≤ b && b ≤ 0xBF
def replacement : Char := Char.ofNat 0xFFFD

/-- `String::from_utf8_lossy`: every maximal ill-formed subpart becomes U+FFFD -/
def utf8Lossy : (fuel : Nat) → List UInt8 → Str
  | 0, _ => []
  | _, [] => []
  | fuel + 1, b :: rest =>
    let n := b.toNat
    if n < 0x80 then Char.ofNat n :: utf8Lossy fuel rest
    else if 0xC2 ≤ n && n ≤ 0xDF then
      match rest with
      | b1 :: r1 => if isCont b1 then Char.ofNat ((n - 0xC0) * 64 + (b1.toNat - 0x80)) :: utf8Lossy fuel r1
                    else replacement :: utf8Lossy fuel rest
      | [] => [replacement]
    else if 0xE0 ≤ n && n ≤ 0xEF then
      let lo : Nat := if n == 0xE0 then 0xA0 else 0x80
      let hi : Nat := if n == 0xED then 0x9F else 0xBF
      match rest with
      | b1 :: r1 =>
        if lo ≤ b1.toNat && b1.toNat ≤ hi then
          match r1 with
          | b2 :: r2 =>
            if isCont b2 then
              Char.ofNat ((n - 0xE0) * 4096 + (b1.toNat - 0x80) * 64 + (b2.toNat - 0x80)) :: utf8Lossy fuel r2
            else replacement :: utf8Lossy fuel r1
          | [] => [replacement]
        else replacement :: utf8Lossy fuel rest
      | [] => [replacement]
    else if 0xF0 ≤ n && n ≤ 0xF4 then
      let lo : Nat := if n == 0xF0 then 0x90 else 0x80
      let hi : Nat := if n == 0xF4 then 0x8F else 0xBF
      match rest with
      | b1 :: r1 =>
        if lo ≤ b1.toNat && b1.toNat ≤ hi then
          match r1 with
          | b2 :: r2 =>
            if isCont b2 then
              match r2 with
              | b3 :: r3 =>
                if isCont b3 then
                  Char.ofNat ((n - 0xF0) * 262144 + (b1.toNat - 0x80) * 4096 + (b2.toNat - 0x80) * 64
                    + (b3.toNat - 0x80)) :: utf8Lossy fuel r3
                else replacement :: utf8Lossy fuel r2
              | [] => [replacement]
            else replacement :: utf8Lossy fuel r1
          | [] => [replacement]
        else replacement :: utf8Lossy fuel rest
      | [] => [replacement]
    else replacement :: utf8Lossy fuel rest

def bytesToStrLossy (b : List UInt8) : Str := utf8Lossy (b.length + 1) b

/-- strict UTF-8 decoding (wire format only) -/
def isPrefixOf [BEq α] : List α → List α → Bool
  | [], _ => true
  | _ :: _, [] => false
  | a :: as, b :: bs => a == b && isPrefixOf as bs

/-- `str::contains(&str)` / `windows(n).any(..)`: contiguous sub-list test -/
def isInfixOf [BEq α] (needle : List α) : List α → Bool
  | [] => needle.isEmpty
  | b :: bs => isPrefixOf needle (b :: bs) || isInfixOf needle bs

def isSuffixOf [BEq α] (suffix l : List α) : Bool := isPrefixOf suffix.reverse l.reverse

/-- `str.get(idx..idx+1)`: the one-byte character starting at byte offset `idx`, if any -/
def strByteAt : Str → Nat → Option Char
  | [], _ => none
  | c :: cs, 0 => if utf8Len c == 1 then some c else none
  | c :: cs, idx + 1 => if utf8Len c ≤ idx + 1 then strByteAt cs (idx + 1 - utf8Len c) else none

/-- `str::parse::<i64>()` / `::<u64>()`: optional sign, one or more ASCII digits -/
def parseIntText (allowMinus : Bool) (s : Str) : Option Int :=
  let (neg, body) := match s with
    | '-' :: r => (true, r)
    | '+' :: r => (false, r)
    | r => (false, r)
  if neg && !allowMinus then none
  else if body.isEmpty || !body.all (fun c => '0' ≤ c && c ≤ '9') then none
  else
    let n : Nat := body.foldl (fun n c => n * 10 + (c.toNat - 48)) 0
    some (if neg then -(n : Int) else n)

end Cel
